/* C08: every public call returns with all internal locks released.
 *
 * One case = one API point (table below; index = case % npoints) on a fresh
 * fixture: a dry run measures how many allocations and wrapped system calls
 * the call performs, then the same call (same per-case PRNG, so the same
 * arguments) is repeated on fresh fixtures under injected faults:
 *   oom n      – the n-th allocation of the call fails           (memfault)
 *   oomall n   – every allocation from the n-th on fails
 *   sys S k E  – the k-th call of S fails with errno E            (sysfault)
 * quick: a few faults drawn at random per case; thorough: all of them.
 *
 * Oracle (independent of the library: lockmon's per-thread ledger):
 *   - lm_held_now() after every checked call == its value before the point
 *     (explicit lock APIs are bracketed by the harness and must balance);
 *   - no ledger violation (unlock-not-held, re-lock of a non-recursive lock,
 *     lock freed while held);
 *   - consequence: a second thread takes and releases every lock of the
 *     fixture through public calls; it must finish (watchdog: inconclusive,
 *     unless the ledger already showed the leak).
 */
#include "vh.h"
#include <pthread.h>
#include <semaphore.h>
#include <sys/mman.h>
#include <sys/wait.h>
#include <sys/prctl.h>
#include <unistd.h>
#include <fcntl.h>
#include <errno.h>
#include <signal.h>
#include <limits.h>
#include <sys/socket.h>
#include <sys/uio.h>
#include <netinet/in.h>
#include <arpa/inet.h>
#include <event2/event.h>
#include <event2/thread.h>
#include <event2/buffer.h>
#include <event2/buffer_compat.h>
#include <event2/bufferevent.h>
#include <event2/listener.h>
#include <event2/dns.h>
#include <event2/http.h>
#include <event2/watch.h>
#include <event2/util.h>
#include "event-internal.h"
#include "evthread-internal.h"
#include "evbuffer-internal.h"
#include "bufferevent-internal.h"
#include "util-internal.h"
#include "mm-internal.h"
#include <event2/keyvalq_struct.h>
#include <sys/queue.h>

int __real_close(int);
ssize_t __real_write(int, const void *, size_t);
ssize_t __real_read(int, void *, size_t);
int __real_socket(int, int, int);
int __real_connect(int, const struct sockaddr *, socklen_t);
ssize_t __real_sendto(int, const void *, size_t, int, const struct sockaddr *, socklen_t);
ssize_t __real_recvfrom(int, void *, size_t, int, struct sockaddr *, socklen_t *);
ssize_t __real_send(int, const void *, size_t, int);
ssize_t __real_recv(int, void *, size_t, int);
int __real_clock_gettime(clockid_t, struct timespec *);

static void xs_add(const char *name, long n);
#define xs(name) xs_add((name), 1)
enum { N_EV = 1, N_BUF = 2, N_BEV = 4, N_LIS = 8, N_DNS = 16, N_HTTP = 32, N_WATCH = 64, N_NOBASE = 128, N_DSRV = 256 };

struct fx {
	unsigned needs;
	struct event_base *base;
	int sp[2], sp2[2], regfd, closedfd;
	struct event *ev_io, *ev_wr, *ev_tmr, *ev_sig, *ev_reg, *ev_closed, *ev_fin, *ev_user;
	struct evbuffer *eb, *ebl, *ebf, *ebd;
	struct evbuffer_cb_entry *cbe;
	struct evbuffer_file_segment *seg;
	struct bufferevent *bs, *bp[2], *bf, *bc;
	struct ev_token_bucket_cfg *tb;
	struct bufferevent_rate_limit_group *grp;
	struct evconnlistener *lis; int lis_port;
	struct evdns_base *dns; int ns_fd, ns_port;
	struct evdns_server_port *dport; int dsrv_fd, dsrv_port;
	struct evdns_server_request *dsreq;
	struct evdns_request *dreq;
	struct evdns_getaddrinfo_request *gai;
	struct evhttp *http; int http_port; struct evhttp_bound_socket *hbound;
	struct evhttp_connection *hc;
	struct evhttp_request *req, *srv_req;
	int srv_mode, sigctl;
	struct event *ev_sigctl;
	struct evwatch *wp, *wc, *guard;
	long iters;
	int held0;
	char leak_at[160];
	int unbalanced;
	long ncb;
};

static char hostsfile[256], resolvfile[256], datafile[256];
static const char *selfexe;
static int tainted;
static long n_logs;

/* ------------------------------------------------------------------ second thread */
static pthread_t prober;
static sem_t pr_go, pr_done;
static struct fx *pr_fx;
static volatile int pr_stage;

static void probe_locks(struct fx *f)
{
	pr_stage = 1;
	if (f->base) (void)event_base_got_break(f->base);
	pr_stage = 2;
	if (f->ebl) { evbuffer_lock(f->ebl); evbuffer_unlock(f->ebl); }
	if (f->ebd) { evbuffer_lock(f->ebd); evbuffer_unlock(f->ebd); }
	pr_stage = 3;
	if (f->bs) { bufferevent_lock(f->bs); bufferevent_unlock(f->bs); }
	if (f->bp[0]) { bufferevent_lock(f->bp[0]); bufferevent_unlock(f->bp[0]); }
	if (f->bp[1]) { bufferevent_lock(f->bp[1]); bufferevent_unlock(f->bp[1]); }
	if (f->bf) { bufferevent_lock(f->bf); bufferevent_unlock(f->bf); }
	if (f->bc) { bufferevent_lock(f->bc); bufferevent_unlock(f->bc); }
	pr_stage = 4;
	if (f->grp) (void)bufferevent_rate_limit_group_get_read_limit(f->grp);
	pr_stage = 5;
	if (f->lis) (void)evconnlistener_get_fd(f->lis);
	pr_stage = 6;
	if (f->dns) (void)evdns_base_count_nameservers(f->dns);
	pr_stage = 7;
}
static void *prober_main(void *a)
{
	(void)a;
	for (;;) {
		while (sem_wait(&pr_go) != 0) ;
		probe_locks(pr_fx);
		sem_post(&pr_done);
	}
	return NULL;
}
static void prober_start(void)
{
	sem_init(&pr_go, 0, 0); sem_init(&pr_done, 0, 0);
	pthread_create(&prober, NULL, prober_main, NULL);
}
/* returns 1 if the prober finished within ms */
static int prober_wait(long ms)
{
	struct timespec ts;
	__real_clock_gettime(CLOCK_REALTIME, &ts);
	ts.tv_sec += ms / 1000; ts.tv_nsec += (ms % 1000) * 1000000L;
	if (ts.tv_nsec >= 1000000000L) { ts.tv_sec++; ts.tv_nsec -= 1000000000L; }
	for (;;) {
		if (sem_timedwait(&pr_done, &ts) == 0) return 1;
		if (errno == ETIMEDOUT) return 0;
	}
}

/* ------------------------------------------------------------------ callbacks */
static long n_runaway;
static void ev_cb(evutil_socket_t fd, short what, void *arg)
{
	struct fx *f = arg; char tmp[4096];
	if ((what & EV_READ) && fd >= 0 && fd == f->sp[0]) (void)__real_recv(fd, tmp, sizeof(tmp), MSG_DONTWAIT);
	if (++f->ncb > 20000 && f->base) { n_runaway++; event_base_loopbreak(f->base); } /* level-triggered event that cannot be drained */
}
/* a signal callback (several deliveries pending) that controls the loop or releases itself: the closure that
 * runs it walks ev_ncalls with the base lock dropped around each call and has early exits of its own */
static void sig_ctl_cb(evutil_socket_t fd, short what, void *arg)
{
	struct fx *f = arg; (void)fd; (void)what; f->ncb++;
	switch (f->sigctl) {
	case 0: event_base_loopbreak(f->base); break;
	case 1: event_base_loopcontinue(f->base); break;
	case 2: event_base_loopexit(f->base, NULL); break;
	case 3: if (f->ev_sigctl) event_del(f->ev_sigctl); break;
	default: break;
	}
}
static void ev_fin_cb(struct event *ev, void *arg) { struct fx *f = arg; (void)ev; f->ncb++; }
static void ebuf_cb(struct evbuffer *b, const struct evbuffer_cb_info *info, void *arg) { struct fx *f = arg; (void)b; (void)info; f->ncb++; }
static void bev_rcb(struct bufferevent *b, void *arg) { struct fx *f = arg; f->ncb++; evbuffer_drain(bufferevent_get_input(b), 1 << 20); }
static void bev_wcb(struct bufferevent *b, void *arg) { struct fx *f = arg; (void)b; f->ncb++; }
static void bev_ecb(struct bufferevent *b, short what, void *arg) { struct fx *f = arg; (void)b; (void)what; f->ncb++; }
static enum bufferevent_filter_result filt_cb(struct evbuffer *src, struct evbuffer *dst, ev_ssize_t lim,
    enum bufferevent_flush_mode mode, void *ctx)
{
	(void)lim; (void)mode; (void)ctx;
	if (evbuffer_get_length(src) == 0) return BEV_NEED_MORE;
	evbuffer_add_buffer(dst, src);
	return BEV_OK;
}
static void filt_free(void *ctx) { (void)ctx; }
static void lis_cb(struct evconnlistener *l, evutil_socket_t fd, struct sockaddr *sa, int slen, void *arg)
{ struct fx *f = arg; (void)l; (void)sa; (void)slen; f->ncb++; __real_close(fd); }
static void lis_ecb(struct evconnlistener *l, void *arg) { struct fx *f = arg; (void)l; f->ncb++; }
static void dns_cb(int result, char type, int count, int ttl, void *addrs, void *arg)
{ struct fx *f = arg; (void)result; (void)type; (void)count; (void)ttl; (void)addrs; f->ncb++; f->dreq = NULL; }
static void gai_cb(int result, struct evutil_addrinfo *res, void *arg)
{ struct fx *f = arg; (void)result; f->ncb++; f->gai = NULL; if (res) evutil_freeaddrinfo(res); }
static void dsrv_cb(struct evdns_server_request *req, void *arg)
{
	struct fx *f = arg; f->ncb++;
	if (f->dsreq) { evdns_server_request_drop(req); return; }
	f->dsreq = req;
}
static void http_done_cb(struct evhttp_request *req, void *arg) { struct fx *f = arg; (void)req; f->ncb++; }
static void http_chunk_end(struct evhttp_connection *c, void *arg) { (void)c; (void)arg; }
static void http_gen_cb(struct evhttp_request *req, void *arg)
{
	struct fx *f = arg; f->ncb++;
	switch (f->srv_mode) {
	case 0: evhttp_send_reply(req, 200, "OK", NULL); break;
	case 1: evhttp_send_error(req, 404, NULL); break;
	case 2:
		evhttp_send_reply_start(req, 200, "OK");
		{ struct evbuffer *b = evbuffer_new(); if (b) { evbuffer_add(b, "chunk", 5); evhttp_send_reply_chunk_with_cb(req, b, http_chunk_end, f); evbuffer_free(b); } }
		evhttp_send_reply_end(req);
		break;
	default:
		if (f->srv_req) evhttp_send_reply(req, 503, "busy", NULL); else f->srv_req = req;
		break;
	}
}
/* every fixture: stop a loop that cannot make progress (e.g. a readable socket
 * whose reads keep failing under an injected fault) */
static void guard_cb(struct evwatch *w, const struct evwatch_check_cb_info *i, void *arg)
{
	struct fx *f = arg; (void)w; (void)i;
	if (++f->iters > 2000) { n_runaway++; f->iters = 0; event_base_loopbreak(f->base); }
}
static void watch_p_cb(struct evwatch *w, const struct evwatch_prepare_cb_info *i, void *arg) { struct fx *f = arg; struct timeval tv; (void)w; f->ncb++; (void)evwatch_prepare_get_timeout(i, &tv); }
static void watch_c_cb(struct evwatch *w, const struct evwatch_check_cb_info *i, void *arg) { struct fx *f = arg; (void)w; (void)i; f->ncb++; }
static void once_cb(evutil_socket_t fd, short what, void *arg) { struct fx *f = arg; (void)fd; (void)what; f->ncb++; }
static void log_cb(int sev, const char *msg) { (void)sev; (void)msg; n_logs++; }
static void dns_log_cb(int w, const char *msg) { (void)w; (void)msg; n_logs++; }
static const char *cur_point = "?";
#include <setjmp.h>
static jmp_buf fatal_jmp;
static int fatal_armed;
/* CALIBRATED: the library chooses to terminate the process (event_errx) on a few
 * failures, e.g. event_reinit() when the backend cannot be re-created.  A call
 * that does not return is outside the property; the fixture is abandoned. */
static void fatal_cb(int err)
{
	if (fatal_armed) { fatal_armed = 0; longjmp(fatal_jmp, 1); }
	vh_viol("C08:fatal-exit", "library called its fatal handler (err=%d) outside a swept call, point %s", err, cur_point);
	fflush(stdout);
	_exit(3);
}

/* ------------------------------------------------------------------ fixture */
static int udp_bound(int *port)
{
	struct sockaddr_in sin; socklen_t sl = sizeof(sin);
	int fd = __real_socket(AF_INET, SOCK_DGRAM | SOCK_NONBLOCK, 0);
	if (fd < 0) return -1;
	memset(&sin, 0, sizeof(sin)); sin.sin_family = AF_INET; sin.sin_addr.s_addr = htonl(0x7f000001);
	if (bind(fd, (struct sockaddr *)&sin, sizeof(sin)) < 0) { __real_close(fd); return -1; }
	getsockname(fd, (struct sockaddr *)&sin, &sl);
	*port = ntohs(sin.sin_port);
	return fd;
}
static int fd_port(int fd)
{
	struct sockaddr_in sin; socklen_t sl = sizeof(sin);
	if (getsockname(fd, (struct sockaddr *)&sin, &sl) < 0) return 0;
	return ntohs(sin.sin_port);
}
static int tcp_connect_raw(int port)
{
	struct sockaddr_in sin;
	int fd = __real_socket(AF_INET, SOCK_STREAM, 0);
	if (fd < 0) return -1;
	memset(&sin, 0, sizeof(sin)); sin.sin_family = AF_INET; sin.sin_addr.s_addr = htonl(0x7f000001); sin.sin_port = htons(port);
	if (__real_connect(fd, (struct sockaddr *)&sin, sizeof(sin)) < 0) { __real_close(fd); return -1; }
	fcntl(fd, F_SETFL, fcntl(fd, F_GETFL) | O_NONBLOCK);
	return fd;
}
static int bev_opts(vh_rng *r)
{
	int o = BEV_OPT_THREADSAFE;
	if (vh_chance(r, 1, 2)) { o |= BEV_OPT_DEFER_CALLBACKS; if (vh_chance(r, 1, 3)) o |= BEV_OPT_UNLOCK_CALLBACKS; }
	return o;
}

static void fx_build(struct fx *f, unsigned needs, vh_rng *r)
{
	struct event_config *cfg;
	struct timeval tv = { 3600, 0 };
	int v;
	memset(f, 0, sizeof(*f));
	f->needs = needs;
	f->sp[0] = f->sp[1] = f->sp2[0] = f->sp2[1] = f->regfd = f->closedfd = f->ns_fd = f->dsrv_fd = -1;
	f->srv_mode = (int)vh_below(r, 4);
	if (needs & N_NOBASE) return;
	cfg = event_config_new();
	v = (int)vh_below(r, 8);
	if (v == 1) event_config_set_flag(cfg, EVENT_BASE_FLAG_EPOLL_USE_CHANGELIST);
	if (v == 2) event_config_avoid_method(cfg, "epoll");
	if (v == 3) { event_config_avoid_method(cfg, "epoll"); event_config_avoid_method(cfg, "poll"); }
	if (v == 4) event_config_set_flag(cfg, EVENT_BASE_FLAG_PRECISE_TIMER);
	if (v == 5) event_config_set_flag(cfg, EVENT_BASE_FLAG_USE_SIGNALFD);
	f->base = event_base_new_with_config(cfg);
	event_config_free(cfg);
	if (!f->base) { fprintf(stderr, "fixture: no base\n"); exit(2); }
	if (vh_chance(r, 1, 3)) event_base_priority_init(f->base, 3);
	f->guard = evwatch_check_new(f->base, guard_cb, f);
	if (needs & N_EV) {
		evutil_socketpair(AF_UNIX, SOCK_STREAM, 0, f->sp);
		evutil_make_socket_nonblocking(f->sp[0]); evutil_make_socket_nonblocking(f->sp[1]);
		f->regfd = open(selfexe, O_RDONLY);
		f->closedfd = dup(f->sp[0]); __real_close(f->closedfd);
		f->ev_io = event_new(f->base, f->sp[0], EV_READ | EV_PERSIST, ev_cb, f);
		f->ev_wr = event_new(f->base, f->sp[1], EV_WRITE, ev_cb, f);
		f->ev_tmr = event_new(f->base, -1, EV_PERSIST, ev_cb, f);
		f->ev_sig = event_new(f->base, SIGUSR1, EV_SIGNAL | EV_PERSIST, ev_cb, f);
		f->ev_reg = event_new(f->base, f->regfd, EV_READ, ev_cb, f);
		f->ev_closed = event_new(f->base, f->closedfd, EV_READ | EV_WRITE, ev_cb, f);
		f->ev_fin = event_new(f->base, -1, EV_FINALIZE, ev_cb, f);
		f->ev_user = event_new(f->base, -1, 0, ev_cb, f);
		event_add(f->ev_io, NULL);
		event_add(f->ev_tmr, &tv);
		if (vh_chance(r, 1, 2)) event_add(f->ev_sig, NULL);
	}
	if (needs & N_BUF) {
		f->eb = evbuffer_new();
		f->ebl = evbuffer_new(); evbuffer_enable_locking(f->ebl, NULL);
		f->ebf = evbuffer_new(); evbuffer_add(f->ebf, "frozen-data\nline2\n", 18);
		evbuffer_freeze(f->ebf, 0); evbuffer_freeze(f->ebf, 1);
		f->ebd = evbuffer_new(); evbuffer_enable_locking(f->ebd, NULL); evbuffer_defer_callbacks(f->ebd, f->base);
		evbuffer_add_cb(f->ebd, ebuf_cb, f);
		f->cbe = evbuffer_add_cb(f->ebl, ebuf_cb, f);
		evbuffer_add(f->eb, "hello world\r\nsecond line\nthird", 30);
		evbuffer_add(f->ebl, "0123456789abcdef\n", 17);
		if (vh_chance(r, 1, 2)) evbuffer_add_reference(f->ebl, "refdata-refdata", 15, NULL, NULL);
	}
	if (needs & N_BEV) {
		evutil_socketpair(AF_UNIX, SOCK_STREAM, 0, f->sp2);
		evutil_make_socket_nonblocking(f->sp2[0]); evutil_make_socket_nonblocking(f->sp2[1]);
		f->bs = bufferevent_socket_new(f->base, f->sp2[0], bev_opts(r));
		bufferevent_setcb(f->bs, bev_rcb, bev_wcb, bev_ecb, f);
		bufferevent_enable(f->bs, EV_READ | EV_WRITE);
		bufferevent_pair_new(f->base, bev_opts(r), f->bp);
		bufferevent_setcb(f->bp[0], bev_rcb, bev_wcb, bev_ecb, f);
		bufferevent_setcb(f->bp[1], bev_rcb, bev_wcb, bev_ecb, f);
		bufferevent_enable(f->bp[0], EV_READ | EV_WRITE);
		bufferevent_enable(f->bp[1], EV_READ | EV_WRITE);
		f->bf = bufferevent_filter_new(f->bp[0], filt_cb, filt_cb, bev_opts(r), filt_free, f);
		bufferevent_setcb(f->bf, bev_rcb, bev_wcb, bev_ecb, f);
		bufferevent_enable(f->bf, EV_READ | EV_WRITE);
		f->bc = bufferevent_socket_new(f->base, -1, bev_opts(r) | BEV_OPT_CLOSE_ON_FREE);
		bufferevent_setcb(f->bc, bev_rcb, bev_wcb, bev_ecb, f);
		{
			struct timeval tick = { 0, 100000 };
			f->tb = ev_token_bucket_cfg_new(1000, 2000, 1000, 2000, &tick);
			f->grp = bufferevent_rate_limit_group_new(f->base, f->tb);
		}
		if (vh_chance(r, 1, 2)) bufferevent_add_to_rate_limit_group(f->bs, f->grp);
		if (vh_chance(r, 1, 3)) bufferevent_set_rate_limit(f->bp[1], f->tb);
	}
	if (needs & N_LIS) {
		struct sockaddr_in sin;
		memset(&sin, 0, sizeof(sin)); sin.sin_family = AF_INET; sin.sin_addr.s_addr = htonl(0x7f000001);
		f->lis = evconnlistener_new_bind(f->base, lis_cb, f,
		    LEV_OPT_CLOSE_ON_FREE | LEV_OPT_REUSEABLE | LEV_OPT_THREADSAFE | (vh_chance(r, 1, 3) ? LEV_OPT_DISABLED : 0),
		    16, (struct sockaddr *)&sin, sizeof(sin));
		if (f->lis) { evconnlistener_set_error_cb(f->lis, lis_ecb); f->lis_port = fd_port(evconnlistener_get_fd(f->lis)); }
	}
	if (needs & N_DNS) {
		char buf[64];
		f->ns_fd = udp_bound(&f->ns_port);
		f->dns = evdns_base_new(f->base, vh_chance(r, 1, 4) ? EVDNS_BASE_DISABLE_WHEN_INACTIVE : 0);
		snprintf(buf, sizeof(buf), "127.0.0.1:%d", f->ns_port);
		evdns_base_nameserver_ip_add(f->dns, buf);
		evdns_base_load_hosts(f->dns, hostsfile);
		evdns_base_set_option(f->dns, "timeout", "1");
		evdns_base_set_option(f->dns, "attempts", "1");
	}
	if (needs & N_DSRV) {
		f->dsrv_fd = udp_bound(&f->dsrv_port);
		f->dport = evdns_add_server_port_with_base(f->base, f->dsrv_fd, 0, dsrv_cb, f);
	}
	if (needs & N_HTTP) {
		f->http = evhttp_new(f->base);
		f->hbound = evhttp_bind_socket_with_handle(f->http, "127.0.0.1", 0);
		if (f->hbound) f->http_port = fd_port(evhttp_bound_socket_get_fd(f->hbound));
		evhttp_set_gencb(f->http, http_gen_cb, f);
		evhttp_set_cb(f->http, "/fixed", http_gen_cb, f);
		f->hc = evhttp_connection_base_new(f->base, NULL, "127.0.0.1", (ev_uint16_t)f->http_port);
		f->req = evhttp_request_new(http_done_cb, f);
	}
	if (needs & N_WATCH) {
		f->wp = evwatch_prepare_new(f->base, watch_p_cb, f);
		f->wc = evwatch_check_new(f->base, watch_c_cb, f);
	}
}

static void fx_teardown(struct fx *f)
{
	int i;
	/* let deferred reply callbacks run first: evdns_base_free() does not cancel
	 * reply callbacks that are already scheduled (lifetime question of C34/C38, not a lock statement) */
	if (f->gai) { evdns_getaddrinfo_cancel(f->gai); f->gai = NULL; }   /* its cancellation callbacks are deferred too */
	if (f->base && (f->dns || f->dport)) for (i = 0; i < 3; i++) { f->iters = 0; event_base_loop(f->base, EVLOOP_ONCE | EVLOOP_NONBLOCK); }
	if (f->srv_req) { evhttp_send_reply(f->srv_req, 200, "OK", NULL); f->srv_req = NULL; }
	if (f->req) { evhttp_request_free(f->req); f->req = NULL; }
	if (f->hc) { evhttp_connection_free(f->hc); f->hc = NULL; }
	if (f->http) { evhttp_free(f->http); f->http = NULL; }
	if (f->gai) { evdns_getaddrinfo_cancel(f->gai); f->gai = NULL; }
	if (f->dsreq) { evdns_server_request_drop(f->dsreq); f->dsreq = NULL; }
	if (f->dport) { evdns_close_server_port(f->dport); f->dport = NULL; f->dsrv_fd = -1; /* closed by the port */ }
	if (f->dns) { evdns_base_free(f->dns, 1); f->dns = NULL; }
	if (f->lis) { evconnlistener_free(f->lis); f->lis = NULL; }
	if (f->bf) { bufferevent_free(f->bf); f->bf = NULL; }
	if (f->bs) { bufferevent_free(f->bs); f->bs = NULL; }
	if (f->bc) { bufferevent_free(f->bc); f->bc = NULL; }
	if (f->bp[0]) { bufferevent_free(f->bp[0]); f->bp[0] = NULL; }
	if (f->bp[1]) { bufferevent_free(f->bp[1]); f->bp[1] = NULL; }
	if (f->base) for (i = 0; i < 3; i++) { f->iters = 0; event_base_loop(f->base, EVLOOP_ONCE | EVLOOP_NONBLOCK); }
	if (f->grp) { bufferevent_rate_limit_group_free(f->grp); f->grp = NULL; }
	if (f->tb) { ev_token_bucket_cfg_free(f->tb); f->tb = NULL; }
	if (f->eb) evbuffer_free(f->eb);
	if (f->ebl) evbuffer_free(f->ebl);
	if (f->ebf) evbuffer_free(f->ebf);
	if (f->ebd) evbuffer_free(f->ebd);
	f->eb = f->ebl = f->ebf = f->ebd = NULL;
	if (f->seg) { evbuffer_file_segment_free(f->seg); f->seg = NULL; }
	if (f->wp) evwatch_free(f->wp);
	if (f->wc) evwatch_free(f->wc);
	f->wp = f->wc = NULL;
#define FREE_EV(e) do { if (f->e) { event_free(f->e); f->e = NULL; } } while (0)
	FREE_EV(ev_io); FREE_EV(ev_wr); FREE_EV(ev_tmr); FREE_EV(ev_sig); FREE_EV(ev_reg); FREE_EV(ev_closed); FREE_EV(ev_fin); FREE_EV(ev_user);
	if (f->base) { event_base_free(f->base); f->base = NULL; }
	for (i = 0; i < 2; i++) {
		if (f->sp[i] >= 0) __real_close(f->sp[i]);
		if (f->sp2[i] >= 0) __real_close(f->sp2[i]);
	}
	if (f->regfd >= 0) __real_close(f->regfd);
	if (f->ns_fd >= 0) __real_close(f->ns_fd);
	if (f->dsrv_fd >= 0) __real_close(f->dsrv_fd);
}

/* after every checked call */
static void ck(struct fx *f, const char *what)
{
	f->iters = 0;
	if (lm_held_now() != f->held0 && !f->leak_at[0])
		snprintf(f->leak_at, sizeof(f->leak_at), "%s", what);
}
#define C(...) do { __VA_ARGS__; ck(f, #__VA_ARGS__); } while (0)
static void step(struct fx *f, int n)
{
	int i;
	for (i = 0; i < n; i++) C(event_base_loop(f->base, EVLOOP_ONCE | EVLOOP_NONBLOCK));
}

/* ------------------------------------------------------------------ helpers used by points */
static struct timeval tv_of(long us) { struct timeval tv; tv.tv_sec = us / 1000000; tv.tv_usec = us % 1000000; return tv; }
static const struct timeval *pick_tv(vh_rng *r, struct timeval *store)
{
	switch (vh_below(r, 6)) {
	case 0: return NULL;
	case 1: *store = tv_of(0); return store;
	case 2: *store = tv_of(1); return store;
	case 3: *store = tv_of(10000); return store;
	case 4: *store = tv_of(3600L * 1000000L); return store;
	default: store->tv_sec = -1; store->tv_usec = 0; return store; /* awkward: negative */
	}
}
static int foreach_cb(const struct event_base *b, const struct event *e, void *arg) { (void)b; (void)e; (void)arg; return 0; }
static FILE *devnull;
/* minimal DNS messages */
static size_t dns_query(unsigned char *p, unsigned id, const char *name, int type)
{
	size_t o = 12; const char *s = name;
	memset(p, 0, 12); p[0] = id >> 8; p[1] = id & 255; p[2] = 1; p[5] = 1;
	while (*s) {
		const char *d = strchr(s, '.'); size_t l = d ? (size_t)(d - s) : strlen(s);
		p[o++] = (unsigned char)l; memcpy(p + o, s, l); o += l; s += l; if (*s == '.') s++;
	}
	p[o++] = 0; p[o++] = 0; p[o++] = (unsigned char)type; p[o++] = 0; p[o++] = 1;
	return o;
}
/* answer every query pending on the fake nameserver socket */
static int ns_answer(struct fx *f, int mode)
{
	unsigned char q[600]; struct sockaddr_in from; socklen_t fl = sizeof(from);
	int n, cnt = 0;
	while ((n = (int)__real_recvfrom(f->ns_fd, q, 512, MSG_DONTWAIT, (struct sockaddr *)&from, &fl)) > 12) {
		int qtype = q[n - 3];
		q[2] |= 0x80; q[3] = 0x80;
		if (mode == 0) { q[3] |= 3; }            /* NXDOMAIN */
		else if (mode == 1) { q[3] |= 2; }       /* SERVFAIL */
		else if (mode == 2) { n = 7; }           /* truncated garbage */
		else {                                    /* one answer */
			static const unsigned char a4[] = { 0xc0, 0x0c, 0, 1, 0, 1, 0, 0, 0, 60, 0, 4, 10, 1, 2, 3 };
			static const unsigned char a6[] = { 0xc0, 0x0c, 0, 28, 0, 1, 0, 0, 0, 60, 0, 16, 0x20, 1, 0xd, 0xb8, 0,0,0,0,0,0,0,0,0,0,0,1 };
			if (qtype == 1) { memcpy(q + n, a4, sizeof(a4)); n += sizeof(a4); q[7] = 1; }
			else if (qtype == 28) { memcpy(q + n, a6, sizeof(a6)); n += sizeof(a6); q[7] = 1; }
		}
		__real_sendto(f->ns_fd, q, (size_t)n, 0, (struct sockaddr *)&from, fl);
		cnt++; fl = sizeof(from);
	}
	return cnt;
}
static int raw_udp_to(int port, const void *p, size_t n)
{
	struct sockaddr_in sin; int fd = __real_socket(AF_INET, SOCK_DGRAM, 0);
	memset(&sin, 0, sizeof(sin)); sin.sin_family = AF_INET; sin.sin_addr.s_addr = htonl(0x7f000001); sin.sin_port = htons(port);
	__real_sendto(fd, p, n, 0, (struct sockaddr *)&sin, sizeof(sin));
	return fd;
}
static void fill_hints(struct evutil_addrinfo *h, vh_rng *r)
{
	static const int fam[] = { PF_UNSPEC, PF_INET, PF_INET6 };
	memset(h, 0, sizeof(*h));
	h->ai_family = VH_PICK(r, fam);
	h->ai_socktype = SOCK_STREAM; h->ai_protocol = IPPROTO_TCP;
	if (vh_chance(r, 1, 3)) h->ai_flags |= EVUTIL_AI_CANONNAME;
}

/* ------------------------------------------------------------------ points
 * X(id, "public function[.variant]", needs, statements…)  – `f` fixture, `r` PRNG */
#define POINTS_EVENT(X) \
X(base_new, "event_base_new", N_NOBASE, struct event_base *b; C(b = event_base_new()); if (b) { ck(f, "event_base_new"); C(event_base_free(b)); }) \
X(base_new_cfg, "event_base_new_with_config", N_NOBASE, struct event_config *c; struct event_base *b = NULL; struct timeval t = tv_of(1000); \
	C(c = event_config_new()); if (c) { \
	if (vh_chance(r,1,2)) C(event_config_avoid_method(c, vh_chance(r,1,2) ? "epoll" : "select")); \
	if (vh_chance(r,1,2)) C(event_config_set_flag(c, (int)(1u << vh_below(r, 8)))); \
	if (vh_chance(r,1,3)) C(event_config_require_features(c, (int)vh_below(r, 16))); \
	if (vh_chance(r,1,3)) C(event_config_set_max_dispatch_interval(c, &t, 4, 1)); \
	if (vh_chance(r,1,3)) C(event_config_set_num_cpus_hint(c, 4)); \
	C(b = event_base_new_with_config(c)); C(event_config_free(c)); } \
	if (b) { C(evthread_make_base_notifiable(b)); C(event_base_free(b)); }) \
X(base_free_nofin, "event_base_free_nofinalize", N_EV|N_WATCH, struct event_base *b = f->base; \
	C(event_free_finalize(0, f->ev_fin, ev_fin_cb)); f->ev_fin = NULL; \
	FREE_EV(ev_io); FREE_EV(ev_wr); FREE_EV(ev_tmr); FREE_EV(ev_sig); FREE_EV(ev_reg); FREE_EV(ev_closed); FREE_EV(ev_user); \
	f->wp = f->wc = NULL; f->base = NULL; C(event_base_free_nofinalize(b))) \
X(base_free_pending, "event_base_free.pending", N_EV|N_WATCH, struct event_base *b = f->base; struct timeval t = tv_of(5000); \
	C(event_base_once(b, -1, EV_TIMEOUT, once_cb, f, &t)); C(event_base_once(b, f->sp[1], EV_WRITE, once_cb, f, NULL)); \
	C(event_free_finalize(0, f->ev_fin, ev_fin_cb)); f->ev_fin = NULL; C(event_active(f->ev_user, EV_READ, 1)); \
	FREE_EV(ev_io); FREE_EV(ev_wr); FREE_EV(ev_tmr); FREE_EV(ev_sig); FREE_EV(ev_reg); FREE_EV(ev_closed); FREE_EV(ev_user); \
	f->wp = f->wc = NULL; f->base = NULL; C(event_base_free(b))) \
X(base_getters, "event_base_get_*", N_EV, struct timeval t; C(event_base_get_method(f->base)); C(event_base_get_features(f->base)); \
	C(event_base_get_npriorities(f->base)); C(event_base_get_num_events(f->base, EVENT_BASE_COUNT_ACTIVE|EVENT_BASE_COUNT_ADDED|EVENT_BASE_COUNT_VIRTUAL)); \
	C(event_base_get_max_events(f->base, EVENT_BASE_COUNT_ADDED, (int)vh_below(r,2))); C(event_base_get_running_event(f->base)); \
	C(event_base_get_signal_method(f->base)); C(event_base_gettimeofday_cached(f->base, &t)); C(event_base_update_cache_time(f->base)); \
	C(event_base_got_break(f->base)); C(event_base_got_exit(f->base)); C(event_get_supported_methods()); C(event_get_version()); \
	C(event_get_version_number()); C(event_get_struct_event_size()); C(event_gettime_monotonic(f->base, &t)); C(event_gettime_monotonic(NULL, &t))) \
X(base_dump, "event_base_dump_events", N_EV|N_BEV, C(event_active(f->ev_user, EV_WRITE, 1)); C(event_base_dump_events(f->base, devnull)); \
	C(event_base_foreach_event(f->base, foreach_cb, f)); C(event_base_foreach_event(f->base, NULL, f))) \
X(base_prio_init, "event_base_priority_init", N_EV, C(event_base_priority_init(f->base, (int)vh_range(r, -1, 300))); \
	C(event_active(f->ev_user, EV_READ, 1)); C(event_base_priority_init(f->base, 2))) \
X(base_common_to, "event_base_init_common_timeout", N_EV, struct timeval t = tv_of((long)vh_range(r, 0, 3000000)); const struct timeval *ct; int i; \
	C(ct = event_base_init_common_timeout(f->base, &t)); if (ct) C(event_add(f->ev_user, ct)); \
	for (i = 0; i < 3; i++) { t.tv_usec = (t.tv_usec + 7) % 1000000; C(event_base_init_common_timeout(f->base, &t)); } \
	if (ct) C(event_add(f->ev_wr, ct)); C(event_del(f->ev_user))) \
X(base_loopctl, "event_base_loopbreak/continue/exit", N_EV, struct timeval t; \
	C(event_base_loopbreak(f->base)); C(event_base_loopcontinue(f->base)); C(event_base_loopexit(f->base, pick_tv(r, &t))); \
	C(event_base_loopbreak(NULL)); C(event_base_loopcontinue(NULL)); step(f, 2)) \
X(base_loop, "event_base_loop", N_EV|N_WATCH, char ch = 'x'; struct timeval t = tv_of(0); __real_write(f->sp[1], &ch, 1); \
	C(event_add(f->ev_wr, NULL)); C(event_add(f->ev_user, &t)); C(event_active(f->ev_sig, EV_SIGNAL, 2)); \
	C(event_base_loop(f->base, EVLOOP_NONBLOCK)); C(event_base_loop(f->base, EVLOOP_ONCE | EVLOOP_NONBLOCK)); \
	C(event_base_loopexit(f->base, &t)); C(event_base_loop(f->base, EVLOOP_NO_EXIT_ON_EMPTY | EVLOOP_NONBLOCK)); C(event_base_loopbreak(f->base)); C(event_base_loop(f->base, EVLOOP_NONBLOCK))) \
X(base_loop_badfd, "event_base_loop.closedfd", N_EV, C(event_add(f->ev_closed, NULL)); C(event_add(f->ev_reg, NULL)); step(f, 2)) \
X(base_active_by, "event_base_active_by_fd/signal", N_EV, C(event_base_active_by_fd(f->base, f->sp[0], EV_READ|EV_WRITE)); \
	C(event_base_active_by_fd(f->base, 9999, EV_READ)); C(event_base_active_by_fd(f->base, -1, EV_TIMEOUT)); \
	C(event_base_active_by_signal(f->base, SIGUSR1)); C(event_base_active_by_signal(f->base, 63)); step(f, 1)) \
X(base_once_regfile, "event_base_once.regfile", N_EV, C(event_base_once(f->base, f->regfd, EV_READ, once_cb, f, NULL))) \
X(base_once_closed, "event_base_once.closedfd", N_EV, struct timeval t; C(event_base_once(f->base, f->closedfd, EV_READ|EV_WRITE, once_cb, f, pick_tv(r, &t)))) \
X(base_once_ok, "event_base_once", N_EV, struct timeval t; C(event_base_once(f->base, f->sp[1], EV_WRITE, once_cb, f, pick_tv(r, &t))); \
	C(event_base_once(f->base, -1, EV_TIMEOUT, once_cb, f, pick_tv(r, &t))); C(event_base_once(f->base, f->sp[0], EV_READ|EV_CLOSED, once_cb, f, NULL)); step(f, 1)) \
X(base_once_bad, "event_base_once.badargs", N_EV, C(event_base_once(NULL, -1, EV_TIMEOUT, once_cb, f, NULL)); \
	C(event_base_once(f->base, SIGUSR1, EV_SIGNAL, once_cb, f, NULL)); C(event_base_once(f->base, f->sp[0], EV_READ|EV_PERSIST, once_cb, f, NULL)); \
	C(event_base_once(f->base, -1, 0, once_cb, f, NULL))) \
X(base_reinit, "event_reinit", N_EV, C(event_reinit(f->base))) \
X(base_reinit_bad, "event_reinit.badfds", N_EV, C(event_del(f->ev_io)); C(event_add(f->ev_wr, NULL)); __real_close(f->sp[1]); f->sp[1] = -1; C(event_reinit(f->base)); C(event_del(f->ev_wr))) \
X(ev_new_free, "event_new/event_free", N_EV, struct event *e; C(e = event_new(f->base, f->sp[1], (short)(vh_below(r, 0x200) & ~EV_SIGNAL), ev_cb, f)); C(event_self_cbarg()); \
	if (e) { C(event_add(e, NULL)); C(event_free(e)); } C(e = event_new(f->base, -1, EV_SIGNAL|EV_READ, ev_cb, f)); if (e) C(event_free(e)); \
	C(e = event_new(f->base, 9999999, EV_SIGNAL, ev_cb, f)); if (e) { C(event_add(e, NULL)); C(event_free(e)); }) \
X(ev_assign, "event_assign", N_EV, struct event *e = mm_calloc(1, event_get_struct_event_size()); if (e) { \
	C(event_assign(e, f->base, f->sp[1], EV_WRITE|EV_PERSIST, ev_cb, f)); C(event_initialized(e)); C(event_base_set(f->base, e)); \
	C(event_add(e, NULL)); C(event_del(e)); C(event_debug_unassign(e)); C(event_assign(e, NULL, -1, 0, ev_cb, f)); mm_free(e); }) \
X(ev_add_io, "event_add.io", N_EV, struct timeval t; C(event_add(f->ev_wr, pick_tv(r, &t))); C(event_add(f->ev_io, pick_tv(r, &t))); C(event_add(f->ev_wr, NULL))) \
X(ev_add_regfile, "event_add.regfile", N_EV, struct timeval t; C(event_add(f->ev_reg, pick_tv(r, &t)))) \
X(ev_add_closed, "event_add.closedfd", N_EV, struct timeval t; C(event_add(f->ev_closed, pick_tv(r, &t)))) \
X(ev_add_timer, "event_add.timer", N_EV, struct timeval t; C(event_add(f->ev_user, pick_tv(r, &t))); C(event_add(f->ev_tmr, pick_tv(r, &t))); \
	C(event_remove_timer(f->ev_tmr)); C(event_remove_timer(f->ev_user))) \
X(ev_add_signal, "event_add.signal", N_EV, struct timeval t; struct event *e; C(event_add(f->ev_sig, pick_tv(r, &t))); \
	C(e = event_new(f->base, SIGUSR2, EV_SIGNAL, ev_cb, f)); if (e) { C(event_add(e, NULL)); C(event_del(e)); C(event_free(e)); } C(event_del(f->ev_sig))) \
X(ev_signal_loopctl, "signal callback: loopbreak/continue/exit/del during delivery", N_EV, struct event *e; f->sigctl = (int)vh_below(r, 5); \
	C(e = event_new(f->base, SIGUSR2, EV_SIGNAL|EV_PERSIST, sig_ctl_cb, f)); if (e) { f->ev_sigctl = e; C(event_add(e, NULL)); \
	C(event_active(e, EV_SIGNAL, (short)(1 + vh_below(r, 4)))); step(f, 2); C(event_del(e)); C(event_free(e)); f->ev_sigctl = NULL; }) \
X(loop_wait_fails, "event_base_loop whose backend wait fails (EINTR / EINVAL)", N_EV, vclk_fail_next_wait = vh_chance(r, 2, 3) ? EINTR : EINVAL; \
	C(event_base_loop(f->base, EVLOOP_ONCE | EVLOOP_NONBLOCK)); vclk_fail_next_wait = 0; step(f, 1)) \
X(ev_add_finalizing, "event_add.finalizing", N_EV, C(event_finalize(0, f->ev_fin, ev_fin_cb)); C(event_add(f->ev_fin, NULL)); C(event_del(f->ev_fin)); \
	C(event_active(f->ev_fin, EV_READ, 1)); step(f, 1)) \
X(ev_del, "event_del", N_EV, C(event_del(f->ev_io)); C(event_del(f->ev_io)); C(event_del_block(f->ev_tmr)); C(event_del_noblock(f->ev_sig)); \
	C(event_del(f->ev_user)); C(event_del(f->ev_closed))) \
X(ev_active, "event_active", N_EV, C(event_active(f->ev_io, EV_READ, 1)); C(event_active(f->ev_io, EV_WRITE, 1)); C(event_active(f->ev_sig, EV_SIGNAL, 3)); \
	C(event_active(f->ev_user, EV_TIMEOUT, 1)); C(event_del(f->ev_io)); step(f, 1)) \
X(ev_pending, "event_pending/getters", N_EV, struct timeval t; struct event_base *b; evutil_socket_t fd; short ev; event_callback_fn cb; void *arg; \
	C(event_pending(f->ev_io, EV_READ|EV_WRITE|EV_TIMEOUT|EV_SIGNAL, &t)); C(event_pending(f->ev_tmr, EV_TIMEOUT, &t)); C(event_pending(f->ev_user, 0xff, NULL)); \
	C(event_get_fd(f->ev_io)); C(event_get_base(f->ev_io)); C(event_get_events(f->ev_io)); C(event_get_callback(f->ev_io)); C(event_get_callback_arg(f->ev_io)); \
	C(event_get_priority(f->ev_io)); C(event_get_assignment(f->ev_io, &b, &fd, &ev, &cb, &arg)); C(event_initialized(f->ev_io))) \
X(ev_prio_set, "event_priority_set", N_EV, C(event_priority_set(f->ev_io, (int)vh_range(r, -1, 4))); C(event_active(f->ev_user, EV_READ, 1)); \
	C(event_priority_set(f->ev_user, 0))) \
X(ev_finalize, "event_finalize", N_EV, C(event_finalize(0, f->ev_user, ev_fin_cb)); \
	C(event_free_finalize(0, f->ev_io, ev_fin_cb)); f->ev_io = NULL; C(event_free_finalize(0, f->ev_fin, ev_fin_cb)); f->ev_fin = NULL; step(f, 2)) \
X(ev_debug_logging, "event_enable_debug_logging", N_EV, C(event_enable_debug_logging(EVENT_DBG_ALL)); C(event_add(f->ev_wr, NULL)); step(f, 1); \
	C(event_enable_debug_logging(EVENT_DBG_NONE))) \
X(watch_new_free, "evwatch_*", N_EV|N_WATCH, struct evwatch *w; struct timeval t; C(w = evwatch_prepare_new(f->base, watch_p_cb, f)); \
	if (w) { C(evwatch_base(w)); C(evwatch_free(w)); } C(w = evwatch_check_new(f->base, watch_c_cb, f)); step(f, 1); if (w) C(evwatch_free(w)); \
	C(evwatch_free(f->wp)); f->wp = NULL; (void)t)

static void ref_cleanup(const void *d, size_t n, void *x) { (void)d; (void)n; (void)x; }
static void seg_cleanup(struct evbuffer_file_segment const *s, int fl, void *a) { (void)s; (void)fl; (void)a; }
static struct evbuffer *pick_buf(struct fx *f, vh_rng *r)
{
	switch (vh_below(r, 5)) { case 0: return f->eb; case 1: return f->ebf; case 2: return f->ebd; default: return f->ebl; }
}
static ev_ssize_t pick_sz(vh_rng *r)
{
	static const ev_ssize_t s[] = { 0, 1, 5, 17, 64, 4096, 70000, -1, -100, EV_SSIZE_MAX, EV_SSIZE_MAX - 1 };
	return VH_PICK(r, s);
}
static size_t pick_len(vh_rng *r)
{
	static const size_t s[] = { 0, 1, 5, 17, 64, 512, 4096, 70000 };
	return VH_PICK(r, s);
}
static char bigbuf[80000];
static void vpf(struct evbuffer *b, const char *fmt, ...) { va_list ap; va_start(ap, fmt); evbuffer_add_vprintf(b, fmt, ap); va_end(ap); }

#define POINTS_BUFFER(X) \
X(eb_new_free, "evbuffer_new/free", N_BUF, struct evbuffer *b; C(b = evbuffer_new()); if (b) { C(evbuffer_enable_locking(b, NULL)); C(evbuffer_add(b, "x", 1)); \
	C(evbuffer_defer_callbacks(b, f->base)); C(evbuffer_add_cb(b, ebuf_cb, f)); C(evbuffer_add(b, "y", 1)); C(evbuffer_free(b)); } step(f, 1)) \
X(eb_enable_locking, "evbuffer_enable_locking", N_BUF, C(evbuffer_enable_locking(f->eb, NULL)); C(evbuffer_enable_locking(f->ebl, NULL)); C(evbuffer_add(f->eb, "z", 1))) \
X(eb_lock_unlock, "evbuffer_lock/unlock(balance)", N_BUF, struct evbuffer *b = pick_buf(f, r); evbuffer_lock(b); C(evbuffer_add(b, "q", 1); evbuffer_unlock(b)); \
	evbuffer_lock(f->ebl); evbuffer_lock(f->ebl); C(evbuffer_drain(f->ebl, 2); evbuffer_unlock(f->ebl); evbuffer_unlock(f->ebl))) \
X(eb_add, "evbuffer_add", N_BUF, struct evbuffer *b = pick_buf(f, r); C(evbuffer_add(b, bigbuf, pick_len(r))); C(evbuffer_add(b, bigbuf, pick_len(r))); \
	C(evbuffer_expand(b, pick_len(r))); C(evbuffer_prepend(b, bigbuf, pick_len(r))); C(evbuffer_prepend(b, bigbuf, pick_len(r)))) \
X(eb_add_printf, "evbuffer_add_printf", N_BUF, struct evbuffer *b = pick_buf(f, r); C(evbuffer_add_printf(b, "%s-%d-%5000s", "abc", 42, "pad")); \
	C(evbuffer_add_printf(b, "%s", "")); C(vpf(b, "%d%s", 7, "vprintf"))) \
X(eb_add_ref, "evbuffer_add_reference", N_BUF, struct evbuffer *b = pick_buf(f, r); C(evbuffer_add_reference(b, bigbuf, pick_len(r), ref_cleanup, f)); \
	C(evbuffer_add_reference_with_offset(b, bigbuf, 10, 100, ref_cleanup, f)); C(evbuffer_drain(b, 1 << 20))) \
X(eb_add_iovec, "evbuffer_add_iovec", N_BUF, struct evbuffer *b = pick_buf(f, r); struct evbuffer_iovec v[3]; \
	v[0].iov_base = bigbuf; v[0].iov_len = pick_len(r); v[1].iov_base = bigbuf + 5; v[1].iov_len = pick_len(r); v[2].iov_base = bigbuf; v[2].iov_len = 0; \
	C(evbuffer_add_iovec(b, v, 3)); C(evbuffer_add_iovec(b, v, 0))) \
X(eb_move, "evbuffer_add_buffer/remove_buffer/prepend_buffer", N_BUF, struct evbuffer *a = pick_buf(f, r); struct evbuffer *b = pick_buf(f, r); \
	C(evbuffer_add_buffer(a, b)); C(evbuffer_prepend_buffer(b, a)); C(evbuffer_remove_buffer(a, b, pick_len(r))); C(evbuffer_add_buffer_reference(b, a)); \
	C(evbuffer_add_buffer_reference(a, a)); C(evbuffer_add_buffer(f->ebl, f->ebd)); C(evbuffer_add_buffer(f->ebd, f->ebl)); C(evbuffer_remove_buffer(f->ebl, f->ebd, 3)); step(f, 1)) \
X(eb_read_ops, "evbuffer_remove/copyout/peek/search", N_BUF, struct evbuffer *b = pick_buf(f, r); struct evbuffer_ptr p, p2; struct evbuffer_iovec v[4]; size_t n; char *ln; \
	C(evbuffer_get_length(b)); C(evbuffer_get_contiguous_space(b)); C(evbuffer_copyout(b, bigbuf, pick_len(r))); C(evbuffer_ptr_set(b, &p, (size_t)vh_below(r, evbuffer_get_length(b) + 1), EVBUFFER_PTR_SET)); \
	C(evbuffer_ptr_set(b, &p, 0, EVBUFFER_PTR_ADD)); C(evbuffer_ptr_set(b, &p2, evbuffer_get_length(b) + 5, EVBUFFER_PTR_SET)); C(evbuffer_copyout_from(b, &p, bigbuf, pick_len(r))); C(evbuffer_peek(b, pick_sz(r), NULL, v, 4)); C(evbuffer_peek(b, -1, &p, v, 0)); \
	C(p2 = evbuffer_search(b, "line", 4, NULL)); C(p2 = evbuffer_search_range(b, "l", 1, &p, NULL)); C(p2 = evbuffer_search_eol(b, NULL, &n, EVBUFFER_EOL_CRLF)); \
	C(ln = evbuffer_readln(b, &n, (enum evbuffer_eol_style)vh_below(r, 5))); if (ln) mm_free(ln); C(evbuffer_pullup(b, pick_sz(r))); C(evbuffer_remove(b, bigbuf, pick_len(r))); C(evbuffer_drain(b, pick_len(r)))) \
X(eb_reserve, "evbuffer_reserve_space/commit_space", N_BUF, struct evbuffer *b = pick_buf(f, r); struct evbuffer_iovec v[2]; int n; \
	C(n = evbuffer_reserve_space(b, pick_sz(r), v, (int)vh_range(r, 1, 2))); if (n > 0) { if (v[0].iov_len > 3) v[0].iov_len = 3; C(evbuffer_commit_space(b, v, 1)); } \
	v[0].iov_base = bigbuf; v[0].iov_len = 10; C(evbuffer_commit_space(b, v, 1)); C(evbuffer_commit_space(b, v, 0))) \
X(eb_freeze, "evbuffer_freeze/unfreeze", N_BUF, struct evbuffer *b = pick_buf(f, r); int st = (int)vh_below(r, 2); C(evbuffer_freeze(b, st)); C(evbuffer_add(b, "x", 1)); C(evbuffer_drain(b, 1)); \
	C(evbuffer_unfreeze(b, st)); C(evbuffer_unfreeze(b, !st))) \
X(eb_cb, "evbuffer_add_cb/remove_cb/flags", N_BUF, struct evbuffer *b = pick_buf(f, r); struct evbuffer_cb_entry *e; C(e = evbuffer_add_cb(b, ebuf_cb, f)); \
	if (e) { C(evbuffer_cb_set_flags(b, e, EVBUFFER_CB_ENABLED)); C(evbuffer_cb_clear_flags(b, e, EVBUFFER_CB_ENABLED)); C(evbuffer_add(b, "k", 1)); C(evbuffer_cb_set_flags(b, e, EVBUFFER_CB_ENABLED)); \
	C(evbuffer_remove_cb_entry(b, e)); } C(evbuffer_remove_cb(b, ebuf_cb, f)); C(evbuffer_remove_cb(b, ebuf_cb, NULL)); \
	C(evbuffer_set_flags(b, EVBUFFER_FLAG_DRAINS_TO_FD)); C(evbuffer_clear_flags(b, EVBUFFER_FLAG_DRAINS_TO_FD)); C(evbuffer_set_max_read(b, pick_len(r))); C(evbuffer_get_max_read(b)); \
	C(evbuffer_defer_callbacks(b, f->base)); C(evbuffer_add(b, "m", 1)); step(f, 1)) \
X(eb_file, "evbuffer_add_file/file_segment", N_BUF, struct evbuffer *b = pick_buf(f, r); int fd = open(datafile, O_RDONLY); int fd2 = open(datafile, O_RDONLY); struct evbuffer_file_segment *s; \
	C(s = evbuffer_file_segment_new(fd, (ev_off_t)vh_below(r, 100), (ev_off_t)vh_range(r, -1, 5000), (unsigned)(vh_below(r, 8) | EVBUF_FS_CLOSE_ON_FREE))); \
	if (!s) __real_close(fd); else { C(evbuffer_file_segment_add_cleanup_cb(s, seg_cleanup, f)); int rc; /* CALIBRATED: a failing evbuffer_add_file_segment drops the caller's reference */ \
	C(rc = evbuffer_add_file_segment(b, s, (ev_off_t)vh_below(r, 50), (ev_off_t)vh_range(r, -1, 3000))); \
	if (rc == 0) C(rc = evbuffer_add_file_segment(f->eb, s, 0, 10)); if (rc == 0) C(evbuffer_file_segment_free(s)); } \
	if (evbuffer_add_file(b, fd2, (ev_off_t)vh_below(r, 100), (ev_off_t)vh_range(r, -1, 9000)) != 0) __real_close(fd2); ck(f, "evbuffer_add_file"); \
	C(evbuffer_add_file(b, -1, 0, 10)); C(evbuffer_drain(b, pick_len(r)))) \
X(eb_io, "evbuffer_read/write", N_BUF|N_EV, struct evbuffer *b = pick_buf(f, r); __real_write(f->sp[1], bigbuf, 3000); C(evbuffer_read(b, f->sp[0], (int)vh_range(r, -1, 5000))); \
	C(evbuffer_write(b, f->sp[0])); C(evbuffer_write_atmost(b, f->sp[0], pick_sz(r))); C(evbuffer_read(b, f->closedfd, 100)); C(evbuffer_write(f->eb, f->closedfd)); C(evbuffer_read(b, f->regfd, -1)))

static struct bufferevent *pick_bev(struct fx *f, vh_rng *r)
{
	switch (vh_below(r, 5)) { case 0: return f->bs; case 1: return f->bp[0]; case 2: return f->bp[1]; case 3: return f->bf; default: return f->bc; }
}
static struct sockaddr_in lo_addr(int port)
{
	struct sockaddr_in sin; memset(&sin, 0, sizeof(sin)); sin.sin_family = AF_INET; sin.sin_addr.s_addr = htonl(0x7f000001); sin.sin_port = htons(port); return sin;
}

#define POINTS_BEV(X) \
X(bev_sock_new, "bufferevent_socket_new/free", N_BEV, struct bufferevent *b; int fd = dup(f->sp2[1]); C(b = bufferevent_socket_new(f->base, fd, bev_opts(r) | BEV_OPT_CLOSE_ON_FREE)); \
	if (!b) __real_close(fd); else { C(bufferevent_setcb(b, bev_rcb, bev_wcb, bev_ecb, f)); C(bufferevent_enable(b, EV_READ|EV_WRITE)); C(bufferevent_write(b, "abc", 3)); C(bufferevent_free(b)); } step(f, 2)) \
X(bev_pair_new, "bufferevent_pair_new/free", N_BEV, struct bufferevent *p[2] = { NULL, NULL }; int k = (int)vh_below(r, 2); C(bufferevent_pair_new(f->base, bev_opts(r), p)); \
	if (p[0]) { C(bufferevent_enable(p[0], EV_READ|EV_WRITE)); C(bufferevent_enable(p[1], EV_READ|EV_WRITE)); C(bufferevent_write(p[0], "abc", 3)); C(bufferevent_pair_get_partner(p[0])); \
	C(bufferevent_free(p[k])); step(f, 1); C(bufferevent_pair_get_partner(p[1 - k])); C(bufferevent_write(p[1 - k], "x", 1)); C(bufferevent_free(p[1 - k])); } step(f, 1)) \
X(bev_filter_new, "bufferevent_filter_new/free", N_BEV, struct bufferevent *b; C(b = bufferevent_filter_new(f->bs, filt_cb, vh_chance(r,1,2) ? filt_cb : NULL, bev_opts(r), filt_free, f)); \
	if (b) { C(bufferevent_setcb(b, bev_rcb, bev_wcb, bev_ecb, f)); C(bufferevent_enable(b, EV_READ|EV_WRITE)); C(bufferevent_write(b, "data", 4)); C(bufferevent_get_underlying(b)); \
	C(bufferevent_flush(b, EV_READ|EV_WRITE, BEV_FLUSH)); C(bufferevent_free(b)); } step(f, 2)) \
X(bev_free_all, "bufferevent_free", N_BEV, C(bufferevent_write(f->bf, "zz", 2)); C(bufferevent_free(f->bf)); f->bf = NULL; C(bufferevent_free(f->bp[1])); f->bp[1] = NULL; \
	C(bufferevent_free(f->bs)); f->bs = NULL; step(f, 2)) \
X(bev_lock_unlock, "bufferevent_lock/unlock(balance)", N_BEV, struct bufferevent *b = pick_bev(f, r); bufferevent_lock(b); C(bufferevent_write(b, "q", 1); bufferevent_unlock(b)); \
	bufferevent_lock(f->bf); bufferevent_lock(f->bp[0]); C(bufferevent_flush(f->bf, EV_WRITE, BEV_NORMAL); bufferevent_unlock(f->bp[0]); bufferevent_unlock(f->bf))) \
X(bev_write, "bufferevent_write/write_buffer", N_BEV|N_BUF, struct bufferevent *b = pick_bev(f, r); C(bufferevent_write(b, bigbuf, pick_len(r))); C(bufferevent_write_buffer(b, pick_buf(f, r))); \
	C(evbuffer_add(bufferevent_get_output(b), "direct", 6)); C(evbuffer_add_buffer(bufferevent_get_output(b), f->ebl)); step(f, 2)) \
X(bev_read, "bufferevent_read/read_buffer", N_BEV|N_BUF, struct bufferevent *b = pick_bev(f, r); __real_write(f->sp2[1], bigbuf, 2000); C(bufferevent_write(f->bp[1], bigbuf, 500)); \
	C(bufferevent_setcb(f->bs, NULL, NULL, bev_ecb, f)); C(bufferevent_setcb(f->bf, NULL, NULL, bev_ecb, f)); step(f, 2); C(bufferevent_read(b, bigbuf, pick_len(r))); C(bufferevent_read_buffer(b, pick_buf(f, r))); \
	C(evbuffer_drain(bufferevent_get_input(b), pick_len(r)))) \
X(bev_enable, "bufferevent_enable/disable", N_BEV, struct bufferevent *b = pick_bev(f, r); short e = (short)(vh_below(r, 4) * 2); C(bufferevent_disable(b, e)); C(bufferevent_get_enabled(b)); \
	C(bufferevent_enable(b, e)); C(bufferevent_disable(b, EV_READ|EV_WRITE)); C(bufferevent_enable(b, EV_READ|EV_WRITE)); C(bufferevent_enable(b, EV_TIMEOUT|EV_SIGNAL)); step(f, 1)) \
X(bev_setcb, "bufferevent_setcb/getcb/getters", N_BEV, struct bufferevent *b = pick_bev(f, r); bufferevent_data_cb rc, wc; bufferevent_event_cb ec; void *arg; size_t lo, hi; \
	C(bufferevent_getcb(b, &rc, &wc, &ec, &arg)); C(bufferevent_setcb(b, rc, wc, ec, arg)); C(bufferevent_get_base(b)); C(bufferevent_get_input(b)); C(bufferevent_get_output(b)); C(bufferevent_getfd(b)); \
	C(bufferevent_get_priority(b)); C(bufferevent_get_underlying(b)); C(bufferevent_pair_get_partner(b)); C(bufferevent_getwatermark(b, EV_READ, &lo, &hi)); C(bufferevent_getwatermark(b, EV_WRITE, &lo, NULL)); \
	C(bufferevent_getwatermark(b, EV_READ|EV_WRITE, &lo, &hi)); C(bufferevent_socket_get_dns_error(b)); C(bufferevent_get_token_bucket_cfg(b)); C(bufferevent_get_max_single_read(b)); C(bufferevent_get_max_single_write(b))) \
X(bev_watermark, "bufferevent_setwatermark", N_BEV, struct bufferevent *b = pick_bev(f, r); __real_write(f->sp2[1], bigbuf, 300); C(bufferevent_write(f->bp[1], bigbuf, 300)); step(f, 1); \
	C(bufferevent_setwatermark(b, EV_READ, pick_len(r), pick_len(r))); C(bufferevent_setwatermark(b, EV_WRITE, pick_len(r), pick_len(r))); C(bufferevent_write(b, bigbuf, 100)); step(f, 1); \
	C(bufferevent_setwatermark(b, EV_READ|EV_WRITE, 0, 0)); step(f, 1)) \
X(bev_timeouts, "bufferevent_set_timeouts", N_BEV, struct bufferevent *b = pick_bev(f, r); struct timeval t1, t2; C(bufferevent_set_timeouts(b, pick_tv(r, &t1), pick_tv(r, &t2))); step(f, 1); \
	C(bufferevent_set_timeouts(b, NULL, NULL))) \
X(bev_prio, "bufferevent_priority_set/base_set", N_BEV, struct bufferevent *b = pick_bev(f, r); C(bufferevent_priority_set(b, (int)vh_range(r, -1, 3))); C(bufferevent_base_set(f->base, b))) \
X(bev_setfd, "bufferevent_setfd/replacefd", N_BEV|N_EV, struct bufferevent *b = pick_bev(f, r); int fd = dup(f->sp[1]); C(bufferevent_setfd(b, fd)); \
	if (bufferevent_getfd(b) != fd) __real_close(fd); else if (b != f->bc) { C(bufferevent_setfd(b, b == f->bs ? f->sp2[0] : -1)); __real_close(fd); } \
	C(bufferevent_setfd(f->bs, f->closedfd)); C(bufferevent_enable(f->bs, EV_READ|EV_WRITE)); C(bufferevent_setfd(f->bs, f->regfd)); C(bufferevent_setfd(f->bs, f->sp2[0])); \
	fd = dup(f->sp[1]); C(bufferevent_replacefd(f->bc, fd)); if (bufferevent_getfd(f->bc) != fd) __real_close(fd)) \
X(bev_flush, "bufferevent_flush/trigger", N_BEV, struct bufferevent *b = pick_bev(f, r); C(bufferevent_write(b, "fl", 2)); C(bufferevent_flush(b, (short)(vh_below(r, 4) * 2), (enum bufferevent_flush_mode)vh_below(r, 3))); \
	C(bufferevent_trigger(b, EV_READ|EV_WRITE, (int)(vh_below(r, 2) ? BEV_OPT_DEFER_CALLBACKS : 0) | (int)(vh_below(r, 2) ? BEV_TRIG_IGNORE_WATERMARKS : 0))); \
	C(bufferevent_trigger_event(b, BEV_EVENT_EOF, (int)(vh_below(r, 2) ? BEV_OPT_DEFER_CALLBACKS : 0))); step(f, 2)) \
X(bev_refcnt, "bufferevent_incref/decref", N_BEV, struct bufferevent *b = pick_bev(f, r); C(bufferevent_incref(b)); C(bufferevent_decref(b))) \
X(bev_connect, "bufferevent_socket_connect", N_BEV|N_LIS, struct sockaddr_in sin = lo_addr(f->lis_port); C(bufferevent_enable(f->bc, EV_READ|EV_WRITE)); \
	C(bufferevent_socket_connect(f->bc, (struct sockaddr *)&sin, sizeof(sin))); C(bufferevent_write(f->bc, "hi", 2)); step(f, 3)) \
X(bev_connect_refused, "bufferevent_socket_connect.refused", N_BEV, struct sockaddr_in sin = lo_addr(1); C(bufferevent_socket_connect(f->bc, (struct sockaddr *)&sin, sizeof(sin))); step(f, 3); \
	C(bufferevent_socket_connect(f->bs, (struct sockaddr *)&sin, sizeof(sin))); C(bufferevent_socket_connect(f->bp[0], (struct sockaddr *)&sin, sizeof(sin))); step(f, 2)) \
X(bev_connect_host, "bufferevent_socket_connect_hostname", N_BEV|N_DNS|N_LIS, struct evutil_addrinfo h; static const char *const names[] = { "hosts4.test", "127.0.0.1", "needs-dns.test", "::1", "hosts6.test", "" }; \
	const char *nm = VH_PICK(r, names); fill_hints(&h, r); \
	if (vh_chance(r, 1, 2)) C(bufferevent_socket_connect_hostname(f->bc, (vh_chance(r, 1, 3) && (nm[0] == '1' || nm[0] == ':')) ? NULL : f->dns, h.ai_family, nm, f->lis_port)); \
	else C(bufferevent_socket_connect_hostname_hints(f->bc, f->dns, &h, nm, f->lis_port)); \
	step(f, 1); ns_answer(f, (int)vh_below(r, 4)); step(f, 3); C(bufferevent_socket_get_dns_error(f->bc))) \
X(bev_ratelim, "bufferevent_set_rate_limit/group", N_BEV, struct bufferevent *b = pick_bev(f, r); struct ev_token_bucket_cfg *c2; struct timeval t = tv_of(50000); ev_uint64_t tr, tw; \
	C(bufferevent_set_rate_limit(b, f->tb)); C(bufferevent_get_read_limit(b)); C(bufferevent_get_write_limit(b)); C(bufferevent_get_max_to_read(b)); C(bufferevent_get_max_to_write(b)); \
	C(bufferevent_decrement_read_limit(b, pick_sz(r) / 2)); C(bufferevent_decrement_write_limit(b, pick_sz(r) / 2)); C(bufferevent_write(b, bigbuf, 3000)); step(f, 1); \
	C(bufferevent_add_to_rate_limit_group(b, f->grp)); C(bufferevent_add_to_rate_limit_group(b, f->grp)); C(bufferevent_rate_limit_group_get_read_limit(f->grp)); C(bufferevent_rate_limit_group_get_write_limit(f->grp)); \
	C(bufferevent_rate_limit_group_decrement_read(f->grp, pick_sz(r) / 2)); C(bufferevent_rate_limit_group_decrement_write(f->grp, pick_sz(r) / 2)); step(f, 1); \
	C(bufferevent_rate_limit_group_set_min_share(f->grp, pick_len(r))); C(bufferevent_rate_limit_group_get_totals(f->grp, &tr, &tw)); C(bufferevent_rate_limit_group_reset_totals(f->grp)); \
	C(c2 = ev_token_bucket_cfg_new(10, 20, EV_RATE_LIMIT_MAX, EV_RATE_LIMIT_MAX, &t)); if (c2) { C(bufferevent_rate_limit_group_set_cfg(f->grp, c2)); C(ev_token_bucket_cfg_free(c2)); } \
	C(ev_token_bucket_cfg_new(10, 5, 10, 5, NULL)); C(bufferevent_set_max_single_read(b, pick_len(r))); C(bufferevent_set_max_single_write(b, pick_len(r))); \
	C(bufferevent_remove_from_rate_limit_group(b)); C(bufferevent_set_rate_limit(b, NULL))) \
X(bev_grp_contended, "rate-limit group runs dry while its members' locks are contended (try-lock fails)", N_BEV, \
	C(bufferevent_add_to_rate_limit_group(f->bs, f->grp)); C(bufferevent_add_to_rate_limit_group(f->bp[0], f->grp)); C(bufferevent_add_to_rate_limit_group(f->bp[1], f->grp)); \
	lm_fail_trylock = 1000; C(bufferevent_rate_limit_group_decrement_write(f->grp, 1 << 28)); C(bufferevent_rate_limit_group_decrement_read(f->grp, 1 << 28)); \
	C(bufferevent_write(f->bs, bigbuf, 100)); step(f, 2); lm_fail_trylock = 0; \
	C(bufferevent_rate_limit_group_decrement_write(f->grp, -(1 << 29))); C(bufferevent_rate_limit_group_decrement_read(f->grp, -(1 << 29))); step(f, 2); \
	C(bufferevent_remove_from_rate_limit_group(f->bs)); C(bufferevent_remove_from_rate_limit_group(f->bp[0])); C(bufferevent_remove_from_rate_limit_group(f->bp[1]))) \
X(bev_grp_new_free, "bufferevent_rate_limit_group_new/free", N_BEV, struct bufferevent_rate_limit_group *g; C(g = bufferevent_rate_limit_group_new(f->base, f->tb)); \
	if (g) { C(bufferevent_remove_from_rate_limit_group(f->bp[0])); C(bufferevent_add_to_rate_limit_group(f->bp[0], g)); C(bufferevent_remove_from_rate_limit_group(f->bp[0])); C(bufferevent_rate_limit_group_free(g)); })

#define POINTS_LIS(X) \
X(lis_new_bind, "evconnlistener_new_bind/free", N_EV, struct sockaddr_in sin = lo_addr(0); struct evconnlistener *l; \
	C(l = evconnlistener_new_bind(f->base, vh_chance(r,1,4) ? NULL : lis_cb, f, (unsigned)(vh_below(r, 0x200) | LEV_OPT_CLOSE_ON_FREE | LEV_OPT_REUSEABLE) & ~LEV_OPT_LEAVE_SOCKETS_BLOCKING, (int)vh_range(r, -1, 8), (struct sockaddr *)&sin, sizeof(sin))); \
	if (l) { C(evconnlistener_get_base(l)); C(evconnlistener_get_fd(l)); C(evconnlistener_free(l)); }) \
X(lis_new_fd, "evconnlistener_new", N_EV, struct evconnlistener *l; int fd = __real_socket(AF_INET, SOCK_STREAM, 0); int which = (int)vh_below(r, 4); int use = which == 1 ? f->closedfd : which == 2 ? f->regfd : fd; \
	C(l = evconnlistener_new(f->base, lis_cb, f, LEV_OPT_THREADSAFE | (vh_chance(r,1,2) ? LEV_OPT_DEFERRED_ACCEPT : 0), which == 3 ? -1 : 4, use)); if (l) C(evconnlistener_free(l)); __real_close(fd)) \
X(lis_enable, "evconnlistener_enable/disable/set_cb", N_LIS, C(evconnlistener_disable(f->lis)); C(evconnlistener_enable(f->lis)); C(evconnlistener_enable(f->lis)); C(evconnlistener_set_cb(f->lis, NULL, NULL)); \
	C(evconnlistener_set_cb(f->lis, lis_cb, f)); C(evconnlistener_set_error_cb(f->lis, lis_ecb)); C(evconnlistener_get_base(f->lis)); C(evconnlistener_get_fd(f->lis)); C(evconnlistener_disable(f->lis))) \
X(lis_accept, "event_base_loop.listener-accept", N_LIS, int c1, c2; C(evconnlistener_enable(f->lis)); c1 = tcp_connect_raw(f->lis_port); c2 = tcp_connect_raw(f->lis_port); step(f, 3); \
	if (c1 >= 0) __real_close(c1); if (c2 >= 0) __real_close(c2)) \
X(lis_free, "evconnlistener_free", N_LIS, int c1 = tcp_connect_raw(f->lis_port); C(evconnlistener_free(f->lis)); f->lis = NULL; step(f, 1); if (c1 >= 0) __real_close(c1))

#define POINTS_DNS(X) \
X(dns_new_free, "evdns_base_new/free", N_EV, struct evdns_base *d; C(d = evdns_base_new(f->base, (int)(vh_below(r, 2) * EVDNS_BASE_DISABLE_WHEN_INACTIVE) | (int)(vh_below(r, 2) * EVDNS_BASE_NAMESERVERS_NO_DEFAULT))); \
	if (d) { C(evdns_base_nameserver_ip_add(d, "127.0.0.1:5399")); C(evdns_base_resolve_ipv4(d, "pending.test", 0, dns_cb, f)); C(evdns_base_free(d, (int)vh_below(r, 2))); } step(f, 1)) \
X(dns_ns_add, "evdns_base_nameserver_*add", N_DNS, struct sockaddr_in sin = lo_addr(5398); static const char *const ips[] = { "127.0.0.1", "127.0.0.1:5397", "[::1]:5396", "::1", "not-an-ip", "1.2.3.4:99999", "" }; \
	struct sockaddr_storage ss; C(evdns_base_nameserver_ip_add(f->dns, VH_PICK(r, ips))); C(evdns_base_nameserver_ip_add(f->dns, VH_PICK(r, ips))); C(evdns_base_nameserver_add(f->dns, htonl(0x7f000002))); \
	C(evdns_base_nameserver_sockaddr_add(f->dns, (struct sockaddr *)&sin, sizeof(sin), 0)); C(evdns_base_nameserver_sockaddr_add(f->dns, (struct sockaddr *)&sin, sizeof(sin), 0)); \
	C(evdns_base_count_nameservers(f->dns)); C(evdns_base_get_nameserver_addr(f->dns, (int)vh_range(r, -1, 6), (struct sockaddr *)&ss, sizeof(ss))); C(evdns_base_get_nameserver_fd(f->dns, (int)vh_range(r, -1, 6)))) \
X(dns_clear_resume, "evdns_base_clear_nameservers_and_suspend/resume", N_DNS, C(evdns_base_resolve_ipv4(f->dns, "a.test", 0, dns_cb, f)); C(evdns_base_clear_nameservers_and_suspend(f->dns)); \
	C(evdns_base_resolve_ipv6(f->dns, "b.test", 0, dns_cb, f)); C(evdns_base_resume(f->dns)); C(evdns_base_nameserver_ip_add(f->dns, "127.0.0.1:5395")); C(evdns_base_resume(f->dns)); step(f, 1); f->dreq = NULL) \
X(dns_options, "evdns_base_set_option/search", N_DNS, static const char *const opt[] = { "ndots", "timeout", "max-timeouts", "max-inflight", "attempts", "randomize-case", "bind-to", "initial-probe-timeout", "so-rcvbuf", "so-sndbuf", "tcp-idle-timeout", "max-probe-timeout", "edns-udp-size", "bogus" }; \
	static const char *const val[] = { "1", "0", "-5", "999999999999", "2.5", "abc", "127.0.0.1", "" }; int i; for (i = 0; i < 4; i++) C(evdns_base_set_option(f->dns, VH_PICK(r, opt), VH_PICK(r, val))); \
	C(evdns_base_search_add(f->dns, "search.test")); C(evdns_base_search_add(f->dns, ".")); C(evdns_base_search_ndots_set(f->dns, (int)vh_range(r, -1, 3))); C(evdns_base_resolve_ipv4(f->dns, "short", 0, dns_cb, f)); \
	C(evdns_base_search_clear(f->dns)); C(evdns_err_to_string((int)vh_range(r, -2, 70))); C(evdns_set_log_fn(dns_log_cb)); f->dreq = NULL) \
X(dns_resolv_conf, "evdns_base_resolv_conf_parse/load_hosts", N_DNS, C(evdns_base_resolv_conf_parse(f->dns, (int)vh_below(r, 32), vh_chance(r,1,4) ? "/nonexistent/resolv.conf" : resolvfile)); \
	C(evdns_base_load_hosts(f->dns, vh_chance(r,1,4) ? "/nonexistent/hosts" : hostsfile)); C(evdns_base_clear_host_addresses(f->dns)); C(evdns_base_load_hosts(f->dns, NULL))) \
X(dns_resolve, "evdns_base_resolve_*", N_DNS, struct in_addr a4; struct in6_addr a6; static const char *const names[] = { "x.test", "hosts4.test", "localhost", "a..b", "", "very-long-label-aaaaaaaaaaaaaaaaaaaaaaaaaaaaaaaaaaaaaaaaaaaaaaaaaaaaaaaaaaaaaaaaaaaaaaaaaaaaaa.test" }; \
	struct evdns_request *q; int fl = (int)(vh_below(r, 2) * DNS_QUERY_NO_SEARCH) | (int)(vh_below(r, 2) * DNS_QUERY_USEVC) | (int)(vh_below(r, 2) * DNS_CNAME_CALLBACK); a4.s_addr = htonl(0x0a000001); memset(&a6, 1, sizeof(a6)); \
	C(q = evdns_base_resolve_ipv4(f->dns, VH_PICK(r, names), fl, dns_cb, f)); if (q && vh_chance(r, 1, 2)) C(evdns_cancel_request(f->dns, q)); C(q = evdns_base_resolve_ipv6(f->dns, VH_PICK(r, names), fl, dns_cb, f)); \
	C(q = evdns_base_resolve_reverse(f->dns, &a4, fl, dns_cb, f)); if (q && vh_chance(r, 1, 2)) C(evdns_cancel_request(NULL, q)); C(q = evdns_base_resolve_reverse_ipv6(f->dns, &a6, fl, dns_cb, f)); f->dreq = NULL) \
X(dns_roundtrip, "event_base_loop.dns-reply", N_DNS, int mode = (int)vh_below(r, 4); int fl = (int)(vh_below(r, 2) * DNS_CNAME_CALLBACK); C(evdns_base_resolve_ipv4(f->dns, "rt4.test", fl, dns_cb, f)); C(evdns_base_resolve_ipv6(f->dns, "rt6.test", fl, dns_cb, f)); \
	step(f, 1); ns_answer(f, mode); step(f, 2); ns_answer(f, mode); step(f, 2); f->dreq = NULL) \
X(dns_gai_hosts, "evdns_getaddrinfo.hosts", N_DNS, struct evutil_addrinfo h; fill_hints(&h, r); C(f->gai = evdns_getaddrinfo(f->dns, vh_chance(r,1,2) ? "hosts4.test" : "hostsboth.test", vh_chance(r,1,2) ? "80" : NULL, &h, gai_cb, f)); f->gai = NULL) \
X(dns_gai_cached, "evdns_getaddrinfo.cached", N_DNS, struct evutil_addrinfo h, *res = NULL, *res2 = NULL; struct sockaddr_in sin = lo_addr(0); struct sockaddr_in6 s6; memset(&s6, 0, sizeof(s6)); s6.sin6_family = AF_INET6; s6.sin6_addr.s6_addr[15] = 1; \
	fill_hints(&h, r); res = evutil_new_addrinfo_((struct sockaddr *)&sin, sizeof(sin), &h); if (res && vh_chance(r,1,2)) res = evutil_addrinfo_append_(res, evutil_new_addrinfo_((struct sockaddr *)&s6, sizeof(s6), &h)); \
	if (res) { C(evdns_cache_write(f->dns, "cached.test", res, 60)); evutil_freeaddrinfo(res); } C(evdns_cache_lookup(f->dns, "cached.test", &h, 80, &res2)); if (res2) evutil_freeaddrinfo(res2); res2 = NULL; \
	C(evdns_cache_lookup(f->dns, "absent.test", &h, 80, &res2)); C(f->gai = evdns_getaddrinfo(f->dns, "cached.test", "80", &h, gai_cb, f)); f->gai = NULL) \
X(dns_gai_net, "evdns_getaddrinfo.network", N_DNS, struct evutil_addrinfo h; static const char *const names[] = { "net.test", "127.0.0.1", "::1", "other.test", "" }; int mode = (int)vh_below(r, 4); fill_hints(&h, r); \
	C(f->gai = evdns_getaddrinfo(f->dns, VH_PICK(r, names), vh_chance(r,1,3) ? "http" : "8080", vh_chance(r,1,5) ? NULL : &h, gai_cb, f)); \
	if (f->gai && vh_chance(r, 1, 4)) { C(evdns_getaddrinfo_cancel(f->gai)); step(f, 1); f->gai = NULL; } else { step(f, 1); ns_answer(f, mode); step(f, 2); ns_answer(f, mode); step(f, 2); } ) \
X(dns_srv_port, "evdns_add_server_port_with_base/close", N_EV, int port; int fd = udp_bound(&port); struct evdns_server_port *p; C(p = evdns_add_server_port_with_base(f->base, fd, 0, dsrv_cb, f)); \
	if (p) { C(evdns_server_port_set_option(p, EVDNS_SOPT_TCP_MAX_CLIENTS, 3)); C(evdns_close_server_port(p)); } else __real_close(fd)) \
X(dns_srv_listener, "evdns_add_server_port_with_listener", N_LIS, struct evdns_server_port *p; C(evconnlistener_set_error_cb(f->lis, NULL)); C(p = evdns_add_server_port_with_listener(f->base, f->lis, 0, dsrv_cb, f)); \
	if (p) { int c = tcp_connect_raw(f->lis_port); unsigned char q[64]; size_t n = dns_query(q + 2, 77, "tcp.test", 1); q[0] = 0; q[1] = (unsigned char)n; if (c >= 0) __real_send(c, q, n + 2, 0); \
	f->lis = NULL; step(f, 3); if (f->dsreq) { C(evdns_server_request_respond(f->dsreq, 0)); f->dsreq = NULL; } step(f, 1); if (c >= 0) __real_close(c); C(evdns_close_server_port(p)); }) \
X(dns_srv_reply, "evdns_server_request_*", N_DSRV, unsigned char q[128]; size_t n = dns_query(q, 99, "srv.test", vh_chance(r,1,2) ? 1 : 28); int c = raw_udp_to(f->dsrv_port, q, n); struct sockaddr_storage ss; unsigned char a[16] = { 1, 2, 3, 4 }; \
	step(f, 2); if (f->dsreq) { struct evdns_server_request *q2 = f->dsreq; int how = (int)vh_below(r, 4); f->dsreq = NULL; C(evdns_server_request_get_requesting_addr(q2, (struct sockaddr *)&ss, sizeof(ss))); \
	C(evdns_server_request_add_a_reply(q2, "srv.test", 1, a, 30)); C(evdns_server_request_add_aaaa_reply(q2, "srv.test", 1, a, 30)); C(evdns_server_request_add_cname_reply(q2, "srv.test", "c.test", 30)); \
	C(evdns_server_request_add_ptr_reply(q2, NULL, "4.3.2.1.in-addr.arpa", "p.test", 30)); C(evdns_server_request_add_reply(q2, EVDNS_ADDITIONAL_SECTION, "x.test", 16, 1, 30, 4, 0, (char *)a)); \
	C(evdns_server_request_set_flags(q2, 0x8400)); if (how == 0) C(evdns_server_request_drop(q2)); else C(evdns_server_request_respond(q2, how == 1 ? 3 : 0)); } step(f, 1); __real_close(c))

static struct bufferevent *http_bevcb(struct event_base *b, void *arg) { (void)arg; return bufferevent_socket_new(b, -1, BEV_OPT_CLOSE_ON_FREE | BEV_OPT_THREADSAFE); }
static int http_newreq_cb(struct evhttp_request *q, void *arg) { (void)q; (void)arg; return 0; }
static int http_err_cb(struct evhttp_request *q, struct evbuffer *b, int e, const char *reason, void *arg) { (void)q; (void)e; (void)reason; (void)arg; evbuffer_add(b, "err", 3); return 0; }
static int http_ext_cmp(struct evhttp_ext_method *m) { (void)m; return -1; }
static void http_bound_each(struct evhttp_bound_socket *b, void *arg) { (void)b; (void)arg; }
static void http_req_err_cb(enum evhttp_request_error e, void *arg) { (void)e; (void)arg; }
static int http_hdr_cb(struct evhttp_request *q, void *arg) { (void)q; (void)arg; return 0; }
static void http_chunk_cb(struct evhttp_request *q, void *arg) { (void)q; (void)arg; }
static void http_close_cb(struct evhttp_connection *c, void *arg) { (void)c; (void)arg; }
/* raw client sending bytes to the fixture's http server */
static int http_raw(struct fx *f, const char *txt)
{
	int c = tcp_connect_raw(f->http_port);
	if (c >= 0) __real_send(c, txt, strlen(txt), 0);
	return c;
}
static const char *const raw_reqs[] = {
	"GET /fixed HTTP/1.1\r\nHost: a\r\n\r\n",
	"POST /p HTTP/1.1\r\nHost: a\r\nContent-Length: 5\r\n\r\nhello",
	"POST /p HTTP/1.1\r\nHost: a\r\nTransfer-Encoding: chunked\r\n\r\n3\r\nabc\r\n0\r\n\r\n",
	"GET / HTTP/1.0\r\n\r\n",
	"BOGUS\r\n\r\n",
	"GET /x HTTP/1.1\r\nHost: a\r\nConnection: close\r\n\r\nGET /y HTTP/1.1\r\n\r\n",
	"GET /partial HTTP/1.1\r\nHost",
	"GET /fixed?q=1#f HTTP/1.1\r\nHost: a\r\nExpect: 100-continue\r\nContent-Length: 2\r\n\r\nab",
};

#define POINTS_HTTP(X) \
X(http_new_free, "evhttp_new/free", N_EV, struct evhttp *h; C(h = evhttp_new(f->base)); if (h) { C(evhttp_bind_socket(h, "127.0.0.1", 0)); C(evhttp_set_cb(h, "/a", http_gen_cb, f)); C(evhttp_add_server_alias(h, "al.test")); \
	C(evhttp_free(h)); }) \
X(http_bind, "evhttp_bind_socket*/accept_socket*", N_HTTP|N_LIS, struct evhttp_bound_socket *b; int fd = __real_socket(AF_INET, SOCK_STREAM, 0); struct sockaddr_in sin = lo_addr(0); \
	C(evhttp_bind_socket(f->http, "127.0.0.1", 0)); C(evhttp_bind_socket(f->http, "256.1.1.1", 0)); C(evhttp_bind_socket(f->http, "127.0.0.1", (ev_uint16_t)f->http_port)); C(b = evhttp_bind_socket_with_handle(f->http, "::1", 0)); \
	if (b) { C(evhttp_bound_socket_get_listener(b)); C(evhttp_bound_socket_get_fd(b)); C(evhttp_bound_set_bevcb(b, http_bevcb, f)); C(evhttp_del_accept_socket(f->http, b)); } \
	bind(fd, (struct sockaddr *)&sin, sizeof(sin)); listen(fd, 4); evutil_make_socket_nonblocking(fd); if (vh_chance(r,1,2)) { if (evhttp_accept_socket(f->http, fd) != 0) __real_close(fd); ck(f, "evhttp_accept_socket"); } \
	else { C(b = evhttp_accept_socket_with_handle(f->http, fd)); if (!b) __real_close(fd); } C(evhttp_accept_socket(f->http, f->closedfd)); \
	C(b = evhttp_bind_listener(f->http, f->lis)); if (b) f->lis = NULL; C(evhttp_foreach_bound_socket(f->http, http_bound_each, f))) \
X(http_config, "evhttp_set_*", N_HTTP, struct timeval t; struct evhttp *vh; C(evhttp_set_max_headers_size(f->http, pick_sz(r))); C(evhttp_set_max_body_size(f->http, pick_sz(r))); C(evhttp_set_max_connections(f->http, (int)vh_range(r, -1, 3))); \
	C(evhttp_get_connection_count(f->http)); C(evhttp_set_default_content_type(f->http, vh_chance(r,1,2) ? NULL : "text/x")); C(evhttp_set_allowed_methods(f->http, (ev_uint32_t)vh_rand(r))); C(evhttp_set_ext_method_cmp(f->http, http_ext_cmp)); \
	C(evhttp_set_cb(f->http, "/dup", http_gen_cb, f)); C(evhttp_set_cb(f->http, "/dup", http_gen_cb, f)); C(evhttp_del_cb(f->http, "/dup")); C(evhttp_del_cb(f->http, "/none")); C(evhttp_set_gencb(f->http, http_gen_cb, f)); \
	C(evhttp_set_bevcb(f->http, http_bevcb, f)); C(evhttp_set_newreqcb(f->http, http_newreq_cb, f)); C(evhttp_set_errorcb(f->http, http_err_cb, f)); C(evhttp_set_timeout(f->http, (int)vh_range(r, -1, 5))); C(evhttp_set_timeout_tv(f->http, pick_tv(r, &t))); \
	C(evhttp_set_read_timeout_tv(f->http, pick_tv(r, &t))); C(evhttp_set_write_timeout_tv(f->http, pick_tv(r, &t))); C(evhttp_set_flags(f->http, (int)vh_below(r, 4))); \
	C(evhttp_add_server_alias(f->http, "alias.test")); C(evhttp_remove_server_alias(f->http, "alias.test")); C(evhttp_remove_server_alias(f->http, "none.test")); \
	C(vh = evhttp_new(f->base)); if (vh) { C(evhttp_add_virtual_host(f->http, "*.vh.test", vh)); if (vh_chance(r,1,2)) { C(evhttp_remove_virtual_host(f->http, vh)); C(evhttp_free(vh)); } }) \
X(http_conn, "evhttp_connection_*", N_HTTP|N_DNS, struct evhttp_connection *c; struct timeval t; const char *addr; ev_uint16_t port; struct bufferevent *b; \
	C(c = evhttp_connection_base_new(f->base, vh_chance(r,1,2) ? f->dns : NULL, "127.0.0.1", (ev_uint16_t)f->http_port)); if (c) { C(evhttp_connection_set_family(c, AF_INET)); C(evhttp_connection_set_flags(c, (int)vh_below(r, 0x40))); \
	C(evhttp_connection_set_local_address(c, "127.0.0.1")); C(evhttp_connection_set_local_port(c, 0)); C(evhttp_connection_set_max_body_size(c, pick_sz(r))); C(evhttp_connection_set_max_headers_size(c, pick_sz(r))); \
	C(evhttp_connection_set_retries(c, (int)vh_range(r, -1, 2))); C(evhttp_connection_set_timeout(c, (int)vh_range(r, -1, 3))); C(evhttp_connection_set_timeout_tv(c, pick_tv(r, &t))); C(evhttp_connection_set_connect_timeout_tv(c, pick_tv(r, &t))); \
	C(evhttp_connection_set_read_timeout_tv(c, pick_tv(r, &t))); C(evhttp_connection_set_write_timeout_tv(c, pick_tv(r, &t))); C(evhttp_connection_set_initial_retry_tv(c, pick_tv(r, &t))); C(evhttp_connection_set_closecb(c, http_close_cb, f)); \
	C(evhttp_connection_set_ext_method_cmp(c, http_ext_cmp)); C(evhttp_connection_get_peer(c, &addr, &port)); C(evhttp_connection_get_addr(c)); C(evhttp_connection_get_base(c)); C(evhttp_connection_get_bufferevent(c)); C(evhttp_connection_get_server(c)); \
	if (vh_chance(r,1,2)) C(evhttp_connection_free(c)); else { C(evhttp_connection_free_on_completion(c)); C(evhttp_connection_free(c)); } } \
	b = bufferevent_socket_new(f->base, -1, BEV_OPT_CLOSE_ON_FREE | BEV_OPT_THREADSAFE); if (b) { C(c = evhttp_connection_base_bufferevent_new(f->base, NULL, b, "127.0.0.1", (ev_uint16_t)f->http_port)); if (c) C(evhttp_connection_free(c)); /* on failure the ownership of b is unspecified: left alone */ } \
	C(c = evhttp_connection_base_bufferevent_unix_new(f->base, NULL, "/nonexistent/sock")); if (c) C(evhttp_connection_free(c)); \
	b = bufferevent_socket_new(f->base, -1, BEV_OPT_CLOSE_ON_FREE | BEV_OPT_THREADSAFE); if (b) { C(c = evhttp_connection_base_bufferevent_reuse_new(f->base, NULL, b)); if (c) C(evhttp_connection_free(c)); /* on failure the ownership of b is unspecified: left alone */ }) \
X(http_request_obj, "evhttp_request_*", N_HTTP, struct evhttp_request *q; C(q = evhttp_request_new(http_done_cb, f)); if (q) { C(evhttp_request_set_chunked_cb(q, http_chunk_cb)); C(evhttp_request_set_header_cb(q, http_hdr_cb)); C(evhttp_request_set_error_cb(q, http_req_err_cb)); \
	C(evhttp_request_set_on_complete_cb(q, http_done_cb, f)); C(evhttp_request_own(q)); C(evhttp_request_is_owned(q)); C(evhttp_request_get_uri(q)); C(evhttp_request_get_evhttp_uri(q)); C(evhttp_request_get_command(q)); C(evhttp_request_get_response_code(q)); \
	C(evhttp_request_get_response_code_line(q)); C(evhttp_request_get_input_headers(q)); C(evhttp_request_get_output_headers(q)); C(evhttp_request_get_input_buffer(q)); C(evhttp_request_get_output_buffer(q)); C(evhttp_request_get_connection(q)); C(evhttp_request_get_host(q)); \
	C(evhttp_add_header(evhttp_request_get_output_headers(q), "X-A", "1")); C(evhttp_add_header(evhttp_request_get_output_headers(q), "Bad\r\nName", "1")); C(evhttp_find_header(evhttp_request_get_output_headers(q), "x-a")); \
	C(evhttp_remove_header(evhttp_request_get_output_headers(q), "X-A")); C(evhttp_remove_header(evhttp_request_get_output_headers(q), "none")); C(evhttp_clear_headers(evhttp_request_get_output_headers(q))); C(evhttp_request_free(q)); }) \
X(http_make_request, "evhttp_make_request", N_HTTP, static const enum evhttp_cmd_type cmds[] = { EVHTTP_REQ_GET, EVHTTP_REQ_POST, EVHTTP_REQ_HEAD, EVHTTP_REQ_PUT, EVHTTP_REQ_DELETE, EVHTTP_REQ_OPTIONS, EVHTTP_REQ_PATCH }; int rc; \
	struct evhttp_request *q = f->req; f->req = NULL; C(evhttp_add_header(evhttp_request_get_output_headers(q), "Host", "h")); C(evbuffer_add(evhttp_request_get_output_buffer(q), "body", 4)); C(rc = evhttp_make_request(f->hc, q, VH_PICK(r, cmds), vh_chance(r,1,4) ? "/fixed" : "/gen?x=1")); \
	if (rc == 0 && vh_chance(r, 1, 4)) C(evhttp_cancel_request(q)); else step(f, 6)) \
X(http_make_request_refused, "evhttp_make_request.refused", N_HTTP, struct evhttp_connection *c; struct evhttp_request *q; C(c = evhttp_connection_base_new(f->base, NULL, "127.0.0.1", 1)); C(q = evhttp_request_new(http_done_cb, f)); \
	if (c && q) { C(evhttp_connection_set_retries(c, (int)vh_below(r, 2))); C(evhttp_make_request(c, q, EVHTTP_REQ_GET, "/")); step(f, 4); } else if (q) evhttp_request_free(q); if (c) C(evhttp_connection_free(c))) \
X(http_server_raw, "event_base_loop.http-server", N_HTTP, int c = http_raw(f, VH_PICK(r, raw_reqs)); step(f, 4); if (f->srv_req) { struct evhttp_request *q = f->srv_req; int how = (int)vh_below(r, 4); f->srv_req = NULL; \
	if (how == 0) C(evhttp_send_error(q, 500, "boom")); else if (how == 1) { struct evbuffer *b = evbuffer_new(); if (b) evbuffer_add(b, "body", 4); C(evhttp_send_reply(q, 200, "OK", b)); if (b) evbuffer_free(b); } \
	else if (how == 2) { struct evbuffer *b = evbuffer_new(); C(evhttp_send_reply_start(q, 200, "OK")); if (b) { evbuffer_add(b, "c1", 2); C(evhttp_send_reply_chunk(q, b)); evbuffer_free(b); } C(evhttp_send_reply_end(q)); } \
	else { if (c >= 0) { __real_close(c); c = -1; } step(f, 2); C(evhttp_send_reply(q, 200, "OK", NULL)); } } step(f, 3); if (c >= 0) __real_close(c); step(f, 2)) \
X(http_conn_free_busy, "evhttp_connection_free.busy", N_HTTP, struct evhttp_request *q = f->req; f->req = NULL; f->srv_mode = 3; C(evhttp_make_request(f->hc, q, EVHTTP_REQ_GET, "/hold")); step(f, 4); C(evhttp_connection_free(f->hc)); f->hc = NULL; step(f, 2)) \
X(http_free_busy, "evhttp_free.busy", N_HTTP, int c = http_raw(f, raw_reqs[6]); int c2 = http_raw(f, raw_reqs[0]); f->srv_mode = 3; step(f, 3); f->srv_req = NULL; C(evhttp_free(f->http)); f->http = NULL; step(f, 1); if (c >= 0) __real_close(c); if (c2 >= 0) __real_close(c2)) \
X(http_uri, "evhttp_uri_*/util", N_NOBASE, static const char *const uris[] = { "http://u:p@host.test:8080/p/a?q=1&r=2#frag", "/rel?x", "http://[::1]:80/", "bad uri with spaces", "", "unix:/tmp/s:/x" }; const char *u = VH_PICK(r, uris); struct evhttp_uri *p; \
	char *s; struct evkeyvalq kv; char out[256]; C(p = evhttp_uri_parse(u)); if (p) { C(evhttp_uri_get_scheme(p)); C(evhttp_uri_get_host(p)); C(evhttp_uri_get_port(p)); C(evhttp_uri_get_path(p)); C(evhttp_uri_get_query(p)); C(evhttp_uri_get_fragment(p)); C(evhttp_uri_get_userinfo(p)); \
	C(evhttp_uri_set_scheme(p, "https")); C(evhttp_uri_set_host(p, "h2.test")); C(evhttp_uri_set_port(p, 443)); C(evhttp_uri_set_path(p, "/np")); C(evhttp_uri_set_query(p, "a=b")); C(evhttp_uri_set_fragment(p, "f")); C(evhttp_uri_set_userinfo(p, "me")); C(evhttp_uri_get_unixsocket(p)); C(evhttp_uri_set_unixsocket(p, vh_chance(r,1,2) ? NULL : "/run/x.sock")); C(evhttp_uri_set_flags(p, 0)); \
	C(evhttp_uri_join(p, out, vh_chance(r,1,3) ? 8 : sizeof(out))); C(evhttp_uri_free(p)); } C(p = evhttp_uri_parse_with_flags(u, EVHTTP_URI_NONCONFORMANT)); if (p) C(evhttp_uri_free(p)); C(p = evhttp_uri_new()); if (p) C(evhttp_uri_free(p)); \
	C(s = evhttp_encode_uri(u)); if (s) mm_free(s); C(s = evhttp_uriencode(u, -1, 1)); if (s) mm_free(s); C(s = evhttp_decode_uri(u)); if (s) mm_free(s); C(s = evhttp_uridecode(u, 1, NULL)); if (s) mm_free(s); C(s = evhttp_htmlescape("<a&b>")); if (s) mm_free(s); \
	TAILQ_INIT(&kv); C(evhttp_parse_query(u, &kv)); C(evhttp_clear_headers(&kv)); C(evhttp_parse_query_str("a=1&b=2&&c", &kv)); C(evhttp_clear_headers(&kv)); C(evhttp_parse_query_str_flags("a;b=2", &kv, 0xf)); C(evhttp_clear_headers(&kv)))

/* ------------------------------------------------------------------ table */
#define POINTS(X) POINTS_EVENT(X) POINTS_BUFFER(X) POINTS_BEV(X) POINTS_LIS(X) POINTS_DNS(X) POINTS_HTTP(X)
#define DEFN(id, name, needs, ...) static void pt_##id(struct fx *f, vh_rng *r) { (void)r; __VA_ARGS__; }
POINTS(DEFN)
struct point { const char *name; const char *id; unsigned needs; void (*fn)(struct fx *, vh_rng *); };
#define ROW(id, name, needs, ...) { name, #id, needs, pt_##id },
static const struct point points[] = { POINTS(ROW) };
#define NPOINTS ((int)(sizeof(points) / sizeof(points[0])))

/* ------------------------------------------------------------------ faults */
enum { FK_NONE, FK_OOM, FK_OOMALL, FK_SYS };
struct fault { int kind; long n; int sym; int err; };
static const int fsyms[] = { SF_epoll_ctl, SF_socket, SF_connect, SF_accept4, SF_eventfd, SF_pipe2, SF_accept, SF_sendto, SF_recvfrom, SF_ioctl, SF_sigaction };
static const char *const fsym_names[] = { "epoll_ctl", "socket", "connect", "accept4", "eventfd", "pipe2", "accept", "sendto", "recvfrom", "ioctl", "sigaction" };
#define NFSYMS ((int)(sizeof(fsyms) / sizeof(fsyms[0])))
static const int ferrs[] = { EPERM, EBADF, ENOMEM, EAGAIN };
static const char *const ferr_names[] = { "EPERM", "EBADF", "ENOMEM", "EAGAIN" };
struct measure { long allocs; long sys[NFSYMS]; };
static void count_obs(int sym, int fd, long req, long res) { (void)sym; (void)fd; (void)req; (void)res; }

static const char *fault_class(const struct fault *fl, char *buf, size_t cap)
{
	switch (fl->kind) {
	case FK_NONE: return "nofault";
	case FK_OOM: case FK_OOMALL: return "oom";
	default: snprintf(buf, cap, "sys-%s", fsym_names[fl->sym]); return buf;
	}
}
static void fault_desc(const struct fault *fl, char *buf, size_t cap)
{
	switch (fl->kind) {
	case FK_NONE: snprintf(buf, cap, "none"); break;
	case FK_OOM: snprintf(buf, cap, "oom n=%ld", fl->n); break;
	case FK_OOMALL: snprintf(buf, cap, "oomall from n=%ld", fl->n); break;
	default: snprintf(buf, cap, "%s call #%ld -> %s", fsym_names[fl->sym], fl->n, ferr_names[fl->err]); break;
	}
}

/* The harness keeps its own list of the lock pointers this thread holds (thin
 * wrappers around lockmon's callbacks, installed through
 * evthread_get_lock_callbacks()) so that a leaked hold can be released and the
 * sweep can go on.  The verdict itself comes from lockmon's ledger only. */
static struct evthread_lock_callbacks inner_fns;
static __thread void *myheld[128];
static __thread int nmyheld;
static int debuglocks;
static int w_lock(unsigned mode, void *l)
{
	int r = inner_fns.lock(mode, l);
	if (r == 0 && nmyheld < 128) myheld[nmyheld++] = l;
	return r;
}
static int w_unlock(unsigned mode, void *l)
{
	int i;
	for (i = nmyheld - 1; i >= 0; i--)
		if (myheld[i] == l) { memmove(&myheld[i], &myheld[i + 1], (size_t)(nmyheld - i - 1) * sizeof(void *)); nmyheld--; break; }
	return inner_fns.unlock(mode, l);
}
static void wrap_lock_fns(void)
{
	struct evthread_lock_callbacks *cb = evthread_get_lock_callbacks();
	inner_fns = *cb;
	cb->lock = w_lock; cb->unlock = w_unlock;
}
static int recover_leak(struct fx *f, int target)
{
	int guard = 0;
	(void)f;
	if (debuglocks) return lm_held_now() == target; /* the library's debug layer would lose count */
	while (lm_held_now() > target && nmyheld > 0 && guard++ < 256) {
		void *l = myheld[--nmyheld];
		inner_fns.unlock(0, l);
		(void)lm_take_violation();
	}
	return lm_held_now() == target;
}

static uint64_t case_hash;
static double t_build, t_call, t_probe, t_tear;
static double nowf(void) { struct timespec ts; __real_clock_gettime(CLOCK_MONOTONIC, &ts); return ts.tv_sec + ts.tv_nsec / 1e9; }

/* one execution of a point under one fault; returns 0 ok, 1 violation */
static int run_once(const struct point *p, vh_rng rng, const struct fault *fl, struct measure *m, long caseidx)
{
	struct fx fx, *f = &fx;
	vh_rng r = rng;
	const char *lv; char fbuf[96], cbuf[48], key[200];
	int held1, i, bad = 0, finished;
	long failed0 = mf_failed, inj0 = sf_injected;
	cur_point = p->name;
	if (vh_opt.verbose) { fault_desc(fl, fbuf, sizeof(fbuf)); fprintf(stderr, "  run %s [%s]\n", p->id, fbuf); }
	double t0 = nowf(), t1, t2, t3;
	fx_build(f, p->needs, &r);
	t1 = nowf(); t_build += t1 - t0;
	f->held0 = lm_held_now();
	(void)lm_take_violation();
	sf_reset(); sf_observer = count_obs;
	if (fl->kind == FK_SYS) sf_plan(fsyms[fl->sym], fl->n, SFA_ERRNO, ferrs[fl->err]);
	mf_arm(fl->kind == FK_OOM ? fl->n : 0);
	if (fl->kind == FK_OOMALL) mf_fail_every_after = fl->n;
	if (setjmp(fatal_jmp) == 0) {
		fatal_armed = 1;
		p->fn(f, &r);
		fatal_armed = 0;
	} else {
		mf_arm(0); sf_observer = NULL; sf_reset();
		xs("cases"); xs("fatal_handler_exits");
		if (!recover_leak(f, f->held0)) { fflush(stdout); _exit(0); }
		(void)lm_take_violation();
		return 0; /* fixture deliberately leaked */
	}
	if (m) { m->allocs = mf_ordinal(); for (i = 0; i < NFSYMS; i++) m->sys[i] = sf_calls(fsyms[i]); }
	mf_arm(0);
	sf_observer = NULL; sf_reset();
	t2 = nowf(); t_call += t2 - t1;
	held1 = lm_held_now();
	lv = lm_take_violation();
	xs("cases");
	xs("api_points_run");
	if (mf_failed > failed0) xs("faults_fired_oom");
	if (sf_injected > inj0) xs("faults_fired_sys");
	if (fl->kind == FK_NONE) xs("runs_nofault");
	if (f->ncb) xs("runs_with_callbacks");
	fault_desc(fl, fbuf, sizeof(fbuf));
	if (lv) {
		const char *rule = strstr(lv, "re-lock") ? "relock-nonrecursive" : strstr(lv, "not held") ? "unlock-not-held" : strstr(lv, "freed while held") ? "free-while-held" : "ledger";
		snprintf(key, sizeof(key), "C08:%s:%s:%s", rule, p->name, fault_class(fl, cbuf, sizeof(cbuf)));
		vh_viol(key, "point %s fault [%s]: %s", p->id, fbuf, lv);
		bad = 1;
	}
	if (held1 != f->held0 || f->leak_at[0]) {
		snprintf(key, sizeof(key), "C08:lock-leak:%s:%s", p->name, fault_class(fl, cbuf, sizeof(cbuf)));
		vh_viol(key, "point %s fault [%s]: thread holds %d lock(s) after the call (held %d before); first seen after: %s",
		    p->id, fbuf, held1, f->held0, f->leak_at[0] ? f->leak_at : "(end of point)");
		bad = 1;
	}
	/* consequence: a second thread must get every lock of the fixture */
	pr_fx = f; sem_post(&pr_go);
	finished = prober_wait(held1 != f->held0 ? 300 : 20000);
	if (finished) xs("second_thread_probes_ok");
	else {
		if (held1 == f->held0) {
			/* ledger clean but the second thread is stuck: cannot happen unless the monitor missed something */
			xs("watchdog_fired");
			xs("inconclusive_probe");
			fprintf(stderr, "h_locks: prober stuck at stage %d with clean ledger in point %s\n", pr_stage, p->id);
			fflush(stdout); _exit(4);
		}
		xs("second_thread_blocked_confirmed");
	}
	if (held1 != f->held0) {
		if (!recover_leak(f, f->held0)) tainted = 1;
		if (!finished) finished = prober_wait(20000);
		if (!finished) tainted = 1;
	}
	if (tainted) {
		fprintf(stderr, "h_locks: cannot recover from leaked lock in point %s; stopping this shard\n", p->id);
		fflush(stdout); _exit(0);
	}
	t3 = nowf(); t_probe += t3 - t2;
	i = lm_held_now();
	if (fl->kind != FK_NONE) {
		/* CALIBRATED: after a call failed under an injected fault an object may be left in a state its destructor
		 * asserts on (e.g. a base whose event_reinit() failed); a fatal exit of the library while the fixture is
		 * being released is not a lock statement - the fixture is abandoned */
		if (setjmp(fatal_jmp) == 0) { fatal_armed = 1; fx_teardown(f); fatal_armed = 0; }
		else {
			xs("fatal_handler_exits_in_teardown_after_fault");
			if (!recover_leak(f, i)) { fflush(stdout); _exit(0); }
			(void)lm_take_violation();
			return bad;
		}
	} else fx_teardown(f);
	t_tear += nowf() - t3;
	lv = lm_take_violation();
	if (lm_held_now() != i || lv) {
		snprintf(key, sizeof(key), "C08:teardown-after:%s:%s", p->name, fault_class(fl, cbuf, sizeof(cbuf)));
		vh_viol(key, "point %s fault [%s]: releasing the fixture left %d hold(s) (was %d) %s", p->id, fbuf, lm_held_now(), i, lv ? lv : "");
		bad = 1;
		if (lm_held_now() != i) { fflush(stdout); _exit(0); }
	}
	case_hash = vh_hash_bytes(case_hash, fbuf, strlen(fbuf));
	{ static long l0, g0, r0; xs_add("locks_taken", lm_nlocks_taken - l0); l0 = lm_nlocks_taken; xs_add("library_log_lines", n_logs - g0); g0 = n_logs;
	  xs_add("runaway_loops_broken", n_runaway - r0); r0 = n_runaway; }
	(void)caseidx;
	return bad;
}

/* results live in memory shared with the parent: a child that dies keeps what it counted */
#define SH_MAXSTAT 64
#define SH_MAXHASH 60000
struct shared { volatile long progress[4]; char cur_point[64], cur_fault[96]; struct { char name[48]; long n; } stats[SH_MAXSTAT]; long nh; uint64_t hashes[SH_MAXHASH]; };
static struct shared *sh;
static int side_fd = -1, real_stderr = 2;
static char sidefile[256];
#define progress (sh->progress)

#define MAXFAULTS 4000
static struct fault flist[MAXFAULTS];
static void vh_finish_child(void) { fflush(stdout); }
static void xs_add(const char *name, long n)
{
	int i;
	if (!sh) { vh_stat_add(name, n); return; }
	for (i = 0; i < SH_MAXSTAT && sh->stats[i].name[0]; i++)
		if (!strcmp(sh->stats[i].name, name)) { sh->stats[i].n += n; return; }
	if (i < SH_MAXSTAT) { snprintf(sh->stats[i].name, sizeof(sh->stats[i].name), "%s", name); sh->stats[i].n = n; }
}
/* child: dry run, enumerate the faults of this case, run those with index >= start */
static void run_case(long idx, vh_rng rng, long start)
{
	const struct point *p = &points[idx % NPOINTS];
	struct fault none = { FK_NONE, 0, 0, 0 }, fl;
	struct measure m;
	vh_rng frng = rng;
	long nf = 0, total_sys = 0, k, n;
	int i, e, bad = 0;
	{ static int started; if (!started) { started = 1; prober_start(); } }
	(void)vh_rand(&frng);
	case_hash = vh_hash_bytes(idx % NPOINTS, &rng, sizeof(rng));
	memset(&m, 0, sizeof(m));
	bad = run_once(p, rng, &none, &m, idx);
	if (start > 0) { xs_add("cases", -1); xs_add("api_points_run", -1); xs_add("runs_nofault", -1); } /* repeated dry run after a crash */
	for (i = 0; i < NFSYMS; i++) total_sys += m.sys[i];
	if (vh_opt.verbose) fprintf(stderr, "case %ld point %s: allocs=%ld syscalls=%ld\n", idx, p->id, m.allocs, total_sys);
	if (start == 0) {
		if (m.allocs > 0) xs("points_allocating");
		if (total_sys > 0) xs("points_with_syscalls");
	}
	memset(&fl, 0, sizeof(fl));
	if (vh_opt.thorough) {
		long cap = m.allocs > 600 ? 600 : m.allocs;
		for (n = 1; n <= cap && nf < MAXFAULTS; n++) { fl.kind = FK_OOM; fl.n = n; flist[nf++] = fl; }
		for (n = 1; n <= cap && nf < MAXFAULTS; n += 1 + n / 8) { fl.kind = FK_OOMALL; fl.n = n; flist[nf++] = fl; }
		for (i = 0; i < NFSYMS; i++) {
			long c = m.sys[i] > 12 ? 12 : m.sys[i];
			for (n = 1; n <= c; n++) for (e = 0; e < 4 && nf < MAXFAULTS; e++) { fl.kind = FK_SYS; fl.n = n; fl.sym = i; fl.err = e; flist[nf++] = fl; }
		}
	} else {
		for (k = 0; k < 4; k++) {
			int kind = (int)vh_below(&frng, 4);
			memset(&fl, 0, sizeof(fl));
			if ((kind == 3 || m.allocs == 0) && total_sys > 0) {
				do { i = (int)vh_below(&frng, NFSYMS); } while (m.sys[i] == 0);
				fl.kind = FK_SYS; fl.sym = i; fl.n = 1 + (long)vh_below(&frng, (uint64_t)m.sys[i]); fl.err = (int)vh_below(&frng, 4);
			} else if (m.allocs > 0) {
				fl.kind = kind == 2 ? FK_OOMALL : FK_OOM; fl.n = 1 + (long)vh_below(&frng, (uint64_t)m.allocs);
			} else break;
			flist[nf++] = fl;
		}
	}
	for (k = start; k < nf; k++) {
		progress[0] = k;
		/* While a fault is injected the process's stderr goes to a side file: a crash of the library on an
		 * allocation/syscall failure path is not a lock statement (see crash_under_fault() in the parent). */
		fflush(stderr);
		if (side_fd >= 0) dup2(side_fd, 2);
		fault_desc(&flist[k], sh->cur_fault, sizeof(sh->cur_fault));
		snprintf(sh->cur_point, sizeof(sh->cur_point), "%s", p->name);
		bad |= run_once(p, rng, &flist[k], NULL, idx);
		fflush(stderr);
		if (side_fd >= 0) dup2(real_stderr, 2);
	}
	progress[0] = -1;
	if ((nf > 0 || p->needs) && sh->nh < SH_MAXHASH) sh->hashes[sh->nh++] = case_hash;
	if (idx - vh_opt.first < 2 || vh_opt.only >= 0)
		vh_sample(1, "{\"case\":%ld,\"point\":\"%s\",\"allocs_in_call\":%ld,\"syscalls_in_call\":%ld,\"fault_runs\":%ld,\"violation\":%d}", idx, p->name, m.allocs, total_sys, nf, bad);
	if (vh_opt.verbose) fprintf(stderr, "timing ms: build %.1f call %.1f probe %.1f teardown %.1f\n", t_build * 1e3, t_call * 1e3, t_probe * 1e3, t_tear * 1e3);
}

/* parent: a child died while a fault was injected.  CALIBRATED: C08 is about locks; a crash (NULL dereference
 * of an unchecked allocation result etc.) on an injected-failure path is recorded as a NOTE and a counter, not as a
 * violation of C08 - unless the report involves the lock layer (evthread*.c), in which case it is forwarded to
 * stderr where the driver turns it into a violation. */
static void crash_under_fault(void)
{
	static char buf[65536];
	ssize_t n; const char *sum; char line[200]; size_t i;
	xs("fault_runs_that_killed_the_process");
	if (side_fd < 0) return;
	n = pread(side_fd, buf, sizeof(buf) - 1, 0);
	if (n < 0) n = 0;
	buf[n] = 0;
	if (ftruncate(side_fd, 0) != 0) {}
	if (strstr(buf, "evthread") || strstr(buf, "lockmon")) { fputs(buf, stderr); xs("crashes_in_lock_layer_forwarded"); return; }
	sum = strstr(buf, "SUMMARY: ");
	if (!sum) sum = strstr(buf, "runtime error");
	if (!sum) sum = strstr(buf, "Assertion");
	if (sum) { while (sum > buf && sum[-1] != '\n') sum--; }
	else sum = buf[0] ? buf : "(no report)";
	for (i = 0; i < sizeof(line) - 1 && sum[i] && sum[i] != '\n'; i++) line[i] = sum[i];
	line[i] = 0;
	printf("NOTE crash-under-injected-fault point=%s fault=[%s] %s\n", sh->cur_point, sh->cur_fault, line);
	if (strstr(buf, "Assertion") && !strstr(buf, "Sanitizer")) xs("library_assertions_under_fault");
}

int main(int argc, char **argv)
{
	long idx; vh_rng rng;
	vh_init(argc, argv);
	selfexe = argv[0];
	debuglocks = vh_opt.mode && !strcmp(vh_opt.mode, "debuglocks");
	mf_install();
	lm_install();
	wrap_lock_fns();
	if (debuglocks) evthread_enable_lock_debugging();
	event_set_log_callback(log_cb);
	event_set_fatal_callback(fatal_cb);
	evdns_set_log_fn(dns_log_cb);
	devnull = fopen("/dev/null", "w");
	memset(bigbuf, 'B', sizeof(bigbuf));
	{
		FILE *fp; int i;
		snprintf(hostsfile, sizeof(hostsfile), "h_locks.%d.hosts", (int)getpid());
		snprintf(resolvfile, sizeof(resolvfile), "h_locks.%d.resolv", (int)getpid());
		snprintf(datafile, sizeof(datafile), "h_locks.%d.data", (int)getpid());
		fp = fopen(hostsfile, "w"); fprintf(fp, "10.9.8.7 hosts4.test\n2001:db8::7 hosts6.test\n10.9.8.6 hostsboth.test\n2001:db8::6 hostsboth.test\n127.0.0.1 localhost\n"); fclose(fp);
		fp = fopen(resolvfile, "w"); fprintf(fp, "nameserver 127.0.0.1\nnameserver ::1\nsearch a.test b.test\noptions ndots:2 timeout:1 attempts:1\nbogus line\n"); fclose(fp);
		fp = fopen(datafile, "w"); for (i = 0; i < 2000; i++) fprintf(fp, "data-%05d\n", i); fclose(fp);
	}
	if (vh_opt.verbose > 1) { int i; for (i = 0; i < NPOINTS; i++) fprintf(stderr, "%3d %s (%s)\n", i, points[i].name, points[i].id); }
	snprintf(sidefile, sizeof(sidefile), "h_locks.%d.side", (int)getpid());
	if (!getenv("H_LOCKS_NOSIDE")) { side_fd = open(sidefile, O_RDWR | O_CREAT | O_TRUNC | O_APPEND, 0600); real_stderr = dup(2); }
	sh = mmap(NULL, sizeof(*sh), PROT_READ | PROT_WRITE, MAP_SHARED | MAP_ANONYMOUS, -1, 0);
	{
		/* The cases run in a forked child so that a crash of the library on an
		 * error path costs one fault run, not the rest of the sweep: the parent
		 * starts a new child right after the run that died. */
		long first = vh_opt.only >= 0 ? vh_opt.only : vh_opt.first;
		long end = vh_opt.only >= 0 ? vh_opt.only + 1 : vh_opt.first + vh_opt.cases;
		long scase = first, sfault = 0;
		int restarts = 0;
		(void)idx;
		while (scase < end) {
			pid_t pid;
			int st;
			progress[0] = -1; progress[1] = 0; progress[2] = scase;
			fflush(stdout); fflush(stderr);
			pid = getenv("H_LOCKS_NOFORK") ? 0 : fork();
			if (pid < 0) { perror("fork"); return 2; }
			if (pid == 0) {
				long c;
				prctl(PR_SET_PDEATHSIG, SIGKILL);
				for (c = scase; c < end; c++) {
					vh_cur_case = c;
					vh_rng_seed(&rng, vh_mix64(vh_opt.seed) ^ vh_mix64(0x5151000000ULL + (uint64_t)c)); /* same derivation as vh_next_case */
					progress[2] = c; progress[0] = -1;
					run_case(c, rng, c == scase ? sfault : 0);
				}
				progress[1] = 1;
				vh_finish_child();
				_exit(0);
			}
			while (waitpid(pid, &st, 0) < 0 && errno == EINTR) ;
			if (progress[1]) break;
			/* died in fault run progress[0] of case progress[2] (or in its dry run) */
			if (progress[0] >= 0) crash_under_fault(); else xs("dry_runs_that_killed_the_process");
			if (++restarts > 3000) { xs("sweep_abandoned"); break; }
			if (progress[0] < 0 || (progress[2] == scase && progress[0] < sfault)) { xs("cases_abandoned_after_crash"); scase = progress[2] + 1; sfault = 0; }
			else { scase = progress[2]; sfault = progress[0] + 1; }
		}
	}
	{ int i; long k; for (i = 0; i < SH_MAXSTAT && sh->stats[i].name[0]; i++) vh_stat_add(sh->stats[i].name, sh->stats[i].n);
	  for (k = 0; k < sh->nh; k++) vh_distinct(sh->hashes[k]); }
	unlink(hostsfile); unlink(resolvfile); unlink(datafile); if (side_fd >= 0) unlink(sidefile);
	vh_finish();
	return 0;
}
