/* h_dns: thin scripted driver for the evdns *client* properties C33/C34/C36.
 *
 * Usage: h_dns --arg <scriptfile> --cases N [--first K | --only K]
 *
 * The harness owns up to 3 fake nameservers (plain UDP socket + TCP listener
 * on the same 127.0.0.1 port, serviced between loop steps, no libevent code)
 * and interprets a script, many cases per process.  Time is virtual
 * (vclock): it only moves in `T`/`W` commands.  All intelligence (reply
 * grammar, reference decoder, oracles) is in lib/checks/C33.py C34.py C36.py.
 *
 * evdns.c is #included so that (a) recvfrom() in nameserver_read can be
 * routed through hd_recvfrom, which poisons the unused tail of the packet
 * buffer (exact-size datagram: an over-read past the datagram is an ASan
 * report), and (b) evutil_secure_rng_get_bytes can be replaced by a seeded,
 * collision-biased generator so that transaction-id uniqueness is really
 * exercised and every case is reproducible.
 *
 * Script (one command per line, blank separated):
 *   CASE <idx>
 *   B <flags>                    event_base_new + evdns_base_new(flags)
 *   RNG <seed> <poolbits>        rng for ids/0x20: with p=1/2 a 2-byte draw comes from a pool of 2^poolbits ids (0=off)
 *   NS <srv>                     evdns_base_nameserver_ip_add("127.0.0.1:<port of srv>")
 *   O <name> <val|->             evdns_base_set_option                     -> RETO
 *   SA <hexdomain> | SN <n> | SC search_add / ndots_set / search_clear
 *   RC <flags> <hexcontent>      write a resolv.conf, evdns_base_resolv_conf_parse -> RETRC
 *   UR <srv> <n> {<delay_us> <alt> <tmpl>}*n   append a UDP auto-rule (n=0: drop); last rule repeats
 *   TR <srv> <close_after|-1> <chunks|-> <tmpl|->   append a TCP auto-rule (per received message)
 *   R <rid> <A|AAAA|P4|P6> <flags> <hex>   resolve (hex = name bytes, or the 4/16 address bytes) -> RET
 *   G <rid> <fam 0|4|6> <aiflags> <hexname>   evdns_getaddrinfo               -> RET
 *   X <rid>                      cancel (skipped if the handle is no longer valid)
 *   F <fail>                     evdns_base_free(base, fail)
 *   IC <k> <cmd...>              run cmd (X/F/R/G) inside the k-th primary user callback
 *   U <srv> <alt> <tmpl>         send a UDP datagram now (answering the last query seen by srv)
 *   P <srv> <close_after|-1> <chunks|-> <tmpl|->   push bytes on srv's newest TCP connection
 *   S                            step the loop to the idle point
 *   T <us>                       advance virtual time by us (running timers), then settle
 *   W <max_us> <step_us>         advance in steps until every issued request reported, at most max_us
 *   E                            end: free base (fail=0) if still alive, settle, +120 s, free event_base, census
 * Template: hex digits literal; I = id of the answered query, J = id+1, Q = its question
 *   name as sent, X = the same with ASCII case flipped, Y = whole question (to the end of the
 *   message minus OPT), L = 2-byte length of everything up to the next L or the end (TCP framing).
 * Trace (stdout): CASE/RET/RETO/RETRC/Q/QT/TA/TX/CB/GCB/XDONE/XSKIP/FREE/SENT/IDLE/WAIT/STUCK/LEAK/END lines.
 */
#include "vh.h"
#include <errno.h>
#include <unistd.h>
#include <fcntl.h>
#include <ctype.h>
#include <signal.h>
#include <sys/socket.h>
#include <sys/ioctl.h>
#include <linux/sockios.h>
#include <sched.h>
#include <netinet/in.h>
#include <arpa/inet.h>
#include <sanitizer/asan_interface.h>
#include <event2/event.h>
#include <event2/util.h>
#include <event2/dns.h>
#include <event2/buffer.h>
#include <event2/bufferevent.h>

static ssize_t hd_recvfrom(int fd, void *buf, size_t n, int fl, struct sockaddr *sa, socklen_t *sl);
static void hd_rng_bytes(void *buf, size_t n);
static ssize_t hd_sendto(int fd, const void *buf, size_t n, int fl, const struct sockaddr *sa, socklen_t sl);
#define recvfrom hd_recvfrom
#define sendto hd_sendto
#define evutil_secure_rng_get_bytes hd_rng_bytes
#include "evdns.c"
#undef recvfrom
#undef sendto
#undef evutil_secure_rng_get_bytes
#undef log
#undef MIN
#undef MAX

/* ------------------------------------------------------------------ rng */
static vh_rng g_rng;
static int g_poolbits;
static uint16_t g_pool[64];
static void hd_rng_bytes(void *buf, size_t n)
{
	unsigned char *p = buf;
	size_t i;
	if (n == 2 && g_poolbits > 0 && (vh_rand(&g_rng) & 1)) {
		uint16_t v = g_pool[vh_below(&g_rng, 1u << g_poolbits)];
		memcpy(buf, &v, 2);
		vh_stat("rng_pool_draws");
		return;
	}
	for (i = 0; i < n; i++) p[i] = (unsigned char)vh_rand(&g_rng);
}

/* ------------------------------------------------------------------ exact-size datagrams */
static char *g_poison_base, *g_poison_p;
static size_t g_poison_n;
static ssize_t hd_recvfrom(int fd, void *buf, size_t n, int fl, struct sockaddr *sa, socklen_t *sl)
{
	ssize_t r;
	if (g_poison_p) {
		if (g_poison_base == (char *)buf) ASAN_UNPOISON_MEMORY_REGION(g_poison_p, g_poison_n);
		g_poison_p = NULL;
	}
	r = recvfrom(fd, buf, n, fl, sa, sl);
	if (r >= 0 && (size_t)r < n) {
		g_poison_base = buf; g_poison_p = (char *)buf + r; g_poison_n = n - (size_t)r;
		ASAN_POISON_MEMORY_REGION(g_poison_p, g_poison_n);
		vh_stat("datagrams_exact_size");
	}
	return r;
}

/* ------------------------------------------------------------------ small utils */
static int hexval(int c) { return c >= '0' && c <= '9' ? c - '0' : c >= 'a' && c <= 'f' ? c - 'a' + 10 : c >= 'A' && c <= 'F' ? c - 'A' + 10 : -1; }
static int unhex(const char *s, unsigned char *out, int cap)
{
	int n = 0;
	if (!strcmp(s, "-")) return 0;
	while (s[0] && s[1] && n < cap) {
		int a = hexval(s[0]), b = hexval(s[1]);
		if (a < 0 || b < 0) break;
		out[n++] = (unsigned char)(a * 16 + b); s += 2;
	}
	return n;
}
static void puthex(const unsigned char *p, int n)
{
	static const char d[] = "0123456789abcdef";
	int i;
	if (n <= 0) { putchar('-'); return; }
	for (i = 0; i < n; i++) { putchar(d[p[i] >> 4]); putchar(d[p[i] & 15]); }
}
ssize_t __real_write(int, const void *, size_t);
static void die(const char *m) { fprintf(stderr, "h_dns: %s\n", m); exit(2); }

/* ------------------------------------------------------------------ state */
#define NSRV 3
#define MAXCONN 8
#define MAXRULE 64
#define MAXEMIT 4
#define MAXREQ 64
#define MAXIC 64
#define MSGCAP 70000

struct emit { int64_t delay; int alt; char *tmpl; };
struct urule { int n; struct emit e[MAXEMIT]; };
struct trule { long close_after; char *chunks; char *tmpl; };
struct tconn {
	int fd, id;
	unsigned char *in; int inlen;
	unsigned char *out; int outlen, outpos; long close_after; int chunks[32], nchunks, chunkpos;
	unsigned char *lastq; int lastq_len;
};
struct fsrv {
	int udp, alt, lst, port;
	unsigned char *lastq; int lastq_len; struct sockaddr_in from; int have_from;
	struct tconn c[MAXCONN]; int nconn_total;
	struct urule ur[MAXRULE]; int nur, upos;
	struct trule tr[MAXRULE]; int ntr, tpos;
};
static struct fsrv srv[NSRV];
/* Loopback delivery is normally synchronous but the kernel may defer it (ksoftirqd under load).  The idle point
 * must not depend on that: count what the library sent to each fake nameserver against what the harness read,
 * and look at the kernel queues (FIONREAD / SIOCOUTQ) before declaring the network quiet. */
static long g_lib_udp_sent[NSRV], g_srv_udp_read[NSRV];
int __real_ioctl(int, unsigned long, void *);
static ssize_t hd_sendto(int fd, const void *buf, size_t n, int fl, const struct sockaddr *sa, socklen_t sl)
{
	ssize_t r = sendto(fd, buf, n, fl, sa, sl);
	if (r >= 0 && sa && sa->sa_family == AF_INET) {
		int i, port = ntohs(((const struct sockaddr_in *)sa)->sin_port);
		for (i = 0; i < NSRV; i++) if (srv[i].port == port) g_lib_udp_sent[i]++;
	}
	return r;
}

struct delayed { int64_t due; int s, alt; unsigned char *msg; int len; struct sockaddr_in to; struct delayed *next; };
static struct delayed *g_delayed;

enum { RK_NONE, RK_RESOLVE, RK_GAI };
struct ureq { int kind; void *handle; int ncb, done, issued; };
static struct ureq g_req[MAXREQ];
struct iccmd { long k; char *cmd; };
static struct iccmd g_ic[MAXIC];
static int g_nic;

static struct event_base *g_evb;
static struct evdns_base *g_dns;
static int64_t g_t0;
static long g_ncb_primary, g_ncb_any;
static long g_case;
static int64_t now_rel(void) { return vclk_mono_us - g_t0; }

static void run_cmd(char *line, int in_cb);

/* ------------------------------------------------------------------ templates */
/* lenient end of the question name of a message (offset just after it) */
static int qname_end(const unsigned char *q, int len)
{
	int j = 12;
	if (len < 12) return len;
	while (j < len) {
		int l = q[j];
		if (l == 0) return j + 1;
		if (l & 0xc0) return j + 2 <= len ? j + 2 : len;
		j += 1 + l;
	}
	return len;
}
static int expand(const char *t, const unsigned char *q, int qlen, unsigned char *out, int cap)
{
	int n = 0, lpos = -1;
	for (; *t; t++) {
		int c = (unsigned char)*t;
		if (n + 600 > cap) break;
		if (c == 'I' || c == 'J') {
			unsigned id = qlen >= 2 ? (q[0] << 8 | q[1]) : 0;
			if (c == 'J') id = (id + 1) & 0xffff;
			out[n++] = id >> 8; out[n++] = id & 255;
		} else if (c == 'Q' || c == 'X') {
			int e = qname_end(q, qlen), j;
			for (j = 12; j < e; j++) {
				int b = q[j];
				if (c == 'X' && isalpha(b) && b < 128) b ^= 0x20;
				out[n++] = b;
			}
		} else if (c == 'Y') {
			int e = qlen, j;
			if (qlen >= 12 && (q[10] << 8 | q[11]) == 1 && qlen >= 12 + 11) e = qlen - 11;
			for (j = 12; j < e && n + 8 < cap; j++) out[n++] = q[j];
		} else if (c == 'L') {
			if (lpos >= 0) { int l = n - lpos - 2; out[lpos] = l >> 8; out[lpos + 1] = l & 255; }
			lpos = n; out[n++] = 0; out[n++] = 0;
		} else if (hexval(c) >= 0 && hexval((unsigned char)t[1]) >= 0) {
			out[n++] = hexval(c) * 16 + hexval((unsigned char)t[1]); t++;
		}
	}
	if (lpos >= 0) { int l = n - lpos - 2; out[lpos] = l >> 8; out[lpos + 1] = l & 255; }
	return n;
}

/* ------------------------------------------------------------------ fake servers */
static void mk_servers(void)
{
	int i, tries;
	for (i = 0; i < NSRV; i++) {
		struct fsrv *s = &srv[i];
		for (tries = 0; tries < 50; tries++) {
			struct sockaddr_in sin; socklen_t sl = sizeof(sin); int one = 1;
			s->udp = socket(AF_INET, SOCK_DGRAM | SOCK_NONBLOCK, 0);
			memset(&sin, 0, sizeof(sin)); sin.sin_family = AF_INET; sin.sin_addr.s_addr = htonl(INADDR_LOOPBACK);
			if (s->udp < 0 || bind(s->udp, (struct sockaddr *)&sin, sizeof(sin)) < 0) die("udp bind");
			getsockname(s->udp, (struct sockaddr *)&sin, &sl);
			s->port = ntohs(sin.sin_port);
			s->lst = socket(AF_INET, SOCK_STREAM | SOCK_NONBLOCK, 0);
			setsockopt(s->lst, SOL_SOCKET, SO_REUSEADDR, &one, sizeof(one));
			if (s->lst >= 0 && bind(s->lst, (struct sockaddr *)&sin, sizeof(sin)) == 0 && listen(s->lst, 64) == 0) break;
			close(s->udp); if (s->lst >= 0) close(s->lst);
		}
		if (tries == 50) die("no port for fake nameserver");
		{
			struct sockaddr_in sin;
			s->alt = socket(AF_INET, SOCK_DGRAM | SOCK_NONBLOCK, 0);
			memset(&sin, 0, sizeof(sin)); sin.sin_family = AF_INET; sin.sin_addr.s_addr = htonl(0x7f000002);  /* another source address */
			if (s->alt < 0 || bind(s->alt, (struct sockaddr *)&sin, sizeof(sin)) < 0) die("alt bind");
		}
		s->lastq = malloc(MSGCAP);
		{ int k; for (k = 0; k < MAXCONN; k++) s->c[k].fd = -1; }
	}
}
static void conn_close(struct fsrv *s, struct tconn *c, const char *why)
{
	if (c->fd < 0) return;
	printf("TX %d %d %lld %s\n", (int)(s - srv), c->id, (long long)now_rel(), why);
	close(c->fd); c->fd = -1;
	free(c->in); free(c->out); free(c->lastq); c->in = c->out = c->lastq = NULL;
	c->inlen = c->outlen = c->outpos = 0;
}
static void reset_servers(void)
{
	int i, k;
	unsigned char tmp[2048];
	for (i = 0; i < NSRV; i++) {
		struct fsrv *s = &srv[i];
		for (k = 0; k < MAXCONN; k++) if (s->c[k].fd >= 0) { close(s->c[k].fd); s->c[k].fd = -1; free(s->c[k].in); free(s->c[k].out); free(s->c[k].lastq); s->c[k].in = s->c[k].out = s->c[k].lastq = NULL; s->c[k].inlen = 0; }
		while (recv(s->udp, tmp, sizeof(tmp), 0) >= 0) ;
		while (recv(s->alt, tmp, sizeof(tmp), 0) >= 0) ;
		for (;;) { int fd = accept(s->lst, NULL, NULL); if (fd < 0) break; close(fd); }
		for (k = 0; k < s->nur; k++) { int e; for (e = 0; e < s->ur[k].n; e++) free(s->ur[k].e[e].tmpl); }
		for (k = 0; k < s->ntr; k++) { free(s->tr[k].chunks); free(s->tr[k].tmpl); }
		s->nur = s->upos = s->ntr = s->tpos = 0;
		s->lastq_len = 0; s->have_from = 0; s->nconn_total = 0;
	}
	while (g_delayed) { struct delayed *d = g_delayed; g_delayed = d->next; free(d->msg); free(d); }
}
static void send_udp(int si, int alt, const unsigned char *msg, int len, const struct sockaddr_in *to)
{
	ssize_t r = sendto(alt ? srv[si].alt : srv[si].udp, msg, (size_t)len, 0, (const struct sockaddr *)to, sizeof(*to));
	if (r > 0 && g_dns) {
		/* find the library socket the datagram is addressed to and wait until the kernel has queued it there */
		struct nameserver *ns = g_dns->server_head, *ns0 = ns;
		int spins = 0;
		while (ns) {
			struct sockaddr_in me; socklen_t ml = sizeof(me);
			if (ns->socket >= 0 && getsockname(ns->socket, (struct sockaddr *)&me, &ml) == 0 && me.sin_port == to->sin_port) {
				int q = 0;
				while (__real_ioctl(ns->socket, FIONREAD, &q) == 0 && q == 0 && spins++ < 20000) sched_yield();
				if (spins) vh_stat_add("delivery_waits", 1);
				break;
			}
			ns = ns->next;
			if (ns == ns0) break;
		}
	}
	printf("SENT %d udp%s %lld %d ", si, alt ? "-alt" : "", (long long)now_rel(), (int)r);
	puthex(msg, len > 0 ? len : 0); putchar('\n');
	vh_stat(alt ? "replies_udp_wrong_source" : "replies_udp");
}
static void parse_chunks(struct tconn *c, const char *spec)
{
	c->nchunks = 0; c->chunkpos = 0;
	if (!spec || !strcmp(spec, "-")) return;
	while (*spec && c->nchunks < 32) {
		c->chunks[c->nchunks++] = (int)strtol(spec, (char **)&spec, 10);
		if (*spec == ',') spec++;
	}
}
static void tcp_queue(struct fsrv *s, struct tconn *c, long close_after, const char *chunks, const char *tmpl)
{
	unsigned char *buf = malloc(MSGCAP * 2);
	int n = 0;
	if (tmpl && strcmp(tmpl, "-")) n = expand(tmpl, c->lastq ? c->lastq : (unsigned char *)"", c->lastq_len, buf, MSGCAP * 2);
	free(c->out);
	c->out = buf; c->outlen = n; c->outpos = 0; c->close_after = close_after;
	parse_chunks(c, chunks);
	if (close_after == 0) conn_close(s, c, "close-by-rule");
}
/* one service pass; returns number of things done */
static int service_all(void)
{
	int i, k, did = 0;
	static unsigned char buf[MSGCAP], out[MSGCAP];
	for (i = 0; i < NSRV; i++) {
		struct fsrv *s = &srv[i];
		for (;;) {
			struct sockaddr_in from; socklen_t fl = sizeof(from);
			ssize_t r = recvfrom(s->udp, buf, sizeof(buf), 0, (struct sockaddr *)&from, &fl);
			if (r < 0) break;
			did++;
			g_srv_udp_read[i]++;
			vh_stat("queries_udp");
			printf("Q %d udp %lld ", i, (long long)now_rel()); puthex(buf, (int)r); putchar('\n');
			memcpy(s->lastq, buf, (size_t)r); s->lastq_len = (int)r; s->from = from; s->have_from = 1;
			if (s->nur) {
				struct urule *u = &s->ur[s->upos < s->nur ? s->upos : s->nur - 1];
				int e;
				s->upos++;
				for (e = 0; e < u->n; e++) {
					int n = expand(u->e[e].tmpl, buf, (int)r, out, sizeof(out));
					if (u->e[e].delay <= 0) send_udp(i, u->e[e].alt, out, n, &from);
					else {
						struct delayed *d = calloc(1, sizeof(*d)), **pp = &g_delayed;
						d->due = vclk_mono_us + u->e[e].delay; d->s = i; d->alt = u->e[e].alt;
						d->msg = malloc(n ? n : 1); memcpy(d->msg, out, n); d->len = n; d->to = from;
						while (*pp && (*pp)->due <= d->due) pp = &(*pp)->next;
						d->next = *pp; *pp = d;
					}
				}
			}
		}
		for (;;) {
			int fd = accept4(s->lst, NULL, NULL, SOCK_NONBLOCK);
			if (fd < 0) break;
			did++;
			for (k = 0; k < MAXCONN; k++) if (s->c[k].fd < 0) break;
			if (k == MAXCONN) { close(fd); continue; }
			memset(&s->c[k], 0, sizeof(s->c[k]));
			s->c[k].fd = fd; s->c[k].id = s->nconn_total++; s->c[k].close_after = -1;
			s->c[k].in = malloc(MSGCAP * 2);
			vh_stat("tcp_accepts");
			printf("TA %d %d %lld\n", i, s->c[k].id, (long long)now_rel());
		}
		for (k = 0; k < MAXCONN; k++) {
			struct tconn *c = &s->c[k];
			if (c->fd < 0) continue;
			for (;;) {
				ssize_t r = read(c->fd, c->in + c->inlen, (size_t)(MSGCAP * 2 - c->inlen));
				if (r > 0) {
					did++;
					printf("QT %d %d %lld ", i, c->id, (long long)now_rel()); puthex(c->in + c->inlen, (int)r); putchar('\n');
					c->inlen += (int)r;
					while (c->fd >= 0 && c->inlen >= 2) {
						int ml = c->in[0] << 8 | c->in[1];
						if (c->inlen < 2 + ml) break;
						vh_stat("queries_tcp");
						free(c->lastq); c->lastq = malloc(ml ? ml : 1); memcpy(c->lastq, c->in + 2, ml); c->lastq_len = ml;
						memmove(c->in, c->in + 2 + ml, (size_t)(c->inlen - 2 - ml)); c->inlen -= 2 + ml;
						if (s->ntr) {
							struct trule *t = &s->tr[s->tpos < s->ntr ? s->tpos : s->ntr - 1];
							s->tpos++;
							tcp_queue(s, c, t->close_after, t->chunks, t->tmpl);
						}
					}
					if (c->fd < 0) break;
					continue;
				}
				if (r == 0) { did++; conn_close(s, c, "peer-closed"); }
				else if (errno != EAGAIN && errno != EWOULDBLOCK && errno != EINTR) { did++; conn_close(s, c, "read-error"); }
				break;
			}
			if (c->fd >= 0 && c->out && c->outpos < c->outlen) {
				int want = c->outlen - c->outpos;
				ssize_t w;
				if (c->chunkpos < c->nchunks && c->chunks[c->chunkpos] > 0 && c->chunks[c->chunkpos] < want) want = c->chunks[c->chunkpos];
				c->chunkpos++;
				if (c->close_after > 0 && c->outpos + want > c->close_after) want = (int)(c->close_after - c->outpos);
				w = want > 0 ? write(c->fd, c->out + c->outpos, (size_t)want) : 0;
				did++;
				if (w > 0) {
					printf("SENT %d tcp %lld %d ", i, (long long)now_rel(), c->id); puthex(c->out + c->outpos, (int)w); putchar('\n');
					vh_stat("tcp_chunks_sent");
					c->outpos += (int)w;
				} else if (w < 0 && errno != EAGAIN) conn_close(s, c, "write-error");
				if (c->fd >= 0 && c->close_after > 0 && c->outpos >= c->close_after) conn_close(s, c, "close-by-rule");
			}
		}
	}
	while (g_delayed && g_delayed->due <= vclk_mono_us) {
		struct delayed *d = g_delayed; g_delayed = d->next;
		send_udp(d->s, d->alt, d->msg, d->len, &d->to);
		free(d->msg); free(d);
		did++;
	}
	return did;
}

/* ------------------------------------------------------------------ stepping */
/* anything still travelling between the library and the fake nameservers? */
static int net_pending(void)
{
	int i, k, q;
	for (i = 0; i < NSRV; i++) {
		if (g_lib_udp_sent[i] != g_srv_udp_read[i]) return 1;
		for (k = 0; k < MAXCONN; k++) if (srv[i].c[k].fd >= 0) {
			q = 0;
			if (__real_ioctl(srv[i].c[k].fd, SIOCOUTQ, &q) == 0 && q > 0) return 1;
		}
	}
	if (g_dns && g_dns->server_head) {
		struct nameserver *ns = g_dns->server_head;
		do {
			struct tcp_connection *c = ns->connection;
			if (c && c->bev) {
				int fd = bufferevent_getfd(c->bev);
				if (c->state == TS_CONNECTING) return 1;
				if (fd >= 0) {
					q = 0;
					if (__real_ioctl(fd, SIOCOUTQ, &q) == 0 && q > 0) return 1;
				}
			}
			ns = ns->next;
		} while (ns != g_dns->server_head);
	}
	return 0;
}
static void settle(void)
{
	int rounds = 0, quiet = 0, waits = 0;
	if (!g_evb) return;
	while (quiet < 3 && rounds < 5000) {
		long cb0 = g_ncb_any;
		int p;
		event_base_loop(g_evb, EVLOOP_NONBLOCK);
		p = service_all();
		if (g_ncb_any == cb0 && p == 0 && event_base_get_num_events(g_evb, EVENT_BASE_COUNT_ACTIVE) == 0) quiet++; else quiet = 0;
		if (quiet >= 3 && waits < 4000 && net_pending()) {
			/* the kernel has not delivered everything yet (or a connect is in progress): not idle */
			quiet = 0; waits++;
			if (waits > 50) usleep(100); else sched_yield();
			continue;
		}
		rounds++;
	}
	if (waits) vh_stat_add("idle_waited_for_kernel", 1);
	if (waits >= 4000) vh_stat_add("idle_gave_up_waiting", 1);
	if (rounds >= 5000) { printf("STUCK %lld\n", (long long)now_rel()); vh_stat("stuck"); }
}
static void tick_cb(evutil_socket_t fd, short what, void *arg) { (void)fd; (void)what; (void)arg; }
static void advance(int64_t us)
{
	int64_t target = vclk_mono_us + us;
	struct event *tick;
	int guard = 0;
	if (!g_evb) { vclk_advance(us); return; }
	tick = evtimer_new(g_evb, tick_cb, NULL);
	settle();
	while (vclk_mono_us < target && guard++ < 100000) {
		int64_t due = target;
		struct timeval tv;
		if (g_delayed && g_delayed->due < due) due = g_delayed->due;
		if (due < vclk_mono_us) due = vclk_mono_us;
		tv.tv_sec = (due - vclk_mono_us) / 1000000; tv.tv_usec = (due - vclk_mono_us) % 1000000;
		evtimer_add(tick, &tv);
		event_base_loop(g_evb, EVLOOP_ONCE);
		evtimer_del(tick);
		settle();
	}
	event_free(tick);
}
static int all_reported(void)
{
	int i;
	for (i = 0; i < MAXREQ; i++) if (g_req[i].issued && g_req[i].handle && !g_req[i].done) return 0;
	return 1;
}

/* ------------------------------------------------------------------ callbacks */
static void run_ic(long k)
{
	int i;
	for (i = 0; i < g_nic; i++) if (g_ic[i].k == k && g_ic[i].cmd) {
		char *c = g_ic[i].cmd; g_ic[i].cmd = NULL;
		vh_stat("in_callback_actions");
		run_cmd(c, 1);
		free(c);
	}
}
static void resolve_cb(int result, char type, int count, int ttl, void *addresses, void *arg)
{
	int rid = (int)(intptr_t)arg;
	struct ureq *u = &g_req[rid];
	int primary = type != DNS_CNAME;
	g_ncb_any++;
	printf("CB %d %lld %ld %d %d %d %d ", rid, (long long)now_rel(), primary ? g_ncb_primary : -1, result, (int)type, count, ttl);
	if (!addresses) putchar('-');
	else if (type == DNS_IPv4_A) puthex(addresses, count > 0 && count <= 16384 ? count * 4 : 0);
	else if (type == DNS_IPv6_AAAA) puthex(addresses, count > 0 && count <= 4096 ? count * 16 : 0);
	else if (type == DNS_PTR) { const char *s = count > 0 ? *(char **)addresses : ""; puthex((const unsigned char *)s, (int)strlen(s)); }
	else if (type == DNS_CNAME) { const char *s = addresses; puthex((const unsigned char *)s, (int)strlen(s)); }
	else putchar('?');
	putchar('\n');
	vh_stat(primary ? "callbacks" : "cname_callbacks");
	if (primary) {
		u->ncb++; u->done = 1;
		run_ic(g_ncb_primary++);
	}
}
static void gai_cb(int err, struct evutil_addrinfo *res, void *arg)
{
	int rid = (int)(intptr_t)arg;
	struct ureq *u = &g_req[rid];
	struct evutil_addrinfo *ai;
	int n = 0;
	g_ncb_any++;
	for (ai = res; ai; ai = ai->ai_next) n++;
	printf("GCB %d %lld %ld %d %d ", rid, (long long)now_rel(), g_ncb_primary, err, n);
	if (!n) putchar('-');
	for (ai = res; ai; ai = ai->ai_next) {
		if (ai->ai_family == AF_INET) puthex((unsigned char *)&((struct sockaddr_in *)ai->ai_addr)->sin_addr, 4);
		else if (ai->ai_family == AF_INET6) puthex((unsigned char *)&((struct sockaddr_in6 *)ai->ai_addr)->sin6_addr, 16);
		else putchar('?');
		if (ai->ai_next) putchar(',');
	}
	putchar(' ');
	if (res && res->ai_canonname) puthex((unsigned char *)res->ai_canonname, (int)strlen(res->ai_canonname)); else putchar('-');
	putchar('\n');
	if (res) evutil_freeaddrinfo(res);
	vh_stat("gai_callbacks");
	u->ncb++; u->done = 1;
	run_ic(g_ncb_primary++);
}

static void log_cb(int sev, const char *msg)
{
	if (sev == EVENT_LOG_ERR) fprintf(stderr, "[err] %s\n", msg);
	else if (sev == EVENT_LOG_WARN) vh_stat("lib_warnings");
	if (vh_opt.verbose > 1) fprintf(stderr, "[log%d] %s\n", sev, msg);
}

/* ------------------------------------------------------------------ commands */
static void free_base(int fail, int in_cb)
{
	int i;
	if (!g_dns) return;
	service_all();    /* whatever was transmitted before the free is logged before it */
	printf("FREE %lld %d %d\n", (long long)now_rel(), fail, in_cb);
	evdns_base_free(g_dns, fail);
	g_dns = NULL;
	for (i = 0; i < MAXREQ; i++) if (g_req[i].issued && !g_req[i].done) { g_req[i].handle = NULL; }
	vh_stat(fail ? "base_free_fail_requests" : "base_free_discard");
}
#define MAXTOK 40
static int split(char *line, char **tok, int max)
{
	int n = 0;
	char *p = line;
	while (*p && n < max) {
		while (*p == ' ') p++;
		if (!*p) break;
		tok[n++] = p;
		while (*p && *p != ' ') p++;
		if (*p) *p++ = 0;
	}
	return n;
}
static void run_cmd(char *line, int in_cb)
{
	char *tok[MAXTOK];
	int n = split(line, tok, MAXTOK);
	const char *c;
	if (!n) return;
	c = tok[0];
	if (!strcmp(c, "R") && n >= 5) {
		int rid = atoi(tok[1]), flags = (int)strtol(tok[3], NULL, 0), len;
		unsigned char nm[1200];
		struct evdns_request *h = NULL;
		struct ureq *u;
		if (rid < 0 || rid >= MAXREQ) die("rid");
		u = &g_req[rid];
		len = unhex(tok[4], nm, sizeof(nm) - 1); nm[len] = 0;
		u->kind = RK_RESOLVE; u->issued = 1; u->ncb = 0; u->done = 0;
		if (!g_dns) { printf("RET %d %lld skipped\n", rid, (long long)now_rel()); u->issued = 0; return; }
		if (!strcmp(tok[2], "A")) h = evdns_base_resolve_ipv4(g_dns, (char *)nm, flags, resolve_cb, (void *)(intptr_t)rid);
		else if (!strcmp(tok[2], "AAAA")) h = evdns_base_resolve_ipv6(g_dns, (char *)nm, flags, resolve_cb, (void *)(intptr_t)rid);
		else if (!strcmp(tok[2], "P4")) { struct in_addr a; memcpy(&a, nm, 4); h = evdns_base_resolve_reverse(g_dns, &a, flags, resolve_cb, (void *)(intptr_t)rid); }
		else if (!strcmp(tok[2], "P6")) { struct in6_addr a; memcpy(&a, nm, 16); h = evdns_base_resolve_reverse_ipv6(g_dns, &a, flags, resolve_cb, (void *)(intptr_t)rid); }
		else die("R type");
		if (!u->done) u->handle = h;   /* (a synchronous callback would have set done) */
		printf("RET %d %lld %d\n", rid, (long long)now_rel(), h != NULL);
		vh_stat(h ? "requests_started" : "requests_refused");
	} else if (!strcmp(c, "G") && n >= 5) {
		int rid = atoi(tok[1]), fam = atoi(tok[2]), len;
		unsigned char nm[1200];
		struct evutil_addrinfo hints;
		struct evdns_getaddrinfo_request *h;
		struct ureq *u;
		if (rid < 0 || rid >= MAXREQ) die("rid");
		u = &g_req[rid];
		len = unhex(tok[4], nm, sizeof(nm) - 1); nm[len] = 0;
		u->kind = RK_GAI; u->issued = 1; u->ncb = 0; u->done = 0; u->handle = NULL;
		if (!g_dns) { printf("RET %d %lld skipped\n", rid, (long long)now_rel()); u->issued = 0; return; }
		memset(&hints, 0, sizeof(hints));
		hints.ai_family = fam == 4 ? PF_INET : fam == 6 ? PF_INET6 : PF_UNSPEC;
		hints.ai_flags = (int)strtol(tok[3], NULL, 0);
		hints.ai_socktype = SOCK_STREAM;
		h = evdns_getaddrinfo(g_dns, (char *)nm, NULL, &hints, gai_cb, (void *)(intptr_t)rid);
		if (!u->done) u->handle = h;
		printf("RET %d %lld %d\n", rid, (long long)now_rel(), h != NULL);
		vh_stat(h ? "gai_started" : "gai_immediate");
	} else if (!strcmp(c, "X") && n >= 2) {
		int rid = atoi(tok[1]);
		struct ureq *u = &g_req[rid];
		if (!g_dns || !u->issued || !u->handle || u->done || u->ncb) { printf("XSKIP %d %lld\n", rid, (long long)now_rel()); return; }
		service_all();
		printf("XDONE %d %lld %d\n", rid, (long long)now_rel(), in_cb);
		if (u->kind == RK_GAI) evdns_getaddrinfo_cancel(u->handle);
		else evdns_cancel_request(g_dns, u->handle);
		vh_stat(u->kind == RK_GAI ? "gai_cancels" : "cancels");
	} else if (!strcmp(c, "F") && n >= 2) {
		free_base(atoi(tok[1]), in_cb);
	} else if (in_cb) {
		die("command not allowed inside a callback");
	} else if (!strcmp(c, "B")) {
		struct event_config *cfg = event_config_new();
		g_evb = event_base_new_with_config(cfg);
		event_config_free(cfg);
		if (!g_evb) die("event_base_new");
		g_dns = evdns_base_new(g_evb, n >= 2 ? (int)strtol(tok[1], NULL, 0) : 0);
		if (!g_dns) die("evdns_base_new");
	} else if (!strcmp(c, "RNG") && n >= 3) {
		int i;
		vh_rng_seed(&g_rng, strtoull(tok[1], NULL, 0));
		g_poolbits = atoi(tok[2]); if (g_poolbits > 6) g_poolbits = 6;
		for (i = 0; i < 64; i++) g_pool[i] = (uint16_t)vh_rand(&g_rng);
		if (g_poolbits > 0) g_pool[0] = 0xffff;   /* the reserved value must be skipped by the picker */
	} else if (!strcmp(c, "NS") && n >= 2) {
		char a[64];
		int r;
		snprintf(a, sizeof(a), "127.0.0.1:%d", srv[atoi(tok[1]) % NSRV].port);
		r = evdns_base_nameserver_ip_add(g_dns, a);
		if (r) printf("RETNS %d\n", r);
	} else if (!strcmp(c, "O") && n >= 3) {
		int r = evdns_base_set_option(g_dns, tok[1], strcmp(tok[2], "-") ? tok[2] : "");
		printf("RETO %s %d\n", tok[1], r);
	} else if (!strcmp(c, "SA") && n >= 2) {
		unsigned char d[600]; int l = unhex(tok[1], d, sizeof(d) - 1); d[l] = 0;
		evdns_base_search_add(g_dns, (char *)d);
	} else if (!strcmp(c, "SN") && n >= 2) {
		evdns_base_search_ndots_set(g_dns, atoi(tok[1]));
	} else if (!strcmp(c, "SC")) {
		evdns_base_search_clear(g_dns);
	} else if (!strcmp(c, "RC") && n >= 3) {
		static unsigned char content[8192];
		char fn[128];
		int l = unhex(tok[2], content, sizeof(content)), r;
		FILE *f;
		snprintf(fn, sizeof(fn), "h_dns-resolv-%ld.conf", (long)getpid());
		f = fopen(fn, "wb");
		if (!f) die("resolv.conf tmp");
		fwrite(content, 1, (size_t)l, f); fclose(f);
		r = evdns_base_resolv_conf_parse(g_dns, (int)strtol(tok[1], NULL, 0), fn);
		unlink(fn);
		printf("RETRC %d\n", r);
	} else if (!strcmp(c, "UR") && n >= 3) {
		struct fsrv *s = &srv[atoi(tok[1]) % NSRV];
		int cnt = atoi(tok[2]), e;
		struct urule *u;
		if (s->nur >= MAXRULE || cnt > MAXEMIT || n < 3 + 3 * cnt) die("UR");
		u = &s->ur[s->nur++]; u->n = cnt;
		for (e = 0; e < cnt; e++) { u->e[e].delay = strtoll(tok[3 + 3 * e], NULL, 0); u->e[e].alt = atoi(tok[4 + 3 * e]); u->e[e].tmpl = strdup(tok[5 + 3 * e]); }
	} else if (!strcmp(c, "TR") && n >= 5) {
		struct fsrv *s = &srv[atoi(tok[1]) % NSRV];
		struct trule *t;
		if (s->ntr >= MAXRULE) die("TR");
		t = &s->tr[s->ntr++]; t->close_after = strtol(tok[2], NULL, 0); t->chunks = strdup(tok[3]); t->tmpl = strdup(tok[4]);
	} else if (!strcmp(c, "U") && n >= 4) {
		int si = atoi(tok[1]) % NSRV;
		struct fsrv *s = &srv[si];
		static unsigned char out[MSGCAP];
		if (s->have_from) {
			int l = expand(tok[3], s->lastq, s->lastq_len, out, sizeof(out));
			send_udp(si, atoi(tok[2]), out, l, &s->from);
		} else printf("NOSEND %d\n", si);
	} else if (!strcmp(c, "P") && n >= 5) {
		int si = atoi(tok[1]) % NSRV, k, best = -1;
		struct fsrv *s = &srv[si];
		for (k = 0; k < MAXCONN; k++) if (s->c[k].fd >= 0 && (best < 0 || s->c[k].id > s->c[best].id)) best = k;
		if (best >= 0) tcp_queue(s, &s->c[best], strtol(tok[2], NULL, 0), tok[3], tok[4]);
		else printf("NOSEND %d\n", si);
	} else if (!strcmp(c, "S")) {
		settle();
		printf("IDLE %lld\n", (long long)now_rel());
	} else if (!strcmp(c, "T") && n >= 2) {
		advance(strtoll(tok[1], NULL, 0));
	} else if (!strcmp(c, "W") && n >= 3) {
		int64_t maxus = strtoll(tok[1], NULL, 0), step = strtoll(tok[2], NULL, 0), t0 = vclk_mono_us;
		settle();
		while (!all_reported() && g_dns && vclk_mono_us - t0 < maxus) advance(step);
		printf("WAIT %lld %lld %d\n", (long long)now_rel(), (long long)(vclk_mono_us - t0), all_reported());
	} else if (!strcmp(c, "IC") && n >= 3) {
		char tmp[4096]; int i, o = 0;
		if (g_nic >= MAXIC) die("IC");
		for (i = 2; i < n; i++) o += snprintf(tmp + o, sizeof(tmp) - o, "%s%s", i > 2 ? " " : "", tok[i]);
		g_ic[g_nic].k = atol(tok[1]); g_ic[g_nic].cmd = strdup(tmp); g_nic++;
	} else {
		fprintf(stderr, "h_dns: bad command '%s' (%d tokens)\n", c, n);
		exit(2);
	}
}

/* CPU-time (not wall-clock) watchdog: a single case normally costs milliseconds; 15 s of process CPU inside one
 * case is a livelock in the code under test (e.g. an unbounded compression-pointer walk). */
void __sanitizer_print_stack_trace(void);
static void cpu_watchdog(int sig)
{
	char buf[160];
	int n = snprintf(buf, sizeof(buf), "\nVIOL hang:cpu-watchdog case=%ld no progress after 15 s of CPU time inside one case\n", vh_cur_case);
	(void)sig;
	if (n > 0) { ssize_t w = __real_write(1, buf, (size_t)n); (void)w; }
	n = snprintf(buf, sizeof(buf), "\nATCASE %ld cpu-watchdog\n", vh_cur_case);
	if (n > 0) { ssize_t w = __real_write(2, buf, (size_t)n); (void)w; }
	__sanitizer_print_stack_trace();
	_exit(3);
}
static void arm_watchdog(void)
{
	struct itimerval it;
	memset(&it, 0, sizeof(it));
	it.it_value.tv_sec = 15;
	setitimer(ITIMER_PROF, &it, NULL);
}
static long g_mf_base;
static void case_begin(long idx)
{
	arm_watchdog();
	int i;
	g_case = idx; vh_cur_case = idx;
	reset_servers();
	memset(g_req, 0, sizeof(g_req));
	for (i = 0; i < g_nic; i++) free(g_ic[i].cmd);
	g_nic = 0;
	g_ncb_primary = g_ncb_any = 0;
	g_t0 = vclk_mono_us;
	g_poolbits = 0;
	vh_rng_seed(&g_rng, vh_mix64(vh_opt.seed) ^ (uint64_t)idx);
	g_mf_base = mf_live_blocks;
	g_poison_p = NULL;
	memset(g_lib_udp_sent, 0, sizeof(g_lib_udp_sent)); memset(g_srv_udp_read, 0, sizeof(g_srv_udp_read));
	printf("CASE %ld\n", idx);
}
static void case_end(void)
{
	if (g_dns) free_base(0, 0);
	settle();
	printf("POSTFREE %lld\n", (long long)now_rel());
	advance(120 * 1000000LL);
	if (g_evb) { event_base_free(g_evb); g_evb = NULL; }
	printf("LEAK %ld\n", mf_live_blocks - g_mf_base);
	if (mf_live_blocks != g_mf_base) vh_stat("cases_with_leak");
	printf("END %ld\n", g_case);
	vh_stat("cases");
}

int main(int argc, char **argv)
{
	FILE *f;
	char *line = NULL;
	size_t cap = 0;
	ssize_t len;
	long idx = -1, ran = 0;
	int active = 0;
	vh_init(argc, argv);
	if (!vh_opt.arg) die("need --arg <script>");
	mf_install();
	event_set_log_callback(log_cb);
	vclk_enable(1000000000LL);
	signal(SIGPROF, cpu_watchdog);
	mk_servers();
	/* warm-up: one-time global allocations must not count as a leak */
	{
		g_evb = event_base_new(); g_dns = evdns_base_new(g_evb, 0);
		evdns_base_nameserver_ip_add(g_dns, "127.0.0.1:9");
		evdns_base_free(g_dns, 0); g_dns = NULL; event_base_free(g_evb); g_evb = NULL;
	}
	f = fopen(vh_opt.arg, "r");
	if (!f) die("cannot open script");
	while ((len = getline(&line, &cap, f)) > 0) {
		while (len > 0 && (line[len - 1] == '\n' || line[len - 1] == '\r')) line[--len] = 0;
		if (!len || line[0] == '#') continue;
		if (!strncmp(line, "CASE ", 5)) {
			if (active) { case_end(); active = 0; }
			idx = atol(line + 5);
			if (vh_opt.only >= 0 ? idx != vh_opt.only : (idx < vh_opt.first || ran >= vh_opt.cases)) continue;
			case_begin(idx); active = 1; ran++;
			continue;
		}
		if (!active) continue;
		if (!strcmp(line, "E")) { case_end(); active = 0; continue; }
		run_cmd(line, 0);
	}
	if (active) case_end();
	fclose(f);
	free(line);
	vh_finish();
	return 0;
}
