/* C28 / C29: URI parsing, joining, escaping, query splitting, HTML escaping.
 *
 * Everything the oracle knows is written here from RFC 3986 and the doc
 * comments of include/event2/http.h; nothing is shared with http.c (own
 * character classes, own IPv6/IPvFuture validators, own splitter, own
 * decoder).  Modes:
 *   C28: gram  grammar-generated URI-references (components known a priori)
 *        rand  delimiter-heavy token soup + mutated grammar strings
 *        enum  exhaustive: every string of length <= n1 over a 12-symbol
 *              delimiter alphabet, behind each of NPREFIX prefixes
 *        setter URIs built with evhttp_uri_set_*
 *   C29: enc dec query html xenum
 * Every input is run under all 8 combinations of NONCONFORMANT,
 * HOST_STRIP_BRACKETS, UNIX_SOCKET (C28) / all 4 query flag sets (C29).
 */
#include "vh.h"
#include <ctype.h>
#include <event2/http.h>
#include <event2/buffer.h>
#include <event2/keyvalq_struct.h>
#include "http-internal.h"

/* ------------------------------------------------------------------ counters */
#define STATS(X) \
	X(parses) X(accepted) X(rejected) X(must_accept) X(must_reject) X(either) \
	X(components_compared) X(roundtrip_ok) X(join_text_checked) X(join_limit_checked) \
	X(unix_form_pinned) X(unix_form_accepted) X(unix_form_either) \
	X(host_ipv6) X(host_ipvfuture) X(host_empty) X(host_regname) X(brackets_stripped) \
	X(port_set) X(port_empty) X(userinfo_seen) X(query_empty_string) X(query_null) \
	X(fragment_empty_string) X(scheme_null) X(path_empty) X(nonconf_only_accept) \
	X(reject_bad_pct) X(reject_bad_port) X(reject_bad_char) X(reject_bad_host) X(reject_bad_scheme) \
	X(gen_ref_agree) \
	X(setter_uris) X(setter_calls) X(setter_accepted) X(setter_refused) X(setter_join_ok) X(setter_join_refused) \
	X(setter_roundtrip_ok) X(setter_unix) X(setter_cleared) \
	X(enc_roundtrips) X(enc_with_nul) X(enc_plus_mode) X(enc_cstr_equiv) X(dec_calls) X(dec_internal_exact) \
	X(dec_pct_valid) X(dec_pct_truncated) X(dec_pct_badhex) X(dec_plus_converted) X(dec_plus_kept) X(dec_deprecated) \
	X(query_parses) X(query_ok) X(query_fail) X(query_pairs) X(query_lastval_replaced) X(query_empty_key_skipped) \
	X(query_novalue_tolerated) X(query_value_decoded) X(query_whole_uri) X(query_nul_truncated) \
	X(html_calls) X(html_escaped_chars) X(html_unescape_ok)
#define X(n) static long st_##n;
STATS(X)
#undef X
static void flush_stats(void)
{
#define X(n) if (st_##n) vh_stat_add(#n, st_##n);
	STATS(X)
#undef X
}
#define ST(n) (st_##n++)
/* samples come from the first shard of every step only, so the (few) evidence samples span all steps */
#define SAMPLE_HERE (vh_opt.first == 0 || vh_opt.only >= 0)


/* vh_viol prints at most 200 lines per process; a frequent (known) key must not crowd out a new one:
 * forward the first 3 witnesses of every key, count the rest */
static struct { char key[160]; long n; } vk[256];
static int nvk;
static void uviol(const char *key, const char *fmt, ...) __attribute__((format(printf, 2, 3)));
static void uviol(const char *key, const char *fmt, ...)
{
	int i; va_list ap; char buf[4096];
	for (i = 0; i < nvk; i++) if (!strcmp(vk[i].key, key)) break;
	if (i == nvk) { if (nvk == 256) i = 255; else { snprintf(vk[nvk].key, sizeof(vk[nvk].key), "%s", key); vk[nvk].n = 0; nvk++; } }
	if (vk[i].n++ >= 3) { vh_stat_add("violations_repeat_witnesses_not_printed", 1); return; }
	va_start(ap, fmt); vsnprintf(buf, sizeof(buf), fmt, ap); va_end(ap);
	vh_viol(key, "%s", buf);
}
#define vh_viol_raw vh_viol

/* ------------------------------------------------------------------ RFC 3986 character classes (own) */
static int c_alpha(int c) { return (c >= 'a' && c <= 'z') || (c >= 'A' && c <= 'Z'); }
static int c_digit(int c) { return c >= '0' && c <= '9'; }
static int c_hex(int c) { return c_digit(c) || (c >= 'a' && c <= 'f') || (c >= 'A' && c <= 'F'); }
static int c_unres(int c) { return c_alpha(c) || c_digit(c) || c == '-' || c == '.' || c == '_' || c == '~'; }
static int c_subdelim(int c) { return c && strchr("!$&'()*+,;=", c) != NULL; }
static int hexval(int c) { return c_digit(c) ? c - '0' : (c | 0x20) - 'a' + 10; }

/* [p,p+n) is *( unreserved / sub-delims / pct-encoded / one of extra ) */
static int chars_ok(const char *p, size_t n, const char *extra, int *badpct)
{
	size_t i = 0;
	while (i < n) {
		unsigned char c = (unsigned char)p[i];
		if (c_unres(c) || c_subdelim(c) || (c && strchr(extra, c))) { i++; continue; }
		if (c == '%') {
			if (i + 2 < n && c_hex((unsigned char)p[i + 1]) && c_hex((unsigned char)p[i + 2])) { i += 3; continue; }
			if (badpct) *badpct = 1;
			return 0;
		}
		return 0;
	}
	return 1;
}
static int scheme_valid(const char *p, size_t n)
{
	size_t i;
	if (n == 0 || !c_alpha((unsigned char)p[0])) return 0;
	for (i = 1; i < n; i++) {
		unsigned char c = (unsigned char)p[i];
		if (!c_alpha(c) && !c_digit(c) && c != '+' && c != '-' && c != '.') return 0;
	}
	return 1;
}
static int r_lenient;   /* 1: also admit the lax spellings evutil_inet_pton()'s sscanf/strtol let through (witness class only) */
static int r_h16(const char *p, size_t n)
{
	size_t i;
	if (r_lenient && n >= 3 && n <= 4 && p[0] == '0' && (p[1] == 'x' || p[1] == 'X')) { p += 2; n -= 2; }
	if (n < 1 || n > 4) return 0;
	for (i = 0; i < n; i++) if (!c_hex((unsigned char)p[i])) return 0;
	return 1;
}
static int r_dec_octet(const char *p, size_t n)
{
	size_t i; long v = 0; int neg = 0;
	if (r_lenient) {
		while (n && (*p == ' ' || (*p >= '\t' && *p <= '\r'))) { p++; n--; }
		if (n && (*p == '+' || *p == '-')) { neg = *p == '-'; p++; n--; }
		if (n < 1) return 0;
		for (i = 0; i < n; i++) { if (!c_digit((unsigned char)p[i])) return 0; if (v < 100000) v = v * 10 + (p[i] - '0'); }
		return neg ? v == 0 : v <= 255;
	}
	if (n < 1 || n > 3) return 0;
	for (i = 0; i < n; i++) { if (!c_digit((unsigned char)p[i])) return 0; v = v * 10 + (p[i] - '0'); }
	if (n > 1 && p[0] == '0') return 0;
	return v <= 255;
}
static int r_ipv4(const char *p, size_t n)
{
	int parts = 0; size_t i = 0, j;
	for (;;) {
		j = i;
		while (j < n && p[j] != '.') j++;
		if (!r_dec_octet(p + i, j - i)) return 0;
		parts++;
		if (j == n) break;
		i = j + 1;
	}
	return parts == 4;
}
/* RFC 3986 IPv6address */
static int r_ipv6(const char *p, size_t n)
{
	int groups = 0, gap = 0; size_t i = 0, j;
	if (n == 0) return 0;
	if (n >= 2 && p[0] == ':' && p[1] == ':') { gap = 1; i = 2; if (i == n) return 1; }
	else if (p[0] == ':') return 0;
	for (;;) {
		j = i;
		while (j < n && p[j] != ':') j++;
		if (j == n) {
			if (r_ipv4(p + i, j - i)) groups += 2;
			else if (r_h16(p + i, j - i)) groups += 1;
			else return 0;
			break;
		}
		if (!r_h16(p + i, j - i)) return 0;
		groups++;
		if (j + 1 < n && p[j + 1] == ':') {
			if (gap) return 0;
			gap = 1; i = j + 2;
			if (i == n) break;
			continue;
		}
		i = j + 1;
		if (i == n) { if (r_lenient) break; return 0; }   /* lax: a trailing single ':' */
	}
	return gap ? groups <= 7 : groups == 8;
}
/* IPvFuture = "v" 1*HEXDIG "." 1*( unreserved / sub-delims / ":" ) ; ABNF literals are case-insensitive */
static int r_ipvfuture(const char *p, size_t n, int *upper_v, int *empty_tail)
{
	size_t i = 1, k;
	if (n < 1 || (p[0] != 'v' && p[0] != 'V')) return 0;
	if (upper_v) *upper_v = (p[0] == 'V');
	while (i < n && c_hex((unsigned char)p[i])) i++;
	if (i == 1 || i >= n || p[i] != '.') return 0;
	i++;
	if (i == n) { if (empty_tail) *empty_tail = 1; return 0; }
	for (k = i; k < n; k++) {
		unsigned char c = (unsigned char)p[k];
		if (!c_unres(c) && !c_subdelim(c) && c != ':') return 0;
	}
	return 1;
}

/* ------------------------------------------------------------------ components */
enum { F_SCHEME, F_USERINFO, F_HOST, F_SOCK, F_PATH, F_QUERY, F_FRAG, NF };
static const char *fname[NF] = { "scheme", "userinfo", "host", "unixsocket", "path", "query", "fragment" };
struct comps { char *f[NF]; int port; };

static char *xdupn(const char *p, size_t n)
{
	char *r = malloc(n + 1);
	if (!r) { fprintf(stderr, "harness: oom\n"); exit(3); }
	memcpy(r, p, n); r[n] = 0;
	return r;
}
static void comps_free(struct comps *c) { int i; for (i = 0; i < NF; i++) { free(c->f[i]); c->f[i] = NULL; } }
static void comps_from_uri(struct comps *c, const struct evhttp_uri *u)
{
	const char *v[NF]; int i;
	v[F_SCHEME] = evhttp_uri_get_scheme(u); v[F_USERINFO] = evhttp_uri_get_userinfo(u);
	v[F_HOST] = evhttp_uri_get_host(u); v[F_SOCK] = evhttp_uri_get_unixsocket(u);
	v[F_PATH] = evhttp_uri_get_path(u); v[F_QUERY] = evhttp_uri_get_query(u);
	v[F_FRAG] = evhttp_uri_get_fragment(u);
	for (i = 0; i < NF; i++) c->f[i] = v[i] ? xdupn(v[i], strlen(v[i])) : NULL;
	c->port = evhttp_uri_get_port(u);
}
/* -1 equal, NF port differs, else index of first differing field */
static int comps_diff(const struct comps *a, const struct comps *b)
{
	int i;
	for (i = 0; i < NF; i++) {
		if ((a->f[i] == NULL) != (b->f[i] == NULL)) return i;
		if (a->f[i] && strcmp(a->f[i], b->f[i])) return i;
	}
	return a->port != b->port ? NF : -1;
}
static char *comps_show(char *dst, size_t cap, const struct comps *c)
{
	size_t o = 0; int i; char e[700];
	for (i = 0; i < NF && o + 80 < cap; i++) {
		if (c->f[i]) o += snprintf(dst + o, cap - o, "%s=\"%s\" ", fname[i], vh_jesc(e, 200, c->f[i], strlen(c->f[i])));
		else o += snprintf(dst + o, cap - o, "%s=NULL ", fname[i]);
		if (o >= cap) { o = cap - 1; break; }
	}
	if (o + 20 >= cap) return dst;
	snprintf(dst + o, cap - o, "port=%d", c->port);
	return dst;
}

/* ------------------------------------------------------------------ reference classification */
enum { X_ACCEPT, X_REJECT, X_EITHER };
struct expect {
	int acc;          /* X_* */
	int cmp;          /* components are pinned (compare when accepted) */
	struct comps c;
	const char *why;  /* class of the decision (part of violation keys) */
	int unix_form, socket_has_slash, v6, vfut, upper_v;
};

#define FL_NONCONF EVHTTP_URI_NONCONFORMANT
#define FL_STRIP   EVHTTP_URI_HOST_STRIP_BRACKETS
#define FL_UNIX    EVHTTP_URI_UNIX_SOCKET

static void x_reject(struct expect *x, const char *why) { x->acc = X_REJECT; x->cmp = 0; x->why = why; }

/* RFC 3986 section 3 / Appendix B split of `s` plus per-component validation;
 * the UNIX form follows the header example "http://unix:/run/control.sock:/controller":
 *   scheme "://" [userinfo "@"] "unix:" socket-path ":" path-abempty ["?" query] ["#" fragment] */
static void classify(const char *s, unsigned flags, struct expect *x)
{
	const char *p = s, *a, *aend, *at, *h, *hend;
	size_t i, n;
	int nonconf = (flags & FL_NONCONF) != 0, badpct = 0;
	memset(x, 0, sizeof(*x));
	x->acc = X_ACCEPT; x->cmp = 1; x->why = "ok"; x->c.port = -1;

	/* scheme: the first of ":/?#" decides */
	i = strcspn(s, ":/?#");
	if (s[i] == ':') {
		/* either a scheme, or a relative-ref whose first segment contains ':' (forbidden: path-noscheme).
		 * CALIBRATED: NONCONFORMANT relaxes only characters, not this structural rule (doc is silent; tree rejects). */
		if (!scheme_valid(s, i)) { x_reject(x, "bad-scheme"); return; }
		x->c.f[F_SCHEME] = xdupn(s, i);
		p = s + i + 1;
	}
	if (p[0] == '/' && p[1] == '/') {
		a = p + 2;
		aend = a + strcspn(a, "/?#");
		at = memchr(a, '@', (size_t)(aend - a));
		h = at ? at + 1 : a;
		if (at) {
			if (!chars_ok(a, (size_t)(at - a), ":", &badpct)) { x_reject(x, badpct ? "bad-pct" : "bad-userinfo"); return; }
			x->c.f[F_USERINFO] = xdupn(a, (size_t)(at - a));
		}
		if ((flags & FL_UNIX) && !strncmp(h, "unix:", 5)) {
			const char *sock = h + 5, *e = strchr(sock, ':'), *k;
			x->unix_form = 1;
			/* the documented form needs the closing ':'; without it, or with '?'/'#' inside the socket
			 * path, or junk between ':' and the path, the header pins nothing: either outcome, round trip only */
			if (!e) { x->acc = X_EITHER; x->cmp = 0; x->why = "unix-no-closing-colon"; return; }
			for (k = sock; k < e; k++) if (*k == '?' || *k == '#') { x->acc = X_EITHER; x->cmp = 0; x->why = "unix-socket-delims"; return; }
			if (e[1] && e[1] != '/' && e[1] != '?' && e[1] != '#') { x->acc = X_EITHER; x->cmp = 0; x->why = "unix-junk-after-colon"; return; }
			x->c.f[F_SOCK] = xdupn(sock, (size_t)(e - sock));
			x->socket_has_slash = memchr(sock, '/', (size_t)(e - sock)) != NULL;
			/* characters of the socket path are not specified: acceptance open unless plain path characters */
			if (!chars_ok(sock, (size_t)(e - sock), "/@", NULL)) { x->acc = X_EITHER; x->why = "unix-socket-chars"; }
			p = e + 1;
		} else {
			long port = -1;
			const char *pp = NULL;
			if (at && memchr(at + 1, '@', (size_t)(aend - at - 1))) { x_reject(x, "bad-host"); return; }
			if (h < aend && *h == '[') {
				const char *rb = memchr(h, ']', (size_t)(aend - h));
				int empty_tail = 0;
				if (!rb) { x_reject(x, "bad-host"); return; }
				if (r_ipv6(h + 1, (size_t)(rb - h - 1))) x->v6 = 1;
				else if (r_ipvfuture(h + 1, (size_t)(rb - h - 1), &x->upper_v, &empty_tail)) x->vfut = 1;
				else {
					/* witness class: spellings that only evutil_inet_pton()'s sscanf("%u")/strtol(,16) tolerate
					 * (sign, blanks or leading zeros in the IPv4 tail, "0x" on a group) */
					int lax_ok;
					r_lenient = 1; lax_ok = r_ipv6(h + 1, (size_t)(rb - h - 1)); r_lenient = 0;
					x_reject(x, empty_tail ? "ipvfuture-empty-address" : lax_ok ? "ipv6-literal-lax-inet-pton" : "bad-ipliteral");
					return;
				}
				hend = rb + 1;
				if (hend < aend) { if (*hend != ':') { x_reject(x, "bad-host"); return; } pp = hend + 1; }
			} else {
				const char *colon = memchr(h, ':', (size_t)(aend - h));
				hend = colon ? colon : aend;
				if (colon) pp = colon + 1;
				if (!chars_ok(h, (size_t)(hend - h), "", &badpct)) { x_reject(x, badpct ? "bad-pct" : "bad-host"); return; }
			}
			if (pp) {
				const char *k;
				if (pp < aend) port = 0;
				for (k = pp; k < aend; k++) {
					if (!c_digit((unsigned char)*k)) { x_reject(x, "bad-port"); return; }
					if (port <= 65535) port = port * 10 + (*k - '0');
				}
				/* CALIBRATED: RFC 3986 port = *DIGIT is unbounded; the tree refuses values above 65535 (the
				 * header's "http://www.example.com:99999/ ... accepts" sentence predates that) */
				if (port > 65535) { x_reject(x, "port-range"); return; }
			}
			x->c.port = (int)port;
			if ((flags & FL_STRIP) && *h == '[' && hend > h) x->c.f[F_HOST] = xdupn(h + 1, (size_t)(hend - h - 2));
			else x->c.f[F_HOST] = xdupn(h, (size_t)(hend - h));
			p = aend;
		}
	}
	n = strcspn(p, "?#");
	if (!nonconf && !chars_ok(p, n, ":@/", &badpct)) { x_reject(x, badpct ? "bad-pct" : "bad-path-char"); return; }
	x->c.f[F_PATH] = xdupn(p, n);
	p += n;
	if (*p == '?') {
		p++;
		n = strcspn(p, "#");
		if (!nonconf && !chars_ok(p, n, ":@/?", &badpct)) { x_reject(x, badpct ? "bad-pct" : "bad-query-char"); return; }
		x->c.f[F_QUERY] = xdupn(p, n);
		p += n;
	}
	if (*p == '#') {
		p++;
		n = strlen(p);
		if (!nonconf && !chars_ok(p, n, ":@/?", &badpct)) { x_reject(x, badpct ? "bad-pct" : "bad-fragment-char"); return; }
		x->c.f[F_FRAG] = xdupn(p, n);
	}
}

/* reference join: plain concatenation of the components (port printed in decimal) */
static void ref_join(char *dst, size_t cap, const struct comps *c, int host_brackets_stripped)
{
	size_t o = 0;
	dst[0] = 0;
	if (c->f[F_SCHEME]) o += snprintf(dst + o, cap - o, "%s:", c->f[F_SCHEME]);
	if (c->f[F_SOCK]) {
		o += snprintf(dst + o, cap - o, "//");
		if (c->f[F_USERINFO]) o += snprintf(dst + o, cap - o, "%s@", c->f[F_USERINFO]);
		o += snprintf(dst + o, cap - o, "unix:%s:", c->f[F_SOCK]);
	} else if (c->f[F_HOST]) {
		o += snprintf(dst + o, cap - o, "//");
		if (c->f[F_USERINFO]) o += snprintf(dst + o, cap - o, "%s@", c->f[F_USERINFO]);
		o += snprintf(dst + o, cap - o, host_brackets_stripped ? "[%s]" : "%s", c->f[F_HOST]);
		if (c->port >= 0) o += snprintf(dst + o, cap - o, ":%d", c->port);
	}
	if (c->f[F_PATH]) o += snprintf(dst + o, cap - o, "%s", c->f[F_PATH]);
	if (c->f[F_QUERY]) o += snprintf(dst + o, cap - o, "?%s", c->f[F_QUERY]);
	if (c->f[F_FRAG]) o += snprintf(dst + o, cap - o, "#%s", c->f[F_FRAG]);
}

/* ------------------------------------------------------------------ C28: one (input, flags) evaluation */
#define MAXIN 600
static char jbuf[4 * MAXIN];
static int accepted_mask;   /* per input: which flag sets accepted */

static void check_parse(const char *s, unsigned flags, const struct comps *gen /* optional, flags==0 semantics */)
{
	struct evhttp_uri *u, *u2;
	struct expect x;
	struct comps g, g2;
	char es[2 * MAXIN + 32], t1[1600], t2[1600], key[160];
	int d;
	size_t slen = strlen(s);
	/* exact-size heap copy: any read past the terminator is an ASan report */
	char *in = xdupn(s, slen);

	ST(parses);
	classify(s, flags, &x);
	if (gen) {
		/* the generator knows the components by construction: the reference splitter must agree,
		 * otherwise the oracle itself is broken (harness failure, not a verdict) */
		struct comps e = *gen;
		if (x.acc != X_ACCEPT || !x.cmp || comps_diff(&x.c, &e) != -1) {
			fprintf(stderr, "harness: reference splitter disagrees with generator on \"%s\" flags=%u (%s)\n", vh_jesc(es, sizeof(es), s, slen), flags, x.why);
			exit(3);
		}
		ST(gen_ref_agree);
	}
	u = evhttp_uri_parse_with_flags(in, flags);
	if (x.acc == X_ACCEPT) ST(must_accept); else if (x.acc == X_REJECT) ST(must_reject); else ST(either);
	if (x.unix_form) { if (x.cmp) ST(unix_form_pinned); else ST(unix_form_either); }
	if (x.acc == X_REJECT) {
		if (!strcmp(x.why, "bad-pct")) ST(reject_bad_pct);
		else if (!strcmp(x.why, "bad-port") || !strcmp(x.why, "port-range")) ST(reject_bad_port);
		else if (!strcmp(x.why, "bad-scheme")) ST(reject_bad_scheme);
		else if (!strcmp(x.why, "bad-host") || !strcmp(x.why, "bad-ipliteral") || !strcmp(x.why, "bad-userinfo")) ST(reject_bad_host);
		else ST(reject_bad_char);
	}
	if (!u) {
		ST(rejected);
		if (x.acc == X_ACCEPT) {
			snprintf(key, sizeof(key), "C28:parse:valid-rejected:%s", x.unix_form ? "unix-form" : x.upper_v ? "ipvfuture-uppercase-v" : x.vfut ? "ipvfuture" : x.v6 ? "ipv6" : "generic");
			uviol(key, "flags=0x%x input=\"%s\" is a valid URI-reference (%s) but was rejected", flags, vh_jesc(es, sizeof(es), s, slen), comps_show(t1, sizeof(t1), &x.c));
		}
		goto out;
	}
	ST(accepted);
	accepted_mask |= 1 << ((flags & 1) | ((flags & 4) >> 1) | ((flags & 8) >> 1));
	comps_from_uri(&g, u);
	if (x.acc == X_REJECT) {
		if (x.unix_form && x.socket_has_slash && g.f[F_SOCK] && g.f[F_PATH] && strchr(g.f[F_SOCK], '/') && !strcmp(g.f[F_PATH], strchr(g.f[F_SOCK], '/')) && !g.f[F_QUERY] && !g.f[F_FRAG])
			snprintf(key, sizeof(key), "C28:parse:unix-socket-with-slash:path-query-fragment-lost");   /* the lost tail was never validated */
		else
		snprintf(key, sizeof(key), "C28:parse:invalid-accepted:%s", x.why);
		uviol(key, "flags=0x%x input=\"%s\" is not a URI-reference (%s) but was accepted: %s", flags, vh_jesc(es, sizeof(es), s, slen), x.why, comps_show(t1, sizeof(t1), &g));
	}
	/* statistics on what was seen */
	if (g.f[F_SOCK]) ST(unix_form_accepted);
	if (x.v6 && g.f[F_HOST]) ST(host_ipv6);
	if (x.vfut && g.f[F_HOST]) ST(host_ipvfuture);
	if (g.f[F_HOST] && !g.f[F_HOST][0]) ST(host_empty);
	if (g.f[F_HOST] && g.f[F_HOST][0] && !x.v6 && !x.vfut) ST(host_regname);
	if ((flags & FL_STRIP) && (x.v6 || x.vfut) && g.f[F_HOST] && g.f[F_HOST][0] != '[') ST(brackets_stripped);
	if (g.port >= 0) ST(port_set);
	if (g.f[F_USERINFO]) ST(userinfo_seen);
	if (g.f[F_QUERY]) { if (!g.f[F_QUERY][0]) ST(query_empty_string); } else ST(query_null);
	if (g.f[F_FRAG] && !g.f[F_FRAG][0]) ST(fragment_empty_string);
	if (!g.f[F_SCHEME]) ST(scheme_null);
	if (g.f[F_PATH] && !g.f[F_PATH][0]) ST(path_empty);
	if (g.port < 0 && g.f[F_HOST] && x.cmp && !x.unix_form) {
		/* "host:" with an empty port */
		const char *a = strstr(s, "//");
		if (a) { const char *e = a + 2 + strcspn(a + 2, "/?#"); if (e > a + 2 && e[-1] == ':') ST(port_empty); }
	}

	/* (1) components == RFC 3986 components of the input */
	if (x.cmp && x.acc != X_REJECT) {
		ST(components_compared);
		d = comps_diff(&g, &x.c);
		if (d != -1) {
			/* witness class of the UNIX-form defect: the socket path contains '/', so the authority scan stops
			 * inside it; path becomes the tail of the socket path and the real path/query/fragment vanish */
			if (x.unix_form && x.socket_has_slash && g.f[F_SOCK] && x.c.f[F_SOCK] && !strcmp(g.f[F_SOCK], x.c.f[F_SOCK]) &&
			    g.f[F_PATH] && !strcmp(g.f[F_PATH], strchr(x.c.f[F_SOCK], '/')) && !g.f[F_QUERY] && !g.f[F_FRAG])
				snprintf(key, sizeof(key), "C28:parse:unix-socket-with-slash:path-query-fragment-lost");
			else
				snprintf(key, sizeof(key), "C28:parse:component:%s%s", d == NF ? "port" : fname[d], x.unix_form ? ":unix-form" : "");
			uviol(key, "flags=0x%x input=\"%s\" parsed as {%s} but the components are {%s}", flags, vh_jesc(es, sizeof(es), s, slen),
				comps_show(t1, sizeof(t1), &g), comps_show(t2, sizeof(t2), &x.c));
		}
	}
	if (!g.f[F_PATH]) uviol("C28:parse:path-null", "flags=0x%x input=\"%s\": parsed URI has NULL path", flags, vh_jesc(es, sizeof(es), s, slen));

	/* (2) join o parse round trip — needs no reference, applied to every accepted input */
	{
		size_t cap = sizeof(jbuf);
		char *j = evhttp_uri_join(u, jbuf, cap);
		if (!j) {
			uviol("C28:roundtrip:join-refused", "flags=0x%x input=\"%s\" parsed {%s} but evhttp_uri_join returned NULL", flags, vh_jesc(es, sizeof(es), s, slen), comps_show(t1, sizeof(t1), &g));
		} else {
			size_t jl = strlen(j);
			char *jin = xdupn(j, jl);
			u2 = evhttp_uri_parse_with_flags(jin, flags);
			if (!u2) {
				uviol("C28:roundtrip:reparse-failed", "flags=0x%x input=\"%s\" joined to \"%s\" which does not parse", flags, vh_jesc(es, sizeof(es), s, slen), vh_jesc(t1, sizeof(t1), j, jl));
			} else {
				comps_from_uri(&g2, u2);
				d = comps_diff(&g, &g2);
				if (d != -1) {
					snprintf(key, sizeof(key), "C28:roundtrip:%s", d == NF ? "port" : fname[d]);
					uviol(key, "flags=0x%x input=\"%s\" parsed {%s}; join=\"%s\" re-parsed {%s}", flags, vh_jesc(es, sizeof(es), s, slen),
						comps_show(t1, sizeof(t1), &g), j, comps_show(t2, sizeof(t2), &g2));
				} else ST(roundtrip_ok);
				comps_free(&g2);
				evhttp_uri_free(u2);
			}
			free(jin);
			/* (3) join is the concatenation of the components (independent formatter) */
			if (x.cmp && x.acc != X_REJECT && comps_diff(&g, &x.c) == -1) {
				char rj[4 * MAXIN];
				ref_join(rj, sizeof(rj), &x.c, (flags & FL_STRIP) && (x.v6 || x.vfut));
				ST(join_text_checked);
				if (strcmp(rj, j))
					uviol("C28:join:text", "flags=0x%x input=\"%s\" join=\"%s\" expected \"%s\"", flags, vh_jesc(es, sizeof(es), s, slen), j, rj);
			}
			/* (4) the limit argument: exact fit succeeds, one byte less is refused (exact-size heap blocks) */
			if ((vh_hash_bytes(flags, s, slen) & 7) == 0) {   /* a deterministic eighth of the accepted inputs */
				char *b1 = malloc(jl + 1), *b0 = malloc(jl ? jl : 1), *r;
				ST(join_limit_checked);
				r = evhttp_uri_join(u, b1, jl + 1);
				if (r != b1 || strcmp(b1, jbuf)) uviol("C28:join:limit", "join with limit=strlen+1 failed or differs for \"%s\"", vh_jesc(es, sizeof(es), jbuf, jl));
				if (jl) { r = evhttp_uri_join(u, b0, jl); /* CALIBRATED: a result that does not fit is refused (NULL) */
					if (r) uviol("C28:join:limit", "join with limit=strlen returned non-NULL for \"%s\"", vh_jesc(es, sizeof(es), jbuf, jl)); }
				free(b1); free(b0);
			}
		}
	}
	comps_free(&g);
	evhttp_uri_free(u);
out:
	comps_free(&x.c);
	free(in);
}

static const unsigned ALLFLAGS[8] = { 0, 1, 4, 5, 8, 9, 12, 13 };

static void check_input(const char *s, const struct comps *gen, int gen_has_literal)
{
	int k;
	size_t n = strlen(s);
	if (n >= MAXIN) return;
	accepted_mask = 0;
	for (k = 0; k < 8; k++) {
		unsigned f = ALLFLAGS[k];
		const struct comps *g = NULL;
		struct comps tmp;
		char *stripped = NULL;
		/* the generator's components apply directly when the UNIX form cannot trigger */
		if (gen && !((f & FL_UNIX) && gen->f[F_HOST] && strstr(s, "unix:"))) {
			tmp = *gen;
			if ((f & FL_STRIP) && gen_has_literal) { stripped = xdupn(gen->f[F_HOST] + 1, strlen(gen->f[F_HOST]) - 2); tmp.f[F_HOST] = stripped; }
			g = &tmp;
		}
		check_parse(s, f, g);
		free(stripped);
	}
	if ((accepted_mask & 0xaa) && !(accepted_mask & 0x55)) ST(nonconf_only_accept);
	if (accepted_mask && n >= 3) vh_distinct(vh_hash_bytes(28, s, n));
	{ char es[2 * MAXIN + 32]; if (SAMPLE_HERE) vh_sample(2, "{\"input\":\"%s\",\"accepted_by_flagsets\":\"0x%02x\"}", vh_jesc(es, sizeof(es), s, n), accepted_mask); }
}

/* ------------------------------------------------------------------ generators */
struct sb { char s[MAXIN]; size_t n; };
static void sb_addn(struct sb *b, const char *t, size_t k)
{
	if (b->n + k >= MAXIN - 1) k = MAXIN - 2 - b->n;
	memcpy(b->s + b->n, t, k); b->n += k; b->s[b->n] = 0;
}
static void sb_add(struct sb *b, const char *t) { sb_addn(b, t, strlen(t)); }
static void sb_addc(struct sb *b, int c) { char t = (char)c; sb_addn(b, &t, 1); }

static const char UNRES[] = "abcxyzABCZ0159-._~";
static const char SUBD[] = "!$&'()*+,;=";
static const char HEXD[] = "0123456789abcdefABCDEF";
/* append 0..maxlen grammar characters: unreserved / sub-delims / pct-encoded / extra */
static void gen_chars(vh_rng *r, struct sb *b, int maxlen, const char *extra)
{
	int n = (int)vh_below(r, (uint64_t)maxlen + 1), i;
	size_t ne = strlen(extra);
	for (i = 0; i < n; i++) {
		switch (vh_below(r, 8)) {
		case 0: sb_addc(b, SUBD[vh_below(r, sizeof(SUBD) - 1)]); break;
		case 1: sb_addc(b, '%'); sb_addc(b, HEXD[vh_below(r, 22)]); sb_addc(b, HEXD[vh_below(r, 22)]); break;
		case 2: case 3: if (ne) { sb_addc(b, extra[vh_below(r, ne)]); break; } /* fallthrough */
		default: sb_addc(b, UNRES[vh_below(r, sizeof(UNRES) - 1)]); break;
		}
	}
}
static const char *const V6POOL[] = { "::", "::1", "1::", "2001:db8::1", "1:2:3:4:5:6:7:8", "1:2:3:4:5:6:7::", "::2:3:4:5:6:7:8",
	"::ffff:1.2.3.4", "1:2:3:4:5:6:1.2.3.4", "1::1.2.3.4", "fe80::1", "ABCD:EF01:2345:6789:abcd:ef01:2345:6789",
	"0:0:0:0:0:0:0:0", "1:2:3:4:5::1.2.3.4", "::255.255.255.255", "::0.0.0.0", "1:2::7:8", "a::b:0:0.0.0.0" };
static const char *const VFPOOL[] = { "v1.a", "vF.a:b", "v1f.-._~!$&'()*+,;=:", "v0.0", "va.:" };
static const char *const HOSTPOOL[] = { "", "example.com", "a", "1.2.3.4", "999.1.1.1", "a-b.c_d~e", "%41%2f", "!$&'()*+,;=", "unix", "localhost",
	"xn--80ak6aa92e.com", "0", "123", "unix.example" };
static const char *const SCHEMEPOOL[] = { "http", "https", "ftp", "a", "A1+-.", "file", "mailto", "unix", "x-y.z+1", "HTTP", "ws" };
static const char *const PORTPOOL[] = { "", "0", "1", "80", "8080", "65535", "00080", "0000000000000000000065535", "443" };

static void gen_v6(vh_rng *r, struct sb *b)
{
	/* random but valid: g groups, optional gap, optional v4 tail */
	int v4 = vh_chance(r, 1, 4), gap = vh_chance(r, 2, 3), total, left, right, i;
	char t[8];
	if (vh_chance(r, 1, 2)) { sb_add(b, VH_PICK(r, V6POOL)); return; }
	total = gap ? (int)vh_below(r, v4 ? 6 : 8) : (v4 ? 6 : 8);   /* h16 groups besides the v4 tail */
	left = gap ? (int)vh_below(r, (uint64_t)total + 1) : total;
	right = total - left;
	for (i = 0; i < left; i++) { snprintf(t, sizeof(t), "%s%llx", i ? ":" : "", (unsigned long long)vh_below(r, vh_chance(r, 1, 2) ? 0x10000 : 16)); sb_add(b, t); }
	if (gap) sb_add(b, "::");
	for (i = 0; i < right; i++) { snprintf(t, sizeof(t), "%s%llx", i ? ":" : "", (unsigned long long)vh_below(r, 0x10000)); sb_add(b, t); }
	if (v4) {
		char q[24];
		snprintf(q, sizeof(q), "%s%d.%d.%d.%d", (gap ? right > 0 : left > 0) ? ":" : "", (int)vh_below(r, 256), (int)vh_below(r, 256), (int)vh_below(r, 256), (int)vh_below(r, 256));
		sb_add(b, q);
	}
}
static void gen_segments(vh_rng *r, struct sb *b, int nseg, const char *extra)
{
	int i;
	for (i = 0; i < nseg; i++) { sb_addc(b, '/'); gen_chars(r, b, 5, extra); }
}
static int g_badport;
/* conformant URI-reference; fills c with its components (malloc'd) */
static void gen_uri(vh_rng *r, struct sb *out, struct comps *c, int *literal, int unix_shape)
{
	struct sb t;
	int has_scheme = unix_shape || vh_chance(r, 3, 5), has_auth = unix_shape || vh_chance(r, 3, 5);
	memset(c, 0, sizeof(*c)); c->port = -1; *literal = 0;
	out->n = 0; out->s[0] = 0;
	if (has_scheme) {
		const char *s = VH_PICK(r, SCHEMEPOOL);
		c->f[F_SCHEME] = xdupn(s, strlen(s));
		sb_add(out, s); sb_addc(out, ':');
	}
	if (has_auth) {
		sb_add(out, "//");
		if (vh_chance(r, 1, 3)) {
			t.n = 0; t.s[0] = 0; gen_chars(r, &t, 6, ":");
			c->f[F_USERINFO] = xdupn(t.s, t.n);
			sb_add(out, t.s); sb_addc(out, '@');
		}
		if (unix_shape) {
			/* scheme://[userinfo@]unix:<socket>:<path-abempty>... */
			static const char *const SOCKS[] = { "/run/control.sock", "/tmp/foobar/", "a", "", "/var/run/x.sock", "./rel.sock", "/s@x", "/a/b/c/d", "/%41", "/sock with space", "/s\x80" };
			const char *s = VH_PICK(r, SOCKS);
			c->f[F_SOCK] = xdupn(s, strlen(s));
			sb_add(out, "unix:"); sb_add(out, s); sb_addc(out, ':');
		} else {
			t.n = 0; t.s[0] = 0;
			switch (vh_below(r, 6)) {
			case 0: sb_addc(&t, '['); gen_v6(r, &t); sb_addc(&t, ']'); *literal = 1; break;
			case 1: sb_addc(&t, '['); sb_add(&t, VH_PICK(r, VFPOOL)); sb_addc(&t, ']'); *literal = 1; break;
			case 2: gen_chars(r, &t, 8, ""); break;
			default: sb_add(&t, VH_PICK(r, HOSTPOOL)); break;
			}
			c->f[F_HOST] = xdupn(t.s, t.n);
			sb_add(out, t.s);
			if (g_badport) {
				/* boundary and malformed ports (components are then not the generator's business) */
				static const char *const BADPORTS[] = { "65536", "65537", "99999", "100000", "4294967296", "4294967376", "2147483648", "99999999999999999999",
					"-1", "+80", " 80", "8 0", "0x50", "80a", "65535", "065536", "655350" };
				sb_addc(out, ':'); sb_add(out, VH_PICK(r, BADPORTS));
			} else if (vh_chance(r, 1, 2)) {
				const char *p = VH_PICK(r, PORTPOOL);
				sb_addc(out, ':'); sb_add(out, p);
				if (*p) c->port = (int)strtol(p, NULL, 10);
			}
		}
	}
	t.n = 0; t.s[0] = 0;
	if (has_auth) {
		gen_segments(r, &t, (int)vh_below(r, 4), ":@");
	} else {
		switch (vh_below(r, 4)) {
		case 0: break; /* path-empty */
		case 1: /* path-absolute: "/" [ segment-nz *( "/" segment ) ] */
			sb_addc(&t, '/');
			if (vh_chance(r, 2, 3)) { sb_addc(&t, UNRES[vh_below(r, sizeof(UNRES) - 1)]); gen_chars(r, &t, 4, ":@"); gen_segments(r, &t, (int)vh_below(r, 3), ":@"); }
			break;
		default: /* path-rootless / path-noscheme: first segment non-empty, no ':' when there is no scheme */
			sb_addc(&t, UNRES[vh_below(r, sizeof(UNRES) - 1)]); gen_chars(r, &t, 4, has_scheme ? ":@" : "@");
			gen_segments(r, &t, (int)vh_below(r, 3), ":@");
			break;
		}
	}
	c->f[F_PATH] = xdupn(t.s, t.n);
	sb_add(out, t.s);
	if (vh_chance(r, 2, 5)) {
		t.n = 0; t.s[0] = 0; gen_chars(r, &t, 8, ":@/?");
		c->f[F_QUERY] = xdupn(t.s, t.n);
		sb_addc(out, '?'); sb_add(out, t.s);
	}
	if (vh_chance(r, 1, 3)) {
		t.n = 0; t.s[0] = 0; gen_chars(r, &t, 6, ":@/?");
		c->f[F_FRAG] = xdupn(t.s, t.n);
		sb_addc(out, '#'); sb_add(out, t.s);
	}
}

static const char *const TOKENS[] = { ":", "/", "//", "?", "#", "[", "]", "@", "%", "%4", "%41", "%zz", "%g1", "a", "b", "1", "80", "65535", "65536", "99999999999",
	".", "::", "::1", "[::1]", "[v1.a]", "[V1.a]", "[v1.]", "[v.a]", "[::1", "[1::2::3]", "[1:2:3:4:5:6:7:8:9]", "[12345::]", "[::1.2.3.256]", "[::01.2.3.4]", "[::1%25eth0]",
	"unix:", "http", "http:", "http://", " ", "\x80", "\t", "+", "&", "=", "\\", "^", "|", "{", "<", "\"", "`", "unix:/s:", "/run/x.sock:", ":/", "-1", "+1", " 80", "0x50", "\x7f", "\x01", "%00", "~", "_" };
static void gen_soup(vh_rng *r, struct sb *b)
{
	int n = (int)vh_range(r, 0, 9), i;
	b->n = 0; b->s[0] = 0;
	for (i = 0; i < n; i++) sb_add(b, VH_PICK(r, TOKENS));
}
static void mutate(vh_rng *r, struct sb *b)
{
	static const char MUT[] = ":/?#[]@% %:/?#a1.\x80\"<\\^`{|}\t+v";
	int k = (int)vh_range(r, 1, 3);
	while (k--) {
		size_t pos = b->n ? (size_t)vh_below(r, b->n + 1) : 0;
		switch (vh_below(r, 6)) {
		case 0: case 1: /* insert */
			if (b->n + 2 < MAXIN) { memmove(b->s + pos + 1, b->s + pos, b->n - pos + 1); b->s[pos] = MUT[vh_below(r, sizeof(MUT) - 1)]; b->n++; }
			break;
		case 2: /* delete */
			if (pos < b->n) { memmove(b->s + pos, b->s + pos + 1, b->n - pos); b->n--; }
			break;
		case 3: /* replace */
			if (pos < b->n) b->s[pos] = MUT[vh_below(r, sizeof(MUT) - 1)];
			break;
		case 4: /* truncate */
			b->n = pos; b->s[pos] = 0;
			break;
		default: { /* insert a token */
			const char *t = VH_PICK(r, TOKENS); size_t tl = strlen(t);
			if (b->n + tl + 1 < MAXIN) { memmove(b->s + pos + tl, b->s + pos, b->n - pos + 1); memcpy(b->s + pos, t, tl); b->n += tl; }
			break; }
		}
	}
}

static void case_gram(vh_rng *r)
{
	struct sb b; struct comps c; int lit;
	int unix_shape = vh_chance(r, 1, 5);
	gen_uri(r, &b, &c, &lit, unix_shape);
	if (b.n < MAXIN - 2) {
		if (unix_shape) check_input(b.s, NULL, 0);   /* expectation from the reference (depends on the flag) */
		else check_input(b.s, &c, lit);
	}
	comps_free(&c);
	vh_stat_add("cases", 1);
}
/* near-misses of IP-literals */
static void gen_v6soup(vh_rng *r, struct sb *b)
{
	static const char *const T[] = { "::", ":", "1", "a", "ffff", "1.2.3.4", ".", "0x1", "+", " ", "01", "256", "12345", "1.2.3", "x", "0", "F", "255.255.255.255", "::1", "v1.", "v", "V2.a", "%25", "-" };
	int n = (int)vh_range(r, 1, 9), i;
	b->n = 0; b->s[0] = 0;
	sb_add(b, vh_chance(r, 1, 2) ? "http://[" : "//u@[");
	for (i = 0; i < n; i++) sb_add(b, VH_PICK(r, T));
	sb_add(b, vh_chance(r, 1, 8) ? "" : "]");
	sb_add(b, VH_PICK(r, PORTPOOL)[0] && vh_chance(r, 1, 2) ? ":80" : "");
	sb_add(b, vh_chance(r, 1, 2) ? "/p?q#f" : "");
}
static void case_rand(vh_rng *r)
{
	struct sb b; struct comps c; int lit;
	if (vh_chance(r, 1, 8)) gen_v6soup(r, &b);
	else if (vh_chance(r, 1, 8)) { g_badport = 1; gen_uri(r, &b, &c, &lit, 0); g_badport = 0; comps_free(&c); }
	else if (vh_chance(r, 1, 3)) gen_soup(r, &b);
	else { gen_uri(r, &b, &c, &lit, vh_chance(r, 1, 4)); comps_free(&c); mutate(r, &b); }
	check_input(b.s, NULL, 0);
	vh_stat_add("cases", 1);
}

/* exhaustive enumeration */
static const char EALPHA[] = "a1:/?#@[]% .";
#define EA 12
static const char *const EPREFIX[] = { "", "//", "s:", "s://", "s://unix:", "s://unix:/k", "s://u@unix:/k:", "s://[", "s://[::", "s://[v1.", "s://h:", "/p?" };
#define NPREFIX ((long)(sizeof(EPREFIX) / sizeof(EPREFIX[0])))
static unsigned long long enum_total(int L) { unsigned long long t = 0, p = 1; int l; for (l = 0; l <= L; l++) { t += p; p *= EA; } return t; }
static void enum_string(unsigned long long k, char *dst)
{
	unsigned long long p = 1; int l = 0, i;
	while (k >= p) { k -= p; p *= EA; l++; }
	for (i = l - 1; i >= 0; i--) { dst[i] = EALPHA[k % EA]; k /= EA; }
	dst[l] = 0;
}
static void case_enum(long idx)
{
	int L = vh_opt.n1 > 0 ? (int)vh_opt.n1 : 4;
	long bs = vh_opt.n2 > 0 ? vh_opt.n2 : 1024;
	/* --arg P restricts the enumeration to prefix P (case index = block), otherwise prefixes are interleaved */
	long only_prefix = vh_opt.arg ? strtol(vh_opt.arg, NULL, 10) : -1;
	unsigned long long total = enum_total(L), k0 = (unsigned long long)(only_prefix >= 0 ? idx : idx / NPREFIX) * (unsigned long long)bs, k;
	const char *pre = EPREFIX[only_prefix >= 0 ? only_prefix % NPREFIX : idx % NPREFIX];
	char buf[64]; size_t pl = strlen(pre);
	memcpy(buf, pre, pl);
	for (k = k0; k < k0 + (unsigned long long)bs && k < total; k++) {
		enum_string(k, buf + pl);
		check_input(buf, NULL, 0);
		vh_stat_add("cases", 1);
	}
}

/* ------------------------------------------------------------------ C28: setter-built URIs */
static const char *const S_SCHEME[] = { NULL, "http", "a+b-c.d", "", "1a", "ht tp", "a:b", "Z" };
static const char *const S_USER[] = { NULL, NULL, "", "user", "user:pw", "u%41", "a@b", "u%4", "a/b", "a b", "!$&'()*+,;=" };
static const char *const S_HOST[] = { NULL, "", "example.com", "1.2.3.4", "[::1]", "[v1.a]", "[::1", "a:b", "a/b", "a%41", "a%4", "unix", "[1::2::3]", "[]", "[2001:db8::1.2.3.4]", "h", "[::1]x" };
static const int S_PORT[] = { -1, -1, 0, 80, 65535, 65536, 70000, 0x7fffffff, -2, (-0x7fffffff - 1) };
static const char *const S_SOCK[] = { NULL, NULL, NULL, "/run/x.sock", "a", "", "/a:b", "rel/s.sock", "/s?x", "/s#x" };
static const char *const S_PATH[] = { NULL, "", "/", "/a/b", "a/b", "//a", "a:b", "/a:b", "/a b", "/a?b", "/a#b", "/%41", "/%4", "/\x80", "a", "/a//b" };
static const char *const S_QUERY[] = { NULL, NULL, "", "a=b&c=d", "a?b/c", "a#b", "a b", "%zz", "%41" };
static const char *const S_FRAG[] = { NULL, NULL, "", "frag", "a?b/c", "a#b", "a b", "%4" };

static int ref_setter_ok(int field, const char *v, unsigned flags)
{
	size_t n;
	int nonconf = (flags & FL_NONCONF) != 0;
	if (!v) return 1;
	n = strlen(v);
	switch (field) {
	case F_SCHEME: return scheme_valid(v, n);
	case F_USERINFO: return chars_ok(v, n, ":", NULL);
	case F_HOST:
		if (v[0] == '[') return n >= 2 && v[n - 1] == ']' && (r_ipv6(v + 1, n - 2) || r_ipvfuture(v + 1, n - 2, NULL, NULL));
		return chars_ok(v, n, "", NULL);
	case F_SOCK: return 1; /* CALIBRATED: "well-formed" is not defined for socket paths; the tree accepts everything */
	case F_PATH: return nonconf ? !strpbrk(v, "?#") : chars_ok(v, n, ":@/", NULL);
	case F_QUERY: return nonconf ? !strchr(v, '#') : chars_ok(v, n, ":@/?", NULL);
	case F_FRAG: return nonconf ? 1 : chars_ok(v, n, ":@/?", NULL);
	}
	return 1;
}
static int call_setter(struct evhttp_uri *u, int field, const char *v)
{
	switch (field) {
	case F_SCHEME: return evhttp_uri_set_scheme(u, v);
	case F_USERINFO: return evhttp_uri_set_userinfo(u, v);
	case F_HOST: return evhttp_uri_set_host(u, v);
	case F_SOCK: return evhttp_uri_set_unixsocket(u, v);
	case F_PATH: return evhttp_uri_set_path(u, v);
	case F_QUERY: return evhttp_uri_set_query(u, v);
	default: return evhttp_uri_set_fragment(u, v);
	}
}
static const char *setter_class(const struct comps *b, unsigned flags)
{
	/* why a setter-built URI cannot survive join+parse, in the order join looks at the members */
	const char *path = b->f[F_PATH] ? b->f[F_PATH] : "";
	if (b->f[F_SOCK]) {
		/* join writes "//[userinfo@]unix:<socket>:" and ignores host and port */
		if (!(flags & FL_UNIX)) return "unixsocket-without-unix-flag";
		if (b->f[F_HOST] || b->port >= 0) return "unixsocket-with-host-or-port";
		if (strchr(b->f[F_SOCK], ':')) return "unixsocket-with-colon";
		if (path[0] && path[0] != '/') return "unixsocket-relative-path";
		if (strchr(b->f[F_SOCK], '/')) return "unixsocket-with-slash";   /* same defect as the parse-side finding */
		if (strpbrk(b->f[F_SOCK], "?#")) return "unixsocket-with-query-delimiter";
		return NULL;
	}
	if (b->f[F_HOST]) {
		if (b->port > 65535) return "port-above-65535";
		if ((flags & FL_UNIX) && !strcmp(b->f[F_HOST], "unix") && b->port >= 0) return "host-unix-with-port-under-unix-flag";
		return NULL;
	}
	if (b->f[F_USERINFO] || b->port >= 0) return "userinfo-or-port-without-host";
	if (path[0] == '/' && path[1] == '/') return "dslash-path-without-authority";
	if (!b->f[F_SCHEME]) { size_t k = strcspn(path, ":/"); if (path[k] == ':') return "colon-in-first-segment-without-scheme"; }
	return NULL;
}
static void case_setter(vh_rng *r)
{
	unsigned flags = ALLFLAGS[vh_below(r, 8)];
	struct evhttp_uri *u = evhttp_uri_new(), *u2;
	struct comps model, built, g2;
	char key[160], t1[1600], t2[1600];
	int nsets = (int)vh_range(r, 2, 10), i, d, wild = vh_chance(r, 1, 4);
	/* three quarters of the URIs have a coherent shape (0 authority, 1 unix socket, 2 no authority) so that the
	 * round trip is really exercised; the rest combine members freely */
	int shape = wild ? -1 : (int)vh_below(r, 3);
	static const unsigned char ALLOWED[3][NF + 1] = {
		/* scheme userinfo host sock path query frag port */
		{ 1, 1, 1, 0, 1, 1, 1, 1 }, { 1, 1, 0, 1, 1, 1, 1, 0 }, { 1, 0, 0, 0, 1, 1, 1, 0 } };
	uint64_t h = flags;
	if (shape == 1 && !(flags & FL_UNIX)) shape = 0;
	memset(&model, 0, sizeof(model)); model.port = -1;
	if (!u) { fprintf(stderr, "harness: evhttp_uri_new failed\n"); exit(3); }
	if (flags || vh_chance(r, 1, 2)) evhttp_uri_set_flags(u, flags);
	ST(setter_uris);
	for (i = 0; i < nsets + 1; i++) {
		int field = (int)vh_below(r, NF + 1), rc, ok;
		const char *forced = NULL;
		if (i == nsets) {
			/* coherent shapes end with their defining member present */
			if (shape == 0 && !model.f[F_HOST]) { field = F_HOST; forced = vh_chance(r, 1, 2) ? "h.example" : "[::1]"; }
			else if (shape == 1 && !model.f[F_SOCK]) { field = F_SOCK; forced = vh_chance(r, 1, 2) ? "/run/x.sock" : "a"; }
			else break;
		} else if (shape >= 0 && !ALLOWED[shape][field]) continue;
		if (field == NF) {
			int p = VH_PICK(r, S_PORT);
			if (!wild && p > 65535) p = 8080;
			rc = evhttp_uri_set_port(u, p);
			ST(setter_calls);
			ok = p >= -1;   /* "-1 if port is not well-formed": negative ports other than the -1 sentinel */
			/* ports above 65535: the parser refuses them, so a setter may too (either); if it stores one, join must cope */
			if (p > 65535) ok = (rc == 0);
			if ((rc == 0) != ok) uviol(ok ? "C28:setter-rejects-valid:port" : "C28:setter-accepts-invalid:port", "set_port(%d) returned %d", p, rc);
			if (rc == 0) { model.port = p; ST(setter_accepted); } else ST(setter_refused);
			h = vh_hash_bytes(h, &p, sizeof(p));
			continue;
		} else {
			const char *v;
			switch (field) {
			case F_SCHEME: v = VH_PICK(r, S_SCHEME); break;
			case F_USERINFO: v = VH_PICK(r, S_USER); break;
			case F_HOST: v = VH_PICK(r, S_HOST); if (!wild && (flags & FL_UNIX) && v && !strcmp(v, "unix")) v = "unix.example"; break;
			case F_SOCK: v = VH_PICK(r, S_SOCK); if (!wild && v && strchr(v, ':')) v = "/tmp/foobar/"; break;
			case F_PATH: v = VH_PICK(r, S_PATH);
				if (shape == 0 || shape == 1) { if (v && v[0] && v[0] != '/') v = "/p"; }
				if (shape == 2 && v) { if (v[0] == '/' && v[1] == '/') v = "/q/"; if (!strcmp(v, "a:b")) v = "a/b:c"; }
				break;
			case F_QUERY: v = VH_PICK(r, S_QUERY); break;
			default: v = VH_PICK(r, S_FRAG); break;
			}
			if (forced) v = forced;
			rc = call_setter(u, field, v);
			ST(setter_calls);
			ok = ref_setter_ok(field, v, flags);
			/* a socket path with ':' cannot be written in the unix: form; refusing it is as good as storing it (either) */
			if (field == F_SOCK && v && strchr(v, ':')) ok = (rc == 0);
			if ((rc == 0) != ok) {
				snprintf(key, sizeof(key), "C28:setter-%s:%s", ok ? "rejects-valid" : "accepts-invalid", fname[field]);
				uviol(key, "flags=0x%x set_%s(\"%s\") returned %d", flags, fname[field], v ? vh_jesc(t1, sizeof(t1), v, strlen(v)) : "(null)", rc);
			}
			if (rc == 0) {
				ST(setter_accepted);
				if (!v) ST(setter_cleared);
				free(model.f[field]);
				if (v && field == F_HOST && (flags & FL_STRIP) && v[0] == '[') model.f[field] = xdupn(v + 1, strlen(v) - 2);
				else model.f[field] = v ? xdupn(v, strlen(v)) : NULL;
			} else ST(setter_refused);
			h = vh_hash_bytes(h, &field, sizeof(field)); h = vh_hash_bytes(h, v ? v : "\1", v ? strlen(v) : 1);
		}
	}
	/* the accessors must report exactly what the accepted setters stored (a refused set changes nothing) */
	comps_from_uri(&built, u);
	d = comps_diff(&built, &model);
	if (d != -1) {
		snprintf(key, sizeof(key), "C28:setter:getter-mismatch:%s", d == NF ? "port" : fname[d]);
		uviol(key, "flags=0x%x accessors report {%s} after setters that stored {%s}", flags, comps_show(t1, sizeof(t1), &built), comps_show(t2, sizeof(t2), &model));
	}
	if (built.f[F_SOCK]) ST(setter_unix);
	{
		char *j = evhttp_uri_join(u, jbuf, sizeof(jbuf));
		if (!j) ST(setter_join_refused);
		else {
			char *jin = xdupn(j, strlen(j));
			const char *cls = setter_class(&built, flags);
			ST(setter_join_ok);
			if (!built.f[F_PATH]) built.f[F_PATH] = xdupn("", 0);   /* CALIBRATED: a URI always has a (possibly empty) path; new() leaves it NULL */
			u2 = evhttp_uri_parse_with_flags(jin, flags);
			if (!u2) {
				snprintf(key, sizeof(key), "C28:setter:%s", cls ? cls : "reparse-failed");
				uviol(key, "flags=0x%x components {%s} accepted by the setters join to \"%s\" which does not parse", flags, comps_show(t1, sizeof(t1), &built), vh_jesc(t2, sizeof(t2), j, strlen(j)));
			} else {
				comps_from_uri(&g2, u2);
				d = comps_diff(&built, &g2);
				if (d != -1) {
					if (cls) snprintf(key, sizeof(key), "C28:setter:%s", cls);
					else snprintf(key, sizeof(key), "C28:setter:roundtrip:%s", d == NF ? "port" : fname[d]);
					uviol(key, "flags=0x%x components {%s} accepted by the setters join to \"%s\" which parses as {%s}", flags, comps_show(t1, sizeof(t1), &built), j, comps_show(t2, sizeof(t2), &g2));
				} else { ST(setter_roundtrip_ok); vh_distinct(h); }
				comps_free(&g2);
				evhttp_uri_free(u2);
			}
			if (SAMPLE_HERE) vh_sample(1, "{\"setter_built\":\"%s\",\"flags\":%u}", vh_jesc(t1, sizeof(t1), j, strlen(j)), flags);
			free(jin);
		}
	}
	comps_free(&built); comps_free(&model);
	evhttp_uri_free(u);
	vh_stat_add("cases", 1);
}

/* ================================================================== C29 */
/* reference decoder: ctl 1 = '+' is a space, 0 = '+' kept, -1 = '+' is a space only after the first '?' (deprecated API) */
static size_t ref_decode(const unsigned char *in, size_t n, unsigned char *out, int ctl, int count)
{
	size_t i = 0, o = 0; int plus = (ctl == 1);
	while (i < n) {
		unsigned char c = in[i];
		if (c == '%') {
			if (i + 2 < n && c_hex(in[i + 1]) && c_hex(in[i + 2])) {
				out[o++] = (unsigned char)(hexval(in[i + 1]) * 16 + hexval(in[i + 2])); i += 3;
				if (count) ST(dec_pct_valid);
				continue;
			}
			if (count) { if (i + 2 >= n) ST(dec_pct_truncated); else ST(dec_pct_badhex); }
		} else if (c == '+') {
			if (plus) { out[o++] = ' '; i++; if (count) ST(dec_plus_converted); continue; }
			if (count) ST(dec_plus_kept);
		} else if (c == '?' && ctl < 0) plus = 1;
		out[o++] = c; i++;
	}
	return o;
}
static int enc_alphabet_ok(const char *e, int plus)
{
	size_t i = 0, n = strlen(e);
	while (i < n) {
		unsigned char c = (unsigned char)e[i];
		if (c_unres(c)) i++;
		else if (c == '+' && plus) i++;
		else if (c == '%' && i + 2 < n && c_hex((unsigned char)e[i + 1]) && c_hex((unsigned char)e[i + 2])) i += 3;
		else return 0;
	}
	return 1;
}
static void gen_bytes(vh_rng *r, unsigned char *b, size_t *n, size_t maxn, int allow_nul)
{
	static const char HOT[] = " +%&=?#/<>\"'~-._aZ09\x7f\x80\xff;:@";
	size_t len = vh_chance(r, 1, 12) ? (size_t)vh_below(r, maxn + 1) : (size_t)vh_below(r, 24), i;
	int style = (int)vh_below(r, 3);
	for (i = 0; i < len; i++) {
		unsigned char c;
		if (style == 0) c = (unsigned char)vh_below(r, 256);
		else if (style == 1) c = (unsigned char)HOT[vh_below(r, sizeof(HOT) - 1)];
		else c = (unsigned char)vh_range(r, 0x20, 0x7e);
		if (!c && !allow_nul) c = '0';
		b[i] = c;
	}
	*n = len;
}
#define MAXB 2048
static void check_encode(const unsigned char *s, size_t n)
{
	int plus;
	char es[160];
	int has_nul = memchr(s, 0, n) != NULL;
	for (plus = 0; plus <= 1; plus++) {
		/* exact-size input block without terminator: the explicit length must be honoured */
		char *in = malloc(n ? n : 1), *e, *d, *refe; size_t i, o = 0, dn = (size_t)-1;
		memcpy(in, s, n);
		e = evhttp_uriencode(in, (ev_ssize_t)n, plus);
		if (!e) { uviol("C29:encode:null", "uriencode(len=%zu,plus=%d) returned NULL", n, plus); free(in); continue; }
		if (!enc_alphabet_ok(e, plus)) uviol("C29:encode:alphabet", "uriencode(%s..,len=%zu,plus=%d) -> \"%s\" has characters outside unreserved / %%XX%s", vh_hex(es, sizeof(es), s, n > 40 ? 40 : n), n, plus, e, plus ? " / +" : "");
		/* exact text: unreserved kept, space -> '+' in plus mode, everything else %XX (hex case not pinned) */
		refe = malloc(3 * n + 1);
		for (i = 0; i < n; i++) {
			if (c_unres(s[i])) refe[o++] = (char)s[i];
			else if (s[i] == ' ' && plus) refe[o++] = '+';
			else { snprintf(refe + o, 4, "%%%02X", s[i]); o += 3; }
		}
		refe[o] = 0;
		if (strcasecmp(refe, e) || strlen(e) != o) {   /* only hex digits can differ in case: unreserved letters are compared exactly below via decode */
			uviol("C29:encode:text", "uriencode(%s..,len=%zu,plus=%d) -> \"%.200s\" expected \"%.200s\"", vh_hex(es, sizeof(es), s, n > 40 ? 40 : n), n, plus, e, refe);
		}
		d = evhttp_uridecode(e, plus, &dn);
		if (!d) uviol("C29:roundtrip:null", "uridecode returned NULL");
		else {
			if (dn != n || memcmp(d, s, n) || d[dn] != 0)
				uviol(plus ? "C29:roundtrip:plus" : "C29:roundtrip:noplus", "decode(encode(%s,len=%zu,plus=%d)=\"%.200s\") has size %zu, differs", vh_hex(es, sizeof(es), s, n > 40 ? 40 : n), n, plus, e, dn);
			else ST(enc_roundtrips);
			free(d);
		}
		if (plus) ST(enc_plus_mode);
		if (has_nul) ST(enc_with_nul);
		else {
			/* NUL-terminated entry points agree with the sized one */
			char *cs = xdupn((const char *)s, n), *e2 = evhttp_uriencode(cs, -1, plus), *e3 = plus ? NULL : evhttp_encode_uri(cs);
			if (!e2 || strcmp(e2, e)) uviol("C29:encode:cstr", "uriencode(size=-1) differs from uriencode(size=%zu)", n);
			if (!plus && (!e3 || strcmp(e3, e))) uviol("C29:encode:cstr", "evhttp_encode_uri differs from uriencode(plus=0)");
			ST(enc_cstr_equiv);
			free(cs); free(e2); free(e3);
		}
		free(refe); free(e); free(in);
	}
}
static void check_decode(const char *s)
{
	size_t n = strlen(s), rn, dn;
	unsigned char *ref = malloc(n + 1);
	char es[400];
	int m;
	/* public API: plus = 0, 1, and "any true value"; with and without size_out */
	for (m = 0; m < 4; m++) {
		int plusarg = m == 0 ? 0 : m == 1 ? 1 : m == 2 ? 7 : 1;
		char *in = xdupn(s, n), *d;
		dn = (size_t)-1;
		rn = ref_decode((const unsigned char *)s, n, ref, plusarg ? 1 : 0, m == 0 || m == 1);
		d = evhttp_uridecode(in, plusarg, m == 3 ? NULL : &dn);
		ST(dec_calls);
		if (!d) uviol("C29:decode:null", "uridecode returned NULL");
		else {
			if (m == 3) dn = rn;
			if (dn > n) uviol("C29:decode:size-exceeds-input", "uridecode(\"%s\",%d) size_out=%zu > strlen=%zu", vh_jesc(es, sizeof(es), s, n), plusarg, dn, n);
			else if (dn != rn || memcmp(d, ref, rn) || d[rn] != 0)
				uviol(plusarg ? "C29:decode:plus" : "C29:decode:noplus", "uridecode(\"%s\",%d) gives %zu bytes, reference %zu bytes or content differs", vh_jesc(es, sizeof(es), s, n), plusarg, dn, rn);
			free(d);
		}
		free(in);
	}
	/* deprecated evhttp_decode_uri: '+' is a space only after the first '?' (documented) */
	{
		char *in = xdupn(s, n), *d = evhttp_decode_uri(in);
		rn = ref_decode((const unsigned char *)s, n, ref, -1, 0);
		ST(dec_deprecated);
		if (!d || memcmp(d, ref, rn) || d[rn] != 0) uviol("C29:decode:deprecated", "evhttp_decode_uri(\"%s\") differs from the reference", vh_jesc(es, sizeof(es), s, n));
		free(d); free(in);
	}
	/* internal decoder on exact-size blocks: input of exactly n bytes (no terminator), output of n+1 */
	for (m = -1; m <= 1; m++) {
		char *in = malloc(n ? n : 1), *out = malloc(n + 1); int j;
		memcpy(in, s, n);
		rn = ref_decode((const unsigned char *)s, n, ref, m, 0);
		j = evhttp_decode_uri_internal(in, n, out, m);
		ST(dec_internal_exact);
		if (j < 0 || (size_t)j != rn || memcmp(out, ref, rn) || out[rn] != 0)
			uviol("C29:decode:internal", "decode_uri_internal(\"%s\",ctl=%d) returned %d, reference %zu or content differs", vh_jesc(es, sizeof(es), s, n), m, j, rn);
		free(in); free(out);
	}
	free(ref);
}

/* ---- query strings */
struct kv { char *k, *v; };
#define MAXKV 64
static int a_lower(int c) { return (c >= 'A' && c <= 'Z') ? c + 32 : c; }
static int a_caseeq(const char *a, const char *b)
{
	for (; *a && *b; a++, b++) if (a_lower((unsigned char)*a) != a_lower((unsigned char)*b)) return 0;
	return *a == *b;
}
static void kv_free(struct kv *l, int n) { int i; for (i = 0; i < n; i++) { free(l[i].k); free(l[i].v); } }
/* Reference splitter, from the header:
 *  - pairs separated by '&', key and value separated by the first '='
 *  - values are decoded (%XX, '+' -> space); CALIBRATED: keys are returned as written (doc shows only plain keys)
 *  - strict mode: a piece without '=' or with an empty key (this includes empty pieces "&&") fails the whole parse
 *  - NONCONFORMANT: a piece without '=' gets the value "", pieces with an empty key are dropped
 *  - LAST_VAL: a later pair replaces an earlier one with the same key; CALIBRATED: keys compare ASCII-case-insensitively,
 *    as every lookup on an evkeyvalq does
 *  - CALIBRATED: one trailing '&' is ignored in both modes; values end at a decoded NUL (C strings) */
static int ref_query(const char *q, unsigned flags, struct kv *out, int *nout)
{
	size_t n = strlen(q), pos = 0;
	int cnt = 0, i;
	*nout = 0;
	while (pos < n) {
		size_t end = pos, eq, kl; const char *val = NULL; size_t vl = 0;
		unsigned char *dv; size_t dl;
		while (end < n && q[end] != '&') end++;
		eq = pos;
		while (eq < end && q[eq] != '=') eq++;
		kl = eq - pos;
		if (eq < end) { val = q + eq + 1; vl = end - eq - 1; }
		if (flags & EVHTTP_URI_QUERY_NONCONFORMANT) {
			if (!val) { val = ""; vl = 0; if (kl) ST(query_novalue_tolerated); }
			if (!kl) { ST(query_empty_key_skipped); pos = end < n ? end + 1 : n; continue; }
		} else if (!val || !kl) { kv_free(out, cnt); return -1; }
		dv = malloc(vl + 1);
		dl = ref_decode((const unsigned char *)val, vl, dv, 1, 0);
		dv[dl] = 0;
		if (strlen((char *)dv) != dl) ST(query_nul_truncated);
		if (dl != vl) ST(query_value_decoded);
		if (flags & EVHTTP_URI_QUERY_LAST_VAL) {
			char *key = xdupn(q + pos, kl);
			for (i = 0; i < cnt; i++) if (a_caseeq(out[i].k, key)) {
				free(out[i].k); free(out[i].v);
				memmove(out + i, out + i + 1, sizeof(*out) * (size_t)(cnt - i - 1));
				cnt--; ST(query_lastval_replaced);
				break;
			}
			free(key);
		}
		if (cnt >= MAXKV) { free(dv); kv_free(out, cnt); return -2; }
		out[cnt].k = xdupn(q + pos, kl);
		out[cnt].v = xdupn((char *)dv, strlen((char *)dv));
		free(dv);
		cnt++;
		pos = end < n ? end + 1 : n;
	}
	*nout = cnt;
	return 0;
}
static void compare_query(const char *what, const char *q, unsigned flags, int rc, struct evkeyvalq *h, int refrc, struct kv *ref, int nref)
{
	struct evkeyval *e; int i = 0, bad = 0; char es[900], key[96];
	if ((rc == 0) != (refrc == 0) || (rc != 0 && rc != -1)) {
		snprintf(key, sizeof(key), "C29:query:%s:flags%u", refrc == 0 ? "valid-refused" : "invalid-accepted", flags);
		uviol(key, "%s(\"%s\", flags=%u) returned %d, reference %s", what, vh_jesc(es, sizeof(es), q, strlen(q)), flags, rc, refrc == 0 ? "parses" : "fails");
		return;
	}
	if (rc != 0) {
		ST(query_fail);
		if (TAILQ_FIRST(h) != NULL) uviol("C29:query:pairs-left-after-failure", "%s(\"%s\", flags=%u) failed but left pairs in the queue", what, vh_jesc(es, sizeof(es), q, strlen(q)), flags);
		return;
	}
	ST(query_ok);
	TAILQ_FOREACH(e, h, next) {
		if (i >= nref || strcmp(e->key, ref[i].k) || strcmp(e->value, ref[i].v)) { bad = 1; break; }
		i++;
	}
	if (!bad && i != nref) bad = 1;
	if (bad) {
		char got[600] = "", want[600] = ""; size_t o = 0; int k; char a[200], b[200];
		TAILQ_FOREACH(e, h, next) if (o + 200 < sizeof(got)) o += snprintf(got + o, sizeof(got) - o, "(%s=%s)", vh_jesc(a, 80, e->key, strlen(e->key)), vh_jesc(b, 80, e->value, strlen(e->value)));
		for (o = 0, k = 0; k < nref && o + 200 < sizeof(want); k++) o += snprintf(want + o, sizeof(want) - o, "(%s=%s)", vh_jesc(a, 80, ref[k].k, strlen(ref[k].k)), vh_jesc(b, 80, ref[k].v, strlen(ref[k].v)));
		snprintf(key, sizeof(key), "C29:query:pairs:flags%u", flags);
		uviol(key, "%s(\"%s\", flags=%u) yields %s, reference %s", what, vh_jesc(es, sizeof(es), q, strlen(q)), flags, got, want);
	} else st_query_pairs += nref;
}
static void check_query(const char *q, int with_uri)
{
	unsigned flags;
	struct kv ref[MAXKV]; int nref, refrc, rc;
	struct evkeyvalq h;
	size_t n = strlen(q);
	for (flags = 0; flags < 4; flags++) {
		char *in = xdupn(q, n);
		refrc = ref_query(q, flags, ref, &nref);
		if (refrc == -2) { free(in); return; }
		ST(query_parses);
		rc = evhttp_parse_query_str_flags(in, &h, flags);
		compare_query("parse_query_str_flags", q, flags, rc, &h, refrc, ref, nref);
		evhttp_clear_headers(&h);
		if (flags == 0) {
			rc = evhttp_parse_query_str(in, &h);
			compare_query("parse_query_str", q, 0, rc, &h, refrc, ref, nref);
			evhttp_clear_headers(&h);
			if (with_uri) {
				/* deprecated whole-URI entry point == query component of the (conformant) URI, strict flags */
				char uri[MAXB + 64]; struct expect x; struct kv r2[MAXKV]; int n2 = 0, rc2;
				snprintf(uri, sizeof(uri), "http://h.example/p?%s", q);
				if (strlen(uri) < MAXIN) {
					classify(uri, 0, &x);
					if (x.acc == X_ACCEPT && x.c.f[F_QUERY]) rc2 = ref_query(x.c.f[F_QUERY], 0, r2, &n2); else rc2 = -1;
					if (rc2 != -2) {
						rc = evhttp_parse_query(uri, &h);
						ST(query_whole_uri);
						compare_query("parse_query", uri, 0, rc, &h, rc2, r2, n2);
						evhttp_clear_headers(&h);
						if (rc2 == 0) kv_free(r2, n2);
					}
					comps_free(&x.c);
				}
			}
		}
		if (refrc == 0) kv_free(ref, nref);
		free(in);
	}
}
static void gen_query(vh_rng *r, struct sb *b)
{
	static const char *const KEYS[] = { "a", "A", "test", "Test", "q", "", "k%41", "k+1", "x.y", "a b", "\x80k", "test2", "K" };
	static const char *const VALS[] = { "", "1", "123", "some+thing", "%41", "%4", "%", "%zz", "a%20b", "%26", "%3D", "a=b", "+", "%00x", "x%00", "\xff", "v%2", "%%41", "a?b", "%0d%0a", "caf%C3%A9" };
	int n = (int)vh_range(r, 0, 7), i;
	b->n = 0; b->s[0] = 0;
	for (i = 0; i < n; i++) {
		if (i) sb_addc(b, '&');
		switch (vh_below(r, 10)) {
		case 0: break;                                   /* empty piece: "&&" */
		case 1: sb_add(b, VH_PICK(r, KEYS)); break;       /* no '=' */
		case 2: sb_addc(b, '='); sb_add(b, VH_PICK(r, VALS)); break; /* empty key */
		default: sb_add(b, VH_PICK(r, KEYS)); sb_addc(b, '='); sb_add(b, VH_PICK(r, VALS)); break;
		}
	}
	if (vh_chance(r, 1, 8)) sb_addc(b, '&');
	if (vh_chance(r, 1, 6)) mutate(r, b);
}

/* ---- html */
static void check_html(const char *s)
{
	size_t n = strlen(s), i, o = 0;
	char *in = xdupn(s, n), *e = evhttp_htmlescape(in), *ref = malloc(6 * n + 1), *un;
	char es[400];
	ST(html_calls);
	for (i = 0; i < n; i++) {
		const char *rep = NULL;
		switch (s[i]) { case '<': rep = "&lt;"; break; case '>': rep = "&gt;"; break; case '"': rep = "&quot;"; break; case '\'': rep = "&#039;"; break; case '&': rep = "&amp;"; break; }
		if (rep) { strcpy(ref + o, rep); o += strlen(rep); ST(html_escaped_chars); } else ref[o++] = s[i];
	}
	ref[o] = 0;
	if (!e) { uviol("C29:html:null", "htmlescape returned NULL"); goto out; }
	if (strpbrk(e, "<>\"'")) uviol("C29:html:raw-markup", "htmlescape(\"%s\") -> \"%.300s\" contains a raw markup character", vh_jesc(es, sizeof(es), s, n), e);
	/* every '&' of the output starts one of the five entities; unescaping returns the input */
	un = malloc(strlen(e) + 1);
	{
		const char *p = e; size_t u = 0; int bad = 0;
		while (*p) {
			if (*p != '&') { un[u++] = *p++; continue; }
			if (!strncmp(p, "&lt;", 4)) { un[u++] = '<'; p += 4; }
			else if (!strncmp(p, "&gt;", 4)) { un[u++] = '>'; p += 4; }
			else if (!strncmp(p, "&quot;", 6)) { un[u++] = '"'; p += 6; }
			else if (!strncmp(p, "&#039;", 6)) { un[u++] = '\''; p += 6; }
			else if (!strncmp(p, "&amp;", 5)) { un[u++] = '&'; p += 5; }
			else { bad = 1; break; }
		}
		un[u] = 0;
		if (bad) uviol("C29:html:raw-markup", "htmlescape(\"%s\") -> \"%.300s\" contains a raw '&'", vh_jesc(es, sizeof(es), s, n), e);
		else if (u != n || memcmp(un, s, n)) uviol("C29:html:unescape", "htmlescape(\"%s\") -> \"%.300s\" does not unescape to the input", vh_jesc(es, sizeof(es), s, n), e);
		else ST(html_unescape_ok);
	}
	free(un);
	if (strcmp(e, ref)) uviol("C29:html:text", "htmlescape(\"%s\") -> \"%.300s\", documented replacement gives \"%.300s\"", vh_jesc(es, sizeof(es), s, n), e, ref);
out:
	free(e); free(ref); free(in);
}

/* ---- C29 cases */
static void case_enc(vh_rng *r)
{
	unsigned char b[MAXB + 1]; size_t n; char es[200];
	gen_bytes(r, b, &n, MAXB, 1);
	check_encode(b, n);
	if (n >= 2) vh_distinct(vh_hash_bytes(291, b, n));
	if (SAMPLE_HERE) vh_sample(1, "{\"encode_bytes_hex\":\"%s\",\"len\":%zu}", vh_hex(es, sizeof(es), b, n > 32 ? 32 : n), n);
	vh_stat_add("cases", 1);
}
static void case_dec(vh_rng *r)
{
	static const char *const DT[] = { "%", "%4", "%41", "%zz", "%4g", "%g4", "+", "?", "a", "%%", "%2B", "%20", "%00", "%7f", "%fF", " ", "\x80", "\xff", "4", "1", "f", "%C3%A9", "&", "=" };
	struct sb b; int n = (int)vh_range(r, 0, 12), i; char es[400];
	b.n = 0; b.s[0] = 0;
	if (vh_chance(r, 1, 5)) { unsigned char t[MAXB + 1]; size_t k; gen_bytes(r, t, &k, MAXIN - 8, 0); t[k] = 0; sb_add(&b, (char *)t); }
	else for (i = 0; i < n; i++) sb_add(&b, VH_PICK(r, DT));
	check_decode(b.s);
	if (strchr(b.s, '%') || strchr(b.s, '+')) vh_distinct(vh_hash_bytes(292, b.s, b.n));
	if (SAMPLE_HERE) vh_sample(1, "{\"decode_input\":\"%s\"}", vh_jesc(es, sizeof(es), b.s, b.n > 60 ? 60 : b.n));
	vh_stat_add("cases", 1);
}
static void case_query(vh_rng *r)
{
	struct sb b; char es[400];
	gen_query(r, &b);
	check_query(b.s, 1);
	if (strchr(b.s, '&') || strchr(b.s, '%')) vh_distinct(vh_hash_bytes(293, b.s, b.n));
	if (SAMPLE_HERE) vh_sample(1, "{\"query\":\"%s\"}", vh_jesc(es, sizeof(es), b.s, b.n > 80 ? 80 : b.n));
	vh_stat_add("cases", 1);
}
static void case_html(vh_rng *r)
{
	static const char *const HT[] = { "<", ">", "&", "\"", "'", "&amp;", "&lt;", "&#039;", "a", " ", "<script>", "\x80", ";", "#", "&&", "''", "x=\"y\"" };
	struct sb b; int n = (int)vh_range(r, 0, 14), i; char es[400];
	b.n = 0; b.s[0] = 0;
	if (vh_chance(r, 1, 6)) { unsigned char t[MAXB + 1]; size_t k; gen_bytes(r, t, &k, MAXIN - 8, 0); t[k] = 0; sb_add(&b, (char *)t); }
	else for (i = 0; i < n; i++) sb_add(&b, VH_PICK(r, HT));
	check_html(b.s);
	if (strpbrk(b.s, "<>&\"'")) vh_distinct(vh_hash_bytes(294, b.s, b.n));
	if (SAMPLE_HERE) vh_sample(1, "{\"html\":\"%s\"}", vh_jesc(es, sizeof(es), b.s, b.n > 60 ? 60 : b.n));
	vh_stat_add("cases", 1);
}
/* exhaustive: all strings of length <= n1 over a 12-symbol alphabet through the decoder, the query parser
 * (all 4 flag sets) and, over a markup alphabet, htmlescape */
static const char XALPHA[] = "%41aAg+?&=; ";
static const char HALPHA[] = "<>&\"'a;#l0 q";
static void xenum_string(unsigned long long k, char *dst, const char *alpha)
{
	unsigned long long p = 1; int l = 0, i;
	while (k >= p) { k -= p; p *= EA; l++; }
	for (i = l - 1; i >= 0; i--) { dst[i] = alpha[k % EA]; k /= EA; }
	dst[l] = 0;
}
static void case_xenum(long idx)
{
	int L = vh_opt.n1 > 0 ? (int)vh_opt.n1 : 4;
	long bs = vh_opt.n2 > 0 ? vh_opt.n2 : 1024;
	unsigned long long total = enum_total(L), k0 = (unsigned long long)idx * (unsigned long long)bs, k;
	char buf[64];
	for (k = k0; k < k0 + (unsigned long long)bs && k < total; k++) {
		xenum_string(k, buf, XALPHA);
		check_decode(buf);
		check_query(buf, 0);
		{ unsigned char t[64]; size_t n = strlen(buf); memcpy(t, buf, n); check_encode(t, n); }
		xenum_string(k, buf, HALPHA);
		check_html(buf);
		if (k > EA) vh_distinct(vh_hash_bytes(295, &k, sizeof(k)));
		if (SAMPLE_HERE && k == 1000) {
			char es[200], m1[32], m2[32];
			xenum_string(k, m1, XALPHA); xenum_string(k, m2, HALPHA);
			vh_sample(1, "{\"exhaustive_member\":\"%s\",\"and_markup_member\":\"%s\"}", m1, vh_jesc(es, sizeof(es), m2, strlen(m2)));
		}
		vh_stat_add("cases", 1);
	}
}

int main(int argc, char **argv)
{
	long idx; vh_rng r;
	const char *m;
	vh_init(argc, argv);
	m = vh_opt.mode ? vh_opt.mode : "gram";
	if (!strcmp(m, "count-enum")) { printf("%llu %ld\n", enum_total(vh_opt.n1 > 0 ? (int)vh_opt.n1 : 4), NPREFIX); return 0; }
	if (!strcmp(m, "one")) {   /* a literal witness: --mode one --arg <uri> */
		vh_cur_case = 0;
		check_input(vh_opt.arg ? vh_opt.arg : "", NULL, 0);
		vh_stat_add("cases", 1);
		flush_stats(); vh_finish();
		return 0;
	}
	while (vh_next_case(&idx, &r)) {
		if (!strcmp(m, "gram")) case_gram(&r);
		else if (!strcmp(m, "rand")) case_rand(&r);
		else if (!strcmp(m, "enum")) case_enum(idx);
		else if (!strcmp(m, "setter")) case_setter(&r);
		else if (!strcmp(m, "enc")) case_enc(&r);
		else if (!strcmp(m, "dec")) case_dec(&r);
		else if (!strcmp(m, "query")) case_query(&r);
		else if (!strcmp(m, "html")) case_html(&r);
		else if (!strcmp(m, "xenum")) case_xenum(idx);
		else { fprintf(stderr, "h_uri: unknown mode %s\n", m); return 2; }
	}
	flush_stats();
	vh_finish();
	return 0;
}
