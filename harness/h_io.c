/* C04 / C05: I/O readiness reporting and kernel interest sets of the epoll,
 * epoll+changelist, poll and select backends (each with self-pipe or signalfd
 * signal handling).
 *
 *   --mode c04      random scenarios, readiness oracle (probe with raw poll(2))
 *   --mode c05      random add/del/close/reopen histories, interest-set oracle
 *   --mode c05enum  every op sequence of length <= --n1 over the 14-letter
 *                   alphabet {add R,add W,add C,del R,del W,del C,close+reopen} x 2 fds
 *   --n2 MASK       bit mask of configurations to run (default all 8)
 *
 * A case is a script (generated from the case rng alone, never from run results)
 * that is executed once per configuration on a fresh event_base.  All file
 * descriptors the harness creates are moved to numbers >= HFD_MIN; everything
 * below is "internal" (epoll fd, notify fd, signal socketpair, signalfd).
 *
 * Oracles are independent of libevent: readiness comes from __real_poll() on
 * the fds with zero timeout right before and right after each loop step; the
 * interest set comes from /proc/self/fdinfo/<epfd>, the pollfd array or the
 * fd_sets seen by the wrapped wait call, and is compared with a shadow map
 * (OR of the interests of the events the harness currently has added).
 */
#include "vh.h"
#include <errno.h>
#include <fcntl.h>
#include <poll.h>
#include <sched.h>
#include <signal.h>
#include <unistd.h>
#include <sys/epoll.h>
#include <sys/select.h>
#include <sys/socket.h>
#include <netinet/in.h>
#include <netinet/tcp.h>
#include <arpa/inet.h>
#include <event2/event.h>
#include <event2/thread.h>
#include "event-internal.h"

int __real_poll(struct pollfd *, nfds_t, int);
ssize_t __real_read(int, void *, size_t);
ssize_t __real_write(int, const void *, size_t);
int __real_close(int);

#define HFD_MIN 32          /* harness fds live at numbers >= this */
#define HFD_MAX 1000        /* < FD_SETSIZE so that select can take every scenario */
#define NCFG 8
#define MAXSLOT 96
#define MAXEV 192
#define MAXACT 4096
#define MAXSTEP 12
#define MAXFIRE 4

static const char *cfg_name[NCFG] = { "epoll", "epoll+signalfd", "epollcl", "epollcl+signalfd",
	"poll", "poll+signalfd", "select", "select+signalfd" };
static const char *be_name[4] = { "epoll", "epollcl", "poll", "select" };
#define CFG_BE(c) ((c) >> 1)      /* 0 epoll, 1 epoll with changelist, 2 poll, 3 select */
#define CFG_SIGFD(c) ((c) & 1)
#define BE_IS_EPOLL(b) ((b) <= 1)

static int mode_c05;              /* which property this run reports on */
static const char *P = "C04";

/* ------------------------------------------------------------------ script */
enum { T_PIPE, T_UNIX, T_TCP };
enum { A_NEWOBJ, A_ADD, A_DEL, A_WRITE, A_FILL, A_READ, A_DRAIN, A_SHUTWR, A_CLOSE, A_SIGNAL, A_BADADD, A__N };
static const char *act_name[A__N] = { "newobj", "add", "del", "write", "fill", "read", "drain", "shutwr", "close", "signal", "badadd" };
struct act { unsigned char kind, flag; short a, b; int n; };
struct stepdef { int first, nact; short killer, victim; };
struct evdef { short slot; short interest; unsigned char persist; };
static struct script {
	int nslot, nev, nstep, nact;
	int fdnum[MAXSLOT];
	unsigned char et[MAXSLOT];
	struct evdef ev[MAXEV];
	struct stepdef step[MAXSTEP];
	struct act act[MAXACT];
} S;

/* generator-side bookkeeping (object life cycle only: it is deterministic) */
static int g_open[MAXSLOT], g_type[MAXSLOT], g_side[MAXSLOT];

static void g_act(int kind, int a, int b, int n, int flag)
{
	struct act *x;
	if (S.nact >= MAXACT) return;
	x = &S.act[S.nact++];
	x->kind = (unsigned char)kind; x->a = (short)a; x->b = (short)b; x->n = n; x->flag = (unsigned char)flag;
	S.step[S.nstep].nact++;
}
static void g_newobj(int type, int a, int b, int flag)
{
	g_act(A_NEWOBJ, a, b, type, flag);
	g_open[a] = g_open[b] = 1; g_type[a] = g_type[b] = type; g_side[a] = 0; g_side[b] = 1;
}
static int g_can_write(int s) { return g_open[s] && !(g_type[s] == T_PIPE && g_side[s] == 0); }
static int g_can_read(int s) { return g_open[s] && !(g_type[s] == T_PIPE && g_side[s] == 1); }
static int g_pick_type(vh_rng *r, int allow_tcp)
{
	unsigned k = (unsigned)vh_below(r, 10);
	if (k < 3) return T_PIPE;
	if (k < 8 || !allow_tcp) return T_UNIX;
	return T_TCP;
}
static short g_pick_interest(vh_rng *r)
{
	static const short t[] = { EV_READ, EV_READ, EV_READ, EV_WRITE, EV_WRITE, EV_READ | EV_WRITE, EV_READ | EV_WRITE,
		EV_CLOSED, EV_READ | EV_CLOSED, EV_WRITE | EV_CLOSED, EV_READ | EV_WRITE | EV_CLOSED };
	return VH_PICK(r, t);
}

static void gen_random_action(vh_rng *r, int c05bias, int big)
{
	int tries;
	for (tries = 0; tries < 12; tries++) {
		unsigned k = (unsigned)vh_below(r, 100);
		int s = (int)vh_below(r, (uint64_t)S.nslot), e = (int)vh_below(r, (uint64_t)S.nev);
		if (c05bias ? k < 45 : k < 30) {                         /* add */
			if (!g_open[S.ev[e].slot]) continue;
			g_act(A_ADD, e, 0, 0, 0); return;
		} else if (c05bias ? k < 75 : k < 45) {                  /* del */
			if (!g_open[S.ev[e].slot]) continue;
			g_act(A_DEL, e, 0, 0, 0); return;
		} else if (big) {
			continue;                                           /* big histories: mostly registration churn */
		} else if (k < (c05bias ? 79u : 57u)) {
			if (!g_can_write(s)) continue;
			g_act(A_WRITE, s, 0, (int)vh_range(r, 1, 300), 0); return;
		} else if (k < (c05bias ? 80u : 63u)) {
			if (!g_can_read(s)) continue;
			g_act(A_READ, s, 0, (int)vh_range(r, 1, 300), 0); return;
		} else if (k < (c05bias ? 81u : 67u)) {
			if (!g_can_read(s)) continue;
			g_act(A_DRAIN, s, 0, 0, 0); return;
		} else if (k < (c05bias ? 82u : 72u)) {
			if (!g_can_write(s)) continue;
			g_act(A_FILL, s, 0, 0, 0); return;
		} else if (k < (c05bias ? 83u : 77u)) {
			if (!g_open[s] || g_type[s] == T_PIPE) continue;
			g_act(A_SHUTWR, s, 0, 0, 0); return;
		} else if (k < (c05bias ? 90u : 86u)) {                  /* close (flag bit0: close before del, bit1: abortive) */
			if (!g_open[s]) continue;
			g_act(A_CLOSE, s, 0, 0, (int)vh_below(r, 4)); g_open[s] = 0; return;
		} else if (k < (c05bias ? 92u : 87u)) {                  /* event_add on the (closed) fd number of a slot: refused or undone at once */
			if (g_open[s]) continue;
			g_act(A_BADADD, s, 0, g_pick_interest(r), (int)vh_below(r, 2)); return;
		} else if (k < 97) {                                     /* new object; may land on open slots (dup2 over them) */
			int a = s, b = (int)vh_below(r, (uint64_t)S.nslot), t;
			if (a == b) continue;
			if ((g_open[a] || g_open[b]) && !vh_chance(r, 2, 5)) continue;
			t = g_pick_type(r, !c05bias || vh_chance(r, 1, 4));
			g_newobj(t, a, b, 0); return;
		} else {
			g_act(A_SIGNAL, 0, 0, 0, 0); return;
		}
	}
}

static void gen_fdnums(vh_rng *r)
{
	int i, j;
	for (i = 0; i < S.nslot; i++) {
		for (;;) {
			unsigned k = (unsigned)vh_below(r, 10);
			int fd = k < 7 ? (int)vh_range(r, HFD_MIN, HFD_MIN + 31 + S.nslot) : k < 9 ? (int)vh_range(r, HFD_MIN, 255) : (int)vh_range(r, 256, HFD_MAX - 1);
			for (j = 0; j < i; j++) if (S.fdnum[j] == fd) break;
			if (j == i) { S.fdnum[i] = fd; break; }
		}
	}
}

static void gen_random(vh_rng *r, int c05bias)
{
	int big = c05bias && vh_chance(r, 1, vh_opt.thorough ? 12 : 25);
	int nobj = big ? (int)vh_range(r, 33, 44) : (int)vh_range(r, 1, 3), i, st;
	memset(&S, 0, sizeof(S));
	memset(g_open, 0, sizeof(g_open));
	S.nslot = 2 * nobj + (big ? 0 : (int)vh_below(r, 3));
	if (S.nslot > MAXSLOT) S.nslot = MAXSLOT;
	gen_fdnums(r);
	for (i = 0; i < S.nslot; i++) S.et[i] = (unsigned char)vh_chance(r, 1, 4);
	S.nev = big ? (int)vh_range(r, S.nslot, 170) : (int)vh_range(r, 2, 9);
	for (i = 0; i < S.nev; i++) {
		/* 1-4 events per fd: half of the events go to a slot that already has one */
		S.ev[i].slot = (short)((i > 0 && vh_chance(r, 1, 2)) ? S.ev[vh_below(r, (uint64_t)i)].slot : (short)vh_below(r, (uint64_t)(big ? S.nslot : 2 * nobj)));
		if (big && i < S.nslot) S.ev[i].slot = (short)i;     /* every fd gets an event: > 64 fds change between two waits */
		S.ev[i].interest = g_pick_interest(r);
		S.ev[i].persist = (unsigned char)vh_chance(r, 7, 10);
	}
	S.nstep = 0;
	{
		int nstep = big ? (int)vh_range(r, 3, 5) : (int)vh_range(r, 3, vh_opt.thorough ? 11 : 9);
		for (st = 0; st < nstep; st++) {
			int n;
			S.step[st].first = S.nact; S.step[st].nact = 0; S.step[st].killer = S.step[st].victim = -1;
			S.nstep = st;
			if (st == 0) {
				for (i = 0; i < nobj; i++) g_newobj(g_pick_type(r, !big), 2 * i, 2 * i + 1, 0);
				n = big ? S.nev + (int)vh_range(r, 0, 40) : (int)vh_range(r, 1, 5);
				for (i = 0; i < n; i++) {
					int e = (big && i < S.nev) ? i : (int)vh_below(r, (uint64_t)S.nev);
					if (g_open[S.ev[e].slot]) g_act(A_ADD, e, 0, 0, 0);
				}
				if (!big && vh_chance(r, 1, 2)) gen_random_action(r, 0, 0);
			} else {
				n = big ? (int)vh_range(r, 20, 150) : c05bias ? (int)vh_range(r, 1, 8) : (int)vh_below(r, 4);
				for (i = 0; i < n; i++) gen_random_action(r, c05bias, big);
			}
			/* a callback that deletes another event on the same fd */
			if (!big && vh_chance(r, 1, 6)) {
				int k = (int)vh_below(r, (uint64_t)S.nev), v = (int)vh_below(r, (uint64_t)S.nev);
				if (k != v && S.ev[k].slot == S.ev[v].slot) { S.step[st].killer = (short)k; S.step[st].victim = (short)v; }
			}
		}
		S.nstep = nstep;
	}
}

/* enumerated histories: idx -> op sequence over 14 letters, lengths 1..maxlen */
static long enum_total(int maxlen) { long t = 0, p = 1; int l; for (l = 1; l <= maxlen; l++) { p *= 14; t += p; } return t; }
static int gen_enum(long idx, int maxlen, vh_rng *r, char *desc, size_t cap)
{
	long p = 14, k = idx; int len = 1, i, st; size_t o = 0;
	static const short kinds[3] = { EV_READ, EV_WRITE, EV_CLOSED };
	if (maxlen < 1) maxlen = 1;
	k %= enum_total(maxlen);
	while (k >= p) { k -= p; p *= 14; len++; }
	memset(&S, 0, sizeof(S));
	memset(g_open, 0, sizeof(g_open));
	S.nslot = 4;                           /* fd f uses slots 2f (monitored) and 2f+1 (peer) */
	gen_fdnums(r);
	S.et[0] = S.et[2] = (unsigned char)vh_chance(r, 1, 3);
	S.nev = 6;                             /* event 3f+j: fd f, kind j */
	for (i = 0; i < 6; i++) { S.ev[i].slot = (short)(2 * (i / 3)); S.ev[i].interest = kinds[i % 3]; S.ev[i].persist = 1; }
	for (st = 0; st < 3; st++) { S.step[st].first = S.nact; S.step[st].nact = 0; S.step[st].killer = S.step[st].victim = -1; S.nstep = st;
		if (st == 0) {
			unsigned pre = (unsigned)vh_below(r, 64);
			g_newobj(T_UNIX, 0, 1, 0); g_newobj(vh_chance(r, 1, 4) ? T_PIPE : T_UNIX, 2, 3, 0);
			if (vh_chance(r, 1, 3)) pre = 0;
			for (i = 0; i < 6; i++) if (pre & (1u << i)) g_act(A_ADD, i, 0, 0, 0);
		} else if (st == 1) {
			for (i = 0; i < len; i++) {
				int letter = (int)(k % 14), f = letter / 7, op = letter % 7;
				k /= 14;
				if (op < 3) g_act(A_ADD, 3 * f + op, 0, 0, 0);
				else if (op < 6) g_act(A_DEL, 3 * f + op - 3, 0, 0, 0);
				else {
					unsigned how = (unsigned)vh_below(r, 3);
					if (how < 2) g_act(A_CLOSE, 2 * f, 0, 0, (int)how);     /* del-then-close / close-then-del */
					g_newobj(T_UNIX, 2 * f, 2 * f + 1, 0);                  /* how==2: dup2 over the open fd */
				}
				if (o + 8 < cap) o += (size_t)snprintf(desc + o, cap - o, "%s%c%d", i ? "," : "", "RWCrwcX"[op], f);
			}
		} else {
			gen_random_action(r, 1, 1);    /* one more add/del, then a wait: exposes stale bookkeeping */
		}
	}
	S.nstep = 3;
	return len;
}

/* ------------------------------------------------------------------ runtime */
struct rslot { int fd, type, side, peer, used; int activity, regchange, dels_since, act_at_wait, reg_at_wait, fresh_at_wait;
	int n_added_prev_wait; short prev_after; int prev_after_valid; };
struct rev { struct event *ev; int idx, added; short req, interest; int fire_n; short whats[MAXFIRE];
	int added_at_wait, victim_now, script_del_since_wait; };
static struct rslot rs[MAXSLOT];
static struct rev rv[MAXEV];
static struct event_base *base;
static struct event *tick_ev, *sig_ev;
static int cur_cfg, cur_be, cur_step, nwaits_step, in_loop;
static int sig_raised_step, sig_seen_step;
static int warn_count; static char warn_last[256];

struct trace_ev { unsigned char exists, added_at_wait, fire_n, victim; short what_or; short interest; };
static struct trace {
	int ran, nsteps_done;
	short before[MAXSTEP][MAXSLOT], after[MAXSTEP][MAXSLOT];
	unsigned char nwaits[MAXSTEP];
	unsigned char type[MAXSTEP][MAXSLOT];
	struct trace_ev ev[MAXSTEP][MAXEV];
} tr[NCFG];

static void logcb(int sev, const char *msg)
{
	if (sev >= EVENT_LOG_WARN) {
		fprintf(stderr, "[%s] %s\n", sev == EVENT_LOG_ERR ? "err" : "warn", msg);
		warn_count++;
		snprintf(warn_last, sizeof(warn_last), "%s", msg);
	}
}

#define PR 1   /* readable */
#define PW 2
#define PC 4
static short ev2p(short ev) { return (short)(((ev & EV_READ) ? PR : 0) | ((ev & EV_WRITE) ? PW : 0) | ((ev & EV_CLOSED) ? PC : 0)); }
static short must_of(short p)
{
	/* CALIBRATED (kernel mapping, DESIGN App. A): ERR => readable+writable in every backend; HUP => readable
	 * in every backend; "writable because of HUP alone" is backend dependent (select: no) => may, not must. */
	return (short)(((p & (POLLIN | POLLHUP | POLLERR)) ? PR : 0) | ((p & (POLLOUT | POLLERR)) ? PW : 0) | ((p & POLLRDHUP) ? PC : 0));
}
static short may_of(short p)
{
	return (short)(((p & (POLLIN | POLLHUP | POLLERR | POLLNVAL)) ? PR : 0) | ((p & (POLLOUT | POLLERR | POLLHUP | POLLNVAL)) ? PW : 0) |
		((p & POLLRDHUP) ? PC : 0));
}
static const char *pbits(short p, char *b) { snprintf(b, 8, "%s%s%s", (p & PR) ? "R" : "", (p & PW) ? "W" : "", (p & PC) ? "C" : ""); if (!b[0]) strcpy(b, "-"); return b; }

static void probe(short *out)
{
	struct pollfd pf[MAXSLOT]; int map[MAXSLOT], n = 0, i;
	for (i = 0; i < S.nslot; i++) { out[i] = 0; if (rs[i].fd >= 0) { pf[n].fd = rs[i].fd; pf[n].events = POLLIN | POLLOUT | POLLRDHUP; pf[n].revents = 0; map[n++] = i; } }
	if (n && __real_poll(pf, (nfds_t)n, 0) < 0) { fprintf(stderr, "probe poll failed: %s\n", strerror(errno)); exit(2); }
	for (i = 0; i < n; i++) out[map[i]] = pf[i].revents;
}

static void touch(int s)
{
	rs[s].activity = 1;
	if (rs[s].peer >= 0) rs[rs[s].peer].activity = 1;
}
static void tcp_settle(int s)
{
	/* loopback delivery is normally synchronous; wait until two ends look the same three probes in a row */
	int same = 0, i; short last0 = -1, last1 = -1;
	if (rs[s].type != T_TCP) return;
	for (i = 0; i < 300 && same < 3; i++) {
		struct pollfd pf[2]; int n = 0;
		if (rs[s].fd >= 0) { pf[n].fd = rs[s].fd; pf[n].events = POLLIN | POLLOUT | POLLRDHUP; pf[n++].revents = 0; }
		if (rs[s].peer >= 0 && rs[rs[s].peer].fd >= 0) { pf[n].fd = rs[rs[s].peer].fd; pf[n].events = POLLIN | POLLOUT | POLLRDHUP; pf[n++].revents = 0; }
		if (!n) return;
		__real_poll(pf, (nfds_t)n, 0);
		if (pf[0].revents == last0 && (n < 2 || pf[1].revents == last1)) same++;
		else { same = 0; if (i) sched_yield(); }
		last0 = pf[0].revents; last1 = n > 1 ? pf[1].revents : 0;
	}
}

static void io_cb(evutil_socket_t fd, short what, void *arg)
{
	struct rev *e = arg;
	int s = S.ev[e->idx].slot;
	vh_stat("callbacks");
	if (!e->added)
		vh_viol(mode_c05 ? "C05:callback-not-added" : "C04:callback-after-del",
			"cfg=%s step=%d: callback (what=%#x) for event %d on fd %d which is not added (deleted by event_del, or one-shot already fired)",
			cfg_name[cur_cfg], cur_step, what, e->idx, (int)fd);
	if ((int)fd != rs[s].fd && !mode_c05)
		vh_viol("C04:callback-wrong-fd", "cfg=%s step=%d: event %d got fd %d, registered on %d", cfg_name[cur_cfg], cur_step, e->idx, (int)fd, rs[s].fd);
	if (e->fire_n < MAXFIRE) e->whats[e->fire_n] = what;
	e->fire_n++;
	if (!(e->req & EV_PERSIST)) { e->added = 0; rs[s].regchange = 1; rs[s].dels_since++; }
	if (S.step[cur_step].killer == e->idx) {
		struct rev *v = &rv[S.step[cur_step].victim];
		if (v->ev && v->added) {
			if (event_del(v->ev) != 0) vh_viol(mode_c05 ? "C05:event_del-failed" : "C04:event_del-failed", "cfg=%s step=%d: event_del in callback failed", cfg_name[cur_cfg], cur_step);
			v->added = 0; rs[s].regchange = 1; rs[s].dels_since++;
			vh_stat("del_in_callback");
		}
	}
}
static void tick_cb(evutil_socket_t fd, short what, void *arg) { (void)fd; (void)what; (void)arg; }
static void sig_cb(evutil_socket_t fd, short what, void *arg) { (void)fd; (void)what; (void)arg; sig_seen_step++; vh_stat("signal_callbacks"); }

/* ---- C05: kernel view vs shadow at every wait ---- */
#define KR 1u
#define KW 2u
#define KC 4u
#define KET 8u
static unsigned kview[1024], shadow[1024];
static const char *kbits(unsigned k, char *b) { snprintf(b, 8, "%s%s%s%s", (k & KR) ? "R" : "", (k & KW) ? "W" : "", (k & KC) ? "C" : "", (k & KET) ? "e" : ""); if (!b[0]) strcpy(b, "-"); return b; }

static void step_history(char *buf, size_t cap)
{
	size_t o = 0; int i;
	struct stepdef *sd = &S.step[cur_step];
	buf[0] = 0;
	for (i = 0; i < sd->nact && o + 24 < cap; i++) {
		struct act *x = &S.act[sd->first + i];
		if (x->kind == A_ADD || x->kind == A_DEL) {
			char b[8];
			o += (size_t)snprintf(buf + o, cap - o, "%s(ev%d fd%d %s%s) ", act_name[x->kind], x->a, S.fdnum[S.ev[x->a].slot], pbits(ev2p(S.ev[x->a].interest), b),
				S.et[S.ev[x->a].slot] ? "e" : "");
		} else if (x->kind == A_NEWOBJ) o += (size_t)snprintf(buf + o, cap - o, "newobj(t%d fd%d,fd%d) ", x->n, S.fdnum[x->a], S.fdnum[x->b]);
		else o += (size_t)snprintf(buf + o, cap - o, "%s(fd%d f%d) ", act_name[x->kind], S.fdnum[x->a], x->flag);
	}
}

static int read_epoll_set(int epfd)
{
	static char buf[1 << 16];
	char path[64], *p;
	int f, n, tot = 0;
	snprintf(path, sizeof(path), "/proc/self/fdinfo/%d", epfd);
	f = open(path, O_RDONLY);
	if (f < 0) return -1;
	while ((n = (int)__real_read(f, buf + tot, sizeof(buf) - 1 - (size_t)tot)) > 0) tot += n;
	__real_close(f);
	buf[tot] = 0;
	for (p = buf; (p = strstr(p, "tfd:")) != NULL; p += 4) {
		int fd; unsigned ev;
		if (sscanf(p, "tfd: %d events: %x", &fd, &ev) != 2 || fd < 0 || fd >= 1024) return -1;
		if (kview[fd] & 0x100u) kview[fd] |= 0x200u;     /* second registration with the same fd number */
		kview[fd] |= 0x100u | ((ev & EPOLLIN) ? KR : 0) | ((ev & EPOLLOUT) ? KW : 0) | ((ev & EPOLLRDHUP) ? KC : 0) | ((ev & EPOLLET) ? KET : 0);
	}
	return 0;
}

static void c05_check(int kind, void *a, void *b, int n)
{
	int fd, i, ninternal = 0, nuser = 0;
	char hist[600], b1[8], b2[8];
	memset(kview, 0, sizeof(kview));
	memset(shadow, 0, sizeof(shadow));
	if (kind == VW_EPOLL) {
		if (read_epoll_set(*(int *)a) < 0) { fprintf(stderr, "cannot read epoll fdinfo\n"); exit(2); }
	} else if (kind == VW_POLL) {
		struct pollfd *pf = a;
		for (i = 0; i < n; i++) {
			if (pf[i].fd < 0 || pf[i].fd >= 1024) continue;
			if (kview[pf[i].fd] & 0x100u) kview[pf[i].fd] |= 0x200u;
			kview[pf[i].fd] |= 0x100u | ((pf[i].events & POLLIN) ? KR : 0) | ((pf[i].events & POLLOUT) ? KW : 0) | ((pf[i].events & POLLRDHUP) ? KC : 0);
		}
	} else {
		fd_set *r = a, *w = b;
		for (fd = 0; fd < n && fd < 1024; fd++) {
			if (r && FD_ISSET(fd, r)) kview[fd] |= 0x100u | KR;
			if (w && FD_ISSET(fd, w)) kview[fd] |= 0x100u | KW;
		}
	}
	for (i = 0; i < S.nev; i++) {
		if (rv[i].ev && rv[i].added) {
			int s = S.ev[i].slot;
			unsigned m = ((rv[i].req & EV_READ) ? KR : 0) | ((rv[i].req & EV_WRITE) ? KW : 0) | ((rv[i].req & EV_CLOSED) ? KC : 0);
			if (BE_IS_EPOLL(cur_be) && (rv[i].req & EV_ET)) m |= KET;
			if (rs[s].fd >= 0) shadow[rs[s].fd] |= m;
		}
	}
	step_history(hist, sizeof(hist));
	for (fd = 0; fd < 1024; fd++) {
		unsigned k = kview[fd] & 0xfu, sh = shadow[fd];
		if (fd < HFD_MIN) {
			if (kview[fd] & 0x100u) {
				ninternal++;
				/* internal events (notify, signal socketpair, signalfd) are EV_READ|EV_PERSIST; the notify
				 * event additionally asks for EV_ET (event.c evthread_make_base_notifiable_nolock_) */
				if ((k & ~KET) != KR) vh_viol("C05:internal-fd-interest", "cfg=%s step=%d: internal fd %d registered for %s, expected R", cfg_name[cur_cfg], cur_step, fd, kbits(k, b1));
			}
			continue;
		}
		if (kview[fd] & 0x200u)
			vh_viol("C05:duplicate-registration", "cfg=%s step=%d wait=%d: fd %d registered twice with the kernel; since previous wait: %s", cfg_name[cur_cfg], cur_step, nwaits_step, fd, hist);
		if (k || sh) nuser++;
		if (k == sh) continue;
		{
			char key[64];
			const char *cls = (sh & ~k & 7u) ? "missing" : (k & ~sh & 7u) ? "stale" : "edge-flag";
			snprintf(key, sizeof(key), "C05:%s:%s", be_name[cur_be], cls);
			vh_viol(key, "cfg=%s step=%d wait=%d: fd %d kernel has {%s}, added events want {%s}; since previous wait: %s",
				cfg_name[cur_cfg], cur_step, nwaits_step, fd, kbits(k, b1), kbits(sh, b2), hist);
		}
	}
	/* CALIBRATED: with locking enabled and one signal event added every configuration keeps exactly two
	 * internal read registrations: the notify fd and the signal fd (socketpair end or signalfd). */
	if (ninternal != 2)
		vh_viol("C05:internal-fds", "cfg=%s step=%d: %d internal fds registered, expected 2 (notify + signal)", cfg_name[cur_cfg], cur_step, ninternal);
	vh_stat("waits_compared");
	vh_stat_add("user_fds_compared", nuser);
	vh_stat_add("internal_fds_seen", ninternal);
	if (BE_IS_EPOLL(cur_be)) vh_stat(cur_be == 1 ? "waits_epollcl" : "waits_epoll"); else vh_stat(cur_be == 2 ? "waits_poll" : "waits_select");
}

static void wait_hook(int kind, int64_t timeout_us, void *a, void *b, void *c, int n)
{
	int i;
	(void)timeout_us; (void)c;
	if (!in_loop) return;
	nwaits_step++;
	/* A ready fd none of whose events matches (e.g. an EV_CLOSED-only event on an fd in error state) makes the
	 * backend return at once without running a callback: virtual time does not advance and EVLOOP_ONCE keeps
	 * iterating.  Stop such a step after a few iterations. */
	if (nwaits_step >= 4) { event_base_loopbreak(base); if (nwaits_step == 4) vh_stat("spinning_steps"); }
	if ((kind == VW_EPOLL) != BE_IS_EPOLL(cur_be) || (kind == VW_POLL) != (cur_be == 2)) {
		fprintf(stderr, "wait kind %d does not match configuration %s\n", kind, cfg_name[cur_cfg]); exit(2);
	}
	if (mode_c05) c05_check(kind, a, b, n);
	if (nwaits_step == 1) {
		int nchanged = 0;
		for (i = 0; i < S.nslot; i++) if (rs[i].regchange) nchanged++;
		if (nchanged > 64) vh_stat("waits_after_over_64_fds_changed");
		for (i = 0; i < S.nslot; i++) {
			int j, na = 0;
			rs[i].act_at_wait = rs[i].activity; rs[i].reg_at_wait = rs[i].regchange;
			rs[i].fresh_at_wait = (rs[i].n_added_prev_wait == 0 && rs[i].dels_since == 0);
			rs[i].activity = rs[i].regchange = rs[i].dels_since = 0;
			for (j = 0; j < S.nev; j++) if (S.ev[j].slot == i && rv[j].added) na++;
			rs[i].n_added_prev_wait = na;
		}
	}
}

static const char *PK(const char *suffix, char *buf) { snprintf(buf, 64, "%s:%s", P, suffix); return buf; }

static void release_slot_events(int s)
{
	int i; char kb[64];
	for (i = 0; i < S.nev; i++) {
		if (S.ev[i].slot != s || !rv[i].ev) continue;
		if (event_del(rv[i].ev) != 0) vh_viol(PK("event_del-failed", kb), "cfg=%s step=%d: event_del(ev%d) failed", cfg_name[cur_cfg], cur_step, i);
		event_free(rv[i].ev);
		rv[i].ev = NULL; rv[i].added = 0;
	}
	rs[s].regchange = 1; rs[s].dels_since++;
}
static void close_slot(int s, int close_first, int abortive)
{
	int fd = rs[s].fd;
	if (fd < 0) return;
	if (abortive && rs[s].type == T_TCP) { struct linger lg = { 1, 0 }; setsockopt(fd, SOL_SOCKET, SO_LINGER, &lg, sizeof(lg)); vh_stat("tcp_abortive_close"); }
	if (close_first) {
		/* closing first is only tolerated by the library when the following event_del removes the whole
		 * registration (EPOLL_CTL_DEL on a closed fd: EBADF is accepted; a MOD is not): use that order only
		 * when at most one event is added on the fd */
		int i, na = 0;
		for (i = 0; i < S.nev; i++) if (S.ev[i].slot == s && rv[i].ev && rv[i].added) na++;
		if (na > 1) close_first = 0;
	}
	if (close_first) { __real_close(fd); release_slot_events(s); vh_stat("close_before_del"); }
	else { release_slot_events(s); __real_close(fd); }
	rs[s].fd = -1;
	rs[s].prev_after_valid = 0;
	if (rs[s].peer >= 0) { int p = rs[s].peer; rs[p].activity = 1; rs[p].peer = -1; rs[s].peer = -1; if (rs[p].type == T_TCP) { rs[p].peer = -1; tcp_settle(p); } }
	vh_stat("fd_closed");
}

static int listener = -1, listener_port;
static int tcp_pair(int out[2], vh_rng *r)
{
	struct sockaddr_in a; socklen_t sl = sizeof(a); int c, s, one = 1, i, fl;
	if (listener < 0) {
		listener = socket(AF_INET, SOCK_STREAM | SOCK_CLOEXEC, 0);
		if (listener < 0) return -1;
		memset(&a, 0, sizeof(a)); a.sin_family = AF_INET; a.sin_addr.s_addr = htonl(INADDR_ANY);
		if (bind(listener, (struct sockaddr *)&a, sizeof(a)) < 0 || listen(listener, 16) < 0 || getsockname(listener, (struct sockaddr *)&a, &sl) < 0) return -1;
		listener_port = ntohs(a.sin_port);
	}
	c = socket(AF_INET, SOCK_STREAM, 0);
	if (c < 0) return -1;
	memset(&a, 0, sizeof(a)); a.sin_family = AF_INET; a.sin_port = htons((uint16_t)listener_port);
	/* spread over 127/8 so that TIME_WAIT entries never exhaust one 4-tuple space */
	a.sin_addr.s_addr = htonl(0x7f000000u | (uint32_t)(1 + vh_below(r, 0xfffffd)));
	if (connect(c, (struct sockaddr *)&a, sizeof(a)) < 0) { __real_close(c); return -1; }
	s = accept(listener, NULL, NULL);
	if (s < 0) { __real_close(c); return -1; }
	out[0] = c; out[1] = s;
	for (i = 0; i < 2; i++) {
		int sz = 4096;
		setsockopt(out[i], IPPROTO_TCP, TCP_NODELAY, &one, sizeof(one));
		setsockopt(out[i], SOL_SOCKET, SO_SNDBUF, &sz, sizeof(sz));
		setsockopt(out[i], SOL_SOCKET, SO_RCVBUF, &sz, sizeof(sz));
		fl = fcntl(out[i], F_GETFL); fcntl(out[i], F_SETFL, fl | O_NONBLOCK);
	}
	return 0;
}

static vh_rng run_rng;   /* only for choices that do not influence behaviour (loopback address) */
static int tcp_failed;

static void do_newobj(struct act *x)
{
	int t[2], i, sl[2];
	sl[0] = x->a; sl[1] = x->b;
	/* events on fds about to be replaced are deleted first (the library requires that) */
	for (i = 0; i < 2; i++) if (rs[sl[i]].fd >= 0) { release_slot_events(sl[i]); vh_stat("dup2_over_open_fd"); }
	if (x->n == T_PIPE) { if (pipe2(t, O_NONBLOCK) < 0) { perror("pipe2"); exit(2); } fcntl(t[1], F_SETPIPE_SZ, 4096); }
	else if (x->n == T_UNIX) {
		int sz = 4096;
		if (socketpair(AF_UNIX, SOCK_STREAM | SOCK_NONBLOCK, 0, t) < 0) { perror("socketpair"); exit(2); }
		setsockopt(t[0], SOL_SOCKET, SO_SNDBUF, &sz, sizeof(sz)); setsockopt(t[1], SOL_SOCKET, SO_SNDBUF, &sz, sizeof(sz));
	} else if (tcp_pair(t, &run_rng) < 0) {
		/* environment trouble, not a verdict: fall back to a socketpair and remember */
		int sz = 4096;
		tcp_failed = 1;
		if (socketpair(AF_UNIX, SOCK_STREAM | SOCK_NONBLOCK, 0, t) < 0) { perror("socketpair"); exit(2); }
		setsockopt(t[0], SOL_SOCKET, SO_SNDBUF, &sz, sizeof(sz)); setsockopt(t[1], SOL_SOCKET, SO_SNDBUF, &sz, sizeof(sz));
	}
	for (i = 0; i < 2; i++) {
		int s = sl[i], target = S.fdnum[s];
		if (t[i] >= HFD_MIN) { fprintf(stderr, "temporary fd %d collides with harness range\n", t[i]); exit(2); }
		if (rs[s].peer >= 0) { int p = rs[s].peer; rs[p].peer = -1; rs[p].activity = 1; }
		if (dup2(t[i], target) != target) { perror("dup2"); exit(2); }
		__real_close(t[i]);
		if (rs[s].used) vh_stat("fd_number_reused");
		rs[s].fd = target; rs[s].type = x->n; rs[s].side = i; rs[s].used = 1; rs[s].activity = 1; rs[s].prev_after_valid = 0;
	}
	rs[sl[0]].peer = sl[1]; rs[sl[1]].peer = sl[0];
	vh_stat(x->n == T_PIPE ? "obj_pipe" : x->n == T_UNIX ? "obj_unix" : "obj_tcp");
}

static short project_interest(short interest, int be)
{
	if (be == 3) interest &= (short)~EV_CLOSED;      /* select: no EV_FEATURE_EARLY_CLOSE */
	return interest;
}

static void do_action(struct act *x)
{
	static char buf[4096];
	char kb[64];
	int s = x->a, fd, i;
	switch (x->kind) {
	case A_NEWOBJ: do_newobj(x); break;
	case A_ADD: {
		struct rev *e = &rv[x->a];
		int sl = S.ev[x->a].slot;
		short in = project_interest(S.ev[x->a].interest, cur_be);
		if (rs[sl].fd < 0 || !in) break;
		if (!e->ev) {
			e->interest = in;
			e->req = (short)(in | (S.ev[x->a].persist ? EV_PERSIST : 0) | (S.et[sl] ? EV_ET : 0));
			e->ev = event_new(base, rs[sl].fd, e->req, io_cb, e);
			if (!e->ev) { vh_viol(PK("event_new-failed", kb), "cfg=%s step=%d ev%d", cfg_name[cur_cfg], cur_step, x->a); break; }
		}
		if (event_add(e->ev, NULL) != 0) { vh_viol(PK("event_add-failed", kb), "cfg=%s step=%d: event_add(ev%d, fd %d, %#x) failed", cfg_name[cur_cfg], cur_step, x->a, rs[sl].fd, e->req); break; }
		if (!e->added) { e->added = 1; rs[sl].regchange = 1; vh_stat("event_adds"); } else vh_stat("event_readds");
		break; }
	case A_DEL: {
		struct rev *e = &rv[x->a];
		int sl = S.ev[x->a].slot;
		if (!e->ev) break;
		if (event_del(e->ev) != 0) vh_viol(PK("event_del-failed", kb), "cfg=%s step=%d: event_del(ev%d) failed", cfg_name[cur_cfg], cur_step, x->a);
		if (e->added) { e->added = 0; e->script_del_since_wait = 1; rs[sl].regchange = 1; rs[sl].dels_since++; vh_stat("event_dels"); }
		break; }
	case A_WRITE: case A_FILL:
		fd = rs[s].fd; if (fd < 0) break;
		if (x->kind == A_WRITE) { ssize_t w = __real_write(fd, buf, (size_t)x->n); (void)w; }
		else { for (i = 0; i < 4000; i++) if (__real_write(fd, buf, sizeof(buf)) <= 0) break; vh_stat("fill_actions"); }
		touch(s); tcp_settle(s);
		break;
	case A_READ: case A_DRAIN:
		fd = rs[s].fd; if (fd < 0) break;
		if (x->kind == A_READ) { ssize_t r = __real_read(fd, buf, (size_t)x->n); (void)r; }
		else { for (i = 0; i < 4000; i++) if (__real_read(fd, buf, sizeof(buf)) <= 0) break; }
		touch(s); tcp_settle(s);
		break;
	case A_SHUTWR:
		fd = rs[s].fd; if (fd < 0 || rs[s].type == T_PIPE) break;
		shutdown(fd, SHUT_WR); vh_stat("shutdown_wr");
		touch(s); tcp_settle(s);
		break;
	case A_CLOSE:
		close_slot(s, x->flag & 1, x->flag & 2);
		break;
	case A_SIGNAL:
		raise(SIGWINCH); sig_raised_step++;
		break;
	case A_BADADD: {
		/* an add that the backend refuses (plain epoll: EBADF) or that is undone before the next wait must leave no
		 * trace: the fd number is opened again later and a fresh event on it has to reach the kernel (seed C05-3) */
		struct event *t;
		short in = project_interest((short)x->n, cur_be);
		if (rs[s].fd >= 0 || !in) break;
		t = event_new(base, S.fdnum[s], (short)(in | (x->flag ? EV_PERSIST : 0)), tick_cb, NULL);
		if (!t) break;
		{ int w0 = warn_count;
		  if (event_add(t, NULL) == 0) { vh_stat("add_on_closed_fd_accepted"); event_del(t); }
		  else { vh_stat("add_on_closed_fd_refused"); warn_count = w0; /* the refusal is logged by the backend, as expected */ } }
		event_free(t);
		break; }
	}
}

static int setup_base(int cfg)
{
	struct event_config *c = event_config_new();
	static const char *all[] = { "epoll", "poll", "select", "devpoll", "kqueue", "evport", "wepoll", "win32" };
	const char *want = CFG_BE(cfg) <= 1 ? "epoll" : CFG_BE(cfg) == 2 ? "poll" : "select";
	int flags = EVENT_BASE_FLAG_IGNORE_ENV, i;
	struct timeval tv = { 0, 1000 };
	const char *m;
	for (i = 0; i < (int)(sizeof(all) / sizeof(all[0])); i++) if (strcmp(all[i], want)) event_config_avoid_method(c, all[i]);
	if (CFG_BE(cfg) == 1) flags |= EVENT_BASE_FLAG_EPOLL_USE_CHANGELIST;
	if (CFG_SIGFD(cfg)) flags |= EVENT_BASE_FLAG_USE_SIGNALFD;
	event_config_set_flag(c, flags);
	base = event_base_new_with_config(c);
	event_config_free(c);
	if (!base) { fprintf(stderr, "cannot create base for %s\n", cfg_name[cfg]); exit(2); }
	m = event_base_get_method(base);
	if ((CFG_BE(cfg) == 0 && strcmp(m, "epoll")) || (CFG_BE(cfg) == 1 && strcmp(m, "epoll (with changelist)")) ||
	    (CFG_BE(cfg) >= 2 && strcmp(m, want)) || (strstr(base->evsigsel->name, "signalfd") != NULL) != CFG_SIGFD(cfg)) {
		fprintf(stderr, "configuration %s gave method %s / %s\n", cfg_name[cfg], m, base->evsigsel->name); exit(2);
	}
	tick_ev = event_new(base, -1, 0, tick_cb, NULL);
	sig_ev = event_new(base, SIGWINCH, EV_SIGNAL | EV_PERSIST, sig_cb, NULL);
	if (!tick_ev || !sig_ev || event_add(sig_ev, NULL) != 0 || event_add(tick_ev, &tv) != 0) { fprintf(stderr, "base setup failed\n"); exit(2); }
	return 0;
}

/* ---- C04 per-step oracle ---- */
static const char *state_str(short p, char *b)
{
	snprintf(b, 40, "%s%s%s%s%s%s", (p & POLLIN) ? "IN " : "", (p & POLLOUT) ? "OUT " : "", (p & POLLRDHUP) ? "RDHUP " : "", (p & POLLHUP) ? "HUP " : "",
		(p & POLLERR) ? "ERR " : "", (p & POLLNVAL) ? "NVAL " : "");
	if (!b[0]) strcpy(b, "idle");
	return b;
}
static void c04_oracle(int st, const short *before, const short *after)
{
	int i, j;
	char b1[8], b2[8], b3[40], b4[40], key[96];
	int has_et = BE_IS_EPOLL(cur_be);
	for (i = 0; i < S.nev; i++) {
		struct rev *e = &rv[i];
		int s = S.ev[i].slot;
		short I, B = before[s], A = after[s], must, may;
		int et_event, victim = (S.step[st].victim == i);
		if (!e->added_at_wait && !e->fire_n) continue;
		I = ev2p(e->interest);
		must = must_of(B) & I;
		may = (may_of(B) | may_of(A)) & I;
		et_event = has_et && (e->req & EV_ET);
		/* (a) soundness of every callback */
		for (j = 0; j < e->fire_n && j < MAXFIRE; j++) {
			short w = e->whats[j], wp = ev2p(w);
			vh_stat("sound_checked");
			if (w & ~(EV_READ | EV_WRITE | EV_CLOSED | EV_ET))
				vh_viol("C04:what-alien-bits", "cfg=%s step=%d ev%d fd%d: what=%#x has bits outside READ|WRITE|CLOSED|ET", cfg_name[cur_cfg], st, i, rs[s].fd, w);
			if (!wp)
				vh_viol("C04:what-empty", "cfg=%s step=%d ev%d fd%d: callback ran with what=%#x (no condition named); requested %s, state %s",
					cfg_name[cur_cfg], st, i, S.fdnum[s], w, pbits(I, b1), state_str(B, b3));
			if (wp & ~I)
				vh_viol("C04:what-not-requested", "cfg=%s step=%d ev%d fd%d: what names %s but the event requested only %s",
					cfg_name[cur_cfg], st, i, S.fdnum[s], pbits(wp, b1), pbits(I, b2));
			else if (wp & ~may) {
				snprintf(key, sizeof(key), "C04:reported-not-ready:%s", be_name[cur_be]);
				vh_viol(key, "cfg=%s step=%d ev%d fd%d: callback reports %s, independent poll(2) saw {%s} before and {%s} after the iteration (requested %s)",
					cfg_name[cur_cfg], st, i, S.fdnum[s], pbits(wp, b1), state_str(B, b3), state_str(A, b4), pbits(I, b2));
			}
			/* CALIBRATED: epoll passes EV_ET to every activation, so what carries EV_ET iff the event asked for it;
			 * poll/select never add it. */
			if (has_et ? ((w & EV_ET) != (e->req & EV_ET)) : (w & EV_ET))
				vh_viol("C04:et-flag", "cfg=%s step=%d ev%d: what=%#x, requested=%#x: EV_ET in result must mirror the request on an ET backend and be absent elsewhere",
					cfg_name[cur_cfg], st, i, w, e->req);
		}
		if (e->fire_n && !e->added_at_wait)
			vh_viol("C04:fired-not-added", "cfg=%s step=%d ev%d: callback although the event was not added when the loop waited", cfg_name[cur_cfg], st, i);
		if (e->fire_n > nwaits_step)
			vh_viol("C04:fired-more-than-iterations", "cfg=%s step=%d ev%d: %d callbacks in %d loop iterations", cfg_name[cur_cfg], st, i, e->fire_n, nwaits_step);
		if (!e->added_at_wait || victim) { if (victim) vh_stat("victim_steps"); continue; }
		if (!et_event) {
			/* (b) level-triggered completeness */
			if (must) {
				vh_stat("lt_must_checked");
				if (must & PC) vh_stat("lt_must_closed");
				if (e->fire_n == 0) {
					const char *cls = (must == PC && (B & POLLERR)) ? "closed-under-ERR" : pbits(must, b1);
					snprintf(key, sizeof(key), "C04:lt-missed:%s:%s", be_name[cur_be], cls);
					vh_viol(key, "cfg=%s step=%d ev%d fd%d (type %d): requested %s, poll(2) saw {%s} before the iteration, event was added, no callback",
						cfg_name[cur_cfg], st, i, S.fdnum[s], rs[s].type, pbits(I, b2), state_str(B, b3));
				} else if ((e->req & EV_PERSIST) && e->fire_n != nwaits_step)
					vh_viol("C04:lt-count", "cfg=%s step=%d ev%d: persistent LT event fired %d times in %d iterations while %s held",
						cfg_name[cur_cfg], st, i, e->fire_n, nwaits_step, pbits(must, b1));
				if (e->fire_n && tr[cur_cfg].nsteps_done > 0 && st > 0 && tr[cur_cfg].ev[st - 1][i].fire_n && (e->req & EV_PERSIST)) vh_stat("lt_refire_seen");
			}
		} else if (rs[s].type != T_TCP && nwaits_step == 1) {
			/* (c) edge-triggered: once per transition.  Only synchronous objects (pipes, AF_UNIX) are judged. */
			int prev_false = rs[s].prev_after_valid && !(may_of(rs[s].prev_after) & I);
			if (!rs[s].act_at_wait && !rs[s].reg_at_wait) {
				vh_stat("et_quiet_checked");
				if (may) vh_stat("et_quiet_while_ready");
				if (e->fire_n)
					vh_viol("C04:et-refire", "cfg=%s step=%d ev%d fd%d: edge-triggered event fired again although nothing happened on the object and no registration changed since the previous iteration (state %s)",
						cfg_name[cur_cfg], st, i, S.fdnum[s], state_str(B, b3));
			} else if (must && (rs[s].fresh_at_wait || prev_false)) {
				vh_stat("et_edge_checked");
				if (e->fire_n != 1) {
					snprintf(key, sizeof(key), "C04:et-missed-edge:%s:%s", be_name[cur_be], (must == PC && (B & POLLERR)) ? "closed-under-ERR" : pbits(must, b1));
					vh_viol(key, "cfg=%s step=%d ev%d fd%d: ET event, %s (requested %s, state {%s}), %d callbacks, expected 1",
						cfg_name[cur_cfg], st, i, S.fdnum[s], rs[s].fresh_at_wait ? "first registration of a ready fd" : "condition went false->true", pbits(I, b2), state_str(B, b3), e->fire_n);
				}
			} else vh_stat("et_gray");
		}
	}
	/* (d) deleted while ready: the absence of a callback is checked in io_cb; count that the situation occurred */
	for (i = 0; i < S.nev; i++) {
		struct rev *e = &rv[i];
		if (e->script_del_since_wait && !e->added_at_wait && e->ev && (must_of(before[S.ev[i].slot]) & ev2p(e->interest))) vh_stat("deleted_while_ready");
	}
}

static void run_config(int cfg, long caseidx)
{
	int st, i;
	short before[MAXSLOT], after[MAXSLOT];
	char kb[64];
	struct trace *T = &tr[cfg];
	cur_cfg = cfg; cur_be = CFG_BE(cfg);
	memset(rs, 0, sizeof(rs)); memset(rv, 0, sizeof(rv)); memset(T, 0, sizeof(*T));
	for (i = 0; i < MAXSLOT; i++) { rs[i].fd = -1; rs[i].peer = -1; }
	for (i = 0; i < MAXEV; i++) rv[i].idx = i;
	vh_rng_seed(&run_rng, (uint64_t)caseidx * 8u + (uint64_t)cfg + vh_opt.seed * 1315423911u);
	setup_base(cfg);
	T->ran = 1;
	for (st = 0; st < S.nstep; st++) {
		struct stepdef *sd = &S.step[st];
		struct timeval tv = { 0, 1000 };
		int rc, warns0 = warn_count;
		cur_step = st;
		sig_raised_step = sig_seen_step = 0;
		for (i = 0; i < sd->nact; i++) do_action(&S.act[sd->first + i]);
		probe(before);
		for (i = 0; i < S.nev; i++) { rv[i].added_at_wait = rv[i].ev && rv[i].added; rv[i].fire_n = 0; }
		event_add(tick_ev, &tv);
		nwaits_step = 0; in_loop = 1;
		rc = event_base_loop(base, EVLOOP_ONCE);
		in_loop = 0;
		probe(after);
		vh_stat("steps");
		if (nwaits_step > 1) vh_stat("multi_iteration_steps");
		if (rc != 0) vh_viol(PK("loop-error", kb), "cfg=%s step=%d: event_base_loop returned %d (%s)", cfg_name[cfg], st, rc, warn_last);
		if (nwaits_step < 1) { fprintf(stderr, "no wait observed in a step\n"); exit(2); }
		if (warn_count != warns0)
			vh_viol(PK("backend-warning", kb), "cfg=%s step=%d: library warning on a legal workload: %s", cfg_name[cfg], st, warn_last);
		if (sig_raised_step) { vh_stat("signals_raised"); if (!sig_seen_step) vh_stat("signal_not_seen_same_step"); }
		for (i = 0; i < S.nslot; i++) {
			short p = before[i];
			if (rs[i].fd < 0) continue;
			vh_stat("fd_states_probed");
			if (p & POLLIN) vh_stat("st_in");
			if (!(p & POLLOUT) && !(rs[i].type == T_PIPE && rs[i].side == 0)) vh_stat("st_write_blocked");
			if (p & POLLRDHUP) vh_stat("st_rdhup");
			if (p & POLLHUP) vh_stat("st_hup");
			if (p & POLLERR) vh_stat("st_err");
			if ((p & POLLHUP) && !(p & (POLLOUT | POLLERR))) vh_stat("st_hup_not_writable");
		}
		if (!mode_c05) c04_oracle(st, before, after);
		for (i = 0; i < S.nslot; i++) {
			T->before[st][i] = before[i]; T->after[st][i] = after[i]; T->type[st][i] = (unsigned char)rs[i].type;
			if (rs[i].fd >= 0) { rs[i].prev_after = after[i]; rs[i].prev_after_valid = 1; }
		}
		T->nwaits[st] = (unsigned char)nwaits_step;
		for (i = 0; i < S.nev; i++) {
			struct trace_ev *te = &T->ev[st][i];
			int j;
			te->exists = rv[i].ev != NULL || rv[i].fire_n > 0; te->added_at_wait = (unsigned char)rv[i].added_at_wait;
			te->fire_n = (unsigned char)rv[i].fire_n; te->victim = (sd->victim == i); te->interest = rv[i].interest; te->what_or = 0;
			for (j = 0; j < rv[i].fire_n && j < MAXFIRE; j++) te->what_or |= rv[i].whats[j];
			rv[i].script_del_since_wait = 0;
			if (rv[i].fire_n) { vh_stat(cur_be == 0 ? "cb_epoll" : cur_be == 1 ? "cb_epollcl" : cur_be == 2 ? "cb_poll" : "cb_select"); if (CFG_SIGFD(cfg)) vh_stat("cb_signalfd_cfgs"); }
			if (rv[i].fire_n && (rv[i].req & EV_ET) && BE_IS_EPOLL(cur_be)) vh_stat("cb_et");
			if (rv[i].fire_n && (te->what_or & EV_CLOSED)) vh_stat("cb_closed");
		}
		T->nsteps_done = st + 1;
		if (vh_opt.verbose > 1) {
			fprintf(stderr, "  [%s] step %d waits=%d:", cfg_name[cfg], st, nwaits_step);
			for (i = 0; i < S.nslot; i++) if (rs[i].fd >= 0) fprintf(stderr, " fd%d=%#x/%#x", rs[i].fd, before[i], after[i]);
			for (i = 0; i < S.nev; i++) if (rv[i].added_at_wait || rv[i].fire_n) fprintf(stderr, " ev%d(%s%#x)x%d:%#x", i, rv[i].added_at_wait ? "" : "!", rv[i].req, rv[i].fire_n, T->ev[st][i].what_or);
			fprintf(stderr, "\n");
		}
	}
	/* teardown */
	for (i = 0; i < S.nev; i++) if (rv[i].ev) { event_del(rv[i].ev); event_free(rv[i].ev); rv[i].ev = NULL; }
	if (cur_be == 1 && base->changelist.changes_size > 64) vh_stat("changelist_grown_past_64");
	event_del(sig_ev); event_free(sig_ev); event_free(tick_ev);
	event_base_free(base); base = NULL;
	for (i = 0; i < S.nslot; i++) if (rs[i].fd >= 0) { __real_close(rs[i].fd); rs[i].fd = -1; }
	{ sigset_t ss; sigemptyset(&ss); sigaddset(&ss, SIGWINCH); sigprocmask(SIG_UNBLOCK, &ss, NULL); }
}

/* ---- (e) cross-configuration agreement ---- */
static void cross_compare(unsigned cfgmask)
{
	int c1, c2, st, i;
	char b1[8], b2[8], b4[8], b3[40], key[96];
	for (c1 = 0; c1 < NCFG; c1++) for (c2 = c1 + 1; c2 < NCFG; c2++) {
		int same_backend = CFG_BE(c1) == CFG_BE(c2);
		int both_close = CFG_BE(c1) != 3 && CFG_BE(c2) != 3;
		int diverged_ev[MAXEV];
		int slot_div[MAXSLOT];
		if (!((cfgmask >> c1) & 1) || !((cfgmask >> c2) & 1) || !tr[c1].ran || !tr[c2].ran) continue;
		memset(diverged_ev, 0, sizeof(diverged_ev)); memset(slot_div, 0, sizeof(slot_div));
		vh_stat("config_pairs_compared");
		for (st = 0; st < S.nstep; st++) {
			for (i = 0; i < S.nslot; i++)
				if (tr[c1].before[st][i] != tr[c2].before[st][i] || tr[c1].after[st][i] != tr[c2].after[st][i]) { if (!slot_div[i]) vh_stat("xcfg_probe_divergence"); slot_div[i] = 1; }
			for (i = 0; i < S.nev; i++) {
				struct trace_ev *x = &tr[c1].ev[st][i], *y = &tr[c2].ev[st][i];
				int s = S.ev[i].slot;
				short B = tr[c1].before[st][s], A = tr[c1].after[st][s], gray = 0, wx, wy;
				if (slot_div[s] || diverged_ev[i]) continue;
				if (!x->added_at_wait && !y->added_at_wait && !x->fire_n && !y->fire_n) continue;
				if (x->added_at_wait != y->added_at_wait) { diverged_ev[i] = 1; vh_stat("xcfg_state_divergence"); continue; }
				if (x->victim || y->victim) { diverged_ev[i] = 1; continue; }     /* order of callbacks on one fd is not specified */
				if (S.et[s] && (BE_IS_EPOLL(CFG_BE(c1)) || BE_IS_EPOLL(CFG_BE(c2))) && !same_backend) { diverged_ev[i] = 1; continue; }  /* ET vs LT semantics / re-arm by MOD */
				if (S.et[s] && same_backend && tr[c1].nwaits[st] != tr[c2].nwaits[st]) { diverged_ev[i] = 1; continue; }
				/* loopback TCP wakes edge-triggered waiters asynchronously (ACKs): no exact comparison */
				if (S.et[s] && tr[c1].type[st][s] == T_TCP) { diverged_ev[i] = 1; vh_stat("xcfg_tcp_et_skipped"); continue; }
				/* the state must have been stable over the iteration in both runs, else the wait may have seen either */
				if (B != A) { diverged_ev[i] = 1; vh_stat("xcfg_unstable_state_skipped"); continue; }
				/* CALIBRATED: "writable" derived from HUP alone is backend dependent (select does not report it) */
				if (((B | A) & POLLHUP) && !(B & A & (POLLOUT | POLLERR))) gray |= PW;
				if (!both_close) gray |= PC;
				if (same_backend) gray = 0;
				wx = ev2p(x->what_or) & (short)~gray; wy = ev2p(y->what_or) & (short)~gray;
				vh_stat("xcfg_event_steps_compared");
				if (wx != wy || (same_backend && (x->fire_n != y->fire_n || x->what_or != y->what_or))) {
					short d = wx ^ wy;
					const char *cls = same_backend ? "signal-mechanism" : (d == PC && ((B | A) & POLLERR)) ? "closed-under-ERR" : "readiness";
					snprintf(key, sizeof(key), "C04:backends-disagree:%s:%s-vs-%s", cls, be_name[CFG_BE(c1)], be_name[CFG_BE(c2)]);
					vh_viol(key, "step=%d ev%d fd%d (requested %s): %s ran %d callback(s) what=%s, %s ran %d callback(s) what=%s; poll(2) state {%s}",
						st, i, S.fdnum[s], pbits(ev2p(S.ev[i].interest), b1), cfg_name[c1], x->fire_n, pbits(ev2p(x->what_or), b2), cfg_name[c2], y->fire_n,
						pbits(ev2p(y->what_or), b4), state_str(B, b3));
					diverged_ev[i] = 1;
				}
				if ((x->fire_n > 0) != (y->fire_n > 0)) diverged_ev[i] = 1;    /* one-shot events now differ in state */
			}
		}
	}
}

static uint64_t script_hash(void)
{
	uint64_t h = vh_hash_bytes(0, S.fdnum, sizeof(int) * (size_t)S.nslot);
	h = vh_hash_bytes(h, S.et, (size_t)S.nslot);
	h = vh_hash_bytes(h, S.ev, sizeof(struct evdef) * (size_t)S.nev);
	h = vh_hash_bytes(h, S.step, sizeof(struct stepdef) * (size_t)S.nstep);
	h = vh_hash_bytes(h, S.act, sizeof(struct act) * (size_t)S.nact);
	return h;
}

static void print_script(FILE *f)
{
	int st, i;
	char b[8];
	fprintf(f, "script: %d slots, %d events, %d steps\n", S.nslot, S.nev, S.nstep);
	for (i = 0; i < S.nslot; i++) fprintf(f, "  slot%d fd=%d %s\n", i, S.fdnum[i], S.et[i] ? "ET" : "LT");
	for (i = 0; i < S.nev; i++) fprintf(f, "  ev%d slot%d(fd %d) %s %s\n", i, S.ev[i].slot, S.fdnum[S.ev[i].slot], pbits(ev2p(S.ev[i].interest), b), S.ev[i].persist ? "persist" : "oneshot");
	for (st = 0; st < S.nstep; st++) {
		fprintf(f, "  step %d:", st);
		for (i = 0; i < S.step[st].nact; i++) { struct act *x = &S.act[S.step[st].first + i]; fprintf(f, " %s(%d,%d,n=%d,f=%d)", act_name[x->kind], x->a, x->b, x->n, x->flag); }
		if (S.step[st].killer >= 0) fprintf(f, " [cb of ev%d deletes ev%d]", S.step[st].killer, S.step[st].victim);
		fprintf(f, "\n");
	}
}

/* the literal script as compact JSON (truncated for very large histories) */
static void script_json(char *buf, size_t cap)
{
	size_t o = 0; int st, i; char b[8];
	static const char *tn[3] = { "pipe", "unix", "tcp" };
	o += (size_t)snprintf(buf + o, cap - o, "{\"fds\":[");
	for (i = 0; i < S.nslot && o + 64 < cap; i++) o += (size_t)snprintf(buf + o, cap - o, "%s\"%d%s\"", i ? "," : "", S.fdnum[i], S.et[i] ? ":ET" : "");
	o += (size_t)snprintf(buf + o, cap - o, "],\"events\":[");
	for (i = 0; i < S.nev && o + 64 < cap; i++)
		o += (size_t)snprintf(buf + o, cap - o, "%s\"fd%d:%s:%s\"", i ? "," : "", S.fdnum[S.ev[i].slot], pbits(ev2p(S.ev[i].interest), b), S.ev[i].persist ? "persist" : "oneshot");
	o += (size_t)snprintf(buf + o, cap - o, "],\"steps\":[");
	for (st = 0; st < S.nstep && o + 96 < cap; st++) {
		o += (size_t)snprintf(buf + o, cap - o, "%s\"", st ? "," : "");
		for (i = 0; i < S.step[st].nact && o + 96 < cap; i++) {
			struct act *x = &S.act[S.step[st].first + i];
			if (x->kind == A_NEWOBJ) o += (size_t)snprintf(buf + o, cap - o, "new %s fd%d<->fd%d; ", tn[x->n], S.fdnum[x->a], S.fdnum[x->b]);
			else if (x->kind == A_ADD || x->kind == A_DEL) o += (size_t)snprintf(buf + o, cap - o, "%s ev%d; ", act_name[x->kind], x->a);
			else if (x->kind == A_SIGNAL) o += (size_t)snprintf(buf + o, cap - o, "raise SIGWINCH; ");
			else if (x->kind == A_CLOSE) o += (size_t)snprintf(buf + o, cap - o, "close fd%d%s%s; ", S.fdnum[x->a], (x->flag & 1) ? " before-del" : "", (x->flag & 2) ? " abortive" : "");
			else o += (size_t)snprintf(buf + o, cap - o, "%s fd%d %d; ", act_name[x->kind], S.fdnum[x->a], x->n);
		}
		if (S.step[st].killer >= 0) o += (size_t)snprintf(buf + o, cap - o, "cb(ev%d) deletes ev%d; ", S.step[st].killer, S.step[st].victim);
		o += (size_t)snprintf(buf + o, cap - o, "LOOP\"");
	}
	snprintf(buf + o, cap - o, "]%s}", (st < S.nstep) ? ",\"truncated\":true" : "");
}

int main(int argc, char **argv)
{
	long idx; vh_rng rng; int fd, maxlen;
	unsigned cfgmask;
	vh_init(argc, argv);
	mode_c05 = vh_opt.mode && !strncmp(vh_opt.mode, "c05", 3);
	P = mode_c05 ? "C05" : "C04";
	cfgmask = vh_opt.n2 ? (unsigned)vh_opt.n2 : 0xffu;
	maxlen = vh_opt.n1 ? (int)vh_opt.n1 : 3;
	for (fd = HFD_MIN; fd < 1024; fd++) if (fcntl(fd, F_GETFD) != -1) { fprintf(stderr, "fd %d already open at start\n", fd); return 2; }
	event_set_log_callback(logcb);
	if (evthread_use_pthreads() != 0) { fprintf(stderr, "evthread_use_pthreads failed\n"); return 2; }
	vclk_enable(1000000);
	vclk_wait_hook = wait_hook;
	while (vh_next_case(&idx, &rng)) {
		int cfg, nontrivial;
		char desc[128] = "";
		long cb0, w0;
		vh_stat("cases");
		if (vh_opt.mode && !strcmp(vh_opt.mode, "c05enum")) { gen_enum(idx, maxlen, &rng, desc, sizeof(desc)); vh_stat("enumerated_histories"); }
		else gen_random(&rng, mode_c05);
		if (vh_opt.verbose) print_script(stderr);
		tcp_failed = 0;
		memset(tr, 0, sizeof(tr));
		for (cfg = 0; cfg < NCFG; cfg++) if ((cfgmask >> cfg) & 1) { run_config(cfg, idx); vh_stat("config_runs"); }
		if (tcp_failed) { vh_stat("tcp_setup_failed_cases"); }
		else if (!mode_c05) cross_compare(cfgmask);
		/* non-trivial: C04: some I/O callback ran; C05: some registration existed at a compared wait */
		nontrivial = 0;
		{
			int c, st, i;
			for (c = 0; c < NCFG && !nontrivial; c++) for (st = 0; st < S.nstep && !nontrivial; st++) for (i = 0; i < S.nev; i++)
				if (mode_c05 ? tr[c].ev[st][i].added_at_wait : tr[c].ev[st][i].fire_n) { nontrivial = 1; break; }
		}
		if (nontrivial) vh_distinct(script_hash());
		(void)cb0; (void)w0;
		if (nontrivial && S.nslot <= 8) {
			static char sj[1700];
			script_json(sj, sizeof(sj));
			vh_sample(2, "{\"case\":%ld,\"mode\":\"%s\",\"enum\":\"%s\",\"configs\":\"%#x\",\"script\":%s}", idx, vh_opt.mode ? vh_opt.mode : "c04", desc, cfgmask, sj);
		}
	}
	if (listener >= 0) __real_close(listener);
	vh_finish();
	return 0;
}
