#include "vh.h"
#include <signal.h>
#include <unistd.h>
#include <errno.h>
#include <sys/syscall.h>

struct vh_opts vh_opt = { .seed = 1, .cases = 100, .first = 0, .only = -1 };
long vh_cur_case = -1;
long vh_nviol = 0;
static long next_idx;
static long end_idx;
static FILE *hashfp;
static long nhash, hashcap = 250000;

uint64_t vh_mix64(uint64_t x)
{
	x += 0x9e3779b97f4a7c15ULL;
	x = (x ^ (x >> 30)) * 0xbf58476d1ce4e5b9ULL;
	x = (x ^ (x >> 27)) * 0x94d049bb133111ebULL;
	return x ^ (x >> 31);
}
void vh_rng_seed(vh_rng *r, uint64_t seed)
{
	int i;
	for (i = 0; i < 4; i++) { seed = vh_mix64(seed + i); r->s[i] = seed; }
	if (!(r->s[0] | r->s[1] | r->s[2] | r->s[3])) r->s[0] = 1;
}
static inline uint64_t rotl(uint64_t x, int k) { return (x << k) | (x >> (64 - k)); }
uint64_t vh_rand(vh_rng *r)
{
	uint64_t *s = r->s;
	uint64_t result = rotl(s[1] * 5, 7) * 9, t = s[1] << 17;
	s[2] ^= s[0]; s[3] ^= s[1]; s[1] ^= s[2]; s[0] ^= s[3]; s[2] ^= t; s[3] = rotl(s[3], 45);
	return result;
}
uint64_t vh_below(vh_rng *r, uint64_t n)
{
	if (n <= 1) return 0;
	return vh_rand(r) % n; /* tiny bias is irrelevant here */
}
int64_t vh_range(vh_rng *r, int64_t lo, int64_t hi)
{
	if (hi <= lo) return lo;
	{
		uint64_t span = (uint64_t)hi - (uint64_t)lo;
		uint64_t off = (span == UINT64_MAX) ? vh_rand(r) : vh_below(r, span + 1);
		return (int64_t)((uint64_t)lo + off);
	}
}
int vh_chance(vh_rng *r, unsigned num, unsigned den) { return vh_below(r, den) < num; }

static void on_fatal(int sig)
{
	char buf[64];
	int n = snprintf(buf, sizeof(buf), "\nATCASE %ld sig=%d\n", vh_cur_case, sig);
	if (n > 0) { ssize_t w = syscall(SYS_write, 2, buf, (size_t)n); (void)w; }
	signal(sig, SIG_DFL);
	raise(sig);
}
/* ASan calls this (weak hook) before printing a report */
void __asan_on_error(void)
{
	char buf[64];
	int n = snprintf(buf, sizeof(buf), "\nATCASE %ld asan\n", vh_cur_case);
	if (n > 0) { ssize_t w = syscall(SYS_write, 2, buf, (size_t)n); (void)w; }
}

static long argl(const char *s) { return strtol(s, NULL, 0); }

void vh_init(int argc, char **argv)
{
	int i;
	setvbuf(stdout, NULL, _IOLBF, 0);
	for (i = 1; i < argc; i++) {
		const char *a = argv[i];
		const char *v = (i + 1 < argc) ? argv[i + 1] : "";
		if (!strcmp(a, "--seed")) { vh_opt.seed = strtoull(v, NULL, 0); i++; }
		else if (!strcmp(a, "--cases")) { vh_opt.cases = argl(v); i++; }
		else if (!strcmp(a, "--first")) { vh_opt.first = argl(v); i++; }
		else if (!strcmp(a, "--only")) { vh_opt.only = argl(v); i++; }
		else if (!strcmp(a, "--thorough")) vh_opt.thorough = 1;
		else if (!strcmp(a, "-v")) vh_opt.verbose++;
		else if (!strcmp(a, "--hashfile")) { vh_opt.hashfile = v; i++; }
		else if (!strcmp(a, "--mode")) { vh_opt.mode = v; i++; }
		else if (!strcmp(a, "--arg")) { vh_opt.arg = v; i++; }
		else if (!strcmp(a, "--n1")) { vh_opt.n1 = argl(v); i++; }
		else if (!strcmp(a, "--n2")) { vh_opt.n2 = argl(v); i++; }
		else { fprintf(stderr, "vh: unknown option %s\n", a); exit(2); }
	}
	if (vh_opt.only >= 0) { next_idx = vh_opt.only; end_idx = vh_opt.only + 1; vh_opt.verbose++; }
	else { next_idx = vh_opt.first; end_idx = vh_opt.first + vh_opt.cases; }
	if (vh_opt.hashfile) hashfp = fopen(vh_opt.hashfile, "wb");
	signal(SIGABRT, on_fatal);
	signal(SIGSEGV, on_fatal);
	signal(SIGBUS, on_fatal);
	signal(SIGFPE, on_fatal);
	signal(SIGILL, on_fatal);
	signal(SIGPIPE, SIG_IGN);
}

int vh_next_case(long *idx, vh_rng *rng)
{
	if (next_idx >= end_idx) return 0;
	*idx = vh_cur_case = next_idx++;
	vh_rng_seed(rng, vh_mix64(vh_opt.seed) ^ vh_mix64(0x5151000000ULL + (uint64_t)*idx));
	return 1;
}

#define MAXSTAT 128
static struct { char name[48]; long n; } stats[MAXSTAT];
static int nstats;
void vh_stat_add(const char *name, long n)
{
	int i;
	for (i = 0; i < nstats; i++)
		if (!strcmp(stats[i].name, name)) { stats[i].n += n; return; }
	if (nstats < MAXSTAT) {
		snprintf(stats[nstats].name, sizeof(stats[nstats].name), "%s", name);
		stats[nstats++].n = n;
	}
}

void vh_viol(const char *key, const char *fmt, ...)
{
	va_list ap;
	char buf[4096];
	size_t i;
	va_start(ap, fmt);
	vsnprintf(buf, sizeof(buf), fmt, ap);
	va_end(ap);
	for (i = 0; buf[i]; i++) if (buf[i] == '\n' || buf[i] == '\r') buf[i] = ' ';
	vh_nviol++;
	{
		/* print at most 4 witnesses per distinct key so a frequent (known) finding cannot crowd out a new key */
		static struct { char key[96]; int n; } seen[128];
		static int nseen;
		int k;
		for (k = 0; k < nseen; k++) if (!strncmp(seen[k].key, key, sizeof(seen[k].key) - 1)) break;
		if (k == nseen && nseen < 128) { snprintf(seen[nseen].key, sizeof(seen[nseen].key), "%s", key); seen[nseen].n = 0; nseen++; }
		if (k < 128 && seen[k].n++ < 4)
			printf("VIOL %s case=%ld %s\n", key, vh_cur_case, buf);
	}
}

void vh_sample(int max, const char *fmt, ...)
{
	static int n;
	va_list ap;
	char buf[2048];
	size_t i;
	if (n >= max) return;
	n++;
	va_start(ap, fmt);
	vsnprintf(buf, sizeof(buf), fmt, ap);
	va_end(ap);
	for (i = 0; buf[i]; i++) if (buf[i] == '\n' || buf[i] == '\r') buf[i] = ' ';
	printf("SAMPLE %s\n", buf);
}

void vh_distinct(uint64_t h)
{
	vh_stat_add("nontrivial", 1);
	if (hashfp && nhash < hashcap) { fwrite(&h, 8, 1, hashfp); nhash++; }
}

uint64_t vh_hash_bytes(uint64_t h, const void *p, size_t n)
{
	const unsigned char *s = p;
	size_t i;
	h ^= 0xcbf29ce484222325ULL;
	for (i = 0; i < n; i++) { h ^= s[i]; h *= 0x100000001b3ULL; }
	return vh_mix64(h + n);
}

char *vh_jesc(char *dst, size_t cap, const void *src, size_t n)
{
	const unsigned char *s = src;
	size_t o = 0, i;
	for (i = 0; i < n && o + 8 < cap; i++) {
		unsigned char c = s[i];
		if (c == '"' || c == '\\') { dst[o++] = '\\'; dst[o++] = c; }
		else if (c < 0x20 || c >= 0x7f) o += snprintf(dst + o, cap - o, "\\u%04x", c);
		else dst[o++] = c;
	}
	dst[o] = 0;
	return dst;
}

char *vh_hex(char *dst, size_t cap, const void *src, size_t n)
{
	const unsigned char *s = src;
	size_t o = 0, i;
	for (i = 0; i < n && o + 3 < cap; i++) o += snprintf(dst + o, cap - o, "%02x", s[i]);
	dst[o] = 0;
	return dst;
}

void vh_finish(void)
{
	int i;
	if (hashfp) fclose(hashfp);
	for (i = 0; i < nstats; i++) printf("STAT %s %ld\n", stats[i].name, stats[i].n);
	printf("STAT violations %ld\n", vh_nviol);
	printf("DONE\n");
	fflush(stdout);
}
