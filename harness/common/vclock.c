/* Virtual clock: wraps the time sources and the backend wait calls of the
 * statically linked libevent objects (see mk/Makefile WRAPS). */
#include <errno.h>
#include "vh.h"
#include <sys/epoll.h>
#include <poll.h>
#include <sys/select.h>
#include <signal.h>

int      vclk_on;
int64_t  vclk_mono_us;
int64_t  vclk_wall_off_us = 1700000000LL * 1000000LL;
int64_t  vclk_oversleep_us;
long     vclk_nwaits;
int      vclk_blocked_forever;
vclk_wait_hook_t vclk_wait_hook;
void (*vclk_forever_hook)(void);

int __real_clock_gettime(clockid_t, struct timespec *);
int __real_gettimeofday(struct timeval *, void *);
int __real_epoll_wait(int, struct epoll_event *, int, int);
int __real_epoll_pwait(int, struct epoll_event *, int, int, const sigset_t *);
int __real_epoll_pwait2(int, struct epoll_event *, int, const struct timespec *, const sigset_t *);
int __real_poll(struct pollfd *, nfds_t, int);
int __real_select(int, fd_set *, fd_set *, fd_set *, struct timeval *);

void vclk_enable(int64_t start_us) { vclk_on = 1; vclk_mono_us = start_us; }
void vclk_advance(int64_t us) { vclk_mono_us += us; }

int __wrap_clock_gettime(clockid_t id, struct timespec *ts)
{
	int64_t t;
	if (!vclk_on) return __real_clock_gettime(id, ts);
	switch (id) {
	case CLOCK_MONOTONIC: case CLOCK_MONOTONIC_COARSE: case CLOCK_MONOTONIC_RAW: case CLOCK_BOOTTIME:
		t = vclk_mono_us; break;
	case CLOCK_REALTIME: case CLOCK_REALTIME_COARSE:
		t = vclk_mono_us + vclk_wall_off_us; break;
	default:
		return __real_clock_gettime(id, ts);
	}
	ts->tv_sec = t / 1000000; ts->tv_nsec = (t % 1000000) * 1000;
	return 0;
}
int __wrap_gettimeofday(struct timeval *tv, void *tz)
{
	int64_t t;
	if (!vclk_on) return __real_gettimeofday(tv, tz);
	t = vclk_mono_us + vclk_wall_off_us;
	tv->tv_sec = t / 1000000; tv->tv_usec = t % 1000000;
	return 0;
}

/* one-shot failure of the next backend wait (whatever the backend), e.g. EINTR */
int vclk_fail_next_wait;
long vclk_wait_failed;
#define FAIL_WAIT_IF_PLANNED do { if (vclk_fail_next_wait) { int e_ = vclk_fail_next_wait; vclk_fail_next_wait = 0; vclk_wait_failed++; errno = e_; return -1; } } while (0)

/* common tail: nothing was ready */
static void slept(int64_t timeout_us)
{
	if (timeout_us < 0) {
		vclk_blocked_forever = 1;
		if (vclk_forever_hook) vclk_forever_hook();
		return;
	}
	vclk_mono_us += timeout_us + (timeout_us > 0 ? vclk_oversleep_us : 0);
}

int __wrap_epoll_wait(int epfd, struct epoll_event *ev, int max, int timeout)
{
	int r;
	FAIL_WAIT_IF_PLANNED;
	if (!vclk_on) return __real_epoll_wait(epfd, ev, max, timeout);
	vclk_nwaits++;
	if (vclk_wait_hook) vclk_wait_hook(VW_EPOLL, timeout < 0 ? -1 : (int64_t)timeout * 1000, &epfd, NULL, NULL, max);
	r = __real_epoll_wait(epfd, ev, max, 0);
	if (r == 0) slept(timeout < 0 ? -1 : (int64_t)timeout * 1000);
	return r;
}
int __wrap_epoll_pwait(int epfd, struct epoll_event *ev, int max, int timeout, const sigset_t *ss)
{
	int r;
	FAIL_WAIT_IF_PLANNED;
	if (!vclk_on) return __real_epoll_pwait(epfd, ev, max, timeout, ss);
	vclk_nwaits++;
	if (vclk_wait_hook) vclk_wait_hook(VW_EPOLL, timeout < 0 ? -1 : (int64_t)timeout * 1000, &epfd, NULL, NULL, max);
	r = __real_epoll_pwait(epfd, ev, max, 0, ss);
	if (r == 0) slept(timeout < 0 ? -1 : (int64_t)timeout * 1000);
	return r;
}
int __wrap_epoll_pwait2(int epfd, struct epoll_event *ev, int max, const struct timespec *ts, const sigset_t *ss)
{
	int r;
	int64_t t;
	struct timespec zero = {0, 0};
	FAIL_WAIT_IF_PLANNED;
	if (!vclk_on) return __real_epoll_pwait2(epfd, ev, max, ts, ss);
	vclk_nwaits++;
	/* the kernel sleeps at least the asked time: round ns up to us */
	t = ts ? (int64_t)ts->tv_sec * 1000000 + (ts->tv_nsec + 999) / 1000 : -1;
	if (vclk_wait_hook) vclk_wait_hook(VW_EPOLL, t, &epfd, NULL, NULL, max);
	r = __real_epoll_pwait2(epfd, ev, max, &zero, ss);
	if (r == 0) slept(t);
	return r;
}
int __wrap_poll(struct pollfd *fds, nfds_t n, int timeout)
{
	int r;
	FAIL_WAIT_IF_PLANNED;
	if (!vclk_on) return __real_poll(fds, n, timeout);
	vclk_nwaits++;
	if (vclk_wait_hook) vclk_wait_hook(VW_POLL, timeout < 0 ? -1 : (int64_t)timeout * 1000, fds, NULL, NULL, (int)n);
	r = __real_poll(fds, n, 0);
	if (r == 0) slept(timeout < 0 ? -1 : (int64_t)timeout * 1000);
	return r;
}
int __wrap_select(int n, fd_set *r_, fd_set *w_, fd_set *e_, struct timeval *tv)
{
	int r;
	int64_t t;
	struct timeval zero = {0, 0};
	FAIL_WAIT_IF_PLANNED;
	if (!vclk_on) return __real_select(n, r_, w_, e_, tv);
	vclk_nwaits++;
	t = tv ? (int64_t)tv->tv_sec * 1000000 + tv->tv_usec : -1;
	if (vclk_wait_hook) vclk_wait_hook(VW_SELECT, t, r_, w_, e_, n);
	r = __real_select(n, r_, w_, e_, &zero);
	if (r == 0) slept(t);
	return r;
}
