/* Common harness support: PRNG, result protocol, CLI, monitors.
 *
 * Result protocol (stdout, one record per line, parsed by lib/vlib.py):
 *   STAT <name> <integer>          counters; summed over shards
 *   SAMPLE <json>                  a literal case (a few per shard)
 *   VIOL <key> case=<idx> <text>   a property violation with a stable key
 *   DONE                           the shard finished all its cases
 * stderr carries sanitizer reports and `ATCASE <idx>` written by the abort
 * handler so a crash can be attributed to a case.
 */
#ifndef VH_H
#define VH_H
#include <stdint.h>
#include <stdio.h>
#include <stdlib.h>
#include <string.h>
#include <stdarg.h>
#include <sys/types.h>
#include <sys/time.h>
#include <time.h>

/* ---- PRNG (xoshiro256** seeded through splitmix64) ---- */
typedef struct { uint64_t s[4]; } vh_rng;
uint64_t vh_mix64(uint64_t x);
void     vh_rng_seed(vh_rng *r, uint64_t seed);
uint64_t vh_rand(vh_rng *r);
/* uniform in [0,n) ; n>0 */
uint64_t vh_below(vh_rng *r, uint64_t n);
/* uniform in [lo,hi] */
int64_t  vh_range(vh_rng *r, int64_t lo, int64_t hi);
int      vh_chance(vh_rng *r, unsigned num, unsigned den);
#define VH_PICK(r, arr) ((arr)[vh_below((r), sizeof(arr)/sizeof((arr)[0]))])

/* ---- CLI / sharding ---- */
struct vh_opts {
	uint64_t seed;
	long cases;          /* number of cases for this process */
	long first;          /* index of first case (global numbering) */
	long only;           /* >=0: run exactly this case index (replay) */
	int  thorough;
	int  verbose;
	const char *hashfile;
	const char *mode;    /* harness-specific sub-mode */
	const char *arg;     /* harness-specific free argument */
	long  n1, n2;        /* harness-specific numbers */
};
extern struct vh_opts vh_opt;
void vh_init(int argc, char **argv);
/* iterate: returns 1 and sets *idx while cases remain.  Seeds *rng for the
 * case from (seed, idx) so any case can be replayed alone. */
int  vh_next_case(long *idx, vh_rng *rng);
extern long vh_cur_case;
void vh_finish(void);   /* prints STATs and DONE */

/* ---- results ---- */
void vh_stat_add(const char *name, long n);
#define vh_stat(name) vh_stat_add((name), 1)
void vh_viol(const char *key, const char *fmt, ...) __attribute__((format(printf,2,3)));
extern long vh_nviol;
/* emit at most `max` samples per process */
void vh_sample(int max, const char *fmt, ...) __attribute__((format(printf,2,3)));
/* record the hash of a distinct non-trivial case */
void vh_distinct(uint64_t h);
uint64_t vh_hash_bytes(uint64_t h, const void *p, size_t n);
/* json-escape arbitrary bytes into dst (size cap), returns dst */
char *vh_jesc(char *dst, size_t cap, const void *src, size_t n);
/* hex */
char *vh_hex(char *dst, size_t cap, const void *src, size_t n);

/* ---- virtual clock (vclock.c) ---- */
extern int      vclk_on;          /* 0 = real time */
extern int64_t  vclk_mono_us;     /* virtual CLOCK_MONOTONIC in us */
extern int64_t  vclk_wall_off_us; /* wall = mono + off */
extern int64_t  vclk_oversleep_us;/* added to every virtual sleep */
extern long     vclk_nwaits;
extern int      vclk_blocked_forever; /* a wait with no timeout found nothing */
enum { VW_EPOLL = 1, VW_POLL, VW_SELECT };
/* observer invoked at every wrapped wait, before the real zero-timeout call.
 * timeout_us <0 means infinite. */
typedef void (*vclk_wait_hook_t)(int kind, int64_t timeout_us, void *a, void *b, void *c, int n);
extern vclk_wait_hook_t vclk_wait_hook;
/* invoked when the loop would block forever (default: sets the flag only) */
extern void (*vclk_forever_hook)(void);
extern int vclk_fail_next_wait;   /* errno for a one-shot failure of the next backend wait (0: none) */
extern long vclk_wait_failed;
void vclk_enable(int64_t start_us);
void vclk_advance(int64_t us);

/* ---- syscall fault plans (sysfault.c) ---- */
enum { SF_read, SF_readv, SF_write, SF_writev, SF_sendfile, SF_recv, SF_recvfrom,
       SF_send, SF_sendto, SF_accept, SF_accept4, SF_connect, SF_socket,
       SF_epoll_ctl, SF_eventfd, SF_pipe2, SF_pipe, SF_ioctl, SF_sigaction, SF_close, SF__N };
enum { SFA_NONE = 0, SFA_ERRNO, SFA_SHORT /* clip length to arg */, SFA_ZERO };
struct sf_rule { long nth; int action; long arg; };
void sf_reset(void);
/* nth counts calls of that symbol from the last sf_reset(); nth==0: every call */
void sf_plan(int sym, long nth, int action, long arg);
long sf_calls(int sym);
extern long sf_injected;
/* optional observer of every (sym, fd, requested, result) */
typedef void (*sf_obs_t)(int sym, int fd, long req, long res);
extern sf_obs_t sf_observer;
/* only fds for which this returns nonzero are subject to plans (NULL = all) */
extern int (*sf_fd_filter)(int fd);

/* ---- allocation monitor (memfault.c) ---- */
void mf_install(void);              /* event_set_mem_functions(...) */
extern long mf_live_blocks, mf_live_bytes, mf_total_allocs;
extern long mf_fail_at;             /* fail the allocation whose ordinal (from mf_arm) equals this; 0=never */
extern long mf_fail_every_after;    /* if set, all allocations at ordinal >= this fail */
extern long mf_failed;
void mf_arm(long nth);              /* reset ordinal counter, fail nth (0 = none) */
long mf_ordinal(void);              /* allocations since last mf_arm */

/* ---- lock monitor (lockmon.c) ---- */
void lm_install(void);              /* evthread_set_*_callbacks */
int  lm_held_now(void);             /* number of lock holds (sum of depths) of this thread */
extern int  lm_fail_trylock;        /* >0: that many try-locks of locks not held by the caller fail (EBUSY) */
extern long lm_trylock_failed;
extern long lm_nlocks_taken;        /* total acquisitions observed */
extern int  lm_delay_permille;      /* inject yields/sleeps at acquire/release */
void lm_thread_seed(uint64_t seed);
/* user holds via explicit lock APIs: harness brackets them */
const char *lm_take_violation(void); /* returns and clears first ledger violation text, or NULL */
void *lm_last_lock_taken(void);

#endif
