/* Scriptable results for the system calls libevent makes.  Default: pass
 * through.  A plan entry applies to the nth call (1-based, counted from
 * sf_reset) of one symbol, or to every call when nth==0. */
#include "vh.h"
#include <errno.h>
#include <unistd.h>
#include <sys/uio.h>
#include <sys/socket.h>
#include <sys/epoll.h>
#include <sys/sendfile.h>
#include <sys/eventfd.h>
#include <sys/ioctl.h>
#include <signal.h>

#define MAXRULES 64
static struct sf_rule rules[SF__N][MAXRULES];
static int nrules[SF__N];
static long calls[SF__N];
long sf_injected;
sf_obs_t sf_observer;
int (*sf_fd_filter)(int fd);

void sf_reset(void) { memset(nrules, 0, sizeof(nrules)); memset(calls, 0, sizeof(calls)); }
void sf_plan(int sym, long nth, int action, long arg)
{
	if (nrules[sym] < MAXRULES) {
		struct sf_rule *r = &rules[sym][nrules[sym]++];
		r->nth = nth; r->action = action; r->arg = arg;
	}
}
long sf_calls(int sym) { return calls[sym]; }

/* returns the rule for this call or NULL */
static struct sf_rule *hit(int sym, int fd)
{
	int i;
	if (!nrules[sym] && !sf_observer) return NULL;
	if (fd >= 0 && sf_fd_filter && !sf_fd_filter(fd)) return NULL;
	calls[sym]++;
	for (i = 0; i < nrules[sym]; i++)
		if (rules[sym][i].nth == 0 || rules[sym][i].nth == calls[sym]) return &rules[sym][i];
	return NULL;
}
#define OBS(sym, fd, req, res) do { if (sf_observer && (!(sf_fd_filter) || (fd) < 0 || sf_fd_filter(fd))) sf_observer((sym), (fd), (long)(req), (long)(res)); } while (0)
#define FAIL_IF_ERRNO(r) if ((r) && (r)->action == SFA_ERRNO) { sf_injected++; errno = (int)(r)->arg; OBS(sym_, fd_, req_, -1); return -1; }

ssize_t __real_read(int, void *, size_t);
ssize_t __wrap_read(int fd, void *buf, size_t n)
{
	const int sym_ = SF_read, fd_ = fd; const long req_ = (long)n;
	struct sf_rule *r = hit(SF_read, fd);
	ssize_t res;
	FAIL_IF_ERRNO(r);
	if (r && r->action == SFA_ZERO) { sf_injected++; OBS(sym_, fd_, req_, 0); return 0; }
	if (r && r->action == SFA_SHORT && (size_t)r->arg < n) { sf_injected++; n = (size_t)r->arg; }
	res = __real_read(fd, buf, n);
	OBS(sym_, fd_, req_, res);
	return res;
}
ssize_t __real_write(int, const void *, size_t);
ssize_t __wrap_write(int fd, const void *buf, size_t n)
{
	const int sym_ = SF_write, fd_ = fd; const long req_ = (long)n;
	struct sf_rule *r = hit(SF_write, fd);
	ssize_t res;
	FAIL_IF_ERRNO(r);
	if (r && r->action == SFA_SHORT && (size_t)r->arg < n) { sf_injected++; n = (size_t)r->arg; }
	res = __real_write(fd, buf, n);
	OBS(sym_, fd_, req_, res);
	return res;
}
static size_t iov_total(const struct iovec *iov, int cnt)
{
	size_t t = 0; int i;
	for (i = 0; i < cnt; i++) t += iov[i].iov_len;
	return t;
}
/* clip an iovec array to `lim` bytes; returns new count, writes into out */
static int iov_clip(const struct iovec *iov, int cnt, size_t lim, struct iovec *out)
{
	int i, n = 0;
	for (i = 0; i < cnt && lim > 0; i++) {
		out[n] = iov[i];
		if (out[n].iov_len > lim) out[n].iov_len = lim;
		lim -= out[n].iov_len;
		n++;
	}
	if (n == 0 && cnt > 0) { out[0] = iov[0]; out[0].iov_len = 0; n = 1; }
	return n;
}
ssize_t __real_readv(int, const struct iovec *, int);
ssize_t __wrap_readv(int fd, const struct iovec *iov, int cnt)
{
	const int sym_ = SF_readv, fd_ = fd; const long req_ = (long)iov_total(iov, cnt);
	struct sf_rule *r = hit(SF_readv, fd);
	struct iovec tmp[1024];
	ssize_t res;
	FAIL_IF_ERRNO(r);
	if (r && r->action == SFA_ZERO) { sf_injected++; OBS(sym_, fd_, req_, 0); return 0; }
	if (r && r->action == SFA_SHORT && cnt <= 1024 && (long)r->arg < req_) {
		sf_injected++; cnt = iov_clip(iov, cnt, (size_t)r->arg, tmp); iov = tmp;
	}
	res = __real_readv(fd, iov, cnt);
	OBS(sym_, fd_, req_, res);
	return res;
}
ssize_t __real_writev(int, const struct iovec *, int);
ssize_t __wrap_writev(int fd, const struct iovec *iov, int cnt)
{
	const int sym_ = SF_writev, fd_ = fd; const long req_ = (long)iov_total(iov, cnt);
	struct sf_rule *r = hit(SF_writev, fd);
	struct iovec tmp[1024];
	ssize_t res;
	FAIL_IF_ERRNO(r);
	if (r && r->action == SFA_SHORT && cnt <= 1024 && (long)r->arg < req_) {
		sf_injected++; cnt = iov_clip(iov, cnt, (size_t)r->arg, tmp); iov = tmp;
	}
	res = __real_writev(fd, iov, cnt);
	OBS(sym_, fd_, req_, res);
	return res;
}
ssize_t __real_sendfile(int, int, off_t *, size_t);
ssize_t __wrap_sendfile(int out, int in, off_t *off, size_t n)
{
	const int sym_ = SF_sendfile, fd_ = out; const long req_ = (long)n;
	struct sf_rule *r = hit(SF_sendfile, out);
	ssize_t res;
	FAIL_IF_ERRNO(r);
	if (r && r->action == SFA_SHORT && (size_t)r->arg < n) { sf_injected++; n = (size_t)r->arg; }
	res = __real_sendfile(out, in, off, n);
	OBS(sym_, fd_, req_, res);
	return res;
}
ssize_t __real_recv(int, void *, size_t, int);
ssize_t __wrap_recv(int fd, void *buf, size_t n, int fl)
{
	const int sym_ = SF_recv, fd_ = fd; const long req_ = (long)n;
	struct sf_rule *r = hit(SF_recv, fd);
	ssize_t res;
	FAIL_IF_ERRNO(r);
	if (r && r->action == SFA_ZERO) { sf_injected++; OBS(sym_, fd_, req_, 0); return 0; }
	if (r && r->action == SFA_SHORT && (size_t)r->arg < n) { sf_injected++; n = (size_t)r->arg; }
	res = __real_recv(fd, buf, n, fl);
	OBS(sym_, fd_, req_, res);
	return res;
}
ssize_t __real_recvfrom(int, void *, size_t, int, struct sockaddr *, socklen_t *);
ssize_t __wrap_recvfrom(int fd, void *buf, size_t n, int fl, struct sockaddr *sa, socklen_t *sl)
{
	const int sym_ = SF_recvfrom, fd_ = fd; const long req_ = (long)n;
	struct sf_rule *r = hit(SF_recvfrom, fd);
	ssize_t res;
	FAIL_IF_ERRNO(r);
	res = __real_recvfrom(fd, buf, n, fl, sa, sl);
	OBS(sym_, fd_, req_, res);
	return res;
}
ssize_t __real_send(int, const void *, size_t, int);
ssize_t __wrap_send(int fd, const void *buf, size_t n, int fl)
{
	const int sym_ = SF_send, fd_ = fd; const long req_ = (long)n;
	struct sf_rule *r = hit(SF_send, fd);
	ssize_t res;
	FAIL_IF_ERRNO(r);
	if (r && r->action == SFA_SHORT && (size_t)r->arg < n) { sf_injected++; n = (size_t)r->arg; }
	res = __real_send(fd, buf, n, fl);
	OBS(sym_, fd_, req_, res);
	return res;
}
ssize_t __real_sendto(int, const void *, size_t, int, const struct sockaddr *, socklen_t);
ssize_t __wrap_sendto(int fd, const void *buf, size_t n, int fl, const struct sockaddr *sa, socklen_t sl)
{
	const int sym_ = SF_sendto, fd_ = fd; const long req_ = (long)n;
	struct sf_rule *r = hit(SF_sendto, fd);
	ssize_t res;
	FAIL_IF_ERRNO(r);
	res = __real_sendto(fd, buf, n, fl, sa, sl);
	OBS(sym_, fd_, req_, res);
	return res;
}
int __real_accept(int, struct sockaddr *, socklen_t *);
int __wrap_accept(int fd, struct sockaddr *sa, socklen_t *sl)
{
	const int sym_ = SF_accept, fd_ = fd; const long req_ = 0;
	struct sf_rule *r = hit(SF_accept, fd);
	int res;
	FAIL_IF_ERRNO(r);
	res = __real_accept(fd, sa, sl);
	OBS(sym_, fd_, req_, res);
	return res;
}
int __real_accept4(int, struct sockaddr *, socklen_t *, int);
int __wrap_accept4(int fd, struct sockaddr *sa, socklen_t *sl, int fl)
{
	const int sym_ = SF_accept4, fd_ = fd; const long req_ = 0;
	struct sf_rule *r = hit(SF_accept4, fd);
	int res;
	FAIL_IF_ERRNO(r);
	res = __real_accept4(fd, sa, sl, fl);
	OBS(sym_, fd_, req_, res);
	return res;
}
int __real_connect(int, const struct sockaddr *, socklen_t);
int __wrap_connect(int fd, const struct sockaddr *sa, socklen_t sl)
{
	const int sym_ = SF_connect, fd_ = fd; const long req_ = 0;
	struct sf_rule *r = hit(SF_connect, fd);
	int res;
	FAIL_IF_ERRNO(r);
	res = __real_connect(fd, sa, sl);
	OBS(sym_, fd_, req_, res);
	return res;
}
int __real_socket(int, int, int);
int __wrap_socket(int d, int t, int p)
{
	const int sym_ = SF_socket, fd_ = -1; const long req_ = 0;
	struct sf_rule *r = hit(SF_socket, -1);
	int res;
	FAIL_IF_ERRNO(r);
	res = __real_socket(d, t, p);
	OBS(sym_, fd_, req_, res);
	return res;
}
int __real_epoll_ctl(int, int, int, struct epoll_event *);
int __wrap_epoll_ctl(int ep, int op, int fd, struct epoll_event *ev)
{
	const int sym_ = SF_epoll_ctl, fd_ = -1; const long req_ = op;
	struct sf_rule *r = hit(SF_epoll_ctl, -1);
	int res;
	FAIL_IF_ERRNO(r);
	res = __real_epoll_ctl(ep, op, fd, ev);
	OBS(sym_, fd, req_, res);
	return res;
}
int __real_eventfd(unsigned, int);
int __wrap_eventfd(unsigned v, int fl)
{
	const int sym_ = SF_eventfd, fd_ = -1; const long req_ = 0;
	struct sf_rule *r = hit(SF_eventfd, -1);
	FAIL_IF_ERRNO(r);
	return __real_eventfd(v, fl);
}
int __real_pipe2(int *, int);
int __wrap_pipe2(int *p, int fl)
{
	const int sym_ = SF_pipe2, fd_ = -1; const long req_ = 0;
	struct sf_rule *r = hit(SF_pipe2, -1);
	FAIL_IF_ERRNO(r);
	return __real_pipe2(p, fl);
}
int __real_pipe(int *);
int __wrap_pipe(int *p)
{
	const int sym_ = SF_pipe, fd_ = -1; const long req_ = 0;
	struct sf_rule *r = hit(SF_pipe, -1);
	FAIL_IF_ERRNO(r);
	return __real_pipe(p);
}
int __real_ioctl(int, unsigned long, void *);
int __wrap_ioctl(int fd, unsigned long req, void *arg)
{
	const int sym_ = SF_ioctl, fd_ = fd; const long req_ = (long)req;
	struct sf_rule *r = hit(SF_ioctl, fd);
	int res;
	FAIL_IF_ERRNO(r);
	res = __real_ioctl(fd, req, arg);
	/* SFA_SHORT on FIONREAD: report a smaller/larger byte count */
	if (r && r->action == SFA_SHORT && res == 0 && arg) { sf_injected++; *(int *)arg = (int)r->arg; }
	return res;
}
int __real_sigaction(int, const struct sigaction *, struct sigaction *);
int __wrap_sigaction(int sig, const struct sigaction *a, struct sigaction *o)
{
	const int sym_ = SF_sigaction, fd_ = -1; const long req_ = sig;
	struct sf_rule *r = hit(SF_sigaction, -1);
	FAIL_IF_ERRNO(r);
	return __real_sigaction(sig, a, o);
}
int __real_close(int);
int __wrap_close(int fd)
{
	int res = __real_close(fd);
	if (sf_observer) sf_observer(SF_close, fd, 0, res);
	return res;
}

/* Not a fault plan: TCP listeners on an ephemeral port.  Every case of the protocol harnesses binds a fresh listener and
 * leaves one connection in TIME_WAIT; hundreds of thousands of cases per run exhaust the ~28k ephemeral ports and
 * bind(port 0) starts failing with EADDRINUSE for up to a minute.  That is the sandbox's TCP stack, not the library:
 * wait for a port instead of failing the run.  Binds to an explicit port are passed through untouched. */
#include <netinet/in.h>
#include <time.h>
long sf_bind_waits;
int __real_bind(int, const struct sockaddr *, socklen_t);
int __wrap_bind(int fd, const struct sockaddr *sa, socklen_t len)
{
	int tries, r = __real_bind(fd, sa, len);
	int any_port = sa && ((sa->sa_family == AF_INET && len >= (socklen_t)sizeof(struct sockaddr_in) && ((const struct sockaddr_in *)sa)->sin_port == 0) ||
	    (sa->sa_family == AF_INET6 && len >= (socklen_t)sizeof(struct sockaddr_in6) && ((const struct sockaddr_in6 *)sa)->sin6_port == 0));
	for (tries = 0; r < 0 && errno == EADDRINUSE && any_port && tries < 600; tries++) {
		struct timespec ts = { 0, 250000000L };
		nanosleep(&ts, NULL);
		sf_bind_waits++;
		r = __real_bind(fd, sa, len);
	}
	return r;
}
