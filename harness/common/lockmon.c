/* Lock monitor: lock/condition/id callbacks over pthreads with a per-thread
 * ledger.  Detects by itself: unlock of a lock the thread does not hold,
 * re-lock of a non-recursive lock by its holder (before blocking), free of a
 * held lock.  Harnesses compare lm_held_now() before/after API calls. */
#include "vh.h"
#include <pthread.h>
#include <unistd.h>
#include <event2/thread.h>

struct lm_lock { pthread_mutex_t m; int recursive; unsigned long owner; int depth; unsigned magic; };
#define LM_MAGIC 0x10c4a11e
#define MAXHELD 64
static __thread struct { struct lm_lock *l; int depth; } held[MAXHELD];
static __thread int nheld;
static __thread vh_rng trng;
static __thread int trng_init;
static __thread void *last_taken;
int lm_fail_trylock; long lm_trylock_failed;
long lm_nlocks_taken;
int  lm_delay_permille;
static char violbuf[512];
static int have_viol;
static pthread_mutex_t viol_mu = PTHREAD_MUTEX_INITIALIZER;

static void lm_violation(const char *fmt, ...)
{
	va_list ap;
	pthread_mutex_lock(&viol_mu);
	if (!have_viol) {
		va_start(ap, fmt);
		vsnprintf(violbuf, sizeof(violbuf), fmt, ap);
		va_end(ap);
		have_viol = 1;
	}
	pthread_mutex_unlock(&viol_mu);
}
const char *lm_take_violation(void)
{
	static char out[512];
	const char *r = NULL;
	pthread_mutex_lock(&viol_mu);
	if (have_viol) { memcpy(out, violbuf, sizeof(out)); have_viol = 0; r = out; }
	pthread_mutex_unlock(&viol_mu);
	return r;
}
void lm_thread_seed(uint64_t seed) { vh_rng_seed(&trng, seed); trng_init = 1; }
static void maybe_delay(void)
{
	if (!lm_delay_permille) return;
	if (!trng_init) lm_thread_seed((uint64_t)pthread_self() ^ vh_opt.seed);
	if ((int)vh_below(&trng, 1000) < lm_delay_permille) {
		if (vh_chance(&trng, 1, 2)) sched_yield();
		else usleep((useconds_t)vh_below(&trng, 200));
	}
}
int lm_held_now(void)
{
	int i, t = 0;
	for (i = 0; i < nheld; i++) t += held[i].depth;
	return t;
}
void *lm_last_lock_taken(void) { return last_taken; }

static void *lm_alloc(unsigned locktype)
{
	struct lm_lock *l = calloc(1, sizeof(*l));
	pthread_mutexattr_t a;
	if (!l) return NULL;
	pthread_mutexattr_init(&a);
	l->recursive = (locktype & EVTHREAD_LOCKTYPE_RECURSIVE) != 0;
	if (l->recursive) pthread_mutexattr_settype(&a, PTHREAD_MUTEX_RECURSIVE);
	pthread_mutex_init(&l->m, &a);
	pthread_mutexattr_destroy(&a);
	l->magic = LM_MAGIC;
	return l;
}
static void lm_free(void *p, unsigned locktype)
{
	struct lm_lock *l = p;
	int i;
	(void)locktype;
	for (i = 0; i < nheld; i++)
		if (held[i].l == l) {
			lm_violation("lock %p freed while held (depth %d)", p, held[i].depth);
			/* drop it from the ledger so later accounting stays meaningful */
			pthread_mutex_unlock(&l->m);
			held[i] = held[--nheld];
			break;
		}
	l->magic = 0;
	pthread_mutex_destroy(&l->m);
	free(l);
}
static int lm_lock(unsigned mode, void *p)
{
	struct lm_lock *l = p;
	int i, r;
	for (i = 0; i < nheld; i++) if (held[i].l == l) break;
	if (i < nheld && !l->recursive) {
		lm_violation("re-lock of non-recursive lock %p by its holder", p);
		return 0; /* do not deadlock the harness; pretend success without re-locking */
	}
	maybe_delay();
	if (mode & EVTHREAD_TRY) {
		/* injected contention: a try-lock of a lock this thread does not hold fails as if another thread owned it */
		if (lm_fail_trylock > 0 && i == nheld) { lm_fail_trylock--; __atomic_add_fetch(&lm_trylock_failed, 1, __ATOMIC_RELAXED); return 16 /* EBUSY */; }
		r = pthread_mutex_trylock(&l->m);
		if (r) return r;
	} else {
		pthread_mutex_lock(&l->m);
	}
	if (i < nheld) held[i].depth++;
	else if (nheld < MAXHELD) { held[nheld].l = l; held[nheld].depth = 1; nheld++; }
	last_taken = l;
	__atomic_add_fetch(&lm_nlocks_taken, 1, __ATOMIC_RELAXED);
	return 0;
}
static int lm_unlock(unsigned mode, void *p)
{
	struct lm_lock *l = p;
	int i;
	(void)mode;
	for (i = 0; i < nheld; i++) if (held[i].l == l) break;
	if (i == nheld) {
		lm_violation("unlock of lock %p not held by this thread", p);
		return 0;
	}
	if (--held[i].depth == 0) held[i] = held[--nheld];
	pthread_mutex_unlock(&l->m);
	maybe_delay();
	return 0;
}
static void *lm_cond_alloc(unsigned t) { pthread_cond_t *c = malloc(sizeof(*c)); (void)t; if (c) pthread_cond_init(c, NULL); return c; }
static void lm_cond_free(void *c) { pthread_cond_destroy(c); free(c); }
static int lm_cond_signal(void *c, int broadcast)
{
	return broadcast ? pthread_cond_broadcast(c) : pthread_cond_signal(c);
}
static int lm_cond_wait(void *c, void *lock, const struct timeval *tv)
{
	struct lm_lock *l = lock;
	int i, r;
	for (i = 0; i < nheld; i++) if (held[i].l == l) break;
	if (i == nheld) { lm_violation("cond_wait with lock %p not held", lock); return -1; }
	if (tv) {
		struct timespec ts;
		int __real_clock_gettime(clockid_t, struct timespec *);
		__real_clock_gettime(CLOCK_REALTIME, &ts);
		ts.tv_sec += tv->tv_sec; ts.tv_nsec += tv->tv_usec * 1000;
		if (ts.tv_nsec >= 1000000000) { ts.tv_sec++; ts.tv_nsec -= 1000000000; }
		r = pthread_cond_timedwait(c, &l->m, &ts);
		return r == 0 ? 0 : (r == 110 /*ETIMEDOUT*/ ? 1 : -1);
	}
	r = pthread_cond_wait(c, &l->m);
	return r ? -1 : 0;
}
static unsigned long lm_id(void) { return (unsigned long)pthread_self(); }

void lm_install(void)
{
	struct evthread_lock_callbacks lc = { EVTHREAD_LOCK_API_VERSION,
		EVTHREAD_LOCKTYPE_RECURSIVE, lm_alloc, lm_free, lm_lock, lm_unlock };
	struct evthread_condition_callbacks cc = { EVTHREAD_CONDITION_API_VERSION,
		lm_cond_alloc, lm_cond_free, lm_cond_signal, lm_cond_wait };
	evthread_set_lock_callbacks(&lc);
	evthread_set_condition_callbacks(&cc);
	evthread_set_id_callback(lm_id);
}
