/* Allocation monitor installed through event_set_mem_functions(): census of
 * live blocks, countdown failure injection, realloc that always moves. */
#include "vh.h"
#include <event2/event.h>

long mf_live_blocks, mf_live_bytes, mf_total_allocs;
long mf_fail_at, mf_fail_every_after, mf_failed;
static long ordinal;
#define MF_MAGIC 0x6d66a110c8ed0001ULL
struct mf_hdr { uint64_t magic; size_t size; };

static int should_fail(void)
{
	ordinal++;
	if ((mf_fail_at && ordinal == mf_fail_at) || (mf_fail_every_after && ordinal >= mf_fail_every_after)) {
		mf_failed++;
		return 1;
	}
	return 0;
}
static void *mf_malloc(size_t sz)
{
	struct mf_hdr *h;
	if (should_fail()) return NULL;
	h = malloc(sizeof(*h) + sz);
	if (!h) return NULL;
	h->magic = MF_MAGIC; h->size = sz;
	__atomic_add_fetch(&mf_live_blocks, 1, __ATOMIC_RELAXED);
	__atomic_add_fetch(&mf_live_bytes, (long)sz, __ATOMIC_RELAXED);
	__atomic_add_fetch(&mf_total_allocs, 1, __ATOMIC_RELAXED);
	return h + 1;
}
static void mf_free(void *p)
{
	struct mf_hdr *h;
	if (!p) return;
	h = (struct mf_hdr *)p - 1;
	if (h->magic != MF_MAGIC) {
		vh_viol("memfault:bad-free", "free of pointer %p not allocated by the library allocator (or freed twice)", p);
		return;
	}
	h->magic = 0;
	__atomic_sub_fetch(&mf_live_blocks, 1, __ATOMIC_RELAXED);
	__atomic_sub_fetch(&mf_live_bytes, (long)h->size, __ATOMIC_RELAXED);
	free(h);
}
static void *mf_realloc(void *p, size_t sz)
{
	struct mf_hdr *h;
	void *n;
	if (!p) return mf_malloc(sz);
	if (sz == 0) { mf_free(p); return NULL; }
	h = (struct mf_hdr *)p - 1;
	n = mf_malloc(sz);           /* always move: stale pointers die under ASan */
	if (!n) return NULL;
	memcpy(n, p, h->size < sz ? h->size : sz);
	mf_free(p);
	return n;
}
void mf_install(void) { event_set_mem_functions(mf_malloc, mf_realloc, mf_free); }
void mf_arm(long nth) { ordinal = 0; mf_fail_at = nth; mf_fail_every_after = 0; }
long mf_ordinal(void) { return ordinal; }
