/* h_core: lockstep reference model of the event loop (C01 timers, C02 state
 * machine, C03 priorities/loop control, C45 watchers).
 *
 * The harness generates API histories on the fly from the case PRNG, applies
 * every operation to the real event_base and to the model M, compares every
 * queryable observable after each operation, and follows event_base_loop()
 * in lockstep: every observable point of the loop (prepare watcher, backend
 * wait with its timeout, check watcher, user callback with its result flags,
 * loop return value) is matched against what the model says must come next.
 * Where the documentation leaves order open (I/O readiness reported in one
 * dispatch; timers with equal deadlines) the model accepts any permutation
 * inside the group.
 *
 * CALIBRATED choices (behaviour of the current tree the docs do not pin):
 *  - the loop's time cache (deadlines/timeouts computed from the time read
 *    after the last dispatch; EVENT_BASE_FLAG_NO_CACHE_TIME disables it)
 *  - event_add on an event that is ACTIVE/ACTIVE_LATER does not (re)register I/O
 *  - EVLOOP_NONBLOCK keeps iterating until no callback is active
 *  - EVENT_BASE_COUNT_ADDED counts queue memberships of non-internal events
 *  - ncalls of event_active is honoured for signal events only
 */
#include "vh.h"
#include <unistd.h>
#include <fcntl.h>
#include <errno.h>
#include <signal.h>
#include <limits.h>
#include <event2/event.h>
#include <event2/event_struct.h>
#include <event2/watch.h>
#include "event-internal.h"
#include "defer-internal.h"

ssize_t __real_read(int, void *, size_t);
ssize_t __real_write(int, const void *, size_t);

/* ------------------------------------------------------------------ model */
#define NUSER 8
#define NHID  4              /* hidden loopexit once-events */
#define NDEF  40             /* deferred callbacks */
#define NCTL  3              /* common-timeout queues */
#define NSLOT (NUSER + NHID + NDEF + NCTL)
#define S_HID0 NUSER
#define S_DEF0 (NUSER + NHID)
#define S_CTL0 (NUSER + NHID + NDEF)
#define NPIPE 3
#define NWATCH 8
#define MAXPRI 6

enum { K_NONE, K_TIMER, K_READ, K_WRITE, K_SIGNAL, K_EXIT, K_DEFER, K_CTL };
enum { F_INS = 1, F_TMO = 2, F_ACT = 4, F_LATER = 8 };

struct mev {
	int kind, persist, pri, pipe, sig, internal;
	unsigned fl;
	short res;
	int ncalls;
	int64_t deadline, interval;  /* us; interval 0 = none */
	int common;                  /* common-timeout index of the pending timeout or -1 */
	int icommon;                 /* common index of the persist interval or -1 */
	uint64_t grp;                /* activation group (order inside a group is free) */
	uint64_t seq;                /* active/later queue order */
	uint64_t tseq;               /* insertion order in a common-timeout queue */
	struct event *ev;            /* real object (user + signal events) */
};
struct mwatch { int live, check, born_pass, freed_pass; struct evwatch *w; };

static struct {
	struct mev e[NSLOT];
	int npri, nocache, flags_loop;
	int64_t cache;
	int64_t maxd_time; int maxd_cb, limit_after;  /* max_dispatch_interval cfg; maxd_time<0 none */
	int count, active, count_max, active_max;
	int max_uncertain;           /* a group of equal-deadline timers was processed: peak depends on the (unspecified) order */
	int count_max_hi;            /* upper bound for ADDED max: internal insertions also refresh the maximum */
	int brk, gotterm, cont, ndefer, running_pri;
	int in_loop, phase, done;
	int64_t wait_to;             /* timeout the loop must hand to the backend (us, -1 inf) */
	int64_t endtime; int have_end;
	int level, qcount, c, lim_cb; int lim_on;
	int sig_slot, sig_left;      /* running signal ncalls loop */
	int nctl; int64_t ctl_dur[NCTL]; const struct timeval *ctl_tv[NCTL];
	uint64_t seqgen, grpgen;
	int pipe_bytes[NPIPE];
	struct mwatch w[NWATCH]; int worder[NWATCH]; int nworder; /* creation order list of live ids */
	int witer_pos_valid; int witer;  /* id of the watcher expected next or -1 */
	int wpass;
	int lost;                    /* lockstep lost after a violation: stop judging this case */
	int abandoned;
	int backend;                 /* VW_* */
} M;

enum { PH_IDLE, PH_TOP, PH_PREP, PH_WAIT, PH_AFTERWAIT, PH_CHECK, PH_PICK, PH_LEVEL, PH_QUEUE, PH_AFTERCB,
       PH_SIGLOOP, PH_LEVELDONE, PH_ENDACTIVE, PH_EXIT };
enum { X_NONE, X_WAIT, X_PREP, X_CHECK, X_CB, X_RETURN };
static struct { int kind; int64_t timeout; int wid; int retval; int cand[NSLOT]; int ncand; } EXP;

/* ------------------------------------------------------------------ real side */
static struct event_base *base;
static int pipes[NPIPE][2];
static const char *mode;
static int in_callback_depth;
static vh_rng *R;
static long nobs_in_loop, obs_cap = 300;
static int verbose;
static struct event_callback dcb[NDEF];
static long stat_cb, stat_timer_fired, stat_cancel_before_deadline, stat_persist_rearm, stat_common_fired,
	stat_waits, stat_tie_groups, stat_io_cb, stat_later_promoted, stat_over_quota, stat_break, stat_exit,
	stat_continue, stat_prio_preempt, stat_watch_cb, stat_watch_free_in_cb, stat_queries, stat_sigloop;

#define VLOG(...) do { if (verbose) { fprintf(stderr, "[%ld] ", vh_cur_case); fprintf(stderr, __VA_ARGS__); fprintf(stderr, "\n"); } } while (0)

static int64_t vnow(void) { return vclk_mono_us; }
static int64_t m_gettime(void) { return M.cache ? M.cache : vnow(); }
static int m_nactive(void) { return M.active; }
static int m_haveevents(void) { return M.count > 0; }

static void viol(const char *key, const char *fmt, ...)
{
	char buf[1024]; va_list ap;
	if (M.lost) return;
	va_start(ap, fmt); vsnprintf(buf, sizeof(buf), fmt, ap); va_end(ap);
	vh_viol(key, "%s", buf);
	M.lost = 1;
	/* get the real loop out as soon as possible */
	if (base && M.in_loop) event_base_loopbreak(base);
}

/* ---- queue bookkeeping (mirrors INCR/DECR_EVENT_COUNT) */
static void cnt_inc(struct mev *e) { if (!e->internal) M.count++; if (M.count > M.count_max) M.count_max = M.count; if (M.count > M.count_max_hi) M.count_max_hi = M.count; }
static void cnt_dec(struct mev *e) { if (!e->internal) M.count--; }
static void act_inc(void) { M.active++; if (M.active > M.active_max) M.active_max = M.active; }

static void q_ins_inserted(struct mev *e) { cnt_inc(e); e->fl |= F_INS; }
static void q_rm_inserted(struct mev *e) { cnt_dec(e); e->fl &= ~F_INS; }
static void q_ins_active(struct mev *e, uint64_t grp)
{
	if (e->fl & F_ACT) return;
	cnt_inc(e); e->fl |= F_ACT; act_inc();
	e->seq = ++M.seqgen; e->grp = grp ? grp : ++M.grpgen;
}
static void q_rm_active(struct mev *e) { cnt_dec(e); e->fl &= ~F_ACT; M.active--; }
static void q_ins_later(struct mev *e)
{
	if (e->fl & (F_ACT | F_LATER)) return;
	cnt_inc(e); e->fl |= F_LATER; act_inc(); e->seq = ++M.seqgen; e->grp = ++M.grpgen;
}
static void q_rm_later(struct mev *e) { cnt_dec(e); e->fl &= ~F_LATER; M.active--; }

static void m_add_abs(struct mev *e, int64_t deadline, int common);
static void ctl_schedule(int k)
{
	/* (re)arm the internal event of common queue k for the deadline of its head */
	int i, head = -1;
	for (i = 0; i < NSLOT; i++) {
		struct mev *x = &M.e[i];
		if (x->kind && (x->fl & F_TMO) && x->common == k &&
		    (head < 0 || x->deadline < M.e[head].deadline || (x->deadline == M.e[head].deadline && x->tseq < M.e[head].tseq)))
			head = i;
	}
	if (head >= 0) m_add_abs(&M.e[S_CTL0 + k], M.e[head].deadline, -1);
}
static int ctl_is_head(struct mev *e)
{
	int i;
	for (i = 0; i < NSLOT; i++) {
		struct mev *x = &M.e[i];
		if (x == e || !x->kind || !(x->fl & F_TMO) || x->common != e->common) continue;
		if (x->deadline < e->deadline || (x->deadline == e->deadline && x->tseq < e->tseq)) return 0;
	}
	return 1;
}
static void q_rm_timeout(struct mev *e) { cnt_dec(e); e->fl &= ~F_TMO; }
static void q_ins_timeout(struct mev *e, int64_t deadline, int common)
{
	cnt_inc(e); e->fl |= F_TMO; e->deadline = deadline; e->common = common;
	e->tseq = ++M.seqgen;     /* common queue: inserted after every entry with deadline <= ours */
}

/* event_del_nolock_ */
static void m_del(struct mev *e)
{
	if (e->kind == K_SIGNAL && M.sig_slot == (int)(e - M.e)) M.sig_left = 0;   /* abort running ncalls loop */
	if (e->fl & F_TMO) q_rm_timeout(e);
	if (e->fl & F_ACT) q_rm_active(e);
	else if (e->fl & F_LATER) q_rm_later(e);
	if (e->fl & F_INS) q_rm_inserted(e);
}
/* timer half of event_add_nolock_ with an absolute deadline (or computed by caller) */
static void m_add_abs(struct mev *e, int64_t deadline, int common)
{
	if (e->fl & F_TMO) q_rm_timeout(e);
	if ((e->fl & F_ACT) && (e->res & EV_TIMEOUT)) {
		if (e->kind == K_SIGNAL && M.sig_slot == (int)(e - M.e)) M.sig_left = 0;
		q_rm_active(e);
	}
	q_ins_timeout(e, deadline, common);
	if (common >= 0) { if (ctl_is_head(e)) ctl_schedule(common); }
}
/* event_add(ev, tv): tv_us<0 means NULL */
static void m_add(struct mev *e, int64_t tv_us, int common)
{
	if ((e->kind == K_READ || e->kind == K_WRITE || e->kind == K_SIGNAL) && !(e->fl & (F_INS | F_ACT | F_LATER)))
		q_ins_inserted(e);
	if (tv_us >= 0) {
		if (e->persist) { e->interval = tv_us; e->icommon = common; }
		if (e->fl & F_TMO) q_rm_timeout(e);
		if ((e->fl & F_ACT) && (e->res & EV_TIMEOUT)) {
			if (e->kind == K_SIGNAL && M.sig_slot == (int)(e - M.e)) M.sig_left = 0;
			q_rm_active(e);
		}
		q_ins_timeout(e, m_gettime() + tv_us, common);
		if (common >= 0) { if (ctl_is_head(e)) ctl_schedule(common); }
	}
}
/* event_active_nolock_ */
static void m_active(struct mev *e, short res, int ncalls, uint64_t grp)
{
	switch (e->fl & (F_ACT | F_LATER)) {
	case F_ACT: e->res |= res; return;
	case F_LATER: e->res |= res; break;
	default: e->res = res; break;
	}
	if (e->pri < M.running_pri) M.cont = 1;
	if (e->kind == K_SIGNAL) e->ncalls = ncalls;
	if (e->fl & F_LATER) q_rm_later(e);
	q_ins_active(e, grp);
}
static void m_active_later(struct mev *e, short res)
{
	if (e->fl & (F_ACT | F_LATER)) { e->res |= res; return; }
	e->res = res;
	q_ins_later(e);
}
static void m_remove_timer(struct mev *e)
{
	if (e->fl & F_TMO) { q_rm_timeout(e); e->interval = 0; e->icommon = -1; }
}

/* earliest pending heap deadline (non-common timers + ctl internal events) */
static int heap_top(void)
{
	int i, best = -1;
	for (i = 0; i < NSLOT; i++) {
		struct mev *x = &M.e[i];
		if (!x->kind || !(x->fl & F_TMO) || x->common >= 0) continue;
		if (best < 0 || x->deadline < M.e[best].deadline) best = i;
	}
	return best;
}
static void m_timeout_process(void)
{
	int64_t now = m_gettime();
	for (;;) {
		int i, n = 0, due[NSLOT];
		int top = heap_top();
		int64_t d;
		if (top < 0 || M.e[top].deadline > now) break;
		d = M.e[top].deadline;
		for (i = 0; i < NSLOT; i++) {
			struct mev *x = &M.e[i];
			if (x->kind && (x->fl & F_TMO) && x->common < 0 && x->deadline == d) due[n++] = i;
		}
		if (n > 1) { stat_tie_groups++; M.max_uncertain = 1; }
		{
			uint64_t g = ++M.grpgen;
			for (i = 0; i < n; i++) {
				struct mev *x = &M.e[due[i]];
				if (!(x->fl & (F_ACT | F_LATER))) m_del(x); else q_rm_timeout(x);
				m_active(x, EV_TIMEOUT, 1, g);
			}
		}
	}
}
static void m_ctl_callback(int k)
{
	int64_t now = m_gettime();
	for (;;) {
		int i, head = -1;
		for (i = 0; i < NSLOT; i++) {
			struct mev *x = &M.e[i];
			if (x->kind && (x->fl & F_TMO) && x->common == k &&
			    (head < 0 || x->deadline < M.e[head].deadline || (x->deadline == M.e[head].deadline && x->tseq < M.e[head].tseq)))
				head = i;
		}
		if (head < 0) return;
		if (M.e[head].deadline > now) { m_add_abs(&M.e[S_CTL0 + k], M.e[head].deadline, -1); return; }
		{
			struct mev *x = &M.e[head];
			if (!(x->fl & (F_ACT | F_LATER))) m_del(x); else q_rm_timeout(x);
			m_active(x, EV_TIMEOUT, 1, 0);
			stat_common_fired++;
		}
	}
}
static void m_make_later_active(void)
{
	for (;;) {
		int i, first = -1;
		for (i = 0; i < NSLOT; i++)
			if (M.e[i].kind && (M.e[i].fl & F_LATER) && (first < 0 || M.e[i].seq < M.e[first].seq)) first = i;
		if (first < 0) return;
		M.e[first].fl = (M.e[first].fl & ~F_LATER) | F_ACT;
		M.e[first].seq = ++M.seqgen; M.e[first].grp = ++M.grpgen;
		if (M.e[first].kind == K_DEFER) M.ndefer++;
		stat_later_promoted++;
	}
}
/* head group of the active queue of priority p into EXP.cand */
static int queue_head_group(int p)
{
	int i, head = -1, n = 0;
	for (i = 0; i < NSLOT; i++)
		if (M.e[i].kind && (M.e[i].fl & F_ACT) && M.e[i].pri == p && (head < 0 || M.e[i].seq < M.e[head].seq)) head = i;
	if (head < 0) return 0;
	/* members of the head's group are contiguous at the head by construction */
	EXP.cand[n++] = head;
	for (i = 0; i < NSLOT; i++)
		if (i != head && M.e[i].kind && (M.e[i].fl & F_ACT) && M.e[i].pri == p && M.e[i].grp == M.e[head].grp) EXP.cand[n++] = i;
	EXP.ncand = n;
	return n;
}
static int queue_nonempty(int p)
{
	int i;
	for (i = 0; i < NSLOT; i++) if (M.e[i].kind && (M.e[i].fl & F_ACT) && M.e[i].pri == p) return 1;
	return 0;
}
static int wnext_after(int id, int check)
{
	/* next live watcher of the same kind after `id` in creation order; id<0: first */
	int i, seen = id < 0;
	for (i = 0; i < M.nworder; i++) {
		int w = M.worder[i];
		if (!seen) { if (w == id) seen = 1; continue; }
		if (M.w[w].live && M.w[w].check == check) return w;
	}
	return -1;
}

static void free_hidden(struct mev *e) { memset(e, 0, sizeof(*e)); }

/* pre-callback transitions of event_process_active_single_queue for slot s */
static void m_begin_callback(int s)
{
	struct mev *e = &M.e[s];
	if (e->kind == K_DEFER) { q_rm_active(e); }
	else if (e->persist) q_rm_active(e);
	else m_del(e);
	if (!e->internal) M.qcount++;
	if (e->kind == K_SIGNAL) {
		M.sig_slot = s; M.sig_left = e->ncalls;
	} else if (e->persist) {
		if (e->interval) {
			int64_t now = m_gettime(), rel = (e->res & EV_TIMEOUT) ? e->deadline : now, run_at = rel + e->interval;
			if (run_at < now) run_at = now + e->interval;
			/* event_add_nolock_(ev, &run_at, absolute) */
			if ((e->kind == K_READ || e->kind == K_WRITE) && !(e->fl & (F_INS | F_ACT | F_LATER))) q_ins_inserted(e);
			m_add_abs(e, run_at, e->icommon);
			stat_persist_rearm++;
		}
	}
}

/* advance the model through silent steps to its next observable expectation */
static void m_advance(void)
{
	EXP.kind = X_NONE;
	for (;;) {
		switch (M.phase) {
		case PH_IDLE: return;
		case PH_TOP:
			M.cont = 0; M.ndefer = 0;
			if (M.gotterm || M.brk) { M.phase = PH_EXIT; EXP.retval = 0; break; }
			if (!m_nactive() && !(M.flags_loop & EVLOOP_NONBLOCK)) {
				int top = heap_top();
				if (top < 0) M.wait_to = -1;
				else { int64_t d = M.e[top].deadline - m_gettime(); M.wait_to = d < 0 ? 0 : d; }
			} else M.wait_to = 0;
			if (!(M.flags_loop & EVLOOP_NO_EXIT_ON_EMPTY) && !m_haveevents() && !m_nactive()) {
				M.phase = PH_EXIT; EXP.retval = 1; break;
			}
			m_make_later_active();
			M.wpass++;
			M.witer = wnext_after(-1, 0);
			M.phase = PH_PREP;
			break;
		case PH_PREP:
			if (M.witer >= 0) { EXP.kind = X_PREP; EXP.wid = M.witer; EXP.timeout = M.wait_to; return; }
			M.cache = 0;
			M.phase = PH_WAIT;
			EXP.kind = X_WAIT; EXP.timeout = M.wait_to;
			return;
		case PH_WAIT:
			EXP.kind = X_WAIT; EXP.timeout = M.wait_to; return;
		case PH_AFTERWAIT: {
			int i; uint64_t g = ++M.grpgen;
			for (i = 0; i < NUSER; i++) {
				struct mev *e = &M.e[i];
				if (!e->kind || !(e->fl & F_INS)) continue;
				if (e->kind == K_READ && M.pipe_bytes[e->pipe] > 0) m_active(e, EV_READ, 1, g);
				else if (e->kind == K_WRITE) m_active(e, EV_WRITE, 1, g);
			}
			M.cache = 0;
			if (!M.nocache) M.cache = vnow();
			M.wpass++;
			M.witer = wnext_after(-1, 1);
			M.phase = PH_CHECK;
			break;
		}
		case PH_CHECK:
			if (M.witer >= 0) { EXP.kind = X_CHECK; EXP.wid = M.witer; return; }
			m_timeout_process();
			if (m_nactive()) M.phase = PH_PICK;
			else { if (M.flags_loop & EVLOOP_NONBLOCK) M.done = 1; M.phase = M.done ? PH_EXIT : PH_TOP; EXP.retval = 0; }
			break;
		case PH_PICK:
			M.have_end = 0;
			if (M.maxd_time >= 0) {
				M.cache = 0; if (!M.nocache) M.cache = vnow();
				M.endtime = m_gettime() + M.maxd_time; M.have_end = 1;
			}
			M.level = 0; M.c = 0;
			M.phase = PH_LEVEL;
			break;
		case PH_LEVEL: {
			int i, found = -1;
			for (i = M.level; i < M.npri; i++) if (queue_nonempty(i)) { found = i; break; }
			if (found < 0) { M.phase = PH_ENDACTIVE; break; }
			M.running_pri = found; M.qcount = 0;
			M.lim_on = found >= M.limit_after;
			M.phase = PH_QUEUE;
			break;
		}
		case PH_QUEUE: {
			int n = queue_head_group(M.running_pri), i, silent = 0;
			if (!n) { M.c = M.qcount; M.phase = PH_LEVELDONE; break; }
			for (i = 0; i < n; i++) if (M.e[EXP.cand[i]].kind == K_EXIT || M.e[EXP.cand[i]].kind == K_CTL) silent++;
			if (silent && n > 1) { M.abandoned = 1; M.lost = 1; EXP.kind = X_NONE; if (base) event_base_loopbreak(base); M.phase = PH_IDLE; return; }
			if (silent) {
				int s = EXP.cand[0];
				int kind = M.e[s].kind;
				m_begin_callback(s);
				if (kind == K_EXIT) { M.gotterm = 1; stat_exit++; free_hidden(&M.e[s]); }
				else m_ctl_callback(s - S_CTL0);
				M.phase = PH_AFTERCB;
				break;
			}
			EXP.kind = X_CB;
			return;
		}
		case PH_SIGLOOP:
			if (M.brk) M.sig_left = 0;      /* the ncalls loop stops at event_break */
			if (M.sig_left > 0) { EXP.kind = X_CB; EXP.ncand = 1; EXP.cand[0] = M.sig_slot; return; }
			M.sig_slot = -1;
			M.phase = PH_AFTERCB;
			break;
		case PH_AFTERCB:
			if (M.brk) { M.c = -1; stat_break++; M.phase = PH_ENDACTIVE; break; }
			if (M.lim_on && M.qcount >= M.maxd_cb) { M.c = M.qcount; if (queue_nonempty(M.running_pri)) stat_over_quota++; M.phase = PH_LEVELDONE; break; }
			if (M.lim_on && M.qcount && M.have_end) {
				M.cache = 0; if (!M.nocache) M.cache = vnow();
				if (m_gettime() >= M.endtime) { M.c = M.qcount; if (queue_nonempty(M.running_pri)) stat_over_quota++; M.phase = PH_LEVELDONE; break; }
			}
			if (M.cont) { M.c = M.qcount; stat_continue++; M.phase = PH_LEVELDONE; break; }
			M.phase = PH_QUEUE;
			break;
		case PH_LEVELDONE:
			if (M.c > 0) { M.phase = PH_ENDACTIVE; break; }
			M.level = M.running_pri + 1;
			M.phase = PH_LEVEL;
			break;
		case PH_ENDACTIVE:
			M.running_pri = -1;
			if ((M.flags_loop & EVLOOP_ONCE) && m_nactive() == 0 && M.c != 0) M.done = 1;
			EXP.retval = 0;
			M.phase = M.done ? PH_EXIT : PH_TOP;
			break;
		case PH_EXIT:
			EXP.kind = X_RETURN;
			return;
		}
	}
}

/* ------------------------------------------------------------------ comparison of queryable state */
static const char *kname(int k) { static const char *n[] = {"none","timer","read","write","signal","exit","defer","ctl"}; return n[k]; }

static void compare_state(const char *where)
{
	int i;
	static const unsigned combos[7] = { EVENT_BASE_COUNT_ACTIVE, EVENT_BASE_COUNT_VIRTUAL, EVENT_BASE_COUNT_ADDED,
		EVENT_BASE_COUNT_ACTIVE | EVENT_BASE_COUNT_VIRTUAL, EVENT_BASE_COUNT_ACTIVE | EVENT_BASE_COUNT_ADDED,
		EVENT_BASE_COUNT_VIRTUAL | EVENT_BASE_COUNT_ADDED, EVENT_BASE_COUNT_ACTIVE | EVENT_BASE_COUNT_VIRTUAL | EVENT_BASE_COUNT_ADDED };
	if (M.lost || !base) return;
	for (i = 0; i < NUSER; i++) {
		struct mev *e = &M.e[i];
		struct timeval tv = { -7, -7 };
		short want = 0, got;
		if (!e->kind || !e->ev) continue;
		if (e->fl & F_INS) want |= (e->kind == K_READ ? EV_READ : e->kind == K_WRITE ? EV_WRITE : e->kind == K_SIGNAL ? EV_SIGNAL : 0);
		if (e->fl & (F_ACT | F_LATER)) want |= e->res;
		if (e->fl & F_TMO) want |= EV_TIMEOUT;
		want &= (EV_TIMEOUT | EV_READ | EV_WRITE | EV_CLOSED | EV_SIGNAL);
		got = (short)event_pending(e->ev, EV_TIMEOUT | EV_READ | EV_WRITE | EV_CLOSED | EV_SIGNAL, &tv);
		stat_queries++;
		if (got != want) {
			viol("C02:event-pending-flags", "%s: event %d (%s%s) event_pending=0x%x model=0x%x (model flags %x)", where, i,
			     kname(e->kind), e->persist ? ",persist" : "", got, want, e->fl);
			return;
		}
		if (e->fl & F_TMO) {   /* expiry is only meaningful while a timeout is pending */
			int64_t t = (int64_t)tv.tv_sec * 1000000 + tv.tv_usec, w = e->deadline + vclk_wall_off_us;
			if (t != w) { viol("C02:event-pending-expiry", "%s: event %d expiry reported %lld want %lld (deadline %lld)", where, i, (long long)t, (long long)w, (long long)e->deadline); return; }
		}
		if (!event_initialized(e->ev)) { viol("C02:event-initialized", "%s: event %d not initialized", where, i); return; }
		if (event_get_priority(e->ev) != e->pri) { viol("C02:event-priority", "%s: event %d priority %d model %d", where, i, event_get_priority(e->ev), e->pri); return; }
	}
	for (i = 0; i < 7; i++) {
		int want = ((combos[i] & EVENT_BASE_COUNT_ACTIVE) ? M.active : 0) + ((combos[i] & EVENT_BASE_COUNT_ADDED) ? M.count : 0);
		int got = event_base_get_num_events(base, combos[i]);
		if (got != want) { viol("C02:num-events", "%s: get_num_events(0x%x)=%d model=%d (active %d added %d)", where, combos[i], got, want, M.active, M.count); return; }
	}
	{
		int clear = vh_chance(R, 1, 12);
		int ga = event_base_get_max_events(base, EVENT_BASE_COUNT_ACTIVE, 0);
		int gc = event_base_get_max_events(base, EVENT_BASE_COUNT_ADDED, 0);
		if (verbose > 1) fprintf(stderr, "     %s: real added=%d max=%d | model added=%d max=%d hi=%d\n", where, event_base_get_num_events(base, EVENT_BASE_COUNT_ADDED), gc, M.count, M.count_max, M.count_max_hi);
		if (ga != M.active_max) { viol("C02:max-events", "%s: get_max_events(ACTIVE)=%d model=%d", where, ga, M.active_max); return; }
		/* CALIBRATED: insertions of internal events (signal pipe) also refresh the ADDED maximum to the current count */
		if (gc > M.count_max && gc <= M.count_max_hi) M.count_max = gc;
		if (M.max_uncertain && gc <= M.count_max_hi) { M.count_max = gc; M.max_uncertain = 0; }
		if (gc != M.count_max) { viol("C02:max-events", "%s: get_max_events(ADDED)=%d model=%d (hi %d)", where, gc, M.count_max, M.count_max_hi); return; }
		if (clear) {
			event_base_get_max_events(base, EVENT_BASE_COUNT_ACTIVE | EVENT_BASE_COUNT_ADDED, 1);
			M.active_max = 0; M.count_max = 0; M.count_max_hi = M.count;
		}
	}
	event_base_assert_ok_(base);
}

/* ------------------------------------------------------------------ observations */
static void gen_ops(int n_max, int in_cb);
static int enum_mode, enum_variant;
static void enum_callback_action(int s);

static int64_t backend_timeout(int64_t us)
{
	if (us < 0) return -1;
	if (M.backend == VW_POLL) {
		int64_t ms = (us + 999) / 1000;
		if (ms > INT_MAX) ms = INT_MAX;
		return ms * 1000;
	}
	return us;
}
static const char *expname(void)
{
	static char b[256];
	switch (EXP.kind) {
	case X_WAIT: snprintf(b, sizeof(b), "wait(timeout=%lld)", (long long)EXP.timeout); break;
	case X_PREP: snprintf(b, sizeof(b), "prepare-watcher %d", EXP.wid); break;
	case X_CHECK: snprintf(b, sizeof(b), "check-watcher %d", EXP.wid); break;
	case X_CB: { int i, o = snprintf(b, sizeof(b), "callback of one of {"); for (i = 0; i < EXP.ncand && o < 200; i++) o += snprintf(b + o, sizeof(b) - o, "%d(%s,res=0x%x,pri=%d) ", EXP.cand[i], kname(M.e[EXP.cand[i]].kind), M.e[EXP.cand[i]].res, M.e[EXP.cand[i]].pri); snprintf(b + o, sizeof(b) - o, "}"); break; }
	case X_RETURN: snprintf(b, sizeof(b), "loop return %d", EXP.retval); break;
	default: snprintf(b, sizeof(b), "nothing"); break;
	}
	return b;
}
/* classify a mismatch where the model expected EXP but `what` was observed */
static void mismatch(const char *what, int obs_slot, short obs_res)
{
	const char *key = "C03:loop-sequence";
	if (EXP.kind == X_CB) {
		int i, timer = 0;
		for (i = 0; i < EXP.ncand; i++) if (M.e[EXP.cand[i]].res & EV_TIMEOUT) timer = 1;
		key = timer ? "C01:timer-late-or-missing" : "C03:callback-missing";
		if (obs_slot >= 0 && M.e[obs_slot].kind && (M.e[obs_slot].fl & F_ACT)) key = "C03:callback-order";
	}
	if (obs_slot >= 0 && (obs_res & EV_TIMEOUT) && !(M.e[obs_slot].kind && (M.e[obs_slot].fl & F_ACT) && (M.e[obs_slot].res & EV_TIMEOUT)))
		key = (M.e[obs_slot].kind && (M.e[obs_slot].fl & F_TMO)) ? "C01:timer-early" : "C01:timer-unexpected";
	else if (obs_slot >= 0 && !(M.e[obs_slot].kind && (M.e[obs_slot].fl & F_ACT)))
		key = "C02:unexpected-callback";
	if (EXP.kind == X_PREP || EXP.kind == X_CHECK) key = "C45:watcher-sequence";
	viol(key, "observed %s but the model expects %s (vnow=%lld cache=%lld phase=%d)", what, expname(), (long long)vnow(), (long long)M.cache, M.phase);
}

static void forced_break(void)
{
	/* bound runaway loops (always-ready persistent events, NO_EXIT_ON_EMPTY, waits that would never end) */
	if (M.lost) return;
	event_base_loopbreak(base);
	M.brk = 1;
	vh_stat("forced_breaks");
}


/* A watcher created while the loop is walking the list of its own kind may
 * or may not be visited in that same walk (either): if the model expects such
 * a watcher but something else is observed, skip it. */
static void skip_optional_watchers(int obs_kind, int obs_wid)
{
	while ((EXP.kind == X_PREP || EXP.kind == X_CHECK) && M.w[EXP.wid].born_pass == M.wpass &&
	       !(obs_kind == EXP.kind && obs_wid == EXP.wid)) {
		M.witer = wnext_after(EXP.wid, EXP.kind == X_CHECK);
		m_advance();
	}
}
static void on_wait(int kind, int64_t timeout_us, void *a, void *b, void *c, int n)
{
	(void)a; (void)b; (void)c; (void)n;
	if (!M.in_loop || M.lost) return;
	M.backend = kind;
	stat_waits++;
	m_advance();
	skip_optional_watchers(X_WAIT, -1);
	VLOG("  >> wait %lld (expect %s)", (long long)timeout_us, expname());
	if (EXP.kind != X_WAIT) { char w[64]; snprintf(w, sizeof(w), "wait(timeout=%lld)", (long long)timeout_us); mismatch(w, -1, 0); return; }
	if (timeout_us != backend_timeout(EXP.timeout)) {
		viol(timeout_us > backend_timeout(EXP.timeout) || timeout_us < 0 ? "C01:wait-timeout-too-long" : "C01:wait-timeout-too-short",
		     "backend asked to wait %lld us, model says %lld us (vnow=%lld cache-cleared)", (long long)timeout_us, (long long)backend_timeout(EXP.timeout), (long long)vnow());
		return;
	}
	compare_state("at-wait");
	M.phase = PH_AFTERWAIT;
	if (++nobs_in_loop > obs_cap) forced_break();
}
static void on_forever(void)
{
	if (!M.in_loop || M.lost) return;
	forced_break();
	vh_stat("would_block_forever");
}

static void user_callback_common(int s, short res)
{
	struct mev *e;
	int i, ok = 0;
	if (M.lost) return;
	m_advance();
	skip_optional_watchers(X_CB, -1);
	VLOG("  >> callback %d res=0x%x (expect %s)", s, res, expname());
	if (verbose > 1) { int q; for (q = 0; q < NUSER; q++) if (M.e[q].kind == K_SIGNAL && M.e[q].ev) fprintf(stderr, "     sig %d: ev_ncalls=%d ev_flags=0x%x ev_res=0x%x pncalls=%p\n", q, M.e[q].ev->ev_ncalls, M.e[q].ev->ev_flags, M.e[q].ev->ev_res, (void*)M.e[q].ev->ev_pncalls); }
	if (EXP.kind == X_CB) for (i = 0; i < EXP.ncand; i++) if (EXP.cand[i] == s) ok = 1;
	if (!ok) { char w[96]; snprintf(w, sizeof(w), "callback of %d (%s) res=0x%x", s, kname(M.e[s].kind), res); mismatch(w, s, res); return; }
	e = &M.e[s];
	if (res != e->res) { viol("C02:callback-result-flags", "callback of %d (%s) got res=0x%x model=0x%x", s, kname(e->kind), res, e->res); return; }
	stat_cb++;
	if (res & EV_TIMEOUT) stat_timer_fired++;
	if (res & (EV_READ | EV_WRITE)) stat_io_cb++;
	if (M.phase == PH_SIGLOOP) { M.sig_left--; stat_sigloop++; }
	else {
		if (EXP.ncand > 1) vh_stat("group_choice");
		m_begin_callback(s);
		if (e->kind == K_SIGNAL) { M.sig_left--; M.phase = PH_SIGLOOP; }
		else M.phase = PH_AFTERCB;
	}
	compare_state("callback-entry");
	in_callback_depth++;
	if (enum_mode) enum_callback_action(s);
	else if (!M.lost && vh_chance(R, 2, 3)) gen_ops(3, 1);
	in_callback_depth--;
	compare_state("callback-exit");
	if (++nobs_in_loop > obs_cap) forced_break();
}
static void ev_cb(evutil_socket_t fd, short res, void *arg) { (void)fd; user_callback_common((int)(intptr_t)arg, res); }
static void defer_cb(struct event_callback *cb, void *arg) { (void)cb; user_callback_common((int)(intptr_t)arg, 0); }

static void watcher_common(int id, int check, const struct evwatch_prepare_cb_info *info)
{
	if (M.lost) return;
	m_advance();
	skip_optional_watchers(check ? X_CHECK : X_PREP, id);
	VLOG("  >> %s watcher %d (expect %s)", check ? "check" : "prepare", id, expname());
	if (EXP.kind != (check ? X_CHECK : X_PREP) || EXP.wid != id) {
		/* a watcher created during this pass may or may not be visited in it (either) */
		char w[64]; snprintf(w, sizeof(w), "%s-watcher %d", check ? "check" : "prepare", id); mismatch(w, -1, 0); return;
	}
	stat_watch_cb++;
	if (!check) {
		struct timeval tv; int r = evwatch_prepare_get_timeout(info, &tv);
		int64_t got = r ? (int64_t)tv.tv_sec * 1000000 + tv.tv_usec : -1;
		if (got != EXP.timeout) { viol("C45:prepare-timeout", "prepare watcher %d reports timeout %lld, loop is about to use %lld", id, (long long)got, (long long)EXP.timeout); return; }
	}
	in_callback_depth++;
	M.witer = id;  /* while running */
	if (vh_chance(R, 2, 3)) gen_ops(2, 2 + check);
	in_callback_depth--;
	/* advance like TAILQ_FOREACH (self-freed watchers are excluded by the generator unless enabled) */
	M.witer = wnext_after(id, check);
	/* watchers created during this pass: visiting them is optional -> skip them in the expectation only if not live; handled in gen */
	if (++nobs_in_loop > obs_cap) forced_break();
}
static void prep_cb(struct evwatch *w, const struct evwatch_prepare_cb_info *info, void *arg) { (void)w; watcher_common((int)(intptr_t)arg, 0, info); }
static void check_cb(struct evwatch *w, const struct evwatch_check_cb_info *info, void *arg) { (void)w; (void)info; watcher_common((int)(intptr_t)arg, 1, NULL); }

/* ------------------------------------------------------------------ operations (real + model) */
static int pick_live_user(void)
{
	int i, n = 0, c[NUSER];
	for (i = 0; i < NUSER; i++) if (M.e[i].kind) c[n++] = i;
	return n ? c[vh_below(R, n)] : -1;
}
static int64_t pick_duration(int *common)
{
	static const int64_t d[] = {0, 0, 1, 1, 999, 1000, 1001, 2500, 10000, 10000, 50000, 1000000, 10000000, 3600000000LL, 2147483648000000LL};
	*common = -1;
	if (M.nctl && vh_chance(R, 1, 3)) { *common = (int)vh_below(R, M.nctl); return M.ctl_dur[*common]; }
	if (vh_chance(R, 1, 5)) return (int64_t)vh_below(R, 20000);
	return VH_PICK(R, d);
}
static void op_new(int s)
{
	struct mev *e = &M.e[s];
	int kind, persist, sig = 0, pipe = 0;
	static const int kinds[] = {K_TIMER, K_TIMER, K_TIMER, K_READ, K_READ, K_WRITE, K_SIGNAL};
	short evs = 0;
	int fd = -1;
	kind = VH_PICK(R, kinds);
	if (!strcmp(mode, "timers") && vh_chance(R, 2, 3)) kind = K_TIMER;
	persist = vh_chance(R, 1, 2);
	if (kind == K_SIGNAL) {
		int i; sig = vh_chance(R, 1, 2) ? SIGUSR1 : SIGUSR2;
		persist = 1; evs = EV_SIGNAL | EV_PERSIST; fd = sig;
		(void)i;
	} else if (kind == K_READ) { pipe = (int)vh_below(R, NPIPE); fd = pipes[pipe][0]; evs = EV_READ; }
	else if (kind == K_WRITE) { pipe = (int)vh_below(R, NPIPE); fd = pipes[pipe][1]; evs = EV_WRITE; }
	if (persist) evs |= EV_PERSIST;
	memset(e, 0, sizeof(*e));
	e->ev = event_new(base, fd, evs, ev_cb, (void *)(intptr_t)s);
	if (!e->ev) { vh_stat("event_new_failed"); return; }
	e->kind = kind; e->persist = persist; e->pipe = pipe; e->sig = sig; e->pri = M.npri / 2; e->common = e->icommon = -1;
	VLOG("new %d kind=%s persist=%d pipe=%d", s, kname(kind), persist, pipe);
}
static void op_free(int s)
{
	struct mev *e = &M.e[s];
	VLOG("free %d", s);
	event_free(e->ev);
	m_del(e);
	memset(e, 0, sizeof(*e));
}
static void op_add(int s)
{
	struct mev *e = &M.e[s];
	int common, r;
	int64_t d = -1;
	struct timeval tv;
	const struct timeval *tvp = NULL;
	if (e->kind == K_TIMER || vh_chance(R, 1, 2)) {
		d = pick_duration(&common);
		if (common >= 0) tvp = M.ctl_tv[common];
		else { tv.tv_sec = d / 1000000; tv.tv_usec = d % 1000000; tvp = &tv; }
	} else common = -1;
	if ((e->fl & F_TMO) && d >= 0 && e->deadline > m_gettime()) stat_cancel_before_deadline++;
	VLOG("add %d tv=%lld common=%d (now=%lld)", s, (long long)d, common, (long long)m_gettime());
	r = event_add(e->ev, tvp);
	if (r != 0) { viol("C02:event-add-failed", "event_add(%d) returned %d", s, r); return; }
	m_add(e, d, common);
}
static void op_del(int s)
{
	struct mev *e = &M.e[s];
	int r;
	if ((e->fl & F_TMO) && e->deadline > m_gettime()) stat_cancel_before_deadline++;
	VLOG("del %d", s);
	r = event_del(e->ev);
	if (r != 0) { viol("C02:event-del-failed", "event_del(%d) returned %d", s, r); return; }
	m_del(e);
}
static void op_active(int s)
{
	struct mev *e = &M.e[s];
	static const short rs[] = {EV_READ, EV_WRITE, EV_TIMEOUT, EV_READ | EV_WRITE, EV_TIMEOUT | EV_READ};
	short res = VH_PICK(R, rs);
	int ncalls = 1;
	if (e->kind == K_SIGNAL) {
		if (M.sig_slot == s) return;        /* excluded: re-activating a signal event inside its own ncalls loop */
		res = EV_SIGNAL; ncalls = (int)vh_range(R, 1, 3);
	}
	VLOG("active %d res=0x%x ncalls=%d", s, res, ncalls);
	event_active(e->ev, res, (short)ncalls);
	{ int before = M.cont; m_active(e, res, ncalls, 0); if (!before && M.cont) stat_prio_preempt++; }
}
static void op_active_later(int s)
{
	struct mev *e = &M.e[s];
	static const short rs[] = {EV_READ, EV_WRITE, EV_TIMEOUT};
	short res = VH_PICK(R, rs);
	if (e->kind == K_SIGNAL) return;
	VLOG("active_later %d res=0x%x", s, res);
	event_active_later_(e->ev, res);
	m_active_later(e, res);
}
static void op_remove_timer(int s)
{
	struct mev *e = &M.e[s];
	if ((e->fl & F_TMO) && e->deadline > m_gettime()) stat_cancel_before_deadline++;
	VLOG("remove_timer %d", s);
	if (event_remove_timer(e->ev) != 0) { viol("C02:remove-timer-failed", "event_remove_timer(%d) failed", s); return; }
	m_remove_timer(e);
}
static void op_priority_set(int s)
{
	struct mev *e = &M.e[s];
	int p = (int)vh_range(R, -1, M.npri), r, want;
	want = ((e->fl & F_ACT) || p < 0 || p >= M.npri) ? -1 : 0;
	r = event_priority_set(e->ev, p);
	VLOG("priority_set %d -> %d = %d", s, p, r);
	if (r != want) { viol("C02:priority-set-result", "event_priority_set(%d,%d)=%d model %d (flags %x)", s, p, r, want, e->fl); return; }
	if (r == 0) e->pri = p;
}
static void op_loopexit(void)
{
	int i, s = -1, common = -1;
	int64_t d;
	struct timeval tv;
	for (i = 0; i < NHID; i++) if (M.e[S_HID0 + i].kind) return;   /* one outstanding loopexit at a time */
	s = S_HID0;
	d = vh_chance(R, 1, 2) ? -1 : pick_duration(&common);
	if (d >= 0 && common >= 0) d = M.ctl_dur[common];
	if (d > 3600000000LL) d = 1000;
	if (d >= 0) { tv.tv_sec = d / 1000000; tv.tv_usec = d % 1000000; }
	VLOG("loopexit tv=%lld", (long long)d);
	if (event_base_loopexit(base, d >= 0 ? &tv : NULL) != 0) { viol("C03:loopexit-failed", "event_base_loopexit failed"); return; }
	memset(&M.e[s], 0, sizeof(M.e[s]));
	M.e[s].kind = K_EXIT; M.e[s].pri = M.npri / 2; M.e[s].common = M.e[s].icommon = -1;
	if (d <= 0) m_active(&M.e[s], EV_TIMEOUT, 1, 0);
	else m_add(&M.e[s], d, -1);
}
static void op_defer(void)
{
	int i, s = -1;
	for (i = 0; i < NDEF; i++) if (!M.e[S_DEF0 + i].kind || !(M.e[S_DEF0 + i].fl & (F_ACT | F_LATER))) { s = S_DEF0 + i; break; }
	if (s < 0) return;
	if (!M.e[s].kind) {
		int pri = (int)vh_below(R, M.npri);
		memset(&M.e[s], 0, sizeof(M.e[s]));
		M.e[s].kind = K_DEFER; M.e[s].pri = pri; M.e[s].common = M.e[s].icommon = -1;
		event_deferred_cb_init_(&dcb[s - S_DEF0], (ev_uint8_t)pri, defer_cb, (void *)(intptr_t)s);
	}
	VLOG("defer schedule %d pri=%d (ndefer=%d)", s, M.e[s].pri, M.ndefer);
	event_deferred_cb_schedule_(base, &dcb[s - S_DEF0]);
	/* model of event_deferred_cb_schedule_ */
	if (M.ndefer > 32) { q_ins_later(&M.e[s]); vh_stat("defer_over_quota"); }
	else {
		struct mev *e = &M.e[s];
		e->res = 0;
		if (e->pri < M.running_pri) { /* event_callback_activate_nolock_ does not set event_continue */ }
		q_ins_active(e, 0);
		M.ndefer++;
	}
}
static void op_pipe(void)
{
	int p = (int)vh_below(R, NPIPE);
	char c = 'x';
	if (M.pipe_bytes[p] > 0 && vh_chance(R, 1, 2)) {
		if (__real_read(pipes[p][0], &c, 1) == 1) M.pipe_bytes[p]--;
		VLOG("pipe %d drained -> %d", p, M.pipe_bytes[p]);
	} else if (M.pipe_bytes[p] < 8) {
		if (__real_write(pipes[p][1], &c, 1) == 1) M.pipe_bytes[p]++;
		VLOG("pipe %d written -> %d", p, M.pipe_bytes[p]);
	}
}
static void op_clock(void)
{
	static const int64_t d[] = {0, 1, 1, 500, 999, 1000, 1001, 10000, 100000, 1000000, 3600000000LL};
	int64_t a = VH_PICK(R, d);
	if (vh_chance(R, 1, 3)) {
		/* exactly to (or 1us before) the earliest deadline */
		int i; int64_t best = -1;
		for (i = 0; i < NSLOT; i++) if (M.e[i].kind && (M.e[i].fl & F_TMO) && (best < 0 || M.e[i].deadline < best)) best = M.e[i].deadline;
		if (best > vnow()) a = best - vnow() - (vh_chance(R, 1, 2) ? 1 : 0);
	}
	vclk_advance(a);
	VLOG("clock +%lld -> %lld", (long long)a, (long long)vnow());
}
static void op_watch_new(void)
{
	int i;
	for (i = 0; i < NWATCH; i++) if (!M.w[i].live && !M.w[i].w && M.w[i].freed_pass != M.wpass) {
		int check = vh_chance(R, 1, 2), j, k = 0;
		M.w[i].w = check ? evwatch_check_new(base, check_cb, (void *)(intptr_t)i) : evwatch_prepare_new(base, prep_cb, (void *)(intptr_t)i);
		if (!M.w[i].w) return;
		M.w[i].live = 1; M.w[i].check = check; M.w[i].born_pass = M.wpass;
		/* append to creation order (drop stale id first) */
		for (j = 0; j < M.nworder; j++) if (M.worder[j] != i) M.worder[k++] = M.worder[j];
		M.worder[k++] = i; M.nworder = k;
		VLOG("watch new %d check=%d", i, check);
		return;
	}
}
static void op_watch_free(int running_id)
{
	int i, n = 0, c[NWATCH];
	(void)running_id;
	for (i = 0; i < NWATCH; i++) if (M.w[i].live) c[n++] = i;
	if (!n) return;
	i = c[vh_below(R, n)];
	if (i == running_id) vh_stat("watcher_self_free");
	VLOG("watch free %d (running %d)", i, running_id);
	if (in_callback_depth) stat_watch_free_in_cb++;
	evwatch_free(M.w[i].w);
	M.w[i].live = 0; M.w[i].w = NULL; M.w[i].freed_pass = M.wpass;
}

/* generate and apply up to n_max operations; in_cb: 0 top level, 1 event callback, 2 prepare watcher, 3 check watcher */
static void gen_ops(int n_max, int in_cb)
{
	int n = (int)vh_range(R, in_cb ? 0 : 1, n_max), k;
	int wm = !strcmp(mode, "watch"), pm = !strcmp(mode, "prio");
	for (k = 0; k < n && !M.lost; k++) {
		int s = pick_live_user(), op = (int)vh_below(R, 100);
		int running_w = (in_cb >= 2) ? M.witer : -1;
		if (op < 14) { int i; for (i = 0; i < NUSER; i++) if (!M.e[i].kind) { op_new(i); break; } }
		else if (op < 36) { if (s >= 0) op_add(s); }
		else if (op < 46) { if (s >= 0) op_del(s); }
		else if (op < (pm ? 66 : 56)) { if (s >= 0) op_active(s); }
		else if (op < (pm ? 70 : 59)) { if (s >= 0) op_active_later(s); }
		else if (op < 63 + (pm ? 9 : 0)) { if (s >= 0) op_remove_timer(s); }
		else if (op < 67 + (pm ? 8 : 0)) { if (s >= 0) op_priority_set(s); }
		else if (op < 71 + (pm ? 6 : 0)) { if (s >= 0 && !(in_cb && M.sig_slot == s)) op_free(s); }
		else if (op < 79) op_pipe();
		else if (op < 86) op_clock();
		else if (op < 88) { if (M.in_loop) { VLOG("loopbreak"); event_base_loopbreak(base); M.brk = 1; } }
		else if (op < 90) op_loopexit();
		else if (op < 92) { if (M.in_loop) { VLOG("loopcontinue"); event_base_loopcontinue(base); M.cont = 1; } }
		else if (op < (pm ? 98 : 94)) { int j, burst = pm && vh_chance(R, 1, 6) ? 36 : 1; for (j = 0; j < burst; j++) op_defer(); }
		else if (wm || vh_chance(R, 1, 3)) { if (vh_chance(R, 3, 5)) op_watch_new(); else op_watch_free(running_w); }
		if (!M.lost) compare_state("after-op");
	}
}


/* ------------------------------------------------------------------ bounded-exhaustive mode (C02 thorough)
 * case index -> (variant, length<=5, ops from a 16-letter alphabet) on a fixed pool:
 *   e0 one-shot timer, e1 persistent read event on pipe 0 (1 byte pending), e2 signal event (SIGUSR1). */
#define ENUM_ALPHA 16
#define ENUM_MAXLEN 5
static void run_loop_flags(int flags);
static void eop_add(int s, int64_t d)
{
	struct timeval tv; tv.tv_sec = d / 1000000; tv.tv_usec = d % 1000000;
	if (event_add(M.e[s].ev, d >= 0 ? &tv : NULL) != 0) { viol("C02:event-add-failed", "enum: event_add(%d) failed", s); return; }
	m_add(&M.e[s], d, -1);
}
static void eop(int code)
{
	switch (code) {
	case 0: eop_add(0, 1000); break;
	case 1: eop_add(0, 0); break;
	case 2: event_del(M.e[0].ev); m_del(&M.e[0]); break;
	case 3: event_active(M.e[0].ev, EV_READ, 1); m_active(&M.e[0], EV_READ, 1, 0); break;
	case 4: eop_add(1, -1); break;
	case 5: eop_add(1, 1000); break;
	case 6: event_del(M.e[1].ev); m_del(&M.e[1]); break;
	case 7: event_remove_timer(M.e[1].ev); m_remove_timer(&M.e[1]); break;
	case 8: event_active_later_(M.e[1].ev, EV_WRITE); m_active_later(&M.e[1], EV_WRITE); break;
	case 9: eop_add(2, -1); break;
	case 10: if (M.sig_slot != 2) { event_active(M.e[2].ev, EV_SIGNAL, 2); m_active(&M.e[2], EV_SIGNAL, 2, 0); } break;
	case 11: event_del(M.e[2].ev); m_del(&M.e[2]); break;
	case 12: if (!M.in_loop) run_loop_flags(EVLOOP_NONBLOCK); break;
	case 13: vclk_advance(1000); break;
	case 14: if (!M.in_loop) run_loop_flags(EVLOOP_ONCE); break;
	case 15: { int want = (M.e[0].fl & F_ACT) ? -1 : 0; int r = event_priority_set(M.e[0].ev, 0);
		if (r != want) viol("C02:priority-set-result", "enum: priority_set=%d want %d", r, want); else if (!r) M.e[0].pri = 0; break; }
	}
	if (!M.lost) compare_state("after-op");
}
static void enum_callback_action(int s)
{
	char c;
	if (M.lost) return;
	switch (enum_variant) {
	case 1: if (s == 1 && M.pipe_bytes[0] > 0 && __real_read(pipes[0][0], &c, 1) == 1) M.pipe_bytes[0]--; break;
	case 2: if (s == 0) eop_add(0, 1000); break;
	case 3: if (s == 1) { event_del(M.e[1].ev); m_del(&M.e[1]); } else if (s == 2) { event_del(M.e[2].ev); m_del(&M.e[2]); } break;
	case 4: if (s == 0) { event_active(M.e[1].ev, EV_TIMEOUT, 1); m_active(&M.e[1], EV_TIMEOUT, 1, 0); } break;
	default: break;
	}
}
static void new_fixed(int s, int kind, int persist, int fd, short evs)
{
	struct mev *e = &M.e[s];
	memset(e, 0, sizeof(*e));
	e->ev = event_new(base, fd, evs, ev_cb, (void *)(intptr_t)s);
	e->kind = kind; e->persist = persist; e->pipe = 0; e->pri = M.npri / 2; e->common = e->icommon = -1;
}
static void run_case_enum(vh_rng *r, long idx)
{
	long code = idx;
	int ops[ENUM_MAXLEN], len = 0, i;
	char c = 'x';
	char desc[128]; int o = 0;
	R = r;
	enum_variant = (int)(code % 5); code /= 5;
	/* length-prefixed enumeration: idx -> sequence in shortlex order */
	{
		long span = ENUM_ALPHA; len = 1;
		while (code >= span && len < ENUM_MAXLEN) { code -= span; span *= ENUM_ALPHA; len++; }
		if (code >= span) { vh_stat("enum_out_of_range"); return; }
		for (i = len - 1; i >= 0; i--) { ops[i] = (int)(code % ENUM_ALPHA); code /= ENUM_ALPHA; }
	}
	memset(&M, 0, sizeof(M));
	M.running_pri = -1; M.sig_slot = -1; M.maxd_time = -1; M.maxd_cb = INT_MAX; M.wpass = 1;
	for (i = 0; i < NSLOT; i++) M.e[i].common = M.e[i].icommon = -1;
	vclk_enable(1000LL * 1000000); vclk_oversleep_us = 0;
	base = event_base_new();
	if (!base) return;
	M.npri = 2; event_base_priority_init(base, 2);
	for (i = 0; i < NPIPE; i++) if (pipe2(pipes[i], O_NONBLOCK | O_CLOEXEC) < 0) exit(2);
	if (__real_write(pipes[0][1], &c, 1) == 1) M.pipe_bytes[0] = 1;
	new_fixed(0, K_TIMER, 0, -1, 0);
	new_fixed(1, K_READ, 1, pipes[0][0], EV_READ | EV_PERSIST);
	new_fixed(2, K_SIGNAL, 1, SIGUSR1, EV_SIGNAL | EV_PERSIST);
	vclk_wait_hook = on_wait; vclk_forever_hook = on_forever;
	for (i = 0; i < len && !M.lost; i++) { o += snprintf(desc + o, sizeof(desc) - o, "%d ", ops[i]); eop(ops[i]); }
	if (!M.lost) run_loop_flags(EVLOOP_NONBLOCK);
	vclk_wait_hook = NULL; vclk_forever_hook = NULL;
	for (i = 0; i < 3; i++) if (M.e[i].ev) event_free(M.e[i].ev);
	event_base_free(base); base = NULL;
	for (i = 0; i < NPIPE; i++) { close(pipes[i][0]); close(pipes[i][1]); }
	vh_stat("cases"); vh_stat("enum_sequences");
	if (!M.lost) { uint64_t h = vh_hash_bytes(7, ops, sizeof(int) * len); h = vh_hash_bytes(h, &enum_variant, sizeof(int)); vh_distinct(h); }
	vh_sample(2, "{\"mode\":\"enum\",\"variant\":%d,\"ops\":\"%s\"}", enum_variant, desc);
}

static void run_loop(void)
{
	static const int fl[] = {EVLOOP_NONBLOCK, EVLOOP_NONBLOCK, EVLOOP_ONCE, EVLOOP_ONCE, 0, EVLOOP_NO_EXIT_ON_EMPTY,
		EVLOOP_ONCE | EVLOOP_NONBLOCK, EVLOOP_ONCE | EVLOOP_NO_EXIT_ON_EMPTY};
	run_loop_flags(VH_PICK(R, fl));
}
static void run_loop_flags(int flags)
{
	int r;
	M.flags_loop = flags; M.in_loop = 1; M.done = 0; M.phase = PH_TOP;
	M.cache = 0; M.gotterm = 0; M.brk = 0;         /* loop entry clears the cache and both flags */
	M.running_pri = -1; M.sig_slot = -1;
	nobs_in_loop = 0;
	VLOG("loop flags=%d", flags);
	r = event_base_loop(base, flags);
	M.in_loop = 0;
	if (M.lost) { M.phase = PH_IDLE; return; }
	m_advance();
	skip_optional_watchers(X_RETURN, -1);
	if (EXP.kind != X_RETURN) { char w[32]; snprintf(w, sizeof(w), "loop return %d", r); mismatch(w, -1, 0); }
	else if (r != EXP.retval) viol("C03:loop-return-value", "event_base_loop(flags=%d) returned %d, model %d", flags, r, EXP.retval);
	else if (event_base_got_break(base) != M.brk || event_base_got_exit(base) != M.gotterm)
		viol("C03:got-break-exit", "got_break=%d/%d got_exit=%d/%d", event_base_got_break(base), M.brk, event_base_got_exit(base), M.gotterm);
	M.phase = PH_IDLE; M.cache = 0; M.running_pri = -1;
	vh_stat("loops");
	compare_state("after-loop");
}

static void run_case(vh_rng *r)
{
	struct event_config *cfg = event_config_new();
	int i, nsteps, be = (int)vh_below(r, 4);
	uint64_t h = 0;
	long cb0 = stat_cb, t0 = stat_timer_fired, c0 = stat_cancel_before_deadline, w0 = stat_watch_cb, p0 = stat_prio_preempt + stat_continue + stat_over_quota + stat_later_promoted;
	R = r;
	memset(&M, 0, sizeof(M));
	M.running_pri = -1; M.sig_slot = -1; M.maxd_time = -1; M.maxd_cb = INT_MAX; M.wpass = 1;
	for (i = 0; i < NSLOT; i++) M.e[i].common = M.e[i].icommon = -1;
	vclk_enable(1000LL * 1000000 + (int64_t)vh_below(r, 1000000));
	vclk_wall_off_us = 1700000000LL * 1000000LL + (int64_t)vh_below(r, 1000000);
	{ static const int64_t os[] = {0, 0, 0, 1, 1000, 3600000000LL}; vclk_oversleep_us = VH_PICK(r, os); }
	switch (be) {
	case 1: event_config_set_flag(cfg, EVENT_BASE_FLAG_EPOLL_USE_CHANGELIST); break;
	case 2: event_config_avoid_method(cfg, "epoll"); break;
	case 3: event_config_avoid_method(cfg, "epoll"); event_config_avoid_method(cfg, "poll"); break;
	}
	if (vh_chance(r, 1, 3)) { event_config_set_flag(cfg, EVENT_BASE_FLAG_NO_CACHE_TIME); M.nocache = 1; }
	if (vh_chance(r, 1, 3)) event_config_set_flag(cfg, EVENT_BASE_FLAG_PRECISE_TIMER);
	if (!strcmp(mode, "prio") && vh_chance(r, 2, 3)) {
		static const int mc[] = {-1, 0, 1, 2, 5};
		static const int64_t mt[] = {-1, -1, 0, 1000};
		struct timeval tv; int64_t t = VH_PICK(r, mt); int c = VH_PICK(r, mc), lim = (int)vh_below(r, 3);
		if (t >= 0) { tv.tv_sec = 0; tv.tv_usec = t; }
		event_config_set_max_dispatch_interval(cfg, t >= 0 ? &tv : NULL, c, lim);
		M.maxd_time = t; M.maxd_cb = c >= 0 ? c : INT_MAX; M.limit_after = lim;
	}
	base = event_base_new_with_config(cfg);
	event_config_free(cfg);
	if (!base) { vh_stat("base_new_failed"); return; }
	M.npri = (int)vh_range(r, 1, strcmp(mode, "prio") ? 3 : MAXPRI);
	event_base_priority_init(base, M.npri);
	for (i = 0; i < NPIPE; i++) {
		if (pipe2(pipes[i], O_NONBLOCK | O_CLOEXEC) < 0) { perror("pipe2"); exit(2); }
	}
	M.nctl = !strcmp(mode, "timers") ? (int)vh_below(r, NCTL + 1) : (int)vh_below(r, 2);
	for (i = 0; i < M.nctl; i++) {
		static const int64_t cd[] = {1, 1000, 2500, 10000, 1000000};
		struct timeval tv; int64_t d; int j, dup;
		do { d = VH_PICK(r, cd); dup = 0; for (j = 0; j < i; j++) if (M.ctl_dur[j] == d) dup = 1; } while (dup);
		tv.tv_sec = d / 1000000; tv.tv_usec = d % 1000000;
		M.ctl_tv[i] = event_base_init_common_timeout(base, &tv);
		M.ctl_dur[i] = d;
		if (!M.ctl_tv[i]) { vh_stat("common_init_failed"); M.nctl = i; break; }
		M.e[S_CTL0 + i].kind = K_CTL; M.e[S_CTL0 + i].internal = 1; M.e[S_CTL0 + i].pri = 0;
	}
	vclk_wait_hook = on_wait; vclk_forever_hook = on_forever;
	nsteps = (int)vh_range(r, 4, vh_opt.thorough ? 40 : 16);
	VLOG("case backend=%s npri=%d nocache=%d nctl=%d maxd=(%lld,%d,%d) oversleep=%lld", event_base_get_method(base), M.npri, M.nocache, M.nctl,
	     (long long)M.maxd_time, M.maxd_cb, M.limit_after, (long long)vclk_oversleep_us);
	for (i = 0; i < nsteps && !M.lost; i++) {
		gen_ops(4, 0);
		if (!M.lost && vh_chance(r, 3, 5)) run_loop();
	}
	if (!M.lost) run_loop();
	/* teardown */
	vclk_wait_hook = NULL; vclk_forever_hook = NULL;
	for (i = 0; i < NUSER; i++) if (M.e[i].kind && M.e[i].ev) { event_free(M.e[i].ev); }
	for (i = 0; i < NDEF; i++) if (M.e[S_DEF0 + i].kind) event_deferred_cb_cancel_(base, &dcb[i]);
	for (i = 0; i < NWATCH; i++) if (M.w[i].live) evwatch_free(M.w[i].w);
	event_base_free(base); base = NULL;
	for (i = 0; i < NPIPE; i++) { close(pipes[i][0]); close(pipes[i][1]); }
	vh_stat("cases");
	if (M.abandoned) vh_stat("abandoned_ambiguous");
	/* non-triviality per mode */
	{
		int nt = 0;
		if (!strcmp(mode, "timers")) nt = (stat_timer_fired > t0) && (stat_cancel_before_deadline > c0);
		else if (!strcmp(mode, "watch")) nt = stat_watch_cb > w0;
		else if (!strcmp(mode, "prio")) nt = (stat_cb > cb0) && (stat_prio_preempt + stat_continue + stat_over_quota + stat_later_promoted > p0);
		else nt = stat_cb > cb0;
		if (nt && !M.lost) {
			h = vh_hash_bytes(vh_opt.seed, &vh_cur_case, sizeof(vh_cur_case));
			h = vh_hash_bytes(h, &stat_cb, sizeof(stat_cb)); h = vh_hash_bytes(h, &stat_queries, sizeof(stat_queries));
			vh_distinct(h);
		}
	}
	vh_sample(3, "{\"mode\":\"%s\",\"backend\":%d,\"npri\":%d,\"steps\":%d,\"callbacks\":%ld,\"timers_fired\":%ld,\"waits\":%ld}", mode, be, M.npri, nsteps,
		  stat_cb - cb0, stat_timer_fired - t0, stat_waits);
}

int main(int argc, char **argv)
{
	long idx; vh_rng r;
	vh_init(argc, argv);
	mode = vh_opt.mode ? vh_opt.mode : "state";
	verbose = vh_opt.verbose;
	{ struct sigaction sa; memset(&sa, 0, sizeof(sa)); sa.sa_handler = SIG_IGN; sigaction(SIGUSR1, &sa, NULL); sigaction(SIGUSR2, &sa, NULL); }
	enum_mode = !strcmp(mode, "enum");
	if (enum_mode) obs_cap = 40;
	while (vh_next_case(&idx, &r)) { if (enum_mode) run_case_enum(&r, idx); else run_case(&r); }
	vh_stat_add("callbacks", stat_cb); vh_stat_add("timers_fired", stat_timer_fired);
	vh_stat_add("cancel_or_readd_before_deadline", stat_cancel_before_deadline);
	vh_stat_add("persist_rearms", stat_persist_rearm); vh_stat_add("common_timeout_fired", stat_common_fired);
	vh_stat_add("waits_checked", stat_waits); vh_stat_add("equal_deadline_groups", stat_tie_groups);
	vh_stat_add("io_callbacks", stat_io_cb); vh_stat_add("later_promoted", stat_later_promoted);
	vh_stat_add("over_quota_deferrals", stat_over_quota); vh_stat_add("loopbreak_seen", stat_break);
	vh_stat_add("loopexit_seen", stat_exit); vh_stat_add("loopcontinue_or_preempt", stat_continue);
	vh_stat_add("higher_prio_activations", stat_prio_preempt); vh_stat_add("watcher_callbacks", stat_watch_cb);
	vh_stat_add("watcher_free_in_callback", stat_watch_free_in_cb); vh_stat_add("state_queries", stat_queries);
	vh_stat_add("signal_ncalls_iterations", stat_sigloop);
	vh_finish();
	libevent_global_shutdown();
	return 0;
}
