/* C07: signal events deliver every signal and restore the prior disposition.
 *
 * Every case runs in a forked child of the harness process (signal
 * dispositions and the signal mask are process-global).  The child generates a
 * bounded history from the per-case rng, executes it against the real library
 * and judges it with an independent model kept next to the script:
 *
 *   - per event: `added` (model), `credit` = deliveries of its signal that may
 *     legitimately be reported to it since the last idle point, `calls` since
 *     the last idle point, `owed` = a delivery happened while it was added and
 *     no callback has run since;
 *   - rules: callback args are (signum, EV_SIGNAL); calls <= credit; no
 *     callback once event_del()/event_free() returned (one-shot events: none
 *     after the burst of the activation that auto-deleted them); at every idle
 *     point nothing is owed; whenever the number of added events of a signal
 *     drops to zero (user del, free, one-shot auto-delete) and after
 *     event_base_free() the sigaction is the one recorded before the first add.
 *
 * The child reports through a pipe (STAT/VIOL/HASH/SAMPLE lines); its stderr
 * is piped as well, copied to the harness's stderr (so vlib sees sanitizer
 * reports) and abnormal exits without a recognisable report become
 * `crash:child-*` violations.  Children leave with _exit().
 */
#include "vh.h"
#include <signal.h>
#include <unistd.h>
#include <errno.h>
#include <fcntl.h>
#include <poll.h>
#include <sys/wait.h>
#include <event2/event.h>
#include <event2/event_struct.h>
#include <event2/watch.h>
#include "event-internal.h"

ssize_t __real_write(int, const void *, size_t);
ssize_t __real_read(int, void *, size_t);
int __real_pipe(int[2]);
int __real_close(int);
int __real_poll(struct pollfd *, nfds_t, int);
int __real_sigaction(int, const struct sigaction *, struct sigaction *);

/* ------------------------------------------------------------------ */
/* child-side reporting                                                */
static int out_fd = 1;
static int in_grandchild;
static void c_line(const char *fmt, ...) __attribute__((format(printf,1,2)));
static void c_line(const char *fmt, ...)
{
	char buf[3000];
	va_list ap;
	int n;
	size_t i;
	va_start(ap, fmt);
	n = vsnprintf(buf, sizeof(buf) - 1, fmt, ap);
	va_end(ap);
	if (n < 0) return;
	if (n > (int)sizeof(buf) - 2) n = sizeof(buf) - 2;
	for (i = 0; i < (size_t)n; i++) if (buf[i] == '\n' || buf[i] == '\r') buf[i] = ' ';
	buf[n++] = '\n';
	/* one write per line: < PIPE_BUF, so lines of parent and forked child never interleave */
	for (;;) {
		ssize_t w = __real_write(out_fd, buf, (size_t)n);
		if (w < 0 && errno == EINTR) continue;
		break;
	}
}
#define CMAXSTAT 96
static struct { char name[48]; long n; } cst[CMAXSTAT];
static int ncst;
static void c_stat_add(const char *name, long n)
{
	int i;
	for (i = 0; i < ncst; i++) if (!strcmp(cst[i].name, name)) { cst[i].n += n; return; }
	if (ncst < CMAXSTAT) { snprintf(cst[ncst].name, sizeof(cst[ncst].name), "%s", name); cst[ncst++].n = n; }
}
#define c_stat(n) c_stat_add((n), 1)
static void c_flush_stats(void)
{
	int i;
	for (i = 0; i < ncst; i++) c_line("STAT %s %ld", cst[i].name, cst[i].n);
	ncst = 0;
}
#define tr(...) do { if (vh_opt.verbose) { fprintf(stderr, "T[%d] ", (int)getpid()); fprintf(stderr, __VA_ARGS__); fputc('\n', stderr); } } while (0)
static long c_nviol;
#define c_viol(key, ...) do { char t_[1500]; snprintf(t_, sizeof(t_), __VA_ARGS__); c_nviol++; if (c_nviol <= 20) c_line("VIOL %s %s", (key), t_); } while (0)

/* ------------------------------------------------------------------ */
/* harness-side: run one case in a forked child                        */
static int watchdog_fired;
static int stderr_has_report(const char *s)
{
	return strstr(s, "Sanitizer") || strstr(s, "runtime error:") || strstr(s, "Assertion ") != NULL;
}
struct bcase { long idx; vh_rng rng; };
static long batch_completed, batch_begun;
static void parse_child_line(char *ln, char *childexit, size_t cecap)
{
	if (!strncmp(ln, "STAT ", 5)) {
		char name[64]; long n;
		if (sscanf(ln + 5, "%63s %ld", name, &n) == 2) vh_stat_add(name, n);
	} else if (!strncmp(ln, "VIOL ", 5)) {
		char *key = ln + 5, *sp = strchr(key, ' ');
		if (sp) { *sp = 0; vh_viol(key, "%s", sp + 1); } else vh_viol(key, "-");
	} else if (!strncmp(ln, "HASH ", 5)) {
		vh_distinct(strtoull(ln + 5, NULL, 16));
	} else if (!strncmp(ln, "SAMPLE ", 7)) {
		vh_sample(2, "%s", ln + 7);
	} else if (!strncmp(ln, "BEGIN ", 6)) {
		vh_cur_case = atol(ln + 6); batch_begun++;
	} else if (!strncmp(ln, "END ", 4)) {
		batch_completed++;
	} else if (!strncmp(ln, "CHILDEXIT ", 10)) {
		snprintf(childexit, cecap, "%s", ln + 10);
	} else if (vh_opt.verbose) {
		fprintf(stderr, "child: %s\n", ln);
	}
}
/* Runs cases[0..n) one after the other in ONE forked child (fork of a sanitized process is the dominant cost);
 * the child stops after the first case that reported a violation or died, so no later case can be judged on a
 * process state an earlier failure left behind.  Returns how many cases were consumed (>=1). */
static int run_in_child(void (*fn)(vh_rng *), struct bcase *cases, int n)
{
	int po[2], pe[2];
	pid_t pid;
	char *obuf = NULL; size_t olen = 0, ocap = 0;
	char ebuf[8192]; size_t elen = 0;
	int report = 0, status = 0, open_o = 1, open_e = 1, killed = 0;
	char childexit[200] = "";
	struct timespec t0, t1;
	if (__real_pipe(po) || __real_pipe(pe)) { perror("pipe"); exit(2); }
	fflush(stdout); fflush(stderr);
	pid = fork();
	if (pid < 0) { perror("fork"); exit(2); }
	if (pid == 0) {
		int i;
		__real_close(po[0]); __real_close(pe[0]);
		out_fd = po[1];
		dup2(pe[1], 2); __real_close(pe[1]);
		for (i = 0; i < n; i++) {
			vh_cur_case = cases[i].idx;
			c_line("BEGIN %ld", cases[i].idx);
			fn(&cases[i].rng);
			c_flush_stats();
			c_line("END %ld", cases[i].idx);
			if (c_nviol) break;
		}
		_exit(0);
	}
	__real_close(po[1]); __real_close(pe[1]);
	clock_gettime(CLOCK_MONOTONIC, &t0);    /* vclk is off in the harness process itself */
	while (open_o || open_e) {
		struct pollfd p[2];
		int r;
		p[0].fd = open_o ? po[0] : -1; p[0].events = POLLIN; p[0].revents = 0;
		p[1].fd = open_e ? pe[0] : -1; p[1].events = POLLIN; p[1].revents = 0;
		r = __real_poll(p, 2, 1000);
		if (r < 0 && errno != EINTR) break;
		clock_gettime(CLOCK_MONOTONIC, &t1);
		if (t1.tv_sec - t0.tv_sec > 120) {   /* generous watchdog: inconclusive, never a verdict */
			{
				/* diagnostics only: where are the case process and its children blocked? */
				char cmd[400];
				snprintf(cmd, sizeof(cmd), "for p in %d $(pgrep -P %d); do for t in /proc/$p/task/*; do echo \"WATCHDOG-DIAG pid=$p $(cat $t/comm) wchan=$(cat $t/wchan) syscall=$(cut -d' ' -f1 $t/syscall) state=$(grep State $t/status|cut -f2)\"; done; done 1>&2", (int)pid, (int)pid);
				if (system(cmd)) { }
			}
			kill(pid, SIGKILL);
			killed = 1; watchdog_fired++;
			vh_stat("watchdog_kills");
			break;
		}
		if (r <= 0) continue;
		if (p[0].revents) {
			if (olen + 4096 + 1 > ocap) { ocap = ocap ? ocap * 2 : 16384; obuf = realloc(obuf, ocap); }
			{
				ssize_t nn = __real_read(po[0], obuf + olen, 4096);
				if (nn > 0) olen += (size_t)nn; else if (nn == 0 || errno != EINTR) open_o = 0;
			}
		}
		if (p[1].revents) {
			char tmp[4096];
			ssize_t nn = __real_read(pe[0], tmp, sizeof(tmp));
			if (nn > 0) {
				ssize_t w = __real_write(2, tmp, (size_t)nn); (void)w;
				if (elen + (size_t)nn < sizeof(ebuf) - 1) { memcpy(ebuf + elen, tmp, (size_t)nn); elen += (size_t)nn; }
			} else if (nn == 0 || errno != EINTR) open_e = 0;
		}
	}
	__real_close(po[0]); __real_close(pe[0]);
	while (waitpid(pid, &status, 0) < 0 && errno == EINTR) ;
	ebuf[elen] = 0;
	report = stderr_has_report(ebuf);
	batch_completed = batch_begun = 0;
	if (obuf) {
		char *s = obuf, *nl;
		obuf[olen] = 0;
		while ((nl = strchr(s, '\n'))) { *nl = 0; parse_child_line(s, childexit, sizeof(childexit)); s = nl + 1; }
		free(obuf);
	}
	if (killed) {
		/* vh_cur_case was set by the last BEGIN line: that case was running when the watchdog fired */
		fprintf(stderr, "WATCHDOG: batch of %d cases starting at %ld killed, %ld finished, case %ld was running\n", n, cases[0].idx, batch_completed, vh_cur_case);
		return n;
	}   /* inconclusive run: the harness exits non-zero after DONE */
	/* a sanitizer / assertion report on stderr is keyed by vlib from the text; anything else abnormal is keyed here */
	if (WIFSIGNALED(status)) {
		if (!report) vh_viol(WTERMSIG(status) == SIGABRT ? "crash:child-signal6" : "crash:child-signal", "case process killed by signal %d; stderr tail: %.600s", WTERMSIG(status), ebuf);
		batch_completed++;
	} else if (WIFEXITED(status) && WEXITSTATUS(status) != 0) {
		if (!report) vh_viol("crash:child-exit", "case process exit status %d; stderr tail: %.600s", WEXITSTATUS(status), ebuf);
		batch_completed++;
	}
	if (childexit[0] && !report)
		vh_viol("crash:grandchild", "forked child of the case process ended abnormally: %s; stderr tail: %.600s", childexit, ebuf);
	vh_stat_add("cases", batch_completed > n ? n : batch_completed);
	if (batch_completed < 1) batch_completed = 1;
	return batch_completed > n ? n : (int)batch_completed;
}

/* ------------------------------------------------------------------ */
/* the case                                                            */
#define NSIGS 5
static const int SIGS[NSIGS] = { SIGUSR1, SIGUSR2, SIGHUP, SIGWINCH, SIGCHLD };
static const char *SIGN[NSIGS] = { "USR1", "USR2", "HUP", "WINCH", "CHLD" };
static const int SIGFATAL[NSIGS] = { 1, 1, 1, 0, 0 };   /* default action terminates */
#define MAXPER 3
#define NSLOT (NSIGS * MAXPER)

enum { A_NONE, A_RAISE, A_DEL_SELF, A_DEL, A_ADD, A_BREAK, A_READD_SELF, A_FREE_SELF };
struct act { int kind, a, b; };
#define MAXACT 6
struct slot {
	struct event *ev;
	int id, sig_i, persist, own_mem, prio;
	int added;            /* model */
	long credit, calls;
	int owed, burst; const char *owed_tag;
	struct act acts[MAXACT]; int nact, act_pos;
};
enum { O_ADD, O_DEL, O_RAISE, O_STEP, O_PRIOR, O_FORK, O_FREE };
struct op { int kind, a, b, c; };
#define MAXOPS 400

static struct event_base *base;
static struct slot slots[NSLOT];
static int used_sig[NSIGS];
static int count_added[NSIGS];
static long pend[NSIGS];          /* deliveries since the last idle point */
static struct sigaction orig[NSIGS];   /* as read back right after installing the prior disposition */
static int prior_is_fn[NSIGS], prior_is_ign[NSIGS];
static volatile long prior_calls[NSIGS];
static int mech_sigfd, backend_i, npri;
static const char *BACKENDS[3] = { "epoll", "poll", "select" };
static long cb_in_iter, cb_raise_budget;
static long case_callbacks, case_restores;   /* non-triviality of the case (this process only) */
static struct slot *last_cb;
static int max_burst;
static char where_sfx[24];        /* "" or "-child" */

static int sig_index(int signo) { int i; for (i = 0; i < NSIGS; i++) if (SIGS[i] == signo) return i; return -1; }
static void prior_h1(int s) { int i = sig_index(s); if (i >= 0) prior_calls[i]++; }
static void prior_h2(int s) { int i = sig_index(s); if (i >= 0) prior_calls[i]++; }
static void prior_si(int s, siginfo_t *si, void *u) { int i = sig_index(s); (void)si; (void)u; if (i >= 0) prior_calls[i]++; }

static int same_sigaction(const struct sigaction *a, const struct sigaction *b)
{
	int s;
	if (a->sa_flags != b->sa_flags) return 0;
	if (a->sa_flags & SA_SIGINFO) { if (a->sa_sigaction != b->sa_sigaction) return 0; }
	else if (a->sa_handler != b->sa_handler) return 0;
	for (s = 1; s < 65; s++) {
		if (s == SIGKILL || s == SIGSTOP || s == 32 || s == 33) continue;
		if (sigismember(&a->sa_mask, s) != sigismember(&b->sa_mask, s)) return 0;
	}
	return 1;
}
static const char *sa_str(const struct sigaction *a, char *buf, size_t cap)
{
	int s; size_t o;
	const char *h = (a->sa_flags & SA_SIGINFO) ? (a->sa_sigaction == prior_si ? "prior_si" : "other-siginfo") :
		a->sa_handler == SIG_DFL ? "SIG_DFL" : a->sa_handler == SIG_IGN ? "SIG_IGN" :
		a->sa_handler == prior_h1 ? "prior_h1" : a->sa_handler == prior_h2 ? "prior_h2" : "other(libevent?)";
	o = (size_t)snprintf(buf, cap, "{handler=%s flags=0x%x mask=", h, (unsigned)a->sa_flags);
	for (s = 1; s < 65 && o + 8 < cap; s++) if (sigismember(&a->sa_mask, s) == 1) o += (size_t)snprintf(buf + o, cap - o, "%d,", s);
	snprintf(buf + o, cap - o, "}");
	return buf;
}

static void install_prior(int S, vh_rng *r)
{
	struct sigaction sa;
	static const int masksigs[] = { SIGUSR1, SIGUSR2, SIGHUP, SIGTERM, SIGALRM, SIGWINCH, SIGIO, SIGURG };
	int kind, i;
	memset(&sa, 0, sizeof(sa));
	sigemptyset(&sa.sa_mask);
	kind = (int)vh_below(r, 6);
	/* CALIBRATED: with signalfd the signal is only blocked, never re-routed: a signal still pending when the
	 * last event goes away is handed to the prior disposition on unblock.  The property does not speak about
	 * that, so the generator never combines signalfd with a prior SIG_DFL whose default action kills. */
	if (kind == 0 && mech_sigfd && SIGFATAL[S]) kind = 2;
	prior_is_fn[S] = 0; prior_is_ign[S] = 0;
	switch (kind) {
	case 0: sa.sa_handler = SIG_DFL; prior_is_ign[S] = !SIGFATAL[S]; c_stat("prior_sig_dfl"); break;
	case 1: sa.sa_handler = SIG_IGN; prior_is_ign[S] = 1; c_stat("prior_sig_ign"); break;
	case 2: sa.sa_handler = prior_h1; prior_is_fn[S] = 1; c_stat("prior_handler"); break;
	case 3: sa.sa_handler = prior_h2; prior_is_fn[S] = 1; c_stat("prior_handler"); break;
	default: sa.sa_sigaction = prior_si; sa.sa_flags |= SA_SIGINFO; prior_is_fn[S] = 1; c_stat("prior_siginfo_handler"); break;
	}
	if (vh_chance(r, 1, 2)) sa.sa_flags |= SA_RESTART;
	if (vh_chance(r, 1, 4)) sa.sa_flags |= SA_NODEFER;
	if (vh_chance(r, 1, 4)) sa.sa_flags |= SA_ONSTACK;
	if (vh_chance(r, 1, 4)) sa.sa_flags |= SA_NOCLDSTOP;
	for (i = 0; i < 3; i++) if (vh_chance(r, 1, 2)) sigaddset(&sa.sa_mask, VH_PICK(r, masksigs));
	if (vh_chance(r, 1, 8)) sigfillset(&sa.sa_mask);
	if (__real_sigaction(SIGS[S], &sa, NULL)) { c_viol("harness:sigaction", "install failed errno=%d", errno); }
	__real_sigaction(SIGS[S], NULL, &orig[S]);
}

static void check_restored(int S, const char *where)
{
	struct sigaction cur;
	char b1[200], b2[200], key[96];
	__real_sigaction(SIGS[S], NULL, &cur);
	c_stat("restore_checks"); case_restores++;
	if (!same_sigaction(&cur, &orig[S])) {
		snprintf(key, sizeof(key), "C07:handler-not-restored:%s%s", where, where_sfx);
		c_viol(key, "SIG%s mech=%s backend=%s: sigaction now %s, before first add %s", SIGN[S],
			mech_sigfd ? "signalfd" : "selfpipe", BACKENDS[backend_i], sa_str(&cur, b1, sizeof(b1)), sa_str(&orig[S], b2, sizeof(b2)));
	}
}

static void do_deliver(int S, int k, int method, int in_cb);
static void do_add(struct slot *s);
static void do_del(struct slot *s, int free_it, const char *where);

static void sigcb(evutil_socket_t fd, short what, void *arg)
{
	struct slot *s = arg;
	int S = s->sig_i, cont;
	cb_in_iter++; case_callbacks++;
	tr("  callback ev=%d SIG%s what=0x%x added=%d calls=%ld credit=%ld", s->id, SIGN[S], what, s->added, s->calls + 1, s->credit);
	c_stat(in_grandchild ? "callbacks_child" : "callbacks");
	if (fd != SIGS[S] || what != EV_SIGNAL)
		c_viol("C07:callback-wrong-args", "event %d for SIG%s called with fd=%d what=0x%x", s->id, SIGN[S], (int)fd, what);
	cont = s->burst && last_cb == s;
	if (cont && s->added && !s->persist && !event_pending(s->ev, EV_SIGNAL, NULL)) {
		/* CALIBRATED (thorough seed 2, case 8717): a one-shot event re-added by its own callback and activated
		 * again within the same loop iteration (second signalfd read) is a new activation - the library removed
		 * it again before this call - and not the continuation of the burst; event_pending() tells the two apart. */
		cont = 0; c_stat("oneshot_reactivated_in_same_iteration");
	}
	if (!s->added && !cont) {
		char key[80];
		snprintf(key, sizeof(key), "C07:callback-after-%s%s", s->persist ? "del" : "oneshot-done-or-del", where_sfx);
		c_viol(key, "event %d (SIG%s, %s) called while not added (mech=%s backend=%s)", s->id, SIGN[S],
			s->persist ? "persist" : "one-shot", mech_sigfd ? "signalfd" : "selfpipe", BACKENDS[backend_i]);
	}
	if (s->added && !s->persist && !cont) {
		/* Appendix A: a one-shot event is deleted before its callback(s) */
		s->added = 0; s->burst = 1; count_added[S]--;
		c_stat("oneshot_autodel");
		if (count_added[S] == 0) { c_stat("last_dels"); check_restored(S, "oneshot-last-del"); }
	}
	s->owed = 0;
	s->calls++;
	if (s->calls > s->credit) {
		char key[80];
		snprintf(key, sizeof(key), "C07:more-callbacks-than-deliveries%s", where_sfx);
		c_viol(key, "event %d SIG%s: %ld callbacks but only %ld deliveries could be reported (mech=%s backend=%s)",
			s->id, SIGN[S], s->calls, s->credit, mech_sigfd ? "signalfd" : "selfpipe", BACKENDS[backend_i]);
	}
	last_cb = s;
	if (s->act_pos < s->nact) {
		struct act *a = &s->acts[s->act_pos++];
		switch (a->kind) {
		case A_RAISE: do_deliver(a->a, a->b, 0, 1); break;
		case A_DEL_SELF: do_del(s, 0, "last-del-in-callback"); break;
		case A_DEL: do_del(&slots[a->a], 0, "last-del-in-callback"); break;
		case A_ADD: do_add(&slots[a->a]); break;
		case A_BREAK: event_base_loopbreak(base); c_stat("loopbreaks"); break;
		case A_READD_SELF: do_add(s); break;
		case A_FREE_SELF: do_del(s, 1, "last-del-in-callback"); break;
		default: break;
		}
	}
}

static void do_add(struct slot *s)
{
	int S = s->sig_i, r;
	if (!used_sig[S]) return;
	/* CALIBRATED: adding while a one-shot burst of this very event is running is allowed by the API but the
	 * model keeps it simple: the event counts as added again, later calls of the burst are within credit. */
	if (!s->ev) {
		short fl = EV_SIGNAL | (s->persist ? EV_PERSIST : 0);
		if (s->own_mem) {
			s->ev = malloc(event_get_struct_event_size());
			if (event_assign(s->ev, base, SIGS[S], fl, sigcb, s)) { c_viol("C07:assign-failed", "event_assign failed"); free(s->ev); s->ev = NULL; return; }
		} else if (s->persist) {
			s->ev = evsignal_new(base, SIGS[S], sigcb, s);   /* = EV_SIGNAL|EV_PERSIST */
		} else {
			s->ev = event_new(base, SIGS[S], EV_SIGNAL, sigcb, s);
		}
		if (!s->ev) { c_viol("C07:new-failed", "event_new failed"); return; }
		if (npri > 1) event_priority_set(s->ev, s->prio % npri);
		c_stat(s->persist ? "persist_events" : "oneshot_events");
	}
	if (count_added[S] == 0) {
		/* the disposition in force before the first add must still be the one we installed */
		struct sigaction cur;
		__real_sigaction(SIGS[S], NULL, &cur);
		if (!same_sigaction(&cur, &orig[S])) {
			char b1[200], b2[200];
			c_viol("C07:handler-changed-while-no-event", "SIG%s: %s instead of %s", SIGN[S], sa_str(&cur, b1, sizeof(b1)), sa_str(&orig[S], b2, sizeof(b2)));
		}
	}
	r = event_add(s->ev, NULL);
	tr("add ev=%d SIG%s %s -> %d (count was %d)", s->id, SIGN[S], s->persist ? "persist" : "oneshot", r, count_added[S]);
	c_stat("adds");
	if (r != 0) { c_viol("C07:add-failed", "event_add(SIG%s) returned %d (mech=%s backend=%s)", SIGN[S], r, mech_sigfd ? "signalfd" : "selfpipe", BACKENDS[backend_i]); return; }
	if (!s->added) {
		s->added = 1; count_added[S]++;
		/* CALIBRATED: deliveries made since the last idle point while the library already listened for this
		 * signal (another event, or this one before a del) may still be in flight (self-pipe byte, pending
		 * signalfd read) and are reported to whoever is added when they are read: allowed, not required. */
		s->credit = pend[S]; s->calls = 0; s->owed = 0;
		if (pend[S] > 0) c_stat("adds_with_deliveries_in_flight");
		if (count_added[S] == 1) c_stat("first_adds");
	}
}

static void do_del(struct slot *s, int free_it, const char *where)
{
	int S = s->sig_i, r;
	if (!s->ev) return;
	if (free_it) { event_free(s->ev); r = 0; c_stat("frees"); }
	else { r = event_del(s->ev); c_stat("dels"); }
	tr("%s ev=%d SIG%s (added=%d count=%d)", free_it ? "free" : "del", s->id, SIGN[S], s->added, count_added[S]);
	if (r != 0) c_viol("C07:del-failed", "event_del(SIG%s) returned %d", SIGN[S], r);
	if (free_it) { if (s->own_mem) { /* event_free used mm_free == free */ } s->ev = NULL; }
	if (s->added) {
		s->added = 0; count_added[S]--;
		if (count_added[S] == 0) { c_stat("last_dels"); check_restored(S, where); }
		else c_stat("partial_dels");
	}
	s->burst = 0; s->owed = 0; s->credit = 0; s->calls = 0;
}

static void do_deliver(int S, int k, int method, int in_cb)
{
	int i, j;
	if (!used_sig[S]) return;
	if (in_cb) { if (cb_raise_budget < k) return; cb_raise_budget -= k; }
	tr("%sdeliver SIG%s x%d via %s (count=%d)", in_cb ? "  in-callback " : "", SIGN[S], k, method ? "kill" : "raise", count_added[S]);
	if (count_added[S] == 0) {
		/* nobody listens: only safe / meaningful when the prior disposition is one of our handlers */
		sigset_t cur;
		long before = prior_calls[S];
		if (!prior_is_fn[S]) return;
		sigprocmask(SIG_SETMASK, NULL, &cur);
		if (method) kill(getpid(), SIGS[S]); else raise(SIGS[S]);
		c_stat("deliveries_to_prior_handler");
		/* the restored disposition must really be in force: with nothing added, the signal reaches the prior
		 * handler synchronously (raise/kill to self return after the handler ran).  On the unchanged tree the
		 * signal is never left blocked here (sigfd_del unblocks what sigfd_add blocked). */
		if (prior_calls[S] != before + 1) {
			char key[96];
			snprintf(key, sizeof(key), "C07:prior-handler-not-in-force:%s%s", sigismember(&cur, SIGS[S]) == 1 ? "left-blocked" : "not-invoked", where_sfx);
			c_viol(key, "SIG%s raised with no event added: prior handler ran %ld times instead of once (mech=%s backend=%s, signal %s in the mask)",
				SIGN[S], prior_calls[S] - before, mech_sigfd ? "signalfd" : "selfpipe", BACKENDS[backend_i], sigismember(&cur, SIGS[S]) == 1 ? "blocked" : "not blocked");
			if (sigismember(&cur, SIGS[S]) == 1) { sigset_t u; sigemptyset(&u); sigaddset(&u, SIGS[S]); sigprocmask(SIG_UNBLOCK, &u, NULL); }
		}
		return;
	}
	for (i = 0; i < k; i++) { if (method) kill(getpid(), SIGS[S]); else raise(SIGS[S]); }
	pend[S] += k;
	c_stat_add(in_cb ? "deliveries_in_callback" : "deliveries", k);
	if (in_grandchild) c_stat_add("deliveries_child", k);
	for (j = 0; j < NSLOT; j++) {
		struct slot *s = &slots[j];
		if (s->sig_i == S && s->added) { s->credit += k; s->owed = 1; }
	}
}

/* runs at the top of every loop iteration: a one-shot burst (ncalls loop of one activation) never spans iterations */
static void on_prepare(struct evwatch *w, const struct evwatch_prepare_cb_info *info, void *arg)
{
	int j;
	(void)w; (void)info; (void)arg;
	for (j = 0; j < NSLOT; j++) slots[j].burst = 0;
	last_cb = NULL;
	c_stat("loop_iterations");
}

static void step_to_idle(void)
{
	int iter, j, S, r = 0;
	long pend0[NSIGS], calls_tot = 0;
	for (S = 0; S < NSIGS; S++) pend0[S] = pend[S];
	for (iter = 0; iter < 2000; iter++) {
		cb_in_iter = 0;
		/* EVLOOP_NONBLOCK iterates (zero timeout) until an iteration finds nothing active */
		r = event_base_loop(base, EVLOOP_NONBLOCK);
		tr(" loop -> %d, %ld callbacks", r, cb_in_iter);
		if (r < 0) { c_viol("C07:loop-error", "event_base_loop returned %d", r); break; }
		calls_tot += cb_in_iter;
		if (cb_in_iter == 0 && event_base_get_num_events(base, EVENT_BASE_COUNT_ACTIVE) == 0) break;
	}
	if (iter >= 2000) c_viol("C07:loop-never-idle", "2000 loop calls without reaching an idle point");
	c_stat("steps");
	if (calls_tot) c_stat("steps_with_callbacks");
	for (j = 0; j < NSLOT; j++) {
		struct slot *s = &slots[j];
		if (s->added && s->owed) {
			char key[96];
			snprintf(key, sizeof(key), "C07:delivery-not-reported:%s%s%s", mech_sigfd ? "signalfd" : "selfpipe", where_sfx, s->owed_tag ? s->owed_tag : "");
			c_viol(key, "event %d (SIG%s, %s) stayed added, its signal was delivered (%ld in this batch) but its callback did not run before the loop went idle (backend=%s)",
				s->id, SIGN[s->sig_i], s->persist ? "persist" : "one-shot", pend[s->sig_i], BACKENDS[backend_i]);
			s->owed = 0;
		}
		s->owed_tag = NULL;
	}
	for (S = 0; S < NSIGS; S++) if (pend0[S] > 0) { c_stat("batches"); if (pend0[S] > 1) c_stat("batches_multi"); }
	if (r != 0 && !mech_sigfd) {
		/* CALIBRATED: with no event left the loop returns 1 without polling; deliveries already taken by the
		 * library (self-pipe bytes) stay in flight and are reported to whichever event of that signal is
		 * added when they are finally read.  Total calls still never exceed total deliveries, so the credit
		 * is carried to the next real idle point instead of being dropped here.  (Not so with signalfd: once
		 * no event is left every signalfd is closed and the signals are unblocked - nothing can be in flight.) */
		c_stat("steps_loop_had_no_events");
		return;
	}
	for (j = 0; j < NSLOT; j++) { struct slot *s = &slots[j]; s->credit = 0; s->calls = 0; s->burst = 0; }
	for (S = 0; S < NSIGS; S++) pend[S] = 0;
}

static struct event_base *make_base(void)
{
	struct event_config *cfg = event_config_new();
	struct event_base *b;
	int i;
	for (i = 0; i < 3; i++) if (i != backend_i) event_config_avoid_method(cfg, BACKENDS[i]);
	if (mech_sigfd) event_config_set_flag(cfg, EVENT_BASE_FLAG_USE_SIGNALFD);
	b = event_base_new_with_config(cfg);
	event_config_free(cfg);
	if (!b) return NULL;
	if (strcmp(event_base_get_method(b), BACKENDS[backend_i])) { c_viol("harness:backend", "got %s", event_base_get_method(b)); }
	if (!!strcmp(b->evsigsel->name, "signal") != mech_sigfd) { c_viol("harness:mech", "evsigsel=%s", b->evsigsel->name); }
	if (npri > 1) event_base_priority_init(b, npri);
	if (!evwatch_prepare_new(b, on_prepare, NULL)) c_viol("harness:watch", "evwatch_prepare_new failed");
	return b;
}

static void gen_acts(struct slot *s, vh_rng *r, int allow_fork_unsafe)
{
	int n = (int)vh_below(r, 4), i;
	(void)allow_fork_unsafe;
	if (vh_chance(r, 1, 3)) n = 0;
	s->nact = n; s->act_pos = 0;
	for (i = 0; i < n; i++) {
		struct act *a = &s->acts[i];
		a->a = a->b = 0;
		switch (vh_below(r, 10)) {
		case 0: case 1: case 2: a->kind = A_RAISE; a->a = vh_chance(r, 2, 3) ? s->sig_i : (int)vh_below(r, NSIGS); a->b = (int)vh_range(r, 1, 3); break;
		case 3: a->kind = A_DEL_SELF; break;
		case 4: a->kind = A_DEL; a->a = (int)vh_below(r, NSLOT); break;
		case 5: a->kind = A_ADD; a->a = (int)vh_below(r, NSLOT); break;
		case 6: a->kind = A_BREAK; break;
		case 7: a->kind = A_READD_SELF; break;
		case 8: a->kind = vh_chance(r, 1, 3) ? A_FREE_SELF : A_NONE; break;
		default: a->kind = A_NONE; break;
		}
	}
}

static void one_round(vh_rng *r, int round, int do_fork, uint64_t *hash)
{
	struct op ops[MAXOPS];
	int nops = 0, i, j, S, nsig, target, forked_at = -1;
	int slot_ids[NSLOT], nslots = 0;

	base = NULL;
	memset(slots, 0, sizeof(slots));
	memset(used_sig, 0, sizeof(used_sig));
	memset(count_added, 0, sizeof(count_added));
	memset(pend, 0, sizeof(pend));
	cb_raise_budget = 60;
	npri = vh_chance(r, 1, 3) ? (int)vh_range(r, 2, 3) : 1;

	{
		int cand[NSIGS], nc = 0;
		for (S = 0; S < NSIGS; S++) {
			/* SIGCHLD is produced by our own forking: keep it out of fork variants */
			if (do_fork && SIGS[S] == SIGCHLD) continue;
			cand[nc++] = S;
		}
		for (i = nc - 1; i > 0; i--) { int k = (int)vh_below(r, (uint64_t)i + 1), t = cand[i]; cand[i] = cand[k]; cand[k] = t; }
		nsig = (int)vh_range(r, 1, vh_opt.thorough ? 5 : 3);
		if (nsig > nc) nsig = nc;
		for (i = 0; i < nsig; i++) used_sig[cand[i]] = 1;
	}
	for (S = 0; S < NSIGS; S++) {
		int n;
		if (!used_sig[S]) continue;
		n = (int)vh_range(r, 1, MAXPER);
		for (j = 0; j < MAXPER; j++) {
			struct slot *s = &slots[S * MAXPER + j];
			s->id = S * MAXPER + j; s->sig_i = S;
			if (j >= n) continue;
			s->persist = vh_chance(r, 2, 3);
			s->own_mem = vh_chance(r, 1, 3);
			s->prio = (int)vh_below(r, 3);
			gen_acts(s, r, 0);
			slot_ids[nslots++] = s->id;
		}
	}
	for (j = 0; j < NSLOT; j++) { slots[j].id = j; slots[j].sig_i = j / MAXPER; }

	/* script */
	target = (int)vh_range(r, 8, vh_opt.thorough ? 60 : 30);
	if (do_fork) forked_at = (int)vh_range(r, 2, target - 2);
	for (i = 0; i < target && nops < MAXOPS - 4; i++) {
		struct op *o = &ops[nops++];
		int sl = slot_ids[vh_below(r, (uint64_t)nslots)];
		o->a = o->b = o->c = 0;
		if (i == forked_at) {
			if (vh_chance(r, 1, 2)) { o->kind = O_STEP; o = &ops[nops++]; o->a = o->b = o->c = 0; }
			o->kind = O_FORK; continue;
		}
		switch (vh_below(r, 12)) {
		case 0: case 1: case 2: o->kind = O_ADD; o->a = sl; break;
		case 3: case 4: o->kind = O_DEL; o->a = sl; break;
		case 5: case 6: case 7:
			o->kind = O_RAISE; o->a = slots[sl].sig_i;
			o->b = vh_chance(r, 1, 6) ? (int)vh_range(r, 20, max_burst) : (int)vh_range(r, 1, 4);
			o->c = (int)vh_below(r, 2);
			break;
		case 8: case 9: o->kind = O_STEP; break;
		case 10: o->kind = vh_chance(r, 1, 2) ? O_PRIOR : O_STEP; o->a = slots[sl].sig_i; break;
		default: o->kind = vh_chance(r, 1, 3) ? O_FREE : O_STEP; o->a = sl; break;
		}
	}
	*hash = vh_hash_bytes(*hash, ops, sizeof(ops[0]) * (size_t)nops);
	for (j = 0; j < NSLOT; j++) { *hash = vh_hash_bytes(*hash, slots[j].acts, sizeof(slots[j].acts[0]) * (size_t)slots[j].nact); *hash = vh_hash_bytes(*hash, &slots[j].persist, sizeof(int)); }
	*hash = vh_hash_bytes(*hash, &backend_i, sizeof(int)); *hash = vh_hash_bytes(*hash, &mech_sigfd, sizeof(int));

	for (S = 0; S < NSIGS; S++) if (used_sig[S]) install_prior(S, r);
	base = make_base();
	if (!base) { c_viol("harness:base", "event_base_new failed"); return; }
	tr("=== round %d backend=%s mech=%s npri=%d fork=%d", round, BACKENDS[backend_i], mech_sigfd ? "signalfd" : "selfpipe", npri, do_fork);
	{
		char cfgname[64];
		snprintf(cfgname, sizeof(cfgname), "cfg_%s_%s", BACKENDS[backend_i], mech_sigfd ? "signalfd" : "selfpipe");
		c_stat(cfgname);
		c_stat("bases");
	}
	if (round == 0 && !in_grandchild) {
		char sb[600]; size_t o = 0;
		for (i = 0; i < nops && i < 24 && o + 24 < sizeof(sb); i++) {
			static const char *ON[] = { "add", "del", "raise", "step", "prior", "fork", "free" };
			o += (size_t)snprintf(sb + o, sizeof(sb) - o, "%s%s:%d:%d", i ? "," : "", ON[ops[i].kind], ops[i].a, ops[i].b);
		}
		c_line("SAMPLE {\"backend\":\"%s\",\"mech\":\"%s\",\"priorities\":%d,\"fork\":%d,\"nops\":%d,\"ops_head\":\"%s\"}",
			BACKENDS[backend_i], mech_sigfd ? "signalfd" : "selfpipe", npri, do_fork, nops, sb);
	}

	for (i = 0; i < nops; i++) {
		struct op *o = &ops[i];
		switch (o->kind) {
		case O_ADD: do_add(&slots[o->a]); break;
		case O_DEL: do_del(&slots[o->a], 0, "last-del"); break;
		case O_FREE: do_del(&slots[o->a], 1, "last-del"); break;
		case O_RAISE: do_deliver(o->a, o->b, o->c, 0); break;
		case O_STEP: step_to_idle(); break;
		case O_PRIOR:
			if (count_added[o->a] == 0) { install_prior(o->a, r); c_stat("prior_changed_between_cycles"); }
			break;
		case O_FORK: {
			pid_t pid;
			int status = 0;
			pid = fork();
			if (pid < 0) break;
			if (pid == 0) {
				int rr, preS = -1;
				in_grandchild = 1; ncst = 0; c_nviol = 0;
				snprintf(where_sfx, sizeof(where_sfx), "-child");
				/* signalfd keeps the signal blocked, so a delivery that reaches the child before it has called
				 * event_reinit stays pending in the child and belongs to the child's events (seed C07-4) */
				if (mech_sigfd && vh_chance(r, 1, 2)) {
					int k0 = (int)vh_below(r, NSIGS), k;
					for (k = 0; k < NSIGS && preS < 0; k++) if (used_sig[(k0 + k) % NSIGS] && count_added[(k0 + k) % NSIGS] > 0) preS = (k0 + k) % NSIGS;
					if (preS >= 0) { tr("== forked child: raise SIG%s before event_reinit", SIGN[preS]); raise(SIGS[preS]); c_stat("child_delivery_before_reinit"); }
				}
				rr = event_reinit(base);
				tr("== forked child: event_reinit -> %d", rr);
				c_stat("child_reinits");
				if (rr != 0) c_viol("C07:reinit-failed", "event_reinit returned %d", rr);
				/* deliveries made to the parent before the fork are not owed to the child (pending signals and
				 * the parent's self-pipe content are not inherited); already-activated events may still run. */
				for (j = 0; j < NSLOT; j++) slots[j].owed = 0;
				if (preS >= 0) {
					pend[preS] += 1;
					for (j = 0; j < NSLOT; j++) if (slots[j].sig_i == preS && slots[j].added) {
						slots[j].credit += 1; slots[j].owed = 1;
						/* event_reinit re-installs the pre-add dispositions while it rebuilds the backend; when that is
						 * SIG_IGN (or SIG_DFL of a signal ignored by default) the kernel discards the pending signal (own key: known finding) */
						slots[j].owed_tag = prior_is_ign[preS] ? ":before-reinit:prior-disposition-ignores" : ":before-reinit";
					}
					c_stat(prior_is_ign[preS] ? "child_delivery_before_reinit_prior_ign" : "child_delivery_before_reinit_prior_other");
				}
			} else {
				while (waitpid(pid, &status, 0) < 0 && errno == EINTR) ;
				c_stat("fork_variants");
				if (WIFSIGNALED(status)) c_line("CHILDEXIT signal %d", WTERMSIG(status));
				else if (WIFEXITED(status) && WEXITSTATUS(status)) c_line("CHILDEXIT status %d", WEXITSTATUS(status));
				/* the child raised signals at itself only: none of that may show up here (calls<=credit
				 * in the following steps), and everything the parent raises must still arrive */
			}
			break; }
		}
	}
	/* drain or not, then free the base with whatever is still added */
	if (vh_chance(r, 1, 2)) step_to_idle();
	{
		int any = 0;
		for (j = 0; j < NSLOT; j++) if (slots[j].added) any = 1;
		if (any) c_stat("base_free_with_events_added");
	}
	tr("event_base_free");
	event_base_free(base);
	base = NULL;
	for (S = 0; S < NSIGS; S++) {
		if (!used_sig[S]) continue;
		check_restored(S, "base-free");
		c_stat("base_free_checks");
		count_added[S] = 0;
		/* and it really is in force again */
		if (prior_is_fn[S]) do_deliver(S, 1, 0, 0);
	}
	for (j = 0; j < NSLOT; j++) slots[j].added = 0;   /* events are abandoned: this process never runs a leak check */
	if (in_grandchild) { c_stat("child_histories"); c_flush_stats(); _exit(0); }
}

static void run_case(vh_rng *r)
{
	uint64_t h = 0;
	int rounds, i, do_fork;
	unsetenv("EVENT_USE_SIGNALFD"); unsetenv("EVENT_NOEPOLL"); unsetenv("EVENT_NOPOLL"); unsetenv("EVENT_NOSELECT");
	unsetenv("EVENT_PRECISE_TIMER"); unsetenv("EVENT_EPOLL_USE_CHANGELIST");
	vclk_enable(1000000);
	{
		/* start from a clean slate whatever the harness process or an earlier case of this batch left */
		sigset_t none; struct sigaction dfl; int S;
		memset(&dfl, 0, sizeof(dfl)); dfl.sa_handler = SIG_DFL; sigemptyset(&dfl.sa_mask);
		for (S = 0; S < NSIGS; S++) { __real_sigaction(SIGS[S], &dfl, NULL); prior_calls[S] = 0; prior_is_fn[S] = 0; prior_is_ign[S] = !SIGFATAL[S]; }
		sigemptyset(&none); sigprocmask(SIG_SETMASK, &none, NULL);
		case_callbacks = case_restores = 0;
	}
	backend_i = (int)((vh_cur_case / 2) % 3);
	mech_sigfd = (int)(vh_cur_case % 2);
	max_burst = 200;
	rounds = vh_chance(r, 1, 4) ? 2 : 1;
	for (i = 0; i < rounds; i++) {
		do_fork = vh_chance(r, 1, 3);
		if (i > 0) { backend_i = (int)vh_below(r, 3); mech_sigfd = (int)vh_below(r, 2); }
		one_round(r, i, do_fork, &h);
	}
	if (case_callbacks > 0 && case_restores > 0) c_line("HASH %llx", (unsigned long long)h);
	c_stat("histories");
}

#define BATCH 64
int main(int argc, char **argv)
{
	long idx; vh_rng r;
	struct bcase batch[BATCH];
	int n = 0, more = 1;
	vh_init(argc, argv);
	while (more) {
		more = vh_next_case(&idx, &r);
		if (more) { batch[n].idx = idx; batch[n].rng = r; n++; }
		if (n == (vh_opt.n1 > 0 && vh_opt.n1 < BATCH ? vh_opt.n1 : 12) || (!more && n > 0)) {
			int start = 0;
			while (start < n) start += run_in_child(run_case, batch + start, n - start);
			n = 0;
		}
	}
	vh_finish();
	return watchdog_fired ? 3 : 0;
}
