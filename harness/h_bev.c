/* h_bev: C17 (byte stream intact, in order, then EOF) and C18 (watermarks)
 * for socket / pair / filter / TLS bufferevents.
 *
 *   --mode stream     C17 sessions (keys C17:...)
 *   --mode watermark  C18 sessions (keys C18:...)
 *   --arg pth         use evthread_use_pthreads() instead of the lock monitor
 *
 * One case = one session: two endpoints A (forward writer) and B (forward
 * reader), each a stack  base transport -> [TLS] -> 0..3 filters.  The
 * generator, the application model and the oracles are all in this file; the
 * oracle knows only the byte stream the application wrote (64-bit counter
 * blocks) and the public semantics of the API.
 */
#include "vh.h"
#include <errno.h>
#include <unistd.h>
#include <fcntl.h>
#include <poll.h>
#include <sys/socket.h>
#include <sys/ioctl.h>
#include <sys/un.h>
#include <netinet/in.h>
#include <netinet/tcp.h>
#include <arpa/inet.h>

#include <event2/event.h>
#include <event2/buffer.h>
#include <event2/bufferevent.h>
#include <event2/bufferevent_struct.h>
#include <event2/bufferevent_ssl.h>
#include <event2/listener.h>
#include <event2/thread.h>
#include <event2/util.h>

#include <openssl/ssl.h>
#include <openssl/err.h>
#include <openssl/pem.h>
#include <openssl/x509.h>
#include <openssl/evp.h>
#include <openssl/rsa.h>

#include <mbedtls/ssl.h>
#include <mbedtls/entropy.h>
#include <mbedtls/ctr_drbg.h>
#include <mbedtls/x509_crt.h>
#include <mbedtls/pk.h>

#include "bufferevent-internal.h"
#include "ssl-compat.h"

int __real_poll(struct pollfd *, nfds_t, int);
int __real_ioctl(int, unsigned long, void *);

static const char *PROP = "C17";
static int wm_mode;

#define VLOG(...) do { if (vh_opt.verbose) { fprintf(stderr, __VA_ARGS__); fputc('\n', stderr); } } while (0)

/* ------------------------------------------------------------------ TLS material */
static SSL_CTX *ossl_srv, *ossl_cli;
static mbedtls_entropy_context m_entropy;
static mbedtls_ctr_drbg_context m_drbg;
static mbedtls_x509_crt m_crt;
static mbedtls_pk_context m_pk;
static mbedtls_ssl_config m_conf_srv, m_conf_cli;
static int have_mbed;

static void tls_global_init(void)
{
	EVP_PKEY *key = EVP_RSA_gen(2048);
	X509 *x = X509_new();
	X509_NAME *name = X509_NAME_new();
	time_t now = time(NULL) - 86400;
	BIO *bio;
	char *pem;
	long n;
	if (!key || !x || !name) { fprintf(stderr, "h_bev: cannot generate TLS key\n"); exit(2); }
	X509_set_version(x, 2);
	ASN1_INTEGER_set(X509_get_serialNumber(x), 4711);
	X509_NAME_add_entry_by_txt(name, "CN", MBSTRING_ASC, (const unsigned char *)"example.com", -1, -1, 0);
	X509_set_subject_name(x, name);
	X509_set_issuer_name(x, name);
	X509_NAME_free(name);
	X509_time_adj(X509_getm_notBefore(x), 0, &now);
	now += 10 * 86400;
	X509_time_adj(X509_getm_notAfter(x), 0, &now);
	X509_set_pubkey(x, key);
	if (!X509_sign(x, key, EVP_sha256())) { fprintf(stderr, "h_bev: X509_sign failed\n"); exit(2); }

	ossl_srv = SSL_CTX_new(TLS_server_method());
	ossl_cli = SSL_CTX_new(TLS_client_method());
	if (!ossl_srv || !ossl_cli || SSL_CTX_use_certificate(ossl_srv, x) != 1 || SSL_CTX_use_PrivateKey(ossl_srv, key) != 1) {
		fprintf(stderr, "h_bev: SSL_CTX setup failed\n"); exit(2);
	}
	SSL_CTX_set_verify(ossl_cli, SSL_VERIFY_NONE, NULL);

	/* same key + certificate for mbedTLS, handed over as PEM in memory */
	mbedtls_entropy_init(&m_entropy);
	mbedtls_ctr_drbg_init(&m_drbg);
	mbedtls_x509_crt_init(&m_crt);
	mbedtls_pk_init(&m_pk);
	mbedtls_ssl_config_init(&m_conf_srv);
	mbedtls_ssl_config_init(&m_conf_cli);
	have_mbed = 1;
	if (mbedtls_ctr_drbg_seed(&m_drbg, mbedtls_entropy_func, &m_entropy, (const unsigned char *)"h_bev", 5) != 0) have_mbed = 0;
	bio = BIO_new(BIO_s_mem());
	PEM_write_bio_PrivateKey(bio, key, NULL, NULL, 0, NULL, NULL);
	BIO_write(bio, "\0", 1);
	n = BIO_get_mem_data(bio, &pem);
	if (have_mbed && mbedtls_pk_parse_key(&m_pk, (const unsigned char *)pem, (size_t)n, NULL, 0) != 0) have_mbed = 0;
	BIO_free(bio);
	bio = BIO_new(BIO_s_mem());
	PEM_write_bio_X509(bio, x);
	BIO_write(bio, "\0", 1);
	n = BIO_get_mem_data(bio, &pem);
	if (have_mbed && mbedtls_x509_crt_parse(&m_crt, (const unsigned char *)pem, (size_t)n) != 0) have_mbed = 0;
	BIO_free(bio);
	if (have_mbed) {
		if (mbedtls_ssl_config_defaults(&m_conf_srv, MBEDTLS_SSL_IS_SERVER, MBEDTLS_SSL_TRANSPORT_STREAM, MBEDTLS_SSL_PRESET_DEFAULT) ||
		    mbedtls_ssl_config_defaults(&m_conf_cli, MBEDTLS_SSL_IS_CLIENT, MBEDTLS_SSL_TRANSPORT_STREAM, MBEDTLS_SSL_PRESET_DEFAULT))
			have_mbed = 0;
	}
	if (have_mbed) {
		mbedtls_ssl_conf_rng(&m_conf_srv, mbedtls_ctr_drbg_random, &m_drbg);
		mbedtls_ssl_conf_rng(&m_conf_cli, mbedtls_ctr_drbg_random, &m_drbg);
		if (mbedtls_ssl_conf_own_cert(&m_conf_srv, &m_crt, &m_pk)) have_mbed = 0;
		mbedtls_ssl_conf_authmode(&m_conf_cli, MBEDTLS_SSL_VERIFY_NONE);
	}
	X509_free(x);
	EVP_PKEY_free(key);
}
static void tls_global_free(void)
{
	SSL_CTX_free(ossl_srv); SSL_CTX_free(ossl_cli);
	mbedtls_ssl_config_free(&m_conf_srv); mbedtls_ssl_config_free(&m_conf_cli);
	mbedtls_x509_crt_free(&m_crt); mbedtls_pk_free(&m_pk);
	mbedtls_ctr_drbg_free(&m_drbg); mbedtls_entropy_free(&m_entropy);
}

/* ------------------------------------------------------------------ session model */
#define MAXL 6
enum { LK_SOCK, LK_PAIR, LK_FILT, LK_OSSL, LK_MBED };
enum { FT_NULL, FT_PASS, FT_CHUNK, FT_XOR, FT_REC, FT_HOLD };
/* FT_HOLD: a stateful output filter in the manner of a compressor / block cipher (cf. the zlib filter of
 * regress_zlib.c): in BEV_NORMAL mode it takes everything it is given into its own context and passes on
 * whole blocks of k bytes only; the tail (< k bytes) stays in the context until the filter is called with
 * BEV_FLUSH or BEV_FINISHED.  Input direction: pass-through.  Only in A's stack (forward writer). */
enum { BASE_TCP, BASE_UNIX, BASE_PAIR };
enum { TLS_NONE, TLS_OSSL, TLS_MBED };
enum { RP_ALL, RP_SOME, RP_LAZY };
/* shutdown modes of the forward stream */
enum { SM_SHUTWR_DRAINED, SM_CLOSE_NOTIFY, SM_FREE_DRAINED, SM_FINISHED_FLUSH, SM_FREE_PENDING, SM_SHUTWR_PENDING, SM__N };
static const char *sm_name[] = { "shutwr_drained", "close_notify", "free_drained", "finished_flush", "free_pending", "shutwr_pending" };

struct session;
struct endpoint;
struct fctx {
	int type;
	struct endpoint *ep;
	int layer;
	size_t k;                 /* FT_CHUNK: bytes per call; FT_HOLD: block size */
	unsigned char *hold;      /* FT_HOLD: bytes taken from the output buffer and not passed on yet */
	size_t hold_len, hold_cap;
	uint64_t xkey_out, xkey_in, in_pos, out_pos;
	unsigned in_hdr_have; unsigned char in_hdr[2]; size_t in_remaining; size_t rec_max;
	vh_rng rng;
	unsigned char xbuf[2][8192];  /* per direction: nested filter calls must not share scratch space */
};
struct moncb { struct endpoint *ep; int layer; };
struct layer {
	int kind, ftype, opts, has_fd;
	struct bufferevent *bev;
	struct fctx *fx;
	struct moncb mon;
};
struct endpoint {
	struct session *s;
	int side;                 /* 0 = A, 1 = B */
	struct layer L[MAXL];
	int nl;
	struct bufferevent *top;
	int freed;
	int fd;
	int tls, tls_fdmode, tls_layer;
	/* reader role */
	uint64_t rkey, consumed;
	int broken;
	int rp_mode, rd_api, tog_in_cb;
	long n_readcb, n_writecb, n_eventcb;
	int connected;
	int n_term_rd, n_term_wr;
	short term_what;
	/* writer role */
	uint64_t wkey, written, total;
	int wr_api_bias, write_in_cb;
	size_t max_chunk;
	/* watermark monitors (top buffers) */
	size_t r_max_win, r_low_min_win; int r_expect_cb, r_high_seen_win;
	size_t w_min_win, w_low_max_win; int w_expect_cb;
	int in_rflush;
	int n_hold;               /* FT_HOLD filters in this stack */
	int hold_rec_above;       /* a framing filter sits above one of them: it holds framed bytes, not payload */
	int wr_reenabled, rd_reenabled, rwm_changed, rflushed;   /* enable after disable happened and nothing moved since */
	size_t last_in_len;
	long wm_suspensions, low_gated;
};
struct session {
	struct event_base *base;
	vh_rng rng;
	struct endpoint ep[2];
	int base_kind, tls, tls_fdmode, nfilt;
	int wire[3];              /* per filter level: 0 none, FT_XOR, FT_REC */
	int connect_via_bev;
	int opt[2][MAXL];         /* bufferevent options per side and layer */
	int ft[2][3];             /* filter type per side and filter level */
	size_t chunk_k[2][3];
	uint64_t xk_fwd[3], xk_rev[3];
	int tls12, dirty[2], batch[2], init_rd[2], init_wr_off[2];
	int sndbuf, rcvbuf, pair_swap, hs_first;
	size_t rwm[2][2];         /* initial read watermarks of the tops [side][low,high] */
	size_t wwm_top[2];        /* initial low write watermark of the tops */
	size_t uwm[2][MAXL][2];   /* write watermarks of underlying layers */
	size_t urh[2][MAXL];      /* read high watermark of underlying layers */
	int wm_drain_keep;        /* drain phase keeps the watermarks (poll-drain) */
	struct evconnlistener *lis;
	int accepted_fd;
	int shut_mode, shut_started, b_disabled_at_shut;
	int fault_plan, reset_planned;
	long sf_injected0;
	int in_flush;             /* app is inside bufferevent_flush(mode != NORMAL) */
	int strict;               /* forward stream: EOF must follow the last byte */
	int use_wm;
	int pair_flush_partial;   /* a BEV_FINISHED flush over a pair moved some but not all pending bytes */
	int tls_retry_hazard;     /* data was appended to a TLS bev's output while its last SSL write was blocked */
	int ended;                /* stop the session (violation found / terminal) */
	long steps;
	char cls[48];
	uint64_t cfg_hash;
	int nontrivial;
};

static char keybuf[128];
static const char *mkkey(struct session *s, const char *rule)
{
	snprintf(keybuf, sizeof(keybuf), "%s:%s:%s", PROP, rule, s->cls);
	return keybuf;
}
static struct endpoint *peer(struct endpoint *ep) { return &ep->s->ep[!ep->side]; }
static const char *side_name(struct endpoint *ep) { return ep->side ? "B" : "A"; }

/* ------------------------------------------------------------------ the byte stream */
/* byte at stream offset o of the stream with key K: little-endian block (o/8) ^ K */
static void gen_bytes(uint64_t key, uint64_t off, unsigned char *p, size_t n)
{
	size_t i = 0;
	while (i < n && ((off + i) & 7)) { uint64_t v = ((off + i) >> 3) ^ key; p[i] = (unsigned char)(v >> (8 * ((off + i) & 7))); i++; }
	for (; i + 8 <= n; i += 8) { uint64_t v = ((off + i) >> 3) ^ key; memcpy(p + i, &v, 8); }
	for (; i < n; i++) { uint64_t v = ((off + i) >> 3) ^ key; p[i] = (unsigned char)(v >> (8 * ((off + i) & 7))); }
}
/* verify bytes the application consumed; on the first mismatch classify it */
static void verify_at(struct endpoint *ep, uint64_t at, const unsigned char *p, size_t n)
{
	static unsigned char exp[65536];
	size_t done = 0;
	if (ep->broken) return;
	while (done < n) {
		size_t m = n - done > sizeof(exp) ? sizeof(exp) : n - done, i;
		gen_bytes(ep->rkey, at, exp, m);
		if (memcmp(exp, p + done, m) != 0) {
			uint64_t off, want_blk, got_blk = 0;
			const char *rule = "stream-corrupt";
			char hx[40];
			for (i = 0; i < m && exp[i] == p[done + i]; i++) ;
			off = at + i;
			want_blk = off >> 3;
			/* decode the next aligned block of what we got, to locate it in the stream */
			{
				size_t a = done + i + ((8 - (off & 7)) & 7);
				if (a + 8 <= n) {
					memcpy(&got_blk, p + a, 8); got_blk ^= ep->rkey;
					if (got_blk < ((off + 7) >> 3)) rule = "stream-dup";
					else if (got_blk > ((off + 7) >> 3) && got_blk < (peer(ep)->total >> 3) + 2) rule = "stream-loss";
				}
			}
			vh_hex(hx, sizeof(hx), p + done + i, n - done - i > 16 ? 16 : n - done - i);
			if (ep->s->tls_retry_hazard) {
				static char r2[64];
				snprintf(r2, sizeof(r2), "%s-after-append-to-blocked-tls-write", rule);
				rule = r2;
			}
			vh_viol(mkkey(ep->s, rule), "%s reader: mismatch at stream offset %llu (block %llu); got bytes %s.. which decode to block %llu; peer wrote %llu bytes",
				side_name(ep), (unsigned long long)off, (unsigned long long)want_blk, hx, (unsigned long long)got_blk,
				(unsigned long long)peer(ep)->written);
			ep->broken = 1; ep->s->ended = 1;
			return;
		}
		at += m; done += m;
	}
	if (at > peer(ep)->written) {
		vh_viol(mkkey(ep->s, "stream-extra"), "%s reader consumed %llu bytes but peer wrote only %llu", side_name(ep),
			(unsigned long long)at, (unsigned long long)peer(ep)->written);
		ep->broken = 1; ep->s->ended = 1;
	}
}

/* ------------------------------------------------------------------ filters */
static void xor_apply(uint64_t key, uint64_t pos, unsigned char *p, size_t n)
{
	size_t i;
	uint64_t blk = 0;
	int have = 0;
	for (i = 0; i < n; i++, pos++) {
		if (!have || !(pos & 7)) { blk = vh_mix64(key + (pos >> 3)); have = 1; }
		p[i] ^= (unsigned char)(blk >> (8 * (pos & 7)));
	}
}
static void check_overfill(struct endpoint *ep, int ulayer, const char *who);
static void free_ref(const void *data, size_t len, void *extra);
/* payload bytes that sit in the contexts of ep's hold-back filters */
static size_t held_bytes(struct endpoint *ep)
{
	size_t t = 0;
	int j;
	if (ep->freed || !ep->n_hold) return 0;   /* (the contexts die with the bufferevents) */
	for (j = 0; j < ep->nl; j++)
		if (ep->L[j].kind == LK_FILT && ep->L[j].ftype == FT_HOLD && ep->L[j].fx) t += ep->L[j].fx->hold_len;
	return t;
}

static int filt_depth;
static struct evbuffer *active_src[256];
static size_t active_before[256], active_n[256], active_grown[256];   /* src length before the removal in progress, its size, bytes others added since */
static int active_type[256], active_state[256];                     /* state: 0 unjudged, 1 source was consistent, 2 source was stale */
/* called from the evbuffer monitors: somebody added n bytes to buf */
static void note_growth(struct evbuffer *buf, size_t n)
{
	int i;
	for (i = 0; i < filt_depth; i++) if (active_src[i] == buf) active_grown[i] += n;
}
static enum bufferevent_filter_result filt_run2(struct fctx *fx, int out, struct evbuffer *src, struct evbuffer *dst,
    ev_ssize_t lim, enum bufferevent_flush_mode mode, size_t avail, size_t cap, size_t *movedp)
{
	size_t n, moved = 0;
	(void)lim; (void)mode;
	switch (fx->type) {
	case FT_PASS:
		n = avail < cap ? avail : cap;
		active_before[filt_depth - 1] = evbuffer_get_length(src); active_grown[filt_depth - 1] = 0; active_n[filt_depth - 1] = n;
		if (n && evbuffer_remove_buffer(src, dst, n) != (int)n) return BEV_ERROR;
		active_n[filt_depth - 1] = 0;
		*movedp = moved = n;
		break;
	case FT_HOLD:
		if (out) {
			size_t emit, had = fx->hold_len;
			unsigned char *p;
			/* take everything offered, whatever the mode */
			if (avail) {
				if (fx->hold_len + avail > fx->hold_cap) {
					size_t nc = (fx->hold_len + avail) * 2 + 64;
					unsigned char *np = realloc(fx->hold, nc);
					if (!np) return BEV_ERROR;
					fx->hold = np; fx->hold_cap = nc;
				}
				if (evbuffer_remove(src, fx->hold + fx->hold_len, avail) != (int)avail) return BEV_ERROR;
				fx->hold_len += avail;
				*movedp = moved = avail;
			}
			if (mode == BEV_NORMAL) emit = fx->hold_len - fx->hold_len % fx->k;
			else {
				emit = fx->hold_len;
				vh_stat("hold_filter_calls_flushmode");
				if (had) { vh_stat("hold_tail_emitted_on_flush"); if (!avail) vh_stat("hold_flush_with_empty_output"); }
			}
			if (emit > cap) emit = cap;   /* (never in practice: FT_HOLD is kept out of sessions with write watermarks) */
			if (!emit) break;
			/* detach the blocks from the context before dst sees them: appending to dst runs the lower
			 * layers, which may call back into this filter (be_filter_writecb) with more data */
			p = malloc(emit);
			if (!p) return BEV_ERROR;
			memcpy(p, fx->hold, emit);
			if (fx->hold_len > emit) memmove(fx->hold, fx->hold + emit, fx->hold_len - emit);
			fx->hold_len -= emit;
			*movedp = moved += emit;
			vh_stat_add("hold_bytes_emitted", (long)emit);
			if (evbuffer_add_reference(dst, p, emit, free_ref, NULL) != 0) { free(p); return BEV_ERROR; }
			break;
		}
		/* input direction: pass-through */
		n = avail < cap ? avail : cap;
		active_before[filt_depth - 1] = evbuffer_get_length(src); active_grown[filt_depth - 1] = 0; active_n[filt_depth - 1] = n;
		if (n && evbuffer_remove_buffer(src, dst, n) != (int)n) return BEV_ERROR;
		active_n[filt_depth - 1] = 0;
		*movedp = moved = n;
		break;
	case FT_CHUNK:
		n = avail < cap ? avail : cap;
		if (n > fx->k) n = fx->k;
		active_before[filt_depth - 1] = evbuffer_get_length(src); active_grown[filt_depth - 1] = 0; active_n[filt_depth - 1] = n;
		if (n && evbuffer_remove_buffer(src, dst, n) != (int)n) return BEV_ERROR;
		active_n[filt_depth - 1] = 0;
		*movedp = moved = n;
		break;
	case FT_XOR:
		n = avail < cap ? avail : cap;
		while (moved < n) {
			unsigned char *xb = fx->xbuf[out];
			size_t m = n - moved > sizeof(fx->xbuf[0]) ? sizeof(fx->xbuf[0]) : n - moved;
			if (vh_opt.verbose > 1) VLOG("  [%s] xor %s layer %d pos=%llu m=%zu avail=%zu lim=%ld", side_name(fx->ep), out ? "out" : "in", fx->layer, (unsigned long long)(out ? fx->out_pos : fx->in_pos), m, avail, (long)lim);
			if (evbuffer_remove(src, xb, m) != (int)m) return BEV_ERROR;
			if (out) { xor_apply(fx->xkey_out, fx->out_pos, xb, m); fx->out_pos += m; }
			else { xor_apply(fx->xkey_in, fx->in_pos, xb, m); fx->in_pos += m; }
			evbuffer_add(dst, xb, m);
			moved += m; *movedp = moved;
		}
		break;
	case FT_REC:
		if (out) {
			/* frame everything we have: [len:2 LE][payload]; never withholds data */
			while (avail) {
				size_t m = 1 + (size_t)vh_below(&fx->rng, fx->rec_max);
				unsigned char h[2];
				if (m > avail) m = avail;
				h[0] = (unsigned char)(m & 0xff); h[1] = (unsigned char)(m >> 8);
				evbuffer_add(dst, h, 2);
				if (evbuffer_remove_buffer(src, dst, m) != (int)m) return BEV_ERROR;
				avail -= m; moved += m; *movedp = moved;
			}
		} else {
			while (avail && moved < cap) {
				if (!fx->in_remaining) {
					while (fx->in_hdr_have < 2 && avail) { evbuffer_remove(src, &fx->in_hdr[fx->in_hdr_have++], 1); avail--; }
					if (fx->in_hdr_have < 2) break;
					fx->in_remaining = fx->in_hdr[0] | ((size_t)fx->in_hdr[1] << 8);
					fx->in_hdr_have = 0;
					if (!fx->in_remaining) return BEV_ERROR;
				}
				n = fx->in_remaining;
				if (n > avail) n = avail;
				if (n > cap - moved) n = cap - moved;
				if (n && evbuffer_remove_buffer(src, dst, n) != (int)n) return BEV_ERROR;
				fx->in_remaining -= n; avail -= n; moved += n; *movedp = moved;
				/* one record per call, like a real decoder: the library has to call again, and the next
				 * call may find only a fragment of a header (NEED_MORE after OK within one pass) */
				if (!fx->in_remaining && moved) break;
			}
		}
		break;
	}
	return BEV_OK;
}
/* sum of the extents evbuffer_peek reports; equals evbuffer_get_length() on a consistent buffer */
static size_t chain_sum(struct evbuffer *b)
{
	struct evbuffer_iovec sv[16], *v = sv;
	int n = evbuffer_peek(b, -1, NULL, NULL, 0), i;
	size_t t = 0;
	if (n <= 0) return 0;
	if (n > 16) v = malloc(sizeof(*v) * (size_t)n);
	n = evbuffer_peek(b, -1, NULL, v, n);
	for (i = 0; i < n; i++) t += v[i].iov_len;
	if (v != sv) free(v);
	return t;
}
static enum bufferevent_filter_result filt_run(struct fctx *fx, int out, struct evbuffer *src, struct evbuffer *dst,
    ev_ssize_t lim, enum bufferevent_flush_mode mode)
{
	size_t avail = evbuffer_get_length(src), n, moved = 0;
	size_t cap = lim < 0 ? (size_t)-1 : (size_t)lim;
	enum bufferevent_filter_result res;
	{
		/* Are we re-entered on a source buffer that an outer filter call of ours is still moving
		 * data out of?  evbuffer_remove_buffer() copies the tail with evbuffer_add(dst) -- which
		 * runs dst's callbacks, here the lower filter, whose write callback re-enters this filter --
		 * before it has removed the copied bytes from src.  Touching src now duplicates data and
		 * underflows total_len, so report and keep our hands off. */
		int i;
		for (i = 0; i < filt_depth; i++)
			if (active_src[i] == src) {
				vh_stat("filter_reentered_on_same_source");
				/* copying / framing filters hold bytes between their calls: they simply refuse */
				if (fx->ep->s->ended || active_type[i] == FT_XOR || active_type[i] == FT_REC) return BEV_NEED_MORE;
				if (active_state[i] == 2) return BEV_NEED_MORE;
				if (active_state[i] == 1 || !active_n[i]) continue;
				/* first re-entry while entry i is inside evbuffer_remove_buffer(src, dst, n): a consistent
				 * src has already given up those n bytes */
				if (avail == active_before[i] - active_n[i] + active_grown[i]) {
					active_state[i] = 1; vh_stat("filter_reentry_saw_consistent_source");
					continue;
				}
				active_state[i] = 2;
				vh_viol(mkkey(fx->ep->s, "evbuffer-remove-buffer-reentrancy"),
				    "%s filter layer %d (%s): re-entered (be_filter_writecb / inbuf callback) from inside its own partial evbuffer_remove_buffer(src, dst, %zu): src had %zu bytes, %zu were added since, and it reports %zu, i.e. it still counts the bytes already copied to dst",
				    side_name(fx->ep), fx->layer, out ? "output" : "input", active_n[i], active_before[i], active_grown[i], avail);
				fx->ep->s->ended = 1;
				return BEV_NEED_MORE;
			}
		if (filt_depth) vh_stat("filter_calls_nested");
	}
	if (filt_depth >= 255) { vh_stat("filter_nesting_too_deep"); return BEV_NEED_MORE; }
	active_src[filt_depth] = src; active_before[filt_depth] = avail; active_n[filt_depth] = 0; active_grown[filt_depth] = 0;
	active_state[filt_depth] = 0; active_type[filt_depth] = fx->type;
	filt_depth++;
	res = filt_run2(fx, out, src, dst, lim, mode, avail, cap, &moved);
	filt_depth--;
	if (res == BEV_ERROR) return res;
	vh_stat(out ? "filter_out_calls" : "filter_in_calls");
	if (mode != BEV_NORMAL) vh_stat("filter_calls_flushmode");
	if (out && mode == BEV_NORMAL) check_overfill(fx->ep, fx->layer - 1, "filter");
	if (!moved) { vh_stat("filter_need_more"); return BEV_NEED_MORE; }
	return BEV_OK;
}
static enum bufferevent_filter_result filt_in(struct evbuffer *src, struct evbuffer *dst, ev_ssize_t lim,
    enum bufferevent_flush_mode mode, void *ctx) { return filt_run(ctx, 0, src, dst, lim, mode); }
static enum bufferevent_filter_result filt_out(struct evbuffer *src, struct evbuffer *dst, ev_ssize_t lim,
    enum bufferevent_flush_mode mode, void *ctx) { return filt_run(ctx, 1, src, dst, lim, mode); }
static void fctx_free(void *p) { struct fctx *fx = p; free(fx->hold); free(fx); }

/* ------------------------------------------------------------------ watermark monitors */
static int layer_is_tls(const struct layer *l) { return l->kind == LK_OSSL || l->kind == LK_MBED; }
static const char *kind_name(const struct layer *l)
{
	static const char *n[] = { "sock", "pair", "filt", "ossl", "mbed" };
	return n[l->kind];
}
/* CALIBRATED: bufferevent.h documents that an SSL bufferevent "can overrun" the read
 * high watermark without giving a bound.  bufferevent_ssl.c asks evbuffer_reserve_space
 * for (high - len) bytes but fills the whole extent it is given and then reads the rest
 * of the pending TLS record, so the bound adopted here is: reading only *starts* below
 * the mark, and one read adds at most one evbuffer extent plus one TLS record. */
#define TLS_OVERRUN_MAX (16384 + 65536)

/* underlying's output must not be pushed past its high write watermark in BEV_NORMAL */
static void check_overfill(struct endpoint *ep, int ulayer, const char *who)
{
	struct bufferevent *u;
	size_t high, len;
	if (ulayer < 0 || ep->freed) return;
	u = ep->L[ulayer].bev;
	if (!u || ep->s->in_flush) return;
	high = u->wm_write.high;
	len = evbuffer_get_length(u->output);
	if (high) vh_stat("underlying_out_checked");
	if (high && len > high) {
		vh_viol(mkkey(ep->s, "filter-overfill"), "%s: layer %d (%s) output is %zu > its high write watermark %zu after the %s layer above wrote in BEV_NORMAL (seen by %s)",
			side_name(ep), ulayer, kind_name(&ep->L[ulayer]), len, high, kind_name(&ep->L[ulayer + 1]), who);
		ep->s->ended = 1;
	}
}
static void mon_in_cb(struct evbuffer *buf, const struct evbuffer_cb_info *info, void *arg)
{
	struct moncb *m = arg;
	struct endpoint *ep = m->ep;
	struct session *s = ep->s;
	struct layer *l = &ep->L[m->layer];
	struct bufferevent *bev = l->bev;
	size_t len = evbuffer_get_length(buf), high;
	int top = (m->layer == ep->nl - 1);
	if (info->n_added) note_growth(buf, info->n_added);
	if (vh_opt.verbose > 1 && top) VLOG("  [%s] top input change: orig=%zu +%zu -%zu -> %zu", side_name(ep), info->orig_size, info->n_added, info->n_deleted, len);
	if (!info->n_added || ep->freed || !bev) return;
	high = bev->wm_read.high;
	if (high) vh_stat("in_growth_checked_vs_high");
	if (high && len > high) {
		if (s->in_flush || ep->in_rflush) {
			/* CALIBRATED: BEV_FLUSH/BEV_FINISHED deliberately ignore watermarks
			 * (be_pair_transfer(ignore_wm), filters get limit -1; header: "except when flushing") */
			vh_stat("high_overrun_by_flush");
		} else if (layer_is_tls(l)) {
			size_t over = len - high;
			vh_stat("tls_overrun");
			if (over > 16384) vh_stat("tls_overrun_gt_record");
			if (info->orig_size >= high && info->n_deleted == 0) {
				vh_viol(mkkey(s, "tls-read-while-full"), "%s: TLS layer %d added %zu bytes to an input already at %zu >= high %zu",
					side_name(ep), m->layer, info->n_added, info->orig_size, high);
				s->ended = 1;
			} else if (over > TLS_OVERRUN_MAX) {
				vh_viol(mkkey(s, "tls-overrun-unbounded"), "%s: TLS layer %d input %zu exceeds high %zu by %zu (> extent + record)",
					side_name(ep), m->layer, len, high, over);
				s->ended = 1;
			}
		} else {
			vh_viol(mkkey(s, "read-high-exceeded"), "%s: layer %d (%s) input grew by %zu to %zu > high read watermark %zu (was %zu) outside any flush",
				side_name(ep), m->layer, kind_name(l), info->n_added, len, high, info->orig_size);
			s->ended = 1;
		}
	}
	if (top) {
		if (len > ep->r_max_win) ep->r_max_win = len;
		if (len >= bev->wm_read.low && (bev->enabled & EV_READ) && !ep->in_rflush && bev->readcb)
			ep->r_expect_cb = 1;
		if (high && len >= high) ep->wm_suspensions++;
	}
}
static void mon_out_cb(struct evbuffer *buf, const struct evbuffer_cb_info *info, void *arg)
{
	struct moncb *m = arg;
	struct endpoint *ep = m->ep;
	struct bufferevent *bev = ep->L[m->layer].bev;
	size_t len = evbuffer_get_length(buf);
	int top = (m->layer == ep->nl - 1);
	if (info->n_added) note_growth(buf, info->n_added);
	if (ep->freed || !bev) return;
	if (info->n_added && layer_is_tls(&ep->L[m->layer])) {
		/* witness class for stream errors below a TLS layer: bufferevent_ssl.c remembers only the
		 * length of a blocked write (last_write) and re-peeks the output buffer on retry */
		struct bufferevent_ssl *bs = bufferevent_ssl_upcast(bev);
		if (bs->last_write > 0) { ep->s->tls_retry_hazard = 1; vh_stat("tls_append_while_write_blocked"); }
	}
	if (!top) {
		if (info->n_added) check_overfill(ep, m->layer, "evbuffer callback");
		return;
	}
	if (info->n_deleted) {
		if (len < ep->w_min_win) ep->w_min_win = len;
		if (len <= bev->wm_write.low && bev->writecb) ep->w_expect_cb = 1;
	}
}

/* ------------------------------------------------------------------ application model */
static unsigned char rbuf[65536];
static int top_deferred(struct endpoint *ep)
{
	struct layer *l = &ep->L[ep->nl - 1];
	return (l->opts & BEV_OPT_DEFER_CALLBACKS) || l->kind == LK_PAIR;
}
static int consume_depth;
/* The application removes up to max bytes from its input and checks them.  A non-deferred
 * bufferevent may run the read callback again from inside the removal call (draining below
 * the high watermark resumes reading synchronously), so the stream position of the bytes
 * being removed is reserved before the call and the bytes are checked against it after. */
static size_t consume(struct endpoint *ep, size_t max)
{
	struct evbuffer *in;
	size_t len, n, got = 0, m;
	uint64_t at;
	unsigned char *lbuf;
	int r;
	if (ep->freed) return 0;
	in = bufferevent_get_input(ep->top);
	len = evbuffer_get_length(in);
	n = len < max ? len : max;
	if (!n) return 0;
	if (consume_depth) vh_stat("consume_nested_in_drain");
	lbuf = consume_depth ? malloc(sizeof(rbuf)) : rbuf;
	consume_depth++;
	switch (ep->rd_api) {
	case 1: {
		struct evbuffer *tmp = evbuffer_new();
		at = ep->consumed; ep->consumed += n;
		r = evbuffer_remove_buffer(in, tmp, n);
		if (r != (int)n) { vh_viol(mkkey(ep->s, "remove-short"), "evbuffer_remove_buffer(input, %zu) returned %d with %zu buffered", n, r, len); ep->s->ended = 1; }
		else verify_at(ep, at, evbuffer_pullup(tmp, -1), n);
		got = n;
		evbuffer_free(tmp);
		break; }
	case 2:
		while (got < n) {
			m = evbuffer_get_contiguous_space(in);
			if (!m) break;
			if (m > n - got) m = n - got;
			verify_at(ep, ep->consumed, evbuffer_pullup(in, (ev_ssize_t)m), m);
			ep->consumed += m;
			got += m;
			evbuffer_drain(in, m);
		}
		break;
	case 3:
		if (n == len) {
			struct evbuffer *tmp = evbuffer_new();
			at = ep->consumed; ep->consumed += n;
			bufferevent_read_buffer(ep->top, tmp);
			got = evbuffer_get_length(tmp);
			if (got != n) { vh_viol(mkkey(ep->s, "remove-short"), "bufferevent_read_buffer moved %zu of %zu buffered bytes", got, n); ep->s->ended = 1; }
			else verify_at(ep, at, evbuffer_pullup(tmp, -1), got);
			evbuffer_free(tmp);
			break;
		}
		/* fall through */
	default:
		while (got < n) {
			size_t rr, cur = evbuffer_get_length(in);   /* a nested read callback may have taken some already */
			m = n - got > sizeof(rbuf) ? sizeof(rbuf) : n - got;
			if (m > cur) m = cur;
			if (!m) break;
			at = ep->consumed; ep->consumed += m;
			rr = bufferevent_read(ep->top, lbuf, m);
			if (rr != m) { vh_viol(mkkey(ep->s, "remove-short"), "bufferevent_read(%zu) returned %zu with %zu buffered", m, rr, n - got); ep->s->ended = 1; break; }
			verify_at(ep, at, lbuf, m);
			got += m;
		}
	}
	consume_depth--;
	if (lbuf != rbuf) free(lbuf);
	vh_stat_add("bytes_consumed", (long)got);
	return got;
}
static void app_enable(struct endpoint *ep, short what)
{
	short was = ep->top->enabled;
	if ((what & EV_WRITE) && !(was & EV_WRITE) && evbuffer_get_length(ep->top->output)) ep->wr_reenabled = 1;
	if ((what & EV_READ) && !(was & EV_READ)) ep->rd_reenabled = 1;
	bufferevent_enable(ep->top, what);
}
static size_t pick_chunk(struct endpoint *ep)
{
	vh_rng *r = &ep->s->rng;
	uint64_t rem = ep->total - ep->written;
	unsigned bits = 0;
	size_t mc = ep->max_chunk, n;
	while ((1ULL << (bits + 1)) <= mc) bits++;
	n = (size_t)1 << vh_below(r, bits + 1);
	n += (size_t)vh_below(r, n);
	if (n > mc) n = mc;
	if (n > rem) n = (size_t)rem;
	return n;
}
static void free_ref(const void *data, size_t len, void *extra) { (void)len; (void)extra; free((void *)data); }
static void app_write(struct endpoint *ep, size_t n)
{
	vh_rng *r = &ep->s->rng;
	unsigned char *p;
	int rc = 0;
	if (ep->freed || !n || ep->written >= ep->total) return;
	if (n > ep->total - ep->written) n = (size_t)(ep->total - ep->written);
	p = malloc(n);
	gen_bytes(ep->wkey, ep->written, p, n);
	/* reserve the stream range first: a non-deferred write callback may run inside the
	 * add below and write the next chunk (which then lands behind this one) */
	ep->written += n;
	switch (vh_below(r, 4)) {
	case 0: rc = bufferevent_write(ep->top, p, n); free(p); break;
	case 1: {
		struct evbuffer *tmp = evbuffer_new();
		size_t a = (size_t)vh_below(r, n + 1);
		evbuffer_add(tmp, p, a);
		evbuffer_expand(tmp, 1 + (size_t)vh_below(r, 5000));
		evbuffer_add(tmp, p + a, n - a);
		rc = bufferevent_write_buffer(ep->top, tmp);
		evbuffer_free(tmp); free(p);
		break; }
	case 2: rc = evbuffer_add(bufferevent_get_output(ep->top), p, n); free(p); break;
	default: rc = evbuffer_add_reference(bufferevent_get_output(ep->top), p, n, free_ref, NULL); if (rc) free(p); break;
	}
	if (rc) { vh_stat("app_write_failed"); ep->s->ended = 1; return; }
	vh_stat("app_writes");
	VLOG("  [%s] write %zu (total written %llu)", side_name(ep), n, (unsigned long long)ep->written);
	vh_stat_add("bytes_written", (long)n);
	if (n >= 65536) vh_stat("app_writes_ge_64k");
	if (n >= (1 << 20)) vh_stat("app_writes_ge_1m");
}
static void app_readcb(struct bufferevent *bev, void *arg)
{
	struct endpoint *ep = arg;
	struct session *s = ep->s;
	vh_rng *r = &s->rng;
	size_t len = evbuffer_get_length(bufferevent_get_input(bev)), low = bev->wm_read.low;
	ep->n_readcb++;
	if (vh_opt.verbose > 1) VLOG("  [%s] readcb len=%zu", side_name(ep), len);
	vh_stat("read_cbs");
	if (low) { vh_stat("read_cbs_low_set"); ep->low_gated++; }
	if (ep->n_term_rd) vh_stat("read_cb_after_terminal");
	else if (ep->r_max_win < ep->r_low_min_win) {
		vh_viol(mkkey(s, "readcb-below-low"), "%s: read callback with %zu bytes buffered; the input never held more than %zu since the previous read callback but the low watermark was >= %zu",
			side_name(ep), len, ep->r_max_win, ep->r_low_min_win);
		s->ended = 1;
	} else if (!top_deferred(ep) && !bev->wm_read.high && !ep->r_high_seen_win && len < low) {
		/* (with a high watermark in the window bufferevent_inbuf_wm_check may have scheduled this
		 * callback, deferred, under the gate that applied then: the window rule above covers that) */
		vh_viol(mkkey(s, "readcb-below-low"), "%s: non-deferred read callback entered with %zu bytes < low watermark %zu", side_name(ep), len, low);
		s->ended = 1;
	}
	ep->r_expect_cb = 0; ep->r_max_win = len; ep->r_low_min_win = low; ep->r_high_seen_win = bev->wm_read.high != 0;
	switch (ep->rp_mode) {
	case RP_ALL: consume(ep, (size_t)-1); break;
	case RP_SOME: if (vh_chance(r, 5, 6)) consume(ep, 1 + (size_t)vh_below(r, len + 1)); break;
	default: if (vh_chance(r, 1, 4)) consume(ep, 1 + (size_t)vh_below(r, len + 1)); break;
	}
	if (vh_opt.verbose > 1) VLOG("  [%s] readcb consumed to %llu, input now %zu", side_name(ep), (unsigned long long)ep->consumed, evbuffer_get_length(bufferevent_get_input(bev)));
	if (ep->tog_in_cb && vh_chance(r, 1, 8)) { bufferevent_disable(bev, EV_READ); vh_stat("toggle_rd_off_in_cb"); }
	if (ep->write_in_cb && ep->written < ep->total && vh_chance(r, 1, 4)) app_write(ep, pick_chunk(ep));
}
static void app_writecb(struct bufferevent *bev, void *arg)
{
	struct endpoint *ep = arg;
	struct session *s = ep->s;
	size_t len = evbuffer_get_length(bufferevent_get_output(bev)), low = bev->wm_write.low;
	ep->n_writecb++;
	vh_stat("write_cbs");
	if (low) vh_stat("write_cbs_low_set");
	if (ep->w_min_win > ep->w_low_max_win) {
		vh_viol(mkkey(s, "writecb-above-low"), "%s: write callback with %zu bytes queued; the output never dropped below %zu since the previous write callback but the low write watermark was <= %zu",
			side_name(ep), len, ep->w_min_win, ep->w_low_max_win);
		s->ended = 1;
	} else if (!top_deferred(ep) && !layer_is_tls(&ep->L[ep->nl - 1]) && !(ep->side == 0 && s->connect_via_bev) && len > low) {
		vh_viol(mkkey(s, "writecb-above-low"), "%s: non-deferred write callback entered with %zu bytes > low write watermark %zu", side_name(ep), len, low);
		s->ended = 1;
	}
	ep->w_expect_cb = 0; ep->w_min_win = len; ep->w_low_max_win = low;
	if (ep->write_in_cb && ep->written < ep->total && vh_chance(&s->rng, 1, 2)) app_write(ep, pick_chunk(ep));
}
static int reset_fired;
static const char *eof_cause = "";
static void app_eventcb(struct bufferevent *bev, short what, void *arg)
{
	struct endpoint *ep = arg;
	struct session *s = ep->s;
	uint64_t D, W;
	(void)bev;
	ep->n_eventcb++;
	vh_stat("event_cbs");
	VLOG("  [%s] event 0x%x (consumed %llu, input %zu)", side_name(ep), what, (unsigned long long)ep->consumed,
	    evbuffer_get_length(bufferevent_get_input(ep->top)));
	if (what & BEV_EVENT_CONNECTED) { ep->connected = 1; vh_stat("connected_events"); }
	if (!(what & (BEV_EVENT_EOF | BEV_EVENT_ERROR | BEV_EVENT_TIMEOUT))) return;
	if (what & BEV_EVENT_TIMEOUT) vh_stat("timeout_events");
	if (what & BEV_EVENT_WRITING) { ep->n_term_wr++; vh_stat("write_side_error_events"); return; }
	ep->n_term_rd++;
	vh_stat((what & BEV_EVENT_EOF) ? "eof_events" : "error_events");
	if (ep->n_term_rd > 1) {
		vh_viol(mkkey(s, "terminal-twice"), "%s: read-side EOF/error reported again: first 0x%x, now 0x%x (shutdown mode %s, consumed %llu of %llu)",
			side_name(ep), ep->term_what, what, s->shut_started ? sm_name[s->shut_mode] : "none",
			(unsigned long long)ep->consumed, (unsigned long long)peer(ep)->written);
		return;
	}
	ep->term_what = what;
	{
		size_t il = evbuffer_get_length(bufferevent_get_input(ep->top)), hi = ep->top->wm_read.high;
		int q, full = hi && il >= hi;
		for (q = 0; q < ep->nl - 1; q++) {
			/* bytes stranded below a filter that has (had) a read high watermark: the filter further
			 * down may be the one that is, or was until its reader drained it, full */
			struct bufferevent *u = ep->L[q].bev, *ab = ep->L[q + 1].bev;
			if (evbuffer_get_length(u->input) && ab->wm_read.high) full = 1;
			if (u->wm_read.high && evbuffer_get_length(u->input) >= u->wm_read.high && q > 0) full = 1;
		}
		eof_cause = !(ep->top->enabled & EV_READ) || s->b_disabled_at_shut ?
		    (s->pair_flush_partial ? "-rd-disabled-pair-flush-partial" : "-rd-disabled") : full ? "-at-high-watermark" : "";
	}
	consume(ep, (size_t)-1);   /* whatever was delivered is in the input buffer now */
	D = ep->consumed; W = peer(ep)->written;
	if (reset_fired) { vh_stat("terminal_after_injected_reset"); return; }
	if (!s->shut_started) {
		vh_viol(mkkey(s, "terminal-spurious"), "%s: EOF/error 0x%x reported although the peer has not shut down and no fault was injected (delivered %llu of %llu)",
			side_name(ep), what, (unsigned long long)D, (unsigned long long)W);
		s->ended = 1;
		return;
	}
	if (ep->side == 0) return;
	if (s->strict) {
		vh_stat("eof_checked_strict");
		if (D < W) {
			char rule[64];
			/* (the application flushed before it shut down, see flush_held(): a tail that is still in the
			 * writer's hold-back filter was left there by that flush) */
			if (held_bytes(peer(ep))) eof_cause = "-tail-left-in-writers-filter";
			snprintf(rule, sizeof(rule), "eof-before-data%s", eof_cause);
			vh_viol(mkkey(s, rule),
			    "B: event 0x%x after %s with only %llu of %llu bytes delivered (reader %s at shutdown)", what, sm_name[s->shut_mode],
			    (unsigned long long)D, (unsigned long long)W, eof_cause[0] ? eof_cause + 1 : "read-enabled, below high watermark");
			s->ended = 1;
		} else vh_stat("eof_after_all_data");
	} else vh_stat("terminal_prefix_only");
}

/* ------------------------------------------------------------------ generator */
static size_t logu(vh_rng *r, size_t lo, size_t hi)
{
	unsigned lb = 0, hb = 0, b;
	size_t v;
	if (lo < 1) lo = 1;
	if (hi <= lo) return lo;
	while (lo >> (lb + 1)) lb++;
	while (hi >> (hb + 1)) hb++;
	b = lb + (unsigned)vh_below(r, hb - lb + 1);
	v = ((size_t)1 << b) + (size_t)vh_below(r, (size_t)1 << b);
	if (v < lo) v = lo;
	if (v > hi) v = hi;
	return v;
}
static int pick_opts(vh_rng *r)
{
	static const int o[] = { 0, 0, BEV_OPT_DEFER_CALLBACKS, BEV_OPT_DEFER_CALLBACKS | BEV_OPT_UNLOCK_CALLBACKS,
		BEV_OPT_THREADSAFE, BEV_OPT_THREADSAFE | BEV_OPT_DEFER_CALLBACKS,
		BEV_OPT_THREADSAFE | BEV_OPT_DEFER_CALLBACKS | BEV_OPT_UNLOCK_CALLBACKS };
	return VH_PICK(r, o) | BEV_OPT_CLOSE_ON_FREE;
}
static const size_t WM_H[] = { 1, 2, 3, 64, 1000, 4096, 16384, 65536, 262144 };
static void pick_rwm(vh_rng *r, size_t out[2], size_t *minh)
{
	size_t h = VH_PICK(r, WM_H);
	switch (vh_below(r, 9)) {
	case 0: out[0] = 0; out[1] = 0; break;
	case 1: case 2: out[0] = 0; out[1] = h; break;
	case 3: out[0] = h; out[1] = h; break;                          /* equal */
	case 4: out[0] = h + 1 + (size_t)vh_below(r, h); out[1] = h; break; /* inverted */
	case 5: case 6: out[0] = 1 + (size_t)vh_below(r, h); out[1] = h; break;
	case 7: out[0] = 1 + (size_t)vh_below(r, h); out[1] = 0; break;    /* low only */
	default: out[0] = 1; out[1] = 1; break;
	}
	if (out[1] && out[1] < *minh) *minh = out[1];
}
static void gen_config(struct session *s)
{
	vh_rng *r = &s->rng;
	int th = vh_opt.thorough, j, side, x;
	size_t maxtotal = th ? (16u << 20) : (1u << 20), minh = (size_t)-1, mink = (size_t)-1;
	struct endpoint *A = &s->ep[0], *B = &s->ep[1];
	static const size_t K[] = { 1, 7, 64, 1000, 4096, 65536 };
	static const int BUFS[] = { 0, 0, 4096, 16384, 65536 };
	int modes[16], nm = 0;

	s->use_wm = wm_mode || vh_chance(r, 15, 100);
	x = (int)vh_below(r, 100);
	s->base_kind = x < 25 ? BASE_TCP : x < 50 ? BASE_UNIX : BASE_PAIR;
	x = (int)vh_below(r, 100);
	s->tls = x < 55 ? TLS_NONE : x < 80 ? TLS_OSSL : TLS_MBED;
	if (s->tls == TLS_MBED && !have_mbed) s->tls = TLS_OSSL;
	s->tls_fdmode = s->tls && s->base_kind != BASE_PAIR && vh_chance(r, 1, 2);
	s->tls12 = vh_chance(r, 1, 2);
	x = (int)vh_below(r, 100);
	s->nfilt = x < 40 ? 0 : x < 70 ? 1 : x < 90 ? 2 : 3;
	for (j = 0; j < s->nfilt; j++) {
		x = (int)vh_below(r, 100);
		s->wire[j] = x < 50 ? 0 : x < 75 ? FT_XOR : FT_REC;
		if (s->wire[j] == FT_REC && s->use_wm) s->wire[j] = FT_XOR;   /* the framing filter adds bytes: keep it out of watermark sessions */
		for (side = 0; side < 2; side++) {
			static const int plain[] = { FT_NULL, FT_PASS, FT_CHUNK };
			s->ft[side][j] = s->wire[j] ? s->wire[j] : VH_PICK(r, plain);
			s->chunk_k[side][j] = VH_PICK(r, K);
			if (s->ft[side][j] == FT_CHUNK && s->chunk_k[side][j] < mink) mink = s->chunk_k[side][j];
		}
		s->xk_fwd[j] = vh_rand(r); s->xk_rev[j] = vh_rand(r);
	}
	for (side = 0; side < 2; side++)
		for (j = 0; j < MAXL; j++) s->opt[side][j] = pick_opts(r);
	/* A THREADSAFE layer over a non-THREADSAFE one makes the upper layer own a lock it shares
	 * with the lower one; freeing the stack then uses the freed lock (heap-use-after-free in
	 * bufferevent_finalize_cb_ -> bufferevent_decref(underlying); outside C17/C18, reported to
	 * the lead).  --n1 1 lifts the restriction to reproduce it. */
	if (!vh_opt.n1)
		for (side = 0; side < 2; side++)
			for (j = MAXL - 1; j > 0; j--)
				if (s->opt[side][j] & BEV_OPT_THREADSAFE) s->opt[side][j - 1] |= BEV_OPT_THREADSAFE;
	if (s->base_kind == BASE_PAIR) s->opt[1][0] = s->opt[0][0] = s->opt[0][0] | (s->opt[1][0] & BEV_OPT_THREADSAFE);
	s->connect_via_bev = s->base_kind == BASE_TCP && !s->tls && vh_chance(r, 1, 2);
	s->pair_swap = vh_chance(r, 1, 2);
	s->sndbuf = VH_PICK(r, BUFS); s->rcvbuf = VH_PICK(r, BUFS);
	s->hs_first = vh_chance(r, 7, 10);
	for (side = 0; side < 2; side++) {
		s->dirty[side] = vh_chance(r, 1, 2); s->batch[side] = vh_chance(r, 1, 3);
		s->init_rd[side] = vh_chance(r, 85, 100); s->init_wr_off[side] = vh_chance(r, 1, 10);
	}

	A->total = logu(r, 1, maxtotal);
	if (vh_chance(r, 1, 2)) { size_t t2 = logu(r, 1, maxtotal); if (t2 > A->total) A->total = t2; }
	B->total = vh_chance(r, 1, 2) ? logu(r, 1, maxtotal / 4) : 0;

	/* every socket-buffer-full on TCP costs a real-time wait for the kernel: keep big streams off tiny buffers */
	if (s->base_kind == BASE_TCP) {
		if (A->total > (4u << 20)) A->total = 4u << 20;
		if (A->total > (256u << 10) || B->total > (256u << 10)) s->sndbuf = s->rcvbuf = 0;
	}
	/* watermarks */
	if (s->use_wm) {
		if (wm_mode) {
			pick_rwm(r, s->rwm[1], &minh);
			if (B->total && vh_chance(r, 1, 3)) pick_rwm(r, s->rwm[0], &minh);
			for (side = 0; side < 2; side++) {
				int nl = 1 + (s->tls && !s->tls_fdmode) + s->nfilt;
				static const size_t lows[] = { 0, 0, 1, 100, 5000 };
				s->wwm_top[side] = VH_PICK(r, lows);
				for (j = 0; j < nl - 1; j++) {
					int under_tls = s->tls && !s->tls_fdmode && j == 0;
					if (vh_chance(r, 1, 2)) {
						size_t h = VH_PICK(r, WM_H);
						if (under_tls && h < 1000) h = 1000;
						s->uwm[side][j][1] = h;
						switch (vh_below(r, 4)) { case 0: s->uwm[side][j][0] = 0; break; case 1: s->uwm[side][j][0] = h / 2; break;
						case 2: s->uwm[side][j][0] = h; break; default: s->uwm[side][j][0] = h + 5; }
						if (h < minh) minh = h;
					}
					if (!under_tls && vh_chance(r, 3, 10)) { s->urh[side][j] = VH_PICK(r, WM_H); if (s->urh[side][j] < minh) minh = s->urh[side][j]; }
				}
			}
			s->wm_drain_keep = vh_chance(r, 1, 2);
		} else {
			s->rwm[1][0] = 0; s->rwm[1][1] = VH_PICK(r, WM_H);
			if (s->rwm[1][1] < minh) minh = s->rwm[1][1];
		}
	}
	/* The library's own null filter moves data with a *partial* evbuffer_remove_buffer() whenever a
	 * watermark limits it, and is then re-entered through be_filter_writecb / the inbuf callback while
	 * that call is still in progress: the evbuffer's total_len underflows and the process dies in
	 * evbuffer_remove_buffer (finding evbuffer-remove-buffer-reentrancy; our own PASS/CHUNK filters hit
	 * the same defect but detect the re-entry and report it instead of crashing).  So a NULL filter is
	 * not put where a watermark would make its moves partial. */
	if (s->use_wm) {
		int bl = 1 + (s->tls && !s->tls_fdmode);
		for (side = 0; side < 2; side++)
			for (j = 0; j < s->nfilt; j++) {
				int li = bl + j, top = (j == s->nfilt - 1);
				if (s->ft[side][j] != FT_NULL) continue;
				if (s->uwm[side][li - 1][1] || (top ? (s->rwm[side][1] || wm_mode) : s->urh[side][li]))
					s->ft[side][j] = FT_PASS;
			}
	}
	/* keep the number of loop iterations / filter calls a session needs bounded */
	if (minh != (size_t)-1 && A->total / minh > 3000) A->total = minh * 3000;
	if (minh != (size_t)-1 && B->total / minh > 3000) B->total = minh * 3000;
	if (mink != (size_t)-1 && A->total / mink > 40000) A->total = mink * 40000;
	if (mink != (size_t)-1 && B->total / mink > 40000) B->total = mink * 40000;
	for (side = 0; side < 2; side++) {
		struct endpoint *ep = &s->ep[side];
		size_t mc = th ? (4u << 20) : (256u << 10);
		ep->s = s; ep->side = side; ep->fd = -1;
		if (vh_chance(r, 1, 5)) mc = 1 + (size_t)vh_below(r, 64);
		ep->max_chunk = mc;
		if (ep->total / mc > 400) ep->max_chunk = ep->total / 400 + 1;
		x = (int)vh_below(r, 100);
		ep->rp_mode = x < 50 ? RP_ALL : x < 80 ? RP_SOME : RP_LAZY;
		if (wm_mode && side == 1 && vh_chance(r, 1, 2)) ep->rp_mode = vh_chance(r, 1, 2) ? RP_SOME : RP_LAZY;
		ep->rd_api = (int)vh_below(r, 4);
		ep->tog_in_cb = vh_chance(r, 1, 3);
		ep->write_in_cb = vh_chance(r, 1, 2);
	}
	A->wkey = B->rkey = vh_rand(r) | 1;
	B->wkey = A->rkey = vh_rand(r) | 1;

	/* Hold-back filters in A's stack, where the level does not transform the wire format.  Not in
	 * watermark sessions (a write watermark below would limit the filter to less than a block, and C18
	 * stays as it is), and not below a framing filter (the context would hold framed bytes, and the
	 * accounting of the liveness oracle is in payload bytes).  The choice is drawn from a forked
	 * generator so that the rest of the configuration of a (seed, case) does not depend on it. */
	if (!s->use_wm && s->nfilt) {
		vh_rng hr;
		static const size_t HK[] = { 7, 64, 1000, 4096 };
		int rec_above = 0;
		vh_rng_seed(&hr, vh_mix64(A->wkey ^ 0x484f4c44ULL));
		for (j = s->nfilt - 1; j >= 0; j--) {
			if (s->wire[j] == FT_REC) rec_above = 1;
			if (s->wire[j] || rec_above) continue;
			if (vh_chance(&hr, 2, 5)) { s->ft[0][j] = FT_HOLD; s->chunk_k[0][j] = VH_PICK(&hr, HK); }
		}
	}

	s->fault_plan = s->base_kind != BASE_PAIR && !(s->tls && s->tls_fdmode) && vh_chance(r, 4, 10);
	s->reset_planned = s->fault_plan && !wm_mode && vh_chance(r, 1, 4);

	if (s->base_kind != BASE_PAIR) {
		modes[nm++] = SM_SHUTWR_DRAINED; modes[nm++] = SM_FREE_DRAINED; modes[nm++] = SM_FINISHED_FLUSH;
		if (!wm_mode) { modes[nm++] = SM_FREE_PENDING; modes[nm++] = SM_SHUTWR_PENDING; }
	} else {
		modes[nm++] = SM_FREE_DRAINED;
		if (!s->tls) { modes[nm++] = SM_FINISHED_FLUSH; modes[nm++] = SM_FINISHED_FLUSH; }
		if (!wm_mode) modes[nm++] = SM_FREE_PENDING;
	}
	if (s->tls) { modes[nm++] = SM_CLOSE_NOTIFY; modes[nm++] = SM_CLOSE_NOTIFY; }
	s->shut_mode = modes[vh_below(r, (uint64_t)nm)];
	s->b_disabled_at_shut = vh_chance(r, 1, 4);

	{
		const char *tn = s->tls == TLS_OSSL ? (s->tls_fdmode ? "osslfd" : "osslbev") : s->tls == TLS_MBED ? (s->tls_fdmode ? "mbedfd" : "mbedbev") : "";
		const char *bn = s->base_kind == BASE_PAIR ? "pair" : "sock";
		if (s->nfilt) snprintf(s->cls, sizeof(s->cls), "filt%s%s/%s", s->tls ? "+" : "", tn, bn);
		else if (s->tls) snprintf(s->cls, sizeof(s->cls), "%s/%s", tn, bn);
		else snprintf(s->cls, sizeof(s->cls), "%s/%s", bn, bn);
	}
}

/* ------------------------------------------------------------------ construction */
static void add_layer(struct endpoint *ep, int kind, struct bufferevent *bev, int opts, int ftype, struct fctx *fx, int has_fd)
{
	struct layer *l = &ep->L[ep->nl];
	l->kind = kind; l->bev = bev; l->opts = opts; l->ftype = ftype; l->fx = fx; l->has_fd = has_fd;
	l->mon.ep = ep; l->mon.layer = ep->nl;
	evbuffer_add_cb(bufferevent_get_input(bev), mon_in_cb, &l->mon);
	evbuffer_add_cb(bufferevent_get_output(bev), mon_out_cb, &l->mon);
	ep->nl++;
	ep->top = bev;
}
static struct bufferevent *make_tls(struct session *s, struct endpoint *ep, struct bufferevent *under, int fd, int opts)
{
	int server = ep->side == 1;
	enum bufferevent_ssl_state st = server ? BUFFEREVENT_SSL_ACCEPTING : BUFFEREVENT_SSL_CONNECTING;
	struct bufferevent *bev;
	if (s->tls == TLS_OSSL) {
		SSL *ssl = SSL_new(server ? ossl_srv : ossl_cli);
		if (!ssl) return NULL;
		if (!server && s->tls12) SSL_set_max_proto_version(ssl, TLS1_2_VERSION);
		bev = under ? bufferevent_openssl_filter_new(s->base, under, ssl, st, opts)
		            : bufferevent_openssl_socket_new(s->base, fd, ssl, st, opts);
	} else {
		mbedtls_dyncontext *ssl = bufferevent_mbedtls_dyncontext_new(server ? &m_conf_srv : &m_conf_cli);
		if (!ssl) return NULL;
		bev = under ? bufferevent_mbedtls_filter_new(s->base, under, ssl, st, opts)
		            : bufferevent_mbedtls_socket_new(s->base, fd, ssl, st, opts);
	}
	if (!bev) return NULL;
	if (s->dirty[ep->side]) bufferevent_ssl_set_allow_dirty_shutdown(bev, 1);
	if (s->batch[ep->side]) bufferevent_ssl_set_flags(bev, BUFFEREVENT_SSL_BATCH_WRITE);
	return bev;
}
/* build the stack of one endpoint over a pair element (pe) or a socket (fd; -1 = connect later) */
static int build_stack(struct session *s, struct endpoint *ep, struct bufferevent *pe, int fd)
{
	int side = ep->side, j;
	struct bufferevent *bev;
	ep->fd = fd;
	ep->tls = s->tls; ep->tls_fdmode = s->tls_fdmode; ep->tls_layer = -1;
	if (pe) add_layer(ep, LK_PAIR, pe, s->opt[side][0], 0, NULL, 0);
	else if (s->tls && s->tls_fdmode) {
		bev = make_tls(s, ep, NULL, fd, s->opt[side][0]);
		if (!bev) return -1;
		ep->tls_layer = 0;
		add_layer(ep, s->tls == TLS_OSSL ? LK_OSSL : LK_MBED, bev, s->opt[side][0], 0, NULL, 1);
	} else {
		bev = bufferevent_socket_new(s->base, fd, s->opt[side][0]);
		if (!bev) return -1;
		add_layer(ep, LK_SOCK, bev, s->opt[side][0], 0, NULL, 1);
	}
	if (s->tls && !s->tls_fdmode) {
		bev = make_tls(s, ep, ep->top, -1, s->opt[side][ep->nl]);
		if (!bev) return -1;
		ep->tls_layer = ep->nl;
		add_layer(ep, s->tls == TLS_OSSL ? LK_OSSL : LK_MBED, bev, s->opt[side][ep->nl], 0, NULL, 0);
	}
	for (j = 0; j < s->nfilt; j++) {
		struct fctx *fx = calloc(1, sizeof(*fx));
		int t = s->ft[side][j];
		fx->type = t; fx->ep = ep; fx->layer = ep->nl; fx->k = s->chunk_k[side][j];
		fx->xkey_out = side ? s->xk_rev[j] : s->xk_fwd[j];
		fx->xkey_in = side ? s->xk_fwd[j] : s->xk_rev[j];
		{
			/* small records => many 2-byte headers => headers split across reads (filter says NEED_MORE after OK) */
			static const size_t rm[] = { 1, 3, 16, 300, 5000, 65535 };
			fx->rec_max = VH_PICK(&s->rng, rm);
			/* ... but not millions of them per session */
			{
				size_t big = s->ep[0].total > s->ep[1].total ? s->ep[0].total : s->ep[1].total;
				if (fx->rec_max < big / 20000 + 1) fx->rec_max = big / 20000 + 1;
			}
		}
		vh_rng_seed(&fx->rng, vh_rand(&s->rng));
		bev = bufferevent_filter_new(ep->top, t == FT_NULL ? NULL : filt_in, t == FT_NULL ? NULL : filt_out,
		    s->opt[side][ep->nl], fctx_free, fx);
		if (!bev) { free(fx); return -1; }
		add_layer(ep, LK_FILT, bev, s->opt[side][ep->nl], t, fx, 0);
		if (t == FT_HOLD) ep->n_hold++;
		else if (t == FT_REC && ep->n_hold) ep->hold_rec_above = 1;
	}
	bufferevent_setcb(ep->top, app_readcb, app_writecb, app_eventcb, ep);
	ep->r_low_min_win = 0; ep->w_low_max_win = 0;
	if (s->init_rd[side]) bufferevent_enable(ep->top, EV_READ);
	if (s->init_wr_off[side]) bufferevent_disable(ep->top, EV_WRITE);
	return 0;
}
static void set_rwm(struct endpoint *ep, struct bufferevent *bev, size_t low, size_t high)
{
	VLOG("  [%s] setwatermark read %zu/%zu on layer %s (input %zu)", side_name(ep), low, high, bev == ep->top ? "top" : "underlying", evbuffer_get_length(bev->input));
	if (bev == ep->top && (bev->wm_read.high || high)) ep->r_high_seen_win = 1;
	bufferevent_setwatermark(bev, EV_READ, low, high);
	if (bev == ep->top && low < ep->r_low_min_win) ep->r_low_min_win = low;
	if (bev == ep->top) ep->r_expect_cb = 0;   /* the gate changed: an earlier trigger decision may no longer apply */
	ep->rwm_changed = 1;
	vh_stat("setwatermark_read");
}
static void set_wwm(struct endpoint *ep, struct bufferevent *bev, size_t low, size_t high)
{
	bufferevent_setwatermark(bev, EV_WRITE, low, high);
	if (bev == ep->top && low > ep->w_low_max_win) ep->w_low_max_win = low;
	if (bev == ep->top) ep->w_expect_cb = 0;
	vh_stat("setwatermark_write");
}
static void apply_initial_wm(struct session *s)
{
	int side, j;
	if (!s->use_wm) return;
	for (side = 0; side < 2; side++) {
		struct endpoint *ep = &s->ep[side];
		if (s->rwm[side][0] || s->rwm[side][1]) set_rwm(ep, ep->top, s->rwm[side][0], s->rwm[side][1]);
		if (s->wwm_top[side]) set_wwm(ep, ep->top, s->wwm_top[side], 0);
		for (j = 0; j < ep->nl - 1; j++) {
			if (s->uwm[side][j][1]) set_wwm(ep, ep->L[j].bev, s->uwm[side][j][0], s->uwm[side][j][1]);
			if (s->urh[side][j]) set_rwm(ep, ep->L[j].bev, 0, s->urh[side][j]);
		}
	}
}
static void accept_cb(struct evconnlistener *l, evutil_socket_t fd, struct sockaddr *sa, int slen, void *arg)
{
	struct session *s = arg;
	(void)l; (void)sa; (void)slen;
	if (s->accepted_fd >= 0) { close(fd); return; }
	s->accepted_fd = fd;
}
static void lock_check(struct session *s, const char *where)
{
	const char *v = (vh_opt.arg && !strcmp(vh_opt.arg, "pth")) ? NULL : lm_take_violation();
	if (v) { vh_viol(mkkey(s, "lock-ledger"), "%s: %s", where, v); s->ended = 1; }
}
static void one_step(struct session *s)
{
	if (vh_opt.verbose > 1) VLOG("  step %ld", s->steps);
	/* exactly one iteration: EVLOOP_NONBLOCK alone keeps iterating while callbacks are active, and
	 * bufferevent_inbuf_wm_check() keeps a deferred read callback active for as long as an input
	 * sits at its high watermark */
	{
		struct timeval zero = { 0, 0 };
		event_base_loopexit(s->base, &zero);
	}
	event_base_loop(s->base, EVLOOP_NONBLOCK);
	s->steps++;
	vh_stat("loop_steps");
	lock_check(s, "loop step");
}
static void set_sockbufs(struct session *s, int afd, int bfd)
{
	int one = 1;
	if (s->sndbuf && afd >= 0) setsockopt(afd, SOL_SOCKET, SO_SNDBUF, &s->sndbuf, sizeof(int));
	if (s->rcvbuf && bfd >= 0) setsockopt(bfd, SOL_SOCKET, SO_RCVBUF, &s->rcvbuf, sizeof(int));
	if (s->base_kind == BASE_TCP && vh_chance(&s->rng, 3, 4)) {
		if (afd >= 0) setsockopt(afd, IPPROTO_TCP, TCP_NODELAY, &one, sizeof(one));
		if (bfd >= 0) setsockopt(bfd, IPPROTO_TCP, TCP_NODELAY, &one, sizeof(one));
	}
}
static int build_session(struct session *s)
{
	struct endpoint *A = &s->ep[0], *B = &s->ep[1];
	s->accepted_fd = -1;
	s->base = event_base_new();
	if (!s->base) return -1;
	if (s->base_kind == BASE_PAIR) {
		struct bufferevent *pr[2];
		if (bufferevent_pair_new(s->base, s->opt[0][0], pr) < 0) return -1;
		if (build_stack(s, A, pr[s->pair_swap], -1) < 0) { bufferevent_free(pr[!s->pair_swap]); return -1; }
		if (build_stack(s, B, pr[!s->pair_swap], -1) < 0) return -1;
	} else if (s->base_kind == BASE_UNIX) {
		evutil_socket_t fds[2];
		if (evutil_socketpair(AF_UNIX, SOCK_STREAM, 0, fds) < 0) return -1;
		evutil_make_socket_nonblocking(fds[0]); evutil_make_socket_nonblocking(fds[1]);
		set_sockbufs(s, fds[0], fds[1]);
		if (build_stack(s, A, NULL, fds[0]) < 0) { if (!A->nl) close(fds[0]); close(fds[1]); return -1; }
		if (build_stack(s, B, NULL, fds[1]) < 0) { if (!B->nl) close(fds[1]); return -1; }
	} else {
		struct sockaddr_in sin;
		socklen_t sl = sizeof(sin);
		int afd = -1, i;
		memset(&sin, 0, sizeof(sin));
		sin.sin_family = AF_INET; sin.sin_addr.s_addr = htonl(INADDR_LOOPBACK);
		s->lis = evconnlistener_new_bind(s->base, accept_cb, s, LEV_OPT_CLOSE_ON_FREE | LEV_OPT_REUSEABLE, 16, (struct sockaddr *)&sin, sizeof(sin));
		if (!s->lis) return -1;
		if (getsockname(evconnlistener_get_fd(s->lis), (struct sockaddr *)&sin, &sl) < 0) return -1;
		if (s->connect_via_bev) {
			if (build_stack(s, A, NULL, -1) < 0) return -1;
			A->connected = -1;
			if (bufferevent_socket_connect(A->L[0].bev, (struct sockaddr *)&sin, sizeof(sin)) < 0) return -1;
			A->fd = bufferevent_getfd(A->L[0].bev);
			vh_stat("connect_via_bufferevent");
		} else {
			afd = socket(AF_INET, SOCK_STREAM, 0);
			if (afd < 0) return -1;
			if (connect(afd, (struct sockaddr *)&sin, sizeof(sin)) < 0) { close(afd); return -1; }
			evutil_make_socket_nonblocking(afd);
		}
		for (i = 0; i < 2000 && s->accepted_fd < 0; i++) one_step(s);
		if (s->accepted_fd < 0) { if (afd >= 0) close(afd); return -1; }
		evconnlistener_free(s->lis); s->lis = NULL;
		set_sockbufs(s, s->connect_via_bev ? A->fd : afd, s->accepted_fd);
		if (!s->connect_via_bev && build_stack(s, A, NULL, afd) < 0) { if (!A->nl) close(afd); return -1; }
		{
			int bfd = s->accepted_fd;
			s->accepted_fd = -1;
			if (build_stack(s, B, NULL, bfd) < 0) { if (!B->nl) close(bfd); return -1; }
		}
	}
	apply_initial_wm(s);
	return 0;
}
static void ep_free(struct endpoint *ep)
{
	if (ep->freed || !ep->top) return;
	ep->freed = 1; ep->r_expect_cb = ep->w_expect_cb = 0;
	bufferevent_free(ep->top);
	vh_stat("bufferevents_freed");
}
static void teardown(struct session *s)
{
	int i;
	ep_free(&s->ep[0]); ep_free(&s->ep[1]);
	if (s->lis) evconnlistener_free(s->lis);
	if (s->accepted_fd >= 0) close(s->accepted_fd);
	if (s->base) {
		for (i = 0; i < 8; i++) {
			struct timeval zero = { 0, 0 };
			event_base_loopexit(s->base, &zero);
			event_base_loop(s->base, EVLOOP_NONBLOCK);
		}
		event_base_free(s->base);
	}
	lock_check(s, "teardown");
}

/* ------------------------------------------------------------------ stepping and quiescence */
static struct session *g_sess;
static long fionread(int fd);
static int fdfilter(int fd)
{
	return g_sess && fd >= 0 && (fd == g_sess->ep[0].fd || fd == g_sess->ep[1].fd);
}
static void sf_obs(int sym, int fd, long req, long res)
{
	(void)fd; (void)req;
	if (sym == SF_readv || sym == SF_writev || sym == SF_read || sym == SF_write) {
		vh_stat("socket_io_calls_seen");
		if (res < 0 && (errno == ECONNRESET || errno == EPIPE)) reset_fired = 1;
	}
}
static int fd_ready(int fd, short ev)
{
	struct pollfd p;
	p.fd = fd; p.events = ev; p.revents = 0;
	return __real_poll(&p, 1, 0) > 0 && (p.revents & (ev | POLLHUP | POLLERR));
}
/* would the next backend wait report an event libevent is waiting for? */
static int fd_work_pending(struct session *s)
{
	int side;
	for (side = 0; side < 2; side++) {
		struct endpoint *ep = &s->ep[side];
		struct bufferevent *b;
		if (ep->freed || !ep->nl || !ep->L[0].has_fd || ep->fd < 0) continue;
		b = ep->L[0].bev;
		if (event_pending(&b->ev_read, EV_READ, NULL) && fd_ready(ep->fd, POLLIN)) return 1;
		if (event_pending(&b->ev_write, EV_WRITE, NULL) && fd_ready(ep->fd, POLLOUT)) return 1;
	}
	return 0;
}
static uint64_t state_sig(struct session *s)
{
	uint64_t h = 0;
	int side, j;
	for (side = 0; side < 2; side++) {
		struct endpoint *ep = &s->ep[side];
		h = vh_mix64(h + ep->consumed * 3 + ep->written * 5 + (uint64_t)ep->n_term_rd * 7 + (uint64_t)ep->n_term_wr * 11 +
		    (uint64_t)ep->n_eventcb * 13 + (uint64_t)ep->n_writecb * 17);
		if (ep->freed) continue;
		for (j = 0; j < ep->nl; j++)
			h = vh_mix64(h + evbuffer_get_length(ep->L[j].bev->input) * 31 + evbuffer_get_length(ep->L[j].bev->output));
	}
	return h;
}
/* bufferevent_inbuf_wm_check() re-schedules the read callback every iteration while the
 * input sits at/over the high mark and the application does not drain: such a loop is idle */
static int wm_loop_possible(struct session *s)
{
	int side, j;
	for (side = 0; side < 2; side++) {
		struct endpoint *ep = &s->ep[side];
		if (ep->freed) continue;
		for (j = 0; j < ep->nl; j++) {
			struct bufferevent *b = ep->L[j].bev;
			if (b->wm_read.high && (b->enabled & EV_READ) && b->readcb && evbuffer_get_length(b->input) >= b->wm_read.high) return 1;
		}
	}
	return 0;
}
/* TCP is asynchronous below us: Nagle/delayed ACK or a deferred softirq can hold bytes in
 * the kernel for real milliseconds while this harness never sleeps.  Before the loop is
 * called idle, give bytes that are still in a socket send queue a (real-time, bounded)
 * chance to reach a reader libevent is polling.  Returns 1 if the reader became ready. */
#ifndef SIOCOUTQNSD
#define SIOCOUTQNSD 0x894B
#endif
static int kernel_in_flight;
static int transport_settle(struct session *s)
{
	int dir, waited = 0;
	kernel_in_flight = 0;
	if (s->base_kind != BASE_TCP) return 0;
	for (dir = 0; dir < 2; dir++) {
		struct endpoint *W = &s->ep[dir], *R = &s->ep[!dir];
		int outq = 0, unsent = 0, i;
		if (W->fd < 0 || R->fd < 0 || R->freed || !R->L[0].has_fd) continue;
		if (!event_pending(&R->L[0].bev->ev_read, EV_READ, NULL)) continue;
		if (W->freed) continue;
		__real_ioctl(W->fd, TIOCOUTQ, &outq);
		if (outq <= 0 || fionread(R->fd) > 0) continue;
		/* bytes are in W's send queue and not in R's receive queue: unsent (Nagle, closed window,
		 * persist timer), lost to a full receive buffer (RTO), or delivered and merely un-ACKed
		 * (delayed ACK; then outq drops to 0 by itself).  Wait in real time, at most ~3 s. */
		(void)unsent;
		for (i = 0; i < 300; i++) {
			struct pollfd p;
			p.fd = R->fd; p.events = POLLIN; p.revents = 0;
			waited = 1;
			if (__real_poll(&p, 1, 10) > 0) { vh_stat("real_wait_for_tcp_delivery"); return 1; }
			outq = 0; __real_ioctl(W->fd, TIOCOUTQ, &outq);
			if (outq <= 0) break;
			if (event_pending(&W->L[0].bev->ev_write, EV_WRITE, NULL) && fd_ready(W->fd, POLLOUT)) return 1;
		}
		if (outq <= 0 && fd_work_pending(s)) return 1;
		if (outq > 0) {
			int nsd = -1;
			__real_ioctl(W->fd, SIOCOUTQNSD, &nsd);
			kernel_in_flight = 1; vh_stat("tcp_in_flight_after_3s");
			VLOG("  transport_settle: %s->%s still outq=%d unsent=%d fionread(R)=%ld after 3 s", side_name(W), side_name(R), outq, nsd, fionread(R->fd));
		}
	}
	if (waited) vh_stat("real_wait_timeouts");
	return 0;
}
enum { ST_IDLE, ST_BUSY_STUCK, ST_CAP, ST_ENDED };
static int step_until_idle(struct session *s)
{
	uint64_t last = state_sig(s), sig;
	long n, unchanged = 0;
	for (n = 0; n < 300000; n++) {
		int active;
		one_step(s);
		if (s->ended) return ST_ENDED;
		sig = state_sig(s);
		if (sig != last) { unchanged = 0; last = sig; } else unchanged++;
		active = event_base_get_num_events(s->base, EVENT_BASE_COUNT_ACTIVE);
		if (!fd_work_pending(s)) {
			if (active == 0 || (unchanged >= 4 && wm_loop_possible(s))) {
				if (transport_settle(s)) continue;
				vh_stat(active ? "idle_points_wm_readcb_loop" : "idle_points");
				return ST_IDLE;
			}
		}
		if (unchanged > 3000) { vh_stat("busy_without_progress"); return ST_BUSY_STUCK; }
	}
	vh_stat("step_cap_hit");
	return ST_CAP;
}
static int all_drained(struct endpoint *ep)
{
	int j;
	if (ep->freed) return 1;
	for (j = 0; j < ep->nl; j++) if (evbuffer_get_length(ep->L[j].bev->output)) return 0;
	if (held_bytes(ep)) return 0;   /* written, but still in the context of a hold-back filter */
	return 1;
}
/* liveness oracles, evaluated only at quiescent points (or when the step cap was hit) */
static void check_liveness(struct session *s, const char *where, int st)
{
	int dir, side;
	if (s->ended) return;
	for (dir = 0; dir < 2; dir++) {
		struct endpoint *W = &s->ep[dir], *R = &s->ep[!dir];
		uint64_t delivered;
		const char *blk = NULL;
		size_t inlen = R->freed ? 0 : evbuffer_get_length(R->top->input);
		delivered = R->consumed + inlen;
		if (W->written <= delivered) {
			/* everything arrived: whatever the application did before is no longer a witness */
			R->rd_reenabled = R->rwm_changed = R->rflushed = 0; W->wr_reenabled = 0;
			continue;
		}
		{
			/* A hold-back filter keeps the tail of what it was given until it is called in flush mode,
			 * and act_flush() has verified that every such call left the contexts empty: what they hold
			 * now was written after the last flush and is withheld legitimately.  Exactly these bytes
			 * may be missing; a byte missing anywhere else is judged as always. */
			size_t held = held_bytes(W);
			if (held && (W->hold_rec_above ? W->written - delivered <= held : W->written - delivered == held)) {
				vh_stat("liveness_pending_is_held_tail");
				VLOG("  liveness(%s) dir %d: the %zu pending bytes are the tail held by A's hold-back filter(s)", where, dir, held);
				continue;
			}
		}
		if (R->freed || W->freed) blk = "freed";
		else if (R->n_term_rd || W->n_term_wr || R->n_term_wr || reset_fired) blk = "error/eof reported";
		else if (s->shut_started && dir == 0 && !s->strict) blk = "abrupt shutdown";
		else if (!(R->top->enabled & EV_READ)) blk = "reader disabled";
		else if (!(W->top->enabled & EV_WRITE)) blk = "writer disabled";
		else if (R->top->wm_read.high && inlen >= R->top->wm_read.high) blk = "reader at high watermark";
		else if (s->tls && (s->ep[0].connected != 1 || s->ep[1].connected != 1)) blk = "handshake incomplete";
		else if (s->connect_via_bev && s->ep[0].connected != 1) blk = "connecting";
		else if (s->shut_started && dir == 1) blk = "peer shut down";
		else if (kernel_in_flight) { blk = "kernel still holds unsent bytes"; vh_stat("inconclusive_kernel_in_flight"); }
		vh_stat("liveness_checks_with_pending_data");
		if (blk) { VLOG("  liveness(%s) dir %d pending, blocked by %s", where, dir, blk); continue; }
		if (vh_opt.verbose) {
			int q;
			for (q = 0; q < 2; q++) {
				struct endpoint *e = &s->ep[q];
				struct bufferevent_private *bp = EVUTIL_UPCAST(e->L[0].bev, struct bufferevent_private, bev);
				VLOG("   %s: fd=%d evread_pending=%d evwrite_pending=%d pollin=%d pollout=%d fionread=%ld enabled=%d rsusp=%x wsusp=%x", side_name(e), e->fd,
				    e->L[0].has_fd ? event_pending(&e->L[0].bev->ev_read, EV_READ, NULL) : -1,
				    e->L[0].has_fd ? event_pending(&e->L[0].bev->ev_write, EV_WRITE, NULL) : -1,
				    e->fd >= 0 ? fd_ready(e->fd, POLLIN) : -1, e->fd >= 0 ? fd_ready(e->fd, POLLOUT) : -1, fionread(e->fd),
				    e->top->enabled, bp->read_suspended, bp->write_suspended);
				if (e->tls == TLS_OSSL) {
					SSL *ssl = bufferevent_openssl_get_ssl(e->L[e->tls_layer].bev);
					VLOG("   %s: SSL_pending=%d has_pending=%d toplen in=%zu out=%zu", side_name(e), SSL_pending(ssl), SSL_has_pending(ssl),
					    evbuffer_get_length(e->top->input), evbuffer_get_length(e->top->output));
				}
			}
		}
		{
			/* where do the missing bytes sit?  (witness class of the key) */
			char rule[96], at[48] = "transport";
			const char *cause = "";
			int j;
			for (j = W->nl - 1; j >= 0; j--)
				if (evbuffer_get_length(W->L[j].bev->output)) {
					snprintf(at, sizeof(at), "in-%s-output", kind_name(&W->L[j]));
					cause = (j == W->nl - 1 && W->wr_reenabled) ? ":after-write-reenable" : "";
					break;
				}
			if (j < 0) {
				for (j = 0; j < R->nl - 1; j++)
					if (evbuffer_get_length(R->L[j].bev->input)) {
						snprintf(at, sizeof(at), "below-%s-input", kind_name(&R->L[j + 1]));
						cause = R->rd_reenabled ? ":after-read-reenable" : R->rwm_changed ? ":after-setwatermark" :
						    (R->top->wm_read.high || R->L[j + 1].bev->wm_read.high) ? ":high-watermark" : "";
						break;
					}
				if (j >= R->nl - 1 && R->tls_layer >= 0) {
					struct bufferevent *tb = R->L[R->tls_layer].bev;
					size_t pend = R->tls == TLS_OSSL ? (size_t)SSL_pending(bufferevent_openssl_get_ssl(tb))
					    : mbedtls_ssl_get_bytes_avail(bufferevent_mbedtls_get_ssl(tb));
					if (pend) {
						snprintf(at, sizeof(at), "in-tls-object-%s", R->tls_fdmode ? "fd" : "bev");
						cause = R->rwm_changed ? ":after-setwatermark" : "";
					}
				}
			}
			{
				int nf = 0, q;
				for (q = 0; q < R->nl; q++) nf += R->L[q].kind == LK_FILT;
				/* be_filter_flush(EV_READ) strands bytes in the input of a *lower* filter: needs two of them */
				if (R->rflushed && nf >= 2) { cause = ":after-read-flush"; snprintf(at, sizeof(at), "filter-stack"); }
			}
			if (cause[0]) ;
			else if (!strcmp(at, "transport") && s->tls_retry_hazard) cause = ":after-append-to-blocked-tls-write";
			snprintf(rule, sizeof(rule), "%s:%s%s", R->top->wm_read.high ? "no-resume" : "stalled", at, cause);
			vh_viol(mkkey(s, rule),
			    "%s (%s): %s->%s wrote %llu, delivered %llu (input holds %zu, high watermark %zu, low %zu); both enabled, nothing blocks, loop %s; bytes sit %s",
			    where, sm_name[s->shut_mode], side_name(W), side_name(R), (unsigned long long)W->written, (unsigned long long)delivered,
			    inlen, R->top->wm_read.high, R->top->wm_read.low, st == ST_IDLE ? "idle" : "spinning without progress", at);
		}
		s->ended = 1;
		return;
	}
	if (st != ST_IDLE) return;
	for (side = 0; side < 2; side++) {
		struct endpoint *ep = &s->ep[side];
		size_t il, ol;
		if (ep->freed) continue;
		il = evbuffer_get_length(ep->top->input); ol = evbuffer_get_length(ep->top->output);
		if (ep->r_expect_cb && !ep->n_term_rd && (ep->top->enabled & EV_READ) && il >= ep->top->wm_read.low && il > 0) {
			vh_viol(mkkey(s, "readcb-missing"), "%s (%s): %zu bytes were added to the enabled input (low watermark %zu) but no read callback ran before the loop went idle",
			    where, side_name(ep), il, ep->top->wm_read.low);
			s->ended = 1; return;
		}
		if (ep->w_expect_cb && !ep->n_term_wr && ol <= ep->top->wm_write.low) {
			vh_viol(mkkey(s, "writecb-missing"), "%s (%s): output drained to %zu <= low write watermark %zu but no write callback ran before the loop went idle",
			    where, side_name(ep), ol, ep->top->wm_write.low);
			s->ended = 1; return;
		}
		ep->r_expect_cb = ep->w_expect_cb = 0;
	}
	vh_stat("liveness_checks");
}
static int settle(struct session *s, const char *where)
{
	int st = step_until_idle(s);
	if (st == ST_ENDED) return st;
	if (st == ST_CAP) { vh_stat("inconclusive_step_cap"); s->ended = 1; return st; }
	check_liveness(s, where, st);
	if (st == ST_BUSY_STUCK && !s->ended) { vh_stat("inconclusive_busy"); s->ended = 1; }
	return st;
}

/* ------------------------------------------------------------------ application actions */
static void act_flush(struct endpoint *ep, short iotype, enum bufferevent_flush_mode mode)
{
	struct session *s = ep->s;
	size_t held0, topout0;
	uint64_t w0;
	if (ep->freed) return;
	s->in_flush = mode != BEV_NORMAL;
	VLOG("  [%s] flush io=%d mode=%d", side_name(ep), iotype, mode);
	if (iotype & EV_READ) { ep->in_rflush = 1; ep->rflushed = 1; }
	held0 = held_bytes(ep); topout0 = evbuffer_get_length(ep->top->output); w0 = ep->written;
	bufferevent_flush(ep->top, iotype, mode);
	s->in_flush = 0; ep->in_rflush = 0;
	if (ep->n_hold && (iotype & EV_WRITE) && mode != BEV_NORMAL && !ep->freed && !s->ended) {
		/* bufferevent.h: BEV_FLUSH "want to checkpoint all data sent", BEV_FINISHED "encountered EOF on
		 * read or done sending data"; bufferevent_filter.c be_filter_process_output: "If we're in 'flush'
		 * or 'finish', call the filter no matter what", and be_filter_flush then flushes the underlying
		 * the same way.  So every output filter of the stack has been called with this mode, top down,
		 * whether or not writing is enabled and whether or not anything was queued; a hold-back filter
		 * called so passes on all it holds.  The only bytes that may be in a context now are bytes the
		 * application wrote from a callback while the flush was running. */
		size_t held1 = held_bytes(ep);
		if (ep->written != w0) vh_stat("hold_flush_unchecked_write_during_flush");
		else {
			vh_stat("hold_flush_checked");
			if (held0) vh_stat("hold_flush_checked_with_tail");
			if (held0 && !topout0) vh_stat("hold_flush_checked_with_tail_and_empty_output");
			if (held1) {
				vh_viol(mkkey(s, "flush-left-bytes-in-filter"),
				    "%s: bufferevent_flush(top, EV_WRITE, %s) returned and the stateful output filter(s) of the stack still hold %zu bytes (%zu before the call; the top output buffer held %zu bytes before the call, %zu now; write %s): the output filter was not called in flush mode, the tail will never be sent",
				    side_name(ep), mode == BEV_FLUSH ? "BEV_FLUSH" : "BEV_FINISHED", held1, held0, topout0,
				    evbuffer_get_length(ep->top->output), (ep->top->enabled & EV_WRITE) ? "enabled" : "disabled");
				s->ended = 1;
			}
		}
	}
	vh_stat(mode == BEV_NORMAL ? "flush_normal" : mode == BEV_FLUSH ? "flush_flush" : "flush_finished");
	if ((iotype & EV_READ) && vh_chance(&s->rng, 1, 2)) consume(ep, (size_t)-1);
}
static void act_setwm(struct session *s)
{
	vh_rng *r = &s->rng;
	struct endpoint *ep = &s->ep[(s->ep[1].total && vh_chance(r, 1, 4)) ? 0 : 1];
	size_t len, wm[2], dummy = (size_t)-1, floor_h;
	if (ep->freed) return;
	len = evbuffer_get_length(ep->top->input);
	floor_h = (size_t)(peer(ep)->total / 3000) + 1;
	if (vh_chance(r, 1, 5)) {
		struct endpoint *w = &s->ep[vh_below(r, 2)];
		static const size_t lows[] = { 0, 1, 100, 5000, 100000 };
		if (!w->freed) set_wwm(w, w->top, VH_PICK(r, lows), 0);
		return;
	}
	if (ep->top->wm_read.high && len >= ep->top->wm_read.high) {
		vh_stat("setwatermark_while_suspended");
		switch (vh_below(r, 4)) {
		case 0: wm[0] = ep->top->wm_read.low; wm[1] = len + 1 + (size_t)vh_below(r, 5000); break;  /* raise above content */
		case 1: wm[0] = 0; wm[1] = 0; break;
		case 2: wm[0] = 0; wm[1] = len > 1 ? len / 2 : 1; vh_stat("setwatermark_below_length"); break;
		default: pick_rwm(r, wm, &dummy); break;
		}
	} else if (len > 1 && vh_chance(r, 1, 3)) {
		wm[0] = vh_chance(r, 1, 2) ? 0 : 1; wm[1] = 1 + (size_t)vh_below(r, len); vh_stat("setwatermark_below_length");
	} else pick_rwm(r, wm, &dummy);
	if (wm[1] && wm[1] < floor_h) wm[1] = floor_h;
	set_rwm(ep, ep->top, wm[0], wm[1]);
}
static void plan_faults(struct session *s)
{
	vh_rng *r = &s->rng;
	int n, i;
	static const int syms[] = { SF_readv, SF_readv, SF_writev, SF_writev, SF_ioctl };
	static const long shorts[] = { 1, 2, 7, 100, 1000, 5000 };
	sf_reset();
	reset_fired = 0;
	s->sf_injected0 = sf_injected;
	if (!s->fault_plan) return;
	n = 4 + (int)vh_below(r, 21);
	for (i = 0; i < n; i++) {
		int sym = VH_PICK(r, syms);
		long nth = 1 + (long)vh_below(r, 60);
		if (sym == SF_ioctl || vh_chance(r, 1, 2)) sf_plan(sym, nth, SFA_SHORT, VH_PICK(r, shorts));
		else sf_plan(sym, nth, SFA_ERRNO, vh_chance(r, 3, 4) ? EAGAIN : EINTR);
	}
	vh_stat("sessions_with_short_io_eagain_plan");
	if (s->reset_planned) {
		int wr = vh_chance(r, 1, 3);
		sf_plan(wr ? SF_writev : SF_readv, 2 + (long)vh_below(r, 30), SFA_ERRNO, wr && vh_chance(r, 1, 2) ? EPIPE : ECONNRESET);
		vh_stat("sessions_with_reset_plan");
	}
}
static void traffic(struct session *s)
{
	vh_rng *r = &s->rng;
	struct endpoint *A = &s->ep[0], *B = &s->ep[1];
	int it, a;
	for (it = 0; it < 400 && !s->ended && !reset_fired; it++) {
		int nact = 1 + (int)vh_below(r, 3), y;
		if (A->written >= A->total && B->written >= B->total) break;
		for (a = 0; a < nact && !s->ended; a++) {
			int x = (int)vh_below(r, 100);
			struct endpoint *ep = &s->ep[vh_below(r, 2)];
			if (x < 40) app_write(A, pick_chunk(A));
			else if (x < 55) app_write(B, pick_chunk(B));
			else if (x < 63) {
				VLOG("  [%s] toggle read -> %s", side_name(ep), (ep->top->enabled & EV_READ) ? "off" : "on");
				if (ep->top->enabled & EV_READ) bufferevent_disable(ep->top, EV_READ); else app_enable(ep, EV_READ);
				vh_stat("toggle_read");
			} else if (x < 69) {
				VLOG("  [%s] toggle write -> %s", side_name(ep), (ep->top->enabled & EV_WRITE) ? "off" : "on");
				if (ep->top->enabled & EV_WRITE) bufferevent_disable(ep->top, EV_WRITE); else app_enable(ep, EV_WRITE);
				vh_stat("toggle_write");
			} else if (x < 76) {
				if (vh_chance(r, 3, 4)) act_flush(ep, EV_WRITE, vh_chance(r, 1, 2) ? BEV_NORMAL : BEV_FLUSH);
				else act_flush(ep, EV_READ, vh_chance(r, 1, 2) ? BEV_NORMAL : BEV_FLUSH);
			} else if (x < 86) {
				size_t l = evbuffer_get_length(ep->top->input);
				if (l) { VLOG("  [%s] consume outside callbacks (input %zu)", side_name(ep), l); consume(ep, 1 + (size_t)vh_below(r, l)); vh_stat("consume_outside_cb"); }
			} else if (x < 95 && wm_mode) act_setwm(s);
		}
		y = (int)vh_below(r, 10);
		if (y >= 1 && y <= 5) one_step(s);
		else if (y <= 7 && y > 5) { int k = 2 + (int)vh_below(r, 4); while (k-- && !s->ended) one_step(s); }
		else if (y >= 8) settle(s, "traffic");
	}
	while (!s->ended && !reset_fired && A->written < A->total) app_write(A, pick_chunk(A));
	while (!s->ended && !reset_fired && B->written < B->total) app_write(B, pick_chunk(B));
}
/* An application that writes through a filter which keeps a tail (compressor, block cipher) flushes it
 * before it waits for "everything I wrote has arrived" or ends the stream. */
static void flush_held(struct session *s, const char *where)
{
	struct endpoint *A = &s->ep[0];
	if (s->ended || A->freed || !A->n_hold) return;
	VLOG("  [A] %s: application flushes its hold-back filter(s), %zu bytes held", where, held_bytes(A));
	vh_stat("hold_app_flush_before_end");
	act_flush(A, EV_WRITE, BEV_FLUSH);
}
/* make both directions flow and let everything arrive; leaves the loop idle */
static void drain_phase(struct session *s)
{
	int side, j, round;
	sf_reset();
	if (s->use_wm && wm_mode && !s->wm_drain_keep) {
		for (side = 0; side < 2; side++) {
			struct endpoint *ep = &s->ep[side];
			set_rwm(ep, ep->top, 0, 0);
			for (j = 0; j < ep->nl - 1; j++)
				if (ep->L[j].bev->wm_read.high) set_rwm(ep, ep->L[j].bev, 0, 0);
		}
		vh_stat("drain_resets_watermarks");
	}
	for (side = 0; side < 2; side++) {
		struct endpoint *ep = &s->ep[side];
		ep->rp_mode = RP_ALL; ep->tog_in_cb = 0;
		app_enable(ep, EV_READ | EV_WRITE);
	}
	flush_held(s, "drain");
	for (round = 0; round < 100000 && !s->ended; round++) {
		size_t got = 0;
		int st = settle(s, "drain");
		if (st != ST_IDLE || s->ended) break;
		for (side = 0; side < 2; side++) got += consume(&s->ep[side], (size_t)-1);
		if (!got) break;
		vh_stat("drain_poll_reads");
	}
}
static long fionread(int fd)
{
	int n = 0;
	if (fd < 0 || __real_ioctl(fd, FIONREAD, &n) < 0) return 0;
	return n;
}
static int send_close_notify(struct session *s, struct endpoint *A)
{
	struct bufferevent *tb = A->L[A->tls_layer].bev;
	int i, rc;
	for (i = 0; i < 2000; i++) {
		if (s->tls == TLS_OSSL) {
			SSL *ssl = bufferevent_openssl_get_ssl(tb);
			ERR_clear_error();
			rc = SSL_shutdown(ssl);
			if (rc >= 0) { ERR_clear_error(); return 0; }
			rc = SSL_get_error(ssl, rc);
			ERR_clear_error();
			if (rc != SSL_ERROR_WANT_WRITE && rc != SSL_ERROR_WANT_READ) return -1;
		} else {
			rc = mbedtls_ssl_close_notify(bufferevent_mbedtls_get_ssl(tb));
			if (rc == 0) return 0;
			if (rc != MBEDTLS_ERR_SSL_WANT_WRITE && rc != MBEDTLS_ERR_SSL_WANT_READ) return -1;
		}
		one_step(s);
	}
	return -1;
}
static void shutdown_phase(struct session *s)
{
	struct endpoint *A = &s->ep[0], *B = &s->ep[1];
	int mode = s->shut_mode, expect_term = 0, b_off = 0, sock = s->base_kind != BASE_PAIR;
	int clean = !reset_fired && !A->n_term_wr && !B->n_term_rd;
	if (s->ended) return;
	if (mode == SM_FREE_DRAINED && sock && fionread(A->fd) > 0) { mode = s->shut_mode = SM_SHUTWR_DRAINED; vh_stat("free_downgraded_unread_input"); }
	if (clean && !wm_mode && (mode == SM_SHUTWR_DRAINED || mode == SM_CLOSE_NOTIFY || mode == SM_FREE_DRAINED) && all_drained(A) &&
	    !A->freed && !B->n_term_rd && (B->top->enabled & EV_READ) && (A->top->enabled & EV_WRITE) && vh_chance(&s->rng, 1, 3)) {
		/* the reader pauses, the writer sends its last bytes and shuts down right behind them: the tail and the
		 * shutdown become readable in one and the same pass when the reader resumes (seed C17-1) */
		size_t n = 1 + (size_t)vh_below(&s->rng, 3000);
		int i;
		bufferevent_disable(B->top, EV_READ);
		A->total = A->written + n;
		app_write(A, n);
		flush_held(s, "late-tail");
		if (s->ended) return;
		for (i = 0; i < 200 && !s->ended && !all_drained(A); i++) settle(s, "late-tail");
		if (s->ended) return;
		s->b_disabled_at_shut = 1;
		vh_stat("late_tail_written_while_reader_paused");
	}
	if (mode == SM_SHUTWR_DRAINED || mode == SM_CLOSE_NOTIFY || mode == SM_FREE_DRAINED) {
		if (held_bytes(A)) {
			/* (only when the drain phase was skipped or ended early) */
			int i;
			flush_held(s, "shutdown");
			for (i = 0; i < 200 && !s->ended && !all_drained(A); i++) settle(s, "flush-before-shutdown");
			if (s->ended) return;
		}
		if (!all_drained(A)) { vh_stat("shutdown_not_drained"); clean = 0; }
		s->strict = clean;
	} else if (mode == SM_FINISHED_FLUSH) {
		s->strict = clean;
		app_enable(A, EV_WRITE);
	} else s->strict = clean && all_drained(A) && B->consumed + evbuffer_get_length(B->top->input) == A->written;
	if (s->strict && s->b_disabled_at_shut) { bufferevent_disable(B->top, EV_READ); b_off = 1; }
	s->b_disabled_at_shut = !(B->top->enabled & EV_READ);
	if (s->b_disabled_at_shut) vh_stat("reader_disabled_at_shutdown");
	s->shut_started = 1;
	vh_stat(sm_name[mode]);
	VLOG("  shutdown %s strict=%d b_off=%d", sm_name[mode], s->strict, b_off);
	switch (mode) {
	case SM_SHUTWR_DRAINED: case SM_SHUTWR_PENDING:
		shutdown(A->fd, SHUT_WR); expect_term = 1; break;
	case SM_CLOSE_NOTIFY:
		if (send_close_notify(s, A) < 0) { vh_stat("close_notify_failed"); s->strict = 0; }
		expect_term = 1; break;
	case SM_FREE_DRAINED: case SM_FREE_PENDING:
		ep_free(A); expect_term = sock; break;
	case SM_FINISHED_FLUSH: {
		size_t before = 0, after;
		int j;
		for (j = 0; j < A->nl; j++) before += evbuffer_get_length(A->L[j].bev->output);
		before += held_bytes(A);
		act_flush(A, EV_WRITE, BEV_FINISHED);
		after = A->freed ? 0 : evbuffer_get_length(A->L[0].bev->output);
		if (!sock && after && after < before) { s->pair_flush_partial = 1; vh_stat("pair_finished_flush_partial"); }
		}
		if (sock) {
			int i;
			if (b_off) { settle(s, "finished-flush"); if (!B->n_term_rd) app_enable(B, EV_READ); b_off = 0; }
			for (i = 0; i < 1000 && !s->ended && !all_drained(A); i++) { settle(s, "finished-flush"); consume(B, (size_t)-1); }
			if (s->ended) return;
			if (!all_drained(A)) { vh_stat("shutdown_not_drained"); s->strict = 0; }
			shutdown(A->fd, SHUT_WR);
			expect_term = 1;
		} else expect_term = !s->tls;
		break;
	}
	settle(s, "after-shutdown");
	if (s->ended) return;
	if (b_off) {
		if (!B->n_term_rd) {
			/* an application that was told EOF does not re-enable reading */
			vh_stat("no_terminal_while_read_disabled");
			app_enable(B, EV_READ);
			settle(s, "after-shutdown-enable");
			if (s->ended) return;
		} else vh_stat("terminal_while_read_disabled");
	}
	consume(B, (size_t)-1);
	if (expect_term && s->strict) {
		if (B->n_term_rd) vh_stat("terminal_seen_when_expected");
		else vh_stat("terminal_expected_but_missing");
	}
	if (s->strict && B->consumed == A->written) vh_stat("sessions_all_bytes_delivered");
}

/* ------------------------------------------------------------------ one case */
static void run_case(long idx, vh_rng *rng)
{
	struct session S, *s = &S;
	struct endpoint *A = &S.ep[0], *B = &S.ep[1];
	int i, side, j;
	uint64_t h;
	memset(s, 0, sizeof(*s));
	s->rng = *rng;
	gen_config(s);
	g_sess = s;
	reset_fired = 0;
	sf_reset();
	VLOG("case %ld: %s base=%d tls=%d fd=%d nfilt=%d ft=[%d%d%d|%d%d%d] fwd=%llu rev=%llu shut=%s wm=%d rwmB=%zu/%zu faults=%d reset=%d viabev=%d",
	    idx, s->cls, s->base_kind, s->tls, s->tls_fdmode, s->nfilt, s->ft[0][0], s->ft[0][1], s->ft[0][2], s->ft[1][0], s->ft[1][1], s->ft[1][2],
	    (unsigned long long)A->total, (unsigned long long)B->total, sm_name[s->shut_mode], s->use_wm, s->rwm[1][0], s->rwm[1][1],
	    s->fault_plan, s->reset_planned, s->connect_via_bev);
	vh_stat("cases");
	if (build_session(s) < 0) {
		vh_stat("build_failed");
		teardown(s);
		g_sess = NULL;
		return;
	}
	/* evidence: what was built */
	vh_stat(s->base_kind == BASE_TCP ? "base_tcp" : s->base_kind == BASE_UNIX ? "base_unix" : "base_pair");
	if (s->tls == TLS_OSSL) vh_stat(s->tls_fdmode ? "tls_openssl_socket" : s->base_kind == BASE_PAIR ? "tls_openssl_over_pair" : "tls_openssl_over_sockbev");
	if (s->tls == TLS_MBED) vh_stat(s->tls_fdmode ? "tls_mbedtls_socket" : s->base_kind == BASE_PAIR ? "tls_mbedtls_over_pair" : "tls_mbedtls_over_sockbev");
	if (s->nfilt) vh_stat(s->nfilt == 1 ? "filters_1" : s->nfilt == 2 ? "filters_2" : "filters_3");
	for (side = 0; side < 2; side++) {
		for (j = 0; j < s->nfilt; j++) {
			static const char *fn[] = { "filter_null", "filter_pass", "filter_chunk", "filter_xor", "filter_framing", "filter_hold" };
			vh_stat(fn[s->ft[side][j]]);
		}
		for (j = 0; j < s->ep[side].nl; j++) {
			int o = s->ep[side].L[j].opts;
			if (o & BEV_OPT_THREADSAFE) vh_stat("opt_threadsafe");
			if (o & BEV_OPT_UNLOCK_CALLBACKS) vh_stat("opt_unlock_callbacks");
			else if (o & BEV_OPT_DEFER_CALLBACKS) vh_stat("opt_defer_callbacks");
		}
	}
	if (s->use_wm) vh_stat("sessions_with_watermarks");
	plan_faults(s);

	if (s->hs_first && (s->tls || s->connect_via_bev)) {
		for (i = 0; i < 20000 && !s->ended && !(A->connected == 1 && (B->connected == 1 || !s->tls)); i++) {
			one_step(s);
			if (!fd_work_pending(s) && !event_base_get_num_events(s->base, EVENT_BASE_COUNT_ACTIVE)) break;
		}
	}
	traffic(s);
	if (!s->ended && !reset_fired && !A->n_term_wr && !B->n_term_wr &&
	    s->shut_mode != SM_FREE_PENDING && s->shut_mode != SM_SHUTWR_PENDING && s->shut_mode != SM_FINISHED_FLUSH)
		drain_phase(s);
	else if (!s->ended && !reset_fired && s->shut_mode == SM_FINISHED_FLUSH && s->tls) {
		/* the handshake must be over before the application can shut the stream down */
		for (i = 0; i < 20000 && !s->ended && !(A->connected == 1 && B->connected == 1); i++) {
			one_step(s);
			if (!fd_work_pending(s) && !event_base_get_num_events(s->base, EVENT_BASE_COUNT_ACTIVE)) break;
		}
	}
	if (s->tls && !s->ended && !reset_fired && (A->connected != 1 || B->connected != 1)) {
		/* whatever the shutdown mode: the application waits for the handshake before it shuts down */
		for (i = 0; i < 20000 && !s->ended && !(A->connected == 1 && B->connected == 1); i++) {
			one_step(s);
			if (!fd_work_pending(s) && !event_base_get_num_events(s->base, EVENT_BASE_COUNT_ACTIVE) && !transport_settle(s)) break;
		}
	}
	if (s->tls && !s->ended && !reset_fired && (A->connected != 1 || B->connected != 1)) {
		vh_stat("handshake_incomplete");
		if (!A->n_term_rd && !B->n_term_rd && !A->n_term_wr && !B->n_term_wr &&
		    (A->top->enabled & B->top->enabled & EV_READ) && (A->top->enabled & B->top->enabled & EV_WRITE)) {
			vh_viol(mkkey(s, "handshake-stalled"), "TLS handshake did not complete although both ends are enabled and the loop is idle (A connected=%d, B connected=%d)", A->connected, B->connected);
		}
		s->ended = 1;
	}
	if (!s->ended && reset_fired) {
		s->shut_started = 1; s->strict = 0;
		settle(s, "after-reset");
		vh_stat("sessions_ended_by_injected_reset");
	} else if (!s->ended)
		shutdown_phase(s);
	if (sf_injected > s->sf_injected0) vh_stat_add("faults_injected", sf_injected - s->sf_injected0);

	/* evidence */
	if (B->consumed) vh_stat("sessions_with_delivery");
	if (A->consumed) vh_stat("sessions_with_reverse_delivery");
	for (side = 0; side < 2; side++) {
		if (s->ep[side].wm_suspensions) vh_stat("sessions_reached_high_watermark");
		if (s->ep[side].low_gated) vh_stat("sessions_readcb_with_low_watermark");
	}
	if (wm_mode) s->nontrivial = B->consumed > 0 && (A->wm_suspensions || B->wm_suspensions || A->low_gated || B->low_gated ||
	    s->wwm_top[0] || s->wwm_top[1] || s->uwm[0][0][1] || s->uwm[0][1][1]);
	else s->nontrivial = B->consumed > 0 && s->shut_started;
	h = vh_hash_bytes(0, &s->base_kind, sizeof(int) * 4);
	h = vh_hash_bytes(h, s->ft, sizeof(s->ft)); h = vh_hash_bytes(h, s->opt, sizeof(s->opt));
	h = vh_hash_bytes(h, &A->total, 8); h = vh_hash_bytes(h, &B->total, 8);
	h = vh_hash_bytes(h, &s->shut_mode, sizeof(int)); h = vh_hash_bytes(h, s->rwm, sizeof(s->rwm));
	h = vh_hash_bytes(h, s->uwm, sizeof(s->uwm)); h = vh_hash_bytes(h, &A->max_chunk, sizeof(size_t));
	if (s->nontrivial) vh_distinct(h);
	vh_sample(3, "{\"case\":%ld,\"stack\":\"%s\",\"base\":%d,\"tls\":%d,\"filters\":%d,\"fwd_bytes\":%llu,\"rev_bytes\":%llu,\"delivered\":%llu,\"shutdown\":\"%s\",\"read_wm\":[%zu,%zu],\"term_event\":\"0x%x\",\"steps\":%ld}",
	    idx, s->cls, s->base_kind, s->tls, s->nfilt, (unsigned long long)A->written, (unsigned long long)B->written,
	    (unsigned long long)B->consumed, sm_name[s->shut_mode], s->rwm[1][0], s->rwm[1][1], B->term_what, s->steps);
	VLOG("  end: A wrote %llu B consumed %llu; B wrote %llu A consumed %llu; B term=%d(0x%x) steps=%ld", (unsigned long long)A->written,
	    (unsigned long long)B->consumed, (unsigned long long)B->written, (unsigned long long)A->consumed, B->n_term_rd, B->term_what, s->steps);
	teardown(s);
	g_sess = NULL;
}

int main(int argc, char **argv)
{
	long idx;
	vh_rng rng;
	vh_init(argc, argv);
	wm_mode = vh_opt.mode && !strcmp(vh_opt.mode, "watermark");
	PROP = wm_mode ? "C18" : "C17";
	if (vh_opt.arg && !strcmp(vh_opt.arg, "pth")) evthread_use_pthreads();
	else lm_install();
	vclk_enable(1000000);
	tls_global_init();
	sf_fd_filter = fdfilter;
	sf_observer = sf_obs;
	while (vh_next_case(&idx, &rng)) run_case(idx, &rng);
	g_sess = NULL;
	tls_global_free();
	libevent_global_shutdown();
	vh_finish();
	return 0;
}
