/* h_http: thin scripted driver for the evhttp parser properties C23/C24/C25.
 *
 * Usage: h_http --arg <scriptfile> [--only <line index>]
 * One case per script line (all intelligence is in lib/checks/C2[345].py):
 *
 *   S <id> <opts> <item>...     server mode: a fresh evhttp on 127.0.0.1:0, one raw
 *                               client connection delivering the items
 *   C <id> <opts> <item>...     client mode: a fresh evhttp_connection to a raw
 *                               listening socket owned by the harness
 *   item:  <hex>   bytes written in one write() (then the loop is stepped to idle)
 *          F       half-close of the raw socket (shutdown(SHUT_WR))
 *          X       full close of the raw socket (client mode)
 *   opts:  comma separated k=v (or "-"):
 *          mh=<n> mb=<n>   max_headers_size / max_body_size (-1 = leave default)
 *          ling=1          EVHTTP_SERVER_LINGERING_CLOSE
 *          ext=1           install an ext_method_cmp accepting every method token
 *          am=<hex>        evhttp_set_allowed_methods mask (default: all 16 known | ext bit)
 *          hwcb=1          exact input-evbuffer high-water mark through an evbuffer callback
 *          rq=M:uri|M:uri  (client mode) requests queued with evhttp_make_request
 *
 * Output: one line "CASE <json>" per case with everything observed.
 */
#include "vh.h"
#include <errno.h>
#include <unistd.h>
#include <fcntl.h>
#include <sched.h>
#include <sys/socket.h>
#include <sys/ioctl.h>
#include <linux/sockios.h>
#include <netinet/in.h>
#include <netinet/tcp.h>
#include <arpa/inet.h>
#include <event2/event.h>
#include <event2/http.h>
#include <event2/http_struct.h>
#include <event2/buffer.h>
#include <event2/bufferevent.h>
#include <event2/keyvalq_struct.h>
#include "http-internal.h"

ssize_t __real_read(int, void *, size_t);
ssize_t __real_write(int, const void *, size_t);
int __real_close(int);
int __real_socket(int, int, int);
int __real_connect(int, const struct sockaddr *, socklen_t);
int __real_accept(int, struct sockaddr *, socklen_t *);
int __real_ioctl(int, unsigned long, ...);
int __real_clock_gettime(clockid_t, struct timespec *);

/* ------------------------------------------------------------ string buffer */
struct sb { char *p; size_t n, cap; };
static void sb_need(struct sb *s, size_t more)
{
	if (s->n + more + 1 > s->cap) {
		size_t nc = s->cap ? s->cap * 2 : 256;
		while (nc < s->n + more + 1) nc *= 2;
		s->p = realloc(s->p, nc);
		if (!s->p) { fprintf(stderr, "h_http: oom\n"); exit(2); }
		s->cap = nc;
	}
}
static void sb_add(struct sb *s, const void *d, size_t n) { sb_need(s, n); memcpy(s->p + s->n, d, n); s->n += n; s->p[s->n] = 0; }
static void sb_str(struct sb *s, const char *z) { sb_add(s, z, strlen(z)); }
static void sb_fmt(struct sb *s, const char *fmt, ...)
{
	char tmp[768]; va_list ap; int k;
	va_start(ap, fmt); k = vsnprintf(tmp, sizeof(tmp), fmt, ap); va_end(ap);
	if (k > 0) sb_add(s, tmp, (size_t)k < sizeof(tmp) ? (size_t)k : sizeof(tmp) - 1);
}
static void sb_hex(struct sb *s, const void *d, size_t n)
{
	static const char H[] = "0123456789abcdef";
	const unsigned char *u = d; size_t i;
	sb_need(s, 2 * n);
	for (i = 0; i < n; i++) { s->p[s->n++] = H[u[i] >> 4]; s->p[s->n++] = H[u[i] & 15]; }
	s->p[s->n] = 0;
}
static void sb_hexq(struct sb *s, const void *d, size_t n) { sb_add(s, "\"", 1); sb_hex(s, d, n); sb_add(s, "\"", 1); }
static void sb_reset(struct sb *s) { s->n = 0; if (s->p) s->p[0] = 0; }

/* ------------------------------------------------------------ case state */
#define EXT_TYPE 0x10000u
struct opts { long mh, mb; int ling, ext, hwcb; unsigned long am; int have_am; char *rq; };

static struct event_base *base;
static struct evhttp *http;
static struct evhttp_connection *ccon;   /* client mode */
static int rawfd = -1;                    /* the harness-owned plain socket */
static int lstfd = -1;                    /* client mode: harness listening socket */
static long activity;                     /* successful syscalls by libevent + callbacks */
static int cur_item;                      /* index of the item being delivered */
static struct sb reqs_js, out_bytes, ev_js;
static int nreq_delivered;
static size_t hw_sample, hw_exact;        /* input evbuffer high-water marks */
static size_t in_deleted;                 /* bytes removed from the input evbuffer (hwcb=1) */
static int hwcb_installed;
static int peer_eof_at = -1;              /* item index at which the raw socket saw EOF/RST */
static int peer_rst;
static int sendfail_at = -1;
static int noidle;
static int reconnects;
static int accepted_once;
static int track_fd = -1;                  /* libevent's fd of the (first) connection under test */
static long lib_read_total, lib_written_total, raw_sent_total, raw_read_total;
static int lib_saw_eof;
static long connects_seen, accepts_done;
static size_t raw_in_total;               /* client mode: bytes the raw peer received (request bytes) */

static void on_sys(int sym, int fd, long req, long res)
{
	(void)req;
	if (res >= 0) activity++;
	else if (sym == SF_connect) activity++;
	if (sym == SF_connect) connects_seen++;
	if (fd >= 0 && fd == track_fd) {
		if (sym == SF_read || sym == SF_readv || sym == SF_recv) {
			if (res > 0) lib_read_total += res;
			else if (res == 0 && req > 0) lib_saw_eof = 1;
		} else if (sym == SF_write || sym == SF_writev || sym == SF_send) {
			if (res > 0) lib_written_total += res;
		} else if (sym == SF_close) {
			track_fd = -1;
		}
	}
}

static struct evbuffer *conn_input(void)
{
	struct evhttp_connection *ec = NULL;
	if (http) ec = TAILQ_FIRST(&http->connections);
	else ec = ccon;
	if (!ec || !ec->bufev) return NULL;
	return bufferevent_get_input(ec->bufev);
}
static int conn_fd(void)
{
	struct evhttp_connection *ec = NULL;
	if (http) ec = TAILQ_FIRST(&http->connections);
	else ec = ccon;
	if (!ec || !ec->bufev) return -1;
	return (int)bufferevent_getfd(ec->bufev);
}
static void sample_hw(void)
{
	struct evbuffer *in = conn_input();
	if (in) { size_t l = evbuffer_get_length(in); if (l > hw_sample) hw_sample = l; }
}
static void wait_hook(int kind, int64_t t, void *a, void *b, void *c, int n)
{
	(void)kind; (void)t; (void)a; (void)b; (void)c; (void)n;
	sample_hw();
}
static void in_cb(struct evbuffer *buf, const struct evbuffer_cb_info *info, void *arg)
{
	size_t l = info->orig_size + info->n_added;   /* the length before the deletions of this batch */
	(void)buf; (void)arg;
	if (l > hw_exact) hw_exact = l;
	in_deleted += info->n_deleted;
}

static void js_headers(struct sb *s, struct evkeyvalq *hq)
{
	struct evkeyval *kv; int first = 1;
	sb_str(s, "[");
	TAILQ_FOREACH(kv, hq, next) {
		if (!first) sb_str(s, ",");
		first = 0;
		sb_str(s, "["); sb_hexq(s, kv->key, strlen(kv->key)); sb_str(s, ",");
		sb_hexq(s, kv->value, strlen(kv->value)); sb_str(s, "]");
	}
	sb_str(s, "]");
}
static void js_body(struct sb *s, struct evbuffer *b)
{
	size_t l = b ? evbuffer_get_length(b) : 0;
	unsigned char *p = l ? evbuffer_pullup(b, -1) : NULL;
	sb_hexq(s, p ? (void *)p : (void *)"", p ? l : 0);
}

/* ------------------------------------------------------------ server side */
static int ext_cmp(struct evhttp_ext_method *m)
{
	if (m->method == NULL) {           /* type -> name + flags */
		if (m->type != EXT_TYPE) return -1;
		m->method = "EXT";
		m->flags = EVHTTP_METHOD_HAS_BODY;
		return 0;
	}
	m->type = EXT_TYPE;                /* every otherwise unknown token is an extension method with a body */
	return 0;
}
static int newreq_cb(struct evhttp_request *req, void *arg)
{
	struct opts *o = arg;
	activity++;
	if (o->hwcb && !hwcb_installed) {
		struct evhttp_connection *ec = evhttp_request_get_connection(req);
		struct bufferevent *bev = ec ? evhttp_connection_get_bufferevent(ec) : NULL;
		if (bev) { evbuffer_add_cb(bufferevent_get_input(bev), in_cb, NULL); hwcb_installed = 1; }
	}
	return 0;
}
static void gen_cb(struct evhttp_request *req, void *arg)
{
	char tag[32];
	const char *uri = evhttp_request_get_uri(req);
	(void)arg;
	activity++;
	sample_hw();
	if (nreq_delivered) sb_str(&reqs_js, ",");
	sb_fmt(&reqs_js, "{\"t\":%u,\"v\":[%d,%d],\"at\":%d,\"u\":", (unsigned)evhttp_request_get_command(req),
	       (int)req->major, (int)req->minor, cur_item);
	sb_hexq(&reqs_js, uri ? uri : "", uri ? strlen(uri) : 0);
	sb_str(&reqs_js, ",\"h\":"); js_headers(&reqs_js, evhttp_request_get_input_headers(req));
	sb_str(&reqs_js, ",\"b\":"); js_body(&reqs_js, evhttp_request_get_input_buffer(req));
	sb_fmt(&reqs_js, ",\"hs\":%lu,\"bs\":%lu}", (unsigned long)req->headers_size, (unsigned long)req->body_size);
	snprintf(tag, sizeof(tag), "%d", nreq_delivered);
	nreq_delivered++;
	evhttp_add_header(evhttp_request_get_output_headers(req), "X-Req", tag);
	evhttp_send_reply(req, 200, "OK", NULL);
}

/* ------------------------------------------------------------ client side */
struct creq { int idx; int done; };
static struct creq creqs[16];
static int ncreq, ndone;
static void cerr_cb(enum evhttp_request_error err, void *arg)
{
	struct creq *c = arg;
	activity++;
	sb_fmt(&ev_js, "%s{\"k\":\"err\",\"i\":%d,\"e\":%d,\"at\":%d}", ev_js.n ? "," : "", c->idx, (int)err, cur_item);
}
static void cdone_cb(struct evhttp_request *req, void *arg)
{
	struct creq *c = arg;
	activity++;
	sample_hw();
	c->done++;
	ndone++;
	sb_fmt(&ev_js, "%s{\"k\":\"done\",\"i\":%d,\"at\":%d,\"raw\":%lu", ev_js.n ? "," : "", c->idx, cur_item, (unsigned long)raw_in_total);
	if (req == NULL) { sb_str(&ev_js, ",\"null\":1}"); return; }
	sb_fmt(&ev_js, ",\"code\":%d,\"v\":[%d,%d],\"line\":", evhttp_request_get_response_code(req), (int)req->major, (int)req->minor);
	{
		const char *l = evhttp_request_get_response_code_line(req);
		if (l) sb_hexq(&ev_js, l, strlen(l)); else sb_str(&ev_js, "null");
	}
	sb_str(&ev_js, ",\"h\":"); js_headers(&ev_js, evhttp_request_get_input_headers(req));
	sb_str(&ev_js, ",\"b\":"); js_body(&ev_js, evhttp_request_get_input_buffer(req));
	sb_fmt(&ev_js, ",\"hs\":%lu,\"bs\":%lu}", (unsigned long)req->headers_size, (unsigned long)req->body_size);
}
static enum evhttp_cmd_type method_type(const char *m)
{
	static const struct { const char *n; enum evhttp_cmd_type t; } tab[] = {
		{"GET", EVHTTP_REQ_GET}, {"POST", EVHTTP_REQ_POST}, {"HEAD", EVHTTP_REQ_HEAD}, {"PUT", EVHTTP_REQ_PUT},
		{"DELETE", EVHTTP_REQ_DELETE}, {"OPTIONS", EVHTTP_REQ_OPTIONS}, {"TRACE", EVHTTP_REQ_TRACE},
		{"CONNECT", EVHTTP_REQ_CONNECT}, {"PATCH", EVHTTP_REQ_PATCH}};
	size_t i;
	for (i = 0; i < sizeof(tab) / sizeof(tab[0]); i++) if (!strcmp(tab[i].n, m)) return tab[i].t;
	return EVHTTP_REQ_GET;
}

/* ------------------------------------------------------------ raw socket service + stepping */
static void set_nonblock(int fd) { int fl = fcntl(fd, F_GETFL); fcntl(fd, F_SETFL, fl | O_NONBLOCK); }
static long inq(int fd)
{
	int v = 0;
	if (fd < 0) return 0;
	if (__real_ioctl(fd, FIONREAD, &v) < 0) return 0;
	return v;
}
/* bytes written by one side that are neither consumed by nor queued at the other side yet (loopback
 * delivery is normally synchronous, but softirq processing may be deferred under load) */
static long inflight(void)
{
	long a = 0, b = 0;
	if (track_fd >= 0 && raw_sent_total > lib_read_total && conn_fd() == track_fd) a = raw_sent_total - lib_read_total - inq(track_fd);
	if (rawfd >= 0 && peer_eof_at < 0 && lib_written_total > raw_read_total) b = lib_written_total - raw_read_total - inq(rawfd);
	return (a > 0 ? a : 0) + (b > 0 ? b : 0);
}
static void start_tracking(void)
{
	int one = 1;
	track_fd = conn_fd();
	lib_read_total = lib_written_total = 0;
	lib_saw_eof = 0;
	/* harness-level socket tuning only: avoid Nagle/delayed-ACK stalls of real time between small writes */
	if (track_fd >= 0) setsockopt(track_fd, IPPROTO_TCP, TCP_NODELAY, &one, sizeof(one));
}
static long nyields;
static void real_sleep_us(long us)
{
	(void)us;
	nyields++;
	sched_yield();
}
static double real_now(void)
{
	struct timespec ts;
	__real_clock_gettime(CLOCK_MONOTONIC, &ts);
	return ts.tv_sec + ts.tv_nsec / 1e9;
}
/* returns number of progress events at the raw side */
static int probe_eof;
static int service_raw(int server_mode)
{
	int prog = 0;
	char buf[16384];
	if (!server_mode && lstfd >= 0 && connects_seen > accepts_done) {
		for (;;) {
			int fd = __real_accept(lstfd, NULL, NULL);
			if (fd < 0) break;
			prog++;
			accepts_done++;
			if (!accepted_once) {
				accepted_once = 1;
				int one = 1;
				rawfd = fd; set_nonblock(fd);
				setsockopt(fd, IPPROTO_TCP, TCP_NODELAY, &one, sizeof(one));
			} else {
				/* CALIBRATED (harness choice): only the first connection is served; a reconnect is accepted
				 * and closed at once so the re-dispatched request fails with EOF */
				reconnects++;
				__real_close(fd);
			}
		}
	}
	/* read only when libevent has written something we have not seen, or may have closed its side */
	if (rawfd >= 0 && peer_eof_at < 0 && (lib_written_total > raw_read_total || track_fd < 0 || probe_eof)) {
		for (;;) {
			ssize_t r = __real_read(rawfd, buf, sizeof(buf));
			if (r > 0) {
				prog++;
				raw_read_total += r;
				if (server_mode) sb_add(&out_bytes, buf, (size_t)r);
				else raw_in_total += (size_t)r;
				continue;
			}
			if (r == 0) { peer_eof_at = cur_item; prog++; }
			else if (errno != EAGAIN && errno != EWOULDBLOCK && errno != EINTR) { peer_eof_at = cur_item; peer_rst = 1; prog++; }
			break;
		}
	}
	return prog;
}
static void step_to_idle(int server_mode)
{
	long iter, last_q = -1;
	double t_stall = 0;
	/* event_base_loop(EVLOOP_NONBLOCK) itself iterates until an iteration finds nothing active, i.e. it returns
	 * quiescent with respect to everything the kernel had reported.  What remains is our own side (reading what
	 * libevent wrote, accepting) and bytes still in flight on loopback. */
	for (iter = 0; iter < 200000; iter++) {
		long q;
		event_base_loop(base, EVLOOP_NONBLOCK);
		sample_hw();
		if (service_raw(server_mode)) continue;
		if (event_base_get_num_events(base, EVENT_BASE_COUNT_ACTIVE) > 0) continue;
		q = inflight();
		if (q > 0) {
			if (q != last_q) { last_q = q; t_stall = real_now(); }
			if (real_now() - t_stall < 0.05) { real_sleep_us(25); continue; }
			/* unchanged for 50 ms of real time: the receiver's window is closed; settled */
		}
		return;
	}
	noidle = 1;
}
static void raw_send(const unsigned char *d, size_t n, int server_mode)
{
	size_t off = 0;
	int spins = 0;
	while (off < n && rawfd >= 0) {
		ssize_t w = __real_write(rawfd, d + off, n - off);
		if (w > 0) { off += (size_t)w; raw_sent_total += w; spins = 0; continue; }
		if (w < 0 && (errno == EAGAIN || errno == EWOULDBLOCK)) {
			long a0 = activity;
			event_base_loop(base, EVLOOP_NONBLOCK);
			service_raw(server_mode);
			if (activity == a0 && ++spins > 2000) { if (sendfail_at < 0) sendfail_at = cur_item; return; }
			if (activity == a0) real_sleep_us(25);
			continue;
		}
		if (w < 0 && errno == EINTR) continue;
		if (sendfail_at < 0) sendfail_at = cur_item;   /* EPIPE / ECONNRESET: the other side is gone */
		return;
	}
}
static int fin_pending;
static void raw_fin(void)
{
	if (rawfd < 0) return;
	shutdown(rawfd, SHUT_WR);
	fin_pending = 1;
}
/* after our FIN: libevent reads EOF (or has dropped the connection, or is not reading at all) */
static int pred_fin_seen(void)
{
	struct evhttp_connection *ec = http ? TAILQ_FIRST(&http->connections) : ccon;
	if (!fin_pending) return 1;
	if (lib_saw_eof || track_fd < 0 || conn_fd() != track_fd) return 1;
	if (ec && ec->bufev && !(bufferevent_get_enabled(ec->bufev) & EV_READ)) return 1;
	return 0;
}

static int hexval(int c)
{
	if (c >= '0' && c <= '9') return c - '0';
	if (c >= 'a' && c <= 'f') return c - 'a' + 10;
	if (c >= 'A' && c <= 'F') return c - 'A' + 10;
	return -1;
}
static size_t unhex(const char *h, unsigned char *out)
{
	size_t n = 0;
	while (h[0] && h[1]) {
		int a = hexval((unsigned char)h[0]), b = hexval((unsigned char)h[1]);
		if (a < 0 || b < 0) break;
		out[n++] = (unsigned char)(a << 4 | b);
		h += 2;
	}
	return n;
}
static void parse_opts(char *s, struct opts *o)
{
	char *tok, *save = NULL;
	memset(o, 0, sizeof(*o));
	o->mh = -1; o->mb = -1;
	if (!strcmp(s, "-")) return;
	for (tok = strtok_r(s, ",", &save); tok; tok = strtok_r(NULL, ",", &save)) {
		char *eq = strchr(tok, '=');
		if (!eq) continue;
		*eq++ = 0;
		if (!strcmp(tok, "mh")) o->mh = strtol(eq, NULL, 0);
		else if (!strcmp(tok, "mb")) o->mb = strtol(eq, NULL, 0);
		else if (!strcmp(tok, "ling")) o->ling = atoi(eq);
		else if (!strcmp(tok, "ext")) o->ext = atoi(eq);
		else if (!strcmp(tok, "hwcb")) o->hwcb = atoi(eq);
		else if (!strcmp(tok, "am")) { o->am = strtoul(eq, NULL, 16); o->have_am = 1; }
		else if (!strcmp(tok, "rq")) o->rq = eq;
	}
}

static void reset_case(void)
{
	sb_reset(&reqs_js); sb_reset(&out_bytes); sb_reset(&ev_js);
	nreq_delivered = 0; hw_sample = hw_exact = 0; in_deleted = 0; hwcb_installed = 0;
	peer_eof_at = -1; peer_rst = 0; sendfail_at = -1; noidle = 0; reconnects = 0;
	raw_in_total = 0; ncreq = 0; ndone = 0; cur_item = -1;
	nyields = 0; connects_seen = accepts_done = 0; probe_eof = 0; track_fd = -1; lib_read_total = lib_written_total = raw_sent_total = raw_read_total = 0; lib_saw_eof = 0; fin_pending = 0;
	accepted_once = 0;
}

static int wait_until(int (*pred)(void), int server_mode)
{
	double t0 = real_now();
	while (!pred()) {
		long a0 = activity;
		event_base_loop(base, EVLOOP_NONBLOCK);
		service_raw(server_mode);
		if (pred()) break;
		if (real_now() - t0 > 5.0) return -1;
		if (activity == a0) real_sleep_us(25);
	}
	return 0;
}
static int pred_srv_accepted(void) { return http && TAILQ_FIRST(&http->connections) != NULL; }
static int pred_cli_accepted(void) { return rawfd >= 0 || reconnects > 0; }
static int pred_raw_eof(void) { probe_eof = 1; return peer_eof_at >= 0; }

static void run_server_case(const char *id, struct opts *o, char **items, int nitems)
{
	struct evhttp_bound_socket *bs;
	struct sockaddr_in sin; socklen_t sl = sizeof(sin);
	int i, one = 1, fin_sent = 0, closed_before_fin = 0, conn_alive_at_end;
	struct sb line = {0};
	unsigned char *tmp;

	base = event_base_new();
	http = evhttp_new(base);
	if (o->mh >= 0) evhttp_set_max_headers_size(http, o->mh);
	if (o->mb >= 0) evhttp_set_max_body_size(http, o->mb);
	if (o->ling) evhttp_set_flags(http, EVHTTP_SERVER_LINGERING_CLOSE);
	if (o->ext) evhttp_set_ext_method_cmp(http, ext_cmp);
	evhttp_set_allowed_methods(http, o->have_am ? (ev_uint32_t)o->am : (0xffffu | EXT_TYPE));
	evhttp_set_gencb(http, gen_cb, NULL);
	evhttp_set_newreqcb(http, newreq_cb, o);
	bs = evhttp_bind_socket_with_handle(http, "127.0.0.1", 0);
	if (!bs) { fprintf(stderr, "h_http: bind failed\n"); exit(2); }
	getsockname(evhttp_bound_socket_get_fd(bs), (struct sockaddr *)&sin, &sl);
	rawfd = __real_socket(AF_INET, SOCK_STREAM, 0);
	if (__real_connect(rawfd, (struct sockaddr *)&sin, sizeof(sin)) < 0) { perror("h_http: connect"); exit(2); }
	set_nonblock(rawfd);
	setsockopt(rawfd, IPPROTO_TCP, TCP_NODELAY, &one, sizeof(one));
	if (wait_until(pred_srv_accepted, 1) < 0) noidle = 1;
	start_tracking();
	step_to_idle(1);

	for (i = 0; i < nitems; i++) {
		cur_item = i;
		if (!strcmp(items[i], "F")) { raw_fin(); fin_sent = 1; if (wait_until(pred_fin_seen, 1) < 0) noidle |= 4; }
		else {
			size_t n;
			tmp = malloc(strlen(items[i]) / 2 + 1);
			n = unhex(items[i], tmp);
			if (!fin_sent && sendfail_at < 0) raw_send(tmp, n, 1);
			free(tmp);
		}
		step_to_idle(1);
		if (!fin_sent && TAILQ_FIRST(&http->connections) == NULL && !closed_before_fin) closed_before_fin = 1 + i;
	}
	cur_item = nitems;
	conn_alive_at_end = TAILQ_FIRST(&http->connections) != NULL;
	if (!fin_sent) { raw_fin(); if (wait_until(pred_fin_seen, 1) < 0) noidle |= 4; step_to_idle(1); }
	/* after our FIN the server must close; wait (real time, generous) for its EOF so that `out` is complete */
	if (wait_until(pred_raw_eof, 1) < 0) noidle |= 2;
	step_to_idle(1);

	sb_str(&line, "CASE {\"id\":\""); sb_str(&line, id);
	sb_fmt(&line, "\",\"mode\":\"S\",\"nreq\":%d,\"reqs\":[", nreq_delivered);
	sb_add(&line, reqs_js.p ? reqs_js.p : "", reqs_js.n);
	sb_str(&line, "],\"out\":"); sb_hexq(&line, out_bytes.p ? out_bytes.p : "", out_bytes.n);
	sb_fmt(&line, ",\"closed_before_fin\":%d,\"alive_at_end\":%d,\"eof_at\":%d,\"rst\":%d,\"sendfail\":%d,\"hw\":%lu,\"hwx\":%lu,\"del\":%lu,\"noidle\":%d,\"yields\":%ld,\"leftconn\":%d}",
	       closed_before_fin, conn_alive_at_end, peer_eof_at, peer_rst, sendfail_at, (unsigned long)hw_sample,
	       (unsigned long)hw_exact, (unsigned long)in_deleted, noidle, nyields, TAILQ_FIRST(&http->connections) != NULL);
	puts(line.p);
	free(line.p);

	__real_close(rawfd); rawfd = -1;
	step_to_idle(1);
	evhttp_free(http); http = NULL;
	event_base_free(base); base = NULL;
}

static void run_client_case(const char *id, struct opts *o, char **items, int nitems)
{
	struct sockaddr_in sin; socklen_t sl = sizeof(sin);
	int i, one = 1, closed = 0;
	struct sb line = {0};
	unsigned char *tmp;
	char *rq, *save = NULL, *tok;

	base = event_base_new();
	lstfd = __real_socket(AF_INET, SOCK_STREAM, 0);
	setsockopt(lstfd, SOL_SOCKET, SO_REUSEADDR, &one, sizeof(one));
	memset(&sin, 0, sizeof(sin));
	sin.sin_family = AF_INET; sin.sin_addr.s_addr = htonl(INADDR_LOOPBACK); sin.sin_port = 0;
	if (bind(lstfd, (struct sockaddr *)&sin, sizeof(sin)) < 0 || listen(lstfd, 16) < 0) { perror("h_http: listen"); exit(2); }
	getsockname(lstfd, (struct sockaddr *)&sin, &sl);
	set_nonblock(lstfd);
	ccon = evhttp_connection_base_new(base, NULL, "127.0.0.1", ntohs(sin.sin_port));
	if (o->mh >= 0) evhttp_connection_set_max_headers_size(ccon, o->mh);
	if (o->mb >= 0) evhttp_connection_set_max_body_size(ccon, o->mb);
	if (o->hwcb) {
		struct bufferevent *bev = evhttp_connection_get_bufferevent(ccon);
		if (bev) { evbuffer_add_cb(bufferevent_get_input(bev), in_cb, NULL); hwcb_installed = 1; }
	}
	rq = o->rq ? strdup(o->rq) : strdup("GET:/");
	for (tok = strtok_r(rq, "|", &save); tok && ncreq < 16; tok = strtok_r(NULL, "|", &save)) {
		char *colon = strchr(tok, ':');
		struct evhttp_request *req;
		struct creq *c = &creqs[ncreq];
		const char *uri = "/";
		if (colon) { *colon = 0; uri = colon + 1; }
		c->idx = ncreq; c->done = 0;
		req = evhttp_request_new(cdone_cb, c);
		evhttp_request_set_error_cb(req, cerr_cb);
		evhttp_add_header(evhttp_request_get_output_headers(req), "Host", "h");
		evhttp_make_request(ccon, req, method_type(tok), uri);
		ncreq++;
	}
	free(rq);
	if (wait_until(pred_cli_accepted, 0) < 0) noidle = 1;
	start_tracking();
	step_to_idle(0);

	for (i = 0; i < nitems; i++) {
		cur_item = i;
		if (!strcmp(items[i], "F")) { if (!closed) { raw_fin(); if (wait_until(pred_fin_seen, 0) < 0) noidle |= 4; } }
		else if (!strcmp(items[i], "X")) {
			if (!closed && rawfd >= 0) {
				/* deliver the FIN first (deterministic EOF), then drop the socket */
				raw_fin(); if (wait_until(pred_fin_seen, 0) < 0) noidle |= 4;
				step_to_idle(0);
				__real_close(rawfd); rawfd = -1; closed = 1;
			}
		} else {
			size_t n;
			tmp = malloc(strlen(items[i]) / 2 + 1);
			n = unhex(items[i], tmp);
			if (!closed && sendfail_at < 0 && rawfd >= 0) raw_send(tmp, n, 0);
			free(tmp);
		}
		step_to_idle(0);
	}
	cur_item = nitems;

	sb_str(&line, "CASE {\"id\":\""); sb_str(&line, id);
	sb_fmt(&line, "\",\"mode\":\"C\",\"nrq\":%d,\"ev\":[", ncreq);
	sb_add(&line, ev_js.p ? ev_js.p : "", ev_js.n);
	sb_fmt(&line, "],\"rawin\":%lu,\"eof_at\":%d,\"rst\":%d,\"sendfail\":%d,\"reconn\":%d,\"hw\":%lu,\"hwx\":%lu,\"del\":%lu,\"noidle\":%d,\"yields\":%ld,\"state\":%d}",
	       (unsigned long)raw_in_total, peer_eof_at, peer_rst, sendfail_at, reconnects, (unsigned long)hw_sample,
	       (unsigned long)hw_exact, (unsigned long)in_deleted, noidle, nyields, (int)ccon->state);
	puts(line.p);
	free(line.p);

	cur_item = nitems + 1;
	evhttp_connection_free(ccon); ccon = NULL;   /* pending requests are released without callbacks */
	if (rawfd >= 0) { __real_close(rawfd); rawfd = -1; }
	__real_close(lstfd); lstfd = -1;
	event_base_loop(base, EVLOOP_NONBLOCK);
	event_base_free(base); base = NULL;
}

int main(int argc, char **argv)
{
	FILE *f;
	char *line = NULL;
	size_t cap = 0;
	ssize_t len;
	long idx = -1;

	vh_init(argc, argv);
	if (!vh_opt.arg) { fprintf(stderr, "h_http: --arg <script> required\n"); return 2; }
	f = fopen(vh_opt.arg, "r");
	if (!f) { perror(vh_opt.arg); return 2; }
	vclk_enable(1000000000LL);
	vclk_wait_hook = wait_hook;
	sf_observer = on_sys;
	while ((len = getline(&line, &cap, f)) > 0) {
		char *save = NULL, *mode, *id, *optstr, *tok;
		char **items = NULL;
		int nitems = 0, capi = 0;
		struct opts o;
		while (len > 0 && (line[len - 1] == '\n' || line[len - 1] == '\r')) line[--len] = 0;
		if (!len || line[0] == '#') continue;
		idx++;
		if (vh_opt.only >= 0 && idx != vh_opt.only) continue;
		vh_cur_case = idx;
		mode = strtok_r(line, " ", &save);
		id = strtok_r(NULL, " ", &save);
		optstr = strtok_r(NULL, " ", &save);
		if (!mode || !id || !optstr) continue;
		while ((tok = strtok_r(NULL, " ", &save)) != NULL) {
			if (nitems == capi) { capi = capi ? capi * 2 : 16; items = realloc(items, capi * sizeof(*items)); }
			items[nitems++] = tok;
		}
		parse_opts(optstr, &o);
		reset_case();
		if (mode[0] == 'S') { run_server_case(id, &o, items, nitems); vh_stat("cases_server"); }
		else { run_client_case(id, &o, items, nitems); vh_stat("cases_client"); }
		vh_stat("cases");
		free(items);
	}
	free(line);
	fclose(f);
	vh_finish();
	return 0;
}
