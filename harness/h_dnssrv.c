/* C35 / C37: thin driver for the evdns *server* side.
 *
 * Reads a script (--arg FILE), many cases per process.  Per case it creates an
 * event_base, a UDP socket registered with evdns_add_server_port_with_base and a
 * TCP evconnlistener registered with evdns_add_server_port_with_listener.  The
 * script is the client: it sends datagrams / TCP segments on plain sockets owned
 * by this harness.  The server callback adds exactly the records the script
 * lists and responds (or drops).  Everything observable is printed as a trace;
 * all judgement is done offline by lib/ref/dnswire_srv.py.
 *
 * Script lines (tokens separated by one blank; h<hex> = hex bytes, may be empty):
 *   CASE <idx>
 *   ACT <0 respond|1 drop> <err> <flags|-1>
 *   R <api> <section> <h-name> <type> <class> <ttl> <is_name> <data>
 *        api: r add_reply, a add_a_reply, 6 add_aaaa_reply, c add_cname_reply,
 *             p add_ptr_reply(inaddr_name), P add_ptr_reply(struct in_addr)
 *        data: h<hex> | g<len>:<seed> (byte i = seed+i*7+(i>>8)) | - (NULL)
 *   U <h-bytes>        send one UDP datagram to the server port
 *   TN                 (re)connect the TCP client
 *   T <h-bytes>        send one TCP segment
 *   TS                 shutdown(SHUT_WR) on the TCP client
 *   END <0|1>          1: close clients first, then the ports; 0: ports first
 * Trace lines: C idx / O n (op marker) / Q transport id flags nq {hname type class}
 *   / ADDFAIL i rc / RESP rc / DROP / u hex / t hex / teof / STALL / E live-delta
 */
/* evdns.c is compiled into this translation unit (the archive member is then not linked) for one reason
 * only: the trace names the transaction id of the request behind each callback, so that the offline
 * oracle can attribute callbacks to TCP frames without guessing.  Nothing else of its internals is used. */
#include "evdns.c"
#include "vh.h"
#include <errno.h>
#include <fcntl.h>
#include <unistd.h>
#include <sys/socket.h>
#include <netinet/in.h>
#include <netinet/tcp.h>
#include <arpa/inet.h>
#include <event2/event.h>
#include <event2/dns.h>
#include <event2/dns_struct.h>
#include <event2/listener.h>
#include <event2/util.h>

int __real_socket(int, int, int);
int __real_connect(int, const struct sockaddr *, socklen_t);
int __real_close(int);
ssize_t __real_send(int, const void *, size_t, int);
ssize_t __real_recv(int, void *, size_t, int);

struct rec {
	char api;
	int section, type, cls, is_name;
	long ttl;
	char *name;
	unsigned char *data;   /* NULL = pass NULL */
	int datalen;
};
static struct rec *recs;
static int nrecs, caprecs;
static int act_mode, act_err, act_flags = -1;

static struct event_base *h_base;
static struct evdns_server_port *port_u, *port_t;
static int cli_u = -1, cli_t = -1, cli_t_eof;
static struct sockaddr_in srv_u_addr, srv_t_addr;
static long ncb, nprogress;
static char *hexbuf;
static unsigned char *iobuf;
#define IOCAP 140000

static void h_put_hex(const char *tag, const unsigned char *p, size_t n)
{
	static const char hx[] = "0123456789abcdef";
	size_t i, o = 0;
	for (i = 0; i < n; i++) { hexbuf[o++] = hx[p[i] >> 4]; hexbuf[o++] = hx[p[i] & 15]; }
	hexbuf[o] = 0;
	fputs(tag, stdout); fputc(' ', stdout); fputs(hexbuf, stdout); fputc('\n', stdout);
}
static int h_hv(int c) { return c >= '0' && c <= '9' ? c - '0' : c >= 'a' && c <= 'f' ? c - 'a' + 10 : c >= 'A' && c <= 'F' ? c - 'A' + 10 : -1; }
/* decode "h<hex>" into a malloc'd buffer (NUL terminated for use as a C string) */
static unsigned char *h_unhex(const char *tok, int *len)
{
	size_t n, i;
	unsigned char *out;
	if (tok[0] != 'h') { fprintf(stderr, "h_dnssrv: bad hex token\n"); exit(2); }
	tok++;
	n = strlen(tok) / 2;
	out = malloc(n + 1);
	for (i = 0; i < n; i++) out[i] = (unsigned char)((h_hv(tok[2 * i]) << 4) | h_hv(tok[2 * i + 1]));
	out[n] = 0;
	*len = (int)n;
	return out;
}
static unsigned char *h_mkdata(const char *tok, int *len)
{
	if (!strcmp(tok, "-")) { *len = 0; return NULL; }
	if (tok[0] == 'g') {
		long n = 0, seed = 0, i;
		unsigned char *out;
		sscanf(tok + 1, "%ld:%ld", &n, &seed);
		out = malloc((size_t)n + 1);
		for (i = 0; i < n; i++) out[i] = (unsigned char)(seed + i * 7 + (i >> 8));
		out[n] = 0;
		*len = (int)n;
		return out;
	}
	return h_unhex(tok, len);
}

static void h_srv_cb(struct evdns_server_request *req, void *arg)
{
	int i, rc;
	ncb++;
	printf("Q %c %u %x %d", (char)(intptr_t)arg, (unsigned)TO_SERVER_REQUEST(req)->trans_id, (unsigned)req->flags, req->nquestions);
	for (i = 0; i < req->nquestions; i++) {
		const char *nm = req->questions[i]->name;
		size_t n = strlen(nm), k;
		fputs(" h", stdout);
		for (k = 0; k < n; k++) printf("%02x", (unsigned char)nm[k]);
		printf(" %d %d", req->questions[i]->type, req->questions[i]->dns_question_class);
	}
	fputc('\n', stdout);
	for (i = 0; i < nrecs; i++) {
		struct rec *r = &recs[i];
		switch (r->api) {
		case 'a': rc = evdns_server_request_add_a_reply(req, r->name, r->datalen / 4, r->data, (int)r->ttl); break;
		case '6': rc = evdns_server_request_add_aaaa_reply(req, r->name, r->datalen / 16, r->data, (int)r->ttl); break;
		case 'c': rc = evdns_server_request_add_cname_reply(req, r->name, (const char *)r->data, (int)r->ttl); break;
		case 'p': rc = evdns_server_request_add_ptr_reply(req, NULL, r->name, (const char *)r->data, (int)r->ttl); break;
		case 'P': {
			struct in_addr in;
			memcpy(&in.s_addr, r->name, 4);   /* name field carries the 4 address bytes */
			rc = evdns_server_request_add_ptr_reply(req, &in, NULL, (const char *)r->data, (int)r->ttl);
			break;
		}
		default:
			rc = evdns_server_request_add_reply(req, r->section, r->name, r->type, r->cls, (int)r->ttl,
			    r->datalen, r->is_name, (const char *)r->data);
		}
		if (rc != 0) printf("ADDFAIL %d %d\n", i, rc);
	}
	if (act_flags >= 0) evdns_server_request_set_flags(req, act_flags);
	if (act_mode == 0) {
		rc = evdns_server_request_respond(req, act_err);
		printf("RESP %d\n", rc);
		if (rc < 0) evdns_server_request_drop(req);  /* a failed respond leaves the request to its owner */
	} else {
		evdns_server_request_drop(req);
		printf("DROP\n");
	}
}

/* any wrapped syscall made by the library that moved data / accepted a socket is progress */
static void h_obs(int sym, int fd, long req, long res)
{
	(void)fd; (void)req;
	if (sym == SF_epoll_ctl || sym == SF_close || sym == SF_ioctl) return;
	if (res > 0) nprogress++;
	if ((sym == SF_accept4 || sym == SF_accept) && res >= 0) {
		int one = 1;
		/* harness-level: no Nagle on the accepted socket so that loopback delivery is synchronous */
		setsockopt((int)res, IPPROTO_TCP, TCP_NODELAY, &one, sizeof(one));
	}
}

static int h_drain(void)
{
	int got = 0;
	ssize_t r;
	if (cli_u >= 0)
		while ((r = __real_recv(cli_u, iobuf, IOCAP, MSG_DONTWAIT)) >= 0) { h_put_hex("u", iobuf, (size_t)r); got = 1; }
	if (cli_t >= 0 && !cli_t_eof) {
		for (;;) {
			r = __real_recv(cli_t, iobuf, 65536, MSG_DONTWAIT);
			if (r > 0) { h_put_hex("t", iobuf, (size_t)r); got = 1; }
			else if (r == 0) { printf("teof\n"); cli_t_eof = 1; got = 1; break; }
			else { if (errno != EAGAIN && errno != EWOULDBLOCK && errno != EINTR) { printf("terr %d\n", errno); cli_t_eof = 1; got = 1; } break; }
		}
	}
	return got;
}
static int h_step_once(void)
{
	long c0 = ncb, p0 = nprogress;
	int prog;
	event_base_loop(h_base, EVLOOP_NONBLOCK);
	prog = (ncb != c0) || (nprogress != p0);
	if (h_drain()) prog = 1;
	if (event_base_get_num_events(h_base, EVENT_BASE_COUNT_ACTIVE) > 0) prog = 1;
	return prog;
}
static void h_step_idle(void)
{
	int quiet = 0;
	long guard = 0;
	while (quiet < 3) {
		if (h_step_once()) quiet = 0; else quiet++;
		if (++guard > 200000) { printf("STALL\n"); break; }
	}
}

static void h_tcp_close_client(void)
{
	if (cli_t >= 0) { __real_close(cli_t); cli_t = -1; }
	cli_t_eof = 0;
}
static void h_tcp_connect_client(void)
{
	int one = 1;
	h_tcp_close_client();
	cli_t = __real_socket(AF_INET, SOCK_STREAM, 0);
	if (cli_t < 0 || __real_connect(cli_t, (struct sockaddr *)&srv_t_addr, sizeof(srv_t_addr)) < 0) {
		fprintf(stderr, "h_dnssrv: tcp connect failed: %s\n", strerror(errno)); exit(2);
	}
	setsockopt(cli_t, IPPROTO_TCP, TCP_NODELAY, &one, sizeof(one));
	evutil_make_socket_nonblocking(cli_t);
}
static void h_tcp_send(const unsigned char *p, size_t n)
{
	size_t off = 0;
	long guard = 0;
	if (cli_t < 0) h_tcp_connect_client();
	while (off < n) {
		ssize_t r = __real_send(cli_t, p + off, n - off, MSG_NOSIGNAL | MSG_DONTWAIT);
		if (r > 0) { off += (size_t)r; continue; }
		if (r < 0 && (errno == EAGAIN || errno == EWOULDBLOCK || errno == EINTR)) {
			h_step_once();
			if (++guard > 200000) { printf("STALL\n"); return; }
			continue;
		}
		printf("tsenderr %d\n", errno);   /* peer closed: the rest of the segment cannot be delivered */
		return;
	}
}

static void h_case_begin(void)
{
	int fd;
	socklen_t sl;
	struct sockaddr_in sin;
	struct evconnlistener *lev;
	memset(&sin, 0, sizeof(sin));
	sin.sin_family = AF_INET;
	sin.sin_addr.s_addr = htonl(INADDR_LOOPBACK);
	h_base = event_base_new();
	if (!h_base) { fprintf(stderr, "h_dnssrv: no base\n"); exit(2); }
	fd = __real_socket(AF_INET, SOCK_DGRAM, 0);
	if (fd < 0 || bind(fd, (struct sockaddr *)&sin, sizeof(sin)) < 0) { fprintf(stderr, "h_dnssrv: udp bind failed\n"); exit(2); }
	evutil_make_socket_nonblocking(fd);
	sl = sizeof(srv_u_addr);
	getsockname(fd, (struct sockaddr *)&srv_u_addr, &sl);
	port_u = evdns_add_server_port_with_base(h_base, fd, 0, h_srv_cb, (void *)(intptr_t)'u');
	lev = evconnlistener_new_bind(h_base, NULL, NULL, LEV_OPT_CLOSE_ON_FREE | LEV_OPT_REUSEABLE, -1,
	    (struct sockaddr *)&sin, sizeof(sin));
	if (!port_u || !lev) { fprintf(stderr, "h_dnssrv: port/listener setup failed\n"); exit(2); }
	sl = sizeof(srv_t_addr);
	getsockname(evconnlistener_get_fd(lev), (struct sockaddr *)&srv_t_addr, &sl);
	port_t = evdns_add_server_port_with_listener(h_base, lev, 0, h_srv_cb, (void *)(intptr_t)'t');
	if (!port_t) { fprintf(stderr, "h_dnssrv: tcp port setup failed\n"); exit(2); }
	cli_u = __real_socket(AF_INET, SOCK_DGRAM, 0);
	if (cli_u < 0 || __real_connect(cli_u, (struct sockaddr *)&srv_u_addr, sizeof(srv_u_addr)) < 0) {
		fprintf(stderr, "h_dnssrv: udp client failed\n"); exit(2);
	}
	cli_t = -1; cli_t_eof = 0;
}
static void h_case_end(int clients_first)
{
	int i;
	if (clients_first) {
		h_tcp_close_client();
		h_step_idle();
	}
	evdns_close_server_port(port_u);
	evdns_close_server_port(port_t);
	port_u = port_t = NULL;
	for (i = 0; i < 3; i++) event_base_loop(h_base, EVLOOP_NONBLOCK);
	h_tcp_close_client();
	if (cli_u >= 0) { __real_close(cli_u); cli_u = -1; }
	event_base_free(h_base);
	h_base = NULL;
	for (i = 0; i < nrecs; i++) { free(recs[i].name); free(recs[i].data); }
	nrecs = 0;
	act_mode = 0; act_err = 0; act_flags = -1;
}

int main(int argc, char **argv)
{
	FILE *f;
	char *line = NULL;
	size_t cap = 0;
	ssize_t n;
	int in_case = 0, skipping = 0, nop = 0;
	long live0 = 0;

	mf_install();
	vh_init(argc, argv);
	setvbuf(stdout, NULL, _IOFBF, 1 << 16);
	if (!vh_opt.arg || !(f = fopen(vh_opt.arg, "r"))) { fprintf(stderr, "h_dnssrv: need --arg SCRIPT\n"); return 2; }
	hexbuf = malloc(2 * IOCAP + 2);
	iobuf = malloc(IOCAP);
	sf_observer = h_obs;
	vclk_enable(1000000);

	/* warm-up outside any case: lazily created process-global state must not count as a leak */
	h_case_begin();
	h_step_idle();
	h_case_end(1);

	while ((n = getline(&line, &cap, f)) > 0) {
		char *tok[12];
		int nt = 0;
		char *p = line;
		while (n > 0 && (line[n - 1] == '\n' || line[n - 1] == '\r')) line[--n] = 0;
		while (nt < 12 && *p) {
			tok[nt++] = p;
			p = strchr(p, ' ');
			if (!p) break;
			*p++ = 0;
		}
		if (!nt) continue;
		if (!strcmp(tok[0], "CASE")) {
			long idx = nt > 1 ? atol(tok[1]) : 0;
			skipping = (vh_opt.only >= 0 && idx != vh_opt.only);
			if (skipping) continue;
			vh_cur_case = idx;
			printf("C %ld\n", idx);
			live0 = mf_live_blocks;
			h_case_begin();
			in_case = 1; nop = 0;
			vh_stat("cases");
			continue;
		}
		if (skipping || !in_case) continue;
		if (!strcmp(tok[0], "ACT") && nt >= 4) {
			act_mode = atoi(tok[1]); act_err = atoi(tok[2]); act_flags = atoi(tok[3]);
		} else if (!strcmp(tok[0], "R") && nt >= 9) {
			struct rec *r;
			int l;
			if (nrecs == caprecs) { caprecs = caprecs ? caprecs * 2 : 64; recs = realloc(recs, sizeof(*recs) * (size_t)caprecs); }
			r = &recs[nrecs++];
			r->api = tok[1][0]; r->section = atoi(tok[2]);
			r->name = (char *)h_unhex(tok[3], &l);
			r->type = atoi(tok[4]); r->cls = atoi(tok[5]); r->ttl = atol(tok[6]); r->is_name = atoi(tok[7]);
			r->data = h_mkdata(tok[8], &r->datalen);
		} else if (!strcmp(tok[0], "U") && nt >= 2) {
			int l;
			unsigned char *d = h_unhex(tok[1], &l);
			printf("O %d\n", nop++);
			if (__real_send(cli_u, d, (size_t)l, MSG_DONTWAIT) < 0) printf("usenderr %d\n", errno);
			free(d);
			vh_stat("udp_datagrams_sent");
			h_step_idle();
		} else if (!strcmp(tok[0], "TN")) {
			printf("O %d\n", nop++);
			h_tcp_connect_client();
			vh_stat("tcp_connects");
			h_step_idle();
		} else if (!strcmp(tok[0], "T") && nt >= 2) {
			int l;
			unsigned char *d = h_unhex(tok[1], &l);
			printf("O %d\n", nop++);
			h_tcp_send(d, (size_t)l);
			free(d);
			vh_stat("tcp_segments_sent");
			h_step_idle();
		} else if (!strcmp(tok[0], "TS")) {
			printf("O %d\n", nop++);
			if (cli_t >= 0) shutdown(cli_t, SHUT_WR);
			h_step_idle();
		} else if (!strcmp(tok[0], "END")) {
			h_case_end(nt > 1 ? atoi(tok[1]) : 1);
			printf("E %ld\n", mf_live_blocks - live0);
			in_case = 0;
			fflush(stdout);
		} else {
			fprintf(stderr, "h_dnssrv: bad script line '%s'\n", tok[0]);
			return 2;
		}
	}
	vh_cur_case = -1;
	fclose(f);
	free(line); free(hexbuf); free(iobuf); free(recs);
	vh_finish();
	return 0;
}
