/* C11: events keep working in a forked child after event_reinit; signal and
 * wake-up notifications stay with their owner; the parent is unaffected.
 *
 * One scenario = resources (pipes/socketpairs, I/O + timer + signal events),
 * a prefix that brings events into various states, a fork point (top level
 * with events added/active/ready, or inside the callback of an I/O, timer or
 * signal event, possibly while events are being deleted) and a stimulus
 * (writes, virtual-time advances, self-kills, event_active, add/del, steps).
 *
 * The scenario is executed twice in the same case process:
 *   1. CONTROL: never forks (the fork point is a no-op);
 *   2. FORKED: really forks at the fork point; the child calls event_reinit()
 *      and runs the rest (its log comes back over a pipe, the parent waits),
 *      then the parent runs the rest as well.
 * Oracle (metamorphic, no model of libevent): per loop step the multiset of
 * (event, result flags) callbacks, bytes drained per pipe, signals that went
 * to the prior handler, return codes and the final event_pending() state of
 * the child after the fork must equal the control's, and so must the parent's.
 * Child and parent run one after the other (the child puts the shared pipes
 * back into their at-fork content before it leaves), so everything is
 * deterministic on the virtual clock.  Cross-thread wake-ups are judged
 * logically as well: while the loop thread sits in the (wrapped) backend wait a
 * helper thread calls event_active(); once the helper is joined the counter of
 * the process's own notify eventfd must have grown (control, parent and child,
 * also when the fork happened with such a notification in flight).
 * Additional direct checks: the parent's epoll registration
 * (/proc/self/fdinfo/<epfd>) is byte-identical before the fork and after the
 * child has re-initialised, added/deleted events and freed its base; after
 * reinit the child's signal socketpair and notify eventfd are different kernel
 * objects from the parent's; the parent's notify fd is in the same state after
 * the child ran as right before the fork; a signal the child sends to the parent reaches the parent only.
 *
 * Cases run in batches inside forked children of the harness (signal state is
 * process-global; forking a sanitized process is the dominant cost).
 */
#include "vh.h"
#include <signal.h>
#include <unistd.h>
#include <errno.h>
#include <fcntl.h>
#include <poll.h>
#include <dirent.h>
#include <pthread.h>
#include <semaphore.h>
#include <sys/wait.h>
#include <sys/socket.h>
#include <sys/stat.h>
#include <event2/event.h>
#include <event2/event_struct.h>
#include <event2/thread.h>
#include "event-internal.h"

ssize_t __real_write(int, const void *, size_t);
ssize_t __real_read(int, void *, size_t);
int __real_pipe(int[2]);
int __real_pipe2(int[2], int);
int __real_close(int);
int __real_poll(struct pollfd *, nfds_t, int);
int __real_sigaction(int, const struct sigaction *, struct sigaction *);

/* ------------------------------------------------------------------ */
/* child-side reporting (same protocol as h_signal.c)                  */
static int out_fd = 1;
static void c_line(const char *fmt, ...) __attribute__((format(printf,1,2)));
static void c_line(const char *fmt, ...)
{
	char buf[3000];
	va_list ap;
	int n;
	size_t i;
	va_start(ap, fmt);
	n = vsnprintf(buf, sizeof(buf) - 1, fmt, ap);
	va_end(ap);
	if (n < 0) return;
	if (n > (int)sizeof(buf) - 2) n = sizeof(buf) - 2;
	for (i = 0; i < (size_t)n; i++) if (buf[i] == '\n' || buf[i] == '\r') buf[i] = ' ';
	buf[n++] = '\n';
	for (;;) {
		ssize_t w = __real_write(out_fd, buf, (size_t)n);
		if (w < 0 && errno == EINTR) continue;
		break;
	}
}
#define CMAXSTAT 96
static struct { char name[48]; long n; } cst[CMAXSTAT];
static int ncst;
static void c_stat_add(const char *name, long n)
{
	int i;
	for (i = 0; i < ncst; i++) if (!strcmp(cst[i].name, name)) { cst[i].n += n; return; }
	if (ncst < CMAXSTAT) { snprintf(cst[ncst].name, sizeof(cst[ncst].name), "%s", name); cst[ncst++].n = n; }
}
#define c_stat(n) c_stat_add((n), 1)
static void c_flush_stats(void)
{
	int i;
	for (i = 0; i < ncst; i++) c_line("STAT %s %ld", cst[i].name, cst[i].n);
	ncst = 0;
}
#define tr(...) do { if (vh_opt.verbose) { fprintf(stderr, "T[%d] ", (int)getpid()); fprintf(stderr, __VA_ARGS__); fputc('\n', stderr); } } while (0)
static long c_nviol;
#define c_viol(key, ...) do { char t_[1800]; snprintf(t_, sizeof(t_), __VA_ARGS__); c_nviol++; if (c_nviol <= 20) c_line("VIOL %s %s", (key), t_); } while (0)

/* ------------------------------------------------------------------ */
/* harness-side: batches of cases in a forked child                    */
static int watchdog_fired;
static int stderr_has_report(const char *s)
{
	return strstr(s, "Sanitizer") || strstr(s, "runtime error:") || strstr(s, "Assertion ") != NULL;
}
struct bcase { long idx; vh_rng rng; };
static long batch_completed;
static void parse_child_line(char *ln, char *childexit, size_t cecap)
{
	if (!strncmp(ln, "STAT ", 5)) {
		char name[64]; long n;
		if (sscanf(ln + 5, "%63s %ld", name, &n) == 2) vh_stat_add(name, n);
	} else if (!strncmp(ln, "VIOL ", 5)) {
		char *key = ln + 5, *sp = strchr(key, ' ');
		if (sp) { *sp = 0; vh_viol(key, "%s", sp + 1); } else vh_viol(key, "-");
	} else if (!strncmp(ln, "HASH ", 5)) {
		vh_distinct(strtoull(ln + 5, NULL, 16));
	} else if (!strncmp(ln, "SAMPLE ", 7)) {
		vh_sample(2, "%s", ln + 7);
	} else if (!strncmp(ln, "BEGIN ", 6)) {
		vh_cur_case = atol(ln + 6);
	} else if (!strncmp(ln, "END ", 4)) {
		batch_completed++;
	} else if (!strncmp(ln, "CHILDEXIT ", 10)) {
		snprintf(childexit, cecap, "%s", ln + 10);
	} else if (vh_opt.verbose) {
		fprintf(stderr, "child: %s\n", ln);
	}
}
static int run_in_child(void (*fn)(vh_rng *), struct bcase *cases, int n)
{
	int po[2], pe[2];
	pid_t pid;
	char *obuf = NULL; size_t olen = 0, ocap = 0;
	char ebuf[8192]; size_t elen = 0;
	int report = 0, status = 0, open_o = 1, open_e = 1, killed = 0;
	char childexit[200] = "";
	struct timespec t0, t1;
	if (__real_pipe(po) || __real_pipe(pe)) { perror("pipe"); exit(2); }
	fflush(stdout); fflush(stderr);
	pid = fork();
	if (pid < 0) { perror("fork"); exit(2); }
	if (pid == 0) {
		int i;
		__real_close(po[0]); __real_close(pe[0]);
		out_fd = po[1];
		dup2(pe[1], 2); __real_close(pe[1]);
		for (i = 0; i < n; i++) {
			vh_cur_case = cases[i].idx;
			c_line("BEGIN %ld", cases[i].idx);
			fn(&cases[i].rng);
			c_flush_stats();
			c_line("END %ld", cases[i].idx);
			if (c_nviol) break;
		}
		_exit(0);
	}
	__real_close(po[1]); __real_close(pe[1]);
	clock_gettime(CLOCK_MONOTONIC, &t0);
	while (open_o || open_e) {
		struct pollfd p[2];
		int r;
		p[0].fd = open_o ? po[0] : -1; p[0].events = POLLIN; p[0].revents = 0;
		p[1].fd = open_e ? pe[0] : -1; p[1].events = POLLIN; p[1].revents = 0;
		r = __real_poll(p, 2, 1000);
		if (r < 0 && errno != EINTR) break;
		clock_gettime(CLOCK_MONOTONIC, &t1);
		if (t1.tv_sec - t0.tv_sec > 150) {   /* generous watchdog: inconclusive, never a verdict */
			{
				/* diagnostics only: where are the case process and its children blocked? */
				char cmd[400];
				snprintf(cmd, sizeof(cmd), "for p in %d $(pgrep -P %d); do for t in /proc/$p/task/*; do echo \"WATCHDOG-DIAG pid=$p $(cat $t/comm) wchan=$(cat $t/wchan) syscall=$(cut -d' ' -f1 $t/syscall) state=$(grep State $t/status|cut -f2)\"; done; done 1>&2", (int)pid, (int)pid);
				if (system(cmd)) { }
			}
			kill(pid, SIGKILL);
			killed = 1; watchdog_fired++;
			vh_stat("watchdog_kills");
			break;
		}
		if (r <= 0) continue;
		if (p[0].revents) {
			if (olen + 4096 + 1 > ocap) { ocap = ocap ? ocap * 2 : 16384; obuf = realloc(obuf, ocap); }
			{
				ssize_t nn = __real_read(po[0], obuf + olen, 4096);
				if (nn > 0) olen += (size_t)nn; else if (nn == 0 || errno != EINTR) open_o = 0;
			}
		}
		if (p[1].revents) {
			char tmp[4096];
			ssize_t nn = __real_read(pe[0], tmp, sizeof(tmp));
			if (nn > 0) {
				ssize_t w = __real_write(2, tmp, (size_t)nn); (void)w;
				if (elen + (size_t)nn < sizeof(ebuf) - 1) { memcpy(ebuf + elen, tmp, (size_t)nn); elen += (size_t)nn; }
			} else if (nn == 0 || errno != EINTR) open_e = 0;
		}
	}
	__real_close(po[0]); __real_close(pe[0]);
	while (waitpid(pid, &status, 0) < 0 && errno == EINTR) ;
	ebuf[elen] = 0;
	report = stderr_has_report(ebuf);
	batch_completed = 0;
	if (obuf) {
		char *s = obuf, *nl;
		obuf[olen] = 0;
		while ((nl = strchr(s, '\n'))) { *nl = 0; parse_child_line(s, childexit, sizeof(childexit)); s = nl + 1; }
		free(obuf);
	}
	if (killed) {
		/* vh_cur_case was set by the last BEGIN line: that case was running when the watchdog fired */
		fprintf(stderr, "WATCHDOG: batch of %d cases starting at %ld killed, %ld finished, case %ld was running\n", n, cases[0].idx, batch_completed, vh_cur_case);
		return n;
	}
	if (WIFSIGNALED(status)) {
		if (!report) vh_viol(WTERMSIG(status) == SIGABRT ? "crash:child-signal6" : "crash:child-signal", "case process killed by signal %d; stderr tail: %.600s", WTERMSIG(status), ebuf);
		batch_completed++;
	} else if (WIFEXITED(status) && WEXITSTATUS(status) != 0) {
		if (!report) vh_viol("crash:child-exit", "case process exit status %d; stderr tail: %.600s", WEXITSTATUS(status), ebuf);
		batch_completed++;
	}
	if (childexit[0] && !report)
		vh_viol("crash:grandchild", "forked child of the case process ended abnormally: %s; stderr tail: %.600s", childexit, ebuf);
	vh_stat_add("cases", batch_completed > n ? n : batch_completed);
	if (batch_completed < 1) batch_completed = 1;
	return batch_completed > n ? n : (int)batch_completed;
}

/* ------------------------------------------------------------------ */
/* scenario                                                            */
#define NSIGS 4
static const int SIGS[NSIGS] = { SIGUSR1, SIGUSR2, SIGHUP, SIGWINCH };
static const char *SIGN[NSIGS] = { "USR1", "USR2", "HUP", "WINCH" };
static const char *BACKENDS[3] = { "epoll", "poll", "select" };
#define MAXPIPE 4
#define MAXSLOT 14
#define MAXOPS 48
enum { K_READ, K_WRITE, K_TIMER, K_SIGNAL };
static const char *KINDN[] = { "read", "write", "timer", "signal" };
enum { P_ADD, P_DEL, P_WRITE, P_STEP, P_TIME, P_KILL, P_ACTIVE, P_XKILL, P_UNFILL, P_REFILL };
static const char *OPN[] = { "add", "del", "write", "step", "time", "kill", "active", "xkill", "unfill", "refill" };
enum { F_TOP, F_CB, F_NIF };   /* F_NIF: inside the callback of an event another thread just activated (wake-up notification in flight) */
struct sop { int kind, a, b; };
struct sslot {
	int used, kind, pipe, sig_i, persist, et, has_tv, prio, nodrain, del_after, readd, wr_on_rd;
	long tv_us;
};
struct scen {
	int backend, sigfd, threads, changelist, npri, npipe, pipe_is_sock[MAXPIPE];
	int dual;          /* pipe whose read end carries a reader (slot 0) and a writer (slot 1) at the fork, -1 none */
	int fullpipe;      /* index of a pipe kept full (write events on it wait for space), -1 none */
	struct sslot sl[MAXSLOT];
	struct sop prefix[MAXOPS]; int nprefix;
	struct sop pre[8]; int npre;
	int fork_mode, fork_slot, predel, postdel_self;
	struct sop stim[MAXOPS]; int nstim;
	int xsig;          /* signal index the child sends to the parent (F_TOP only), -1 none */
	int wake_phase;
};

/* run-time state of one execution of the scenario */
enum { ROLE_CONTROL, ROLE_FORKED };
struct rec { int step, kind, id, val; };
enum { R_CB, R_DRAIN, R_PRIOR, R_RET, R_PENDING, R_NEVENTS, R_WAKE };
#define MAXLOG 6000
struct logbuf { struct rec r[MAXLOG]; int n, fork_pos, overflow; };
static struct logbuf ctl_log, p_log, c_log_rx;   /* c_log_rx: child's post-fork records received by the parent */
static struct logbuf *lg;

static struct scen *SC;
static int role, is_child, forked, armed, invalid_run;
static struct event_base *base;
static struct { int rd, wr; long inpipe, step_drained, at_fork; int full, full_at_fork; } pp[MAXPIPE];
static struct { struct event *ev; int ncalls, readd_left; } rs[MAXSLOT];
static volatile long prior_calls[NSIGS];
static long prior_seen[NSIGS];
static int cur_step, cbs_in_loop;
static int child_log_fd = -1;
static int skip_wake;
static struct event *nif_ev;

static void logrec(int kind, int id, int val)
{
	if (lg->n >= MAXLOG) { lg->overflow = 1; return; }
	lg->r[lg->n].step = cur_step; lg->r[lg->n].kind = kind; lg->r[lg->n].id = id; lg->r[lg->n].val = val;
	lg->n++;
}
static int sig_index(int signo) { int i; for (i = 0; i < NSIGS; i++) if (SIGS[i] == signo) return i; return -1; }
static void prior_handler(int s) { int i = sig_index(s); if (i >= 0) prior_calls[i]++; }

static void drain_pipe(int p)
{
	char buf[4096];
	for (;;) {
		ssize_t n = __real_read(pp[p].rd, buf, sizeof(buf));
		if (n > 0) { pp[p].inpipe -= n; pp[p].step_drained += n; continue; }
		if (n < 0 && errno == EINTR) continue;
		break;
	}
}
static void write_pipe(int p, int n)
{
	char buf[2048];
	if (n > (int)sizeof(buf)) n = sizeof(buf);
	if (p == SC->fullpipe) return;              /* the "kept full" pipe is only filled/emptied as a whole */
	if (pp[p].inpipe + n > 16000) return;       /* stay far away from a full buffer: writability never changes */
	memset(buf, 'x', (size_t)n);
	for (;;) {
		ssize_t w = __real_write(pp[p].wr, buf, (size_t)n);
		if (w < 0 && errno == EINTR) continue;
		if (w > 0) pp[p].inpipe += w;
		if (w != n) invalid_run = 1;
		break;
	}
}

static void fill_pipe(int p)
{
	char buf[4096];
	memset(buf, 'f', sizeof(buf));
	for (;;) {
		ssize_t w = __real_write(pp[p].wr, buf, sizeof(buf));
		if (w > 0) continue;
		if (w < 0 && errno == EINTR) continue;
		break;
	}
	pp[p].full = 1;
}
static void unfill_pipe(int p)
{
	char buf[8192];
	for (;;) {
		ssize_t n = __real_read(pp[p].rd, buf, sizeof(buf));
		if (n > 0) continue;
		if (n < 0 && errno == EINTR) continue;
		break;
	}
	pp[p].full = 0;
}

/* ---- identity / registration probes ---- */
static int find_epfd(void)
{
	DIR *d = opendir("/proc/self/fd");
	struct dirent *de;
	int found = -1;
	if (!d) return -1;
	while ((de = readdir(d))) {
		char path[64], link[128];
		ssize_t n;
		if (de->d_name[0] == '.') continue;
		snprintf(path, sizeof(path), "/proc/self/fd/%s", de->d_name);
		n = readlink(path, link, sizeof(link) - 1);
		if (n <= 0) continue;
		link[n] = 0;
		if (!strcmp(link, "anon_inode:[eventpoll]")) { found = atoi(de->d_name); break; }
	}
	closedir(d);
	return found;
}
static int cmp_str(const void *a, const void *b) { return strcmp(*(char *const *)a, *(char *const *)b); }
/* sorted "tfd:" lines of /proc/self/fdinfo/<fd> */
static int epoll_snapshot(int epfd, char *out, size_t cap)
{
	char path[64], buf[16384], *lines[256];
	int fd, nl = 0, i;
	ssize_t n, tot = 0;
	size_t o = 0;
	out[0] = 0;
	snprintf(path, sizeof(path), "/proc/self/fdinfo/%d", epfd);
	fd = open(path, O_RDONLY);
	if (fd < 0) return -1;
	while ((n = __real_read(fd, buf + tot, sizeof(buf) - 1 - (size_t)tot)) > 0) tot += n;
	__real_close(fd);
	buf[tot] = 0;
	{
		char *s = buf, *e;
		while ((e = strchr(s, '\n'))) { *e = 0; if (!strncmp(s, "tfd:", 4) && nl < 256) lines[nl++] = s; s = e + 1; }
	}
	qsort(lines, (size_t)nl, sizeof(lines[0]), cmp_str);
	for (i = 0; i < nl && o + 200 < cap; i++) o += (size_t)snprintf(out + o, cap - o, "%s|", lines[i]);
	return nl;
}
static long eventfd_id(int fd)
{
	char path[64], buf[2048], *p;
	int f;
	ssize_t n;
	snprintf(path, sizeof(path), "/proc/self/fdinfo/%d", fd);
	f = open(path, O_RDONLY);
	if (f < 0) return -1;
	n = __real_read(f, buf, sizeof(buf) - 1);
	__real_close(f);
	if (n <= 0) return -1;
	buf[n] = 0;
	p = strstr(buf, "eventfd-id:");
	if (!p) return -1;
	return atol(p + 11);
}
/* eventfd counter as shown by fdinfo ("eventfd-count: <hex>"), -1 if not an eventfd / not shown */
static long eventfd_count(int fd)
{
	char path[64], buf[2048], *p;
	int f;
	ssize_t n;
	if (fd < 0) return -1;
	snprintf(path, sizeof(path), "/proc/self/fdinfo/%d", fd);
	f = open(path, O_RDONLY);
	if (f < 0) return -1;
	n = __real_read(f, buf, sizeof(buf) - 1);
	__real_close(f);
	if (n <= 0) return -1;
	buf[n] = 0;
	p = strstr(buf, "eventfd-count:");
	if (!p) return -1;
	return strtol(p + 14, NULL, 16);
}
static int fd_readable(int fd)
{
	struct pollfd pf; pf.fd = fd; pf.events = POLLIN; pf.revents = 0;
	return fd >= 0 && __real_poll(&pf, 1, 0) > 0 && (pf.revents & POLLIN);
}
static long fd_ino(int fd) { struct stat st; if (fd < 0 || fstat(fd, &st)) return -1; return (long)st.st_ino; }

/* ---- fork point ---- */
static void child_finish(void) __attribute__((noreturn));
static void fork_point(void)
{
	int lp[2], epfd = -1, status = 0, i, ntfd = 0;
	char snap0[8192], snap1[8192];
	long nid0 = -1, sino0 = -1, ncount0 = -1;
	int notifiable0, nread0 = 0;
	pid_t pid;
	if (forked) return;
	forked = 1;
	lg->fork_pos = lg->n;
	if (event_base_get_num_events(base, EVENT_BASE_COUNT_ACTIVE) > 0) c_stat(role == ROLE_CONTROL ? "ctl_forkpoints_with_active_events" : "forks_with_active_events");
	if (role == ROLE_CONTROL) return;
	for (i = 0; i < SC->npipe; i++) { pp[i].at_fork = pp[i].inpipe; pp[i].full_at_fork = pp[i].full; }
	if (SC->backend == 0) { epfd = find_epfd(); if (epfd >= 0) ntfd = epoll_snapshot(epfd, snap0, sizeof(snap0)); }
	notifiable0 = base->th_notify_fn != NULL;
	if (base->th_notify_fd[0] >= 0) { nid0 = eventfd_id(base->th_notify_fd[0]); ncount0 = eventfd_count(base->th_notify_fd[0]); nread0 = fd_readable(base->th_notify_fd[0]); }
	if (!SC->sigfd) sino0 = fd_ino(base->sig.ev_signal_pair[0]);
	if (__real_pipe(lp)) { invalid_run = 1; return; }
	pid = fork();
	if (pid < 0) { invalid_run = 1; return; }
	if (pid == 0) {
		int r;
		is_child = 1; ncst = 0; c_nviol = 0;
		__real_close(lp[0]); child_log_fd = lp[1];
		r = event_reinit(base);
		tr("== child: event_reinit -> %d", r);
		c_stat("child_reinits");
		if (r != 0) c_viol("C11:reinit-failed", "event_reinit returned %d (backend=%s sigfd=%d)", r, BACKENDS[SC->backend], SC->sigfd);
		/* kernel objects that carry notifications must not be shared with the parent any more */
		if (!SC->sigfd && sino0 > 0) {
			long s1 = fd_ino(base->sig.ev_signal_pair[0]);
			c_stat("sigpipe_identity_checks");
			if (s1 == sino0) c_viol("C11:child-shares-signal-pipe-with-parent", "signal socketpair inode %ld unchanged by event_reinit (backend=%s)", s1, BACKENDS[SC->backend]);
		}
		if (notifiable0) {
			c_stat("notify_checks");
			if (base->th_notify_fn == NULL || base->th_notify_fd[0] < 0) {
				c_viol("C11:child-not-notifiable-after-reinit", "base was notifiable before fork, after event_reinit it is not (backend=%s)", BACKENDS[SC->backend]);
				skip_wake = 1;
			} else if (nid0 >= 0) {
				long n1 = eventfd_id(base->th_notify_fd[0]);
				c_stat("notify_identity_checks");
				if (n1 == nid0) { c_viol("C11:child-shares-notify-fd-with-parent", "notify eventfd id %ld unchanged by event_reinit (backend=%s)", n1, BACKENDS[SC->backend]); skip_wake = 1; }
			}
		}
		return;   /* the child carries on with the rest of the scenario */
	}
	/* parent: wait until the child has run everything, collect its log */
	__real_close(lp[1]);
	c_log_rx.n = 0; c_log_rx.fork_pos = 0; c_log_rx.overflow = 0;
	{
		size_t got = 0, cap = sizeof(c_log_rx.r);
		for (;;) {
			ssize_t n;
			if (got >= cap) break;
			n = __real_read(lp[0], (char *)c_log_rx.r + got, cap - got);
			if (n < 0 && errno == EINTR) continue;
			if (n <= 0) break;
			got += (size_t)n;
		}
		c_log_rx.n = (int)(got / sizeof(struct rec));
	}
	__real_close(lp[0]);
	while (waitpid(pid, &status, 0) < 0 && errno == EINTR) ;
	c_stat("forks");
	if (WIFSIGNALED(status)) { c_line("CHILDEXIT signal %d", WTERMSIG(status)); invalid_run = 1; }
	else if (WIFEXITED(status) && WEXITSTATUS(status)) { c_line("CHILDEXIT status %d", WEXITSTATUS(status)); invalid_run = 1; }
	/* the child re-initialised, added and deleted events and freed its base: none of that may show here */
	if (epfd >= 0 && ntfd >= 0) {
		int n1 = epoll_snapshot(epfd, snap1, sizeof(snap1));
		c_stat("epoll_fdinfo_checks"); c_stat_add("epoll_fdinfo_entries", ntfd);
		if (n1 != ntfd || strcmp(snap0, snap1))
			c_viol("C11:parent-epoll-registration-changed-by-child", "fdinfo of the parent's epoll fd before fork: [%s] after the child ran: [%s]", snap0, snap1);
	}
	if (base->th_notify_fd[0] >= 0) {
		/* nothing the child did may have touched the parent's notify fd (its state right before the fork is the
		 * reference: this tree never reads the eventfd, so it may legitimately be readable already) */
		long ncount1 = eventfd_count(base->th_notify_fd[0]);
		int nread1 = fd_readable(base->th_notify_fd[0]);
		c_stat("parent_notify_quiet_checks");
		if (ncount1 != ncount0 || nread1 != nread0)
			c_viol("C11:child-wakeup-reached-parent", "the parent's notify fd changed while only the child ran: eventfd-count %ld -> %ld, readable %d -> %d", ncount0, ncount1, nread0, nread1);
	}
}

/* ---- callbacks ---- */
static void ev_cb(evutil_socket_t fd, short what, void *arg)
{
	int id = (int)(intptr_t)arg;
	struct sslot *s = &SC->sl[id];
	struct timeval tv;
	(void)fd;
	rs[id].ncalls++; cbs_in_loop++;
	logrec(R_CB, id, what);
	tr("  cb slot=%d %s what=0x%x step=%d", id, KINDN[s->kind], what, cur_step);
	if (forked) { char nm[48]; snprintf(nm, sizeof(nm), "%s_cb_%s", role == ROLE_CONTROL ? "ctl" : is_child ? "child" : "parent", KINDN[s->kind]); c_stat(nm); }
	if (s->kind == K_READ) {
		if (s->nodrain) event_del(rs[id].ev);
		else if (what & EV_READ) drain_pipe(s->pipe);
	}
	if (s->kind == K_WRITE && s->persist) event_del(rs[id].ev);   /* a level-triggered write event would never go idle */
	if (armed && !forked && id == SC->fork_slot) {
		if (SC->predel >= 0 && rs[SC->predel].ev) event_del(rs[SC->predel].ev);
		if (role == ROLE_FORKED) c_stat(s->persist ? "fork_in_callback" : "fork_in_oneshot_callback");
		fork_point();
		if (SC->postdel_self) event_del(rs[id].ev);
	}
	if (s->del_after && rs[id].ncalls == s->del_after) event_del(rs[id].ev);
	else if (!s->persist && s->kind != K_WRITE && rs[id].readd_left > 0) {
		rs[id].readd_left--;
		tv.tv_sec = s->tv_us / 1000000; tv.tv_usec = s->tv_us % 1000000;
		event_add(rs[id].ev, (s->has_tv || s->kind == K_TIMER) ? &tv : NULL);
	}
}
/* ---- cross-thread activation handshake (logical, no wall clock) ----
 * The loop thread reaches a backend wait (the vclock wait hook runs inside the wrapped wait, i.e. after the
 * backend released the base lock).  There it lets a helper thread call event_active() on `hs_ev`, joins the
 * helper, and then looks at its own notify fd: because the loop is running in another thread than the caller,
 * event_active() must have written the wake-up notification, so the notify fd must be readable now.  The real
 * zero-timeout wait that follows in the wrapper then sees it like a real wake-up would. */
static sem_t hs_go;
static int hs_phase;            /* 0 idle, 1 armed, 2 done */
static int hs_notified;
static struct event *hs_ev;
static pthread_t hs_thread;
static volatile int wake_flag;
static void *hs_helper(void *arg)
{
	(void)arg;
	while (sem_wait(&hs_go) < 0 && errno == EINTR) ;
	if (hs_ev) event_active(hs_ev, EV_WRITE, 1);
	return NULL;
}
static void on_wait(int kind, int64_t timeout_us, void *a, void *b, void *c, int n)
{
	long c0, c1;
	(void)kind; (void)timeout_us; (void)a; (void)b; (void)c; (void)n;
	if (hs_phase != 1) return;
	hs_phase = 2;
	c0 = eventfd_count(base->th_notify_fd[0]);
	sem_post(&hs_go);
	pthread_join(hs_thread, NULL);      /* the helper is completely gone before anything else (fork!) happens */
	c1 = eventfd_count(base->th_notify_fd[0]);
	/* an eventfd shows how many notifications were written; for the pipe fallback readability has to do */
	if (c0 >= 0 && c1 >= 0) hs_notified = c1 > c0;
	else hs_notified = fd_readable(base->th_notify_fd[0]);
	tr("  handshake: helper activated the event, notify fd readable=%d", hs_notified);
}
static int hs_arm(struct event *ev)
{
	hs_ev = ev; hs_notified = -1;
	sem_init(&hs_go, 0, 0);
	hs_phase = 1;
	if (pthread_create(&hs_thread, NULL, hs_helper, NULL)) { hs_phase = 0; return -1; }
	return 0;
}
static void hs_disarm(void)
{
	if (hs_phase == 1) { hs_ev = NULL; hs_phase = 2; sem_post(&hs_go); pthread_join(hs_thread, NULL); }
	hs_phase = 0;
}
static void wake_cb(evutil_socket_t fd, short what, void *arg) { (void)fd; (void)what; (void)arg; wake_flag = 1; }
static void fork_point(void);
#define NIF_ID 90
static void logrec(int kind, int id, int val);
static void nif_cb(evutil_socket_t fd, short what, void *arg)
{
	/* activated by the helper thread: its wake-up notification has been written but not yet drained */
	(void)fd; (void)arg;
	cbs_in_loop++;
	logrec(R_CB, NIF_ID, what);
	tr("  cb of the cross-thread-activated event, step=%d", cur_step);
	if (role == ROLE_FORKED && !forked) c_stat("fork_with_notification_in_flight");
	fork_point();
}

/* ---- engine ---- */
static void do_step(void)
{
	int iter, i, r = 0;
	cur_step++;
	for (i = 0; i < SC->npipe; i++) pp[i].step_drained = 0;
	for (iter = 0; iter < 300; iter++) {
		cbs_in_loop = 0;
		r = event_base_loop(base, EVLOOP_NONBLOCK);
		tr(" step %d: loop -> %d, %d callbacks", cur_step, r, cbs_in_loop);
		if (r < 0) { c_viol("C11:loop-error", "event_base_loop returned %d", r); break; }
		if (cbs_in_loop == 0 && event_base_get_num_events(base, EVENT_BASE_COUNT_ACTIVE) == 0) break;
	}
	if (iter >= 300) invalid_run = 1;
	for (i = 0; i < SC->npipe; i++) if (pp[i].step_drained) logrec(R_DRAIN, i, (int)pp[i].step_drained);
	for (i = 0; i < NSIGS; i++) if (prior_calls[i] != prior_seen[i]) { logrec(R_PRIOR, i, (int)(prior_calls[i] - prior_seen[i])); prior_seen[i] = prior_calls[i]; }
	logrec(R_RET, -1, r);
}
static void exec_op(struct sop *o, int opi)
{
	struct timeval tv;
	int r, i;
	switch (o->kind) {
	case P_ADD: {
		struct sslot *s = &SC->sl[o->a];
		if (!rs[o->a].ev) break;
		tv.tv_sec = s->tv_us / 1000000; tv.tv_usec = s->tv_us % 1000000;
		r = event_add(rs[o->a].ev, (s->has_tv || s->kind == K_TIMER) ? &tv : NULL);
		tr("add slot=%d (%s) -> %d", o->a, KINDN[s->kind], r);
		logrec(R_RET, opi, r);
		break; }
	case P_DEL:
		if (!rs[o->a].ev) break;
		r = event_del(rs[o->a].ev);
		tr("del slot=%d -> %d", o->a, r);
		logrec(R_RET, opi, r);
		break;
	case P_WRITE: tr("write pipe=%d n=%d", o->a, o->b); write_pipe(o->a, o->b); break;
	case P_STEP: do_step(); break;
	case P_TIME: tr("advance %d us", o->a); vclk_advance(o->a); break;
	case P_KILL:
		tr("kill self SIG%s x%d", SIGN[o->a], o->b);
		for (i = 0; i < o->b; i++) kill(getpid(), SIGS[o->a]);
		break;
	case P_XKILL:
		/* control and child raise it themselves; the forked parent gets exactly this one from its child */
		if (role == ROLE_FORKED && !is_child) { tr("xkill: expecting SIG%s from the child", SIGN[o->a]); c_stat("cross_kills_expected_by_parent"); }
		else { tr("xkill: kill self SIG%s", SIGN[o->a]); kill(getpid(), SIGS[o->a]); }
		break;
	case P_UNFILL: if (SC->fullpipe >= 0 && pp[SC->fullpipe].full) { tr("unfill pipe %d", SC->fullpipe); unfill_pipe(SC->fullpipe); } break;
	case P_REFILL: if (SC->fullpipe >= 0 && !pp[SC->fullpipe].full) { tr("refill pipe %d", SC->fullpipe); fill_pipe(SC->fullpipe); } break;
	case P_ACTIVE:
		if (!rs[o->a].ev) break;
		tr("event_active slot=%d res=0x%x", o->a, o->b);
		event_active(rs[o->a].ev, (short)o->b, 1);
		break;
	}
}

static void teardown(void)
{
	int i;
	for (i = 0; i < MAXSLOT; i++) if (rs[i].ev) { event_free(rs[i].ev); rs[i].ev = NULL; }
	if (nif_ev) { event_free(nif_ev); nif_ev = NULL; }
	if (base) { event_base_free(base); base = NULL; }
	for (i = 0; i < SC->npipe; i++) { __real_close(pp[i].rd); __real_close(pp[i].wr); }
}

static void wake_phase(void)
{
	struct event *wev;
	int i, r;
	char key[120];
	if (!SC->wake_phase || !SC->threads || skip_wake) return;
	for (i = 0; i < MAXSLOT; i++) if (rs[i].ev) event_del(rs[i].ev);
	for (i = 0; i < SC->npipe; i++) if (i != SC->fullpipe) drain_pipe(i);
	wev = event_new(base, -1, 0, wake_cb, NULL);
	if (!wev) return;
	event_priority_set(wev, 0);
	wake_flag = 0;
	if (hs_arm(wev)) { event_free(wev); return; }
	r = event_base_loop(base, EVLOOP_ONCE | EVLOOP_NO_EXIT_ON_EMPTY);
	hs_disarm();
	cur_step++;
	c_stat(role == ROLE_CONTROL ? "ctl_wakeups" : is_child ? "child_wakeups" : "parent_wakeups");
	if (r < 0 || !wake_flag || hs_notified != 1) {
		snprintf(key, sizeof(key), "C11:wakeup-not-delivered:%s%s", role == ROLE_CONTROL ? "never-forked" : is_child ? "child" : "parent",
			(SC->fork_mode == F_NIF && role == ROLE_FORKED) ? "-forked-with-notification-in-flight" : "");
		c_viol(key, "event_active() from a second thread while the loop thread sat in the backend wait: notification written to the notify fd=%d, callback ran=%d, loop returned %d (backend=%s mech=%s fork=%s)",
			hs_notified, wake_flag, r, BACKENDS[SC->backend], SC->sigfd ? "signalfd" : "selfpipe",
			SC->fork_mode == F_TOP ? "top-level" : SC->fork_mode == F_CB ? "in-callback" : "in-callback-of-cross-thread-activated-event");
	}
	event_free(wev);
}

static void child_finish(void)
{
	int i;
	size_t off, tot;
	/* hand the post-fork log to the parent */
	off = (size_t)lg->fork_pos * sizeof(struct rec); tot = (size_t)lg->n * sizeof(struct rec);
	if (invalid_run || lg->overflow) { struct rec bad = { -1, -1, -1, -1 }; ssize_t w = __real_write(child_log_fd, &bad, sizeof(bad)); (void)w; }
	while (off < tot) {
		ssize_t w = __real_write(child_log_fd, (char *)lg->r + off, tot - off);
		if (w < 0 && errno == EINTR) continue;
		if (w <= 0) break;
		off += (size_t)w;
	}
	__real_close(child_log_fd);
	/* free everything the child owns: must not disturb the parent's registrations */
	for (i = 0; i < MAXSLOT; i++) if (rs[i].ev) { event_free(rs[i].ev); rs[i].ev = NULL; }
	if (nif_ev) { event_free(nif_ev); nif_ev = NULL; }
	event_base_free(base); base = NULL;
	c_stat("child_base_frees");
	/* put the shared pipes back to their content at fork time (the parent continues from there) */
	for (i = 0; i < SC->npipe; i++) {
		if (i == SC->fullpipe) { if (pp[i].full_at_fork && !pp[i].full) fill_pipe(i); else if (!pp[i].full_at_fork && pp[i].full) unfill_pipe(i); continue; }
		drain_pipe(i);
		pp[i].inpipe = 0;
		if (pp[i].at_fork > 0) { long left = pp[i].at_fork; while (left > 0) { int n = left > 2048 ? 2048 : (int)left; write_pipe(i, n); left -= n; } }
	}
	if (SC->xsig >= 0 && SC->fork_mode == F_TOP) { kill(getppid(), SIGS[SC->xsig]); c_stat("cross_kills_sent_by_child"); }
	c_flush_stats();
	_exit(0);
}

static void run_scenario(int r_role)
{
	struct event_config *cfg;
	int i;
	struct sigaction sa;
	sigset_t none;
	role = r_role; is_child = 0; forked = 0; armed = 0; invalid_run = 0; cur_step = 0; skip_wake = 0; nif_ev = NULL;
	lg = (role == ROLE_CONTROL) ? &ctl_log : &p_log;
	lg->n = 0; lg->fork_pos = -1; lg->overflow = 0;
	memset(rs, 0, sizeof(rs));
	memset(pp, 0, sizeof(pp));
	vclk_enable(5000000);
	vclk_blocked_forever = 0;
	vclk_wait_hook = on_wait; hs_phase = 0;
	memset(&sa, 0, sizeof(sa)); sa.sa_handler = prior_handler; sigemptyset(&sa.sa_mask); sa.sa_flags = SA_RESTART;
	for (i = 0; i < NSIGS; i++) { __real_sigaction(SIGS[i], &sa, NULL); prior_calls[i] = 0; prior_seen[i] = 0; }
	sigemptyset(&none); sigprocmask(SIG_SETMASK, &none, NULL);

	for (i = 0; i < SC->npipe; i++) {
		int fds[2];
		if (SC->pipe_is_sock[i]) {
			if (socketpair(AF_UNIX, SOCK_STREAM | SOCK_NONBLOCK, 0, fds)) { invalid_run = 1; return; }
			pp[i].rd = fds[0]; pp[i].wr = fds[1];
		} else {
			if (__real_pipe2(fds, O_NONBLOCK)) { invalid_run = 1; return; }
			pp[i].rd = fds[0]; pp[i].wr = fds[1];
		}
	}
	if (SC->fullpipe >= 0) fill_pipe(SC->fullpipe);
	cfg = event_config_new();
	for (i = 0; i < 3; i++) if (i != SC->backend) event_config_avoid_method(cfg, BACKENDS[i]);
	if (SC->sigfd) event_config_set_flag(cfg, EVENT_BASE_FLAG_USE_SIGNALFD);
	if (SC->changelist) event_config_set_flag(cfg, EVENT_BASE_FLAG_EPOLL_USE_CHANGELIST);
	base = event_base_new_with_config(cfg);
	event_config_free(cfg);
	if (!base) { c_viol("harness:base", "event_base_new failed"); invalid_run = 1; return; }
	if (strncmp(event_base_get_method(base), BACKENDS[SC->backend], strlen(BACKENDS[SC->backend]))) c_viol("harness:backend", "got %s", event_base_get_method(base));
	if (SC->npri > 1) event_base_priority_init(base, SC->npri);
	if (SC->threads && base->th_notify_fn == NULL) c_viol("harness:notifiable", "base not notifiable although threads are enabled");

	for (i = 0; i < MAXSLOT; i++) {
		struct sslot *s = &SC->sl[i];
		short fl = 0;
		int fd = -1;
		if (!s->used) continue;
		switch (s->kind) {
		case K_READ: fl = EV_READ | (s->et ? EV_ET : 0); fd = pp[s->pipe].rd; break;
		case K_WRITE: fl = EV_WRITE; fd = s->wr_on_rd ? pp[s->pipe].rd : pp[s->pipe].wr; break;
		case K_TIMER: fl = 0; fd = -1; break;
		case K_SIGNAL: fl = EV_SIGNAL; fd = SIGS[s->sig_i]; break;
		}
		if (s->persist) fl |= EV_PERSIST;
		rs[i].ev = event_new(base, fd, fl, ev_cb, (void *)(intptr_t)i);
		rs[i].readd_left = s->readd;
		if (rs[i].ev && SC->npri > 1) event_priority_set(rs[i].ev, s->prio % SC->npri);
	}
	tr("=== run role=%s backend=%s sigfd=%d threads=%d forkmode=%s forkslot=%d", role == ROLE_CONTROL ? "control" : "forked", BACKENDS[SC->backend], SC->sigfd, SC->threads, SC->fork_mode == F_TOP ? "top" : SC->fork_mode == F_CB ? "callback" : "xthread-callback", SC->fork_slot);
	for (i = 0; i < SC->nprefix; i++) exec_op(&SC->prefix[i], i);
	/* the fork step */
	for (i = 0; i < SC->npre; i++) exec_op(&SC->pre[i], 100 + i);
	if (SC->dual >= 0 && role == ROLE_FORKED) c_stat("dual_interest_fd_at_fork");
	if (SC->fork_mode == F_TOP) { if (role == ROLE_FORKED) c_stat("fork_at_top_level"); fork_point(); }
	else if (SC->fork_mode == F_CB) armed = 1;
	else {
		nif_ev = event_new(base, -1, 0, nif_cb, NULL);
		if (nif_ev) { event_priority_set(nif_ev, 0); if (hs_arm(nif_ev)) { event_free(nif_ev); nif_ev = NULL; } }
	}
	if (!(SC->fork_mode == F_TOP && SC->xsig >= 0)) do_step();
	if (SC->fork_mode == F_NIF) { hs_disarm(); if (nif_ev && hs_notified != 1 && !is_child) c_stat("nif_without_notification"); }
	if (!forked) { if (role == ROLE_FORKED) c_stat("fork_fallback_after_step"); fork_point(); }
	armed = 0;
	for (i = 0; i < SC->nstim; i++) exec_op(&SC->stim[i], 200 + i);
	do_step();
	/* final state */
	cur_step++;
	for (i = 0; i < MAXSLOT; i++) if (rs[i].ev) logrec(R_PENDING, i, event_pending(rs[i].ev, EV_READ | EV_WRITE | EV_SIGNAL | EV_TIMEOUT, NULL));
	logrec(R_NEVENTS, 0, event_base_get_num_events(base, EVENT_BASE_COUNT_ADDED));
	wake_phase();
	if (is_child) child_finish();
	teardown();
}

/* ---- comparison ---- */
static int cmp_rec(const void *a, const void *b)
{
	const struct rec *x = a, *y = b;
	if (x->step != y->step) return x->step < y->step ? -1 : 1;
	if (x->kind != y->kind) return x->kind < y->kind ? -1 : 1;
	if (x->id != y->id) return x->id < y->id ? -1 : 1;
	if (x->val != y->val) return x->val < y->val ? -1 : 1;
	return 0;
}
static const char *rec_str(const struct rec *r, char *buf, size_t cap)
{
	static const char *RK[] = { "callback", "drained", "to-prior-handler", "return", "pending", "num-added", "woken" };
	if (r->kind == R_CB || r->kind == R_PENDING)
		snprintf(buf, cap, "step %d %s slot %d(%s) flags=0x%x", r->step, RK[r->kind], r->id, (r->id >= 0 && r->id < MAXSLOT) ? KINDN[SC->sl[r->id].kind] : "?", r->val);
	else
		snprintf(buf, cap, "step %d %s id=%d val=%d", r->step, RK[r->kind], r->id, r->val);
	return buf;
}
static void compare_logs(const char *who, struct rec *a, int na, struct rec *b, int nb)
{
	/* a = control (post-fork part), b = forked process (post-fork part) */
	int i = 0, j = 0;
	char key[128], t1[160], desc[700];
	qsort(a, (size_t)na, sizeof(*a), cmp_rec);
	qsort(b, (size_t)nb, sizeof(*b), cmp_rec);
	while (i < na || j < nb) {
		int c = (i >= na) ? 1 : (j >= nb) ? -1 : cmp_rec(&a[i], &b[j]);
		if (c == 0) { i++; j++; continue; }
		{
			const struct rec *r = c < 0 ? &a[i] : &b[j];
			const char *cls;
			static const char *RKK[] = { "callback", "drain", "prior-handler", "return-code", "final-pending", "final-count", "wakeup" };
			cls = RKK[r->kind >= 0 && r->kind <= R_WAKE ? r->kind : 0];
			if (r->kind == R_CB && r->id >= 0 && r->id < MAXSLOT)
				snprintf(key, sizeof(key), "C11:%s-diverges:%s-%s-callback", who, c < 0 ? "missing" : "extra", KINDN[SC->sl[r->id].kind]);
			else
				snprintf(key, sizeof(key), "C11:%s-diverges:%s", who, cls);
			snprintf(desc, sizeof(desc), "%s the never-forked run %s: %s (backend=%s mech=%s threads=%d fork=%s slot %d)",
				c < 0 ? "record only in" : "record not in", c < 0 ? "(missing after fork)" : "(extra after fork)", rec_str(r, t1, sizeof(t1)),
				BACKENDS[SC->backend], SC->sigfd ? "signalfd" : "selfpipe", SC->threads, SC->fork_mode == F_TOP ? "top-level" : SC->fork_mode == F_CB ? "in-callback" : "in-xthread-activated-callback", SC->fork_slot);
			c_viol(key, "%s", desc);
			return;
		}
	}
}

/* ---- generator ---- */
static void gen_scenario(struct scen *sc, vh_rng *r, long idx, int threads)
{
	int i, nslot, nsig = 0, sigs_used[NSIGS] = {0};
	int ids[MAXSLOT], nids = 0;
	memset(sc, 0, sizeof(*sc));
	sc->backend = (int)((idx / 2) % 3);
	sc->sigfd = (int)(idx % 2);
	sc->threads = threads;
	sc->npri = vh_chance(r, 1, 3) ? (int)vh_range(r, 2, 3) : 1;
	sc->npipe = (int)vh_range(r, 2, MAXPIPE);
	for (i = 0; i < sc->npipe; i++) sc->pipe_is_sock[i] = vh_chance(r, 1, 2);
	sc->changelist = (sc->backend == 0) && vh_chance(r, 1, 3);
	sc->fullpipe = vh_chance(r, 1, 2) ? sc->npipe - 1 : -1;
	nslot = (int)vh_range(r, 4, vh_opt.thorough ? MAXSLOT : 10);
	for (i = 0; i < nslot; i++) {
		struct sslot *s = &sc->sl[i];
		s->used = 1;
		s->kind = (int)vh_below(r, 4);
		if (i < 4) s->kind = i;    /* every kind is present */
		s->pipe = (int)vh_below(r, (uint64_t)(sc->fullpipe >= 0 ? sc->npipe - 1 : sc->npipe));
		if (s->kind == K_WRITE && sc->fullpipe >= 0 && vh_chance(r, 1, 2)) s->pipe = sc->fullpipe;   /* waits for buffer space */
		s->sig_i = (int)vh_below(r, NSIGS);
		s->persist = vh_chance(r, 2, 3);
		s->prio = (int)vh_below(r, 3);
		s->tv_us = (long)vh_range(r, 1, 400) * 1000;
		if (s->kind == K_READ) {
			/* CALIBRATED: EV_ET only on reads that drain, so no consumed-edge state exists at the fork: re-registering
			 * in the child reports current readiness once more, which the property does not forbid or require */
			s->et = (sc->backend == 0) && vh_chance(r, 1, 4);
			s->nodrain = !s->et && vh_chance(r, 1, 6);
			s->has_tv = vh_chance(r, 1, 4);
		}
		if (s->kind == K_SIGNAL) { sigs_used[s->sig_i] = 1; nsig++; }
		if (vh_chance(r, 1, 5)) s->del_after = (int)vh_range(r, 1, 3);
		if (!s->persist && vh_chance(r, 1, 2)) s->readd = (int)vh_range(r, 1, 3);
		ids[nids++] = i;
	}
	/* two events with different interests on ONE fd at the fork (a bufferevent with pending output looks like
	 * this): slot 0 reads the socket, slot 1 waits for writability of the same socket and is added in the fork
	 * step, so both registrations exist, undispatched, when the child re-creates its backend (seed C11-3) */
	sc->dual = -1;
	if (vh_chance(r, 1, 3)) {
		for (i = 0; i < sc->npipe; i++) if (sc->pipe_is_sock[i] && i != sc->fullpipe) { sc->dual = i; break; }
		if (sc->dual >= 0) {
			sc->sl[0].pipe = sc->dual; sc->sl[0].persist = 1; sc->sl[0].nodrain = 0; sc->sl[0].et = 0; sc->sl[0].del_after = 0;
			sc->sl[1].pipe = sc->dual; sc->sl[1].wr_on_rd = 1; sc->sl[1].del_after = 0;
			sc->prefix[sc->nprefix].kind = P_ADD; sc->prefix[sc->nprefix++].a = 0;
		}
	}
	/* prefix: add most events, exercise a little */
	for (i = 0; i < nslot && sc->nprefix < MAXOPS - 12; i++)
		if (vh_chance(r, 4, 5)) { sc->prefix[sc->nprefix].kind = P_ADD; sc->prefix[sc->nprefix++].a = i; }
	{
		int n = (int)vh_below(r, 8);
		for (i = 0; i < n && sc->nprefix < MAXOPS - 4; i++) {
			struct sop *o = &sc->prefix[sc->nprefix++];
			int sl = ids[vh_below(r, (uint64_t)nids)];
			o->a = o->b = 0;
			switch (vh_below(r, 8)) {
			case 0: o->kind = P_WRITE; o->a = (int)vh_below(r, (uint64_t)sc->npipe); o->b = (int)vh_range(r, 1, 1500); break;
			case 1: o->kind = P_TIME; o->a = (int)vh_range(r, 1, 300) * 1000; break;
			case 2: if (sc->sl[sl].kind == K_SIGNAL) { o->kind = P_KILL; o->a = sc->sl[sl].sig_i; o->b = (int)vh_range(r, 1, 3); } else { o->kind = P_STEP; } break;
			case 3: o->kind = P_DEL; o->a = sl; break;
			case 4: o->kind = P_ADD; o->a = sl; break;
			case 5: o->kind = P_ACTIVE; o->a = sl; o->b = sc->sl[sl].kind == K_READ ? EV_READ : sc->sl[sl].kind == K_WRITE ? EV_WRITE : sc->sl[sl].kind == K_SIGNAL ? EV_SIGNAL : EV_TIMEOUT; break;
			case 6: o->kind = vh_chance(r, 1, 2) ? P_UNFILL : P_REFILL; break;
			default: o->kind = P_STEP; break;
			}
		}
		/* signals raised in the prefix are consumed before the fork step: pending signals and the parent's
		 * self-pipe content are (correctly) not inherited, so "as in the parent" is undefined for them */
		sc->prefix[sc->nprefix].kind = P_STEP; sc->nprefix++;
	}
	/* fork step */
	sc->fork_mode = vh_chance(r, 1, 2) ? F_TOP : F_CB;
	/* CALIBRATED (outside C11): on this tree the notify eventfd is never read, only edge-triggered; on poll/select
	 * (no EV_ET) it stays readable after the first cross-thread wake-up and EVLOOP_NONBLOCK stepping would spin.
	 * So a notification may be in flight at the fork only with epoll; the final wake-up phase (EVLOOP_ONCE, base
	 * freed right after) runs on all backends. */
	if (threads && sc->backend == 0 && vh_chance(r, 1, 2)) sc->fork_mode = F_NIF;
	sc->fork_slot = ids[vh_below(r, (uint64_t)nids)];
	sc->predel = -1;
	if (sc->fork_mode == F_CB) {
		struct sslot *x = &sc->sl[sc->fork_slot];
		/* make sure X is added and triggered in the fork step */
		sc->pre[sc->npre].kind = P_ADD; sc->pre[sc->npre++].a = sc->fork_slot;
		switch (x->kind) {
		case K_READ: sc->pre[sc->npre].kind = P_WRITE; sc->pre[sc->npre].a = x->pipe; sc->pre[sc->npre++].b = (int)vh_range(r, 1, 900); break;
		case K_WRITE: break;
		case K_TIMER: sc->pre[sc->npre].kind = P_TIME; sc->pre[sc->npre++].a = (int)x->tv_us + 1000; break;
		case K_SIGNAL: sc->pre[sc->npre].kind = P_KILL; sc->pre[sc->npre].a = x->sig_i; sc->pre[sc->npre++].b = (int)vh_range(r, 1, 3); break;
		}
		if (vh_chance(r, 1, 3)) sc->predel = ids[vh_below(r, (uint64_t)nids)];
		sc->postdel_self = vh_chance(r, 1, 4);
	}
	/* more things in flight at the fork: ready data, activated events, expired timers (never other signals) */
	{
		int n = (int)vh_below(r, 4);
		for (i = 0; i < n && sc->npre < 7; i++) {
			struct sop *o = &sc->pre[sc->npre++];
			int sl = ids[vh_below(r, (uint64_t)nids)];
			o->a = o->b = 0;
			switch (vh_below(r, 6)) {
			case 0: o->kind = P_WRITE; o->a = (int)vh_below(r, (uint64_t)sc->npipe); o->b = (int)vh_range(r, 1, 700); break;
			case 1: o->kind = P_TIME; o->a = (int)vh_range(r, 1, 400) * 1000; break;
			case 2: o->kind = P_ADD; o->a = sl; break;      /* registered, not yet dispatched when the fork happens */
			case 3: o->kind = P_DEL; o->a = sl; break;
			case 4: o->kind = vh_chance(r, 2, 3) ? P_UNFILL : P_REFILL; break;
			default:
				if (sc->sl[sl].kind == K_SIGNAL) { o->kind = P_TIME; o->a = 1000; break; }
				o->kind = P_ACTIVE; o->a = sl; o->b = sc->sl[sl].kind == K_READ ? EV_READ : sc->sl[sl].kind == K_WRITE ? EV_WRITE : EV_TIMEOUT; break;
			}
		}
	}
	if (sc->dual >= 0) {
		if (sc->npre < 7) { sc->pre[sc->npre].kind = P_ADD; sc->pre[sc->npre].b = 0; sc->pre[sc->npre++].a = vh_chance(r, 1, 2) ? 1 : 0; }
		if (sc->npre < 8) { sc->pre[sc->npre].kind = P_ADD; sc->pre[sc->npre].b = 0; sc->pre[sc->npre].a = sc->pre[sc->npre - 1].a ? 0 : 1; sc->npre++; }
	}
	/* stimulus */
	sc->xsig = -1;
	if (sc->fork_mode == F_TOP && nsig > 0 && vh_chance(r, 2, 3)) {
		int k = (int)vh_below(r, NSIGS);
		while (!sigs_used[k]) k = (k + 1) % NSIGS;
		sc->xsig = k;
		sc->stim[sc->nstim].kind = P_XKILL; sc->stim[sc->nstim++].a = k;
		sc->stim[sc->nstim++].kind = P_STEP;
	}
	if (sc->dual >= 0) { sc->stim[sc->nstim].kind = P_WRITE; sc->stim[sc->nstim].a = sc->dual; sc->stim[sc->nstim++].b = (int)vh_range(r, 1, 700); sc->stim[sc->nstim++].kind = P_STEP; }
	{
		int n = (int)vh_range(r, 4, vh_opt.thorough ? 30 : 16);
		for (i = 0; i < n && sc->nstim < MAXOPS - 2; i++) {
			struct sop *o = &sc->stim[sc->nstim++];
			int sl = ids[vh_below(r, (uint64_t)nids)];
			o->a = o->b = 0;
			switch (vh_below(r, 12)) {
			case 0: case 1: case 2: o->kind = P_WRITE; o->a = (int)vh_below(r, (uint64_t)sc->npipe); o->b = (int)vh_range(r, 1, 1500); break;
			case 3: case 4: o->kind = P_TIME; o->a = (int)vh_range(r, 1, 500) * 1000; break;
			case 5: case 6: {
				int k = (int)vh_below(r, NSIGS);
				o->kind = P_KILL; o->a = (nsig && vh_chance(r, 5, 6)) ? sc->sl[3].sig_i : k; o->b = (int)vh_range(r, 1, 5);
				if (nsig && vh_chance(r, 1, 2)) { while (!sigs_used[k]) k = (k + 1) % NSIGS; o->a = k; }
				break; }
			case 7: o->kind = P_DEL; o->a = sl; break;
			case 8: o->kind = P_ADD; o->a = sl; break;
			case 9: o->kind = P_ACTIVE; o->a = sl; o->b = sc->sl[sl].kind == K_READ ? EV_READ : sc->sl[sl].kind == K_WRITE ? EV_WRITE : sc->sl[sl].kind == K_SIGNAL ? EV_SIGNAL : EV_TIMEOUT; break;
			case 10: o->kind = vh_chance(r, 1, 2) ? P_UNFILL : P_REFILL; break;
			default: o->kind = P_STEP; break;
			}
		}
	}
	sc->wake_phase = threads && (sc->fork_mode == F_NIF || vh_chance(r, 1, 2));
}

static struct scen the_scen;
static int threads_enabled;
static void run_case(vh_rng *r)
{
	struct scen *sc = &the_scen;
	long idx = vh_cur_case;
	uint64_t h;
	int want_threads = (int)((idx / 16) % 2);
	int post_cb = 0, i;
	unsetenv("EVENT_USE_SIGNALFD"); unsetenv("EVENT_NOEPOLL"); unsetenv("EVENT_NOPOLL"); unsetenv("EVENT_NOSELECT");
	unsetenv("EVENT_PRECISE_TIMER"); unsetenv("EVENT_EPOLL_USE_CHANGELIST");
	if (want_threads && !threads_enabled) { evthread_use_pthreads(); threads_enabled = 1; }
	gen_scenario(sc, r, idx, threads_enabled);
	SC = sc;
	h = vh_hash_bytes(0, sc, sizeof(*sc));
	{
		char cfgname[64];
		snprintf(cfgname, sizeof(cfgname), "cfg_%s_%s", BACKENDS[sc->backend], sc->sigfd ? "signalfd" : "selfpipe");
		c_stat(cfgname);
		if (sc->threads) c_stat("cfg_threads_notifiable");
		if (sc->changelist) c_stat("cfg_epoll_changelist");
		if (sc->fullpipe >= 0) c_stat("cfg_full_pipe_with_waiting_writers");
	}
	{
		char sb[500]; size_t o = 0;
		for (i = 0; i < sc->nstim && i < 16 && o + 24 < sizeof(sb); i++)
			o += (size_t)snprintf(sb + o, sizeof(sb) - o, "%s%s:%d:%d", i ? "," : "", OPN[sc->stim[i].kind], sc->stim[i].a, sc->stim[i].b);
		c_line("SAMPLE {\"backend\":\"%s\",\"mech\":\"%s\",\"threads\":%d,\"fork\":\"%s\",\"fork_slot_kind\":\"%s\",\"predel\":%d,\"cross_signal\":%d,\"stimulus_head\":\"%s\"}",
			BACKENDS[sc->backend], sc->sigfd ? "signalfd" : "selfpipe", sc->threads, sc->fork_mode == F_TOP ? "top-level" : sc->fork_mode == F_CB ? "in-callback" : "in-xthread-activated-callback",
			KINDN[sc->sl[sc->fork_slot].kind], sc->predel, sc->xsig, sb);
	}
	run_scenario(ROLE_CONTROL);
	if (invalid_run || ctl_log.overflow || ctl_log.fork_pos < 0) { c_stat("scenarios_skipped_not_quiescent"); return; }
	run_scenario(ROLE_FORKED);   /* the forked child never returns from here */
	c_stat("scenarios");
	if (invalid_run || p_log.overflow || p_log.fork_pos < 0 || (c_log_rx.n > 0 && c_log_rx.r[0].step == -1)) { c_stat("scenarios_forked_run_invalid"); return; }
	for (i = ctl_log.fork_pos; i < ctl_log.n; i++) if (ctl_log.r[i].kind == R_CB) post_cb++;
	c_stat_add("ctl_callbacks_after_forkpoint", post_cb);
	{
		static struct rec a[MAXLOG], b[MAXLOG];
		int na = ctl_log.n - ctl_log.fork_pos;
		memcpy(a, ctl_log.r + ctl_log.fork_pos, (size_t)na * sizeof(struct rec));
		memcpy(b, c_log_rx.r, (size_t)c_log_rx.n * sizeof(struct rec));
		compare_logs("child", a, na, b, c_log_rx.n);
		c_stat("child_vs_control_comparisons");
		memcpy(a, ctl_log.r + ctl_log.fork_pos, (size_t)na * sizeof(struct rec));
		memcpy(b, p_log.r + p_log.fork_pos, (size_t)(p_log.n - p_log.fork_pos) * sizeof(struct rec));
		compare_logs("parent", a, na, b, p_log.n - p_log.fork_pos);
		c_stat("parent_vs_control_comparisons");
	}
	if (post_cb > 0) c_line("HASH %llx", (unsigned long long)h);
}

#define BATCH 64
int main(int argc, char **argv)
{
	long idx; vh_rng r;
	static struct bcase batch[BATCH];
	int n = 0, more = 1, bsz;
	vh_init(argc, argv);
	bsz = (vh_opt.n1 > 0 && vh_opt.n1 < BATCH) ? (int)vh_opt.n1 : 16;
	while (more) {
		more = vh_next_case(&idx, &r);
		/* a batch never mixes thread-enabled and thread-less cases (evthread_use_pthreads is irreversible) */
		if (more && n > 0 && (idx / 16) != (batch[0].idx / 16)) {
			int start = 0;
			while (start < n) start += run_in_child(run_case, batch + start, n - start);
			n = 0;
		}
		if (more) { batch[n].idx = idx; batch[n].rng = r; n++; }
		if (n == bsz || (!more && n > 0)) {
			int start = 0;
			while (start < n) start += run_in_child(run_case, batch + start, n - start);
			n = 0;
		}
	}
	vh_finish();
	return watchdog_fired ? 3 : 0;
}
