/* h_evbufio: C15 (--mode refs) and C16 (--mode sockio).
 *
 * One op-sequence engine over 4 evbuffers with an independent model:
 * per buffer a flat byte vector (expected contents) plus, per byte, the id of
 * the zero-copy chain *instance* it still belongs to (-1 = bytes copied into
 * library-owned memory).  Instances map to objects (reference blocks, file
 * segments, evbuffer_add_file fds) whose cleanup events are counted.
 *
 *   --mode refs    C15: references / buffer references / file segments
 *   --mode sockio  C16: evbuffer_read / evbuffer_write(_atmost) under sysfault
 *   --n1 1         install lockmon callbacks and enable locking on some buffers
 *
 * Oracle after every API call (post_op): cleanup ledger (exactly once, not while
 * the model still has a dependent byte in a live buffer, not while the caller
 * holds the segment handle), evbuffer_get_length, chain invariants, full copyout
 * of every memory-readable buffer against the model, reference blocks against a
 * pristine copy.  Bytes of DRAINS_TO_FD buffers / sendfile-capable segments are
 * only observed at the far end of a socketpair/pipe.
 *
 * Calibrations (search CALIBRATED): failed add_reference does not run the
 * cleanup; failed add_file_segment gives up the caller's reference; zero-length
 * file ranges are not exercised; add_buffer_reference may refuse sources with
 * file-segment/multicast chains; a write/read that moves nothing may return 0
 * or -1.  Buffers holding buffer-reference chains are never the source of a move
 * (documented restriction).  Calls known to crash the current tree are first
 * tried in a forked child so the shard survives and reports a specific key.
 */
#include "vh.h"
#include <errno.h>
#include <fcntl.h>
#include <unistd.h>
#include <limits.h>
#include <sys/mman.h>
#include <sys/socket.h>
#include <sys/stat.h>
#include <sys/uio.h>
#include <sys/ioctl.h>
#include <event2/event.h>
#include <event2/buffer.h>
#include <event2/buffer_compat.h>
#include <event2/thread.h>
#include "evbuffer-internal.h"

ssize_t __real_read(int, void *, size_t);
ssize_t __real_write(int, const void *, size_t);
int __real_close(int);
int __real_pipe2(int *, int);

#define PAGE 4096
#define NBUF 4

static const char *PFX = "C15";
static int mode_sockio;
static int use_locks;
static int case_broken;        /* model and reality may have diverged: stop the case */
static int verbose;
static size_t MAXLEN = 192 * 1024;

#define VIOL_(brk, rule, ...) do { char k_[160]; snprintf(k_, sizeof k_, "%s:%s", PFX, rule); \
	vh_viol(k_, __VA_ARGS__); if (brk) case_broken = 1; } while (0)
#define VIOL(rule, ...)  VIOL_(1, rule, __VA_ARGS__)   /* state unknown afterwards */
#define VIOLC(rule, ...) VIOL_(0, rule, __VA_ARGS__)   /* model still follows reality */
#define TRACE(...) do { if (verbose) { fprintf(stderr, "  op: " __VA_ARGS__); fputc('\n', stderr); } } while (0)

static int pending_cleanups;   /* set by the cleanup callbacks / close observer */
static uint64_t case_hash;
static void hmix(long a, long b, long c, long d)
{
	long v[4] = { a, b, c, d };
	case_hash = vh_hash_bytes(case_hash, v, sizeof v);
}

/* ------------------------------------------------------------------ files */
#define MAXFILES 8
static struct { int master; size_t size; unsigned char *data; char path[300]; int via_proc; } F[MAXFILES];
static int nfiles;

static void files_init(void)
{
	static const size_t sz[] = { 1, PAGE - 1, PAGE, PAGE + 1, 3 * PAGE + 17, 65536 + 5, (1 << 20) + 3 };
	char dir[200];
	int i, n = vh_opt.thorough ? 7 : 6;
	snprintf(dir, sizeof dir, "evbufio-tmp-%d", (int)getpid());
	if (mkdir(dir, 0700) < 0 && errno != EEXIST) { perror("mkdir"); exit(3); }
	for (i = 0; i < n; i++) {
		size_t k, done = 0;
		int fd, t;
		F[i].size = sz[i];
		F[i].data = malloc(sz[i]);
		for (k = 0; k < sz[i]; k++)
			F[i].data[k] = (unsigned char)(vh_mix64(((uint64_t)(i + 1) << 40) + k / 8) >> ((k & 7) * 8));
		snprintf(F[i].path, sizeof F[i].path, "%s/f%d.bin", dir, i);
		fd = open(F[i].path, O_CREAT | O_TRUNC | O_RDWR, 0600);
		if (fd < 0) { perror("open tmp"); exit(3); }
		while (done < sz[i]) {
			ssize_t w = __real_write(fd, F[i].data + done, sz[i] - done);
			if (w <= 0) { perror("write tmp"); exit(3); }
			done += (size_t)w;
		}
		F[i].master = fd;
		/* keep no junk behind even when a sanitizer aborts us: unlink now and
		 * re-open through /proc/self/fd */
		{
			char p[64];
			snprintf(p, sizeof p, "/proc/self/fd/%d", fd);
			t = open(p, O_RDONLY);
			if (t >= 0) {
				__real_close(t);
				unlink(F[i].path);
				snprintf(F[i].path, sizeof F[i].path, "%s", p);
				F[i].via_proc = 1;
			}
		}
	}
	nfiles = n;
	rmdir(dir); /* succeeds iff every file went the /proc way */
}
static void files_fini(void)
{
	char dir[200];
	int i;
	for (i = 0; i < nfiles; i++) {
		if (!F[i].via_proc) unlink(F[i].path);
		__real_close(F[i].master);
		free(F[i].data);
	}
	snprintf(dir, sizeof dir, "evbufio-tmp-%d", (int)getpid());
	rmdir(dir);
}
static int file_open(int f)
{
	int fd = open(F[f].path, O_RDONLY);
	if (fd < 0) { perror("open file"); exit(3); }
	return fd;
}

/* ------------------------------------------------------------------ objects / instances */
enum { O_REF = 1, O_SEG, O_FILE };
struct obj {
	int kind, idx;
	/* reference block */
	unsigned char *base, *pristine;
	size_t total, off, dlen;
	int has_cb, romap;
	void *map; size_t maplen;
	/* segment / add_file */
	struct evbuffer_file_segment *seg;
	int file; long foff, flen; unsigned flags;
	int fd, held, nclose, nomem;
	/* cleanup accounting */
	int ncleanup, cleaned_now, twice_reported;
	int nadds;
};
static struct obj **O;
static int nobj, capobj;
struct inst { int obj; unsigned char nomem, special, sendfile, mc; };
static struct inst *I;
static int ninst, capinst;

static struct obj *obj_new(int kind)
{
	struct obj *o = calloc(1, sizeof *o);
	if (nobj == capobj) { capobj = capobj ? capobj * 2 : 64; O = realloc(O, sizeof(*O) * capobj); }
	o->kind = kind; o->idx = nobj; o->fd = -1;
	O[nobj++] = o;
	return o;
}
static int inst_new(int obj, int special, int sendfile, int nomem)
{
	if (ninst == capinst) { capinst = capinst ? capinst * 2 : 256; I = realloc(I, sizeof(*I) * capinst); }
	I[ninst].obj = obj; I[ninst].special = (unsigned char)special;
	I[ninst].sendfile = (unsigned char)sendfile; I[ninst].nomem = (unsigned char)nomem; I[ninst].mc = 0;
	return ninst++;
}

/* ------------------------------------------------------------------ model buffers */
struct mbuf {
	struct evbuffer *eb;
	int live, flagged, locked, mc_touched;
	unsigned char *by; int32_t *in;
	size_t len, cap;
};
static struct mbuf B[NBUF];

static void mb_reserve(struct mbuf *m, size_t need)
{
	if (need <= m->cap) return;
	while (m->cap < need) m->cap = m->cap ? m->cap * 2 : 4096;
	m->by = realloc(m->by, m->cap);
	m->in = realloc(m->in, m->cap * sizeof(int32_t));
}
static void mb_append(struct mbuf *m, const unsigned char *p, size_t n, int32_t in)
{
	size_t i;
	mb_reserve(m, m->len + n);
	if (n) memcpy(m->by + m->len, p, n);
	for (i = 0; i < n; i++) m->in[m->len + i] = in;
	m->len += n;
}
static void mb_prepend(struct mbuf *m, const unsigned char *p, size_t n, int32_t in)
{
	size_t i;
	mb_reserve(m, m->len + n);
	memmove(m->by + n, m->by, m->len);
	memmove(m->in + n, m->in, m->len * sizeof(int32_t));
	if (n) memcpy(m->by, p, n);
	for (i = 0; i < n; i++) m->in[i] = in;
	m->len += n;
}
static void mb_drop_front(struct mbuf *m, size_t n)
{
	if (n > m->len) n = m->len;
	memmove(m->by, m->by + n, m->len - n);
	memmove(m->in, m->in + n, (m->len - n) * sizeof(int32_t));
	m->len -= n;
	if (!m->len) m->mc_touched = 0;
}
/* append (or prepend) src[0..n) with its instance ids to dst, remove from src */
static void mb_move(struct mbuf *dst, struct mbuf *src, size_t n, int front)
{
	if (!n) return;
	mb_reserve(dst, dst->len + n);
	if (front) {
		memmove(dst->by + n, dst->by, dst->len);
		memmove(dst->in + n, dst->in, dst->len * sizeof(int32_t));
		memcpy(dst->by, src->by, n);
		memcpy(dst->in, src->in, n * sizeof(int32_t));
	} else {
		memcpy(dst->by + dst->len, src->by, n);
		memcpy(dst->in + dst->len, src->in, n * sizeof(int32_t));
	}
	dst->len += n;
	if (n && src->mc_touched) dst->mc_touched = 1;
	mb_drop_front(src, n);
}
static size_t run_len(const struct mbuf *m, size_t pos)
{
	size_t e = pos;
	while (e < m->len && m->in[e] == m->in[pos]) e++;
	return e - pos;
}
/* may the harness read this buffer through memory (copyout/pullup/remove/peek)?
 * Not when it is flagged DRAINS_TO_FD (caller's promise) and not when it holds
 * bytes of a sendfile-capable segment / evbuffer_add_file (docs: undefined). */
static int mb_readable(const struct mbuf *m)
{
	size_t i;
	if (m->flagged) return 0;
	for (i = 0; i < m->len; ) {
		int32_t in = m->in[i];
		if (in >= 0 && (I[in].nomem || I[in].sendfile)) return 0;
		i += run_len(m, i);
	}
	return 1;
}
static int mb_has_special(const struct mbuf *m)
{
	size_t i;
	for (i = 0; i < m->len; ) {
		int32_t in = m->in[i];
		if (in >= 0 && I[in].special) return 1;
		i += run_len(m, i);
	}
	return 0;
}
/* does the buffer hold chains made by evbuffer_add_buffer_reference?  The docs
 * say such buffers "can't be added to other buffers", so they are never the
 * source of a move. */
static int mb_has_mc(const struct mbuf *m)
{
	size_t i;
	for (i = 0; i < m->len; ) {
		int32_t in = m->in[i];
		if (in >= 0 && I[in].mc) return 1;
		i += run_len(m, i);
	}
	return 0;
}
static size_t mb_dep_bytes(const struct mbuf *m, int obj)
{
	size_t i, n = 0;
	for (i = 0; i < m->len; i++)
		if (m->in[i] >= 0 && I[m->in[i]].obj == obj) n++;
	return n;
}

/* ------------------------------------------------------------------ channel + syscall observer */
static int rd_fd = -1, rd_peer = -1, wr_fd = -1, wr_peer = -1, chan_is_pipe;
static uint64_t stream_seed;
static size_t fed, consumed;
static int rd_shut;
static unsigned char stream_byte(size_t i) { return (unsigned char)(vh_mix64(stream_seed + i / 8) >> ((i & 7) * 8)); }

struct call { int sym, fd; long req, res; int err; };
#define MAXCALLS 32
static struct call calls[MAXCALLS];
static int ncalls;
static const char *symname(int s)
{
	switch (s) {
	case SF_read: return "read"; case SF_readv: return "readv"; case SF_write: return "write";
	case SF_writev: return "writev"; case SF_sendfile: return "sendfile"; default: return "other";
	}
}
static int my_fd(int fd) { return fd >= 0 && (fd == rd_fd || fd == wr_fd); }
static void observer(int sym, int fd, long req, long res)
{
	int e = errno;
	if (sym == SF_close) {
		int i;
		for (i = 0; i < nobj; i++)
			if (O[i]->fd == fd && fd >= 0) {
				struct obj *o = O[i];
				o->nclose++;
				o->fd = -1;
				if (o->kind == O_FILE) { o->ncleanup++; o->cleaned_now = 1; pending_cleanups = 1; }
				vh_stat("lib_closed_fd");
				break;
			}
		errno = e;
		return;
	}
	if (!my_fd(fd)) { errno = e; return; }
	if (ncalls < MAXCALLS) {
		calls[ncalls].sym = sym; calls[ncalls].fd = fd; calls[ncalls].req = req;
		calls[ncalls].res = res; calls[ncalls].err = res < 0 ? e : 0;
		ncalls++;
	}
	errno = e;
}
static void set_nb(int fd) { int fl = fcntl(fd, F_GETFL); fcntl(fd, F_SETFL, fl | O_NONBLOCK); }
static void chan_open(vh_rng *r)
{
	chan_is_pipe = vh_chance(r, 1, 5);
	if (chan_is_pipe) {
		int a[2], b[2];
		if (__real_pipe2(a, 0) < 0 || __real_pipe2(b, 0) < 0) { perror("pipe"); exit(3); }
		rd_fd = a[0]; rd_peer = a[1]; wr_fd = b[1]; wr_peer = b[0];
	} else {
		int sv[2];
		if (socketpair(AF_UNIX, SOCK_STREAM, 0, sv) < 0) { perror("socketpair"); exit(3); }
		rd_fd = wr_fd = sv[0]; rd_peer = wr_peer = sv[1];
	}
	set_nb(rd_fd); set_nb(rd_peer); set_nb(wr_fd); set_nb(wr_peer);
	fed = consumed = 0; rd_shut = 0;
}
static void chan_close(void)
{
	__real_close(rd_fd);
	if (wr_fd != rd_fd) __real_close(wr_fd);
	if (rd_peer >= 0) __real_close(rd_peer);
	if (wr_peer != rd_peer && wr_peer >= 0) __real_close(wr_peer);
	rd_fd = rd_peer = wr_fd = wr_peer = -1;
}
/* everything the far end of the write channel has received so far */
static unsigned char *farbuf;
static size_t farcap;
static size_t drain_peer(void)
{
	size_t n = 0;
	for (;;) {
		ssize_t k;
		if (n + 65536 > farcap) { farcap = farcap ? farcap * 2 : 262144; farbuf = realloc(farbuf, farcap); }
		k = __real_read(wr_peer, farbuf + n, farcap - n);
		if (k > 0) { n += (size_t)k; continue; }
		if (k < 0 && errno == EINTR) continue;
		break;
	}
	return n;
}

/* ------------------------------------------------------------------ library log */
static void logcb(int sev, const char *msg)
{
	if (sev == EVENT_LOG_ERR) fprintf(stderr, "[err] %s\n", msg);
	else vh_stat("lib_warnings");
}

/* ------------------------------------------------------------------ cleanup callbacks */
static void ref_cleanup(const void *data, size_t datalen, void *extra)
{
	struct obj *o = extra;
	o->ncleanup++;
	o->cleaned_now = 1; pending_cleanups = 1;
	vh_stat("ref_cleanup_calls");
	if (o->ncleanup > 1) return; /* reported in post_op; memory already gone */
	/* documented: data = the pointer given, datalen = total length including the offset */
	if (data != o->base || datalen != o->total)
		VIOLC("cleanup-args", "reference cleanup got data=%p len=%zu, expected %p len=%zu (offset %zu + datlen %zu)",
		    data, datalen, (void *)o->base, o->total, o->off, o->dlen);
	/* poison and release: any later read of these bytes is an ASan report / SEGV / mismatch */
	if (o->romap) {
		munmap(o->map, o->maplen + PAGE);
	} else {
		memset(o->base, 0xDD, o->total);
		free(o->base);
	}
	o->base = NULL;
}
static void seg_cleanup(struct evbuffer_file_segment const *seg, int flags, void *arg)
{
	struct obj *o = arg;
	o->ncleanup++;
	o->cleaned_now = 1; pending_cleanups = 1;
	vh_stat("seg_cleanup_calls");
	if (o->ncleanup > 1) return;
	if (seg != o->seg || (unsigned)flags != o->flags)
		VIOLC("cleanup-args", "segment cleanup got seg=%p flags=%#x, expected %p %#x", (void *)seg, flags, (void *)o->seg, o->flags);
}

/* ------------------------------------------------------------------ invariant walker (evbuffer-internal.h) */
static const char *walk(struct evbuffer *eb)
{
	struct evbuffer_chain *c, *lastdata = NULL, *lwd = NULL, **pp;
	size_t sum = 0;
	long guard = 0;
	if (!eb->first) {
		if (eb->last || eb->total_len || eb->last_with_datap != &eb->first) return "empty-buffer-fields";
		return NULL;
	}
	pp = &eb->first;
	for (c = eb->first; c; pp = &c->next, c = c->next) {
		if (pp == eb->last_with_datap) lwd = c;
		sum += c->off;
		if (c->off) lastdata = c;
		if (c->misalign < 0 || (size_t)c->misalign + c->off > c->buffer_len) return "chain-extent-exceeds-buffer_len";
		if (c->refcnt <= 0) return "chain-refcnt";
		if (!c->next && c != eb->last) return "last-not-terminal";
		if (++guard > 1000000) return "chain-cycle";
	}
	if (sum != eb->total_len) return "total_len-not-sum-of-off";
	if (!lwd) return "last_with_datap-dangling";
	if (lastdata && lwd != lastdata) return "last_with_datap-not-last-data-chain";
	return NULL;
}

static unsigned char *scratch;
static size_t scratchcap;
static unsigned char *scratch_get(size_t n)
{
	if (n + 16 > scratchcap) { scratchcap = (n + 16) * 2; scratch = realloc(scratch, scratchcap); }
	return scratch;
}
static size_t first_diff(const unsigned char *a, const unsigned char *b, size_t n)
{
	size_t i;
	for (i = 0; i < n; i++) if (a[i] != b[i]) return i;
	return n;
}

static size_t *depcnt;
static int depcap;
static void dep_count(void)
{
	int b;
	if (depcap < nobj) { depcap = nobj * 2; depcnt = realloc(depcnt, sizeof(size_t) * depcap); }
	memset(depcnt, 0, sizeof(size_t) * nobj);
	for (b = 0; b < NBUF; b++) {
		struct mbuf *m = &B[b];
		size_t i;
		if (!m->live) continue;
		for (i = 0; i < m->len; ) {
			size_t rl = run_len(m, i);
			if (m->in[i] >= 0 && I[m->in[i]].obj >= 0) depcnt[I[m->in[i]].obj] += rl;
			i += rl;
		}
	}
}

/* after every API call: cleanup ledger, length, invariants, contents of every
 * live buffer, referenced blocks unmodified */
static int suppress_post;     /* inside op_build: one check after the whole batch */
static long post_seq;
static void post_op(const char *op)
{
	int i, b, counted = 0;
	if (suppress_post) return;
	post_seq++;
	if (use_locks) {
		if (lm_held_now()) vh_stat("lock_held_after_op");
		if (lm_take_violation()) vh_stat("lock_anomalies");
	}
	for (i = 0; pending_cleanups && i < nobj; i++) {
		struct obj *o = O[i];
		if (!o->cleaned_now) continue;
		o->cleaned_now = 0;
		if (!counted) { dep_count(); counted = 1; }
		if (o->ncleanup > 1 && !o->twice_reported) {
			o->twice_reported = 1;
			VIOL("cleanup-twice", "after %s: cleanup of %s #%d ran %d times", op,
			    o->kind == O_REF ? "reference" : o->kind == O_SEG ? "segment" : "add_file fd", i, o->ncleanup);
		}
		if (case_broken) continue;   /* the model is no longer trusted in this case */
		if (o->kind != O_REF && o->held)
			VIOL("cleanup-while-handle-held", "after %s: segment #%d cleaned up while the caller still holds its handle", op, i);
		if (depcnt[i])
			VIOL(o->kind == O_REF ? "cleanup-too-early:reference" : o->kind == O_SEG ? "cleanup-too-early:segment" : "cleanup-too-early:add_file",
			    "after %s: cleanup of object #%d ran while %zu of its bytes are still held by live buffers", op, i, depcnt[i]);
		if (o->kind == O_SEG && o->ncleanup == 1) {
			int want = (o->flags & EVBUF_FS_CLOSE_ON_FREE) ? 1 : 0;
			if (o->nclose != want)
				VIOLC(want ? "close-on-free-fd-not-closed" : "fd-closed-without-close-on-free",
				    "after %s: segment #%d flags=%#x: library closed its fd %d times", op, i, o->flags, o->nclose);
			if (!want && o->fd >= 0) { __real_close(o->fd); o->fd = -1; }
		}
		vh_stat(o->kind == O_REF ? "cleanups_ref" : o->kind == O_SEG ? "cleanups_seg" : "cleanups_addfile");
	}
	pending_cleanups = 0;
	if (case_broken) return;
	for (b = 0; b < NBUF; b++) {
		struct mbuf *m = &B[b];
		const char *w;
		size_t got;
		if (!m->live) continue;
		got = evbuffer_get_length(m->eb);
		if (got != m->len) { VIOL("length-mismatch", "after %s: buffer %d length %zu, model %zu", op, b, got, m->len); return; }
		if ((w = walk(m->eb)) != NULL) { char k[96]; snprintf(k, sizeof k, "invariant:%s", w); VIOL(k, "after %s: buffer %d breaks %s", op, b, w); return; }
		if (m->len && mb_readable(m)) {
			unsigned char *s = scratch_get(m->len);
			ev_ssize_t n = evbuffer_copyout(m->eb, s, m->len);
			size_t d;
			if (n != (ev_ssize_t)m->len) { VIOL("copyout-count", "after %s: copyout of buffer %d returned %zd of %zu", op, b, (ssize_t)n, m->len); return; }
			d = first_diff(s, m->by, m->len);
			if (d != m->len) {
				char k[96];
				snprintf(k, sizeof k, "content-mismatch:%s", op);
				VIOL(k, "after %s: buffer %d byte %zu of %zu is %02x, expected %02x (instance %d)", op, b, d, m->len, s[d], m->by[d], m->in[d]);
				return;
			}
			vh_stat("content_checks");
		}
	}
	/* many-chain histories: every 8th call and at the end of the case */
	if (nobj > 200 && (post_seq & 7) && strcmp(op, "free_at_end")) return;
	for (i = 0; i < nobj; i++) {
		struct obj *o = O[i];
		if (o->kind == O_REF && o->base && !o->romap && o->pristine && memcmp(o->base, o->pristine, o->total)) {
			VIOL("referenced-memory-modified", "after %s: reference block #%d (off %zu len %zu) was modified in place at byte %zu",
			    op, i, o->off, o->dlen, first_diff(o->base, o->pristine, o->total));
			return;
		}
	}
}

/* ------------------------------------------------------------------ pickers */
static int case_end;          /* finish the case after this op */
static int allow_mc_pullup;   /* this case may pull up buffers that share chains through add_buffer_reference */
static int small_bias;        /* sockio: many small chains */

static size_t size_pick(vh_rng *r)
{
	static const size_t b[] = { 0, 1, 2, PAGE - 1, PAGE, PAGE + 1, 2 * PAGE + 3, 3 * PAGE };
	if (small_bias && vh_chance(r, 5, 6)) return (size_t)vh_range(r, 1, 48);
	switch (vh_below(r, 4)) {
	case 0: return VH_PICK(r, b);
	case 1: return (size_t)vh_range(r, 1, 64);
	case 2: return (size_t)vh_range(r, 1, 3 * PAGE);
	default: return (size_t)vh_range(r, 1, 1200);
	}
}
static int force_buf = -1;
static int pick_live(vh_rng *r)
{
	int b = (int)vh_below(r, NBUF); /* all four slots are always live between ops */
	return force_buf >= 0 ? force_buf : b;
}
/* mostly a buffer that has something in it */
static int pick_nonempty(vh_rng *r)
{
	int b = pick_live(r), i;
	if (force_buf >= 0 || B[b].len || vh_chance(r, 1, 5)) return b;
	for (i = 1; i < NBUF; i++) if (B[(b + i) % NBUF].len) return (b + i) % NBUF;
	return b;
}
static unsigned char *rand_bytes(vh_rng *r, size_t n)
{
	static unsigned char *p; static size_t cap;
	size_t i;
	uint64_t w = 0;
	if (n + 8 > cap) { cap = (n + 8) * 2; p = realloc(p, cap); }
	for (i = 0; i < n; i++) { if (!(i & 7)) w = vh_rand(r); p[i] = (unsigned char)(w >> ((i & 7) * 8)); }
	return p;
}
static void buf_new(vh_rng *r, int b)
{
	struct mbuf *m = &B[b];
	m->eb = evbuffer_new();
	m->live = 1; m->len = 0; m->mc_touched = 0;
	/* cases that pull up shared chains keep every buffer memory-readable, so a
	 * corruption is seen right after the call that caused it */
	m->flagged = !allow_mc_pullup && vh_chance(r, 1, mode_sockio ? 3 : 4);
	m->locked = use_locks && vh_chance(r, 1, 2);
	if (m->flagged) evbuffer_set_flags(m->eb, EVBUFFER_FLAG_DRAINS_TO_FD);
	if (m->locked && evbuffer_enable_locking(m->eb, NULL) < 0) m->locked = 0;
}

/* ------------------------------------------------------------------ ops: plain data */
static void op_add_copy(vh_rng *r)
{
	int b = pick_live(r), how = (int)vh_below(r, 8);
	struct mbuf *m = &B[b];
	size_t n = size_pick(r);
	unsigned char *d;
	int rc;
	if (m->len + n > MAXLEN) return;
	d = rand_bytes(r, n);
	hmix(1, b, how, (long)n);
	if (how == 0) {
		TRACE("prepend b%d n=%zu", b, n);
		rc = evbuffer_prepend(m->eb, d, n);
		if (rc != 0) { VIOL("add-failed", "evbuffer_prepend(%zu) returned %d", n, rc); return; }
		mb_prepend(m, d, n, -1);
		post_op("prepend");
	} else if (how == 1) {
		TRACE("expand b%d n=%zu", b, n);
		evbuffer_expand(m->eb, n);
		post_op("expand");
	} else {
		TRACE("add b%d n=%zu", b, n);
		rc = evbuffer_add(m->eb, d, n);
		if (rc != 0) { VIOL("add-failed", "evbuffer_add(%zu) returned %d", n, rc); return; }
		mb_append(m, d, n, -1);
		post_op("add");
	}
	vh_stat("op_add_copy");
}

/* ------------------------------------------------------------------ ops: references */
static struct obj *ref_make(vh_rng *r, size_t off, size_t dlen)
{
	struct obj *o = obj_new(O_REF);
	unsigned char *d;
	o->off = off; o->dlen = dlen; o->total = off + dlen;
	o->has_cb = !vh_chance(r, 1, 10);
	o->romap = !small_bias && o->has_cb && vh_chance(r, 1, 4);
	d = rand_bytes(r, o->total);
	if (o->romap) {
		/* data ends exactly at a PROT_NONE guard page and is mapped read-only:
		 * an in-place write or an over-read faults at once */
		o->maplen = ((o->total + PAGE - 1) / PAGE) * PAGE;
		if (!o->maplen) o->maplen = PAGE;
		o->map = mmap(NULL, o->maplen + PAGE, PROT_READ | PROT_WRITE, MAP_PRIVATE | MAP_ANONYMOUS, -1, 0);
		if (o->map == MAP_FAILED) { perror("mmap"); exit(3); }
		o->base = (unsigned char *)o->map + (o->maplen - o->total);
		memcpy(o->base, d, o->total);
		mprotect((char *)o->map + o->maplen, PAGE, PROT_NONE);
		mprotect(o->map, o->maplen, PROT_READ);
		vh_stat("refs_readonly_mapped");
	} else {
		o->base = malloc(o->total ? o->total : 1);
		memcpy(o->base, d, o->total);
	}
	o->pristine = malloc(o->total ? o->total : 1);
	memcpy(o->pristine, d, o->total);
	return o;
}
static void ref_discard(struct obj *o)   /* harness still owns the memory */
{
	if (!o->base) return;
	if (o->romap) munmap(o->map, o->maplen + PAGE); else free(o->base);
	o->base = NULL;
}
static void op_add_ref(vh_rng *r)
{
	static const size_t offs[] = { 0, 0, 1, 7, PAGE - 1, PAGE, PAGE + 1 };
	int b = pick_live(r), with_off = vh_chance(r, 1, 2), rc;
	struct mbuf *m = &B[b];
	size_t off = with_off ? VH_PICK(r, offs) : 0, dlen = size_pick(r);
	struct obj *o;
	if (m->len + dlen > MAXLEN) return;
	o = ref_make(r, off, dlen);
	hmix(2, b, (long)off, (long)dlen);
	TRACE("add_reference%s b%d obj%d off=%zu len=%zu cb=%d romap=%d", with_off ? "_with_offset" : "", b, o->idx, off, dlen, o->has_cb, o->romap);
	if (with_off)
		rc = evbuffer_add_reference_with_offset(m->eb, o->base, off, dlen, o->has_cb ? ref_cleanup : NULL, o);
	else
		rc = evbuffer_add_reference(m->eb, o->base, dlen, o->has_cb ? ref_cleanup : NULL, o);
	if (rc != 0) { VIOL("add-failed", "evbuffer_add_reference(len %zu) returned %d", dlen, rc); return; }
	mb_append(m, o->pristine + off, dlen, inst_new(o->idx, 0, 0, 0));
	o->nadds = 1;
	vh_stat("op_add_reference");
	if (with_off && off) vh_stat("op_add_reference_with_offset");
	if (!dlen) vh_stat("zero_length_references");
	post_op("add_reference");
}
/* a failed add must leave ownership with the caller.  CALIBRATED: on failure
 * (frozen end) the cleanup callback is not invoked (buffer.c says so explicitly). */
static void op_add_ref_frozen(vh_rng *r)
{
	int b = pick_live(r), rc;
	struct mbuf *m = &B[b];
	struct obj *o = ref_make(r, 0, (size_t)vh_range(r, 1, 100));
	o->has_cb = 1;
	hmix(3, b, 0, (long)o->dlen);
	TRACE("add_reference(frozen) b%d obj%d", b, o->idx);
	evbuffer_freeze(m->eb, 0);
	rc = evbuffer_add_reference(m->eb, o->base, o->dlen, ref_cleanup, o);
	evbuffer_unfreeze(m->eb, 0);
	if (rc != -1) { VIOL("frozen-add-accepted", "add_reference on an end-frozen buffer returned %d", rc); return; }
	if (o->ncleanup) {
		o->cleaned_now = 0;
		VIOLC("cleanup-on-failed-add", "add_reference failed (frozen) but the cleanup callback ran %d time(s)", o->ncleanup);
	} else {
		ref_discard(o);
	}
	o->has_cb = 0; /* settled: not expected to be cleaned by the library */
	vh_stat("op_failed_adds");
	post_op("add_reference_frozen");
}

/* ------------------------------------------------------------------ ops: file segments */
#define EOFKEY "file-range-to-eof-ignores-offset"
static int n_held_segs(void)
{
	int i, n = 0;
	for (i = 0; i < nobj; i++) if (O[i]->kind == O_SEG && O[i]->held) n++;
	return n;
}
static struct obj *pick_held_seg(vh_rng *r)
{
	int i, n = n_held_segs(), k;
	if (!n) return NULL;
	k = (int)vh_below(r, (uint64_t)n);
	for (i = 0; i < nobj; i++)
		if (O[i]->kind == O_SEG && O[i]->held && k-- == 0) return O[i];
	return NULL;
}
static int pick_file(vh_rng *r)
{
	int f = (int)vh_below(r, (uint64_t)nfiles);
	if (F[f].size > 20000 && !vh_chance(r, 1, 3)) f = (int)vh_below(r, 5);
	return f;
}
static size_t pick_off(vh_rng *r, size_t lim)
{
	static const size_t c[] = { 0, 0, 1, PAGE - 1, PAGE, PAGE + 1 };
	size_t v;
	switch (vh_below(r, 4)) {
	case 0: v = lim; break;
	case 1: v = lim ? lim - 1 : 0; break;
	case 2: v = (size_t)vh_range(r, 0, (int64_t)lim); break;
	default: v = VH_PICK(r, c); break;
	}
	return v > lim ? lim : v;
}
static long pick_len(vh_rng *r, size_t rem, int allow_m1)
{
	static const size_t c[] = { 0, 1, PAGE - 1, PAGE, PAGE + 1, 2 * PAGE + 3, 3 * PAGE };
	size_t v;
	if (small_bias && vh_chance(r, 4, 5)) { v = (size_t)vh_range(r, 1, 48); return (long)(v > rem ? rem : v); }
	switch (vh_below(r, 5)) {
	case 0: if (allow_m1) return -1; /* fallthrough */
	case 1: v = rem; break;
	case 2: v = (size_t)vh_range(r, 0, (int64_t)rem); break;
	default: v = VH_PICK(r, c); break;
	}
	return (long)(v > rem ? rem : v);
}
static void op_seg_new(vh_rng *r)
{
	int f = pick_file(r), fd, eofclass;
	size_t fs = F[f].size, foff = pick_off(r, fs), rem = fs - foff;
	long flen = pick_len(r, rem, 1), L;
	unsigned flags = 0;
	struct evbuffer_file_segment *seg;
	struct obj *o;
	if (n_held_segs() >= 6) return;
	eofclass = (flen == -1 && foff > 0);
	if (eofclass && (mode_sockio || !vh_chance(r, 1, 3))) { flen = (long)rem; eofclass = 0; }
	if (allow_mc_pullup || !vh_chance(r, 3, 10)) flags |= EVBUF_FS_DISABLE_SENDFILE;
	if (vh_chance(r, 1, 2)) flags |= EVBUF_FS_DISABLE_MMAP;
	if (vh_chance(r, 1, 2)) flags |= EVBUF_FS_DISABLE_LOCKING;
	if (vh_chance(r, 1, 2)) flags |= EVBUF_FS_CLOSE_ON_FREE;
	L = flen == -1 ? (long)rem : flen;
	/* CALIBRATED: zero-length file ranges cannot be materialized (mm_malloc(0) / mmap(0) fail); not exercised */
	if (L == 0) return;
	hmix(4, f, (long)foff, flen * 16 + (long)flags);
	fd = file_open(f);
	TRACE("segment_new file%d(size %zu) off=%zu len=%ld flags=%#x", f, fs, foff, flen, flags);
	seg = evbuffer_file_segment_new(fd, (ev_off_t)foff, (ev_off_t)flen, flags);
	if (eofclass) {
		/* "length -1: as much as possible" from a non-zero offset must mean [offset, EOF).
		 * Checked without touching the bytes: a wrong range may reach past the mapping. */
		vh_stat("seg_to_eof_from_offset");
		if (!seg) {
			VIOLC(EOFKEY ":segment_new-fails", "evbuffer_file_segment_new(file of %zu bytes, offset %zu, length -1, flags %#x) failed; expected the %ld bytes up to EOF",
			    fs, foff, flags, L);
			__real_close(fd);
			return;
		}
		if (seg->length != L) {
			VIOLC(EOFKEY ":segment-length", "evbuffer_file_segment_new(file of %zu bytes, offset %zu, length -1, flags %#x) made a segment of %lld bytes; [offset, EOF) has %ld",
			    fs, foff, flags, (long long)seg->length, L);
			evbuffer_file_segment_free(seg);
			if (!(flags & EVBUF_FS_CLOSE_ON_FREE)) __real_close(fd);
			return;
		}
	}
	if (!seg) { VIOLC("segment-new-failed", "evbuffer_file_segment_new(size %zu, off %zu, len %ld, flags %#x) returned NULL", fs, foff, flen, flags); __real_close(fd); return; }
	o = obj_new(O_SEG);
	o->seg = seg; o->file = f; o->foff = (long)foff; o->flen = L; o->flags = flags; o->fd = fd; o->held = 1;
	o->nomem = !(flags & EVBUF_FS_DISABLE_SENDFILE);
	evbuffer_file_segment_add_cleanup_cb(seg, seg_cleanup, o);
	vh_stat("op_segment_new");
	if (!(flags & EVBUF_FS_DISABLE_SENDFILE)) vh_stat("segs_sendfile_capable");
	else if (!(flags & EVBUF_FS_DISABLE_MMAP)) vh_stat("segs_mmap");
	else vh_stat("segs_read");
	if (flags & EVBUF_FS_CLOSE_ON_FREE) vh_stat("segs_close_on_free");
	if (flags & EVBUF_FS_DISABLE_LOCKING) vh_stat("segs_disable_locking");
	if (flen == -1) vh_stat("segs_len_minus1");
	post_op("file_segment_new");
}
static void op_seg_add(vh_rng *r)
{
	struct obj *o = pick_held_seg(r);
	int b = pick_live(r), rc, sendfile;
	struct mbuf *m = &B[b];
	size_t L, soff, rem, n;
	long slen;
	if (!o) { op_seg_new(r); return; }
	L = (size_t)o->flen;
	soff = small_bias ? (size_t)vh_range(r, 0, (int64_t)L) : pick_off(r, L);
	rem = L - soff;
	slen = pick_len(r, rem, 1);
	n = slen < 0 ? rem : (size_t)slen;
	if (m->len + n > MAXLEN) return;
	sendfile = m->flagged && !(o->flags & EVBUF_FS_DISABLE_SENDFILE);
	hmix(5, b, o->idx, (long)soff * 8 + slen);
	TRACE("add_file_segment b%d obj%d soff=%zu slen=%ld (file off %ld) sendfile=%d", b, o->idx, soff, slen, o->foff, sendfile);
	rc = evbuffer_add_file_segment(m->eb, o->seg, (ev_off_t)soff, (ev_off_t)slen);
	if (rc != 0) { o->held = 0; VIOL("add-failed", "evbuffer_add_file_segment(off %zu, len %ld) of a %zu byte segment returned %d", soff, slen, L, rc); return; }
	mb_append(m, F[o->file].data + o->foff + soff, n, inst_new(o->idx, 1, sendfile, o->nomem));
	o->nadds++;
	vh_stat("op_add_file_segment");
	if (sendfile) vh_stat("sendfile_chains_added");
	if (o->nadds > 1) vh_stat("segment_added_more_than_once");
	post_op("add_file_segment");
}
/* CALIBRATED: a failing evbuffer_add_file_segment releases the caller's
 * reference (evbuffer_add_file depends on it); the model treats the handle as
 * given up, so the cleanup is due as soon as no chain uses the segment. */
static void op_seg_add_fail(vh_rng *r)
{
	struct obj *o = pick_held_seg(r);
	int b = pick_live(r), rc, how = (int)vh_below(r, 3);
	struct mbuf *m = &B[b];
	ev_off_t soff, slen;
	if (!o) return;
	if (how == 0) { soff = 0; slen = -1; evbuffer_freeze(m->eb, 0); }
	else if (how == 1) { soff = o->flen + 1; slen = -1; }
	else { soff = (ev_off_t)vh_range(r, 0, o->flen); slen = o->flen - soff + 1; }
	hmix(6, b, o->idx, how);
	TRACE("add_file_segment(failing how=%d) b%d obj%d", how, b, o->idx);
	rc = evbuffer_add_file_segment(m->eb, o->seg, soff, slen);
	if (how == 0) evbuffer_unfreeze(m->eb, 0);
	o->held = 0;
	if (rc != -1) { VIOL("invalid-add-accepted", "add_file_segment(how=%d off=%lld len=%lld) on a %ld byte segment returned %d", how, (long long)soff, (long long)slen, o->flen, rc); return; }
	vh_stat("op_failed_adds");
	post_op("add_file_segment_fail");
}
static void op_seg_free(vh_rng *r)
{
	struct obj *o = pick_held_seg(r);
	if (!o) return;
	hmix(7, o->idx, 0, 0);
	TRACE("file_segment_free obj%d", o->idx);
	o->held = 0;
	evbuffer_file_segment_free(o->seg);
	vh_stat("op_segment_free");
	post_op("file_segment_free");
}
static void op_add_file(vh_rng *r)
{
	int b = pick_live(r), f = pick_file(r), fd, rc, eofclass;
	struct mbuf *m = &B[b];
	size_t fs = F[f].size, foff = pick_off(r, fs), rem = fs - foff, n;
	long flen = pick_len(r, rem, 1);
	struct obj *o;
	if (allow_mc_pullup) return;
	eofclass = (flen == -1 && foff > 0);
	if (eofclass && (mode_sockio || !vh_chance(r, 1, 3))) { flen = (long)rem; eofclass = 0; }
	n = flen == -1 ? rem : (size_t)flen;
	if (!n || m->len + n > MAXLEN) return;
	hmix(8, b, f, (long)foff * 8 + flen);
	fd = file_open(f);
	o = obj_new(O_FILE);
	o->fd = fd; o->file = f; o->foff = (long)foff; o->flen = (long)n; o->flags = EVBUF_FS_CLOSE_ON_FREE; o->nomem = 1;
	TRACE("add_file b%d obj%d file%d off=%zu len=%ld eofclass=%d", b, o->idx, f, foff, flen, eofclass);
	if (eofclass) {
		/* probe the resulting length in a scratch buffer first; never read a wrong range */
		struct evbuffer *tmp = evbuffer_new();
		vh_stat("seg_to_eof_from_offset");
		if (m->flagged) evbuffer_set_flags(tmp, EVBUFFER_FLAG_DRAINS_TO_FD);
		rc = evbuffer_add_file(tmp, fd, (ev_off_t)foff, -1);
		if (rc != 0 || evbuffer_get_length(tmp) != n) {
			o->kind = 0;
			if (rc != 0)
				VIOLC(EOFKEY ":add_file-fails", "evbuffer_add_file(file of %zu bytes, offset %zu, length -1) returned %d; expected the %zu bytes up to EOF", fs, foff, rc, n);
			else
				VIOLC(EOFKEY ":add_file-length", "evbuffer_add_file(file of %zu bytes, offset %zu, length -1) added %zu bytes; [offset, EOF) has %zu",
				    fs, foff, evbuffer_get_length(tmp), n);
			evbuffer_free(tmp);
			if (o->fd >= 0 && fcntl(fd, F_GETFD) != -1) { vh_stat("add_file_error_left_fd_open"); __real_close(fd); o->fd = -1; }
			return;
		}
		rc = evbuffer_add_buffer(m->eb, tmp);
		evbuffer_free(tmp);
	} else {
		rc = evbuffer_add_file(m->eb, fd, (ev_off_t)foff, (ev_off_t)flen);
	}
	if (rc != 0) { o->kind = 0; VIOL("add-failed", "evbuffer_add_file(off %zu, len %ld) on a %zu byte file returned %d", foff, flen, fs, rc); return; }
	mb_append(m, F[f].data + foff, n, inst_new(o->idx, 1, m->flagged, 1));
	vh_stat("op_add_file");
	if (m->flagged) vh_stat("sendfile_chains_added");
	post_op("add_file");
}

/* Run a call that is suspected to crash in a forked child so that the shard
 * survives and the defect is still reported with its own key.  Returns the
 * terminating signal (or 1000+exit status) of the child, 0 if it survived. */
#include <sys/wait.h>
struct probe_arg { struct evbuffer *a, *b; int fd, n; };
static int probe_crashes(void (*fn)(struct probe_arg *), struct probe_arg *pa)
{
	pid_t pid;
	int st = 0;
	fflush(stdout); fflush(stderr);
	pid = fork();
	if (pid < 0) return 0;
	if (pid == 0) {
		int nul = open("/dev/null", O_WRONLY);
		if (nul >= 0) { dup2(nul, 2); dup2(nul, 1); }
		signal(SIGABRT, SIG_DFL); signal(SIGSEGV, SIG_DFL); signal(SIGBUS, SIG_DFL);
		fn(pa);
		_exit(0);
	}
	while (waitpid(pid, &st, 0) < 0 && errno == EINTR) ;
	if (WIFSIGNALED(st)) return WTERMSIG(st);
	if (WIFEXITED(st) && WEXITSTATUS(st)) return 1000 + WEXITSTATUS(st);
	return 0;
}
static void probe_fn_abr(struct probe_arg *pa)
{
	unsigned char tmp[64];
	if (evbuffer_add_buffer_reference(pa->a, pa->b) == 0) {
		evbuffer_copyout(pa->a, tmp, sizeof tmp);
		evbuffer_add(pa->a, "x", 1);
	}
}
static int probe_abr_crashes(struct evbuffer *dst, struct evbuffer *src)
{
	struct probe_arg pa = { dst, src, -1, 0 };
	return probe_crashes(probe_fn_abr, &pa);
}
/* a request for 0 bytes takes nothing from the shared socket */
static void probe_fn_read0(struct probe_arg *pa)
{
	evbuffer_read(pa->a, pa->fd, 0);
}

/* ------------------------------------------------------------------ ops: moves between buffers */
static void pick_two(vh_rng *r, int *a, int *b)
{
	*a = (int)vh_below(r, NBUF);
	*b = (int)((*a + 1 + vh_below(r, NBUF - 1)) % NBUF);
}
static void op_add_buffer(vh_rng *r)
{
	int d, s, rc, front = vh_chance(r, 1, 4);
	pick_two(r, &d, &s);
	if (B[d].len + B[s].len > MAXLEN) return;
	if (mb_has_mc(&B[s])) { vh_stat("moves_skipped_source_holds_buffer_references"); return; }
	hmix(9, d, s, front);
	TRACE("%s dst=b%d src=b%d (%zu bytes)", front ? "prepend_buffer" : "add_buffer", d, s, B[s].len);
	rc = front ? evbuffer_prepend_buffer(B[d].eb, B[s].eb) : evbuffer_add_buffer(B[d].eb, B[s].eb);
	if (rc != 0) { VIOL("move-failed", "%s returned %d", front ? "prepend_buffer" : "add_buffer", rc); return; }
	if (B[s].len) vh_stat("op_move_whole");
	mb_move(&B[d], &B[s], B[s].len, front);
	post_op(front ? "prepend_buffer" : "add_buffer");
}
static void op_remove_buffer(vh_rng *r)
{
	int d, s, rc;
	size_t n, want, moved = 0;
	struct mbuf *src, *dst;
	pick_two(r, &d, &s);
	src = &B[s]; dst = &B[d];
	if (mb_has_mc(src)) { vh_stat("moves_skipped_source_holds_buffer_references"); return; }
	switch (vh_below(r, 4)) {
	case 0: n = src->len + vh_below(r, 3); break;
	case 1: n = src->len ? run_len(src, 0) + (size_t)vh_range(r, -1, 1) : 1; break;
	default: n = (size_t)vh_range(r, 0, (int64_t)src->len); break;
	}
	/* a partial move copies out of a chain through memory */
	if (n < src->len && !mb_readable(src)) n = src->len;
	want = n < src->len ? n : src->len;
	if (dst->len + want > MAXLEN) return;
	hmix(10, d, s, (long)n);
	TRACE("remove_buffer src=b%d dst=b%d n=%zu of %zu", s, d, n, src->len);
	rc = evbuffer_remove_buffer(src->eb, dst->eb, n);
	if (rc != (int)want) { VIOL("remove-buffer-count", "remove_buffer(%zu) from %zu bytes returned %d", n, src->len, rc); return; }
	/* whole chains travel zero-copy, the cut chain's part is copied */
	while (moved < want) {
		size_t rl = run_len(src, 0), take = want - moved;
		if (rl <= take || src->in[0] < 0) {
			if (rl > take) rl = take;
			if (src->in[0] >= 0) vh_stat("zero_copy_chain_moved");
			mb_move(dst, src, rl, 0);
			moved += rl;
		} else {
			mb_append(dst, src->by, take, -1);
			if (src->mc_touched) dst->mc_touched = 1;
			mb_drop_front(src, take);
			moved += take;
			vh_stat("zero_copy_chain_cut_by_move");
		}
	}
	if (want) vh_stat("op_remove_buffer");
	post_op("remove_buffer");
}
static void op_add_buffer_reference(vh_rng *r)
{
	int d, s, rc, special;
	struct mbuf *src, *dst;
	size_t i;
	pick_two(r, &d, &s);
	src = &B[s]; dst = &B[d];
	if (dst->len + src->len > MAXLEN) return;
	if (!mb_readable(src) && !mode_sockio && vh_chance(r, 1, 2)) return; /* mostly refused anyway */
	special = mb_has_special(src);
	hmix(11, d, s, (long)src->len);
	TRACE("add_buffer_reference dst=b%d src=b%d (%zu bytes, special=%d)", d, s, src->len, special);
	if (dst->eb->total_len == 0 && dst->eb->first != NULL && src->len) {
		/* destination is empty but still owns an (empty) chain */
		/* probed once per process (a fork under ASan is slow); the outcome is a
		 * deterministic function of this precondition */
		static int known_sig = -1;
		int sig;
		vh_stat("buffer_reference_into_empty_chained_dst");
		if (mode_sockio) return;   /* C15's subject; not repeated under C16 */
		if (known_sig > 0) { vh_stat("buffer_reference_into_empty_chained_dst_skipped"); return; }
		sig = probe_abr_crashes(dst->eb, src->eb);
		if (sig) known_sig = sig;
		if (sig) {
			VIOLC("buffer-reference-into-empty-buffer-with-chain:crash",
			    "evbuffer_add_buffer_reference(dst, src) with dst empty but holding an empty chain (e.g. after evbuffer_expand or a zero-length reference) and src of %zu bytes: child process died with %s %d",
			    src->len, sig >= 1000 ? "exit status" : "signal", sig >= 1000 ? sig - 1000 : sig);
			return;
		}
	}
	rc = evbuffer_add_buffer_reference(dst->eb, src->eb);
	if (rc != 0 && rc != -1) { VIOL("move-failed", "add_buffer_reference returned %d", rc); return; }
	if (rc == -1) {
		/* CALIBRATED: refused when the source holds file-segment or multicast chains */
		vh_stat(special ? "buffer_reference_refused_special" : "buffer_reference_refused_other");
		post_op("add_buffer_reference_refused");
		return;
	}
	if (special) vh_stat("buffer_reference_accepted_special");
	for (i = 0; i < src->len; ) {
		size_t rl = run_len(src, i);
		int32_t in = src->in[i], ni;
		ni = inst_new(in >= 0 ? I[in].obj : -1, 1, in >= 0 ? I[in].sendfile : 0, in >= 0 ? I[in].nomem : 0);
		I[ni].mc = 1;
		if (in >= 0) vh_stat("reference_chain_multicast");
		mb_append(dst, src->by + i, rl, ni);
		i += rl;
	}
	if (src->len) { src->mc_touched = dst->mc_touched = 1; vh_stat("op_add_buffer_reference"); }
	post_op("add_buffer_reference");
}

/* ------------------------------------------------------------------ ops: memory read paths */
static void op_drain(vh_rng *r)
{
	int b = pick_live(r), rc;
	struct mbuf *m = &B[b];
	size_t n;
	switch (vh_below(r, 5)) {
	case 0: n = m->len + vh_below(r, 2); break;
	case 1: n = m->len ? run_len(m, 0) + (size_t)vh_range(r, -1, 1) : 0; break;
	case 2: n = (size_t)vh_range(r, 0, 40); break;
	default: n = (size_t)vh_range(r, 0, (int64_t)m->len); break;
	}
	hmix(12, b, (long)n, 0);
	TRACE("drain b%d n=%zu of %zu", b, n, m->len);
	rc = evbuffer_drain(m->eb, n);
	if (rc != 0) { VIOL("drain-failed", "evbuffer_drain returned %d", rc); return; }
	if (n < m->len && n && m->in[0] >= 0 && run_len(m, 0) > n) vh_stat("zero_copy_chain_partially_drained");
	mb_drop_front(m, n);
	vh_stat("op_drain");
	post_op("drain");
}
static void op_copyout(vh_rng *r)
{
	int b = pick_live(r), from = vh_chance(r, 1, 3);
	struct mbuf *m = &B[b];
	size_t pos = 0, n, want;
	unsigned char *s;
	ev_ssize_t got;
	if (!mb_readable(m)) return;
	if (from) pos = (size_t)vh_range(r, 0, (int64_t)m->len);
	n = vh_chance(r, 1, 4) ? m->len - pos + vh_below(r, 3) : (size_t)vh_range(r, 0, (int64_t)(m->len - pos));
	want = n < m->len - pos ? n : m->len - pos;
	s = scratch_get(n);
	hmix(13, b, (long)pos, (long)n);
	TRACE("copyout%s b%d pos=%zu n=%zu", from ? "_from" : "", b, pos, n);
	if (from) {
		struct evbuffer_ptr p;
		if (evbuffer_ptr_set(m->eb, &p, pos, EVBUFFER_PTR_SET) < 0) { VIOL("ptr-set-failed", "evbuffer_ptr_set(%zu) of %zu failed", pos, m->len); return; }
		got = evbuffer_copyout_from(m->eb, &p, s, n);
	} else {
		got = evbuffer_copyout(m->eb, s, n);
	}
	if (got != (ev_ssize_t)want) { VIOL("copyout-count", "copyout(%zu at %zu) of %zu returned %zd", n, pos, m->len, (ssize_t)got); return; }
	if (memcmp(s, m->by + pos, want)) { VIOL("content-mismatch:copyout", "copyout(%zu at %zu) differs at byte %zu", n, pos, first_diff(s, m->by + pos, want)); return; }
	vh_stat("op_copyout");
	post_op("copyout");
}
static void op_remove(vh_rng *r)
{
	int b = pick_live(r), got;
	struct mbuf *m = &B[b];
	size_t n, want;
	unsigned char *s;
	if (!mb_readable(m)) return;
	switch (vh_below(r, 4)) {
	case 0: n = m->len + vh_below(r, 3); break;
	case 1: n = m->len ? run_len(m, 0) + (size_t)vh_range(r, -1, 1) : 0; break;
	default: n = (size_t)vh_range(r, 0, (int64_t)m->len); break;
	}
	want = n < m->len ? n : m->len;
	s = scratch_get(n);
	hmix(14, b, (long)n, 0);
	TRACE("remove b%d n=%zu of %zu", b, n, m->len);
	got = evbuffer_remove(m->eb, s, n);
	if (got != (int)want) { VIOL("remove-count", "evbuffer_remove(%zu) of %zu returned %d", n, m->len, got); return; }
	if (memcmp(s, m->by, want)) { VIOL("content-mismatch:remove", "remove(%zu) differs at byte %zu", n, first_diff(s, m->by, want)); return; }
	mb_drop_front(m, want);
	vh_stat("op_remove");
	post_op("remove");
}
static void op_pullup(vh_rng *r)
{
	int b = pick_live(r);
	struct mbuf *m = &B[b];
	long size;
	size_t eff, contig, i;
	unsigned char *p;
	int shared = 0;
	if (!mb_readable(m)) return;
	switch (vh_below(r, 6)) {
	case 0: size = -1; break;
	case 1: size = (long)m->len + (long)vh_below(r, 2); break;
	case 2: size = m->len ? (long)run_len(m, 0) + (long)vh_range(r, -1, 1) : 0; break;
	case 3: size = (long)vh_range(r, 0, 64); break;
	default: size = (long)vh_range(r, 0, (int64_t)m->len); break;
	}
	eff = size < 0 ? m->len : (size_t)size;
	contig = evbuffer_get_contiguous_space(m->eb);   /* public: extent of the first chain */
	/* buffers sharing chains through add_buffer_reference are only pulled up
	 * (beyond the first chain) in the cases that opted in */
	if (m->mc_touched && !allow_mc_pullup && eff > contig) return;
	hmix(15, b, size, (long)contig);
	TRACE("pullup b%d size=%ld of %zu (contiguous %zu)", b, size, m->len, contig);
	p = evbuffer_pullup(m->eb, (ev_ssize_t)size);
	if (eff == 0 || eff > m->len) {
		if (p) { VIOL("pullup-result", "pullup(%ld) of %zu returned non-NULL", size, m->len); return; }
	} else {
		if (!p) { VIOL("pullup-result", "pullup(%ld) of %zu returned NULL", size, m->len); return; }
		if (memcmp(p, m->by, eff)) { VIOL("content-mismatch:pullup-result", "pullup(%ld) result differs at byte %zu", size, first_diff(p, m->by, eff)); return; }
		if (contig < eff) {
			/* everything in [0,eff) now lives in one library-owned chain */
			for (i = 0; i < eff; i++) {
				if (m->in[i] >= 0 && (i + 1 == eff || m->in[i] != m->in[i + 1])) vh_stat("zero_copy_chain_pulled_up");
				m->in[i] = -1;
			}
			/* terminal op of the case: what a pullup leaves behind when the first
			 * chain is shared differs between a correct and the current library */
			if (m->mc_touched) { vh_stat("pullup_on_shared_chains"); shared = 1; case_end = 1; }
		}
		vh_stat("op_pullup");
	}
	post_op(shared ? "pullup-with-shared-chains" : "pullup");
}
static void op_peek(vh_rng *r)
{
	int b = pick_live(r), n, i;
	struct mbuf *m = &B[b];
	struct evbuffer_iovec *v;
	size_t pos = 0;
	(void)r;
	if (!mb_readable(m) || !m->len) return;
	n = evbuffer_peek(m->eb, -1, NULL, NULL, 0);
	if (n <= 0 || n > 100000) { VIOL("peek-count", "evbuffer_peek reports %d extents for %zu bytes", n, m->len); return; }
	v = calloc((size_t)n, sizeof *v);
	hmix(16, b, n, 0);
	TRACE("peek b%d extents=%d", b, n);
	evbuffer_peek(m->eb, -1, NULL, v, n);
	for (i = 0; i < n; i++) {
		if (pos + v[i].iov_len > m->len || memcmp(v[i].iov_base, m->by + pos, v[i].iov_len)) {
			VIOL("content-mismatch:peek", "peek extent %d/%d (len %zu at %zu) differs from the model", i, n, v[i].iov_len, pos);
			free(v);
			return;
		}
		pos += v[i].iov_len;
	}
	free(v);
	if (pos != m->len) { VIOL("peek-count", "peek extents cover %zu of %zu bytes", pos, m->len); return; }
	vh_stat("op_peek");
	post_op("peek");
}
static void op_free_renew(vh_rng *r)
{
	int b = pick_live(r);
	struct mbuf *m = &B[b];
	hmix(17, b, (long)m->len, 0);
	TRACE("free b%d (%zu bytes) and renew", b, m->len);
	if (m->len) vh_stat("op_free_nonempty_buffer");
	m->live = 0; m->len = 0; m->mc_touched = 0;
	evbuffer_free(m->eb);
	post_op("free");
	if (case_broken) { m->eb = NULL; return; }
	buf_new(r, b);
}

/* ------------------------------------------------------------------ ops: evbuffer_write(_atmost) */
static const int wr_errnos[] = { EINTR, EAGAIN, EPIPE, ECONNRESET, ENOBUFS };
static const int rd_errnos[] = { EINTR, EAGAIN, ECONNRESET, ENOMEM, EIO };

static void op_write(vh_rng *r, int faults)
{
	int b = pick_nonempty(r), ret, i, frozen = 0, use_plain, nd = 0, plan = 0;
	struct mbuf *m = &B[b];
	size_t T = m->len, eff, accepted = 0, far, newlen;
	long howmuch, parg = 0;
	struct call *last = NULL;
	switch (vh_below(r, 8)) {
	case 0: case 1: howmuch = -1; break;
	case 2: howmuch = (long)T + (long)vh_range(r, -1, 1); break;
	case 3: howmuch = T ? (long)run_len(m, 0) + (long)vh_range(r, -1, 1) : 0; break;
	case 4: howmuch = (long)vh_range(r, 0, 3); break;
	case 5: howmuch = (long)T + (long)vh_range(r, 1, 100000); break;
	default: howmuch = (long)vh_range(r, 0, (int64_t)T); break;
	}
	if (howmuch < -1) howmuch = 0;
	eff = (howmuch < 0 || (size_t)howmuch > T) ? T : (size_t)howmuch;
	use_plain = (howmuch == -1 && vh_chance(r, 1, 2));
	sf_reset();
	if (faults) {
		plan = (int)vh_below(r, 10);
		if (plan <= 3) {          /* short by k */
			static const long ks[] = { 0, 1, 2, 100 };
			switch (vh_below(r, 4)) {
			case 0: parg = VH_PICK(r, ks); break;
			case 1: parg = eff ? (long)eff - 1 : 0; break;
			case 2: parg = T ? (long)run_len(m, 0) + (long)vh_range(r, -1, 1) : 0; break;
			default: parg = (long)vh_range(r, 0, (int64_t)eff); break;
			}
			if (parg < 0) parg = 0;
			sf_plan(SF_write, 1, SFA_SHORT, parg); sf_plan(SF_writev, 1, SFA_SHORT, parg); sf_plan(SF_sendfile, 1, SFA_SHORT, parg);
		} else if (plan <= 6) {   /* error */
			parg = VH_PICK(r, wr_errnos);
			sf_plan(SF_write, 1, SFA_ERRNO, parg); sf_plan(SF_writev, 1, SFA_ERRNO, parg); sf_plan(SF_sendfile, 1, SFA_ERRNO, parg);
		}
		if (vh_chance(r, 1, 12)) { frozen = 1; evbuffer_freeze(m->eb, 1); }
	}
	hmix(20, b, howmuch, plan * 1000003L + parg);
	TRACE("write%s b%d howmuch=%ld of %zu plan=%d arg=%ld frozen=%d", use_plain ? "" : "_atmost", b, howmuch, T, plan, parg, frozen);
	ncalls = 0;
	ret = use_plain ? evbuffer_write(m->eb, wr_fd) : evbuffer_write_atmost(m->eb, wr_fd, (ev_ssize_t)howmuch);
	if (frozen) evbuffer_unfreeze(m->eb, 1);
	sf_reset();
	far = drain_peer();
	for (i = 0; i < ncalls; i++) {
		struct call *c = &calls[i];
		if (c->sym != SF_write && c->sym != SF_writev && c->sym != SF_sendfile) continue;
		nd++; last = c;
		if (c->res > 0) accepted += (size_t)c->res;
		if (c->res >= 0 && c->res < c->req) vh_stat("short_writes_seen");
		if (c->res < 0) vh_stat("write_errors_seen");
		vh_stat(c->sym == SF_sendfile ? "sys_sendfile" : c->sym == SF_writev ? "sys_writev" : "sys_write");
		if (mode_sockio && c->req > (long)eff) {
			char k[96];
			snprintf(k, sizeof k, "write-passes-more-than-requested:%s", symname(c->sym));
			VIOLC(k, "write_atmost(howmuch %ld) on %zu buffered bytes handed %ld bytes to %s (first chain %zu bytes)",
			    howmuch, T, c->req, symname(c->sym), T ? run_len(m, 0) : 0);
		}
	}
	newlen = evbuffer_get_length(m->eb);
	if (frozen) {
		vh_stat("write_on_frozen_start");
		if (ret != -1 || nd || far) { VIOL("write-frozen", "write on a start-frozen buffer: ret %d, %d syscalls, far end got %zu bytes", ret, nd, far); return; }
	}
	if (ret > 0) {
		if ((size_t)ret != accepted) { VIOL("write-return-mismatch", "write returned %d but the kernel accepted %zu bytes (last %s req %ld res %ld)", ret, accepted, last ? symname(last->sym) : "-", last ? last->req : 0, last ? last->res : 0); return; }
		vh_stat("writes_ok");
	} else {
		if (accepted) { VIOL("write-accepted-not-removed", "write returned %d although the kernel accepted %zu bytes", ret, accepted); return; }
		/* CALIBRATED: nothing to write (empty buffer / howmuch 0) returns -1 without a syscall;
		 * sendfile EAGAIN/EINTR returns 0; both leave the buffer alone, which is all we require */
		if (ret < -1) { VIOL("write-return-mismatch", "write returned %d", ret); return; }
		vh_stat(ret == 0 ? "writes_returned_0" : "writes_failed");
		if (!nd) vh_stat("writes_without_syscall");
	}
	if (far != accepted || (accepted && memcmp(farbuf, m->by, accepted))) {
		VIOL("write-farend-mismatch", "kernel accepted %zu bytes, far end received %zu, first difference at %zu", accepted, far, first_diff(farbuf, m->by, far < accepted ? far : accepted));
		return;
	}
	if (newlen != T - accepted) { VIOL("write-removed-not-accepted", "kernel accepted %zu of %zu bytes but the buffer went from %zu to %zu", accepted, eff, T, newlen); return; }
	if (accepted) {
		size_t k;
		for (k = 0; k < accepted; ) {
			size_t rl = run_len(m, k);
			if (m->in[k] >= 0) vh_stat(I[m->in[k]].sendfile ? "zero_copy_bytes_sent_sendfile" : "zero_copy_bytes_sent_iovec");
			k += rl;
		}
		if (accepted < T) vh_stat("partial_writes");
	}
	mb_drop_front(m, accepted);
	vh_stat("op_write");
	post_op(ret < 0 ? "write_failed" : "write");
}

/* ------------------------------------------------------------------ ops: evbuffer_read (sockio) */
static void op_feed(vh_rng *r)
{
	size_t n, i;
	unsigned char *d;
	ssize_t w;
	if (rd_peer < 0 || rd_shut) return;
	if (fed - consumed > 100000) return;
	n = vh_chance(r, 1, 3) ? (size_t)vh_range(r, 1, 20000) : (size_t)vh_range(r, 1, 300);
	d = scratch_get(n);
	for (i = 0; i < n; i++) d[i] = stream_byte(fed + i);
	w = __real_write(rd_peer, d, n);
	TRACE("feed %zu -> %zd", n, (ssize_t)w);
	if (w > 0) fed += (size_t)w;
	hmix(21, (long)n, 0, 0);
}
static void op_eof(vh_rng *r)
{
	if (rd_peer < 0 || rd_shut || !vh_chance(r, 1, 4)) return;
	TRACE("far end closes its sending side");
	if (chan_is_pipe) { __real_close(rd_peer); rd_peer = -1; }
	else shutdown(rd_peer, SHUT_WR);
	rd_shut = 1;
	hmix(22, 0, 0, 0);
	vh_stat("far_end_eof");
}
static void op_set_max_read(vh_rng *r)
{
	static const size_t v[] = { 1, 7, 512, 4096, 4096, 4097, 16384, 65536 };
	int b = pick_live(r);
	size_t mr = (vh_opt.thorough && vh_chance(r, 1, 10)) ? (1u << 20) : VH_PICK(r, v);
	TRACE("set_max_read b%d %zu", b, mr);
	evbuffer_set_max_read(B[b].eb, mr);
	hmix(23, b, (long)mr, 0);
}
static void op_read(vh_rng *r)
{
	int b = pick_live(r), ret, i, frozen = 0, nd = 0, plan, ioplan;
	struct mbuf *m = &B[b];
	size_t avail = fed - consumed, produced = 0, k;
	long howmuch, parg = 0, ioarg = 0;
	struct call *last = NULL;
	unsigned char *d;
	if (m->len > MAXLEN) return;
	if (!avail && vh_chance(r, 2, 3)) { op_feed(r); avail = fed - consumed; }
	switch (vh_below(r, 8)) {
	case 0: case 1: howmuch = -1; break;
	case 2: howmuch = (long)avail + (long)vh_range(r, -1, 1); break;
	case 3: howmuch = (long)vh_range(r, 0, 3); break;
	case 4: howmuch = VH_PICK(r, ((const long[]){ 4095, 4096, 4097, 16384, 100000, INT_MAX })); break;
	default: howmuch = (long)vh_range(r, 1, 6000); break;
	}
	if (howmuch < -1) howmuch = 0;
	sf_reset();
	/* script FIONREAD */
	ioplan = (int)vh_below(r, 6);
	if (ioplan == 0) {
		static const long v[] = { 0, 1, -1, -7, 4096, 4097, 65536, INT_MAX };
		ioarg = VH_PICK(r, v);
		sf_plan(SF_ioctl, 1, SFA_SHORT, ioarg);
	} else if (ioplan == 1) {
		ioarg = (long)avail + (long)vh_range(r, -2, 2);
		sf_plan(SF_ioctl, 1, SFA_SHORT, ioarg);
	} else if (ioplan == 2) {
		ioarg = vh_chance(r, 1, 2) ? ENOTTY : EINVAL;
		sf_plan(SF_ioctl, 1, SFA_ERRNO, ioarg);
	}
	plan = (int)vh_below(r, 10);
	if (plan <= 2) {
		parg = vh_chance(r, 1, 3) ? (long)vh_range(r, 0, 3) : (long)vh_range(r, 0, (int64_t)(avail + 2));
		sf_plan(SF_read, 1, SFA_SHORT, parg); sf_plan(SF_readv, 1, SFA_SHORT, parg);
	} else if (plan <= 5) {
		parg = VH_PICK(r, rd_errnos);
		sf_plan(SF_read, 1, SFA_ERRNO, parg); sf_plan(SF_readv, 1, SFA_ERRNO, parg);
	} else if (plan == 6) {
		sf_plan(SF_read, 1, SFA_ZERO, 0); sf_plan(SF_readv, 1, SFA_ZERO, 0);
	}
	if (vh_chance(r, 1, 14)) { frozen = 1; evbuffer_freeze(m->eb, 0); }
	if (howmuch == 0 && !frozen) {
		/* a request for 0 bytes when the chain that holds the last data is full and is the
		 * last chain: probed in a child process first (asserts in the current tree) */
		struct evbuffer_chain *lc = *m->eb->last_with_datap;
		vh_stat("reads_of_0_bytes");
		if (lc && lc == m->eb->last && !(lc->flags & EVBUFFER_IMMUTABLE) &&
		    lc->buffer_len - (size_t)lc->misalign - lc->off == 0) {
			static int known_sig = -1;
			struct probe_arg pa = { m->eb, NULL, rd_fd, 0 };
			int sig;
			vh_stat("reads_of_0_bytes_into_full_last_chain");
			sig = known_sig > 0 ? known_sig : probe_crashes(probe_fn_read0, &pa);
			if (sig) {
				if (known_sig <= 0)
					VIOLC("read-howmuch-0-on-full-last-chain:crash",
					    "evbuffer_read(buf, fd, 0) on a buffer of %zu bytes whose last chain has no room left: child process died with %s %d",
					    m->len, sig >= 1000 ? "exit status" : "signal", sig >= 1000 ? sig - 1000 : sig);
				known_sig = sig;
				sf_reset();
				return;
			}
		}
	}
	hmix(24, b, howmuch, plan * 1000003L + parg + ioplan * 7919L + ioarg);
	TRACE("read b%d howmuch=%ld avail=%zu plan=%d arg=%ld fionread-plan=%d arg=%ld frozen=%d len=%zu", b, howmuch, avail, plan, parg, ioplan, ioarg, frozen, m->len);
	ncalls = 0;
	ret = evbuffer_read(m->eb, rd_fd, (int)howmuch);
	if (frozen) evbuffer_unfreeze(m->eb, 0);
	sf_reset();
	for (i = 0; i < ncalls; i++) {
		struct call *c = &calls[i];
		if (c->sym != SF_read && c->sym != SF_readv) continue;
		nd++; last = c;
		if (c->res > 0) produced += (size_t)c->res;
		if (c->res >= 0 && c->res < c->req) vh_stat("short_reads_seen");
		if (c->res < 0) vh_stat("read_errors_seen");
		if (c->res == 0 && c->req > 0) vh_stat("read_eof_seen");
		vh_stat(c->sym == SF_readv ? "sys_readv" : "sys_read");
	}
	if (frozen) {
		vh_stat("read_on_frozen_end");
		if (ret != -1 || produced) { VIOL("read-frozen", "read into an end-frozen buffer: ret %d, %zu bytes taken from the fd", ret, produced); return; }
	}
	if (ret > 0) {
		if ((size_t)ret != produced) { VIOL("read-return-mismatch", "evbuffer_read returned %d but %s produced %zu bytes", ret, last ? symname(last->sym) : "no syscall", produced); return; }
		/* documented: howmuch is the number of bytes to be read */
		if (howmuch >= 0 && ret > howmuch) { VIOLC("read-more-than-howmuch", "evbuffer_read(howmuch %ld) appended %d bytes", howmuch, ret); }
		vh_stat("reads_ok");
	} else {
		if (produced) { VIOL("read-lost-bytes", "evbuffer_read returned %d although %s delivered %zu bytes", ret, last ? symname(last->sym) : "?", produced); return; }
		if (ret < -1) { VIOL("read-return-mismatch", "evbuffer_read returned %d", ret); return; }
		if (last && ret != (int)last->res) { VIOL("read-return-mismatch", "evbuffer_read returned %d, %s returned %ld", ret, symname(last->sym), last->res); return; }
		vh_stat(ret == 0 ? "reads_returned_0" : "reads_failed");
	}
	/* the bytes the kernel handed out are the next `produced` bytes of the far end's stream */
	d = scratch_get(produced);
	for (k = 0; k < produced; k++) d[k] = stream_byte(consumed + k);
	{
		/* scratch is reused by post_op: append through a private copy */
		unsigned char *cp = malloc(produced ? produced : 1);
		memcpy(cp, d, produced);
		mb_append(m, cp, produced, -1);
		free(cp);
	}
	consumed += produced;
	if (m->flagged || !mb_readable(m)) vh_stat("reads_into_unreadable_buffer");
	vh_stat("op_read");
	post_op(ret > 0 ? "read" : "read_failed");
}

/* ------------------------------------------------------------------ sockio: many-chain shapes */
static void op_add_chain_copy(vh_rng *r)
{
	/* a separate chain of copied bytes: filled in a scratch evbuffer and moved in whole */
	int b = pick_live(r);
	struct mbuf *m = &B[b];
	size_t n = size_pick(r);
	unsigned char *d;
	struct evbuffer *tmp;
	if (!n || m->len + n > MAXLEN) return;
	d = rand_bytes(r, n);
	tmp = evbuffer_new();
	evbuffer_add(tmp, d, n);
	if (evbuffer_add_buffer(m->eb, tmp) != 0) { evbuffer_free(tmp); VIOL("move-failed", "add_buffer of a scratch buffer failed"); return; }
	evbuffer_free(tmp);
	mb_append(m, d, n, -1);
	hmix(30, b, (long)n, 0);
}
static void op_build(vh_rng *r)
{
	int b = (int)vh_below(r, NBUF), i, n, sb = small_bias;
	switch (vh_below(r, 6)) {
	case 0: n = (int)vh_range(r, 120, 200); break;   /* beyond the 128-entry write iovec */
	case 1: n = (int)vh_range(r, 20, 130); break;
	default: n = (int)vh_range(r, 1, 12); break;
	}
	TRACE("build %d chains on b%d", n, b);
	force_buf = b;
	small_bias = 1;
	suppress_post = 1;
	for (i = 0; i < n && !case_broken; i++) {
		switch (vh_below(r, 8)) {
		case 0: case 1: case 2: op_add_chain_copy(r); break;
		case 3: case 4: op_add_ref(r); break;
		case 5: case 6: op_seg_add(r); break;
		default: op_add_copy(r); break;
		}
	}
	small_bias = sb;
	force_buf = -1;
	suppress_post = 0;
	vh_stat("op_build");
	vh_stat_add("chains_built", n);
	if (!case_broken) post_op("build");
}

/* ------------------------------------------------------------------ case driver */
static void flush_all(int b)
{
	/* write a buffer out completely and compare at the far end (only way to see
	 * the bytes of DRAINS_TO_FD buffers and sendfile chains) */
	struct mbuf *m = &B[b];
	int guard = 0;
	while (m->len && !case_broken && guard++ < 10000) {
		size_t far, before = m->len;
		int ret;
		ncalls = 0;
		ret = evbuffer_write(m->eb, wr_fd);
		far = drain_peer();
		if (ret <= 0 && !far) { VIOL("final-flush-stalled", "evbuffer_write of %zu remaining bytes returned %d (errno %d)", before, ret, errno); return; }
		if (ret < 0) ret = 0;
		if ((size_t)ret != far || far > m->len || (far && memcmp(farbuf, m->by, far))) {
			VIOL("write-farend-mismatch", "final flush: write returned %d, far end received %zu, first difference at %zu", ret, far, first_diff(farbuf, m->by, far < m->len ? far : m->len));
			return;
		}
		mb_drop_front(m, far);
		vh_stat("flush_writes");
		post_op("flush");
	}
}

/* directed preamble: source and destination of an add_buffer_reference both
 * get more data and are both pulled up, so chains shared between two buffers
 * are the first chain of a pullup that needs room */
static void scenario_shared_pullup(vh_rng *r)
{
	int s, d, i;
	size_t n0 = (size_t)vh_range(r, 1, 200), n1 = (size_t)vh_range(r, 1, 100), n2 = (size_t)vh_range(r, 1, 100);
	unsigned char *p;
	pick_two(r, &d, &s);
	/* on two fresh buffers */
	for (i = 0; i < 2; i++) {
		struct mbuf *m = &B[i ? d : s];
		m->live = 0; m->len = 0; m->mc_touched = 0;
		evbuffer_free(m->eb);
		post_op("free");
		if (case_broken) { m->eb = NULL; return; }
		buf_new(r, i ? d : s);
	}
	TRACE("scenario shared-pullup src=b%d dst=b%d n=%zu/%zu/%zu", s, d, n0, n1, n2);
	hmix(40, s, d, (long)(n0 * 1000000 + n1 * 1000 + n2));
	p = rand_bytes(r, n0);
	if (evbuffer_add(B[s].eb, p, n0)) return;
	mb_append(&B[s], p, n0, -1);
	if (evbuffer_add_buffer_reference(B[d].eb, B[s].eb)) return;
	{ int ni = inst_new(-1, 1, 0, 0); I[ni].mc = 1; mb_append(&B[d], B[s].by, n0, ni); }
	B[s].mc_touched = B[d].mc_touched = 1;
	post_op("scenario:add_buffer_reference");
	p = rand_bytes(r, n1);
	if (evbuffer_add(B[s].eb, p, n1)) return;
	mb_append(&B[s], p, n1, -1);
	p = rand_bytes(r, n2);
	if (evbuffer_add(B[d].eb, p, n2)) return;
	mb_append(&B[d], p, n2, -1);
	post_op("scenario:add");
	for (i = 0; i < 2 && !case_broken; i++) {
		struct mbuf *m = (i == 0) == vh_chance(r, 1, 2) ? &B[s] : &B[d];
		size_t k;
		unsigned char *q = evbuffer_pullup(m->eb, -1);
		if (!q || memcmp(q, m->by, m->len)) { VIOL("content-mismatch:pullup-result", "scenario: pullup(-1) result differs"); return; }
		for (k = 0; k < m->len; k++) m->in[k] = -1;
		vh_stat("pullup_on_shared_chains");
		post_op("pullup-with-shared-chains");
	}
	vh_stat("scenario_shared_pullup");
}

typedef void (*opfn)(vh_rng *);
static void w_write_plain(vh_rng *r) { op_write(r, 0); }
static void w_write_faults(vh_rng *r) { op_write(r, 1); }
struct wop { opfn fn; int w_refs, w_sockio; };
static const struct wop OPS[] = {
	{ op_add_copy,             10,  5 },
	{ op_add_ref,              12,  3 },
	{ op_add_ref_frozen,        1,  0 },
	{ op_seg_new,               5,  2 },
	{ op_seg_add,              10,  3 },
	{ op_seg_add_fail,          1,  0 },
	{ op_seg_free,              4,  1 },
	{ op_add_file,              2,  1 },
	{ op_add_buffer,            6,  2 },
	{ op_remove_buffer,         6,  1 },
	{ op_add_buffer_reference,  8,  2 },
	{ op_drain,                 8,  4 },
	{ op_copyout,               4,  0 },
	{ op_remove,                5,  2 },
	{ op_pullup,                8,  0 },
	{ op_peek,                  2,  0 },
	{ op_free_renew,            3,  1 },
	{ w_write_plain,            9,  0 },
	{ w_write_faults,           0, 26 },
	{ op_build,                 0,  9 },
	{ op_feed,                  0, 10 },
	{ op_read,                  0, 26 },
	{ op_set_max_read,          0,  3 },
	{ op_eof,                   0,  1 },
};
#define NOPS ((int)(sizeof(OPS) / sizeof(OPS[0])))

static void run_case(vh_rng *r)
{
	int i, b, nops, wsum = 0, order[NBUF + 64], norder = 0;
	case_broken = 0; case_hash = 0;
	nobj = 0; ninst = 0;
	stream_seed = vh_rand(r);
	allow_mc_pullup = !mode_sockio && vh_chance(r, 1, 4);
	small_bias = 0;
	chan_open(r);
	for (b = 0; b < NBUF; b++) buf_new(r, b);
	for (i = 0; i < NOPS; i++) wsum += mode_sockio ? OPS[i].w_sockio : OPS[i].w_refs;
	nops = (int)vh_range(r, 8, vh_opt.thorough ? 120 : 70);
	if (verbose) fprintf(stderr, "case %ld: %d ops, mc_pullup=%d pipe=%d\n", vh_cur_case, nops, allow_mc_pullup, chan_is_pipe);
	case_end = 0;
	for (i = 0; i < nops && !case_broken && !case_end; i++) {
		int k = (int)vh_below(r, (uint64_t)wsum), j;
		for (j = 0; j < NOPS; j++) {
			int w = mode_sockio ? OPS[j].w_sockio : OPS[j].w_refs;
			if (k < w) break;
			k -= w;
		}
		OPS[j].fn(r);
	}
	if (allow_mc_pullup && !case_end && !case_broken && vh_chance(r, 2, 3)) scenario_shared_pullup(r);
	/* sockio: what the library did not read must still be in the stream, in order */
	if (mode_sockio && !case_broken) {
		size_t left = fed - consumed, got = 0;
		unsigned char *s = scratch_get(left + 1);
		for (;;) {
			ssize_t k = __real_read(rd_fd, s + got, left + 1 - got);
			if (k <= 0) break;
			got += (size_t)k;
			if (got > left) break;
		}
		if (got != left) VIOL("read-stream-position", "fd holds %zu unread bytes, expected %zu (fed %zu, appended %zu)", got, left, fed, consumed);
		else for (i = 0; (size_t)i < left; i++) if (s[i] != stream_byte(consumed + (size_t)i)) { VIOL("read-stream-position", "unread stream differs at %d", i); break; }
	}
	/* unreadable buffers: see their bytes at the far end */
	for (b = 0; b < NBUF && !case_broken; b++)
		if (B[b].live && B[b].len && (!mb_readable(&B[b]) || vh_chance(r, 1, 4))) flush_all(b);
	/* teardown in random order: buffers and segment handles */
	for (b = 0; b < NBUF; b++) order[norder++] = b;
	for (i = 0; i < nobj && norder < NBUF + 64; i++) if (O[i]->kind == O_SEG && O[i]->held) order[norder++] = NBUF + i;
	for (i = norder - 1; i > 0; i--) { int j = (int)vh_below(r, (uint64_t)i + 1), t = order[i]; order[i] = order[j]; order[j] = t; }
	for (i = 0; i < norder; i++) {
		if (order[i] < NBUF) {
			struct mbuf *m = &B[order[i]];
			if (!m->eb) continue;
			TRACE("teardown: free b%d (%zu bytes)", order[i], m->len);
			m->live = 0; m->len = 0;
			evbuffer_free(m->eb); m->eb = NULL;
			post_op("free_at_end");
		} else {
			struct obj *o = O[order[i] - NBUF];
			TRACE("teardown: release segment obj%d", o->idx);
			o->held = 0;
			evbuffer_file_segment_free(o->seg);
			post_op("segment_free_at_end");
		}
	}
	/* any handles beyond the first 64 */
	for (i = 0; i < nobj; i++) if (O[i]->kind == O_SEG && O[i]->held) { O[i]->held = 0; evbuffer_file_segment_free(O[i]->seg); post_op("segment_free_at_end"); }
	/* exactly once, by now */
	for (i = 0; i < nobj; i++) {
		struct obj *o = O[i];
		if (o->kind == O_REF && o->has_cb && o->ncleanup != 1 && !case_broken)
			VIOLC(o->ncleanup ? "cleanup-twice" : "cleanup-missing:reference", "reference #%d (len %zu): cleanup ran %d times after every buffer was freed", i, o->dlen, o->ncleanup);
		if (o->kind == O_SEG && o->ncleanup != 1 && !case_broken)
			VIOLC(o->ncleanup ? "cleanup-twice" : "cleanup-missing:segment", "segment #%d (flags %#x, added %d times): cleanup ran %d times after all buffers and the handle were released", i, o->flags, o->nadds, o->ncleanup);
		if (o->kind == O_FILE && o->nclose != 1 && !case_broken)
			VIOLC(o->nclose ? "cleanup-twice" : "cleanup-missing:add_file-fd", "evbuffer_add_file #%d: its fd was closed %d times after all buffers were freed", i, o->nclose);
		if (o->kind == O_REF) {
			if (o->base && !o->romap && o->pristine && memcmp(o->base, o->pristine, o->total) && !case_broken)
				VIOLC("referenced-memory-modified", "reference block #%d modified in place", i);
			if (o->base && (!o->has_cb || o->ncleanup == 0)) ref_discard(o);
			free(o->pristine);
			if (o->dlen && o->ncleanup == 1) vh_stat("refs_cleaned_exactly_once");
		} else {
			if (o->fd >= 0) { __real_close(o->fd); o->fd = -1; }
			if (o->kind == O_SEG && o->ncleanup == 1) vh_stat("segs_cleaned_exactly_once");
		}
		free(o);
	}
	chan_close();
	vh_stat("cases");
	if (case_broken) vh_stat("cases_aborted_on_violation");
	else if (nobj >= 2 || mode_sockio) vh_distinct(case_hash);
	vh_sample(2, "{\"mode\":\"%s\",\"case\":%ld,\"ops\":%d,\"objects\":%d,\"chain_instances\":%d,\"fed\":%zu,\"appended\":%zu,\"pipe\":%d}",
	    mode_sockio ? "sockio" : "refs", vh_cur_case, nops, nobj, ninst, fed, consumed, chan_is_pipe);
}

int main(int argc, char **argv)
{
	long idx; vh_rng r;
	int b;
	vh_init(argc, argv);
	verbose = vh_opt.verbose;
	mode_sockio = vh_opt.mode && !strcmp(vh_opt.mode, "sockio");
	PFX = mode_sockio ? "C16" : "C15";
	use_locks = vh_opt.n1 == 1;
	if (vh_opt.thorough) MAXLEN = 1536 * 1024;
	event_set_log_callback(logcb);
	if (use_locks) lm_install();
	files_init();
	sf_observer = observer;
	sf_fd_filter = my_fd;
	for (b = 0; b < NBUF; b++) mb_reserve(&B[b], 1);
	while (vh_next_case(&idx, &r)) run_case(&r);
	sf_observer = NULL;
	files_fini();
	for (b = 0; b < NBUF; b++) { free(B[b].by); free(B[b].in); }
	free(O); free(I); free(scratch); free(farbuf); free(depcnt);
	libevent_global_shutdown();
	vh_finish();
	return 0;
}
