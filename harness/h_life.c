/* C10: objects are finalized exactly once and never used after release.
 *
 * One case = one bounded history on a fresh base (virtual clock, single
 * thread): create 2..6 objects (events with/without finalizers, once-events,
 * socket / pair / filter bufferevents, evbuffers with immediate or deferred
 * callbacks, listeners), then a script of TRIGGER / STEP / RELEASE actions,
 * where a release happens directly, from inside the object's own callback, or
 * from inside another object's callback; then one of three endings (release
 * everything and run the loop dry; release everything and free the base at
 * once so finalizers run inside event_base_free; free the base while
 * once-events are still pending).  `--mode enum` enumerates (graph, target,
 * release point, context, ending) for six fixed object graphs.
 *
 * Oracle (harness-side bookkeeping only):
 *   - no callback entry of an object after the call that released it returned;
 *   - finalizers (event_finalize / event_free_finalize callbacks, filter
 *     free_context) exactly once, never while a callback of the object runs,
 *     and no callback after them;
 *   - once-callbacks at most once; exactly once when the loop ran past their
 *     deadline; never after event_base_free;
 *   - fds owned by the library (CLOSE_ON_FREE) closed exactly once;
 *   - after event_base_free: memfault live blocks and /proc/self/fd back to
 *     the values before the case; at exit, after libevent_global_shutdown, no
 *     live block at all (LSan agrees at exit).
 */
#include "vh.h"
#include <unistd.h>
#include <fcntl.h>
#include <errno.h>
#include <dirent.h>
#include <sys/socket.h>
#include <netinet/in.h>
#include <event2/event.h>
#include <event2/thread.h>
#include <event2/buffer.h>
#include <event2/bufferevent.h>
#include <event2/listener.h>
#include <event2/util.h>

int __real_close(int);
ssize_t __real_write(int, const void *, size_t);
ssize_t __real_read(int, void *, size_t);
ssize_t __real_recv(int, void *, size_t, int);
int __real_socket(int, int, int);
int __real_connect(int, const struct sockaddr *, socklen_t);

/* ---- allocation monitor of this harness: like common/memfault.c (live-block census, exactly-once free) plus a
 * tag naming the object on whose behalf the block was allocated, so that a block that survives the case can be
 * attributed to an object type (specific violation keys). */
#define AH_MAGIC 0x6c696665a110c8edULL
struct ah { uint64_t magic; size_t size; int tag; long serial; struct ah *prev, *next; };
static struct ah live_head = { 0, 0, 0, 0, &live_head, &live_head };
static long a_live, a_bytes, case_serial;
static int cur_tag = -1;
static void *a_malloc(size_t sz)
{
	struct ah *h = malloc(sizeof(*h) + sz);
	if (!h) return NULL;
	h->magic = AH_MAGIC; h->size = sz; h->tag = cur_tag; h->serial = case_serial;
	h->next = live_head.next; h->prev = &live_head; live_head.next->prev = h; live_head.next = h;
	a_live++; a_bytes += (long)sz;
	return h + 1;
}
/* freed blocks sit in a small quarantine with their payload poisoned (ASan) and their header readable, so that a
 * second free of the same block is a clean verdict instead of a crash inside this allocator */
#include <sanitizer/asan_interface.h>
#define AH_FREED 0x6c696665dead0000ULL
#define QUAR 1024
static struct ah *quar[QUAR]; static int quar_pos;
static void a_free(void *p)
{
	struct ah *h;
	if (!p) return;
	h = (struct ah *)p - 1;
	if (h->magic == AH_FREED) { vh_viol("C10:double-free:process", "library freed the same block twice (%zu bytes, allocated on behalf of object %d)", h->size, h->tag); return; }
	if (h->magic != AH_MAGIC) { vh_viol("C10:bad-free:process", "free of pointer %p that is not a live library allocation", p); return; }
	h->magic = AH_FREED; h->prev->next = h->next; h->next->prev = h->prev;
	a_live--; a_bytes -= (long)h->size;
	ASAN_POISON_MEMORY_REGION(h + 1, h->size);
	if (quar[quar_pos]) { struct ah *old = quar[quar_pos]; ASAN_UNPOISON_MEMORY_REGION(old + 1, old->size); old->magic = 0; free(old); }
	quar[quar_pos] = h; quar_pos = (quar_pos + 1) % QUAR;
}
static void *a_realloc(void *p, size_t sz)
{
	struct ah *h; void *n;
	if (!p) return a_malloc(sz);
	if (!sz) { a_free(p); return NULL; }
	h = (struct ah *)p - 1;
	n = a_malloc(sz);               /* always moves: stale pointers die under ASan */
	if (!n) return NULL;
	memcpy(n, p, h->size < sz ? h->size : sz);
	a_free(p);
	return n;
}

/* results live in memory shared with the parent process (a child that crashes keeps what it counted) */
#include <sys/mman.h>
#include <sys/wait.h>
#include <sys/prctl.h>
#include <signal.h>
#define SH_MAXSTAT 64
#define SH_MAXHASH 60000
struct shared { volatile long cur, done; struct { char name[48]; long n; } stats[SH_MAXSTAT]; long nh; uint64_t hashes[SH_MAXHASH]; };
static struct shared *sh;
static void xs_add(const char *name, long n)
{
	int i;
	for (i = 0; i < SH_MAXSTAT && sh->stats[i].name[0]; i++)
		if (!strcmp(sh->stats[i].name, name)) { sh->stats[i].n += n; return; }
	if (i < SH_MAXSTAT) { snprintf(sh->stats[i].name, sizeof(sh->stats[i].name), "%s", name); sh->stats[i].n = n; }
}
#define xs(name) xs_add((name), 1)

enum { T_EVENT, T_ONCE, T_BEV_SOCK, T_BEV_PAIR, T_BEV_FILTER, T_EVBUF, T_LISTENER, T__N };
static const char *const tname[] = { "event", "once", "bev-socket", "bev-pair", "bev-filter", "evbuffer", "listener" };
enum { EK_TIMER, EK_USER, EK_IO, EK_SIG };
enum { REL_FREE, REL_FINALIZE, REL_FREE_FINALIZE };
enum { CTX_DIRECT, CTX_SELF, CTX_OTHER };
enum { END_CLEAN, END_BASEFREE_PENDING, END_BASE_FIRST, END__N };
#define MAXOBJ 8
#define MAXARM 4

struct obj {
	int type, id, variant, persist, relmode, defer, threadsafe, close_on_free;
	int alive;          /* created and release not yet called */
	int releasing, released;
	int in_cb;
	long cb_count, cb_during_release;
	int want_fin, fin_count, fin_seen_in_cb;
	long once_deadline_ms; int once_fd_kind, once_failed;
	struct event *ev;
	struct bufferevent *bev, *under;      /* filter: under = underlying */
	struct obj *partner;
	struct evbuffer *eb; struct evbuffer_cb_entry *ebe;
	struct evconnlistener *lis; int port;
	int sp[2];          /* sp[0] library side, sp[1] harness peer */
	int libfd;          /* fd owned by the library (CLOSE_ON_FREE) or -1 */
	int libfd_closes;
	int arm[MAXARM], narm, arm_delay;   /* ids to release when one of my callbacks runs next */
	int freectx_count;
	int saved_tag[4];
};
static struct obj O[MAXOBJ];
static const char *end_class = "";   /* "", ":quiescent" or ":finalization-pending-at-base-free" for end-of-case verdicts */
static int nobj;
static struct event_base *base;
static int base_freed;
static long n_cb_total, n_fin_total, n_release_direct, n_release_self, n_release_other, n_cb_during_release;
static int clients[64], nclients;
static int quiet_run;
/* Two patterns make the unchanged library touch freed memory (ASan abort = one dead child process, seconds of
 * symbolisation): freeing the storage of an event_finalize()d event inside its finalizer when that runs in
 * event_base_free(), and evbuffer_free() inside the buffer's own immediate callback.  They are generated in every
 * 8th case only (still dozens of times per quick run); elsewhere the storage is freed after event_base_free and
 * immediate-callback evbuffers are not released from their own callback. */
static int risky_case;
static void *deferred_free[MAXOBJ]; static int ndeferred_free;
static char script[900];
static size_t script_len;

static void sc(const char *fmt, ...)
{
	va_list ap;
	if (script_len + 40 >= sizeof(script)) return;
	va_start(ap, fmt);
	script_len += (size_t)vsnprintf(script + script_len, sizeof(script) - script_len, fmt, ap);
	va_end(ap);
}
static void violation(const char *rule, struct obj *o, const char *fmt, ...)
{
	char key[96], buf[400]; va_list ap;
	if (quiet_run) return;
	va_start(ap, fmt); vsnprintf(buf, sizeof(buf), fmt, ap); va_end(ap);
	snprintf(key, sizeof(key), "C10:%s:%s%s%s", rule, o ? tname[o->type] : "process", o && o->type == T_EVBUF && o->defer ? "-deferred" : "", end_class);
	vh_viol(key, "%s | history: %s", buf, script);
}

static void release_obj(struct obj *o, int ctx);

/* common entry/exit of every user callback of an object */
static int cb_enter(struct obj *o, const char *which)
{
	n_cb_total++;
	o->saved_tag[o->in_cb < 3 ? o->in_cb : 3] = cur_tag; cur_tag = o->id;
	if (base_freed && !(o->type == T_EVBUF && !o->defer)) violation("callback-after-base-free", o, "object %d (%s): %s callback ran after event_base_free returned", o->id, tname[o->type], which);
	if (o->released) { violation("callback-after-release", o, "object %d (%s): %s callback ran after the releasing call had returned", o->id, tname[o->type], which); }
	else if (o->releasing) { o->cb_during_release++; n_cb_during_release++; }
	if (o->fin_count > 0) violation("callback-after-finalizer", o, "object %d (%s): %s callback ran after its finalizer", o->id, tname[o->type], which);
	o->cb_count++;
	o->in_cb++;
	return 1;
}
static void cb_leave(struct obj *o)
{
	int i, n = o->narm, ids[MAXARM];
	/* releases armed on this callback (self or others) */
	if (n && o->arm_delay > 0) { o->arm_delay--; o->in_cb--; return; }   /* signal events: release on a later delivery of the same activation */
	memcpy(ids, o->arm, sizeof(ids)); o->narm = 0;
	for (i = 0; i < n; i++) {
		struct obj *t = &O[ids[i]];
		if (t->alive) release_obj(t, t == o ? CTX_SELF : CTX_OTHER);
	}
	o->in_cb--;
}
static void finalizer_seen(struct obj *o, const char *what)
{
	n_fin_total++;
	o->fin_count++;
	if (o->fin_count > 1) violation("finalizer-twice", o, "object %d (%s): %s ran %d times", o->id, tname[o->type], what, o->fin_count);
	if (o->in_cb) { o->fin_seen_in_cb = 1; violation("finalizer-during-callback", o, "object %d (%s): %s ran while a callback of the object was still executing", o->id, tname[o->type], what); }
	if (!o->releasing && !o->released) violation("finalizer-before-release", o, "object %d (%s): %s ran although the object was never released", o->id, tname[o->type], what);
}

/* ---- events */
static void ev_cb(evutil_socket_t fd, short what, void *arg)
{
	struct obj *o = arg; char b[16];
	cb_enter(o, "event");
	if (o->variant == EK_IO && (what & EV_READ)) (void)__real_recv(fd, b, sizeof(b), MSG_DONTWAIT);
	cb_leave(o);
}
static void ev_fin(struct event *ev, void *arg)
{
	struct obj *o = arg;
	finalizer_seen(o, "event finalizer");
	if (o->relmode == REL_FINALIZE) { if (risky_case || ndeferred_free >= MAXOBJ) free(ev); else deferred_free[ndeferred_free++] = ev; }   /* event_finalize(): the storage is the caller's (event_assign on malloc'ed memory) */
}
static void once_cb(evutil_socket_t fd, short what, void *arg)
{
	struct obj *o = arg; (void)fd; (void)what;
	cb_enter(o, "once");
	if (o->cb_count > 1) violation("once-twice", o, "object %d: event_base_once callback ran %ld times", o->id, o->cb_count);
	cb_leave(o);
}
/* ---- bufferevents */
static void bev_rd(struct bufferevent *b, void *arg) { struct obj *o = arg; cb_enter(o, "read"); evbuffer_drain(bufferevent_get_input(b), 1 << 20); cb_leave(o); }
static void bev_wr(struct bufferevent *b, void *arg) { struct obj *o = arg; (void)b; cb_enter(o, "write"); cb_leave(o); }
static void bev_evt(struct bufferevent *b, short what, void *arg) { struct obj *o = arg; (void)b; (void)what; cb_enter(o, "event"); cb_leave(o); }
static void bev_inbuf_cb(struct evbuffer *b, const struct evbuffer_cb_info *i, void *arg) { struct obj *o = arg; (void)b; (void)i; cb_enter(o, "input-evbuffer"); o->in_cb--; cur_tag = o->saved_tag[o->in_cb < 3 ? o->in_cb : 3]; /* no releases from here: the bufferevent holds its lock */ }
static enum bufferevent_filter_result filt(struct evbuffer *src, struct evbuffer *dst, ev_ssize_t lim, enum bufferevent_flush_mode m, void *ctx)
{
	struct obj *o = ctx; (void)lim; (void)m;
	if (o->freectx_count > 0) violation("callback-after-finalizer", o, "object %d (bev-filter): filter function called after free_context", o->id);
	if (base_freed && !(o->type == T_EVBUF && !o->defer)) violation("callback-after-base-free", o, "object %d (bev-filter): filter function called after event_base_free", o->id);
	if (evbuffer_get_length(src) == 0) return BEV_NEED_MORE;
	evbuffer_add_buffer(dst, src);
	return BEV_OK;
}
static void filt_free(void *ctx)
{
	struct obj *o = ctx;
	o->freectx_count++;
	finalizer_seen(o, "filter free_context");
}
/* ---- evbuffer */
static void eb_cb(struct evbuffer *b, const struct evbuffer_cb_info *i, void *arg) { struct obj *o = arg; (void)b; (void)i; cb_enter(o, "evbuffer"); cb_leave(o); }
/* ---- listener */
static void lis_cb(struct evconnlistener *l, evutil_socket_t fd, struct sockaddr *sa, int slen, void *arg)
{ struct obj *o = arg; (void)l; (void)sa; (void)slen; cb_enter(o, "accept"); __real_close(fd); cb_leave(o); }
static void lis_err(struct evconnlistener *l, void *arg) { struct obj *o = arg; (void)l; cb_enter(o, "accept-error"); cb_leave(o); }

/* close() observer: fds the library owns must be closed exactly once */
static void close_obs(int sym, int fd, long req, long res)
{
	int i;
	(void)req;
	if (sym != SF_close || res != 0) return;
	for (i = 0; i < nobj; i++) if (O[i].libfd == fd && fd >= 0) {
		O[i].libfd_closes++;
		if (!O[i].releasing && !O[i].released) violation("fd-closed-before-release", &O[i], "object %d (%s): its fd %d was closed before the object was released", i, tname[O[i].type], fd);
		O[i].libfd = -2 - fd; /* closed: a recycled number is a different fd */
	}
}

/* ------------------------------------------------------------------ creation */
static int lo_connect(int port)
{
	struct sockaddr_in sin; int fd = __real_socket(AF_INET, SOCK_STREAM | SOCK_NONBLOCK, 0);
	memset(&sin, 0, sizeof(sin)); sin.sin_family = AF_INET; sin.sin_addr.s_addr = htonl(0x7f000001); sin.sin_port = htons(port);
	(void)__real_connect(fd, (struct sockaddr *)&sin, sizeof(sin));
	return fd;
}
static void mksp(struct obj *o)
{
	evutil_socketpair(AF_UNIX, SOCK_STREAM, 0, o->sp);
	evutil_make_socket_nonblocking(o->sp[0]); evutil_make_socket_nonblocking(o->sp[1]);
}
static int bopts(struct obj *o) { return (o->defer ? BEV_OPT_DEFER_CALLBACKS : 0) | (o->threadsafe ? BEV_OPT_THREADSAFE : 0); }

static struct obj *new_obj(int type, vh_rng *r)
{
	struct obj *o = &O[nobj];
	memset(o, 0, sizeof(*o));
	o->id = nobj++; o->type = type; o->alive = 1; o->sp[0] = o->sp[1] = -1; o->libfd = -1;
	o->defer = (int)vh_below(r, 2); o->threadsafe = (int)vh_below(r, 2);
	return o;
}
static void create(int type, vh_rng *r)
{
	struct obj *o;
	if (nobj >= MAXOBJ - 1) return;
	o = new_obj(type, r);
	cur_tag = o->id;
	switch (type) {
	case T_EVENT:
		o->variant = (int)vh_below(r, 4); o->persist = (int)vh_below(r, 2); o->relmode = (int)vh_below(r, 3);
		o->want_fin = o->relmode != REL_FREE;
		if (o->variant == EK_IO) mksp(o);
		{
			short fl = (short)((o->variant == EK_IO ? EV_READ : o->variant == EK_SIG ? EV_SIGNAL : 0) | (o->persist ? EV_PERSIST : 0) | (o->want_fin && vh_chance(r, 1, 2) ? EV_FINALIZE : 0));
			if (o->relmode == REL_FINALIZE) { o->ev = malloc(event_get_struct_event_size()); event_assign(o->ev, base, o->variant == EK_IO ? o->sp[0] : o->variant == EK_SIG ? SIGUSR1 : -1, fl, ev_cb, o); }
			else o->ev = event_new(base, o->variant == EK_IO ? o->sp[0] : o->variant == EK_SIG ? SIGUSR1 : -1, fl, ev_cb, o);
		}
		if (vh_chance(r, 1, 3)) event_priority_set(o->ev, 0);
		sc("E%d(%s%s,rel%d) ", o->id, o->variant == EK_TIMER ? "tmr" : o->variant == EK_USER ? "usr" : o->variant == EK_SIG ? "sig" : "io", o->persist ? "+p" : "", o->relmode);
		break;
	case T_ONCE: {
		struct timeval tv; long ms = (long)vh_below(r, 30);
		o->once_fd_kind = (int)vh_below(r, 4);
		tv.tv_sec = 0; tv.tv_usec = ms * 1000;
		o->once_deadline_ms = ms;
		if (o->once_fd_kind == 3 && strcmp(event_base_get_method(base), "epoll")) o->once_fd_kind = 1;   /* poll reports POLLNVAL as readiness, select fails the whole wait */
		if (o->once_fd_kind == 3) {
			/* a call that fails: the fd number is not open, epoll refuses it (poll/select accept it; the event then
			 * simply never fires and goes with the base).  Either way nothing may be left behind or freed twice. */
			int rc = event_base_once(base, 997, EV_READ, once_cb, o, NULL);
			xs(rc ? "once_refused" : "once_on_closed_fd_accepted");
			o->once_failed = 1; o->alive = 0;
			sc("O%d(badfd:%d) ", o->id, rc);
			break;
		}
		if (o->once_fd_kind == 2) { mksp(o); (void)__real_write(o->sp[1], "o", 1); event_base_once(base, o->sp[0], EV_READ, once_cb, o, NULL); o->once_deadline_ms = 0; }
		else event_base_once(base, -1, EV_TIMEOUT, once_cb, o, o->once_fd_kind == 1 ? NULL : &tv);
		if (o->once_fd_kind == 1) o->once_deadline_ms = 0;
		o->alive = 0; /* cannot be released by the user */
		sc("O%d(%ldms) ", o->id, o->once_deadline_ms);
		break; }
	case T_BEV_SOCK:
		mksp(o); o->close_on_free = (int)vh_below(r, 2);
		o->bev = bufferevent_socket_new(base, o->sp[0], bopts(o) | (o->close_on_free ? BEV_OPT_CLOSE_ON_FREE : 0));
		if (o->close_on_free) o->libfd = o->sp[0];
		bufferevent_setcb(o->bev, bev_rd, bev_wr, bev_evt, o);
		if (vh_chance(r, 1, 2)) evbuffer_add_cb(bufferevent_get_input(o->bev), bev_inbuf_cb, o);
		bufferevent_enable(o->bev, EV_READ | EV_WRITE);
		sc("S%d(%s%s) ", o->id, o->defer ? "defer" : "imm", o->close_on_free ? ",cof" : "");
		break;
	case T_BEV_PAIR: {
		struct bufferevent *p[2]; struct obj *o2;
		if (bufferevent_pair_new(base, bopts(o), p) != 0) { nobj--; cur_tag = -1; return; }
		o2 = new_obj(T_BEV_PAIR, r);
		o->bev = p[0]; o2->bev = p[1]; o->partner = o2; o2->partner = o;
		bufferevent_setcb(o->bev, bev_rd, bev_wr, bev_evt, o); bufferevent_setcb(o2->bev, bev_rd, bev_wr, bev_evt, o2);
		bufferevent_enable(o->bev, EV_READ | EV_WRITE); bufferevent_enable(o2->bev, EV_READ | EV_WRITE);
		sc("P%d/%d ", o->id, o2->id);
		break; }
	case T_BEV_FILTER:
		mksp(o); o->close_on_free = (int)vh_below(r, 2); o->want_fin = 1;
		o->under = bufferevent_socket_new(base, o->sp[0], bopts(o) | BEV_OPT_CLOSE_ON_FREE);
		o->libfd = o->sp[0];
		o->bev = bufferevent_filter_new(o->under, filt, filt, bopts(o) | (o->close_on_free ? BEV_OPT_CLOSE_ON_FREE : 0), filt_free, o);
		bufferevent_setcb(o->bev, bev_rd, bev_wr, bev_evt, o);
		bufferevent_enable(o->bev, EV_READ | EV_WRITE);
		sc("F%d(%s%s) ", o->id, o->defer ? "defer" : "imm", o->close_on_free ? ",cof" : "");
		break;
	case T_EVBUF:
		o->eb = evbuffer_new();
		if (o->threadsafe) evbuffer_enable_locking(o->eb, NULL);
		if (o->defer) evbuffer_defer_callbacks(o->eb, base);
		o->ebe = evbuffer_add_cb(o->eb, eb_cb, o);
		sc("B%d(%s) ", o->id, o->defer ? "defer" : "imm");
		break;
	case T_LISTENER: {
		struct sockaddr_in sin; socklen_t sl = sizeof(sin);
		memset(&sin, 0, sizeof(sin)); sin.sin_family = AF_INET; sin.sin_addr.s_addr = htonl(0x7f000001);
		o->lis = evconnlistener_new_bind(base, lis_cb, o, LEV_OPT_CLOSE_ON_FREE | LEV_OPT_REUSEABLE | (o->threadsafe ? LEV_OPT_THREADSAFE : 0), 8, (struct sockaddr *)&sin, sizeof(sin));
		if (!o->lis) { nobj--; cur_tag = -1; return; }
		evconnlistener_set_error_cb(o->lis, lis_err);
		o->libfd = evconnlistener_get_fd(o->lis);
		getsockname(o->libfd, (struct sockaddr *)&sin, &sl); o->port = ntohs(sin.sin_port);
		sc("L%d ", o->id);
		break; }
	}
	cur_tag = -1;
}

/* ------------------------------------------------------------------ actions */
/* "crowd" cases: enough anonymous deferred-callback evbuffers to push the deferred callbacks scheduled after them
 * in one loop iteration over MAX_DEFERREDS_QUEUED, i.e. onto the base's active-later queue (seed C10-1) */
#define NBALLAST 40
static struct evbuffer *ballast[NBALLAST]; static int nballast; static long ballast_cbs;
static void ballast_cb(struct evbuffer *b, const struct evbuffer_cb_info *i, void *arg) { (void)b; (void)i; (void)arg; ballast_cbs++; }
static void ballast_make(void)
{
	int i;
	cur_tag = -1;
	for (i = 0; i < NBALLAST; i++) {
		ballast[i] = evbuffer_new();
		evbuffer_defer_callbacks(ballast[i], base);
		evbuffer_add_cb(ballast[i], ballast_cb, NULL);
	}
	nballast = NBALLAST;
	sc("crowd%d ", NBALLAST);
}
static void ballast_poke(void) { int i; for (i = 0; i < nballast; i++) evbuffer_add(ballast[i], "x", 1); }
static void ballast_free(void) { int i; for (i = 0; i < nballast; i++) evbuffer_free(ballast[i]); nballast = 0; }
static void trigger(struct obj *o, vh_rng *r);
/* schedule the object's deferred callbacks twice behind the crowd */
static void crowd_trigger(struct obj *o, vh_rng *r)
{
	int k;
	if (!o->alive) return;
	ballast_poke();
	for (k = 0; k < 2; k++) {
		if (!o->alive) break;
		switch (o->type) {
		case T_BEV_SOCK: case T_BEV_FILTER: case T_BEV_PAIR:
			sc("T%d ", o->id);
			{ int save = cur_tag; cur_tag = o->id; bufferevent_trigger(o->bev, k ? EV_WRITE : EV_READ, 0); if (o->type == T_BEV_PAIR) bufferevent_write(o->bev, "pp", 2); cur_tag = save; }
			break;
		default: trigger(o, r); break;
		}
	}
	xs("crowd_triggers");
}
static void trigger(struct obj *o, vh_rng *r)
{
	struct timeval tv;
	int save_tag = cur_tag;
	if (!o->alive) return;
	sc("t%d ", o->id);
	cur_tag = o->id;
	switch (o->type) {
	case T_EVENT:
		if (o->variant == EK_TIMER) { tv.tv_sec = 0; tv.tv_usec = (long)vh_range(r, 0, 20) * 1000; event_add(o->ev, &tv); }
		else if (o->variant == EK_USER) event_active(o->ev, EV_READ, 1);
		else if (o->variant == EK_SIG) {
			/* several deliveries from one activation: a release inside delivery k must stop deliveries k+1..n (seed C10-2) */
			int nc = (int)vh_range(r, 1, 4);
			event_add(o->ev, NULL); event_active(o->ev, EV_SIGNAL, (short)nc);
			o->arm_delay = (int)vh_below(r, (uint64_t)nc);
			sc("x%d/%d ", nc, o->arm_delay); xs("signal_activations_multi");
		}
		else { (void)__real_write(o->sp[1], "x", 1); event_add(o->ev, NULL); }
		break;
	case T_BEV_SOCK: case T_BEV_FILTER:
		switch (vh_below(r, 4)) {
		case 0: case 1: if (o->sp[1] >= 0) (void)__real_write(o->sp[1], "0123456789", 10); break;
		case 2: bufferevent_write(o->bev, "hello", 5); break;
		default: if (o->sp[1] >= 0) { __real_close(o->sp[1]); o->sp[1] = -1; } break;   /* EOF */
		}
		break;
	case T_BEV_PAIR: bufferevent_write(o->bev, "pairdata", 8); break;
	case T_EVBUF: if (vh_chance(r, 2, 3)) evbuffer_add(o->eb, "abc", 3); else evbuffer_drain(o->eb, 2); break;
	case T_LISTENER: if (nclients < 64) clients[nclients++] = lo_connect(o->port); break;
	default: break;
	}
	cur_tag = save_tag;
}

static void release_obj(struct obj *o, int ctx)
{
	if (!o->alive) return;
	o->alive = 0;
	sc("%s%d ", ctx == CTX_DIRECT ? "R" : ctx == CTX_SELF ? "Rself" : "Rother", o->id);
	if (ctx == CTX_DIRECT) n_release_direct++; else if (ctx == CTX_SELF) n_release_self++; else n_release_other++;
	o->releasing = 1;
	{ int save_tag = cur_tag; cur_tag = o->id;
	switch (o->type) {
	case T_EVENT:
		if (o->relmode == REL_FREE) event_free(o->ev);
		else if (o->relmode == REL_FINALIZE) event_finalize(0, o->ev, ev_fin);
		else event_free_finalize(0, o->ev, ev_fin);
		o->ev = NULL;
		break;
	case T_BEV_SOCK: case T_BEV_PAIR:
		bufferevent_free(o->bev); o->bev = NULL;
		break;
	case T_BEV_FILTER:
		bufferevent_free(o->bev); o->bev = NULL;
		if (!o->close_on_free) { bufferevent_free(o->under); }   /* the underlying bufferevent stays ours */
		o->under = NULL;
		break;
	case T_EVBUF: evbuffer_free(o->eb); o->eb = NULL; break;
	case T_LISTENER:
		/* two steps inside the listener's own callback: stop accepting, then free */
		if (ctx == CTX_SELF && (o->id & 1)) { evconnlistener_disable(o->lis); xs("listener_disable_then_free_in_callback"); }
		evconnlistener_free(o->lis); o->lis = NULL; break;
	}
	cur_tag = save_tag; }
	o->releasing = 0;
	o->released = 1;
}

static long vnow_ms;
static int step_loop(int ms)
{
	long before = n_cb_total + n_fin_total;
	vclk_advance((int64_t)ms * 1000); vnow_ms += ms;
	sc("s%d ", ms);
	event_base_loop(base, EVLOOP_NONBLOCK);
	return (int)(n_cb_total + n_fin_total - before);
}

/* ------------------------------------------------------------------ census */
static int fd_census(char *list, size_t cap)
{
	DIR *d = opendir("/proc/self/fd"); struct dirent *e; int n = 0, self = d ? dirfd(d) : -1; size_t o = 0;
	if (!d) return -1;
	list[0] = 0;
	while ((e = readdir(d))) {
		int fd;
		if (e->d_name[0] == '.') continue;
		fd = atoi(e->d_name);
		if (fd == self) continue;
		n++;
		if (o + 8 < cap) o += (size_t)snprintf(list + o, cap - o, "%d,", fd);
	}
	closedir(d);
	return n;
}

/* ------------------------------------------------------------------ a case */
struct plan { int enum_mode; int graph, target, point, ctx, ending; };

static void final_checks(int ending, long mem0, int fds0, const char *fdlist0, int loop_ran_dry)
{
	int i, fds1; char fdlist1[400];
	for (i = 0; i < nobj; i++) {
		struct obj *o = &O[i];
		if (o->type == T_ONCE) {
			if (o->cb_count > 1) violation("once-twice", o, "object %d: once callback ran %ld times", i, o->cb_count);
			if (o->once_failed) { if (o->cb_count) violation("once-ran-on-closed-fd", o, "object %d: once callback for a closed fd number ran %ld times", i, o->cb_count); continue; }
			if (loop_ran_dry && vnow_ms > o->once_deadline_ms + 5 && o->cb_count != 1 && ending != END_BASE_FIRST)
				violation("once-never", o, "object %d: loop ran %ld ms past the deadline (%ld ms) and to quiescence but the once callback ran %ld times", i, vnow_ms, o->once_deadline_ms, o->cb_count);
			continue;
		}
		if (o->want_fin && o->released && o->fin_count != 1)
			violation(o->fin_count == 0 ? "finalizer-never" : "finalizer-twice", o, "object %d (%s): released with a finalizer, base freed, finalizer ran %d times", i, tname[o->type], o->fin_count);
		if (o->libfd != -1 && o->released) {
			if (o->libfd >= 0) violation("fd-not-closed", o, "object %d (%s): fd %d owned by the library (CLOSE_ON_FREE) is still open after release and event_base_free", i, tname[o->type], o->libfd);
			else if (o->libfd_closes != 1) violation("fd-closed-twice", o, "object %d (%s): library-owned fd closed %d times", i, tname[o->type], o->libfd_closes);
		}
	}
	while (ndeferred_free > 0) free(deferred_free[--ndeferred_free]);
	/* harness-owned fds */
	for (i = 0; i < nobj; i++) {
		struct obj *o = &O[i];
		if (o->sp[1] >= 0) __real_close(o->sp[1]);
		if (o->sp[0] >= 0 && o->libfd == -1) __real_close(o->sp[0]);
	}
	for (i = 0; i < nclients; i++) if (clients[i] >= 0) __real_close(clients[i]);
	nclients = 0;
	if (a_live != mem0) {
		/* attribute the surviving blocks of this case to object types: one violation per type */
		struct ah *h; long seen[T__N + 2]; long nb = 0;
		memset(seen, 0, sizeof(seen));
		for (h = live_head.next; h != &live_head; h = h->next) if (h->serial == case_serial) {
			int t = h->tag >= 0 && h->tag < nobj ? O[h->tag].type : T__N + 1;
			if (t == T_EVBUF && !O[h->tag].defer) t = T__N;   /* slot T__N: evbuffer with immediate callbacks */
			nb++; seen[t]++;
		}
		/* the tag says in whose context a block was allocated, which for blocks made while a once-event or the loop
		 * itself was the context is only a hint: when blocks of a released-but-unfinalized object type are reported
		 * anyway, such blocks are folded into that report (alone, they are reported under their own key) */
		{ int primary = 0;
		  /* an unfinalized object accounts for at least three blocks (its struct, buffers / callback entry ...); one or
		   * two stray blocks carrying another type's tag were merely allocated while that other object was the context */
		  for (i = 0; i <= T__N; i++) if (i != T_ONCE && seen[i] >= 3) primary = 1;
		  if (primary) for (i = 0; i <= T__N + 1; i++) if (i == T_ONCE || i == T__N + 1 || seen[i] < 3) seen[i] = 0; }
		if (!quiet_run) {
			for (i = 0; i <= T__N + 1; i++) if (seen[i]) {
				char key[160];
				snprintf(key, sizeof(key), "C10:memory-remains:%s%s", i == T_EVBUF ? "evbuffer-deferred" : i == T__N ? "evbuffer" : i == T__N + 1 ? "loop" : tname[i], end_class);
				vh_viol(key, "%ld library allocation(s) made on behalf of this object type still live after releasing every object and event_base_free (ending %d; %ld blocks of this case in total) | history: %s", seen[i], ending, nb, script);
			}
			if (nb != a_live - mem0) vh_viol("C10:memory-remains:unattributed", "live blocks grew by %ld but %ld belong to this case | history: %s", a_live - mem0, nb, script);
		}
		/* reclaim what was reported, so that the final census and LeakSanitizer only speak about memory
		 * that no per-case verdict has already attributed */
		if (!quiet_run) { struct ah *n; for (h = live_head.next; h != &live_head; h = n) { n = h->next; if (h->serial == case_serial) a_free(h + 1); } }
	}
	fds1 = fd_census(fdlist1, sizeof(fdlist1));
	if (fds1 != fds0 || strcmp(fdlist0, fdlist1)) {
		/* fds already reported as "fd-not-closed" of a released object explain themselves */
		int unexplained = fds1 - fds0;
		for (i = 0; i < nobj; i++) if (O[i].libfd >= 0 && O[i].released) { unexplained--; __real_close(O[i].libfd); }
		if (unexplained != 0)
			violation("fd-remains", NULL, "open fds before the case [%s] after [%s] (ending %d)", fdlist0, fdlist1, ending);
	}
}

static const int graphs[6][5] = {
	{ T_EVENT, T_EVENT, T_ONCE, -1, -1 },
	{ T_BEV_SOCK, T_EVENT, T_EVBUF, -1, -1 },
	{ T_BEV_PAIR, T_EVENT, -1, -1, -1 },
	{ T_BEV_FILTER, T_BEV_SOCK, T_EVENT, -1, -1 },
	{ T_LISTENER, T_EVENT, T_EVBUF, -1, -1 },
	{ T_EVBUF, T_EVBUF, T_EVENT, T_ONCE, -1 },
};

static int O_released_any(void) { int i; for (i = 0; i < nobj; i++) if (O[i].released) return 1; return 0; }
static void run_case(long idx, vh_rng rng, int enum_mode)
{
	vh_rng r = rng;
	struct event_config *cfg;
	long mem0; int fds0, i, k, nsteps, ending, loop_ran_dry = 0;
	char fdlist0[400];
	uint64_t h;
	static const char *const methods[] = { "epoll", "poll", "select" };
	int method = vh_chance(&r, 1, 3) ? (int)vh_range(&r, 1, 2) : 0;
	struct plan pl; memset(&pl, 0, sizeof(pl));

	risky_case = idx >= 0 && vh_mix64((uint64_t)idx ^ 0x715c) % 8 == 0;
	nobj = 0; base_freed = 0; script_len = 0; script[0] = 0; vnow_ms = 0; nclients = 0;
	mem0 = a_live; case_serial++;
	fds0 = fd_census(fdlist0, sizeof(fdlist0));
	cfg = event_config_new();
	for (i = 0; i < method; i++) event_config_avoid_method(cfg, methods[i]);
	base = event_base_new_with_config(cfg);
	event_config_free(cfg);
	event_base_priority_init(base, 2);
	sc("[%s%s] ", methods[method], risky_case ? ",risky" : "");

	if (enum_mode) {
		long v = idx;
		pl.enum_mode = 1;
		pl.graph = (int)(v % 6); v /= 6;
		pl.ending = (int)(v % END__N); v /= END__N;
		pl.ctx = (int)(v % 3); v /= 3;
		pl.point = (int)(v % 5); v /= 5;
		pl.target = (int)(v % 4);
		for (k = 0; k < 5 && graphs[pl.graph][k] >= 0; k++) create(graphs[pl.graph][k], &r);
		ending = pl.ending;
		for (k = 0; k < 5; k++) {
			if (k == pl.point && pl.target < nobj && O[pl.target % nobj].alive) {
				struct obj *t = &O[pl.target % nobj];
				if (pl.ctx == CTX_DIRECT) release_obj(t, CTX_DIRECT);
				else {
					struct obj *host = pl.ctx == CTX_SELF ? t : &O[(t->id + 1) % nobj];
					if (host->type == T_ONCE || !host->alive) host = t;
					if (host->narm < MAXARM) host->arm[host->narm++] = t->id;
					sc("arm%d@%d ", t->id, host->id);
				}
			}
			for (i = 0; i < nobj; i++) trigger(&O[i], &r);
			step_loop(7);
		}
	} else {
		int n = (int)vh_range(&r, 2, 6), crowd;
		for (k = 0; k < n; k++) create((int)vh_below(&r, T__N), &r);
		nsteps = (int)vh_range(&r, 4, vh_opt.thorough ? 20 : 14);
		ending = (int)vh_below(&r, END__N);
		crowd = vh_chance(&r, 1, 5);
		if (crowd) { ballast_make(); ending = END_CLEAN; }   /* the crowd's own deferred runs must drain before the census */
		for (k = 0; k < nsteps && nobj > 0; k++) {
			struct obj *o = &O[vh_below(&r, (uint64_t)nobj)];
			switch (vh_below(&r, 8)) {
			case 0: case 1: case 2: if (crowd) crowd_trigger(o, &r); else trigger(o, &r); break;
			case 3: case 4: step_loop((int)vh_range(&r, 0, 12)); break;
			case 5: release_obj(o, CTX_DIRECT); break;
			default: {
				/* arm: release `o` from its own or another object's next callback */
				struct obj *host = vh_chance(&r, 1, 2) ? o : &O[vh_below(&r, (uint64_t)nobj)];
				if (o->alive && host->narm < MAXARM && (host->alive || host->type == T_ONCE)) {
					host->arm[host->narm++] = o->id; sc("arm%d@%d ", o->id, host->id);
					if (vh_chance(&r, 2, 3)) { trigger(host, &r); step_loop((int)vh_range(&r, 0, 25)); }
				}
				break; }
			}
		}
	}
	/* ending */
	sc("| end%d ", ending);
	if (nballast) ballast_free();   /* deferred-callback evbuffers go before their base (see CALIBRATED below) */
	if (ending == END_BASE_FIRST) {
		/* everything that refers to the base goes first; plain evbuffers outlive it.  CALIBRATED: events,
		 * bufferevents, listeners and deferred-callback evbuffers must be released before their base. */
		for (i = 0; i < nobj; i++) if (O[i].alive && !(O[i].type == T_EVBUF && !O[i].defer)) release_obj(&O[i], CTX_DIRECT);
		event_base_free(base); base_freed = 1; sc("basefree ");
		for (i = 0; i < nobj; i++) if (O[i].alive) { trigger(&O[i], &r); release_obj(&O[i], CTX_DIRECT); }
	} else {
		for (i = 0; i < nobj; i++) if (O[i].alive) release_obj(&O[i], CTX_DIRECT);
		if (ending == END_CLEAN) {
			int quiet = 0;
			for (k = 0; k < 40 && quiet < 3; k++) { if (step_loop(k < 4 ? 10 : 1) == 0 && event_base_get_num_events(base, EVENT_BASE_COUNT_ACTIVE) == 0) quiet++; else quiet = 0; }
			loop_ran_dry = quiet >= 3;
			if (!loop_ran_dry && !quiet_run) xs("loop_never_quiet");
		}
		event_base_free(base); base_freed = 1; sc("basefree ");
	}
	end_class = loop_ran_dry ? ":quiescent" : ":finalization-pending-at-base-free";
	final_checks(ending, mem0, fds0, fdlist0, loop_ran_dry);
	end_class = "";
	/* bookkeeping */
	if (quiet_run) return;
	{
		static long c0, f0, d0, s0, o0, r0;
		xs_add("callbacks_observed", n_cb_total - c0); c0 = n_cb_total;
		xs_add("finalizers_observed", n_fin_total - f0); f0 = n_fin_total;
		xs_add("releases_direct", n_release_direct - d0); d0 = n_release_direct;
		xs_add("releases_inside_own_callback", n_release_self - s0); s0 = n_release_self;
		xs_add("releases_inside_other_callback", n_release_other - o0); o0 = n_release_other;
		xs_add("callbacks_during_release_call", n_cb_during_release - r0); r0 = n_cb_during_release;
	}
	xs("cases");
	xs_add(ending == END_CLEAN ? "ending_clean" : ending == END_BASEFREE_PENDING ? "ending_basefree_with_pending_finalizers" : "ending_base_freed_first", 1);
	for (i = 0; i < nobj; i++) {
		static const char *const st[] = { "objects_event", "objects_once", "objects_bev_socket", "objects_bev_pair", "objects_bev_filter", "objects_evbuffer", "objects_listener" };
		xs_add(st[O[i].type], 1);
		if (O[i].type == T_ONCE && !O[i].once_failed) xs_add(O[i].cb_count ? "once_ran" : "once_never_ran_base_freed_first", 1);
		if (O[i].libfd < -1) xs("library_fds_closed_once");
	}
	h = vh_hash_bytes(enum_mode ? 0x77 : 0x11, script, script_len);
	if (O_released_any() && sh->nh < SH_MAXHASH) sh->hashes[sh->nh++] = h;
	if (idx - vh_opt.first < 3 || vh_opt.only >= 0) vh_sample(8, "{\"case\":%ld,\"history\":\"%s\"}", idx, script);
}

static void log_cb(int sev, const char *msg) { (void)sev; (void)msg; }

static void child_finish(void)
{
	sf_observer = NULL;
	libevent_global_shutdown();
	if (a_live != 0) {
		vh_cur_case = -1;
		vh_viol("C10:memory-remains-after-shutdown:process", "%ld library allocation(s) (not attributable to a case) still live after every base was freed and libevent_global_shutdown()", a_live);
	} else xs("global_shutdown_census_clean");
	/* let LeakSanitizer give its own verdict at exit: blocks must not stay reachable through this census list */
	{ struct ah *h = live_head.next, *n; for (; h != &live_head; h = n) { n = h->next; h->prev = h->next = NULL; } live_head.next = live_head.prev = &live_head; }
	fflush(stdout);
}

int main(int argc, char **argv)
{
	vh_rng rng;
	int enum_mode;
	long first, end, scase;
	int restarts = 0;
	vh_init(argc, argv);
	enum_mode = vh_opt.mode && !strcmp(vh_opt.mode, "enum");
	event_set_mem_functions(a_malloc, a_realloc, a_free);
	evthread_use_pthreads();
	event_set_log_callback(log_cb);
	vclk_enable(1000000);
	sh = mmap(NULL, sizeof(*sh), PROT_READ | PROT_WRITE, MAP_SHARED | MAP_ANONYMOUS, -1, 0);
	first = vh_opt.only >= 0 ? vh_opt.only : vh_opt.first;
	end = vh_opt.only >= 0 ? vh_opt.only + 1 : vh_opt.first + vh_opt.cases;
	scase = first;
	/* cases run in a forked child: a crash of the library (a finding) costs that case only; the
	 * child ends with libevent_global_shutdown(), the final census and a normal exit (LeakSanitizer). */
	while (scase < end) {
		pid_t pid; int st;
		sh->cur = scase; sh->done = 0;
		fflush(stdout); fflush(stderr);
		pid = fork();
		if (pid < 0) { perror("fork"); return 2; }
		if (pid == 0) {
			long c; vh_rng w;
			prctl(PR_SET_PDEATHSIG, SIGKILL);
			sf_observer = close_obs;
			/* warm-up: lets the library make its lazy process-wide allocations before the first census */
			vh_rng_seed(&w, 12345); vh_cur_case = -1;
			quiet_run = 1; run_case(-1, w, 0); quiet_run = 0;
			n_cb_total = n_fin_total = n_release_direct = n_release_self = n_release_other = n_cb_during_release = 0;
			for (c = scase; c < end; c++) {
				vh_cur_case = c; sh->cur = c;
				vh_rng_seed(&rng, vh_mix64(vh_opt.seed) ^ vh_mix64(0x5151000000ULL + (uint64_t)c)); /* same derivation as vh_next_case */
				run_case(c, rng, enum_mode);
			}
			sh->done = 1;
			child_finish();
			exit(0);
		}
		while (waitpid(pid, &st, 0) < 0 && errno == EINTR) ;
		if (sh->done) {
			if (WIFEXITED(st) && WEXITSTATUS(st) != 0) xs("child_exit_nonzero_after_done");   /* LeakSanitizer at exit */
			break;
		}
		xs("cases_that_killed_the_process");
		scase = sh->cur + 1;
		/* every dead child is a sanitizer report, i.e. a violation already; when more than a quarter of the cases
		 * kill the process the verdict cannot change any more and each further crash costs seconds of symbolisation */
		if (++restarts >= 30 && restarts * 4 > scase - first) { xs("stopped_crash_rate_over_25_percent"); break; }
	}
	{ int i; long k; for (i = 0; i < SH_MAXSTAT && sh->stats[i].name[0]; i++) vh_stat_add(sh->stats[i].name, sh->stats[i].n);
	  for (k = 0; k < sh->nh; k++) vh_distinct(sh->hashes[k]); }
	vh_finish();
	return 0;
}
