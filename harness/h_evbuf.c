/* h_evbuf: evbuffer against a flat byte-string reference model.
 *
 *   --mode model      C12  random op sequences over 1-4 buffers (or, with --arg exh,
 *                          bounded-exhaustive enumeration of sequences of length <= 4
 *                          over a fixed alphabet on 2 buffers); after every op: return
 *                          value, returned bytes/pointers/positions, full copyout and
 *                          an invariant walk over the chain structure of every buffer.
 *   --mode callbacks  C13  the same mutators plus callback management (add/remove/
 *                          flags/setcb/defer/loop step); every callback invocation is
 *                          judged against a ledger kept by the model.
 *   --mode allocfail  C14  prefix of C12 ops, then one allocating op with the n-th
 *                          allocation failing, for n = 1.. until the fault no longer
 *                          fires (that last run is the dry run); 20 further ops; census.
 *
 * The model (struct mvec) shares no code with buffer.c.  Rules the public docs do not
 * fix and that were taken from the current tree are marked CALIBRATED.
 */
#include "vh.h"
#include <limits.h>
#include <errno.h>
#include <event2/event.h>
#include <event2/buffer.h>
#include <event2/buffer_compat.h>
#include "evbuffer-internal.h"
#include "mm-internal.h"
#include <unistd.h>
#include <fcntl.h>
#include <signal.h>
#include <sys/wait.h>

/* ------------------------------------------------------------------ model vector */
struct mvec { uint8_t *base; size_t off, n, cap; };
#define MD(m) ((m)->base + (m)->off)

static void mv_init(struct mvec *m) { m->cap = 256; m->base = malloc(m->cap); m->off = 64; m->n = 0; }
static void mv_free(struct mvec *m) { free(m->base); m->base = NULL; m->cap = m->n = m->off = 0; }
static void mv_regrow(struct mvec *m, size_t front, size_t back)
{
	size_t ncap = front + m->n + back;
	uint8_t *nb;
	ncap += ncap / 2 + 128;
	nb = malloc(ncap);
	if (!nb) { fprintf(stderr, "h_evbuf: out of memory (model)\n"); exit(3); }
	{
		size_t noff = front + (ncap - front - m->n - back) / 2;
		if (m->n) memcpy(nb + noff, MD(m), m->n);
		free(m->base);
		m->base = nb; m->off = noff; m->cap = ncap;
	}
}
static void mv_append(struct mvec *m, const void *p, size_t n)
{
	if (!n) return;
	if (m->off + m->n + n > m->cap) mv_regrow(m, 0, n);
	memcpy(MD(m) + m->n, p, n);
	m->n += n;
}
static void mv_prepend(struct mvec *m, const void *p, size_t n)
{
	if (!n) return;
	if (m->off < n) mv_regrow(m, n, 0);
	m->off -= n;
	memcpy(MD(m), p, n);
	m->n += n;
}
static void mv_drain(struct mvec *m, size_t k)
{
	if (k > m->n) k = m->n;
	m->off += k; m->n -= k;
	if (m->n == 0) m->off = m->cap / 4;
}
static void mv_copy(struct mvec *dst, const struct mvec *src)
{
	dst->n = 0; dst->off = dst->cap / 4;
	mv_append(dst, MD(src), src->n);
}

/* ------------------------------------------------------------------ world */
#define MAXB 4
#define MAXCB 6
enum { M_MODEL, M_CALLBACKS, M_ALLOCFAIL };
enum { BH_NONE, BH_ADD1, BH_DRAIN1, BH_RMSELF, BH_DISABLESELF, BH_NODEFERSELF, BH__N };

struct cbrec {
	int id, buf, obsolete, removed, behaviour, budget;
	struct evbuffer_cb_entry *ent;
	unsigned flags;                 /* model of the user-visible flags */
	int always_enabled;             /* never disabled since registration */
	int nodefer_on_deferred;        /* carried NODEFER while the buffer was deferred */
	int pending_at_reg;             /* registered while changes were pending (deferred) */
	int stale_seen;                 /* got a report that was stale because of re-entrant change */
	size_t baseA, baseD;            /* model cum counters at registration */
	size_t baseA_lo, baseD_lo;      /* ... at last flush before registration */
	size_t sumA, sumD;
	size_t last_new; int has_last;
	long ninv, inv_this_step;
	struct cbrec *next_all;
};

struct mbuf {
	struct evbuffer *eb;
	struct mvec m;
	int fz_start, fz_end;
	int taint_mc;                   /* may hold multicast chains (add_buffer_reference target) */
	struct evbuffer_ptr ptr; int ptr_ok; size_t ptr_pos;
	/* C13/C14 ledger */
	int deferred;
	size_t cumA, cumD;              /* bytes the model says were added / removed so far */
	size_t flushA, flushD;          /* value of cumA/cumD at the last flush point */
	struct cbrec *cbs[MAXCB]; int ncb;
	int reent_dirty[8];
};

struct refrec { uint8_t *block; size_t total; uint64_t sum; int cleaned; struct refrec *next; };

static struct {
	int mode, nb, style, exh;
	struct mbuf b[MAXB];
	struct event_base *base;
	struct refrec *refs; long refs_live;
	struct cbrec *allcbs; int next_cbid;
	int in_loop, multistep, reentry_ok, cb_depth, step_has_reentry, teardown;
	/* fault injection state for the op being executed */
	int fault_armed, fault_reverted; long failed0;
	char cb_anomaly[400];           /* a callback saw inconsistent numbers while the faulted op was running */
	/* snapshot */
	struct mvec snap[MAXB]; size_t snapA[MAXB], snapD[MAXB]; int snapT[MAXB]; int snap_ok;
	/* per-case evidence */
	uint64_t h; int nontrivial; long max_chains; int aborted;
	int shared_write;               /* this history contains a write into a read-only (shared) chain */
	const char *P;                  /* property prefix for keys */
	size_t len_limit;
} W;

static uint8_t *g_tmp, *g_out;
static size_t g_cap;
#define CS ((size_t)EVBUFFER_CHAIN_SIZE)

static const char *opname[] = { "add", "prepend", "add_printf", "add_buffer", "prepend_buffer", "remove_buffer",
	"drain", "remove", "copyout", "copyout_from", "pullup", "expand", "reserve_commit", "add_iovec", "peek",
	"search", "search_eol", "readln", "ptr_set", "freeze", "add_reference", "add_buffer_reference",
	"add_cb", "remove_cb", "cb_flags", "setcb", "loop", "defer" };
enum { OP_ADD, OP_PREPEND, OP_PRINTF, OP_ADDBUF, OP_PREPBUF, OP_REMBUF, OP_DRAIN, OP_REMOVE, OP_COPYOUT, OP_COPYFROM,
	OP_PULLUP, OP_EXPAND, OP_RESERVE, OP_IOVEC, OP_PEEK, OP_SEARCH, OP_EOL, OP_READLN, OP_PTRSET, OP_FREEZE,
	OP_ADDREF, OP_BUFREF, OP_ADDCB, OP_RMCB, OP_CBFLAGS, OP_SETCB, OP_LOOP, OP_DEFER, OP__N };

struct op { int kind, a, b; size_t n, n2; int v1, v2, v3; uint64_t dseed; };

static int g_opno;
static struct op g_hist[256]; static long g_histres[256];

static int g_soft;
static void viol(const struct op *o, const char *rule, const char *fmt, ...) __attribute__((format(printf,3,4)));
static void viol(const struct op *o, const char *rule, const char *fmt, ...)
{
	char key[160], txt[1500], hist[1200];
	va_list ap;
	int i, p = 0, from;
	va_start(ap, fmt);
	vsnprintf(txt, sizeof(txt), fmt, ap);
	va_end(ap);
	/* once a write into shared read-only chain memory was witnessed in this history (soft violation
	 * inv:immutable-chain-extended), every later mismatch of the same history is keyed as its consequence */
	{
		const char *sfx = (W.shared_write && !g_soft) ? ":after-immutable-chain-write" : "";
		if (o) snprintf(key, sizeof(key), "%s:%s:%s%s", W.P, opname[o->kind], rule, sfx);
		else snprintf(key, sizeof(key), "%s:%s%s", W.P, rule, sfx);
	}
	hist[0] = 0;
	from = g_opno > 14 ? g_opno - 14 : 0;
	for (i = from; i <= g_opno && i < 256 && p < (int)sizeof(hist) - 80; i++)
		p += snprintf(hist + p, sizeof(hist) - p, " %d:%s(a=%d,b=%d,n=%zu,n2=%zu,v=%d/%d/%d)", i, opname[g_hist[i].kind],
			g_hist[i].a, g_hist[i].b, g_hist[i].n, g_hist[i].n2, g_hist[i].v1, g_hist[i].v2, g_hist[i].v3);
	vh_viol(key, "%s | nb=%d style=%d op#%d | recent ops:%s", txt, W.nb, W.style, g_opno, hist);
	if (g_soft) g_soft = 0; else W.aborted = 1;   /* soft: a listed defect class; the history stays judgeable */
}

/* ------------------------------------------------------------------ data */
static void gen_bytes_raw(vh_rng *r, uint8_t *dst, size_t n);
static void gen_bytes(vh_rng *r, uint8_t *dst, size_t n)
{
	gen_bytes_raw(r, dst, n);
	/* make EOLs that straddle the seams between separately added pieces likely */
	if (n) {
		unsigned x = (unsigned)vh_below(r, 16);
		if (x < 3) dst[0] = '\n';
		if (x >= 2 && x < 6) dst[n - 1] = '\r';
	}
}
static void gen_bytes_raw(vh_rng *r, uint8_t *dst, size_t n)
{
	size_t i = 0;
	static const uint8_t small[] = { 'a', 'b', 'a', 'b', 'a', '\r', '\n', 0, 'c', '\n' };
	if (W.style == 1) {
		while (i < n) {
			uint64_t x = vh_rand(r);
			int k;
			for (k = 0; k < 16 && i < n; k++, x >>= 4) dst[i++] = small[(x & 15) % sizeof(small)];
		}
		return;
	}
	while (i < n) {
		uint64_t x = vh_rand(r);
		int k;
		for (k = 0; k < 8 && i < n; k++, x >>= 8) {
			uint8_t c = (uint8_t)x;
			if (c >= 0xf0) c = "\r\n\r\n\0\n\r\n\0\r\n\r\n\n\0\r"[c & 15];   /* ~6% EOL-ish bytes */
			dst[i++] = c;
		}
	}
}

static size_t pick_size(vh_rng *r)
{
	static const size_t small[] = { 0, 1, 2, 3, 5, 8, 17, 63, 64, 65, 100, 255 };
	size_t c0 = 1024 - CS, c1 = 2048 - CS, c2 = 4096 - CS, c3 = 8192 - CS;
	switch (vh_below(r, 20)) {
	case 0: case 1: case 2: case 3: case 4: case 5: case 6: return VH_PICK(r, small);
	case 7: case 8: return c0 + (size_t)vh_range(r, -2, 2);
	case 9: return 1024 + (size_t)vh_range(r, -1, 1);
	case 10: return c1 + (size_t)vh_range(r, -1, 1);
	case 11: return 2048 + (size_t)vh_range(r, -1, 1);
	case 12: return c2 + (size_t)vh_range(r, -1, 1);
	case 13: return 4096 + (size_t)vh_range(r, -1, 1);
	case 14: return vh_chance(r, 1, 2) ? c3 + (size_t)vh_range(r, -1, 1) : (size_t)vh_range(r, 4097, 9000);
	case 15: case 16: case 17: return (size_t)vh_range(r, 1, 3000);
	case 18: return vh_chance(r, 1, 3) ? 65536 - vh_below(r, 2) * CS : (size_t)vh_range(r, 1, 1200);
	default:
		if (vh_opt.thorough && vh_chance(r, 1, 6)) return (1u << 20) + (size_t)vh_range(r, -1, 1);
		return (size_t)vh_range(r, 900, 1100);
	}
}
/* a count relative to the current length of a buffer */
static size_t pick_rel(vh_rng *r, size_t len)
{
	switch (vh_below(r, 10)) {
	case 0: return 0;
	case 1: return 1;
	case 2: return len ? len - 1 : 0;
	case 3: return len;
	case 4: return len + 1;
	case 5: return len + (size_t)vh_range(r, 2, 5000);
	case 6: return pick_size(r);
	default: return len ? (size_t)vh_below(r, len + 1) : 0;
	}
}

/* ------------------------------------------------------------------ reference blocks */
static uint64_t sum_bytes(const uint8_t *p, size_t n) { return vh_hash_bytes(0x1234, p, n); }
static void ref_cleanup(const void *data, size_t datalen, void *extra)
{
	struct refrec *rr = extra;
	vh_stat("ref_cleanups");
	if (rr->cleaned) { viol(NULL, "add_reference:cleanup-twice", "cleanup called twice for block %p", data); return; }
	if (data != rr->block || datalen != rr->total)
		viol(NULL, "add_reference:cleanup-args", "cleanup(%p,%zu) for block (%p,%zu)", data, datalen, (void *)rr->block, rr->total);
	if (sum_bytes(rr->block, rr->total) != rr->sum)
		viol(NULL, "inv:referenced-memory-modified", "user memory added by reference (len %zu) was modified in place", rr->total);
	rr->cleaned = 1;
	W.refs_live--;
	free(rr->block); rr->block = NULL;
}

/* ------------------------------------------------------------------ snapshot (C14) */
static void snap_take(void)
{
	int i;
	for (i = 0; i < W.nb; i++) {
		mv_copy(&W.snap[i], &W.b[i].m);
		W.snapA[i] = W.b[i].cumA; W.snapD[i] = W.b[i].cumD; W.snapT[i] = W.b[i].taint_mc;
	}
	W.snap_ok = 1;
}
static void snap_restore(void)
{
	int i;
	for (i = 0; i < W.nb; i++) {
		mv_copy(&W.b[i].m, &W.snap[i]);
		W.b[i].cumA = W.snapA[i]; W.b[i].cumD = W.snapD[i]; W.b[i].taint_mc = W.snapT[i];
	}
}
static int fault_hit(void) { return W.fault_armed && mf_failed > W.failed0; }
/* the op reported failure although the model expected success: legitimate only if the injected fault fired */
static int failed_by_fault(void)
{
	if (!fault_hit() || !W.snap_ok) return 0;
	snap_restore();
	W.fault_reverted = 1;
	return 1;
}

/* ------------------------------------------------------------------ invariant walker + content check */
static int chain_span(struct evbuffer *eb, size_t pos, size_t len)
{
	struct evbuffer_chain *ch;
	size_t at = 0; int n = 0;
	for (ch = eb->first; ch && len; ch = ch->next) {
		size_t e = at + ch->off;
		if (pos < e) { size_t take = e - pos < len ? e - pos : len; n++; pos += take; len -= take; }
		at = e;
	}
	return n;
}

static long c_walks, c_walk_multi, c_walk_imm;
/* returns 0 ok; 1 = structural violation reported; 2 = content differs from the model */
static int walk(const struct op *o, int bi, size_t *mism_at)
{
	struct mbuf *mb = &W.b[bi];
	struct evbuffer *eb = mb->eb;
	struct evbuffer_chain **pp, **lwd = &eb->first, *ch, *lastseen = NULL;
	size_t sum = 0, pos = 0; long nch = 0, nimm = 0;
	const uint8_t *md = MD(&mb->m);
	int content_bad = 0;
	for (pp = &eb->first; (ch = *pp) != NULL; pp = &ch->next) {
		if (++nch > 5000000) { viol(o, "inv:chain-cycle", "buffer %d: chain list does not terminate", bi); return 1; }
		if (ch->refcnt <= 0) { viol(o, "inv:chain-refcnt", "buffer %d: chain %ld has refcnt %d", bi, nch, ch->refcnt); return 1; }
		if (ch->misalign < 0 || (uint64_t)ch->misalign + ch->off > ch->buffer_len) {
			viol(o, "inv:chain-window", "buffer %d: chain %ld misalign=%lld off=%zu buffer_len=%zu flags=%#x", bi, nch,
				(long long)ch->misalign, ch->off, ch->buffer_len, ch->flags);
			return 1;
		}
		if (ch->off) {
			lwd = pp;
			if (!content_bad) {
				if (pos + ch->off > mb->m.n) { content_bad = 1; *mism_at = mb->m.n; }
				else if (memcmp(ch->buffer + ch->misalign, md + pos, ch->off)) {
					size_t k; const uint8_t *c = ch->buffer + ch->misalign;
					for (k = 0; k < ch->off && c[k] == md[pos + k]; k++) ;
					content_bad = 1; *mism_at = pos + k;
				}
			}
			pos += ch->off;
		}
		if (ch->flags & EVBUFFER_IMMUTABLE) nimm++;
		sum += ch->off;
		lastseen = ch;
	}
	if (eb->last != lastseen) {
		viol(o, "inv:last", "buffer %d: buf->last=%p but the terminal chain reachable from first is %p (chains=%ld)", bi, (void *)eb->last, (void *)lastseen, nch);
		return 1;
	}
	if (sum != eb->total_len) { viol(o, "inv:total_len", "buffer %d: sum(off)=%zu total_len=%zu", bi, sum, eb->total_len); return 1; }
	if (eb->last_with_datap != lwd) {
		viol(o, "inv:last_with_datap", "buffer %d: last_with_datap does not designate the last chain with data (or first): chains=%ld total=%zu", bi, nch, sum);
		return 1;
	}
	c_walks++;
	if (nch > 1) c_walk_multi++;
	if (nimm) c_walk_imm++;
	if (nch > W.max_chains) W.max_chains = nch;
	if (nch >= 3) W.nontrivial |= 1;
	if (!content_bad && pos != mb->m.n) { content_bad = 1; *mism_at = pos; }
	return content_bad ? 2 : 0;
}

static void content_viol(const struct op *o, int bi, int involved, size_t actual_len, size_t at, const char *via)
{
	struct mbuf *mb = &W.b[bi];
	const char *dir = actual_len > mb->m.n ? "grew" : actual_len < mb->m.n ? "shrank" : "bytes";
	char rule[128];
	if (W.mode == M_ALLOCFAIL && fault_hit())
		snprintf(rule, sizeof(rule), "%s:%s", W.fault_reverted ? "failed-but-changed" : "success-but-partial", dir);
	else
		snprintf(rule, sizeof(rule), "%s:%s", involved ? "content" : "content-other-buffer", dir);
	viol(o, rule, "buffer %d (%s) differs from model via %s: actual len %zu, model len %zu, first difference at %zu%s", bi,
		involved ? "operand" : "not an operand", via, actual_len, mb->m.n, at,
		fault_hit() ? (W.fault_reverted ? " [op reported failure after injected allocation failure]" : " [op reported success although an allocation failed]") : "");
}

static void ledger_check(const struct op *o);

/* after every op */
static void post_check(const struct op *o, int a, int b)
{
	int i;
	for (i = 0; i < W.nb && !W.aborted; i++) {
		struct mbuf *mb = &W.b[i];
		size_t len = evbuffer_get_length(mb->eb), at = 0;
		int involved = (i == a || i == b), wr;
		if (len != mb->m.n) { content_viol(o, i, involved, len, len < mb->m.n ? len : mb->m.n, "evbuffer_get_length"); return; }
		if (involved) {
			ev_ssize_t r;
			if (len + 1 > g_cap) { fprintf(stderr, "h_evbuf: scratch too small\n"); exit(3); }
			memset(g_out, 0xEE, len < 64 ? len : 64);
			r = evbuffer_copyout(mb->eb, g_out, len + 1);
			/* CALIBRATED: copyout of a non-zero amount fails while the front is frozen */
			if (mb->fz_start && len > 0) {
				if (r != -1) { viol(o, "copyout-frozen", "copyout on start-frozen buffer %d returned %zd", i, r); return; }
			} else if (r != (ev_ssize_t)len) {
				viol(o, "copyout-len", "full copyout of buffer %d returned %zd, length is %zu", i, r, len); return;
			} else if (len && memcmp(g_out, MD(&mb->m), len)) {
				size_t k; for (k = 0; k < len && g_out[k] == MD(&mb->m)[k]; k++) ;
				content_viol(o, i, 1, len, k, "evbuffer_copyout"); return;
			}
		}
		wr = walk(o, i, &at);
		if (wr == 1) return;
		if (wr == 2) { content_viol(o, i, involved, len, at, "chain walk"); return; }
	}
	if (!W.aborted && W.mode != M_MODEL) ledger_check(o);
}

/* ------------------------------------------------------------------ callbacks (C13, and recording ones for C14) */
static void cb_forget(struct mbuf *mb, struct cbrec *rec);
static void cb_common(struct cbrec *rec, struct evbuffer *buffer, size_t orig, size_t added, size_t deleted, size_t newlen_reported, int have_counts)
{
	struct mbuf *mb = &W.b[rec->buf];
	size_t len = evbuffer_get_length(buffer);
	int d = W.cb_depth, stale = 0, k, faulted;
	if (W.teardown) return;
	faulted = (W.mode == M_ALLOCFAIL && fault_hit());
	vh_stat("cb_invocations");
	if (rec->obsolete) vh_stat("cb_obsolete_invocations");
	if (W.in_loop) vh_stat("cb_deferred_invocations");
	rec->ninv++; rec->inv_this_step++;
	if (buffer != mb->eb) viol(NULL, "cb:wrong-buffer", "callback %d invoked with a different evbuffer", rec->id);
	if (rec->removed) { viol(NULL, "cb:invoked-after-remove", "callback %d invoked after it was removed", rec->id); return; }
	if (!(rec->flags & EVBUFFER_CB_ENABLED)) viol(NULL, "cb:disabled-invoked", "callback %d invoked while disabled (flags %#x)", rec->id, rec->flags);
	if (mb->deferred && !W.in_loop && !(rec->flags & EVBUFFER_CB_NODEFER))
		viol(NULL, "cb:deferred-invoked-synchronously", "callback %d of deferred buffer %d ran outside the event loop", rec->id, rec->buf);
	/* CALIBRATED: "never deferred" callbacks are left out of the deferred run (they were already told synchronously) */
	if (mb->deferred && W.in_loop && d == 0 && !W.step_has_reentry && (rec->flags & EVBUFFER_CB_NODEFER))
		viol(NULL, "cb:nodefer-invoked-from-deferred-run", "callback %d of deferred buffer %d carries NODEFER but was invoked by the deferred run", rec->id, rec->buf);
	for (k = 0; k <= d && k < 8; k++) if (mb->reent_dirty[k]) stale = 1;
	if (have_counts ? (orig + added - deleted != len) : (newlen_reported != len)) {
		if (stale) {
			rec->stale_seen = 1;
			vh_stat("cb_stale_reports");
			g_soft = 1; viol(NULL, "cb:identity:stale-after-reentrant-change",
				"callback %d buffer %d: orig=%zu added=%zu deleted=%zu (new=%zu) but length now %zu; an earlier callback of the same run changed the buffer",
				rec->id, rec->buf, orig, added, deleted, newlen_reported, len);
			   /* known class: keep judging the rest of the history */
		} else if (faulted) {
			snprintf(W.cb_anomaly, sizeof(W.cb_anomaly), "callback %d buffer %d got orig=%zu added=%zu deleted=%zu while the length was %zu", rec->id, rec->buf, orig, added, deleted, len);
		} else {
			viol(NULL, "cb:identity", "callback %d buffer %d: orig=%zu added=%zu deleted=%zu (new=%zu) but length now %zu%s", rec->id, rec->buf,
				orig, added, deleted, newlen_reported, len, (rec->flags & EVBUFFER_CB_NODEFER) ? " [NODEFER]" : "");
		}
	}
	if (!W.multistep && len != mb->m.n && faulted)
		snprintf(W.cb_anomaly, sizeof(W.cb_anomaly), "callback %d buffer %d ran while the buffer held %zu bytes; the completed operation would leave %zu", rec->id, rec->buf, len, mb->m.n);
	else if (!W.multistep && len != mb->m.n)
		viol(NULL, "cb:length-vs-model", "callback %d buffer %d: evbuffer_get_length=%zu in callback, model says %zu", rec->id, rec->buf, len, mb->m.n);
	if (rec->has_last && !stale && !rec->stale_seen && orig != rec->last_new) {
		if (rec->nodefer_on_deferred) {
			vh_stat("cb_nodefer_cumulative");
			g_soft = 1; viol(NULL, "cb:nodefer-double-report", "NODEFER callback %d on deferred buffer %d: orig_size=%zu but its previous report ended at %zu (counts are cumulative until the deferred run: changes reported twice)",
				rec->id, rec->buf, orig, rec->last_new);
		} else if (rec->always_enabled && faulted) {
			snprintf(W.cb_anomaly, sizeof(W.cb_anomaly), "callback %d buffer %d got orig_size=%zu but its previous report ended at %zu", rec->id, rec->buf, orig, rec->last_new);
		} else if (rec->always_enabled) {
			viol(NULL, "cb:report-gap-or-overlap", "callback %d buffer %d: orig_size=%zu but its previous report ended at length %zu (change lost or reported twice)",
				rec->id, rec->buf, orig, rec->last_new);
		}
	}
	rec->last_new = newlen_reported; rec->has_last = 1;
	if (have_counts) { rec->sumA += added; rec->sumD += deleted; }
	else { if (newlen_reported >= orig) rec->sumA += newlen_reported - orig; else rec->sumD += orig - newlen_reported; }
	if (added && deleted) vh_stat("cb_reports_with_add_and_del");

	if (W.reentry_ok && rec->budget > 0 && rec->behaviour != BH_NONE && W.mode == M_CALLBACKS) {
		uint8_t x = (uint8_t)('A' + rec->id);
		rec->budget--;
		W.cb_depth++;
		if (W.cb_depth < 8) mb->reent_dirty[W.cb_depth] = 0;
		switch (rec->behaviour) {
		case BH_ADD1:
			vh_stat("cb_reentrant_add");
			if (!mb->fz_end) { mv_append(&mb->m, &x, 1); mb->cumA++; for (k = 0; k <= d && k < 8; k++) mb->reent_dirty[k] = 1; W.step_has_reentry = 1; }
			if (evbuffer_add(buffer, &x, 1) != (mb->fz_end ? -1 : 0)) viol(NULL, "cb:reentrant-add-ret", "add from callback returned unexpected value");
			break;
		case BH_DRAIN1:
			vh_stat("cb_reentrant_drain");
			{
				int exp = (mb->m.n == 0) ? 0 : mb->fz_start ? -1 : 0;
				if (mb->m.n && !mb->fz_start) { mv_drain(&mb->m, 1); mb->cumD++; for (k = 0; k <= d && k < 8; k++) mb->reent_dirty[k] = 1; W.step_has_reentry = 1; }
				if (evbuffer_drain(buffer, 1) != exp) viol(NULL, "cb:reentrant-drain-ret", "drain from callback returned unexpected value");
			}
			break;
		case BH_RMSELF:
			/* only from a top-level invocation, and (obsolete API: setcb(NULL) drops every callback) only when alone:
			 * the docs forbid removing *another* callback from inside a callback */
			if (d != 0 || (rec->obsolete && mb->ncb != 1)) break;
			vh_stat("cb_remove_self");
			rec->removed = 1; cb_forget(mb, rec);
			if (rec->obsolete) { if (evbuffer_setcb(buffer, NULL, NULL) != 0) viol(NULL, "cb:setcb-null", "setcb(NULL) failed"); }
			else if (evbuffer_remove_cb_entry(buffer, rec->ent) != 0) viol(NULL, "cb:remove-self", "remove_cb_entry(self) failed");
			break;
		case BH_DISABLESELF:
			if (!rec->obsolete) {
				vh_stat("cb_disable_self");
				evbuffer_cb_clear_flags(buffer, rec->ent, EVBUFFER_CB_ENABLED);
				rec->flags &= ~EVBUFFER_CB_ENABLED; rec->always_enabled = 0;
			}
			break;
		case BH_NODEFERSELF:
			if (!rec->obsolete) {
				vh_stat("cb_nodefer_self");
				evbuffer_cb_set_flags(buffer, rec->ent, EVBUFFER_CB_NODEFER);
				rec->flags |= EVBUFFER_CB_NODEFER;
				if (mb->deferred) rec->nodefer_on_deferred = 1;
			}
			break;
		}
		W.cb_depth--;
	}
}
static void cb_new(struct evbuffer *buffer, const struct evbuffer_cb_info *info, void *arg)
{
	cb_common(arg, buffer, info->orig_size, info->n_added, info->n_deleted, info->orig_size + info->n_added - info->n_deleted, 1);
}
static void cb_old(struct evbuffer *buffer, size_t old_len, size_t new_len, void *arg)
{
	cb_common(arg, buffer, old_len, 0, 0, new_len, 0);
}

static struct cbrec *cbrec_new(int bi, int obsolete, int behaviour)
{
	struct cbrec *rec = calloc(1, sizeof(*rec));
	struct mbuf *mb = &W.b[bi];
	rec->id = W.next_cbid++; rec->buf = bi; rec->obsolete = obsolete; rec->behaviour = behaviour; rec->budget = 2;
	rec->flags = EVBUFFER_CB_ENABLED; rec->always_enabled = 1;
	rec->baseA = mb->cumA; rec->baseD = mb->cumD; rec->baseA_lo = mb->flushA; rec->baseD_lo = mb->flushD;
	rec->pending_at_reg = (mb->cumA != mb->flushA || mb->cumD != mb->flushD);
	rec->next_all = W.allcbs; W.allcbs = rec;
	return rec;
}
static void cb_forget(struct mbuf *mb, struct cbrec *rec)
{
	int i;
	for (i = 0; i < mb->ncb; i++) if (mb->cbs[i] == rec) { mb->cbs[i] = mb->cbs[--mb->ncb]; return; }
}
/* judge the sums of one callback at a point where nothing is pending for its buffer */
static void cb_judge_sums(const struct op *o_unused, struct cbrec *rec, const char *when)
{
	const struct op *o = NULL;   /* keys of ledger verdicts do not depend on the op that happened to precede them */
	struct mbuf *mb = &W.b[rec->buf];
	size_t hiA = mb->cumA - rec->baseA_lo, loA = mb->cumA - rec->baseA, hiD = mb->cumD - rec->baseD_lo, loD = mb->cumD - rec->baseD;
	if (!rec->always_enabled) return;
	vh_stat("cb_sums_judged");
	if (rec->nodefer_on_deferred) {
		if (rec->sumA > hiA || rec->sumD > hiD) {
			vh_stat("cb_nodefer_cumulative");
			g_soft = 1; viol(o, "cb:nodefer-double-report", "NODEFER callback %d on deferred buffer %d (%s): sum added=%zu deleted=%zu, model says %zu/%zu happened", rec->id, rec->buf, when,
				rec->sumA, rec->sumD, hiA, hiD);
		}
		return;
	}
	if (rec->obsolete) {
		/* only net change observable */
		long long net = (long long)rec->sumA - (long long)rec->sumD, lo = (long long)loA - (long long)loD, hi = (long long)hiA - (long long)hiD;
		if (rec->has_last && rec->last_new != mb->m.n && !rec->stale_seen)
			viol(o, "cb:obsolete-final-length", "obsolete callback %d buffer %d (%s): last reported new_len=%zu, model length %zu", rec->id, rec->buf, when, rec->last_new, mb->m.n);
		else if (!rec->pending_at_reg && net != lo && net != hi)
			viol(o, "cb:obsolete-sums", "obsolete callback %d buffer %d (%s): net reported %lld, model %lld", rec->id, rec->buf, when, net, lo);
		return;
	}
	if (rec->sumA < loA || rec->sumA > hiA || rec->sumD < loD || rec->sumD > hiD)
		viol(o, "cb:sums", "callback %d buffer %d (%s): reported added=%zu deleted=%zu over %ld invocations; model says added=%zu%s deleted=%zu%s since registration",
			rec->id, rec->buf, when, rec->sumA, rec->sumD, rec->ninv, loA, loA != hiA ? "(+pending at registration)" : "", loD, loD != hiD ? "(+pending)" : "");
	else if (rec->has_last && !rec->stale_seen && rec->last_new != mb->m.n && (loA || loD))
		viol(o, "cb:final-length", "callback %d buffer %d (%s): last report ended at %zu, model length %zu", rec->id, rec->buf, when, rec->last_new, mb->m.n);
}
/* after each op: non-deferred buffers are flushed by construction */
static void ledger_check(const struct op *o)
{
	int i, j;
	for (i = 0; i < W.nb; i++) {
		struct mbuf *mb = &W.b[i];
		if (mb->deferred) continue;
		mb->flushA = mb->cumA; mb->flushD = mb->cumD;
		for (j = 0; j < mb->ncb && !W.aborted; j++) cb_judge_sums(o, mb->cbs[j], "after op");
	}
}

/* ------------------------------------------------------------------ model helpers */
static ev_ssize_t m_eol(const uint8_t *d, size_t n, size_t s, int style, size_t *eol_len)
{
	size_t i;
	const uint8_t *p;
	*eol_len = 0;
	if (s > n) return -1;
	switch (style) {
	case EVBUFFER_EOL_ANY:
		for (i = s; i < n; i++) if (d[i] == '\r' || d[i] == '\n') {
			size_t j = i;
			while (j < n && (d[j] == '\r' || d[j] == '\n')) j++;
			*eol_len = j - i; return (ev_ssize_t)i;
		}
		return -1;
	case EVBUFFER_EOL_CRLF_STRICT:
		for (i = s; i + 1 < n; i++) if (d[i] == '\r' && d[i + 1] == '\n') { *eol_len = 2; return (ev_ssize_t)i; }
		return -1;
	case EVBUFFER_EOL_CRLF:
		p = n > s ? memchr(d + s, '\n', n - s) : NULL;
		if (!p) return -1;
		i = (size_t)(p - d);
		if (i > s && d[i - 1] == '\r') { *eol_len = 2; return (ev_ssize_t)(i - 1); }
		*eol_len = 1; return (ev_ssize_t)i;
	case EVBUFFER_EOL_LF:
		p = n > s ? memchr(d + s, '\n', n - s) : NULL;
		if (!p) return -1;
		*eol_len = 1; return p - d;
	case EVBUFFER_EOL_NUL:
		p = n > s ? memchr(d + s, 0, n - s) : NULL;
		if (!p) return -1;
		*eol_len = 1; return p - d;
	}
	return -1;
}
static ev_ssize_t m_search(const uint8_t *d, size_t n, const uint8_t *what, size_t len, size_t s, int have_end, size_t e)
{
	size_t i;
	if (len == 0) return (ev_ssize_t)s;      /* CALIBRATED: an empty needle is "found" at the start position */
	if (s > n || n - s < len) return -1;
	for (i = s; i + len <= n; i++) {
		const uint8_t *p = memchr(d + i, what[0], n - len + 1 - i);
		if (!p) return -1;
		i = (size_t)(p - d);
		if (!memcmp(p, what, len)) {
			if (have_end && i + len > e) return -1;
			return (ev_ssize_t)i;
		}
	}
	return -1;
}

/* ------------------------------------------------------------------ crash probe
 * A call that is known to corrupt memory on the current tree would kill the whole shard.  When the
 * (internal) precondition of such a defect holds, the call is first tried in a forked child; if the
 * child dies the parent reports the violation and skips the call, otherwise it proceeds normally. */
static int dies_in_child(int cls, void (*fn)(void *), void *arg)
{
	/* The library does not change while this process runs: the first probe of a defect class decides for the
	 * rest of the process (a sanitizer report in the child costs ~0.5 s). */
	static int cache[4] = { -1, -1, -1, -1 };
	int st = 0;
	pid_t p;
	if (cls >= 0 && cache[cls] >= 0) return cache[cls];
	fflush(stdout);
	p = fork();
	if (p < 0) return 0;
	if (p == 0) {
		int fd = open("/dev/null", O_WRONLY);
		if (fd >= 0) dup2(fd, 2);
		mf_arm(0);          /* the probe is about the defect itself, not about an injected allocation failure */
		fn(arg);
		_exit(0);
	}
	while (waitpid(p, &st, 0) < 0 && errno == EINTR) ;
	st = WIFSIGNALED(st) || (WIFEXITED(st) && WEXITSTATUS(st) != 0);
	if (cls >= 0) cache[cls] = st;
	return st;
}
static void snap_restore_bufref(struct mbuf *A, size_t L) { A->m.n -= L; A->cumA -= L; A->taint_mc = 0; }
struct two_bufs { struct evbuffer *dst, *src; };
static void call_bufref(void *a) { struct two_bufs *t = a; evbuffer_add_buffer_reference(t->dst, t->src); }
static int has_unreferencable(struct evbuffer *eb)
{
	struct evbuffer_chain *ch;
	for (ch = eb->first; ch; ch = ch->next) if (ch->flags & (EVBUFFER_FILESEGMENT | EVBUFFER_SENDFILE | EVBUFFER_MULTICAST)) return 1;
	return 0;
}
struct pullup_args { struct evbuffer *eb; ev_ssize_t size; };
static void call_pullup(void *a) { struct pullup_args *t = a; evbuffer_pullup(t->eb, t->size); }
/* pullup would copy into the spare room of a shared read-only first chain from a chain that lives in the same memory */
static int pullup_would_overlap(struct evbuffer *eb, size_t size)
{
	struct evbuffer_chain *ch = eb->first, *c;
	const unsigned char *d0, *d1;
	if (!ch || !(ch->flags & EVBUFFER_IMMUTABLE) || ch->off >= size || ch->misalign < 0 || ch->buffer_len - (size_t)ch->misalign < size) return 0;
	d0 = ch->buffer + ch->misalign + ch->off; d1 = d0 + (size - ch->off);
	for (c = ch->next; c; c = c->next) {
		const unsigned char *s0 = c->buffer + c->misalign, *s1 = s0 + c->off;
		if (c->off && s0 < d1 && d0 < s1) return 1;
	}
	return 0;
}
struct rsv_args { struct evbuffer *eb; int nv; };
static void call_reserve0(void *a) { struct rsv_args *t = a; struct evbuffer_iovec v[4]; evbuffer_reserve_space(t->eb, 0, v, t->nv); }

/* ------------------------------------------------------------------ op execution */
static long opcount[OP__N], opfail[OP__N];
static long c_search_found, c_search_span, c_eol_found, c_eol_span, c_readln_lines, c_pullup_ptr, c_peek_extents,
	c_ptr_ok, c_ptr_oob, c_frozen_refusals, c_ref_added, c_bufref_ok, c_moves, c_commit, c_either, c_noop_moves;

/* set p to an absolute position; returns 0 if it is a valid pointer afterwards */
static int set_ptr(const struct op *o, struct mbuf *mb, struct evbuffer_ptr *p, size_t pos)
{
	int r = evbuffer_ptr_set(mb->eb, p, pos, EVBUFFER_PTR_SET);
	if (pos <= mb->m.n) {
		if (r != 0 || p->pos != (ev_ssize_t)pos) { viol(o, "ptr_set", "ptr_set(SET,%zu) on length %zu returned %d pos=%zd", pos, mb->m.n, r, (ssize_t)p->pos); return -1; }
		c_ptr_ok++;
		return 0;
	}
	if (r != -1 || p->pos != -1) { viol(o, "ptr_set", "ptr_set(SET,%zu) beyond length %zu returned %d pos=%zd", pos, mb->m.n, r, (ssize_t)p->pos); return -1; }
	c_ptr_oob++;
	return 1;
}
/* a valid pointer must address the model byte at its position */
static void probe_ptr(const struct op *o, struct mbuf *mb, struct evbuffer_ptr *p, size_t pos)
{
	uint8_t c = 0; ev_ssize_t r;
	if (mb->fz_start || W.aborted) return;
	r = evbuffer_copyout_from(mb->eb, p, &c, 1);
	if (pos < mb->m.n) {
		if (r != 1 || c != MD(&mb->m)[pos]) viol(o, "ptr-deref", "copyout_from(ptr@%zu,1) returned %zd byte %#x, model byte %#x", pos, (ssize_t)r, c, MD(&mb->m)[pos]);
	} else if (r != 0) viol(o, "ptr-deref", "copyout_from(end ptr) returned %zd", (ssize_t)r);
}
static size_t pick_pos(vh_rng *r, size_t len)
{
	switch (vh_below(r, 6)) { case 0: return 0; case 1: return len; case 2: return len ? len - 1 : 0; default: return (size_t)vh_below(r, len + 1); }
}
static void mark_removed_all(const struct op *o, struct mbuf *mb, int judge)
{
	int j;
	for (j = 0; j < mb->ncb; j++) {
		struct cbrec *rec = mb->cbs[j];
		if (judge && mb->cumA == mb->flushA && mb->cumD == mb->flushD) cb_judge_sums(o, rec, "at removal");
		rec->removed = 1;
	}
	mb->ncb = 0;
}

static void do_loop(const struct op *o)
{
	struct cbrec *rec; int i, j;
	if (!W.base) return;
	for (rec = W.allcbs; rec; rec = rec->next_all) rec->inv_this_step = 0;
	for (i = 0; i < W.nb; i++) memset(W.b[i].reent_dirty, 0, sizeof(W.b[i].reent_dirty));
	W.step_has_reentry = 0; W.in_loop = 1; W.multistep = 0; W.reentry_ok = 1;
	event_base_loop(W.base, EVLOOP_NONBLOCK);
	W.in_loop = 0;
	vh_stat("loop_steps");
	for (i = 0; i < W.nb && !W.aborted; i++) {
		struct mbuf *mb = &W.b[i];
		if (!mb->deferred) continue;
		if (mb->cumA != mb->flushA || mb->cumD != mb->flushD) vh_stat("deferred_flushes_with_pending");
		mb->flushA = mb->cumA; mb->flushD = mb->cumD;
		for (j = 0; j < mb->ncb && !W.aborted; j++) {
			rec = mb->cbs[j];
			/* one aggregated report per loop turn */
			if (rec->inv_this_step > 1 && !W.step_has_reentry && !(rec->flags & EVBUFFER_CB_NODEFER))
				viol(o, "cb:deferred-more-than-once-per-turn", "callback %d of deferred buffer %d ran %ld times in one loop turn", rec->id, i, rec->inv_this_step);
			if (rec->inv_this_step == 1) vh_stat("cb_deferred_aggregated_reports");
			cb_judge_sums(o, rec, "after loop turn");
		}
	}
}

static void exec_op(struct op *o)
{
	vh_rng dr;
	struct mbuf *A = &W.b[o->a], *B = &W.b[o->b];
	int i, involved_b = -1;
	vh_rng_seed(&dr, o->dseed);
	W.multistep = 0; W.reentry_ok = 1; W.cb_depth = 0; W.fault_reverted = 0; W.cb_anomaly[0] = 0;
	for (i = 0; i < W.nb; i++) memset(W.b[i].reent_dirty, 0, sizeof(W.b[i].reent_dirty));
	if (g_opno < 256) g_hist[g_opno] = *o;
	opcount[o->kind]++;
	W.h = vh_hash_bytes(W.h, o, offsetof(struct op, dseed));
	if (vh_opt.verbose > 1)
		fprintf(stderr, "  op#%d %s a=%d(len %zu) b=%d(len %zu) n=%zu n2=%zu v=%d/%d/%d\n", g_opno, opname[o->kind], o->a, A->m.n, o->b, B->m.n, o->n, o->n2, o->v1, o->v2, o->v3);

	switch (o->kind) {
	case OP_ADD: {
		int exp = A->fz_end ? -1 : 0, r;   /* CALIBRATED: even a 0-byte add fails on a frozen end */
		gen_bytes(&dr, g_tmp, o->n);
		if (exp == 0) { mv_append(&A->m, g_tmp, o->n); A->cumA += o->n; if (o->n) W.nontrivial |= 2; }
		r = evbuffer_add(A->eb, g_tmp, o->n);
		A->ptr_ok = 0;
		if (r == -1 && exp == 0 && failed_by_fault()) { opfail[o->kind]++; break; }
		if (r != exp) viol(o, "ret", "returned %d, model expects %d (frozen_end=%d)", r, exp, A->fz_end);
		if (exp) c_frozen_refusals++;
		break; }
	case OP_PREPEND: {
		int exp = o->n == 0 ? 0 : A->fz_start ? -1 : 0, r;   /* CALIBRATED: 0-byte prepend succeeds even when frozen */
		gen_bytes(&dr, g_tmp, o->n);
		if (exp == 0) { mv_prepend(&A->m, g_tmp, o->n); A->cumA += o->n; if (o->n) W.nontrivial |= 2; }
		r = evbuffer_prepend(A->eb, g_tmp, o->n);
		A->ptr_ok = 0;
		if (r == -1 && exp == 0 && failed_by_fault()) { opfail[o->kind]++; break; }
		if (r != exp) viol(o, "ret", "returned %d, model expects %d (frozen_start=%d)", r, exp, A->fz_start);
		if (exp) c_frozen_refusals++;
		break; }
	case OP_PRINTF: {
		char *s = (char *)g_tmp, *e = (char *)g_out;
		size_t L = o->n, k;
		int num = (int)vh_below(&dr, 2000000) - 1000000, explen = 0, r = 0;
		for (k = 0; k < L; k++) { unsigned x = (unsigned)vh_below(&dr, 40); s[k] = x < 26 ? (char)('a' + x) : x < 36 ? (char)('0' + x - 26) : "\n\r :"[x - 36]; }
		s[L] = 0;
		switch (o->v1) {
		case 0: explen = snprintf(e, g_cap, "%s", s); break;
		case 1: explen = snprintf(e, g_cap, "%d", num); break;
		case 2: explen = snprintf(e, g_cap, "[%*d]", (int)L, num); break;
		case 3: explen = snprintf(e, g_cap, "%s=%u;%c%%", s, (unsigned)num, 'x'); break;
		default: explen = snprintf(e, g_cap, "%-*s|%x", (int)(L + 3), s, (unsigned)num); break;
		}
		if (!A->fz_end) { mv_append(&A->m, e, (size_t)explen); A->cumA += (size_t)explen; }
		switch (o->v1) {
		case 0: r = evbuffer_add_printf(A->eb, "%s", s); break;
		case 1: r = evbuffer_add_printf(A->eb, "%d", num); break;
		case 2: r = evbuffer_add_printf(A->eb, "[%*d]", (int)L, num); break;
		case 3: r = evbuffer_add_printf(A->eb, "%s=%u;%c%%", s, (unsigned)num, 'x'); break;
		default: r = evbuffer_add_printf(A->eb, "%-*s|%x", (int)(L + 3), s, (unsigned)num); break;
		}
		A->ptr_ok = 0;
		if (r == -1 && !A->fz_end && failed_by_fault()) { opfail[o->kind]++; break; }
		if (r != (A->fz_end ? -1 : explen)) viol(o, "ret", "returned %d, model expects %d (frozen_end=%d)", r, A->fz_end ? -1 : explen, A->fz_end);
		if (A->fz_end) c_frozen_refusals++; else if (explen > 64) vh_stat("printf_regrow");
		break; }
	case OP_ADDBUF: case OP_PREPBUF: {
		/* dst=a src=b.  CALIBRATED: empty source or dst==src is a successful no-op checked before the freeze flags */
		int exp, r, dst_frozen = o->kind == OP_ADDBUF ? A->fz_end : A->fz_start;
		size_t L = B->m.n;
		involved_b = o->b;
		if (L == 0 || o->a == o->b) { exp = 0; c_noop_moves++; }
		else if (dst_frozen || B->fz_start) { exp = -1; c_frozen_refusals++; }
		else {
			exp = 0;
			if (o->kind == OP_ADDBUF) mv_append(&A->m, MD(&B->m), L); else mv_prepend(&A->m, MD(&B->m), L);
			mv_drain(&B->m, L);
			A->cumA += L; B->cumD += L; A->taint_mc |= B->taint_mc; B->taint_mc = 0;
			c_moves++; W.nontrivial |= 2;
		}
		r = o->kind == OP_ADDBUF ? evbuffer_add_buffer(A->eb, B->eb) : evbuffer_prepend_buffer(A->eb, B->eb);
		A->ptr_ok = B->ptr_ok = 0;
		if (r == -1 && exp == 0 && failed_by_fault()) { opfail[o->kind]++; break; }
		if (r != exp) viol(o, "ret", "returned %d, model expects %d (src len %zu, same=%d, dst frozen=%d, src frozen_start=%d)", r, exp, L, o->a == o->b, dst_frozen, B->fz_start);
		break; }
	case OP_REMBUF: {
		/* src=a dst=b */
		int exp, r; size_t k = 0;
		involved_b = o->b;
		if (o->n == 0 || o->a == o->b) { exp = 0; c_noop_moves++; }
		else if (B->fz_end || A->fz_start) { exp = -1; c_frozen_refusals++; }   /* CALIBRATED: checked before "source empty" */
		else {
			k = o->n < A->m.n ? o->n : A->m.n;
			exp = (int)k;
			if (k) {
				mv_append(&B->m, MD(&A->m), k); mv_drain(&A->m, k);
				A->cumD += k; B->cumA += k; B->taint_mc |= A->taint_mc; if (A->m.n == 0) A->taint_mc = 0;
				c_moves++; W.nontrivial |= 2;
			}
		}
		W.multistep = 1; W.reentry_ok = 0;
		r = evbuffer_remove_buffer(A->eb, B->eb, o->n);
		A->ptr_ok = B->ptr_ok = 0;
		if (r == -1 && exp >= 0 && failed_by_fault()) { opfail[o->kind]++; break; }
		if (r >= 0 && r < exp && fault_hit() && W.snap_ok) {
			/* size-returning op under an allocation failure: a smaller count is fine if exactly that much moved */
			snap_restore(); W.fault_reverted = 1; opfail[o->kind]++;
			mv_append(&B->m, MD(&A->m), (size_t)r); mv_drain(&A->m, (size_t)r);
			A->cumD += (size_t)r; B->cumA += (size_t)r; B->taint_mc |= A->taint_mc;
			break;
		}
		if (r != exp) viol(o, "ret", "returned %d, model expects %d (asked %zu)", r, exp, o->n);
		break; }
	case OP_DRAIN: {
		int exp, r;
		if (A->m.n == 0) exp = 0;
		else if (A->fz_start) { exp = -1; c_frozen_refusals++; }   /* CALIBRATED: also for drain(0) of a non-empty buffer */
		else { size_t k = o->n < A->m.n ? o->n : A->m.n; exp = 0; mv_drain(&A->m, k); A->cumD += k; if (A->m.n == 0) A->taint_mc = 0; if (k) W.nontrivial |= 2; }
		r = evbuffer_drain(A->eb, o->n);
		A->ptr_ok = 0;
		if (r != exp) viol(o, "ret", "returned %d, model expects %d", r, exp);
		break; }
	case OP_REMOVE: case OP_COPYOUT: {
		size_t k = o->n < A->m.n ? o->n : A->m.n; ev_ssize_t exp, r;
		if (k == 0) exp = 0;
		else if (A->fz_start) { exp = -1; c_frozen_refusals++; }
		else {
			exp = (ev_ssize_t)k;
			memcpy(g_tmp, MD(&A->m), k);
			if (o->kind == OP_REMOVE) { mv_drain(&A->m, k); A->cumD += k; if (A->m.n == 0) A->taint_mc = 0; W.nontrivial |= 2; }
		}
		memset(g_out, 0xEE, k < 32 ? k : 32);
		if (o->kind == OP_REMOVE) { r = evbuffer_remove(A->eb, g_out, o->n); A->ptr_ok = 0; }
		else r = evbuffer_copyout(A->eb, g_out, o->n);
		if (r != exp) { viol(o, "ret", "returned %zd, model expects %zd (asked %zu)", (ssize_t)r, (ssize_t)exp, o->n); break; }
		if (exp > 0 && memcmp(g_out, g_tmp, k)) viol(o, "data", "bytes delivered differ from the model's first %zu bytes", k);
		break; }
	case OP_COPYFROM: {
		size_t pos = o->n2 <= A->m.n ? o->n2 : A->m.n, k; struct evbuffer_ptr p; ev_ssize_t exp, r;
		if (set_ptr(o, A, &p, pos) != 0) break;
		k = A->m.n - pos; if (o->n < k) k = o->n;
		exp = k == 0 ? 0 : A->fz_start ? -1 : (ev_ssize_t)k;
		r = evbuffer_copyout_from(A->eb, &p, g_out, o->n);
		if (r != exp) { viol(o, "ret", "copyout_from(pos %zu, %zu) returned %zd, model expects %zd", pos, o->n, (ssize_t)r, (ssize_t)exp); break; }
		if (exp > 0 && memcmp(g_out, MD(&A->m) + pos, k)) viol(o, "data", "bytes at %zu..+%zu differ from the model", pos, k);
		break; }
	case OP_PULLUP: {
		ev_ssize_t arg = o->v1 ? -1 : (ev_ssize_t)o->n; size_t size = o->v1 ? A->m.n : o->n; unsigned char *p;
		int expnull = (size == 0 || size > A->m.n);
		if (!expnull && pullup_would_overlap(A->eb, size)) {
			struct pullup_args t = { A->eb, arg };
			vh_stat("crash_probes");
			if (dies_in_child(-1, call_pullup, &t)) {
				g_soft = 1; viol(o, "crash:overlapping-copy-in-shared-chain", "pullup(%zd) copies into the spare room of its read-only (shared) first chain from a later chain that lives in the same memory: memcpy with overlapping ranges (sanitizer abort in a forked probe)", (ssize_t)arg);
				break;
			}
		}
		{
			struct evbuffer_chain *fc = A->eb->first;
			int fimm = fc && (fc->flags & EVBUFFER_IMMUTABLE);
			size_t foff = fc ? fc->off : 0;
			p = evbuffer_pullup(A->eb, arg);
			/* invariant: the memory of a read-only chain (user reference, or shared through add_buffer_reference) is never written */
			if (p && fimm && A->eb->first == fc && fc->off > foff) {
				W.shared_write = 1;
				g_soft = 1; viol(o, "inv:immutable-chain-extended", "pullup(%zd) copied %zu bytes into the spare room behind the data of its first chain although that chain is IMMUTABLE (flags %#x): memory shared with other buffers / owned by the user was written",
					(ssize_t)arg, fc->off - foff, fc->flags);
			}
		}
		A->ptr_ok = 0;
		if (!p && !expnull && failed_by_fault()) { opfail[o->kind]++; break; }
		if ((p == NULL) != expnull) { viol(o, "ret", "pullup(%zd) on length %zu returned %s", (ssize_t)arg, A->m.n, p ? "a pointer" : "NULL"); break; }
		if (p) { c_pullup_ptr++; if (memcmp(p, MD(&A->m), size)) viol(o, "data", "the %zu contiguous bytes returned differ from the model", size); }
		break; }
	case OP_EXPAND: {
		int r = evbuffer_expand(A->eb, o->n);   /* ignores the freeze flags */
		A->ptr_ok = 0;
		if (r == -1 && failed_by_fault()) { opfail[o->kind]++; break; }
		if (r != 0) viol(o, "ret", "expand(%zu) returned %d", o->n, r);
		break; }
	case OP_RESERVE: {
		struct evbuffer_iovec v[4]; int nv = o->v1, plan = o->v2, r, nvc, rc; size_t size = o->n, tot = 0, want, done = 0;
		memset(v, 0, sizeof(v));
		if (size == 0 && nv >= 2 && !A->fz_end && A->eb->last && !(A->eb->last->flags & EVBUFFER_IMMUTABLE) &&
		    *A->eb->last_with_datap == A->eb->last && A->eb->last->off &&
		    A->eb->last->buffer_len == (size_t)A->eb->last->misalign + A->eb->last->off) {
			/* the last chain is writable, holds data and is exactly full */
			struct rsv_args t = { A->eb, nv };
			vh_stat("crash_probes");
			if (dies_in_child(1, call_reserve0, &t)) {
				g_soft = 1; viol(o, "abort:size0-no-free-space", "reserve_space(buf, 0, vec, %d) on a buffer (length %zu) whose chains have no free space aborts (EVUTIL_ASSERT(chain) in evbuffer_read_setup_vecs_; probe ran in a forked child)", nv, A->m.n);
				break;
			}
		}
		r = evbuffer_reserve_space(A->eb, (ev_ssize_t)size, v, nv);
		A->ptr_ok = 0;
		if (A->fz_end) { c_frozen_refusals++; if (r != -1) viol(o, "ret", "reserve_space on frozen end returned %d", r); break; }
		if (r == -1) { if (failed_by_fault()) { opfail[o->kind]++; break; } viol(o, "ret", "reserve_space(%zu,%d) failed", size, nv); break; }
		/* CALIBRATED: size 0 with n_vec>=2 yields 0 extents */
		if (r > nv || (r == 0 && !(size == 0 && nv >= 2))) { viol(o, "extents", "reserve_space(%zu,%d) returned %d extents", size, nv, r); break; }
		for (i = 0; i < r; i++) tot += v[i].iov_len;
		if (tot < size) { viol(o, "space", "reserve_space(%zu,%d) made only %zu bytes available in %d extents", size, nv, tot, r); break; }
		if (plan == 0 || r == 0) break;     /* reservation abandoned */
		want = plan == 1 ? size : plan == 2 ? (size_t)vh_below(&dr, size + 1) : plan == 3 ? (tot < 70000 ? tot : 70000) : size;
		nvc = (plan == 4 && r > 1) ? 1 : r;
		if (plan == 5) {
			evbuffer_freeze(A->eb, 0);
			rc = evbuffer_commit_space(A->eb, v, nvc);
			evbuffer_unfreeze(A->eb, 0);
			if (rc != -1) viol(o, "commit-frozen", "commit_space on frozen end returned %d", rc);
			c_frozen_refusals++;
			break;
		}
		for (i = 0; i < nvc; i++) {
			size_t take = v[i].iov_len < want - done ? v[i].iov_len : want - done;
			if (plan == 6 && i == 0 && nvc > 1) take = 0;   /* leave the first extent unused */
			gen_bytes(&dr, v[i].iov_base, take);
			mv_append(&A->m, v[i].iov_base, take);
			v[i].iov_len = take; done += take;
		}
		A->cumA += done;
		rc = evbuffer_commit_space(A->eb, v, nvc);
		if (rc != 0) viol(o, "commit-ret", "commit_space of %zu bytes in %d extents returned %d", done, nvc, rc);
		c_commit++; if (done) W.nontrivial |= 2;
		break; }
	case OP_IOVEC: {
		struct evbuffer_iovec v[4]; size_t lens[4], tot = 0, r, exp; int k = o->v1;
		for (i = 0; i < k; i++) { lens[i] = i == 0 ? o->n : i == 1 ? o->n2 : (size_t)vh_below(&dr, 1500); tot += lens[i]; }
		gen_bytes(&dr, g_tmp, tot);
		{ size_t at = 0; for (i = 0; i < k; i++) { v[i].iov_base = g_tmp + at; v[i].iov_len = lens[i]; at += lens[i]; } }
		exp = A->fz_end ? 0 : tot;    /* CALIBRATED: reports 0 bytes on a frozen end */
		if (!A->fz_end) { mv_append(&A->m, g_tmp, tot); A->cumA += tot; if (tot) W.nontrivial |= 2; } else c_frozen_refusals++;
		W.multistep = 1; W.reentry_ok = 0;
		r = evbuffer_add_iovec(A->eb, v, k);
		A->ptr_ok = 0;
		if (r != exp) {
			size_t pre = 0; int ok = 0;
			if (fault_hit() && !A->fz_end && W.snap_ok) {
				for (i = 0; i <= k; i++) { if (pre == r) { ok = 1; break; } if (i < k) pre += lens[i]; }
				if (ok) { snap_restore(); mv_append(&A->m, g_tmp, r); A->cumA += r; W.fault_reverted = 1; opfail[o->kind]++; break; }
			}
			viol(o, "ret", "add_iovec of %d extents (%zu bytes) returned %zu, model expects %zu", k, tot, r, exp);
		}
		break; }
	case OP_PEEK: {
		struct evbuffer_iovec v[8]; int nv = o->v1, r, k; ev_ssize_t len = o->v3 ? -1 : (ev_ssize_t)o->n;
		size_t s = 0, avail, tot = 0, need, before_last = 0; struct evbuffer_ptr p, *pp = NULL;
		if (o->v2) { s = o->n2 <= A->m.n ? o->n2 : A->m.n; if (set_ptr(o, A, &p, s) != 0) break; pp = &p; }
		avail = A->m.n - s;
		memset(v, 0, sizeof(v));
		r = evbuffer_peek(A->eb, len, pp, v, nv);
		if (pp && s == A->m.n) { if (r != 0) viol(o, "ret", "peek from the end position returned %d", r); break; }
		if (r < 0) { viol(o, "ret", "peek returned %d", r); break; }
		need = (len < 0 || (size_t)len > avail) ? avail : (size_t)len;
again:
		k = r < nv ? r : nv; tot = 0; before_last = 0;
		for (i = 0; i < k; i++) {
			if (tot + v[i].iov_len > avail) { viol(o, "extent", "extent %d of %d (len %zu) runs past the end of the data (%zu of %zu so far)", i, r, v[i].iov_len, tot, avail); break; }
			if (v[i].iov_len && memcmp(v[i].iov_base, MD(&A->m) + s + tot, v[i].iov_len)) { viol(o, "data", "extent %d of %d differs from model bytes at %zu", i, r, s + tot); break; }
			if (i == k - 1) before_last = tot;
			tot += v[i].iov_len;
		}
		if (W.aborted) break;
		c_peek_extents += k;
		if (r <= nv && nv > 0) {
			if (len >= 0 && tot < need) viol(o, "short", "peek(len=%zd) returned %d extents holding %zu bytes although %zu are available", (ssize_t)len, r, tot, avail);
			else if (len < 0 && r < nv && tot != avail) viol(o, "short", "peek(len=-1) used %d of %d extents but delivered %zu of %zu bytes", r, nv, tot, avail);
			/* "number of extents needed": every extent but the last was needed.  CALIBRATED: with start_at at least 1 */
			else if (len >= 0 && r >= (pp ? 2 : 1) && before_last >= (size_t)len) viol(o, "extents", "peek(len=%zd) returned %d extents; the first %d already hold %zu bytes", (ssize_t)len, r, r - 1, before_last);
		} else if (nv == 0) {
			if (r == 0 && need > 0) viol(o, "ret", "peek(len=%zd, n_vec=0) says 0 extents needed for %zu bytes", (ssize_t)len, need);
			else if (r >= 1 && r <= 8) {
				int r2; nv = r;
				r2 = evbuffer_peek(A->eb, len, pp, v, nv);
				if (r2 != r) { viol(o, "ret", "peek said %d extents are needed, then returned %d when given %d", r, r2, nv); break; }
				goto again;
			}
		}
		break; }
	case OP_SEARCH: {
		uint8_t needle[64]; size_t nl = 0, len = A->m.n, s = 0, e = 0; int use_start = o->v2 & 1, use_end = o->v2 & 2;
		struct evbuffer_ptr ps, pe, res; ev_ssize_t exp;
		switch (o->v1) {
		case 0: case 2:
			if (len) {
				size_t mx = vh_chance(&dr, 1, 4) ? 40 : 6, at;
				if (mx > len) mx = len;
				nl = 1 + (size_t)vh_below(&dr, mx); at = (size_t)vh_below(&dr, len - nl + 1);
				if (nl >= 2 && vh_chance(&dr, 1, 2)) {
					/* workload only: aim the needle across a seam between two chains */
					struct evbuffer_chain *ch; size_t seams[16], ns = 0, posn = 0;
					for (ch = A->eb->first; ch && ns < 16; ch = ch->next) { posn += ch->off; if (ch->off && posn < len) seams[ns++] = posn; }
					if (ns) {
						size_t b = seams[vh_below(&dr, ns)], back = 1 + (size_t)vh_below(&dr, nl - 1);
						if (b >= back && b - back + nl <= len) at = b - back;
					}
				}
				memcpy(needle, MD(&A->m) + at, nl);
				if (o->v1 == 2) needle[nl - 1] ^= 0x55;
			} else { nl = 1; needle[0] = 'a'; }
			break;
		case 1: nl = 1 + (size_t)vh_below(&dr, 3); gen_bytes(&dr, needle, nl); break;
		default: nl = 0; needle[0] = 0; break;
		}
		if (use_start) { s = pick_pos(&dr, len); if (set_ptr(o, A, &ps, s) != 0) break; }
		if (use_end) { e = pick_pos(&dr, len); if (set_ptr(o, A, &pe, e) != 0) break; }
		exp = m_search(MD(&A->m), len, needle, nl, s, use_end, e);
		if (use_end) res = evbuffer_search_range(A->eb, (char *)needle, nl, use_start ? &ps : NULL, &pe);
		else res = evbuffer_search(A->eb, (char *)needle, nl, use_start ? &ps : NULL);
		if (res.pos != exp) { viol(o, "pos", "search(needle len %zu, start %s%zu, end %s%zu) on length %zu returned %zd, model %zd", nl, use_start ? "" : "none/", s, use_end ? "" : "none/", e, len, (ssize_t)res.pos, (ssize_t)exp); break; }
		if (exp >= 0 && nl) {
			c_search_found++;
			if (chain_span(A->eb, (size_t)exp, nl) > 1) c_search_span++;
			probe_ptr(o, A, &res, (size_t)exp);
			A->ptr = res; A->ptr_ok = 1; A->ptr_pos = (size_t)exp;
		}
		break; }
	case OP_EOL: {
		size_t s = 0, el = 99, mel; struct evbuffer_ptr ps, res; ev_ssize_t exp;
		if (o->v2) { s = pick_pos(&dr, A->m.n); if (set_ptr(o, A, &ps, s) != 0) break; }
		exp = m_eol(MD(&A->m), A->m.n, s, o->v1, &mel);
		res = evbuffer_search_eol(A->eb, o->v2 ? &ps : NULL, &el, (enum evbuffer_eol_style)o->v1);
		if (res.pos != exp) { viol(o, "pos", "search_eol(style %d, start %zu) returned %zd, model %zd", o->v1, s, (ssize_t)res.pos, (ssize_t)exp); break; }
		if (exp >= 0 && el != mel) { viol(o, "eol_len", "search_eol(style %d) at %zd reported eol length %zu, model %zu", o->v1, (ssize_t)exp, el, mel); break; }
		if (exp >= 0) {
			c_eol_found++;
			if (mel >= 2 && chain_span(A->eb, (size_t)exp, mel) > 1) c_eol_span++;
			probe_ptr(o, A, &res, (size_t)exp);
		}
		break; }
	case OP_READLN: {
		size_t mel = 0, nread = 12345; ev_ssize_t pos = -1; char *line; int expect = 0;
		if (!A->fz_start) pos = m_eol(MD(&A->m), A->m.n, 0, o->v1, &mel); else c_frozen_refusals++;
		if (pos >= 0) {
			expect = 1;
			memcpy(g_tmp, MD(&A->m), (size_t)pos);
			if (mel >= 2 && chain_span(A->eb, (size_t)pos, mel) > 1) c_eol_span++;
			mv_drain(&A->m, (size_t)pos + mel); A->cumD += (size_t)pos + mel; if (A->m.n == 0) A->taint_mc = 0;
			W.nontrivial |= 2;
		}
		W.multistep = 1; W.reentry_ok = 0;
		line = evbuffer_readln(A->eb, &nread, (enum evbuffer_eol_style)o->v1);
		A->ptr_ok = 0;
		if (!line && expect && failed_by_fault()) { opfail[o->kind]++; if (nread != 0) viol(o, "n_read", "failed readln set n_read_out=%zu", nread); break; }
		if ((line != NULL) != expect) viol(o, "ret", "readln(style %d) returned %s, model expects %s (line at %zd)", o->v1, line ? "a line" : "NULL", expect ? "a line" : "NULL", (ssize_t)pos);
		else if (line) {
			c_readln_lines++;
			if (nread != (size_t)pos) viol(o, "n_read", "readln reported %zu characters, model line has %zd", nread, (ssize_t)pos);
			else if (memcmp(line, g_tmp, (size_t)pos) || line[pos] != 0) viol(o, "data", "line of %zd bytes differs from the model (or is not NUL-terminated)", (ssize_t)pos);
		} else if (nread != 0) viol(o, "n_read", "readln returned NULL but n_read_out=%zu", nread);
		if (line) mm_free(line);
		break; }
	case OP_PTRSET: {
		struct evbuffer_ptr p; int r;
		if (o->v1 == 0) {            /* SET, possibly out of range */
			if (set_ptr(o, A, &p, o->n) == 0) { probe_ptr(o, A, &p, o->n); A->ptr = p; A->ptr_ok = 1; A->ptr_pos = o->n; }
		} else if (o->v1 == 1) {     /* ADD to a valid pointer */
			size_t base;
			if (A->ptr_ok) { p = A->ptr; base = A->ptr_pos; }
			else { base = pick_pos(&dr, A->m.n); if (set_ptr(o, A, &p, base) != 0) break; }
			r = evbuffer_ptr_set(A->eb, &p, o->n2, EVBUFFER_PTR_ADD);
			if (base + o->n2 <= A->m.n) {
				if (r != 0 || p.pos != (ev_ssize_t)(base + o->n2)) { viol(o, "add", "ptr_set(ADD,%zu) from %zu on length %zu returned %d pos=%zd", o->n2, base, A->m.n, r, (ssize_t)p.pos); break; }
				c_ptr_ok++;
				probe_ptr(o, A, &p, base + o->n2);
				A->ptr = p; A->ptr_ok = 1; A->ptr_pos = base + o->n2;
			} else {
				if (r != -1 || p.pos != -1) viol(o, "add", "ptr_set(ADD,%zu) from %zu beyond length %zu returned %d pos=%zd", o->n2, base, A->m.n, r, (ssize_t)p.pos);
				c_ptr_oob++; A->ptr_ok = 0;
			}
		} else {                     /* ADD to an invalid pointer */
			if (set_ptr(o, A, &p, A->m.n + 1 + o->n2) != 1) break;
			r = evbuffer_ptr_set(A->eb, &p, o->n2 & 1, EVBUFFER_PTR_ADD);
			if (r != -1 || p.pos != -1) viol(o, "add-invalid", "ptr_set(ADD) on an invalid pointer returned %d pos=%zd", r, (ssize_t)p.pos);
			c_ptr_oob++;
		}
		break; }
	case OP_FREEZE: {
		int r = o->v2 ? evbuffer_freeze(A->eb, o->v1) : evbuffer_unfreeze(A->eb, o->v1);
		if (r != 0) viol(o, "ret", "returned %d", r);
		if (o->v1) A->fz_start = o->v2; else A->fz_end = o->v2;
		if (o->v2) vh_stat("freezes");
		break; }
	case OP_ADDREF: {
		struct refrec *rr = calloc(1, sizeof(*rr)); size_t off = o->n2; int exp = A->fz_end ? -1 : 0, r;
		rr->total = off + o->n; rr->block = malloc(rr->total ? rr->total : 1);
		gen_bytes(&dr, rr->block, rr->total); rr->sum = sum_bytes(rr->block, rr->total);
		rr->next = W.refs; W.refs = rr; W.refs_live++;
		if (exp == 0) { mv_append(&A->m, rr->block + off, o->n); A->cumA += o->n; }
		r = off ? evbuffer_add_reference_with_offset(A->eb, rr->block, off, o->n, ref_cleanup, rr)
			: evbuffer_add_reference(A->eb, rr->block, o->n, ref_cleanup, rr);
		A->ptr_ok = 0;
		if (r == -1) {
			int byfault = (exp == 0 && failed_by_fault());
			if (rr->cleaned) viol(o, "cleanup-on-failure", "add_reference failed but invoked the cleanup callback");
			else { rr->cleaned = 1; W.refs_live--; free(rr->block); rr->block = NULL; }
			if (byfault) { opfail[o->kind]++; break; }
			if (exp == -1) c_frozen_refusals++;
		} else { c_ref_added++; if (o->n) W.nontrivial |= 2; }
		if (r != exp) viol(o, "ret", "returned %d, model expects %d", r, exp);
		break; }
	case OP_BUFREF: {
		/* dst=a src=b */
		int exp, r; size_t L = B->m.n;
		involved_b = o->b;
		if (L == 0) exp = 0;                                       /* CALIBRATED: empty source: no-op success, before any other test */
		else if (A->fz_end || o->a == o->b) { exp = -1; if (A->fz_end) c_frozen_refusals++; }
		else if (B->taint_mc) exp = 2;                             /* source may hold multicast chains: "can't be added" => either outcome */
		else exp = 0;
		if (exp == 0 && L && o->a != o->b) { mv_append(&A->m, MD(&B->m), L); A->cumA += L; A->taint_mc = 1; W.nontrivial |= 2; }
		if (exp == 2) { W.multistep = 1; W.reentry_ok = 0; }
		if (L && o->a != o->b && !A->fz_end && A->eb->total_len == 0 && A->eb->first != NULL && !has_unreferencable(B->eb)) {
			/* destination is empty but still owns an (empty) chain */
			struct two_bufs t = { A->eb, B->eb };
			vh_stat("crash_probes");
			if (dies_in_child(0, call_bufref, &t)) {
				if (exp == 0) snap_restore_bufref(A, L);
				g_soft = 1; viol(o, "crash:empty-dst-with-chain", "add_buffer_reference(dst,src) with dst empty but still owning an empty chain (after expand/reserve) and src holding %zu bytes crashes (sanitizer abort in a forked probe): evbuffer_free_all_chains(dst->first) leaves dst->first dangling", L);
				break;
			}
		}
		r = evbuffer_add_buffer_reference(A->eb, B->eb);
		A->ptr_ok = B->ptr_ok = 0;
		if (exp == 2) {
			c_either++;
			if (r == 0) { mv_append(&A->m, MD(&B->m), L); A->cumA += L; A->taint_mc = 1; }
			else if (r != -1) viol(o, "ret", "returned %d", r);
			break;
		}
		if (r == -1 && exp == 0 && failed_by_fault()) { opfail[o->kind]++; break; }
		if (r != exp) viol(o, "ret", "returned %d, model expects %d (src len %zu, same=%d, dst frozen_end=%d)", r, exp, L, o->a == o->b, A->fz_end);
		else if (exp == 0 && L) c_bufref_ok++;
		break; }
	/* ---- callback management (C13; add_cb/setcb also as fault targets in C14) ---- */
	case OP_ADDCB: {
		struct cbrec *rec;
		if (A->ncb >= MAXCB) break;
		rec = cbrec_new(o->a, 0, o->v1);
		rec->ent = evbuffer_add_cb(A->eb, cb_new, rec);
		if (!rec->ent) { rec->removed = 1; if (failed_by_fault()) { opfail[o->kind]++; break; } viol(o, "ret", "add_cb returned NULL"); break; }
		A->cbs[A->ncb++] = rec;
		vh_stat("cb_registered");
		break; }
	case OP_RMCB: {
		struct cbrec *rec; int r;
		if (o->v2 == 2) {
			r = evbuffer_remove_cb(A->eb, cb_new, (void *)&W);
			if (r != -1) viol(o, "ret", "remove_cb of an unknown (fn,arg) returned %d", r);
			break;
		}
		if (!A->ncb) break;
		rec = A->cbs[o->v1 % A->ncb];
		if (rec->obsolete) {
			mark_removed_all(o, A, 1);
			r = evbuffer_setcb(A->eb, NULL, NULL);
		} else {
			if (A->cumA == A->flushA && A->cumD == A->flushD) cb_judge_sums(o, rec, "at removal");
			rec->removed = 1; cb_forget(A, rec);
			r = o->v2 ? evbuffer_remove_cb(A->eb, cb_new, rec) : evbuffer_remove_cb_entry(A->eb, rec->ent);
		}
		if (r != 0) viol(o, "ret", "removing a registered callback returned %d", r);
		vh_stat("cb_removed");
		break; }
	case OP_CBFLAGS: {
		struct cbrec *rec; unsigned fl = (unsigned)o->v3; int r;
		if (!A->ncb) break;
		rec = A->cbs[o->v1 % A->ncb];
		if (rec->obsolete) break;
		if (o->v2) { r = evbuffer_cb_set_flags(A->eb, rec->ent, fl); rec->flags |= fl; }
		else { r = evbuffer_cb_clear_flags(A->eb, rec->ent, fl); rec->flags &= ~fl; if (fl & EVBUFFER_CB_ENABLED) { rec->always_enabled = 0; vh_stat("cb_disabled"); } }
		if ((rec->flags & EVBUFFER_CB_NODEFER) && A->deferred) rec->nodefer_on_deferred = 1;
		if ((rec->flags & EVBUFFER_CB_NODEFER)) vh_stat("cb_nodefer_set");
		if (r != 0) viol(o, "ret", "cb flag change returned %d", r);
		break; }
	case OP_SETCB: {
		struct cbrec *rec = NULL, *saved[MAXCB]; int nsaved = A->ncb, r;
		memcpy(saved, A->cbs, sizeof(saved));
		mark_removed_all(o, A, 1);
		if (o->v1) { rec = cbrec_new(o->a, 1, o->v2); r = evbuffer_setcb(A->eb, cb_old, rec); }
		else r = evbuffer_setcb(A->eb, NULL, NULL);
		if (r == -1 && rec && fault_hit()) {
			/* C14: a failed call must leave the callbacks as they were */
			opfail[o->kind]++; rec->removed = 1;
			for (i = 0; i < nsaved; i++) { saved[i]->removed = 0; A->cbs[i] = saved[i]; }
			A->ncb = nsaved;
			if (nsaved && LIST_EMPTY(&A->eb->callbacks))
				viol(o, "failed-but-callbacks-removed", "setcb reported failure (allocation failed) but the %d previously registered callbacks are gone", nsaved);
			break;
		}
		if (r != 0) { viol(o, "ret", "setcb returned %d", r); break; }
		if (rec) { A->cbs[A->ncb++] = rec; vh_stat("cb_registered"); vh_stat("cb_obsolete_registered"); }
		break; }
	case OP_DEFER: {
		int j;
		if (A->deferred || !W.base) break;
		if (evbuffer_defer_callbacks(A->eb, W.base) != 0) viol(o, "ret", "defer_callbacks failed");
		A->deferred = 1;
		for (j = 0; j < A->ncb; j++) if (A->cbs[j]->flags & EVBUFFER_CB_NODEFER) A->cbs[j]->nodefer_on_deferred = 1;
		vh_stat("buffers_deferred");
		break; }
	case OP_LOOP:
		do_loop(o);
		break;
	}
	if (g_opno < 256) g_histres[g_opno] = 0;
	if (!W.aborted) post_check(o, o->a, involved_b);
	if (!W.aborted && W.cb_anomaly[0])
		viol(o, W.fault_reverted ? "failed-but-callbacks-ran-inconsistent" : "success-but-callback-report-inconsistent", "with an allocation failing inside the call: %s", W.cb_anomaly);
	g_opno++;
}

/* ------------------------------------------------------------------ op generation */
struct wt { int kind, w; };
static const struct wt wt_model[] = {
	{OP_ADD, 12}, {OP_PREPEND, 6}, {OP_PRINTF, 3}, {OP_ADDBUF, 5}, {OP_PREPBUF, 4}, {OP_REMBUF, 7}, {OP_DRAIN, 6}, {OP_REMOVE, 5},
	{OP_COPYOUT, 3}, {OP_COPYFROM, 3}, {OP_PULLUP, 6}, {OP_EXPAND, 4}, {OP_RESERVE, 6}, {OP_IOVEC, 3}, {OP_PEEK, 5}, {OP_SEARCH, 6},
	{OP_EOL, 4}, {OP_READLN, 4}, {OP_PTRSET, 3}, {OP_FREEZE, 2}, {OP_ADDREF, 5}, {OP_BUFREF, 4}, {-1, 0} };
static const struct wt wt_cb[] = {
	{OP_ADD, 12}, {OP_PREPEND, 6}, {OP_PRINTF, 2}, {OP_ADDBUF, 5}, {OP_PREPBUF, 3}, {OP_REMBUF, 6}, {OP_DRAIN, 8}, {OP_REMOVE, 5},
	{OP_READLN, 3}, {OP_RESERVE, 4}, {OP_IOVEC, 3}, {OP_ADDREF, 3}, {OP_BUFREF, 3}, {OP_PULLUP, 2}, {OP_EXPAND, 1}, {OP_FREEZE, 1},
	{OP_ADDCB, 7}, {OP_RMCB, 3}, {OP_CBFLAGS, 7}, {OP_SETCB, 1}, {OP_LOOP, 8}, {OP_DEFER, 2}, {-1, 0} };
static const struct wt wt_fault[] = {
	{OP_ADD, 10}, {OP_PREPEND, 10}, {OP_PRINTF, 5}, {OP_REMBUF, 10}, {OP_PULLUP, 8}, {OP_EXPAND, 5}, {OP_RESERVE, 7}, {OP_IOVEC, 6},
	{OP_READLN, 5}, {OP_ADDREF, 5}, {OP_BUFREF, 8}, {OP_ADDCB, 3}, {OP_SETCB, 3}, {OP_ADDBUF, 2}, {OP_PREPBUF, 2}, {-1, 0} };

static int pick_kind(vh_rng *r, const struct wt *t)
{
	int tot = 0, i, x;
	for (i = 0; t[i].kind >= 0; i++) tot += t[i].w;
	x = (int)vh_below(r, (uint64_t)tot);
	for (i = 0; t[i].kind >= 0; i++) { if (x < t[i].w) return t[i].kind; x -= t[i].w; }
	return OP_ADD;
}
static size_t capsz(size_t n, size_t cap) { return n > cap ? cap : n; }

static int g_fault_bias;
static size_t pick_size_fb(vh_rng *r)
{
	if (g_fault_bias && vh_chance(r, 1, 2)) return (size_t)vh_range(r, 900, 5000);   /* likely to need a new chain */
	return pick_size(r);
}
static void fill_op(vh_rng *r, struct op *o, int kind)
{
	struct mbuf *A, *B;
	size_t la;
	o->kind = kind;
	A = &W.b[o->a]; B = &W.b[o->b]; la = A->m.n; (void)B;
	o->n = o->n2 = 0; o->v1 = o->v2 = o->v3 = 0;
	switch (kind) {
	case OP_ADD: case OP_PREPEND: case OP_EXPAND: o->n = pick_size_fb(r); break;
	case OP_PRINTF: o->v1 = (int)vh_below(r, 5); o->n = vh_chance(r, 2, 3) ? (size_t)vh_below(r, 70) : capsz(pick_size(r), 6000); break;
	case OP_REMBUF: o->n = pick_rel(r, la); break;
	case OP_DRAIN: o->n = vh_chance(r, 1, 20) ? (size_t)-1 : pick_rel(r, la); break;
	case OP_REMOVE: case OP_COPYOUT: o->n = pick_rel(r, la); break;
	case OP_COPYFROM: o->n2 = pick_pos(r, la); o->n = pick_rel(r, la - o->n2); break;
	case OP_PULLUP: o->v1 = vh_chance(r, 1, 5); o->n = vh_chance(r, 1, 2) ? pick_rel(r, la) : pick_size(r); break;
	case OP_RESERVE: {
		static const int plans[] = { 0, 1, 1, 1, 1, 2, 2, 2, 3, 3, 4, 5, 6 };
		o->n = pick_size(r); o->v1 = 1 + (int)vh_below(r, 4); o->v2 = VH_PICK(r, plans); break; }
	case OP_IOVEC: o->v1 = 1 + (int)vh_below(r, 4); o->n = capsz(pick_size(r), 70000); o->n2 = capsz(pick_size(r), 70000); break;
	case OP_PEEK: o->v1 = (int)vh_below(r, 7); o->v2 = vh_chance(r, 1, 3); o->n2 = pick_pos(r, la); o->v3 = vh_chance(r, 1, 3); o->n = pick_rel(r, la - (o->v2 ? o->n2 : 0)); break;
	case OP_SEARCH: { static const int k[] = { 0, 0, 0, 0, 0, 1, 1, 2, 2, 3 }; o->v1 = VH_PICK(r, k); o->v2 = (int)vh_below(r, 4); break; }
	case OP_EOL: o->v1 = (int)vh_below(r, 5); o->v2 = vh_chance(r, 1, 3); break;
	case OP_READLN: o->v1 = (int)vh_below(r, 5); break;
	case OP_PTRSET: { static const int k[] = { 0, 0, 0, 1, 1, 1, 2 }; o->v1 = VH_PICK(r, k); o->n = vh_chance(r, 3, 4) ? pick_pos(r, la) : la + 1 + (size_t)vh_below(r, 3); o->n2 = (size_t)vh_below(r, vh_chance(r, 1, 2) ? 4 : la + 3); break; }
	case OP_FREEZE: o->v1 = (int)vh_below(r, 2); o->v2 = 1; break;
	case OP_ADDREF: o->n = vh_chance(r, 3, 4) ? (size_t)vh_below(r, 40) : capsz(pick_size(r), 70000); o->n2 = vh_chance(r, 1, 3) ? (size_t)vh_below(r, 20) : 0; break;
	case OP_ADDCB: { static const int k[] = { BH_NONE, BH_NONE, BH_NONE, BH_NONE, BH_NONE, BH_ADD1, BH_DRAIN1, BH_RMSELF, BH_DISABLESELF, BH_NODEFERSELF }; o->v1 = VH_PICK(r, k); break; }
	case OP_RMCB: o->v1 = (int)vh_below(r, MAXCB); o->v2 = (int)vh_below(r, 7) / 3; break;
	case OP_CBFLAGS: { static const int f[] = { 1, 1, 1, 2, 2, 3 }; o->v1 = (int)vh_below(r, MAXCB); o->v2 = vh_chance(r, 1, 2); o->v3 = VH_PICK(r, f); break; }
	case OP_SETCB: o->v1 = vh_chance(r, 3, 4); o->v2 = vh_chance(r, 1, 4) ? BH_RMSELF : BH_NONE; break;
	default: break;
	}
}

/* directed follow-ups: after chains became shared between two buffers, exercise both sides at the seam */
static struct op g_follow[6]; static int g_nfollow;
static void plan_followups(vh_rng *r, int dst, int src)
{
	static const int kinds[4] = { OP_ADD, OP_PULLUP, OP_ADD, OP_PULLUP };
	int i;
	g_nfollow = 0;
	for (i = 0; i < 4; i++) {
		struct op *o = &g_follow[g_nfollow++];
		memset(o, 0, sizeof(*o));
		o->a = o->b = (i < 2) ? dst : src;
		if (vh_chance(r, 1, 4)) o->a = o->b = (i < 2) ? src : dst;
		o->kind = kinds[i]; o->dseed = vh_rand(r);
		if (o->kind == OP_ADD) o->n = 1 + (size_t)vh_below(r, 24);
		else { o->v1 = vh_chance(r, 1, 2); o->n = W.b[o->a].m.n + 1 + (size_t)vh_below(r, 24); }   /* resolved against the length at execution */
	}
}
/* a reservation over several extents that is abandoned leaves empty chains behind the data; a following
 * one-extent reservation then gets the first of them when the last chain with data is not worth resizing,
 * and that extent is neither in the first chain with space nor in buf->last when it is committed */
static void plan_abandoned_reservation(vh_rng *r, int a)
{
	struct op *o;
	g_nfollow = 0;
	o = &g_follow[g_nfollow++]; memset(o, 0, sizeof(*o)); o->a = o->b = a; o->kind = OP_ADD; o->dseed = vh_rand(r);
	o->n = vh_chance(r, 1, 2) ? 600 + (size_t)vh_below(r, 400) : 3000 + (size_t)vh_below(r, 1000);
	o = &g_follow[g_nfollow++]; memset(o, 0, sizeof(*o)); o->a = o->b = a; o->kind = OP_EXPAND; o->dseed = vh_rand(r);
	o->n = 2000 + (size_t)vh_below(r, 3000);
	o = &g_follow[g_nfollow++]; memset(o, 0, sizeof(*o)); o->a = o->b = a; o->kind = OP_RESERVE; o->dseed = vh_rand(r);
	o->n = 50000 + (size_t)vh_below(r, 150000); o->v1 = 2 + (int)vh_below(r, 3); o->v2 = 0;
	o = &g_follow[g_nfollow++]; memset(o, 0, sizeof(*o)); o->a = o->b = a; o->kind = OP_RESERVE; o->dseed = vh_rand(r);
	o->n = 300 + (size_t)vh_below(r, 3000); o->v1 = 1; o->v2 = 1;
}
static void gen_op(vh_rng *r, struct op *o, const struct wt *t)
{
	int kind, i;
	if (g_nfollow > 0) {
		*o = g_follow[0];
		memmove(g_follow, g_follow + 1, sizeof(g_follow[0]) * (size_t)(--g_nfollow));
		if (o->kind == OP_PULLUP && !o->v1 && o->n > W.b[o->a].m.n) o->n = W.b[o->a].m.n;
		return;
	}
	memset(o, 0, sizeof(*o));
	o->a = (int)vh_below(r, (uint64_t)W.nb);
	o->b = (int)vh_below(r, (uint64_t)W.nb);
	if (W.nb > 1 && o->b == o->a && !vh_chance(r, 1, 8)) o->b = (o->a + 1 + (int)vh_below(r, (uint64_t)W.nb - 1)) % W.nb;
	o->dseed = vh_rand(r);
	kind = pick_kind(r, t);
	/* keep buffers bounded */
	for (i = 0; i < W.nb; i++) if (W.b[i].m.n > W.len_limit) {
		o->a = i;
		if (W.b[i].fz_start) { o->kind = OP_FREEZE; o->v1 = 1; o->v2 = 0; return; }
		o->kind = OP_DRAIN; o->n = W.b[i].m.n / 2 + (size_t)vh_below(r, W.b[i].m.n / 2);
		return;
	}
	/* frozen ends do not stay frozen for long */
	if ((W.b[o->a].fz_start || W.b[o->a].fz_end) && vh_chance(r, 1, 3)) {
		o->kind = OP_FREEZE; o->v1 = W.b[o->a].fz_start ? 1 : 0; o->v2 = 0;
		return;
	}
	if (W.mode == M_CALLBACKS && kind == OP_BUFREF && W.b[o->b].taint_mc) kind = OP_ADD;
	fill_op(r, o, kind);
	if (kind == OP_RESERVE && W.mode != M_CALLBACKS && !W.b[o->a].fz_end && vh_chance(r, 1, 6)) { vh_stat("abandoned_reservation_shapes"); plan_abandoned_reservation(r, o->a); }
	if (kind == OP_BUFREF && o->a != o->b && W.b[o->b].m.n && !W.b[o->a].fz_end && vh_chance(r, 1, 2)) plan_followups(r, o->a, o->b);
}

/* ------------------------------------------------------------------ world set-up / tear-down */
static void world_init(vh_rng *r, int nb)
{
	int i;
	W.nb = nb; W.refs = NULL; W.refs_live = 0; W.allcbs = NULL; W.next_cbid = 0; W.base = NULL;
	W.in_loop = W.multistep = W.cb_depth = W.teardown = 0; W.reentry_ok = 1; W.fault_armed = 0; W.snap_ok = 0; W.aborted = 0;
	W.h = 0; W.nontrivial = 0; W.max_chains = 0; g_opno = 0; g_nfollow = 0; W.shared_write = 0;
	if (W.mode == M_CALLBACKS) {
		W.base = event_base_new();
		if (!W.base) { fprintf(stderr, "h_evbuf: event_base_new failed\n"); exit(3); }
	}
	for (i = 0; i < nb; i++) {
		struct mbuf *mb = &W.b[i];
		struct mvec keep = mb->m;
		memset(mb, 0, sizeof(*mb));
		mb->m = keep; mb->m.n = 0; mb->m.off = mb->m.cap / 4;
		mb->eb = evbuffer_new();
		if (!mb->eb) { fprintf(stderr, "h_evbuf: evbuffer_new failed\n"); exit(3); }
	}
	if (W.mode == M_CALLBACKS) {
		for (i = 0; i < nb; i++) {
			struct op o; int k, n = (int)vh_below(r, 3);
			memset(&o, 0, sizeof(o)); o.a = o.b = i;
			if (vh_chance(r, 1, 3)) { o.kind = OP_DEFER; exec_op(&o); }
			for (k = 0; k < n; k++) { fill_op(r, &o, OP_ADDCB); exec_op(&o); }
		}
	} else if (W.mode == M_ALLOCFAIL) {
		for (i = 0; i < nb; i++) if (vh_chance(r, 3, 4)) {
			struct op o; memset(&o, 0, sizeof(o)); o.a = o.b = i; o.kind = OP_ADDCB; o.v1 = BH_NONE; exec_op(&o);
		}
	}
}

static void world_fini(void)
{
	int i;
	struct refrec *rr, *rn; struct cbrec *c, *cn;
	if (W.mode == M_CALLBACKS && !W.aborted) {
		struct op o; memset(&o, 0, sizeof(o)); o.kind = OP_LOOP;
		if (g_opno < 256) g_hist[g_opno] = o;
		do_loop(&o);                                   /* final flush of deferred reports */
		for (i = 0; i < W.nb && !W.aborted; i++) {
			int j; struct mbuf *mb = &W.b[i];
			for (j = 0; j < mb->ncb && !W.aborted; j++) cb_judge_sums(&o, mb->cbs[j], "final");
		}
	}
	W.teardown = 1;
	if (W.base) event_base_loop(W.base, EVLOOP_NONBLOCK);   /* aborted case: let pending deferred runs drop their references */
	/* A multicast chain (add_buffer_reference) holds a reference on its source evbuffer.  If such a chain was
	 * moved into a buffer from which its source is reachable again, the buffers keep each other alive for ever.
	 * Detect that exactly (chain flags), report it once (model mode), and break the cycle by draining. */
	{
		unsigned edge[MAXB] = {0}, reach[MAXB]; int j, k, cyc = 0;
		for (i = 0; i < W.nb; i++) {
			struct evbuffer_chain *ch;
			for (ch = W.b[i].eb->first; ch; ch = ch->next) if (ch->flags & EVBUFFER_MULTICAST) {
				struct evbuffer_multicast_parent *mp = EVBUFFER_CHAIN_EXTRA(struct evbuffer_multicast_parent, ch);
				for (j = 0; j < W.nb; j++) if (mp->source == W.b[j].eb) edge[i] |= 1u << j;
			}
		}
		memcpy(reach, edge, sizeof(reach));
		for (k = 0; k < W.nb; k++) for (i = 0; i < W.nb; i++) for (j = 0; j < W.nb; j++) if (reach[i] & (1u << j)) reach[i] |= reach[j];
		for (i = 0; i < W.nb; i++) if (reach[i] & (1u << i)) cyc = 1;
		if (cyc) {
			vh_stat("teardown_reference_cycles");
			if (W.mode == M_MODEL && !W.aborted) {
				g_soft = 1; viol(NULL, "leak:multicast-chain-moved-into-its-source", "a chain created by add_buffer_reference(dst,src) was later moved (add_buffer/prepend_buffer/remove_buffer) into a buffer from which src is reachable: the buffers reference themselves and evbuffer_free() never releases them (nor runs reference cleanups)");
			}
			for (i = 0; i < W.nb; i++) { evbuffer_unfreeze(W.b[i].eb, 1); evbuffer_drain(W.b[i].eb, (size_t)-1); }
		}
	}
	if (W.base) event_base_loop(W.base, EVLOOP_NONBLOCK);   /* the drain above may have scheduled deferred runs */
	for (i = 0; i < W.nb; i++) { evbuffer_free(W.b[i].eb); W.b[i].eb = NULL; }
	if (W.base) { event_base_free(W.base); W.base = NULL; }
	if (W.refs_live != 0 && !W.aborted)
		viol(NULL, "add_reference:cleanup-missing", "%ld referenced blocks never got their cleanup callback after all buffers were freed", W.refs_live);
	for (rr = W.refs; rr; rr = rn) { rn = rr->next; if (!rr->cleaned) free(rr->block); free(rr); }
	for (c = W.allcbs; c; c = cn) { cn = c->next_all; free(c); }
	W.refs = NULL; W.allcbs = NULL;
}

/* ------------------------------------------------------------------ cases */
static void case_random(vh_rng *r)
{
	int nb = 1 + (int)vh_below(r, MAXB), nops, i;
	struct op o;
	W.style = (int)vh_below(r, 3) == 0;
	nops = vh_opt.thorough ? 20 + (int)vh_below(r, 180) : 20 + (int)vh_below(r, 60);
	if (W.mode == M_CALLBACKS) nops = 15 + (int)vh_below(r, 50);
	world_init(r, nb);
	for (i = 0; i < nops && !W.aborted; i++) {
		gen_op(r, &o, W.mode == M_CALLBACKS ? wt_cb : wt_model);
		exec_op(&o);
	}
	world_fini();
	vh_stat("cases");
	vh_stat_add("ops", g_opno);
	if (W.mode == M_CALLBACKS) { if (W.nontrivial & 2) vh_distinct(W.h); }
	else if (W.nontrivial == 3) vh_distinct(W.h);
	vh_sample(2, "{\"mode\":\"%s\",\"buffers\":%d,\"ops\":%d,\"max_chains\":%ld,\"first_ops\":\"%s(%zu) %s(%zu) %s(%zu) %s(%zu)\"}", vh_opt.mode, nb, g_opno, W.max_chains,
			opname[g_hist[0].kind], g_hist[0].n, opname[g_hist[1].kind], g_hist[1].n, opname[g_hist[2].kind], g_hist[2].n, opname[g_hist[3].kind], g_hist[3].n);
}

/* bounded-exhaustive enumeration: every sequence of length 1..4 over this alphabet, two buffers */
#define C0 (1024 - CS)
static int exh_symbol(int sym, struct op *o)
{
	static const struct { int kind, a, b; long n, n2; int v1, v2, v3; } A[] = {
		{OP_ADD, 0, 0, 1}, {OP_ADD, 0, 0, -1 /* C0 */}, {OP_ADD, 0, 0, 4097}, {OP_ADD, 1, 1, 3}, {OP_ADD, 1, 1, -2 /* C0+1 */},
		{OP_PREPEND, 0, 0, 1}, {OP_PREPEND, 0, 0, -1}, {OP_PREPEND, 0, 0, 4097},
		{OP_ADDBUF, 0, 1}, {OP_ADDBUF, 1, 0}, {OP_PREPBUF, 0, 1}, {OP_PREPBUF, 1, 0},
		{OP_REMBUF, 0, 1, 1}, {OP_REMBUF, 0, 1, -1}, {OP_REMBUF, 0, 1, 4097}, {OP_REMBUF, 1, 0, 2},
		{OP_DRAIN, 0, 0, 1}, {OP_DRAIN, 0, 0, -1}, {OP_DRAIN, 0, 0, 4097},
		{OP_PULLUP, 0, 0, 0, 0, 1}, {OP_PULLUP, 0, 0, -2},
		{OP_EXPAND, 0, 0, -2}, {OP_RESERVE, 0, 0, 4097, 0, 2, 1}, {OP_RESERVE, 0, 0, 1, 0, 1, 1}, {OP_RESERVE, 0, 0, -1, 0, 2, 0},
		{OP_ADDREF, 0, 0, 5}, {OP_BUFREF, 0, 1}, {OP_BUFREF, 1, 0},
		{OP_READLN, 0, 0, 0, 0, EVBUFFER_EOL_CRLF}, {OP_REMOVE, 0, 0, -1}, {OP_PRINTF, 0, 0, 100, 0, 2}, {OP_IOVEC, 0, 0, 1, -1, 2},
	};
	int n = (int)(sizeof(A) / sizeof(A[0]));
	if (!o) return n;
	memset(o, 0, sizeof(*o));
	o->kind = A[sym].kind; o->a = A[sym].a; o->b = A[sym].b;
	o->n = A[sym].n == -1 ? C0 : A[sym].n == -2 ? C0 + 1 : (size_t)A[sym].n;
	o->n2 = A[sym].n2 == -1 ? C0 : (size_t)A[sym].n2;
	o->v1 = A[sym].v1; o->v2 = A[sym].v2; o->v3 = A[sym].v3;
	return n;
}
static long exh_total(void)
{
	long n = exh_symbol(0, NULL), t = 0, p = 1; int l;
	for (l = 1; l <= 4; l++) { p *= n; t += p; }
	return t;
}
static void case_exh(long idx, vh_rng *r)
{
	long n = exh_symbol(0, NULL), p = n, rem = idx % exh_total();
	int len = 1, i, seq[4];
	struct op o;
	static const int probes[] = { OP_PEEK, OP_SEARCH, OP_EOL, OP_COPYFROM, OP_PTRSET, OP_PULLUP };
	while (rem >= p) { rem -= p; p *= n; len++; }
	for (i = len - 1; i >= 0; i--) { seq[i] = (int)(rem % n); rem /= n; }
	W.style = 1;
	world_init(r, 2);
	for (i = 0; i < len && !W.aborted; i++) {
		exh_symbol(seq[i], &o);
		o.dseed = vh_mix64((uint64_t)idx * 8 + (uint64_t)i);
		exec_op(&o);
		if (W.aborted) break;
		/* one read-only (or layout-only) probe after every step */
		memset(&o, 0, sizeof(o)); o.a = o.b = (int)vh_below(r, 2); o.dseed = vh_rand(r);
		fill_op(r, &o, VH_PICK(r, probes));
		exec_op(&o);
	}
	world_fini();
	vh_stat("cases"); vh_stat("exh_sequences");
	vh_stat_add("ops", g_opno);
	if (W.nontrivial & 2) vh_distinct(W.h);
}

static void case_allocfail(vh_rng *r0)
{
	long n, live0 = mf_live_blocks;
	int hit = 1;
	for (n = 1; hit && n <= 40; n++) {
		vh_rng r = *r0;
		int nb = 1 + (int)vh_below(&r, 3), pre, i;
		struct op o;
		long before;
		W.style = (int)vh_below(&r, 3) == 0;
		pre = (int)vh_below(&r, 16);
		mf_arm(0);
		world_init(&r, nb);
		for (i = 0; i < pre && !W.aborted; i++) { gen_op(&r, &o, wt_model); if (o.kind == OP_FREEZE && o.v2 && !vh_chance(&r, 1, 6)) continue; exec_op(&o); }
		if (W.aborted) { world_fini(); break; }
		/* the faulted op */
		for (i = 0; i < W.nb; i++) {      /* thaw: a frozen operand refuses before allocating */
			if (W.b[i].fz_start) { evbuffer_unfreeze(W.b[i].eb, 1); W.b[i].fz_start = 0; }
			if (W.b[i].fz_end) { evbuffer_unfreeze(W.b[i].eb, 0); W.b[i].fz_end = 0; }
		}
		g_fault_bias = 1;
		gen_op(&r, &o, wt_fault);
		if (o.kind == OP_FREEZE || o.kind == OP_DRAIN) fill_op(&r, &o, OP_ADD);
		g_fault_bias = 0;
		if (vh_chance(&r, 1, 4)) {
			/* targeted shape (added after seeded defect C14-1 was missed): a data chain followed by an empty chain,
			 * then a multi-extent request larger than the room in those chains, so that evbuffer_expand_fast_ frees the
			 * trailing empty chains and allocates a replacement - the allocation that is made to fail */
			struct op p;
			int tgt = (int)vh_below(&r, (uint64_t)W.nb);
			memset(&p, 0, sizeof(p)); p.kind = OP_ADD; p.a = p.b = tgt; p.n = 1 + (size_t)vh_below(&r, 3000); p.dseed = vh_rand(&r);
			exec_op(&p);
			if (!W.aborted) { memset(&p, 0, sizeof(p)); p.kind = OP_EXPAND; p.a = p.b = tgt; p.n = 2000 + (size_t)vh_below(&r, 6000); p.dseed = vh_rand(&r); exec_op(&p); }
			memset(&o, 0, sizeof(o)); o.a = o.b = tgt; o.dseed = vh_rand(&r);
			if (vh_chance(&r, 1, 2)) { o.kind = OP_RESERVE; o.n = 20000 + (size_t)vh_below(&r, 100000); o.v1 = 2 + (int)vh_below(&r, 3); o.v2 = (int)vh_below(&r, 3); }
			else { o.kind = OP_IOVEC; o.v1 = 1 + (int)vh_below(&r, 4); o.n = 20000 + (size_t)vh_below(&r, 50000); o.n2 = 1 + (size_t)vh_below(&r, 50000); }
			vh_stat("fault_shape_trailing_empty_chain");
			if (W.aborted) { world_fini(); break; }
		}
		snap_take();
		W.fault_armed = 1; W.failed0 = before = mf_failed;
		mf_arm(n);
		exec_op(&o);
		mf_arm(0);
		hit = mf_failed > before;
		W.fault_armed = 0; W.snap_ok = 0;
		if (hit) {
			vh_stat("fault_points");
			if (W.fault_reverted) vh_stat("faults_reported_as_failure"); else vh_stat("faults_absorbed_with_success");
			{ uint64_t h = vh_hash_bytes(W.h, &n, sizeof(n)); vh_distinct(h); }
			vh_sample(3, "{\"mode\":\"allocfail\",\"prefix_ops\":%d,\"op\":\"%s\",\"n\":%zu,\"failed_allocation\":%ld,\"reported\":\"%s\"}", pre, opname[o.kind], o.n, n, W.fault_reverted ? "failure" : "success");
		} else {
			vh_stat("dry_runs");
			vh_stat_add("allocations_in_faulted_ops", n - 1);
		}
		/* later consistency: the buffers keep behaving like the model */
		if (!W.aborted) {
			const char *P = W.P;
			W.P = "C14:later";
			for (i = 0; i < 20 && !W.aborted; i++) { gen_op(&r, &o, wt_model); exec_op(&o); }
			W.P = P;
		}
		world_fini();
		if (mf_live_blocks != live0 && !W.aborted) {
			viol(NULL, "leak", "allocation census: %ld blocks still live after every buffer was freed (fault at allocation %ld of %s)", mf_live_blocks - live0, n, opname[o.kind]);
			live0 = mf_live_blocks;
		}
		if (W.aborted) break;
	}
	vh_stat("cases");
}

static void logcb(int sev, const char *msg)
{
	if (sev == EVENT_LOG_ERR) { fprintf(stderr, "[err] %s\n", msg); return; }   /* assertion texts must reach the driver */
	if (sev >= EVENT_LOG_WARN) vh_stat("library_warnings");
}

int main(int argc, char **argv)
{
	long idx; vh_rng rng; int i;
	vh_init(argc, argv);
	if (!vh_opt.mode) vh_opt.mode = "model";
	W.mode = !strcmp(vh_opt.mode, "callbacks") ? M_CALLBACKS : !strcmp(vh_opt.mode, "allocfail") ? M_ALLOCFAIL : M_MODEL;
	W.P = W.mode == M_CALLBACKS ? "C13" : W.mode == M_ALLOCFAIL ? "C14" : "C12";
	W.exh = vh_opt.arg && !strcmp(vh_opt.arg, "exh");
	if (W.mode == M_ALLOCFAIL) mf_install();
	event_set_log_callback(logcb);
	W.len_limit = vh_opt.thorough ? (1500u << 10) : (200u << 10);
	if (W.mode != M_MODEL) W.len_limit = 200u << 10;
	g_cap = 4 * W.len_limit + (8u << 20);
	g_tmp = malloc(g_cap); g_out = malloc(g_cap);
	for (i = 0; i < MAXB; i++) { mv_init(&W.b[i].m); mv_init(&W.snap[i]); }
	if (W.exh && vh_opt.verbose && vh_opt.only < 0) printf("EXH_TOTAL %ld\n", exh_total());
	while (vh_next_case(&idx, &rng)) {
		if (W.exh) case_exh(idx, &rng);
		else if (W.mode == M_ALLOCFAIL) case_allocfail(&rng);
		else case_random(&rng);
	}
	for (i = 0; i < OP__N; i++) if (opcount[i]) {
		char nm[64];
		snprintf(nm, sizeof(nm), "op_%s", opname[i]); vh_stat_add(nm, opcount[i]);
		if (opfail[i]) { snprintf(nm, sizeof(nm), "enomem_%s", opname[i]); vh_stat_add(nm, opfail[i]); }
	}
	vh_stat_add("invariant_walks", c_walks); vh_stat_add("walk_multichain", c_walk_multi); vh_stat_add("walk_immutable_chains", c_walk_imm);
	vh_stat_add("search_found", c_search_found); vh_stat_add("search_match_spans_chains", c_search_span);
	vh_stat_add("eol_found", c_eol_found); vh_stat_add("eol_spans_chains", c_eol_span);
	vh_stat_add("readln_lines", c_readln_lines); vh_stat_add("pullup_pointers_checked", c_pullup_ptr);
	vh_stat_add("peek_extents_checked", c_peek_extents); vh_stat_add("ptr_set_ok", c_ptr_ok); vh_stat_add("ptr_set_out_of_range", c_ptr_oob);
	vh_stat_add("frozen_refusals", c_frozen_refusals); vh_stat_add("references_added", c_ref_added);
	vh_stat_add("buffer_references_added", c_bufref_ok); vh_stat_add("buffer_moves", c_moves); vh_stat_add("noop_moves", c_noop_moves);
	vh_stat_add("commits", c_commit); vh_stat_add("either_outcomes", c_either);
	for (i = 0; i < MAXB; i++) { mv_free(&W.b[i].m); mv_free(&W.snap[i]); }
	free(g_tmp); free(g_out);
	vh_finish();
	return 0;
}
