/* C06: exhaustive check of the epoll change table.
 *
 * The harness is one translation unit with /repo/epoll.c so that the static
 * table (epoll_op_table), the index macro (EPOLL_OP_TABLE_INDEX) and the static
 * function that uses them (epoll_apply_one_change) are the real ones.
 *
 * case index k in [0,1024): table index = k>>1, ET variant = k&1.
 * For each: a fresh epoll fd and a fresh AF_UNIX socketpair end get exactly the
 * "old" conditions registered with the raw syscall; the real function is
 * applied; the resulting registration is read back from the kernel
 * (/proc/self/fdinfo/<epfd>) and compared with  old ∪ adds ∖ dels  computed by
 * the few lines of reference below; epoll_ctl calls are counted through the
 * sysfault observer.
 */
#include "epoll.c"
#include "vh.h"

int __real_epoll_ctl(int, int, int, struct epoll_event *);
ssize_t __real_read(int, void *, size_t);
int __real_close(int);

#define M_IN   0x001u
#define M_OUT  0x004u
#define M_RDH  0x2000u
#define M_ET   0x80000000u
#define M_ALL  (M_IN | M_OUT | M_RDH | M_ET)

static int n_ctl, n_ctl_fail, first_ctl_res, first_ctl_errno, first_ctl_op;
static void obs(int sym, int fd, long req, long res)
{
	if (sym != SF_epoll_ctl) return;
	if (n_ctl == 0) { first_ctl_res = (int)res; first_ctl_errno = errno; first_ctl_op = (int)req; }
	n_ctl++;
	if (res != 0) n_ctl_fail++;
}

/* returns 1 and the event mask if `tfd` is registered on `epfd`, 0 if not, -1 on parse trouble */
static int kernel_registration(int epfd, int tfd, unsigned *mask, int *nreg)
{
	char path[64], buf[8192], *p;
	int f, n, tot = 0, found = 0;
	snprintf(path, sizeof(path), "/proc/self/fdinfo/%d", epfd);
	f = open(path, O_RDONLY);
	if (f < 0) return -1;
	while ((n = (int)__real_read(f, buf + tot, sizeof(buf) - 1 - tot)) > 0) tot += n;
	__real_close(f);
	buf[tot] = 0;
	*nreg = 0;
	for (p = buf; (p = strstr(p, "tfd:")) != NULL; p += 4) {
		int fd; unsigned ev;
		if (sscanf(p, "tfd: %d events: %x", &fd, &ev) != 2) return -1;
		(*nreg)++;
		if (fd == tfd) { found = 1; *mask = ev; }
	}
	return found;
}

static unsigned cond_mask(int r, int w, int c) { return (r ? M_IN : 0) | (w ? M_OUT : 0) | (c ? M_RDH : 0); }
static const char *chs(int c) { return c == 0 ? "0" : c == 1 ? "add" : c == 2 ? "del" : "add+del"; }

/* Part 2 (cases 1024..1247): the same question asked at the backend's real entry points without changelist,
 * epoll_nochangelist_add/_del(base, fd, old, events): for every old in {r,w,c}* x every non-empty events x add/del x ET
 * that evmap can produce (add: events disjoint from old; del: events contained in old) the kernel must end up with
 * old U events resp. old \ events through exactly one accepted epoll_ctl (seed C06-3: the table was right, the caller
 * built the wrong "old" half of the index). */
static void entry_point_case(long k, struct event_base *fake_base)
{
	int et = (int)(k & 1), del = (int)((k >> 1) & 1), evs = (int)((k >> 2) % 7) + 1, oldb = (int)((k >> 2) / 7);
	int oldr = oldb & 1, oldw = (oldb >> 1) & 1, oldc = (oldb >> 2) & 1;
	int er = evs & 1, ew = (evs >> 1) & 1, ec = (evs >> 2) & 1;
	unsigned old = cond_mask(oldr, oldw, oldc), ev = cond_mask(er, ew, ec), want, got = 0;
	short oldev = (short)((oldr ? EV_READ : 0) | (oldw ? EV_WRITE : 0) | (oldc ? EV_CLOSED : 0));
	short events = (short)((er ? EV_READ : 0) | (ew ? EV_WRITE : 0) | (ec ? EV_CLOSED : 0) | (et ? EV_ET : 0));
	int epfd, sv[2], r, reg, nreg = 0;
	struct epollop eop;
	char desc[160];
	if (oldb > 7) return;
	vh_stat("cases");
	snprintf(desc, sizeof(desc), "entry=%s old=%s%s%s events=%s%s%s et=%d", del ? "nochangelist_del" : "nochangelist_add",
		oldr ? "r" : "", oldw ? "w" : "", oldc ? "c" : "", er ? "r" : "", ew ? "w" : "", ec ? "c" : "", et);
	if (del ? (ev & ~old) != 0 : (ev & old) != 0) { vh_stat("entry_point_not_producible"); return; }
	epfd = epoll_create1(EPOLL_CLOEXEC);
	if (epfd < 0 || socketpair(AF_UNIX, SOCK_STREAM, 0, sv) < 0) { fprintf(stderr, "setup failed: %s\n", strerror(errno)); exit(2); }
	if (old) {
		struct epoll_event e;
		memset(&e, 0, sizeof(e));
		e.events = old | (et ? M_ET : 0); e.data.fd = sv[0];
		if (__real_epoll_ctl(epfd, EPOLL_CTL_ADD, sv[0], &e) != 0) { fprintf(stderr, "raw epoll_ctl failed: %s\n", strerror(errno)); exit(2); }
	}
	want = del ? (old & ~ev) : (old | ev);
	if (want && et) want |= M_ET;
	memset(&eop, 0, sizeof(eop));
	eop.epfd = epfd;
	fake_base->evbase = &eop;
	n_ctl = n_ctl_fail = 0; first_ctl_res = 0; first_ctl_errno = 0; first_ctl_op = 0;
	sf_observer = obs;
	r = del ? epoll_nochangelist_del(fake_base, sv[0], oldev, events, NULL) : epoll_nochangelist_add(fake_base, sv[0], oldev, events, NULL);
	sf_observer = NULL;
	fake_base->evbase = NULL;
	reg = kernel_registration(epfd, sv[0], &got, &nreg);
	if (reg < 0) { fprintf(stderr, "cannot parse fdinfo\n"); exit(2); }
	got = reg ? (got & M_ALL) : 0;
	vh_stat(del ? "entry_point_del" : "entry_point_add");
	if (r != 0) vh_viol("C06:entry-point-failed", "%s: returned %d (first ctl op=%d errno=%d)", desc, r, first_ctl_op, first_ctl_errno);
	if (got != want || nreg != (want ? 1 : 0))
		vh_viol("C06:entry-point-wrong-registration", "%s: kernel has %#x (%d registrations), desired %#x", desc, got, nreg, want);
	if (n_ctl != 1 || n_ctl_fail)
		vh_viol("C06:entry-point-first-try-rejected", "%s: %d epoll_ctl calls, %d failed; first op=%d errno=%d (%s)", desc, n_ctl, n_ctl_fail,
			first_ctl_op, first_ctl_errno, strerror(first_ctl_errno));
	vh_distinct(vh_hash_bytes(7, &k, sizeof(k)));
	__real_close(sv[0]); __real_close(sv[1]); __real_close(epfd);
}

int main(int argc, char **argv)
{
	long idx;
	vh_rng rng;
	struct event_base *fake_base;
	vh_init(argc, argv);
	fake_base = calloc(1, sizeof(struct event_base));

	if (sizeof(epoll_op_table) / sizeof(epoll_op_table[0]) != 512)
		vh_viol("C06:table-size", "epoll_op_table has %zu entries, expected 512", sizeof(epoll_op_table) / sizeof(epoll_op_table[0]));

	while (vh_next_case(&idx, &rng)) {
		int ti = (int)((idx >> 1) & 511), et = (int)(idx & 1);
		if (idx >= 1024) { entry_point_case(idx - 1024, fake_base); continue; }
		/* documented bit layout (epolltable-internal.h comment):
		 * bit0 close add, bit1 close del, bit2 read add, bit3 read del,
		 * bit4 write add, bit5 write del, bit6 old R, bit7 old W, bit8 old CLOSED */
		int cc = ti & 3, rc = (ti >> 2) & 3, wc = (ti >> 4) & 3;
		int oldr = (ti >> 6) & 1, oldw = (ti >> 7) & 1, oldc = (ti >> 8) & 1;
		int impossible = (cc == 3 || rc == 3 || wc == 3);
		struct event_change ch;
		int macro_idx;
		char desc[160];
		vh_stat("cases");
		memset(&ch, 0, sizeof(ch));
		ch.old_events = (short)((oldr ? EV_READ : 0) | (oldw ? EV_WRITE : 0) | (oldc ? EV_CLOSED : 0));
		ch.read_change = (ev_uint8_t)(rc | ((et && rc) ? EV_CHANGE_ET : 0));
		ch.write_change = (ev_uint8_t)(wc | ((et && wc) ? EV_CHANGE_ET : 0));
		ch.close_change = (ev_uint8_t)(cc | ((et && cc) ? EV_CHANGE_ET : 0));
		snprintf(desc, sizeof(desc), "idx=%d old=%s%s%s read=%s write=%s close=%s et=%d", ti,
			oldr ? "r" : "", oldw ? "w" : "", oldc ? "c" : "", chs(rc), chs(wc), chs(cc), et);

		/* the macro must select the entry the documentation says */
		macro_idx = EPOLL_OP_TABLE_INDEX(&ch);
		if (macro_idx != ti) {
			vh_viol("C06:index-macro", "%s: EPOLL_OP_TABLE_INDEX gives %d", desc, macro_idx);
			continue;   /* would test another entry (or read out of bounds) */
		}
		vh_stat("index_macro_checked");

		if (impossible) {
			vh_stat("impossible_entries");
			/* no operation may be issued: the function issues epoll_ctl iff events != 0 */
			if (epoll_op_table[ti].events != 0)
				vh_viol("C06:impossible-issues-op", "%s: table entry {events=%#x, op=%d} would issue an epoll_ctl",
					desc, epoll_op_table[ti].events, epoll_op_table[ti].op);
			continue;
		}

		{
			int epfd = epoll_create1(EPOLL_CLOEXEC), sv[2], r, reg, nreg = 0;
			unsigned old = cond_mask(oldr, oldw, oldc), got = 0, want;
			unsigned adds = cond_mask(rc == 1, wc == 1, cc == 1), dels = cond_mask(rc == 2, wc == 2, cc == 2);
			int anychange = (rc | wc | cc) != 0;
			struct epollop eop;
			if (epfd < 0 || socketpair(AF_UNIX, SOCK_STREAM, 0, sv) < 0) { fprintf(stderr, "setup failed: %s\n", strerror(errno)); return 2; }
			if (old) {
				struct epoll_event e;
				memset(&e, 0, sizeof(e));
				e.events = old | (et ? M_ET : 0); e.data.fd = sv[0];
				if (__real_epoll_ctl(epfd, EPOLL_CTL_ADD, sv[0], &e) != 0) { fprintf(stderr, "raw epoll_ctl failed: %s\n", strerror(errno)); return 2; }
			}
			/* reference: desired registration */
			want = (old | adds) & ~dels;
			if (want) {
				if (anychange) want |= et ? M_ET : 0;     /* a change carries the ET request of the events */
				else want |= et ? M_ET : 0;                /* untouched registration keeps what it had */
			}
			ch.fd = sv[0];
			memset(&eop, 0, sizeof(eop));
			eop.epfd = epfd;
			n_ctl = n_ctl_fail = 0; first_ctl_res = 0; first_ctl_errno = 0; first_ctl_op = 0;
			sf_observer = obs;
			r = epoll_apply_one_change(fake_base, &eop, &ch);
			sf_observer = NULL;
			reg = kernel_registration(epfd, sv[0], &got, &nreg);
			if (reg < 0) { fprintf(stderr, "cannot parse fdinfo\n"); return 2; }
			got = reg ? (got & M_ALL) : 0;
			vh_stat("applied");
			if (et) vh_stat("applied_et");
			if (n_ctl) vh_stat(first_ctl_op == EPOLL_CTL_ADD ? "op_add" : first_ctl_op == EPOLL_CTL_MOD ? "op_mod" : "op_del");
			else vh_stat("op_none");

			if (r != 0)
				vh_viol("C06:apply-failed", "%s: epoll_apply_one_change returned %d (first ctl op=%d errno=%d)", desc, r, first_ctl_op, first_ctl_errno);
			if (got != want || nreg != (want ? 1 : 0))
				vh_viol("C06:wrong-registration", "%s: kernel has %#x (%d registrations), desired %#x (old=%#x adds=%#x dels=%#x)",
					desc, got, nreg, want, old, adds, dels);
			if (!anychange) {
				if (n_ctl) vh_viol("C06:noop-issues-op", "%s: no change pending but %d epoll_ctl call(s)", desc, n_ctl);
			} else if (!old && !adds) {
				/* CALIBRATED: "delete" of conditions on an fd that has nothing registered.  No
				 * kernel operation exists that is accepted in that state and leaves the empty
				 * set, except doing nothing; the table emits DEL, the kernel answers ENOENT and
				 * the function treats that as success.  evmap/changelist never produce this
				 * combination (a delete is only forwarded for a condition contained in old).
				 * Accepted: at most one call, result must be the empty registration. */
				vh_stat("del_from_empty");
				if (n_ctl > 1) vh_viol("C06:extra-ctl", "%s: %d epoll_ctl calls for delete-from-empty", desc, n_ctl);
			} else {
				if (n_ctl != 1 || n_ctl_fail)
					vh_viol("C06:first-try-rejected", "%s: %d epoll_ctl calls, %d failed; first op=%d result=%d errno=%d (%s) - the table's operation is not one the kernel accepts with old=%#x registered",
						desc, n_ctl, n_ctl_fail, first_ctl_op, first_ctl_res, first_ctl_errno, strerror(first_ctl_errno), old);
				else
					vh_stat("accepted_first_try");
			}
			if (anychange) vh_distinct(vh_hash_bytes(0, &idx, sizeof(idx)));
			vh_sample(2, "{\"entry\":\"%s\",\"table\":{\"events\":%d,\"op\":%d},\"ctl_calls\":%d,\"kernel_after\":\"%#x\",\"desired\":\"%#x\"}",
				desc, epoll_op_table[ti].events, epoll_op_table[ti].op, n_ctl, got, want);
			__real_close(sv[0]); __real_close(sv[1]); __real_close(epfd);
		}
	}
	free(fake_base);
	vh_finish();
	return 0;
}
