/* C21: token-bucket refill arithmetic against an __int128 reference. */
#include "vh.h"
#include <limits.h>
#include <event2/event.h>
#include <event2/bufferevent.h>
#include "ratelim-internal.h"

typedef __int128 i128;
static const int64_t S64MAX = INT64_MAX;

static int64_t pick_rate(vh_rng *r)
{
	static const int64_t b[] = {1, 2, 3, 1000, 65536, (1LL<<31)-1, 1LL<<31, (1LL<<31)+1, (1LL<<32)-1, 1LL<<32,
		(1LL<<32)+1, 1LL<<62, INT64_MAX-1, INT64_MAX};
	switch (vh_below(r, 4)) {
	case 0: return VH_PICK(r, b);
	case 1: return vh_range(r, 1, 100000);
	case 2: return (int64_t)(vh_rand(r) >> (1 + vh_below(r, 62))) | 1;
	default: return vh_range(r, 1, INT64_MAX);
	}
}
static uint32_t pick_delta(vh_rng *r)
{
	static const uint32_t b[] = {0, 1, 2, 3, 0x7ffffffeu, 0x7fffffffu, 0x80000000u, 0x80000001u, 0xfffffffeu, 0xffffffffu};
	switch (vh_below(r, 4)) {
	case 0: return VH_PICK(r, b);
	case 1: return (uint32_t)vh_range(r, 1, 100);
	case 2: return (uint32_t)(vh_rand(r) >> (32 + vh_below(r, 31)));
	default: return (uint32_t)vh_rand(r);
	}
}
static int64_t pick_level(vh_rng *r, int64_t burst, int allow_above)
{
	int64_t v;
	switch (vh_below(r, 8)) {
	case 0: return burst;
	case 1: return burst - 1;
	case 2: return 0;
	case 3: return -1;
	case 4: return -burst;
	case 5: return vh_chance(r, 1, 2) ? INT64_MIN : INT64_MIN + (int64_t)vh_below(r, 1000);
	case 6: v = (int64_t)vh_rand(r); if (v > burst) v = burst - (v % (burst > 0 ? burst : 1)); return v > burst ? burst : v;
	default:
		if (allow_above && vh_chance(r, 1, 3)) {
			/* above burst: reachable through bufferevent_decrement_*_limit with a negative value */
			switch (vh_below(r, 3)) {
			case 0: return burst < S64MAX ? burst + 1 : burst;
			case 1: return S64MAX - (int64_t)vh_below(r, 3);
			default: return burst + (int64_t)vh_below(r, (uint64_t)(S64MAX - burst) + 1);
			}
		}
		return vh_range(r, -burst, burst);
	}
}
static int64_t ref_update(int64_t level, int64_t rate, int64_t burst, uint32_t delta, int *changed)
{
	i128 nv;
	if (delta == 0 || delta > (uint32_t)INT_MAX) { *changed = 0; return level; }
	*changed = 1;
	nv = (i128)level + (i128)delta * (i128)rate;
	if (nv > (i128)burst) nv = burst;
	return (int64_t)nv;
}

static void case_update(vh_rng *r)
{
	struct ev_token_bucket_cfg cfg;
	struct ev_token_bucket b;
	int64_t rr = pick_rate(r), wr = pick_rate(r), rb, wb, rl, wl, erl, ewl;
	uint32_t last = (uint32_t)vh_rand(r), delta = pick_delta(r);
	int changed, ret, above;
	rb = vh_chance(r, 1, 3) ? rr : vh_range(r, rr, vh_chance(r,1,2) ? INT64_MAX : (rr < INT64_MAX/4 ? rr*4 : INT64_MAX));
	wb = vh_chance(r, 1, 3) ? wr : vh_range(r, wr, vh_chance(r,1,2) ? INT64_MAX : (wr < INT64_MAX/4 ? wr*4 : INT64_MAX));
	above = vh_opt.mode && !strcmp(vh_opt.mode, "above");
	rl = pick_level(r, rb, above); wl = pick_level(r, wb, above);
	memset(&cfg, 0, sizeof(cfg));
	cfg.read_rate = (size_t)rr; cfg.read_maximum = (size_t)rb;
	cfg.write_rate = (size_t)wr; cfg.write_maximum = (size_t)wb;
	cfg.msec_per_tick = 1000; cfg.tick_timeout.tv_sec = 1;
	b.read_limit = rl; b.write_limit = wl; b.last_updated = last;
	erl = ref_update(rl, rr, rb, delta, &changed);
	ewl = ref_update(wl, wr, wb, delta, &changed);
	ret = ev_token_bucket_update_(&b, &cfg, last + delta);
	vh_stat("updates");
	if (!changed) vh_stat("noop_updates");
	if (rl < 0 || wl < 0) vh_stat("deficit_levels");
	if (rl > rb || wl > wb) vh_stat("levels_above_burst");
	if (erl == rb || ewl == wb) vh_stat("clamped_to_burst");
	if (ret != changed || b.read_limit != erl || b.write_limit != ewl ||
	    b.last_updated != (changed ? last + delta : last)) {
		const char *key = (rl > rb || wl > wb) ? "C21:refill-level-above-burst" :
			(!changed ? "C21:refill-noop-changed" : "C21:refill-mismatch");
		vh_viol(key, "rate r/w=%lld/%lld burst=%lld/%lld level=%lld/%lld delta=%u -> got %lld/%lld ret=%d last=%u, want %lld/%lld ret=%d",
			(long long)rr, (long long)wr, (long long)rb, (long long)wb, (long long)rl, (long long)wl, delta,
			(long long)b.read_limit, (long long)b.write_limit, ret, b.last_updated, (long long)erl, (long long)ewl, changed);
	}
	{
		uint64_t h = vh_hash_bytes(0, &rr, 8); h = vh_hash_bytes(h, &rb, 8); h = vh_hash_bytes(h, &rl, 8);
		h = vh_hash_bytes(h, &wr, 8); h = vh_hash_bytes(h, &wb, 8); h = vh_hash_bytes(h, &wl, 8); h = vh_hash_bytes(h, &delta, 4);
		if (changed) vh_distinct(h);
	}
	vh_sample(3, "{\"op\":\"update\",\"read_rate\":%lld,\"read_burst\":%lld,\"read_level\":%lld,\"ticks\":%u,\"got\":%lld,\"want\":%lld}",
		(long long)rr, (long long)rb, (long long)rl, delta, (long long)b.read_limit, (long long)erl);
}

static uint64_t pick_param(vh_rng *r)
{
	static const uint64_t b[] = {0, 1, 2, 100, (uint64_t)INT64_MAX - 1, (uint64_t)INT64_MAX, (uint64_t)INT64_MAX + 1, UINT64_MAX};
	if (vh_chance(r, 1, 2)) return VH_PICK(r, b);
	if (vh_chance(r, 1, 2)) return vh_below(r, 1000);
	return vh_rand(r) >> vh_below(r, 64);
}
static void case_cfg(vh_rng *r)
{
	uint64_t rr = pick_param(r), rb = pick_param(r), wr = pick_param(r), wb = pick_param(r);
	struct timeval tv, *tvp = &tv;
	struct ev_token_bucket_cfg *c;
	int valid, tick_valid, tick_either = 0;
	uint64_t msec = 0;
	if (vh_chance(r, 1, 3)) { rb = rr + vh_below(r, 3); }   /* make valid combos common */
	if (vh_chance(r, 1, 3)) { wb = wr + vh_below(r, 3); }
	switch (vh_below(r, 6)) {
	case 0: tvp = NULL; break;
	case 1: tv.tv_sec = 0; tv.tv_usec = (long)vh_below(r, 1000); break;           /* sub-ms: ignored fraction => 0 */
	case 2: tv.tv_sec = 0; tv.tv_usec = (long)vh_range(r, 1000, 999999); break;
	case 3: tv.tv_sec = (long)vh_range(r, 1, INT_MAX/1000); tv.tv_usec = (long)vh_below(r, 1000000); break;
	case 4: tv.tv_sec = -(long)vh_range(r, 1, 100000); tv.tv_usec = (long)vh_below(r, 1000000); break;
	default: tv.tv_sec = (long)vh_range(r, (long)INT_MAX/1000 + 1, (long)INT_MAX * 4L); tv.tv_usec = 0; tick_either = 1; break;
	}
	if (!tvp) { tick_valid = 1; msec = 1000; }
	else if (tv.tv_sec < 0) tick_valid = 0;
	else { msec = (uint64_t)tv.tv_sec * 1000 + (uint64_t)tv.tv_usec / 1000; tick_valid = msec > 0; }
	valid = tick_valid && rr >= 1 && wr >= 1 && rr <= rb && wr <= wb &&
		rb <= (uint64_t)INT64_MAX && wb <= (uint64_t)INT64_MAX;
	c = ev_token_bucket_cfg_new((size_t)rr, (size_t)rb, (size_t)wr, (size_t)wb, tvp);
	vh_stat("cfg_new");
	if (c) vh_stat("cfg_accepted"); else vh_stat("cfg_rejected");
	if (tick_either && valid) {
		/* CALIBRATED: ticks longer than INT_MAX ms may be refused (overflow avoidance); either outcome ok */
		vh_stat("cfg_either");
	} else if ((c != NULL) != valid) {
		vh_viol(valid ? "C21:cfg-valid-rejected" : "C21:cfg-invalid-accepted",
			"cfg_new(%llu,%llu,%llu,%llu,tick=%s%ld.%06ld) -> %s, expected %s",
			(unsigned long long)rr, (unsigned long long)rb, (unsigned long long)wr, (unsigned long long)wb,
			tvp ? "" : "NULL:", tvp ? (long)tv.tv_sec : 0L, tvp ? (long)tv.tv_usec : 0L, c ? "accepted" : "NULL", valid ? "accept" : "reject");
	}
	if (c && !tick_either) {
		struct timeval now;
		uint32_t got, want;
		if (c->read_rate != rr || c->read_maximum != rb || c->write_rate != wr || c->write_maximum != wb || c->msec_per_tick != (unsigned)msec)
			vh_viol("C21:cfg-fields", "cfg fields differ from arguments (msec_per_tick=%u want %llu)", c->msec_per_tick, (unsigned long long)msec);
		now.tv_sec = (long)vh_below(r, 1ULL << (vh_below(r, 40) + 1)); now.tv_usec = (long)vh_below(r, 1000000);
		got = ev_token_bucket_get_tick_(&now, c);
		want = (uint32_t)((((unsigned __int128)(uint64_t)now.tv_sec * 1000 + (uint64_t)now.tv_usec / 1000)) / msec);
		vh_stat("get_tick");
		if (got != want) vh_viol("C21:get-tick", "get_tick(%ld.%06ld, msec=%llu)=%u want %u", (long)now.tv_sec, (long)now.tv_usec, (unsigned long long)msec, got, want);
		/* init: fresh bucket starts at rate; reinit clips downward only */
		{
			struct ev_token_bucket b; uint32_t t = (uint32_t)vh_rand(r);
			ev_token_bucket_init_(&b, c, t, 0);
			if (b.read_limit != (int64_t)rr || b.write_limit != (int64_t)wr || b.last_updated != t)
				vh_viol("C21:init", "init gives %lld/%lld", (long long)b.read_limit, (long long)b.write_limit);
		}
		{ uint64_t h = vh_hash_bytes(0, &rr, 8); h = vh_hash_bytes(h, &rb, 8); h = vh_hash_bytes(h, &wr, 8); h = vh_hash_bytes(h, &wb, 8); h = vh_hash_bytes(h, &msec, 8); vh_distinct(h); }
	}
	if (c) ev_token_bucket_cfg_free(c);
}

int main(int argc, char **argv)
{
	long idx; vh_rng r;
	vh_init(argc, argv);
	while (vh_next_case(&idx, &r)) {
		int i;
		/* one "case" = 1000 tuples to keep per-case overhead negligible */
		for (i = 0; i < 1000; i++) {
			if (vh_opt.mode && !strcmp(vh_opt.mode, "cfg")) case_cfg(&r); else case_update(&r);
		}
		vh_stat_add("cases", 1000);
	}
	vh_finish();
	return 0;
}
