/* h_bev2: bufferevent lifecycle (C19), timeouts (C20), rate limits (C22).
 *
 *   --mode lifecycle   C19 sessions (keys C19:...)
 *   --mode timeout     C20 sessions (keys C20:...)
 *   --mode ratelim     C22 sessions (keys C22:...)
 *
 * Generator, reference models and oracles are in this file.  All timing is
 * virtual (vclock); the loop is stepped with EVLOOP_ONCE / EVLOOP_NONBLOCK and
 * the oracles run at every iteration boundary (the wait hook) and after every
 * scripted API call.  Raw peers are plain non-blocking sockets serviced with
 * the unwrapped system calls.
 */
#include "vh.h"
#include <errno.h>
#include <unistd.h>
#include <fcntl.h>
#include <stddef.h>
#include <sys/socket.h>
#include <sys/un.h>
#include <netinet/in.h>
#include <arpa/inet.h>

#include <event2/event.h>
#include <event2/buffer.h>
#include <event2/bufferevent.h>
#include <event2/bufferevent_struct.h>
#include <event2/dns.h>
#include <event2/thread.h>
#include <event2/util.h>

#include "bufferevent-internal.h"
#include "ratelim-internal.h"

ssize_t __real_read(int, void *, size_t);
ssize_t __real_write(int, const void *, size_t);
ssize_t __real_recvfrom(int, void *, size_t, int, struct sockaddr *, socklen_t *);
ssize_t __real_sendto(int, const void *, size_t, int, const struct sockaddr *, socklen_t);
int __real_accept(int, struct sockaddr *, socklen_t *);
int __real_close(int);

#define VLOG(...) do { if (vh_opt.verbose) { fprintf(stderr, "[%lld] ", (long long)vclk_mono_us); fprintf(stderr, __VA_ARGS__); fputc('\n', stderr); } } while (0)

static struct event_base *B;
static uint64_t g_hash;
static char g_desc[1500];
static size_t g_desclen;
static unsigned char g_junk[1 << 16];

static void die(const char *m)
{
	fprintf(stderr, "h_bev2: %s (case %ld)\n", m, vh_cur_case);
	exit(3);
}
static int64_t now_us(void) { return vclk_mono_us; }
static struct timeval tv_of(int64_t us)
{
	struct timeval tv;
	tv.tv_sec = us / 1000000; tv.tv_usec = us % 1000000;
	return tv;
}
static void hmix(uint64_t a, uint64_t b)
{
	uint64_t v[2]; v[0] = a; v[1] = b;
	g_hash = vh_hash_bytes(g_hash, v, sizeof(v));
}
static void desc(const char *fmt, ...)
{
	va_list ap;
	if (vh_opt.verbose) { va_start(ap, fmt); fprintf(stderr, "[%lld] op ", (long long)vclk_mono_us); vfprintf(stderr, fmt, ap); fputc('\n', stderr); va_end(ap); }
	if (g_desclen + 80 >= sizeof(g_desc)) return;
	va_start(ap, fmt);
	g_desclen += (size_t)vsnprintf(g_desc + g_desclen, sizeof(g_desc) - g_desclen, fmt, ap);
	va_end(ap);
	if (g_desclen >= sizeof(g_desc)) g_desclen = sizeof(g_desc) - 1;
}

static int g_forever;
static void forever_hook(void) { g_forever++; if (B) event_base_loopbreak(B); }
static void (*g_boundary)(void);
static void wait_hook(int kind, int64_t to, void *a, void *b, void *c, int n)
{
	(void)kind; (void)to; (void)a; (void)b; (void)c; (void)n;
	if (g_boundary) g_boundary();
}

static struct event *g_timer;
static int g_timer_fired;
static void timer_cb(evutil_socket_t fd, short w, void *a) { (void)fd; (void)w; (void)a; g_timer_fired = 1; }

static void new_base(void)
{
	B = event_base_new();
	if (!B) die("event_base_new");
	g_timer = evtimer_new(B, timer_cb, NULL);
	g_timer_fired = 0;
}
static void free_base(void)
{
	event_free(g_timer); g_timer = NULL;
	event_base_free(B); B = NULL;
}
/* run the loop until virtual time `t`; extra_deadline() may name an earlier
 * instant at which the loop must be awake (model deadlines). */
static int (*g_livelock)(void);   /* mode hook: the loop spins without virtual time advancing; return 1 if handled */
static void run_until(int64_t t, int64_t (*extra_deadline)(void))
{
	long guard = 0, same = 0;
	int64_t last = -1;
	while (now_us() < t) {
		int64_t tgt = t, d = extra_deadline ? extra_deadline() : -1;
		struct timeval tv;
		if (d > now_us() && d < tgt) tgt = d;
		tv = tv_of(tgt - now_us());
		g_timer_fired = 0;
		evtimer_add(g_timer, &tv);
		while (!g_timer_fired) {
			event_base_loop(B, EVLOOP_ONCE);
			if (g_boundary) g_boundary();
			if (now_us() != last) { last = now_us(); same = 0; }
			else if (++same > (g_livelock ? 2000 : 50000)) { if (g_livelock && g_livelock()) same = 0; else die("loop spins without time advancing"); }
			if (++guard > 2000000) die("loop guard");
		}
	}
	event_base_loop(B, EVLOOP_NONBLOCK);
	if (g_boundary) g_boundary();
}
static void settle(void)
{
	event_base_loop(B, EVLOOP_NONBLOCK);
	if (g_boundary) g_boundary();
}

static void mk_pair(int fd[2], int sndbuf)
{
	if (socketpair(AF_UNIX, SOCK_STREAM | SOCK_NONBLOCK | SOCK_CLOEXEC, 0, fd) < 0) die("socketpair");
	if (sndbuf > 0) {
		setsockopt(fd[0], SOL_SOCKET, SO_SNDBUF, &sndbuf, sizeof(sndbuf));
		setsockopt(fd[1], SOL_SOCKET, SO_SNDBUF, &sndbuf, sizeof(sndbuf));
	}
}

/* a well-behaved filter that moves at most ctx bytes per call */
static enum bufferevent_filter_result
chunk_filter(struct evbuffer *src, struct evbuffer *dst, ev_ssize_t lim, enum bufferevent_flush_mode mode, void *ctx)
{
	size_t n = evbuffer_get_length(src), k = (size_t)(uintptr_t)ctx;
	(void)mode;
	if (!n) return BEV_NEED_MORE;
	if (lim >= 0 && n > (size_t)lim) n = (size_t)lim;
	if (k && n > k) n = k;
	if (!n) return BEV_NEED_MORE;
	evbuffer_remove_buffer(src, dst, n);
	return BEV_OK;
}

/* ================================================================== C20 */
enum { TK_SOCK, TK_PAIR, TK_FILT };
static const char *tk_name[] = { "socket", "pair", "filter" };
static const char *dir_name[] = { "read", "write" };
struct tdir {
	int enabled; int64_t T; int wm_susp, bw_susp, armed; int64_t since, touch; const char *why;
};
struct tsub {
	int id, kind, under_kind; struct bufferevent *bev, *under; struct tdir d[2];
	int fd, peer; struct tsub *partner; size_t in_len, out_len, wm_high;
	int drain_mode; int diverged; int has_rl; struct ev_token_bucket_cfg *cfg;
	long n_read_xfer, n_write_xfer;
};
#define TMAX 4
static struct tsub TS[TMAX];
static int nTS;
static long t_ok_timeouts, t_postponed;

static void t_eval(struct tsub *s, int d, const char *why)
{
	struct tdir *m = &s->d[d];
	int a = m->enabled && m->T > 0 && !m->wm_susp && !m->bw_susp && (d == 0 || s->out_len > 0);
	if (a && !m->armed) { m->since = now_us(); m->why = why; }
	m->armed = a;
}
static void t_restart(struct tsub *s, int d, const char *why)
{
	struct tdir *m = &s->d[d];
	t_eval(s, d, why);
	if (m->armed) {
		if (now_us() > m->since) { t_postponed++; vh_stat("restart_postponed_deadline"); }
		m->since = now_us(); m->why = why;
	}
}
static void t_viol(struct tsub *s, int d, const char *rule, const char *fmt, ...)
{
	char key[96], txt[600];
	va_list ap;
	struct tdir *m = &s->d[d];
	if (s->diverged) return;
	s->diverged = 1;
	snprintf(key, sizeof(key), "C20:%s:%s:%s", rule, tk_name[s->kind], dir_name[d]);
	va_start(ap, fmt);
	vsnprintf(txt, sizeof(txt), fmt, ap);
	va_end(ap);
	if (vh_opt.verbose) {
		struct timeval tv = {0, 0};
		struct event *ev = d ? &s->bev->ev_write : &s->bev->ev_read;
		int p = event_pending(ev, EV_TIMEOUT | EV_READ | EV_WRITE, &tv);
		fprintf(stderr, "   lib: pending=0x%x deadline(wall)=%lld.%06ld susp r=0x%x w=0x%x enabled=0x%x\n", p, (long long)tv.tv_sec, (long)tv.tv_usec,
		    BEV_UPCAST(s->bev)->read_suspended, BEV_UPCAST(s->bev)->write_suspended, s->bev->enabled);
	}
	vh_viol(key, "%s | sub%d now=%lld enabled=%d T=%lld wm_susp=%d bw_susp=%d out_len=%zu in_len=%zu since=%lld (%s) | %s",
	    txt, s->id, (long long)now_us(), m->enabled, (long long)m->T, m->wm_susp, m->bw_susp, s->out_len, s->in_len,
	    (long long)m->since, m->why ? m->why : "-", g_desc);
}
static void t_sample(struct tsub *s)
{
	struct bufferevent_private *p;
	int d;
	if (!s->bev || s->kind != TK_SOCK) return;
	p = BEV_UPCAST(s->bev);
	for (d = 0; d < 2; d++) {
		/* CALIBRATED/trusted: rate-limit suspension is read from the private
		 * suspend flags (its correctness is C22's subject, not C20's) */
		int f = (d == 0 ? p->read_suspended : p->write_suspended) & (BEV_SUSPEND_BW | BEV_SUSPEND_BW_GROUP);
		if (!!f != s->d[d].bw_susp) {
			s->d[d].bw_susp = !!f;
			vh_stat(f ? "bw_suspensions" : "bw_unsuspensions");
			VLOG("sub%d %s bw %s", s->id, dir_name[d], f ? "suspend" : "unsuspend");
			t_eval(s, d, f ? "bw-suspend" : "bw-unsuspend");
		}
	}
}
static void t_boundary(void)
{
	int i, d;
	for (i = 0; i < nTS; i++) {
		struct tsub *s = &TS[i];
		if (!s->bev || s->diverged) continue;
		t_sample(s);
		for (d = 0; d < 2; d++) {
			struct tdir *m = &s->d[d];
			if (m->armed && now_us() >= m->since + m->T)
				t_viol(s, d, m->touch > m->since ? "postponed-by-noop-unsuspend" : "missed", "no TIMEOUT event although the direction was enabled, not suspended%s and idle for %lld us >= T",
				    d ? ", had pending output" : "", (long long)(now_us() - m->since));
		}
	}
}
static int64_t t_next_deadline(void)
{
	int i, d; int64_t best = -1;
	for (i = 0; i < nTS; i++) for (d = 0; d < 2; d++) {
		struct tdir *m = &TS[i].d[d];
		if (TS[i].bev && !TS[i].diverged && m->armed && (best < 0 || m->since + m->T < best)) best = m->since + m->T;
	}
	return best;
}
static void t_in_cb(struct evbuffer *buf, const struct evbuffer_cb_info *info, void *arg)
{
	struct tsub *s = arg;
	int wm;
	s->in_len = evbuffer_get_length(buf);
	if (info->n_added) VLOG("sub%d read-transfer %zu", s->id, info->n_added);
	if (info->n_added) { s->n_read_xfer++; vh_stat("read_transfers"); t_restart(s, 0, "read-transfer"); }
	wm = s->wm_high && s->in_len >= s->wm_high;
	if (wm != s->d[0].wm_susp) {
		s->d[0].wm_susp = wm;
		vh_stat(wm ? "wm_suspensions" : "wm_unsuspensions");
		t_eval(s, 0, wm ? "wm-suspend" : "wm-unsuspend");
	} else if (s->wm_high && !wm && !info->n_added) {
		/* the watermark callback re-checks on every length change; a drain by
		 * the application is not a transfer and must not restart the interval */
		s->d[0].touch = now_us();
	}
}
static void t_out_cb(struct evbuffer *buf, const struct evbuffer_cb_info *info, void *arg)
{
	struct tsub *s = arg;
	s->out_len = evbuffer_get_length(buf);
	if (info->n_deleted) { s->n_write_xfer++; vh_stat("write_transfers"); t_restart(s, 1, "write-transfer"); }
	t_eval(s, 1, "output-became-pending");
}
static void t_readcb(struct bufferevent *bev, void *arg)
{
	struct tsub *s = arg;
	struct evbuffer *in = bufferevent_get_input(bev);
	size_t n = evbuffer_get_length(in);
	vh_stat("read_callbacks");
	/* contract: a read callback that leaves the input at/above the high
	 * watermark is re-invoked at once (bufferevent_inbuf_wm_check), so it
	 * must drain below it; lasting watermark suspension is produced with
	 * drain_mode 2 (no read callback installed, application drains later) */
	if (s->drain_mode == 1 && (!s->wm_high || n - (n + 1) / 2 < s->wm_high)) evbuffer_drain(in, (n + 1) / 2);
	else evbuffer_drain(in, n);
}
static void t_writecb(struct bufferevent *bev, void *arg) { (void)bev; (void)arg; vh_stat("write_callbacks"); }
static void t_eventcb(struct bufferevent *bev, short what, void *arg)
{
	struct tsub *s = arg;
	int d;
	if (!(what & BEV_EVENT_TIMEOUT)) { vh_stat("other_events"); return; }
	if (!(what & (BEV_EVENT_READING | BEV_EVENT_WRITING))) { t_viol(s, 0, "timeout-without-direction", "what=0x%x", what); return; }
	t_sample(s);
	for (d = 0; d < 2; d++) {
		struct tdir *m = &s->d[d];
		short flag = d ? EV_WRITE : EV_READ;
		if (!(what & (d ? BEV_EVENT_WRITING : BEV_EVENT_READING))) continue;
		vh_stat(d ? "timeout_events_write" : "timeout_events_read");
		VLOG("sub%d TIMEOUT %s", s->id, dir_name[d]);
		if (!m->enabled) t_viol(s, d, "fired-while-disabled", "TIMEOUT|%s delivered while the direction is disabled", d ? "WRITING" : "READING");
		else if (m->wm_susp || m->bw_susp) t_viol(s, d, "fired-while-suspended", "TIMEOUT delivered while suspended");
		else if (d == 1 && s->out_len == 0) t_viol(s, d, "fired-without-pending-output", "TIMEOUT|WRITING delivered with an empty output buffer");
		else if (m->T <= 0) t_viol(s, d, "fired-without-timeout-set", "TIMEOUT delivered but no timeout is configured");
		else if (now_us() < m->since + m->T) t_viol(s, d, "fired-early", "TIMEOUT after only %lld us of idleness (T=%lld)", (long long)(now_us() - m->since), (long long)m->T);
		else { t_ok_timeouts++; vh_stat(d ? "timeouts_on_time_write" : "timeouts_on_time_read"); }
		if (bufferevent_get_enabled(bev) & flag) t_viol(s, d, "direction-not-disabled", "direction still enabled inside the TIMEOUT callback");
		m->enabled = 0;
		t_eval(s, d, "timeout-fired");
	}
}
static int64_t pick_T(vh_rng *r)
{
	static const int64_t b[] = { 1, 999, 1000, 1001, 10000, 250000, 1000000, 3600LL * 1000000 };
	switch (vh_below(r, 4)) {
	case 0: return VH_PICK(r, b);
	case 1: return vh_range(r, 1, 5000);
	case 2: return vh_range(r, 1000, 2000000);
	default: return vh_range(r, 20000, 200000);
	}
}
static void t_attach(struct tsub *s, int id, int kind, struct bufferevent *bev)
{
	short en;
	memset(s, 0, sizeof(*s));
	s->id = id; s->kind = kind; s->bev = bev; s->fd = s->peer = -1;
	evbuffer_add_cb(bufferevent_get_input(bev), t_in_cb, s);
	evbuffer_add_cb(bufferevent_get_output(bev), t_out_cb, s);
	bufferevent_setcb(bev, t_readcb, t_writecb, t_eventcb, s);
	en = bufferevent_get_enabled(bev);   /* CALIBRATED: initial state is whatever the API reports */
	s->d[0].enabled = !!(en & EV_READ); s->d[1].enabled = !!(en & EV_WRITE);
}
static void t_setup(vh_rng *r)
{
	int shape = (int)vh_below(r, 5), opts = vh_chance(r, 1, 3) ? BEV_OPT_DEFER_CALLBACKS : 0, fd[2];
	struct bufferevent *pr[2], *f;
	int sndbuf = vh_chance(r, 1, 2) ? (int)vh_range(r, 2304, 20000) : 0;
	nTS = 0;
	hmix(shape, opts);
	switch (shape) {
	case 0: case 1: /* plain socket */
		mk_pair(fd, sndbuf);
		t_attach(&TS[0], 0, TK_SOCK, bufferevent_socket_new(B, fd[0], opts));
		TS[0].fd = fd[0]; TS[0].peer = fd[1]; nTS = 1;
		desc("socket opts=%d sndbuf=%d;", opts, sndbuf);
		break;
	case 2: /* pair: both ends are subjects */
		if (bufferevent_pair_new(B, opts, pr) < 0) die("pair_new");
		t_attach(&TS[0], 0, TK_PAIR, pr[0]); t_attach(&TS[1], 1, TK_PAIR, pr[1]);
		TS[0].partner = &TS[1]; TS[1].partner = &TS[0]; nTS = 2;
		desc("pair opts=%d;", opts);
		break;
	case 3: { /* filter over socket */
		void *ctx = vh_chance(r, 1, 2) ? NULL : (void *)(uintptr_t)vh_range(r, 1, 300);
		struct bufferevent *u;
		mk_pair(fd, sndbuf);
		u = bufferevent_socket_new(B, fd[0], 0);
		if (vh_chance(r, 1, 3)) bufferevent_setwatermark(u, EV_WRITE, 0, (size_t)vh_range(r, 1, 3000));
		f = bufferevent_filter_new(u, ctx ? chunk_filter : NULL, ctx ? chunk_filter : NULL, opts, NULL, ctx);
		t_attach(&TS[0], 0, TK_FILT, f);
		TS[0].under = u; TS[0].under_kind = TK_SOCK; TS[0].fd = fd[0]; TS[0].peer = fd[1]; nTS = 1;
		desc("filter/socket opts=%d chunk=%ld;", opts, (long)(uintptr_t)ctx);
		break; }
	default: { /* filter over pair[0]; pair[1] is a subject too */
		void *ctx = vh_chance(r, 1, 2) ? NULL : (void *)(uintptr_t)vh_range(r, 1, 300);
		if (bufferevent_pair_new(B, 0, pr) < 0) die("pair_new");
		if (vh_chance(r, 1, 3)) bufferevent_setwatermark(pr[0], EV_WRITE, 0, (size_t)vh_range(r, 1, 3000));
		f = bufferevent_filter_new(pr[0], ctx ? chunk_filter : NULL, ctx ? chunk_filter : NULL, opts, NULL, ctx);
		t_attach(&TS[0], 0, TK_FILT, f);
		TS[0].under = pr[0]; TS[0].under_kind = TK_PAIR;
		t_attach(&TS[1], 1, TK_PAIR, pr[1]);
		nTS = 2;
		desc("filter/pair opts=%d chunk=%ld;", opts, (long)(uintptr_t)ctx);
		break; }
	}
}
static void t_apply_timeouts(struct tsub *s, int64_t tr, int64_t tw)
{
	struct timeval a = tv_of(tr), b = tv_of(tw);
	bufferevent_set_timeouts(s->bev, tr ? &a : NULL, tw ? &b : NULL);
	s->d[0].T = tr; s->d[1].T = tw;
	/* doc: "setting a timeout for a bufferevent whose timeout is already pending resets its timeout" */
	s->d[0].armed = 0; s->d[1].armed = 0;
	t_eval(s, 0, "set_timeouts"); t_eval(s, 1, "set_timeouts");
}
static void t_op(vh_rng *r)
{
	struct tsub *s = &TS[vh_below(r, nTS)];
	int op = (int)vh_below(r, 15), d;
	size_t n;
	ssize_t k;
	t_sample(s);
	switch (op) {
	case 0: { /* set / change / clear timeouts */
		int64_t tr = vh_chance(r, 1, 5) ? 0 : pick_T(r), tw = vh_chance(r, 1, 5) ? 0 : pick_T(r);
		if (vh_chance(r, 1, 3)) tr = s->d[0].T;
		else if (vh_chance(r, 1, 3)) tw = s->d[1].T;
		desc("T%d(%lld,%lld);", s->id, (long long)tr, (long long)tw); hmix(1000 + s->id, (uint64_t)tr * 31 + (uint64_t)tw);
		vh_stat("op_set_timeouts");
		t_apply_timeouts(s, tr, tw);
		break; }
	case 1: case 2: { /* enable */
		short ev = (short)VH_PICK(r, ((int[]){ EV_READ, EV_WRITE, EV_READ | EV_WRITE }));
		desc("E%d(%d);", s->id, ev); hmix(2000 + s->id, ev);
		vh_stat("op_enable");
		bufferevent_enable(s->bev, ev);
		for (d = 0; d < 2; d++) if (ev & (d ? EV_WRITE : EV_READ)) {
			s->d[d].enabled = 1;
			/* doc: "Calling bufferevent_enable ... whose timeout is already pending resets its timeout" */
			s->d[d].armed = 0;
			t_eval(s, d, "enable");
		}
		break; }
	case 3: { /* disable */
		short ev = (short)VH_PICK(r, ((int[]){ EV_READ, EV_WRITE, EV_READ | EV_WRITE }));
		desc("D%d(%d);", s->id, ev); hmix(3000 + s->id, ev);
		vh_stat("op_disable");
		bufferevent_disable(s->bev, ev);
		for (d = 0; d < 2; d++) if (ev & (d ? EV_WRITE : EV_READ)) { s->d[d].enabled = 0; t_eval(s, d, "disable"); }
		break; }
	case 4: case 5: case 6: /* application writes */
		n = (size_t)(vh_chance(r, 1, 4) ? vh_range(r, 1, 60000) : vh_range(r, 1, 1500));
		desc("W%d(%zu);", s->id, n); hmix(4000 + s->id, n);
		vh_stat("op_write");
		bufferevent_write(s->bev, g_junk, n);
		break;
	case 7: case 8: /* peer sends (socket-backed subjects) */
		if (s->peer < 0) break;
		n = (size_t)vh_range(r, 1, 3000);
		k = __real_write(s->peer, g_junk, n);
		desc("F%d(%zd);", s->id, k); hmix(5000 + s->id, n);
		vh_stat("op_peer_send");
		break;
	case 9: /* peer drains */
		if (s->peer < 0) break;
		n = (size_t)vh_range(r, 1, sizeof(g_junk));
		k = __real_read(s->peer, g_junk, n);
		desc("R%d(%zd);", s->id, k); hmix(6000 + s->id, n);
		vh_stat("op_peer_drain");
		break;
	case 10: /* application drains input outside callbacks */
		n = evbuffer_get_length(bufferevent_get_input(s->bev));
		if (!n) break;
		n = (size_t)vh_range(r, 1, (int64_t)n);
		desc("X%d(%zu);", s->id, n); hmix(7000 + s->id, n);
		vh_stat("op_app_drain");
		evbuffer_drain(bufferevent_get_input(s->bev), n);
		break;
	case 11: { /* read high watermark (not on filters: a watermark change or flush while
		    * the filter's inbuf callback is armed re-enters evbuffer_remove_buffer and
		    * corrupts the underlying input buffer - a C17/C18 matter, reported there) */
		size_t high = vh_chance(r, 1, 4) ? 0 : (size_t)vh_range(r, 1, 2000);
		int wm;
		if (s->kind == TK_FILT) break;
		desc("M%d(%zu);", s->id, high); hmix(8000 + s->id, high);
		vh_stat("op_setwatermark");
		s->wm_high = high;
		s->d[0].touch = now_us();
		bufferevent_setwatermark(s->bev, EV_READ, 0, high);
		wm = high && s->in_len >= high;
		if (wm != s->d[0].wm_susp) { s->d[0].wm_susp = wm; vh_stat(wm ? "wm_suspensions" : "wm_unsuspensions"); t_eval(s, 0, wm ? "wm-suspend" : "wm-unsuspend"); }
		break; }
	case 12: /* flush (pair/filter) */
		if (s->kind == TK_SOCK) break;
		{
			short io = (short)VH_PICK(r, ((int[]){ EV_READ, EV_WRITE, EV_READ | EV_WRITE }));
			desc("L%d(%d);", s->id, io); hmix(9000 + s->id, io);
			vh_stat("op_flush");
			bufferevent_flush(s->bev, io, BEV_FLUSH);
		}
		break;
	case 13: /* read callback drain policy */
		s->drain_mode = (int)vh_below(r, 3);
		desc("P%d(%d);", s->id, s->drain_mode); hmix(10000 + s->id, s->drain_mode);
		bufferevent_setcb(s->bev, s->drain_mode == 2 ? NULL : t_readcb, t_writecb, t_eventcb, s);
		break;
	default: /* per-bufferevent rate limit on plain sockets */
		if (s->kind != TK_SOCK) break;
		s->d[0].touch = s->d[1].touch = now_us();
		if (s->has_rl && vh_chance(r, 1, 2)) {
			desc("Q%d(off);", s->id); hmix(11000 + s->id, 0);
			bufferevent_set_rate_limit(s->bev, NULL);
			s->has_rl = 0;
		} else if (!s->has_rl) {
			size_t rate = (size_t)vh_range(r, 20, 800);
			struct timeval tick = tv_of(VH_PICK(r, ((int64_t[]){ 5000, 20000, 100000, 1000000 })));
			if (s->cfg) ev_token_bucket_cfg_free(s->cfg);
			s->cfg = ev_token_bucket_cfg_new(rate, rate * (size_t)vh_range(r, 1, 3), rate, rate * (size_t)vh_range(r, 1, 3), &tick);
			desc("Q%d(%zu/%lldus);", s->id, rate, (long long)(tick.tv_sec * 1000000LL + tick.tv_usec)); hmix(11000 + s->id, rate);
			bufferevent_set_rate_limit(s->bev, s->cfg);
			s->has_rl = 1;
			vh_stat("op_ratelimit");
		}
		break;
	}
	t_sample(s);
	if (s->partner) t_sample(s->partner);
}
static void case_timeout(vh_rng *r)
{
	int i, nops = (int)vh_range(r, 8, vh_opt.thorough ? 70 : 40);
	int64_t maxT = 0;
	long ok0 = t_ok_timeouts, pp0 = t_postponed;
	g_hash = 20; g_desclen = 0; g_desc[0] = 0;
	new_base();
	g_boundary = t_boundary;
	t_setup(r);
	for (i = 0; i < nTS; i++) if (vh_chance(r, 3, 4)) {
		int64_t tr = vh_chance(r, 1, 4) ? 0 : pick_T(r), tw = vh_chance(r, 1, 4) ? 0 : pick_T(r);
		desc("T%d(%lld,%lld);", i, (long long)tr, (long long)tw); hmix(1000 + i, (uint64_t)tr * 31 + (uint64_t)tw);
		t_apply_timeouts(&TS[i], tr, tw);
	}
	for (i = 0; i < nops; i++) {
		int64_t delay, dl = t_next_deadline();
		t_op(r);
		switch (vh_below(r, 6)) {
		case 0: delay = 0; break;
		case 1: delay = vh_range(r, 1, 3000); break;
		case 2: delay = dl > now_us() ? dl - now_us() + vh_range(r, -2, 2) : vh_range(r, 1, 100000); break;
		case 3: delay = dl > now_us() ? vh_range(r, 1, dl - now_us()) : 1000; break;
		case 4: delay = vh_range(r, 1000, 300000); break;
		default: delay = pick_T(r) + vh_range(r, 0, 1000); break;
		}
		if (delay < 0) delay = 0;
		if (delay > 2 * 3600LL * 1000000) delay = 2 * 3600LL * 1000000;
		desc("+%lld;", (long long)delay); hmix(77, (uint64_t)delay);
		if (delay == 0) settle(); else run_until(now_us() + delay, t_next_deadline);
	}
	/* quiet period: every timer armed by the library with the current T must show by now */
	for (i = 0; i < nTS; i++) { if (TS[i].d[0].T > maxT) maxT = TS[i].d[0].T; if (TS[i].d[1].T > maxT) maxT = TS[i].d[1].T; }
	run_until(now_us() + maxT + 1, t_next_deadline);
	g_boundary = NULL;
	for (i = 0; i < nTS; i++) {
		struct tsub *s = &TS[i];
		bufferevent_free(s->bev); s->bev = NULL;
		if (s->under && s->under_kind == TK_SOCK) bufferevent_free(s->under);
		if (s->under && s->under_kind == TK_PAIR) bufferevent_free(s->under);
	}
	event_base_loop(B, EVLOOP_NONBLOCK);
	for (i = 0; i < nTS; i++) {
		if (TS[i].fd >= 0) close(TS[i].fd);
		if (TS[i].peer >= 0) close(TS[i].peer);
		if (TS[i].cfg) ev_token_bucket_cfg_free(TS[i].cfg);
	}
	free_base();
	vh_stat("cases");
	if (t_ok_timeouts > ok0 || t_postponed > pp0) vh_distinct(g_hash);
	vh_sample(2, "{\"mode\":\"timeout\",\"case\":%ld,\"script\":\"%s\"}", vh_cur_case, g_desc);
}
/* ================================================================== C22 */
struct acct { int on, group; int64_t rate, burst, quantum; unsigned tick_ms; uint32_t tick0; int n, cap; int64_t *b, *ex; };
struct refb { int on; int64_t level[2], rate[2], burst[2]; unsigned tick_ms; uint32_t last; };
struct rsub {
	int id, fd, peer, dirs, alive, stall, in_group, has_cfg; struct bufferevent *bev;
	struct ev_token_bucket_cfg *cfg; int64_t msr, msw;   /* max_single_read/write as configured */
	struct acct own[2]; struct refb ref; int en[2]; int64_t p_since[2], p_since_lib[2]; int reported[2];
	int64_t moved[2]; int ms_reported[2]; int dirty[2]; int other_dry[2];
};
#define RMAX 8
static struct rsub RS[RMAX];
static int nRS;
static struct bufferevent_rate_limit_group *r_grp;
static struct ev_token_bucket_cfg *r_gcfg;
static struct acct r_gacct[2];
static struct refb r_gref;
static int64_t r_minshare;     /* effective: min(configured, read rate, write rate) */
static long r_progress_checks, r_ops_seen;
static int r_any_limit_hit;

static uint32_t r_tick(unsigned tick_ms)
{
	uint64_t ms = (uint64_t)((vclk_mono_us + vclk_wall_off_us) / 1000);   /* as ev_token_bucket_get_tick_: whole ms of wall time */
	return (uint32_t)(ms / tick_ms);
}
static void acct_open(struct acct *a, int group, int64_t rate, int64_t burst, unsigned tick_ms, int64_t quantum)
{
	memset(a, 0, sizeof(*a));
	a->on = 1; a->group = group; a->rate = rate; a->burst = burst; a->tick_ms = tick_ms; a->quantum = quantum;
	a->tick0 = r_tick(tick_ms);
}
static void acct_grow(struct acct *a)
{
	int need = (int)(r_tick(a->tick_ms) - a->tick0) + 1;
	if (need > a->cap) {
		int nc = need * 2 + 64;
		a->b = realloc(a->b, sizeof(int64_t) * (size_t)nc); a->ex = realloc(a->ex, sizeof(int64_t) * (size_t)nc);
		memset(a->b + a->cap, 0, sizeof(int64_t) * (size_t)(nc - a->cap));
		memset(a->ex + a->cap, 0, sizeof(int64_t) * (size_t)(nc - a->cap));
		a->cap = nc;
	}
	if (need > a->n) a->n = need;
}
static void acct_add(struct acct *a, int64_t bytes, int64_t extra)
{
	if (!a->on) return;
	acct_grow(a);
	a->b[a->n - 1] += bytes; a->ex[a->n - 1] += extra;
}
/* every window [i..j] of whole ticks: sum(bytes) <= burst + k*rate (+ allowance explicitly added by the
 * application with negative decrements)  <=>  max subarray sum of (bytes - extra - rate) <= burst */
static void acct_close(struct acct *a, const char *who, const char *dir, int subid)
{
	int i, bi = 0, bj = 0, curi = 0;
	int64_t cur = 0, best = INT64_MIN, tot = 0;
	if (!a->on) return;
	acct_grow(a);
	for (i = 0; i < a->n; i++) {
		int64_t x = a->b[i] - a->ex[i] - a->rate;
		tot += a->b[i];
		if (cur <= 0) { cur = x; curi = i; } else cur += x;
		if (cur > best) { best = cur; bi = curi; bj = i; }
	}
	vh_stat_add("windows_judged", (long)a->n * (a->n + 1) / 2);
	vh_stat_add(a->group ? "group_bucket_epochs" : "bev_bucket_epochs", 1);
	if (tot > 0) vh_stat("buckets_with_traffic");
	if (a->n >= 4 && tot * 2 >= a->rate * (int64_t)(a->n - 1)) { vh_stat("buckets_limit_was_binding"); r_any_limit_hit = 1; }
	if (best * 10 >= a->burst * 9) vh_stat("windows_at_90pct_of_bound");
	if (best > a->burst + a->quantum) {
		char key[96];
		int64_t wb = 0, we = 0;
		for (i = bi; i <= bj; i++) { wb += a->b[i]; we += a->ex[i]; }
		snprintf(key, sizeof(key), "C22:window-exceeded:%s:%s", who, dir);
		vh_viol(key, "%s%d %s: window of k=%d ticks (ticks %d..%d of %d, tick=%ums) moved %lld bytes > burst %lld + k*rate %lld*%d (+manual refills %lld, +quantum %lld) | %s",
		    who, subid, dir, bj - bi + 1, bi, bj, a->n, a->tick_ms, (long long)wb, (long long)a->burst, (long long)a->rate, bj - bi + 1,
		    (long long)we, (long long)a->quantum, g_desc);
	} else if (best > a->burst) {
		vh_stat("group_windows_within_min_share_quantum");
	}
	free(a->b); free(a->ex); a->b = a->ex = NULL; a->on = 0;
}
static void ref_update(struct refb *r)
{
	uint32_t t;
	int d;
	if (!r->on) return;
	t = r_tick(r->tick_ms);
	if (t != r->last) {
		int64_t n = (int64_t)(uint32_t)(t - r->last);
		for (d = 0; d < 2; d++) {
			__int128 v = (__int128)r->level[d] + (__int128)n * r->rate[d];
			if (v > r->burst[d]) v = r->burst[d];
			if (r->level[d] < r->burst[d]) r->level[d] = (int64_t)v; else r->level[d] = r->burst[d];
		}
		r->last = t;
	}
}
static void ref_open(struct refb *r, int64_t rr, int64_t rb, int64_t wr, int64_t wb, unsigned tick_ms)
{
	memset(r, 0, sizeof(*r));
	r->on = 1; r->rate[0] = rr; r->burst[0] = rb; r->rate[1] = wr; r->burst[1] = wb; r->tick_ms = tick_ms;
	r->level[0] = rr; r->level[1] = wr;   /* a new bucket starts with one tick's worth */
	r->last = r_tick(tick_ms);
}
static struct rsub *r_byfd(int fd)
{
	int i;
	for (i = 0; i < nRS; i++) if (RS[i].alive && RS[i].fd == fd) return &RS[i];
	return NULL;
}
static int r_fdfilter(int fd) { return r_byfd(fd) != NULL; }
static void r_obs(int sym, int fd, long req, long res)
{
	struct rsub *s;
	int d;
	(void)req;
	if (sym == SF_read || sym == SF_readv || sym == SF_recv) d = 0;
	else if (sym == SF_write || sym == SF_writev || sym == SF_send || sym == SF_sendfile) d = 1;
	else return;
	s = r_byfd(fd);
	if (!s) return;
	if (res == 0 && d == 0) { vh_stat("zero_length_reads"); return; }
	if (res <= 0) return;
	r_ops_seen++;
	vh_stat(d ? "write_syscalls" : "read_syscalls");
	vh_stat_add(d ? "bytes_written" : "bytes_read", res);
	s->moved[d] += res; s->dirty[d] = 1;
	if (res > (d ? s->msw : s->msr) && !s->ms_reported[d]++) {
		char key[96];
		snprintf(key, sizeof(key), "C22:max-single-%s-exceeded:%s", dir_name[d], s->has_cfg ? "own-bucket" : (s->in_group ? "group-only" : "unlimited"));
		vh_viol(key, "bev%d one %s moved %ld bytes > max_single_%s %lld | %s", s->id, dir_name[d], res, dir_name[d], (long long)(d ? s->msw : s->msr), g_desc);
	}
	if (s->has_cfg) { ref_update(&s->ref); s->ref.level[d] -= res; acct_add(&s->own[d], res, 0); if (s->ref.level[d] <= 0) s->other_dry[1 - d] = 1; }
	if (s->in_group) { ref_update(&r_gref); r_gref.level[d] -= res; acct_add(&r_gacct[d], res, 0); }
	if (s->p_since[d] >= 0) s->p_since[d] = now_us();
	if (s->p_since_lib[d] >= 0) s->p_since_lib[d] = now_us();
	VLOG("bev%d %s %ld", s->id, dir_name[d], res);
}
static void r_service_peers(void)
{
	int i;
	for (i = 0; i < nRS; i++) {
		struct rsub *s = &RS[i];
		int k;
		if (!s->alive) continue;
		/* only after the bufferevent moved something (or at start): keeps the socket readable / writable */
		if ((s->dirs & 1) && s->dirty[0]) { s->dirty[0] = 0; for (k = 0; k < 8; k++) if (__real_write(s->peer, g_junk, sizeof(g_junk)) < (ssize_t)sizeof(g_junk)) break; }
		if ((s->dirs & 2) && !s->stall && s->dirty[1]) { s->dirty[1] = 0; for (k = 0; k < 64; k++) if (__real_read(s->peer, g_junk, sizeof(g_junk)) < (ssize_t)sizeof(g_junk)) break; }
	}
}
static void r_boundary(void)
{
	int i, d;
	r_service_peers();
	ref_update(&r_gref);
	for (i = 0; i < nRS; i++) {
		struct rsub *s = &RS[i];
		if (!s->alive) continue;
		ref_update(&s->ref);
		for (d = 0; d < 2; d++) {
			int ok = (s->dirs & (1 << d)) && s->en[d] && !(d == 1 && s->stall) && (s->has_cfg || s->in_group);
			int64_t w = 0;
			if (ok && s->has_cfg) { ok = s->ref.level[d] > 0; w = (int64_t)s->ref.tick_ms * 1000; }
			if (ok && s->in_group) {
				/* CALIBRATED: a group resumes its members only when its bucket holds at least min_share
				 * (the documented "smallest quantum"), so "budget remaining" for a member means that much */
				ok = r_gref.level[d] >= (r_minshare > 1 ? r_minshare : 1);
				if ((int64_t)r_gref.tick_ms * 1000 > w) w = (int64_t)r_gref.tick_ms * 1000;
			}
			if (!ok) { s->p_since[d] = -1; s->p_since_lib[d] = -1; continue; }
			/* "within one tick of the bucket becoming positive": a group's bucket is refilled by the group's own
			 * (persistent) timer, whose phase against the tick grid of the reference model is arbitrary, so the
			 * library's bucket may turn positive up to one timer period after the model's.  One tick is demanded
			 * from the moment the library's own group level allows a member to go, two from the model's. */
			{
				int lib_ok = 1;
				if (s->in_group) {
					int64_t gl = d ? bufferevent_rate_limit_group_get_write_limit(r_grp) : bufferevent_rate_limit_group_get_read_limit(r_grp);
					lib_ok = gl >= (r_minshare > 1 ? r_minshare : 1);
				}
				if (!lib_ok) s->p_since_lib[d] = -1;
				else if (s->p_since_lib[d] < 0) s->p_since_lib[d] = now_us();
			}
			if (s->p_since[d] < 0 || s->p_since[d] == now_us()) {
				/* (re)start of the observation: was the other direction's bucket empty already? */
				s->other_dry[d] = s->has_cfg && s->ref.level[1 - d] <= 0;
				if (s->p_since[d] < 0) s->p_since[d] = now_us();
				continue;
			}
			r_progress_checks++;
			if (((s->p_since_lib[d] >= 0 && now_us() - s->p_since_lib[d] > w + 2000) ||
			     now_us() - s->p_since[d] > (s->in_group ? 2 * w : w) + 2000) && !s->reported[d]) {
				char key[96];
				s->reported[d] = 1;
				/* witness class: was the other direction of the same bufferevent out of budget meanwhile
				 * (its exhaustion re-arms the refill timer both directions share)? */
				int other = s->other_dry[d];
				snprintf(key, sizeof(key), "C22:stalled:%s:%s%s", s->has_cfg ? (s->in_group ? "own+group" : "own-bucket") : "group-only", dir_name[d],
				    other ? ":other-direction-exhausted" : "");
				vh_viol(key, "bev%d %s: data and budget available (own level %lld, group level %lld, min_share %lld) and enabled for %lld us > one tick (%lld us) without a byte moved; lib susp r=0x%x w=0x%x enabled=0x%x; lib group level r=%lld w=%lld grp_susp r=%d w=%d pend r=%d w=%d | %s",
				    s->id, dir_name[d], s->has_cfg ? (long long)s->ref.level[d] : -1LL, s->in_group ? (long long)r_gref.level[d] : -1LL, (long long)r_minshare,
				    (long long)(now_us() - s->p_since[d]), (long long)w, BEV_UPCAST(s->bev)->read_suspended, BEV_UPCAST(s->bev)->write_suspended, s->bev->enabled,
				    r_grp ? (long long)bufferevent_rate_limit_group_get_read_limit(r_grp) : 0LL, r_grp ? (long long)bufferevent_rate_limit_group_get_write_limit(r_grp) : 0LL,
				    r_grp ? (int)r_grp->read_suspended : 0, r_grp ? (int)r_grp->write_suspended : 0, r_grp ? (int)r_grp->pending_unsuspend_read : 0, r_grp ? (int)r_grp->pending_unsuspend_write : 0, g_desc);
			}
		}
	}
}
static void r_topup(struct rsub *s)
{
	struct evbuffer *out = bufferevent_get_output(s->bev);
	while (evbuffer_get_length(out) < 262144) bufferevent_write(s->bev, g_junk, sizeof(g_junk));
}
static void r_readcb(struct bufferevent *bev, void *arg)
{
	struct evbuffer *in = bufferevent_get_input(bev);
	(void)arg;
	evbuffer_drain(in, evbuffer_get_length(in));
}
static void r_writecb(struct bufferevent *bev, void *arg) { struct rsub *s = arg; (void)bev; if (s->dirs & 2) r_topup(s); }
static void r_eventcb(struct bufferevent *bev, short what, void *arg)
{
	struct rsub *s = arg;
	char key[96];
	int d = (what & BEV_EVENT_WRITING) ? 1 : 0;
	(void)bev;
	/* the peer never closes and no timeouts are set: any event here ends the transfer although data and
	 * budget remain */
	if (s->in_group && r_minshare == 0 && (what & BEV_EVENT_EOF))
		snprintf(key, sizeof(key), "C22:stalled:zero-share-eof:%s", dir_name[d]);   /* share = level / n_members rounds to 0: zero-length I/O taken for EOF */
	else
		snprintf(key, sizeof(key), "C22:stalled:spurious-event-0x%x:%s", what & ~(BEV_EVENT_READING | BEV_EVENT_WRITING), dir_name[d]);
	vh_viol(key, "bev%d got event 0x%x (peer open, no error injected): direction disabled by the library; group level r=%lld w=%lld members=%d min_share=%lld | %s",
	    s->id, what, r_grp ? (long long)bufferevent_rate_limit_group_get_read_limit(r_grp) : -1LL, r_grp ? (long long)bufferevent_rate_limit_group_get_write_limit(r_grp) : -1LL,
	    nRS, (long long)r_minshare, g_desc);
	s->en[d] = 0; s->reported[d] = 1;
}
static int64_t r_eff_burst(struct rsub *s, int d);
static int r_livelock(void)
{
	/* called after every 2000 loop iterations during which virtual time did not advance */
	static int64_t inst = -1, base_moved, last_moved;
	int64_t moved = 0, allow = 1 << 16;
	int i, d;
	for (i = 0; i < nRS; i++) {
		moved += RS[i].moved[0] + RS[i].moved[1];
		/* what the buckets can release at one instant: at most one burst each (the smaller of own and group) */
		for (d = 0; d < 2; d++) if (RS[i].alive) { int64_t e = r_eff_burst(&RS[i], d); allow += e == INT64_MAX ? 0 : 2 * e; }
	}
	if (inst != now_us()) { inst = now_us(); base_moved = last_moved = moved; return 1; }
	if (moved == last_moved) {
		vh_viol(r_grp && r_minshare == 0 ? "C22:stalled:zero-share-busy-loop" : "C22:stalled:busy-loop",
		    "the loop ran 2000 iterations at one virtual instant without moving a byte (ready bufferevents whose allowance is 0 are neither suspended nor served); group level r=%lld w=%lld min_share=%lld | %s",
		    r_grp ? (long long)bufferevent_rate_limit_group_get_read_limit(r_grp) : -1LL, r_grp ? (long long)bufferevent_rate_limit_group_get_write_limit(r_grp) : -1LL, (long long)r_minshare, g_desc);
	} else if (moved - base_moved > allow) {
		vh_viol("C22:window-exceeded:unbounded-at-one-instant", "%lld bytes moved at one virtual instant, more than twice every applicable burst together (%lld): no limit is being applied | %s",
		    (long long)(moved - base_moved), (long long)allow, g_desc);
	} else { last_moved = moved; return 1; }
	for (i = 0; i < nRS; i++) if (RS[i].alive) {
		bufferevent_disable(RS[i].bev, EV_READ | EV_WRITE);
		RS[i].en[0] = RS[i].en[1] = 0; RS[i].reported[0] = RS[i].reported[1] = 1;
	}
	inst = -1;
	return 1;
}
static int64_t pick_rate(vh_rng *r)
{
	switch (vh_below(r, 5)) {
	case 0: return vh_range(r, 1, 20);
	case 1: return vh_range(r, 20, 2000);
	case 2: return vh_range(r, 2000, 100000);
	case 3: return vh_range(r, 100000, 1000000);
	default: return VH_PICK(r, ((int64_t[]){ 1, 64, 65, 1000, 16384, 16385, 1000000 }));
	}
}
static int64_t pick_burst(vh_rng *r, int64_t rate)
{
	switch (vh_below(r, 4)) {
	case 0: return rate;
	case 1: return rate + vh_range(r, 0, rate);
	case 2: return rate * vh_range(r, 2, 4);
	default: return rate + vh_range(r, 1, 70000);
	}
}
static void r_set_own(vh_rng *r, struct rsub *s, unsigned tick_ms)
{
	int64_t rr = pick_rate(r), wr = pick_rate(r), rb = pick_burst(r, rr), wb = pick_burst(r, wr);
	struct timeval tick = tv_of((int64_t)tick_ms * 1000);
	if (s->cfg) ev_token_bucket_cfg_free(s->cfg);
	s->cfg = ev_token_bucket_cfg_new((size_t)rr, (size_t)rb, (size_t)wr, (size_t)wb, &tick);
	if (!s->cfg) die("cfg_new");
	if (bufferevent_set_rate_limit(s->bev, s->cfg) < 0) die("set_rate_limit");
	s->has_cfg = 1;
	acct_open(&s->own[0], 0, rr, rb, tick_ms, 0); acct_open(&s->own[1], 0, wr, wb, tick_ms, 0);
	ref_open(&s->ref, rr, rb, wr, wb, tick_ms);
	desc("own%d(r%lld/%lld,w%lld/%lld,%ums);", s->id, (long long)rr, (long long)rb, (long long)wr, (long long)wb, tick_ms);
	hmix(100 + s->id, (uint64_t)rr * 7 + (uint64_t)wr); hmix((uint64_t)rb, (uint64_t)wb);
	vh_stat("own_limits_set");
}
static void r_clear_own(struct rsub *s)
{
	if (!s->has_cfg) return;
	bufferevent_set_rate_limit(s->bev, NULL);
	acct_close(&s->own[0], "bev", "read", s->id); acct_close(&s->own[1], "bev", "write", s->id);
	s->has_cfg = 0; s->ref.on = 0;
	s->p_since[0] = s->p_since[1] = s->p_since_lib[0] = s->p_since_lib[1] = -1;
	desc("noown%d;", s->id); hmix(150 + s->id, 0);
}
/* work bound: an operation moves at most max_single bytes per loop iteration, so keep
 * burst/max_single (iterations per refill) below ~150; never leave a subject unlimited
 * (an unlimited always-ready socket would never let virtual time advance) */
static int64_t r_eff_burst(struct rsub *s, int d)
{
	int64_t e = INT64_MAX;
	if (s->has_cfg && s->ref.burst[d] < e) e = s->ref.burst[d];
	if (s->in_group && r_gref.burst[d] < e) e = r_gref.burst[d];
	return e;
}
static void r_fix_max(struct rsub *s)
{
	int d;
	for (d = 0; d < 2; d++) {
		int64_t *m = d ? &s->msw : &s->msr, e = r_eff_burst(s, d);
		if (e / 150 > *m) {
			if (d) bufferevent_set_max_single_write(s->bev, 0); else bufferevent_set_max_single_read(s->bev, 0);
			*m = 16384;
			desc("max%d%c(default);", s->id, d ? 'w' : 'r'); hmix(550 + s->id * 2 + d, 0);
		}
	}
}
static void r_op(vh_rng *r)
{
	struct rsub *s = &RS[vh_below(r, nRS)];
	int d = (int)vh_below(r, 2);
	switch (vh_below(r, 12)) {
	case 0: case 1: /* manual consumption from the own bucket */
		if (!s->has_cfg) break;
		{
			int64_t lvl = d ? bufferevent_get_write_limit(s->bev) : bufferevent_get_read_limit(s->bev), dec;
			ref_update(&s->ref);
			if (vh_chance(r, 1, 4) && lvl < s->ref.burst[d]) dec = -vh_range(r, 1, s->ref.burst[d] - lvl);   /* refill, never above burst */
			else dec = vh_range(r, 1, s->ref.burst[d] * 2);
			if (d) bufferevent_decrement_write_limit(s->bev, dec); else bufferevent_decrement_read_limit(s->bev, dec);
			s->ref.level[d] -= dec;
			if (s->ref.level[d] <= 0) s->other_dry[1 - d] = 1;
			if (dec < 0) acct_add(&s->own[d], 0, -dec);
			desc("dec%d%c(%lld);", s->id, d ? 'w' : 'r', (long long)dec); hmix(200 + s->id * 2 + d, (uint64_t)dec);
			vh_stat(dec < 0 ? "manual_refills" : "manual_decrements");
			if (dec > 0 && vh_chance(r, 1, 3)) {
				/* both directions dry at once, this one several ticks in debt, the other recovering after one refill
				 * (added after seeded defect C22-2 was missed in the quick tier) */
				int o = 1 - d;
				int64_t olvl = o ? bufferevent_get_write_limit(s->bev) : bufferevent_get_read_limit(s->bev), odec;
				if (olvl > 0) {
					odec = olvl + (int64_t)vh_below(r, 2);
					if (o) bufferevent_decrement_write_limit(s->bev, odec); else bufferevent_decrement_read_limit(s->bev, odec);
					s->ref.level[o] -= odec;
					if (s->ref.level[o] <= 0) s->other_dry[1 - o] = 1;
					desc("dec%d%c(%lld);", s->id, o ? 'w' : 'r', (long long)odec); hmix(200 + s->id * 2 + o, (uint64_t)odec);
					vh_stat("manual_decrements"); vh_stat("both_directions_dried_manually");
				}
			}
		}
		break;
	case 2: /* manual consumption from the group bucket */
		if (!r_grp) break;
		{
			int64_t lvl = d ? bufferevent_rate_limit_group_get_write_limit(r_grp) : bufferevent_rate_limit_group_get_read_limit(r_grp), dec;
			ref_update(&r_gref);
			if (vh_chance(r, 1, 4) && lvl < r_gref.burst[d]) dec = -vh_range(r, 1, r_gref.burst[d] - lvl);
			else dec = vh_range(r, 1, r_gref.burst[d] * 2);
			if (d) bufferevent_rate_limit_group_decrement_write(r_grp, dec); else bufferevent_rate_limit_group_decrement_read(r_grp, dec);
			r_gref.level[d] -= dec;
			if (dec < 0) acct_add(&r_gacct[d], 0, -dec);
			desc("gdec%c(%lld);", d ? 'w' : 'r', (long long)dec); hmix(300 + d, (uint64_t)dec);
			vh_stat(dec < 0 ? "manual_refills" : "manual_decrements");
		}
		break;
	case 3: case 4: /* join / leave the group */
		if (!r_grp) break;
		if (s->in_group && !s->has_cfg) break;
		if (s->in_group) { bufferevent_remove_from_rate_limit_group(s->bev); s->in_group = 0; desc("leave%d;", s->id); vh_stat("group_leaves"); }
		else { bufferevent_add_to_rate_limit_group(s->bev, r_grp); s->in_group = 1; desc("join%d;", s->id); vh_stat("group_joins"); }
		s->p_since[0] = s->p_since[1] = s->p_since_lib[0] = s->p_since_lib[1] = -1;
		hmix(400 + s->id, s->in_group);
		r_fix_max(s);
		break;
	case 5: { /* per-operation maxima */
		int64_t v = VH_PICK(r, ((int64_t[]){ 1, 7, 100, 1000, 4096, 16384, 100000, 0 }));
		if (d) { bufferevent_set_max_single_write(s->bev, (size_t)v); s->msw = v ? v : 16384; }
		else { bufferevent_set_max_single_read(s->bev, (size_t)v); s->msr = v ? v : 16384; }
		desc("max%d%c(%lld);", s->id, d ? 'w' : 'r', (long long)v); hmix(500 + s->id * 2 + d, (uint64_t)v);
		vh_stat("max_single_set");
		r_fix_max(s);
		break; }
	case 6: /* disable / enable a direction */
		if (!(s->dirs & (1 << d)) || s->reported[d]) break;
		if (s->en[d]) bufferevent_disable(s->bev, d ? EV_WRITE : EV_READ); else bufferevent_enable(s->bev, d ? EV_WRITE : EV_READ);
		s->en[d] = !s->en[d]; s->p_since[d] = s->p_since_lib[d] = -1;
		desc("%s%d%c;", s->en[d] ? "en" : "dis", s->id, d ? 'w' : 'r'); hmix(600 + s->id * 2 + d, s->en[d]);
		break;
	case 7: /* the peer stops / resumes draining (short writes) */
		if (!(s->dirs & 2)) break;
		s->stall = !s->stall; s->p_since[1] = s->p_since_lib[1] = -1; s->dirty[1] = 1;
		desc("stall%d(%d);", s->id, s->stall); hmix(700 + s->id, s->stall);
		vh_stat("peer_stalls");
		break;
	case 9: /* re-apply the group's (identical) configuration: levels, debts included, must be unaffected */
		if (!r_grp || !r_gcfg) break;
		ref_update(&r_gref);
		bufferevent_rate_limit_group_set_cfg(r_grp, r_gcfg);
		desc("gcfg;"); hmix(900, 1);
		vh_stat("group_cfg_reapplied");
		if (bufferevent_rate_limit_group_get_read_limit(r_grp) < 0 || bufferevent_rate_limit_group_get_write_limit(r_grp) < 0) vh_stat("group_cfg_reapplied_in_debt");
		break;
	case 8: /* drop / renew the own bucket (new epoch) */
		if (s->has_cfg && !s->in_group) break;
		if (s->has_cfg) r_clear_own(s);
		else r_set_own(r, s, s->ref.tick_ms ? s->ref.tick_ms : r_gref.tick_ms);
		r_fix_max(s);
		break;
	default: break;
	}
}
static void case_ratelim(vh_rng *r)
{
	static const unsigned ticks[] = { 1, 2, 5, 10, 25, 50, 100, 250, 1000, 2000 };
	int i, n = (int)vh_range(r, 1, RMAX), with_group = vh_chance(r, 2, 3), nsteps;
	unsigned gt = VH_PICK(r, ticks), shortest = 0, longest = 0;
	int64_t horizon;
	g_hash = 22; g_desclen = 0; g_desc[0] = 0;
	r_any_limit_hit = 0; r_ops_seen = 0;
	new_base();
	nRS = n; r_grp = NULL; r_gcfg = NULL; r_gref.on = 0; r_gacct[0].on = r_gacct[1].on = 0; r_minshare = 0;
	/* shift the phase of virtual time against the tick grid */
	vclk_advance(vh_range(r, 0, 2500000));
	if (with_group) {
		int64_t rr = pick_rate(r), wr = pick_rate(r), rb = pick_burst(r, rr), wb = pick_burst(r, wr), ms;
		struct timeval tick = tv_of((int64_t)gt * 1000);
		r_gcfg = ev_token_bucket_cfg_new((size_t)rr, (size_t)rb, (size_t)wr, (size_t)wb, &tick);
		r_grp = bufferevent_rate_limit_group_new(B, r_gcfg);
		if (!r_grp) die("group_new");
		ms = vh_chance(r, 1, 3) ? 64 : VH_PICK(r, ((int64_t[]){ 0, 1, 2, 16, 64, 500, 5000, 100000 }));
		if (ms != 64) bufferevent_rate_limit_group_set_min_share(r_grp, (size_t)ms);
		r_minshare = ms; if (r_minshare > rr) r_minshare = rr; if (r_minshare > wr) r_minshare = wr;   /* documented clamp: "can't set share to less than the one-tick maximum" */
		acct_open(&r_gacct[0], 1, rr, rb, gt, r_minshare > 0 ? r_minshare - 1 : 0);
		acct_open(&r_gacct[1], 1, wr, wb, gt, r_minshare > 0 ? r_minshare - 1 : 0);
		ref_open(&r_gref, rr, rb, wr, wb, gt);
		desc("group(r%lld/%lld,w%lld/%lld,%ums,min_share %lld);", (long long)rr, (long long)rb, (long long)wr, (long long)wb, gt, (long long)ms);
		hmix(1, (uint64_t)rr * 7 + (uint64_t)wr); hmix((uint64_t)rb + gt, (uint64_t)wb + (uint64_t)ms);
		shortest = longest = gt;
	}
	sf_reset();
	for (i = 0; i < n; i++) {
		struct rsub *s = &RS[i];
		int fd[2], own;
		memset(s, 0, sizeof(*s));
		mk_pair(fd, 0);
		s->id = i; s->fd = fd[0]; s->peer = fd[1]; s->alive = 1; s->msr = s->msw = 16384;
		s->dirs = (int)vh_range(r, 1, 3);
		s->bev = bufferevent_socket_new(B, fd[0], 0);
		bufferevent_setcb(s->bev, r_readcb, r_writecb, r_eventcb, s);
		bufferevent_setwatermark(s->bev, EV_WRITE, 131072, 0);
		s->p_since[0] = s->p_since[1] = s->p_since_lib[0] = s->p_since_lib[1] = -1; s->dirty[0] = s->dirty[1] = 1;
		own = !with_group || vh_chance(r, 1, 2);
		desc("bev%d(dirs %d);", i, s->dirs); hmix(50 + i, s->dirs);
		if (own) {
			unsigned t = VH_PICK(r, ticks);
			/* keep the tick lengths of one session within a factor of 20 (bounded iteration count) */
			if (longest) { while (t > shortest * 8) t /= 2; while (t * 8 < longest) t *= 2; }
			r_set_own(r, s, t);
			if (!shortest || t < shortest) shortest = t;
			if (t > longest) longest = t;
		}
		if (with_group && (!own || vh_chance(r, 3, 4))) { bufferevent_add_to_rate_limit_group(s->bev, r_grp); s->in_group = 1; desc("join%d;", i); vh_stat("group_joins"); }
		if (vh_chance(r, 1, 3)) {
			int64_t v = VH_PICK(r, ((int64_t[]){ 1, 7, 100, 1000, 4096, 100000 }));
			bufferevent_set_max_single_write(s->bev, (size_t)v); s->msw = v;
			v = VH_PICK(r, ((int64_t[]){ 1, 7, 100, 1000, 4096, 100000 }));
			bufferevent_set_max_single_read(s->bev, (size_t)v); s->msr = v;
			desc("max%d(%lld,%lld);", i, (long long)s->msr, (long long)s->msw); hmix(60 + i, (uint64_t)s->msr * 3 + (uint64_t)s->msw);
			vh_stat("max_single_set");
		}
		r_fix_max(s);
	}
	sf_fd_filter = r_fdfilter; sf_observer = r_obs;
	g_boundary = r_boundary; g_livelock = r_livelock;
	for (i = 0; i < n; i++) {
		struct rsub *s = &RS[i];
		if (s->dirs & 2) { r_topup(s); s->en[1] = 1; }
		if (s->dirs & 1) { bufferevent_enable(s->bev, EV_READ); s->en[0] = 1; }
	}
	/* run for `nsteps` scripted steps spread over ~20..60 of the longest ticks */
	horizon = (int64_t)longest * 1000 * vh_range(r, vh_opt.thorough ? 12 : 8, vh_opt.thorough ? 60 : 24);
	{
		/* byte budget: ~12 MB per session */
		double per_ms = 0;
		for (i = 0; i < n; i++) if (RS[i].has_cfg) per_ms += (double)(RS[i].ref.rate[0] + RS[i].ref.rate[1]) / RS[i].ref.tick_ms;
		if (r_gref.on) per_ms += (double)(r_gref.rate[0] + r_gref.rate[1]) / r_gref.tick_ms;
		while (horizon > (int64_t)longest * 6000 && per_ms * (double)horizon / 1000.0 > 12e6) horizon /= 2;
	}
	nsteps = (int)vh_range(r, 6, 30);
	for (i = 0; i < nsteps; i++) {
		int64_t delay = vh_range(r, 1, 2 * horizon / nsteps);
		if (vh_chance(r, 2, 3)) r_op(r);
		desc("+%lld;", (long long)delay); hmix(88, (uint64_t)delay);
		run_until(now_us() + delay, NULL);
	}
	g_boundary = NULL; g_livelock = NULL;
	sf_observer = NULL; sf_fd_filter = NULL;
	for (i = 0; i < n; i++) {
		struct rsub *s = &RS[i];
		if (s->has_cfg) { acct_close(&s->own[0], "bev", "read", i); acct_close(&s->own[1], "bev", "write", i); }
		if (s->in_group) bufferevent_remove_from_rate_limit_group(s->bev);
		vh_stat_add("progress_checks", 0);
		s->alive = 0;
		bufferevent_free(s->bev);
	}
	vh_stat_add("progress_checks", r_progress_checks); r_progress_checks = 0;
	if (r_grp) { acct_close(&r_gacct[0], "group", "read", 0); acct_close(&r_gacct[1], "group", "write", 0); }
	event_base_loop(B, EVLOOP_NONBLOCK);
	if (r_grp) bufferevent_rate_limit_group_free(r_grp);
	for (i = 0; i < n; i++) { close(RS[i].fd); close(RS[i].peer); if (RS[i].cfg) ev_token_bucket_cfg_free(RS[i].cfg); }
	if (r_gcfg) ev_token_bucket_cfg_free(r_gcfg);
	free_base();
	vh_stat("cases");
	if (with_group) vh_stat("sessions_with_group");
	if (r_any_limit_hit && r_ops_seen > 0) vh_distinct(g_hash);
	vh_sample(2, "{\"mode\":\"ratelim\",\"case\":%ld,\"script\":\"%s\"}", vh_cur_case, g_desc);
}
/* ================================================================== C19 */
enum { LK_TCP_OK, LK_TCP_REFUSED, LK_UNIX_OK, LK_UNIX_REFUSED, LK_FAULT, LK_HOST_OK, LK_HOST_NX, LK_HOST_TIMEOUT,
       LK_HOST_CANCEL, LK_HOST_NUMERIC, LK_HOST_REFUSED, LK_SOCK, LK_PAIR, LK_FILT, LK__N };
static const char *lk_name[] = { "tcp-ok", "tcp-refused", "unix-ok", "unix-refused", "connect-fault", "host-ok", "host-nx", "host-slow",
       "host-cancel", "host-numeric", "host-refused", "socket", "pair", "filter" };
enum { A_NONE, A_FREE_SELF, A_FREE_PARTNER, A_FREE_OTHER, A_CLEAR, A_DISABLE, A_WRITE, A_KEEP, A_FLUSH_FIN, A__N };
struct lsub {
	int id, kind, opts, alive, freed, cleared, connecting, n_connected, datacb_early;
	int eof[2], err[2], bare_err, term[2], fin_sent;
	int peer, lfd, ownfd, port; struct bufferevent *bev, *ubev; int close_on_free;
	struct lsub *partner;
	int cbn[3]; struct { int cb, nth, act; } plan[4]; int nplan; int keep_input;
	long rd_bytes;
};
#define LMAX 6
static struct lsub LS[LMAX];
static int nLS;
static struct evdns_base *l_dns;
static int l_dnsfd = -1, l_dnsport, l_dnsmode;    /* 0 answer, 1 NXDOMAIN, 2 hold the queries back (answered later) */
static int l_pending_lookups;
static vh_rng *l_rng;
/* deferred-order monitor */
static int l_ord_on, l_ordq[256], l_ordh, l_ordt, l_ordpend[LMAX], l_ordcur = -1;

static void l_viol(struct lsub *s, const char *rule, const char *fmt, ...)
{
	char key[120], txt[500];
	va_list ap;
	snprintf(key, sizeof(key), "C19:%s", rule);
	va_start(ap, fmt); vsnprintf(txt, sizeof(txt), fmt, ap); va_end(ap);
	vh_viol(key, "sub%d(%s opts=0x%x) %s | cbs r=%d w=%d e=%d connected=%d | %s", s->id, lk_name[s->kind], s->opts, txt, s->cbn[0], s->cbn[1], s->cbn[2], s->n_connected, g_desc);
}
static void l_free(struct lsub *s)
{
	if (!s->alive) return;
	VLOG("free sub%d", s->id);
	s->alive = 0; s->freed = 1;
	bufferevent_free(s->bev);
	vh_stat("bufferevents_freed");
	if (s->kind == LK_FILT && !s->close_on_free && s->ubev) { bufferevent_free(s->ubev); }
	s->ubev = NULL;
}
static void l_action(struct lsub *s, int act)
{
	int i;
	switch (act) {
	case A_FREE_SELF: vh_stat("freed_inside_callback"); l_free(s); break;
	case A_FREE_PARTNER: if (s->partner && s->partner->alive) { vh_stat("freed_inside_callback"); l_free(s->partner); } break;
	case A_FREE_OTHER:
		for (i = 0; i < nLS; i++) if (&LS[i] != s && LS[i].alive) { vh_stat("freed_inside_callback"); l_free(&LS[i]); break; }
		break;
	case A_CLEAR: if (s->alive) { bufferevent_setcb(s->bev, NULL, NULL, NULL, NULL); s->cleared = 1; vh_stat("callbacks_cleared"); } break;
	case A_DISABLE: if (s->alive) bufferevent_disable(s->bev, EV_READ | EV_WRITE); break;
	case A_WRITE: if (s->alive && !s->fin_sent) bufferevent_write(s->bev, g_junk, 100 + (size_t)(s->cbn[0] * 37 % 900)); break;
	case A_KEEP: s->keep_input = 1; break;
	case A_FLUSH_FIN:
		if (s->alive && (s->kind == LK_PAIR || s->kind == LK_FILT) && !s->fin_sent) { s->fin_sent = 1; bufferevent_flush(s->bev, EV_WRITE, BEV_FINISHED); }
		break;
	default: break;
	}
}
static void l_boundary(void) { l_ordcur = -1; }   /* a deferred batch never spans a dispatch */
static void l_ord_cb(struct lsub *s)
{
	if (!l_ord_on || !(s->opts & BEV_OPT_DEFER_CALLBACKS)) return;
	if (l_ordcur == s->id) return;                 /* same deferred batch goes on */
	if (l_ordh == l_ordt) { l_viol(s, "deferred-order", "deferred callback ran with no observed condition outstanding"); return; }
	if (l_ordq[l_ordh % 256] != s->id)
		l_viol(s, "deferred-order", "deferred batch of sub%d ran before that of sub%d whose condition (read syscall) arose first", s->id, l_ordq[l_ordh % 256]);
	else vh_stat("deferred_batches_in_order");
	/* resynchronise on this subject */
	while (l_ordh != l_ordt && l_ordq[l_ordh % 256] != s->id) { l_ordpend[l_ordq[l_ordh % 256]] = 0; l_ordh++; }
	if (l_ordh != l_ordt) l_ordh++;
	l_ordpend[s->id] = 0;
	l_ordcur = s->id;
}
static void l_on_cb(struct lsub *s, int which, short what)
{
	int i, n;
	if (s->freed) { l_viol(s, "callback-after-free", "%s callback (what=0x%x) after bufferevent_free() returned", which == 0 ? "read" : which == 1 ? "write" : "event", what); return; }
	if (s->cleared) { l_viol(s, "callback-after-setcb-null", "%s callback (what=0x%x) after the callbacks were cleared", which == 0 ? "read" : which == 1 ? "write" : "event", what); return; }
	l_ord_cb(s);
	n = ++s->cbn[which];
	VLOG("sub%d cb %d what=0x%x", s->id, which, what);
	if (which < 2) {
		vh_stat(which ? "write_callbacks" : "read_callbacks");
		if (s->connecting && !s->n_connected) s->datacb_early |= 1 << which;
		if (which == 0) {
			if (s->eof[0]) l_viol(s, "read-after-eof", "read callback after BEV_EVENT_EOF|READING");
			if (s->alive && !s->keep_input) { struct evbuffer *in = bufferevent_get_input(s->bev); s->rd_bytes += (long)evbuffer_get_length(in); evbuffer_drain(in, evbuffer_get_length(in)); }
		}
	} else {
		vh_stat("event_callbacks");
		if (what & BEV_EVENT_CONNECTED) {
			vh_stat("connected_events");
			if (s->n_connected++) l_viol(s, "connected-twice", "second BEV_EVENT_CONNECTED");
			else if (s->datacb_early) l_viol(s, s->datacb_early & 2 ? (s->kind == LK_UNIX_OK ? "data-callback-before-connected:write:immediate-connect" : "data-callback-before-connected:write") :
			    ((s->opts & BEV_OPT_DEFER_CALLBACKS) ? "data-callback-before-connected:read:deferred" : "data-callback-before-connected:read:non-deferred"),
			    "a %s callback ran before BEV_EVENT_CONNECTED of the same connection", s->datacb_early & 2 ? "write" : "read");
			if (what & ~BEV_EVENT_CONNECTED) vh_stat("connected_merged_with_other_flags");
			s->connecting = 0;
		}
		if (what & (BEV_EVENT_EOF | BEV_EVENT_ERROR | BEV_EVENT_TIMEOUT)) {
			int dirs = 0;
			if (what & BEV_EVENT_READING) dirs |= 1;
			if (what & BEV_EVENT_WRITING) dirs |= 2;
			if (what & BEV_EVENT_EOF) {
				vh_stat("eof_events");
				if (!dirs) dirs = 1;
				for (i = 0; i < 2; i++) if (dirs & (1 << i)) { if (s->eof[i]++) l_viol(s, i ? "eof-twice:writing" : "eof-twice:reading", "second EOF for the direction (what=0x%x)", what); s->term[i] = 1; }
			}
			if (what & BEV_EVENT_ERROR) {
				vh_stat("error_events");
				if (!dirs) {
					if (s->bare_err++) l_viol(s, "error-twice:connect", "second direction-less BEV_EVENT_ERROR (what=0x%x)", what);
					if (s->kind >= LK_HOST_OK && s->kind <= LK_HOST_REFUSED && s->alive && bufferevent_socket_get_dns_error(s->bev)) vh_stat("dns_errors_reported");
					else vh_stat("connect_errors_reported");
					s->connecting = 0; s->term[0] = s->term[1] = 1;
				} else if (!(what & BEV_EVENT_EOF) || 1) {
					for (i = 0; i < 2; i++) if (dirs & (1 << i)) { if (s->err[i]++) l_viol(s, i ? "error-twice:writing" : "error-twice:reading", "second ERROR for the direction (what=0x%x)", what); s->term[i] = 1; }
				}
			}
		}
	}
	for (i = 0; i < s->nplan; i++) if (s->plan[i].cb == which && s->plan[i].nth == n) { vh_stat("planned_actions_in_callbacks"); l_action(s, s->plan[i].act); }
}
static void l_readcb(struct bufferevent *bev, void *arg) { (void)bev; l_on_cb(arg, 0, 0); }
static void l_writecb(struct bufferevent *bev, void *arg) { (void)bev; l_on_cb(arg, 1, 0); }
static void l_eventcb(struct bufferevent *bev, short what, void *arg) { (void)bev; l_on_cb(arg, 2, what); }

static int l_listen_tcp(int *port)
{
	struct sockaddr_in sin;
	socklen_t sl = sizeof(sin);
	int fd = socket(AF_INET, SOCK_STREAM | SOCK_NONBLOCK | SOCK_CLOEXEC, 0);
	memset(&sin, 0, sizeof(sin));
	sin.sin_family = AF_INET; sin.sin_addr.s_addr = htonl(INADDR_LOOPBACK);
	if (fd < 0 || bind(fd, (struct sockaddr *)&sin, sizeof(sin)) < 0 || listen(fd, 16) < 0) die("listen tcp");
	getsockname(fd, (struct sockaddr *)&sin, &sl);
	*port = ntohs(sin.sin_port);
	return fd;
}
static socklen_t l_unix_addr(struct sockaddr_un *sun, int id)
{
	memset(sun, 0, sizeof(*sun));
	sun->sun_family = AF_UNIX;
	/* abstract namespace: nothing on the filesystem */
	snprintf(sun->sun_path + 1, sizeof(sun->sun_path) - 1, "vb2-%d-%ld-%d", (int)getpid(), vh_cur_case, id);
	return (socklen_t)(offsetof(struct sockaddr_un, sun_path) + 1 + strlen(sun->sun_path + 1));
}
static void l_dns_serve(void)
{
	unsigned char q[512], a[600];
	struct sockaddr_in from;
	if (l_dnsmode == 2) return;
	for (;;) {
		socklen_t fl = sizeof(from);
		ssize_t n = __real_recvfrom(l_dnsfd, q, sizeof(q), 0, (struct sockaddr *)&from, &fl);
		int p = 12, qtype, len;
		if (n < 0) break;
		if (n < 17) continue;
		vh_stat("dns_queries_seen");
		while (p < n && q[p]) p += q[p] + 1;
		p += 5;
		if (p > n) continue;
		qtype = (q[p - 4] << 8) | q[p - 3];
		memcpy(a, q, (size_t)p);
		a[2] = 0x81; a[3] = (unsigned char)(l_dnsmode == 1 ? 0x83 : 0x80);
		a[4] = 0; a[5] = 1; a[6] = 0; a[7] = 0; a[8] = a[9] = a[10] = a[11] = 0;
		len = p;
		if (l_dnsmode == 0 && qtype == 1) {
			static const unsigned char rr[] = { 0xc0, 0x0c, 0, 1, 0, 1, 0, 0, 0, 60, 0, 4, 127, 0, 0, 1 };
			memcpy(a + len, rr, sizeof(rr)); len += (int)sizeof(rr); a[7] = 1;
		}
		__real_sendto(l_dnsfd, a, (size_t)len, 0, (struct sockaddr *)&from, fl);
		vh_stat("dns_answers_sent");
	}
}
static void l_dns_setup(void)
{
	struct sockaddr_in sin;
	socklen_t sl = sizeof(sin);
	char addr[64];
	if (l_dns) return;
	l_dnsfd = socket(AF_INET, SOCK_DGRAM | SOCK_NONBLOCK | SOCK_CLOEXEC, 0);
	memset(&sin, 0, sizeof(sin));
	sin.sin_family = AF_INET; sin.sin_addr.s_addr = htonl(INADDR_LOOPBACK);
	if (l_dnsfd < 0 || bind(l_dnsfd, (struct sockaddr *)&sin, sizeof(sin)) < 0) die("dns socket");
	getsockname(l_dnsfd, (struct sockaddr *)&sin, &sl);
	l_dnsport = ntohs(sin.sin_port);
	l_dns = evdns_base_new(B, 0);
	if (!l_dns) die("evdns_base_new");
	snprintf(addr, sizeof(addr), "127.0.0.1:%d", l_dnsport);
	if (evdns_base_nameserver_ip_add(l_dns, addr) != 0) die("nameserver_ip_add");
	evdns_base_set_option(l_dns, "timeout", "1");
	evdns_base_set_option(l_dns, "attempts", "2");
}
static void l_accept_all(void)
{
	int i;
	for (i = 0; i < nLS; i++) {
		struct lsub *s = &LS[i];
		int fd;
		if (s->lfd < 0) continue;
		while ((fd = __real_accept(s->lfd, NULL, NULL)) >= 0) {
			int fl = fcntl(fd, F_GETFL);
			fcntl(fd, F_SETFL, fl | O_NONBLOCK);
			vh_stat("connections_accepted");
			if (s->peer < 0) {
				s->peer = fd;
				/* sometimes the server talks first, before the client's loop has seen the connect complete */
				if (vh_chance(l_rng, 1, 2)) { ssize_t w = __real_write(fd, g_junk, (size_t)vh_range(l_rng, 1, 1200)); (void)w; vh_stat("server_spoke_first"); }
			} else __real_close(fd);
		}
	}
}
static void l_step(void)
{
	int k;
	for (k = 0; k < 3; k++) {
		l_accept_all();
		if (l_dnsfd >= 0) l_dns_serve();
		l_ordcur = -1;
		event_base_loop(B, EVLOOP_NONBLOCK);
	}
	l_accept_all();
}
static void l_plan(vh_rng *r, struct lsub *s)
{
	int i;
	s->nplan = (int)vh_below(r, 4);
	for (i = 0; i < s->nplan; i++) {
		s->plan[i].cb = (int)vh_below(r, 3);
		s->plan[i].nth = (int)vh_range(r, 1, 3);
		s->plan[i].act = (int)vh_below(r, A__N);
		if (vh_chance(r, 1, 3)) s->plan[i].act = A_FREE_SELF;
		desc("plan%d(cb%d#%d:a%d);", s->id, s->plan[i].cb, s->plan[i].nth, s->plan[i].act);
		hmix(900 + s->id, (uint64_t)(s->plan[i].cb * 100 + s->plan[i].nth * 10 + s->plan[i].act));
	}
}
static int l_pick_opts(vh_rng *r)
{
	int o = 0;
	if (vh_chance(r, 1, 2)) { o |= BEV_OPT_DEFER_CALLBACKS; if (vh_chance(r, 1, 2)) o |= BEV_OPT_UNLOCK_CALLBACKS; }
	if (vh_chance(r, 1, 3)) o |= BEV_OPT_THREADSAFE;
	if (vh_chance(r, 2, 3)) o |= BEV_OPT_CLOSE_ON_FREE;
	return o;
}
static struct lsub *l_new(int kind, int opts)
{
	struct lsub *s = &LS[nLS];
	memset(s, 0, sizeof(*s));
	s->id = nLS++; s->kind = kind; s->opts = opts; s->peer = s->lfd = s->ownfd = -1; s->alive = 1;
	return s;
}
static void l_create(vh_rng *r)
{
	int kind = (int)vh_below(r, LK__N), opts = l_pick_opts(r), fd[2], rc = 0, early_read = vh_chance(r, 1, 2);
	struct lsub *s;
	struct sockaddr_in sin;
	struct sockaddr_un sun;
	socklen_t ul;
	if (nLS + 2 > LMAX) return;
	if (kind == LK_PAIR) {
		struct bufferevent *pr[2];
		struct lsub *a, *b;
		if (bufferevent_pair_new(B, opts & ~BEV_OPT_CLOSE_ON_FREE, pr) < 0) die("pair_new");
		a = l_new(LK_PAIR, opts | BEV_OPT_DEFER_CALLBACKS); b = l_new(LK_PAIR, opts | BEV_OPT_DEFER_CALLBACKS);
		a->bev = pr[0]; b->bev = pr[1]; a->partner = b; b->partner = a;
		bufferevent_setcb(pr[0], l_readcb, l_writecb, l_eventcb, a); bufferevent_setcb(pr[1], l_readcb, l_writecb, l_eventcb, b);
		bufferevent_enable(pr[0], EV_READ | EV_WRITE); bufferevent_enable(pr[1], EV_READ | EV_WRITE);
		desc("new%d,%d(pair,0x%x);", a->id, b->id, opts); hmix(800, (uint64_t)opts);
		l_plan(r, a); l_plan(r, b);
		vh_stat("subjects_pair");
		return;
	}
	s = l_new(kind, opts);
	desc("new%d(%s,0x%x);", s->id, lk_name[kind], opts); hmix(801 + kind, (uint64_t)opts);
	memset(&sin, 0, sizeof(sin));
	sin.sin_family = AF_INET; sin.sin_addr.s_addr = htonl(INADDR_LOOPBACK);
	if (kind == LK_SOCK || kind == LK_FILT) {
		mk_pair(fd, 0);
		s->peer = fd[1];
		if (!(opts & BEV_OPT_CLOSE_ON_FREE)) s->ownfd = fd[0];
		if (kind == LK_SOCK) s->bev = bufferevent_socket_new(B, fd[0], opts);
		else {
			int fo = l_pick_opts(r);
			s->ubev = bufferevent_socket_new(B, fd[0], opts & ~BEV_OPT_UNLOCK_CALLBACKS);
			s->bev = bufferevent_filter_new(s->ubev, NULL, NULL, fo, NULL, NULL);
			s->opts = fo; s->close_on_free = !!(fo & BEV_OPT_CLOSE_ON_FREE);
			desc("fopts=0x%x;", fo); hmix(850, (uint64_t)fo);
		}
		if (!s->bev) die("bev new");
		bufferevent_setcb(s->bev, l_readcb, l_writecb, l_eventcb, s);
		bufferevent_enable(s->bev, EV_READ | EV_WRITE);
		l_plan(r, s);
		vh_stat(kind == LK_SOCK ? "subjects_socket" : "subjects_filter");
		return;
	}
	/* connecting kinds */
	s->bev = bufferevent_socket_new(B, -1, opts | BEV_OPT_CLOSE_ON_FREE);
	s->opts |= BEV_OPT_CLOSE_ON_FREE;
	if (!s->bev) die("bev new");
	bufferevent_setcb(s->bev, l_readcb, l_writecb, l_eventcb, s);
	l_plan(r, s);
	if (early_read) bufferevent_enable(s->bev, EV_READ);
	if (vh_chance(r, 1, 3)) bufferevent_write(s->bev, g_junk, (size_t)vh_range(r, 1, 3000));
	s->connecting = 1;
	switch (kind) {
	case LK_TCP_OK: case LK_TCP_REFUSED: case LK_FAULT:
		s->lfd = l_listen_tcp(&s->port);
		if (kind == LK_TCP_REFUSED) { __real_close(s->lfd); s->lfd = -1; }
		sin.sin_port = htons((unsigned short)s->port);
		if (kind == LK_FAULT) { int e = VH_PICK(r, ((int[]){ ECONNREFUSED, ENETUNREACH, EADDRNOTAVAIL })); sf_plan(SF_connect, sf_calls(SF_connect) + 1, SFA_ERRNO, e); desc("errno=%d;", e); hmix(860, (uint64_t)e); }
		rc = bufferevent_socket_connect(s->bev, (struct sockaddr *)&sin, sizeof(sin));
		break;
	case LK_UNIX_OK: case LK_UNIX_REFUSED:
		ul = l_unix_addr(&sun, s->id);
		if (kind == LK_UNIX_OK) {
			s->lfd = socket(AF_UNIX, SOCK_STREAM | SOCK_NONBLOCK | SOCK_CLOEXEC, 0);
			if (s->lfd < 0 || bind(s->lfd, (struct sockaddr *)&sun, ul) < 0 || listen(s->lfd, 8) < 0) die("listen unix");
		}
		rc = bufferevent_socket_connect(s->bev, (struct sockaddr *)&sun, (int)ul);
		break;
	default: { /* hostname kinds */
		char host[64];
		l_dns_setup();
		s->lfd = l_listen_tcp(&s->port);
		if (kind == LK_HOST_REFUSED) { __real_close(s->lfd); s->lfd = -1; }
		l_dnsmode = kind == LK_HOST_NX ? 1 : kind == LK_HOST_TIMEOUT ? 2 : 0;
		if (kind == LK_HOST_NUMERIC) snprintf(host, sizeof(host), "127.0.0.1");
		else snprintf(host, sizeof(host), "h%d.c%ld.test", s->id, vh_cur_case % 1000);
		rc = bufferevent_socket_connect_hostname(s->bev, l_dns, vh_chance(r, 3, 4) ? AF_INET : AF_UNSPEC, host, s->port);
		vh_stat("hostname_connects");
		if (kind != LK_HOST_NUMERIC) l_pending_lookups++;
		if (kind == LK_HOST_CANCEL) {
			if (vh_chance(r, 1, 2)) l_dns_serve();
			if (vh_chance(r, 1, 2)) { vh_stat("lookups_cancelled_by_free"); l_free(s); }
			else {
				/* replacing the fd cancels the lookup (EVUTIL_EAI_CANCEL): no event may follow */
				vh_stat("lookups_cancelled_by_setfd"); desc("setfd%d;", s->id);
				bufferevent_setfd(s->bev, -1);
				s->connecting = 0; s->term[0] = s->term[1] = 1;
			}
		}
		break; }
	}
	vh_stat("connect_attempts");
	if (rc < 0) { vh_stat("connect_returned_error"); s->connecting = 0; s->term[0] = s->term[1] = 1; }
}
static struct lsub *l_pick(vh_rng *r)
{
	int i, k = (int)vh_below(r, (uint64_t)nLS);
	for (i = 0; i < nLS; i++) { struct lsub *s = &LS[(k + i) % nLS]; if (s->alive) return s; }
	return NULL;
}
static void l_op(vh_rng *r)
{
	struct lsub *s = nLS ? l_pick(r) : NULL;
	int op = (int)vh_below(r, 15);
	ssize_t k;
	if (!s || op == 0) { if (nLS < LMAX - 1) l_create(r); return; }
	hmix(700 + op, (uint64_t)s->id);
	switch (op) {
	case 1: case 2: /* peer sends */
		if (s->kind == LK_PAIR) { if (s->partner->alive && !s->partner->fin_sent) { bufferevent_write(s->partner->bev, g_junk, (size_t)vh_range(r, 1, 2000)); desc("pw%d;", s->partner->id); } break; }
		if (s->peer < 0) break;
		k = __real_write(s->peer, g_junk, (size_t)vh_range(r, 1, 2000));
		desc("send%d(%zd);", s->id, k);
		break;
	case 3: /* peer half-closes: EOF for the subject */
		if (s->peer < 0) break;
		shutdown(s->peer, SHUT_WR); desc("shut%d;", s->id); vh_stat("peer_shutdowns");
		break;
	case 4: /* peer closes (reset when it has unread data) */
		if (s->peer < 0) break;
		__real_close(s->peer); s->peer = -2; desc("close%d;", s->id); vh_stat("peer_closes");
		break;
	case 5: /* peer reads */
		if (s->peer < 0) break;
		k = __real_read(s->peer, g_junk, sizeof(g_junk)); desc("prd%d(%zd);", s->id, k);
		break;
	case 6: case 7: /* application writes (not after it announced the end of its stream) */
		if (s->fin_sent) break;
		bufferevent_write(s->bev, g_junk, (size_t)vh_range(r, 1, 5000)); desc("w%d;", s->id);
		break;
	case 8: { /* enable (never a direction that already ended) */
		short ev = 0;
		if (!s->term[0] && vh_chance(r, 2, 3)) ev |= EV_READ;
		if (!s->term[1] && vh_chance(r, 2, 3)) ev |= EV_WRITE;
		if (ev) { bufferevent_enable(s->bev, ev); desc("en%d(%d);", s->id, ev); }
		break; }
	case 9:
		bufferevent_disable(s->bev, (short)VH_PICK(r, ((int[]){ EV_READ, EV_WRITE, EV_READ | EV_WRITE }))); desc("dis%d;", s->id);
		break;
	case 10: /* clear callbacks */
		if (!vh_chance(r, 1, 3)) break;
		bufferevent_setcb(s->bev, NULL, NULL, NULL, NULL); s->cleared = 1; desc("clear%d;", s->id); vh_stat("callbacks_cleared");
		break;
	case 11: /* free from outside */
		if (!vh_chance(r, 1, 2)) break;
		desc("free%d;", s->id); l_free(s);
		break;
	case 12: /* user trigger (only where it cannot be mistaken for a connection's own callbacks) */
		if (s->connecting || s->eof[0] || s->kind < LK_SOCK) break;
		bufferevent_trigger(s->bev, (short)VH_PICK(r, ((int[]){ EV_READ, EV_WRITE, EV_READ | EV_WRITE })), vh_chance(r, 1, 2) ? BEV_TRIG_DEFER_CALLBACKS : 0);
		desc("trig%d;", s->id); vh_stat("user_triggers");
		break;
	case 14: /* a read watermark comes and goes (suspend / unsuspend cycle): must not revive a direction that already ended */
		if (s->connecting) break;
		bufferevent_setwatermark(s->bev, EV_READ, 0, 1);
		bufferevent_setwatermark(s->bev, EV_READ, 0, 0);
		desc("wmcycle%d;", s->id); vh_stat(s->term[0] ? "wm_cycles_after_read_end" : "wm_cycles");
		break;
	default: /* the slow nameserver finally answers */
		if (!l_dns || l_dnsmode != 2) break;
		desc("dnsgo;");
		l_dnsmode = 0; vh_stat("held_lookups_released");
		break;
	}
}
static void l_teardown(vh_rng *r)
{
	int i, mode = (int)vh_below(r, 3);
	desc("end%d;", mode); hmix(999, (uint64_t)mode);
	if (mode == 2 && l_dns) { evdns_base_free(l_dns, 1); l_dns = NULL; l_step(); }
	for (i = 0; i < nLS; i++) l_free(&LS[i]);
	if (mode != 1) l_step();
	if (l_dns) {
		/* outstanding lookups still hold a reference to their bufferevent: make them complete */
		l_dnsmode = 0; l_dns_serve(); l_step();
		evdns_base_free(l_dns, 1); l_dns = NULL;
		if (mode != 1) l_step();
	}
	for (i = 0; i < nLS; i++) {
		if (LS[i].peer >= 0) __real_close(LS[i].peer);
		if (LS[i].lfd >= 0) __real_close(LS[i].lfd);
	}
	free_base();     /* runs the pending finalizers */
	for (i = 0; i < nLS; i++) if (LS[i].ownfd >= 0) __real_close(LS[i].ownfd);
	if (l_dnsfd >= 0) { __real_close(l_dnsfd); l_dnsfd = -1; }
}
static void l_ord_obs(int sym, int fd, long req, long res)
{
	int i;
	(void)req;
	if (!(sym == SF_read || sym == SF_readv || sym == SF_recv) || res < 0) return;
	for (i = 0; i < nLS; i++) if (LS[i].alive && LS[i].ownfd == fd && (LS[i].opts & BEV_OPT_DEFER_CALLBACKS)) {
		if (!l_ordpend[i]) { l_ordpend[i] = 1; l_ordq[l_ordt % 256] = i; l_ordt++; vh_stat("deferred_conditions_observed"); }
		return;
	}
}
static int l_ord_filter(int fd) { int i; for (i = 0; i < nLS; i++) if (LS[i].alive && LS[i].ownfd == fd) return 1; return 0; }
/* order family: conditions (read syscalls seen by sysfault) on several deferred bufferevents must be
 * delivered batch by batch in the order they arose */
static void case_order(vh_rng *r)
{
	int i, n = (int)vh_range(r, 2, LMAX), rounds = (int)vh_range(r, 2, 8), k;
	desc("order n=%d;", n); hmix(42, (uint64_t)n);
	for (i = 0; i < n; i++) {
		int fd[2], opts = vh_chance(r, 4, 5) ? BEV_OPT_DEFER_CALLBACKS : 0;
		struct lsub *s;
		if ((opts & BEV_OPT_DEFER_CALLBACKS) && vh_chance(r, 1, 4)) opts |= BEV_OPT_UNLOCK_CALLBACKS;
		if (vh_chance(r, 1, 4)) opts |= BEV_OPT_THREADSAFE;
		s = l_new(LK_SOCK, opts);
		mk_pair(fd, 0);
		s->peer = fd[1]; s->ownfd = fd[0];
		s->bev = bufferevent_socket_new(B, fd[0], opts);
		bufferevent_setcb(s->bev, l_readcb, NULL, l_eventcb, s);
		bufferevent_enable(s->bev, EV_READ);
		desc("o%d(0x%x);", i, opts); hmix(43 + i, (uint64_t)opts);
	}
	memset(l_ordpend, 0, sizeof(l_ordpend)); l_ordh = l_ordt = 0; l_ordcur = -1; l_ord_on = 1;
	sf_reset(); sf_fd_filter = l_ord_filter; sf_observer = l_ord_obs;
	for (k = 0; k < rounds; k++) {
		int m = (int)vh_range(r, 1, n + 2), j;
		for (j = 0; j < m; j++) {
			struct lsub *s = &LS[vh_below(r, (uint64_t)n)];
			if (s->peer < 0) continue;
			if (vh_chance(r, 1, 10)) { shutdown(s->peer, SHUT_WR); desc("s%d;", s->id); }
			else { ssize_t w = __real_write(s->peer, g_junk, (size_t)vh_range(r, 1, 500)); (void)w; desc("d%d;", s->id); }
			hmix(60, (uint64_t)s->id);
		}
		l_ordcur = -1;
		event_base_loop(B, EVLOOP_NONBLOCK);
	}
	sf_observer = NULL; sf_fd_filter = NULL; l_ord_on = 0;
	if (l_ordh != l_ordt) vh_stat("deferred_conditions_left_undelivered");
	vh_stat("order_sessions");
}
static void case_lifecycle(vh_rng *r)
{
	int i, nops;
	const char *lv;
	g_hash = 19; g_desclen = 0; g_desc[0] = 0;
	nLS = 0; l_dns = NULL; l_dnsfd = -1; l_pending_lookups = 0; l_rng = r; l_ord_on = 0;
	sf_reset();
	new_base();
	g_boundary = l_boundary;
	if (vh_chance(r, 1, 6)) case_order(r);
	else {
		nops = (int)vh_range(r, 6, vh_opt.thorough ? 40 : 24);
		l_create(r);
		for (i = 0; i < nops; i++) { l_op(r); l_step(); }
	}
	l_teardown(r);
	g_boundary = NULL;
	lv = lm_take_violation();
	if (lv) vh_viol("C19:lock-ledger", "%s | %s", lv, g_desc);
	if (lm_held_now() != 0) vh_viol("C19:lock-held-at-quiescence", "%d lock holds left | %s", lm_held_now(), g_desc);
	vh_stat("cases");
	{
		long cbs = 0;
		for (i = 0; i < nLS; i++) cbs += LS[i].cbn[0] + LS[i].cbn[1] + LS[i].cbn[2];
		if (cbs > 0) vh_distinct(g_hash);
	}
	vh_sample(2, "{\"mode\":\"lifecycle\",\"case\":%ld,\"script\":\"%s\"}", vh_cur_case, g_desc);
}

int main(int argc, char **argv)
{
	long idx;
	vh_rng rng;
	const char *mode;
	vh_init(argc, argv);
	mode = vh_opt.mode ? vh_opt.mode : "timeout";
	memset(g_junk, 'j', sizeof(g_junk));
	if (!strcmp(mode, "lifecycle")) lm_install();   /* lock callbacks for BEV_OPT_THREADSAFE, with ledger */
	vclk_enable(1000LL * 1000000);
	vclk_wait_hook = wait_hook;
	vclk_forever_hook = forever_hook;
	while (vh_next_case(&idx, &rng)) {
		if (!strcmp(mode, "timeout")) case_timeout(&rng);
		else if (!strcmp(mode, "ratelim")) case_ratelim(&rng);
		else if (!strcmp(mode, "lifecycle")) case_lifecycle(&rng);
		else die("unknown mode");
	}
	vh_finish();
	return 0;
}
