/* h_tag: C42 tagged-data encoding (event_tagging.c).
 *  --mode rt    round trips of every marshal/encode function, items read back in order
 *  --mode fuzz  every decoder on arbitrary bytes delivered as evbuffer reference chains of
 *               exact-size heap blocks (every split of the header region), so any read past
 *               the data is an ASan report; a successful decode must have consumed exactly
 *               one well-formed item with the values an independent decoder computes.
 * The reference codec below is written from the wire-format comment of event_tagging.c.
 * CALIBRATED: nibbles and 7-bit tag groups are least-significant first (the implementation's
 * order; the comment says "big-endian"), the padding nibble is not checked, a tag may use
 * redundant continuation bytes, and an integer item may carry payload bytes after the encoded
 * integer (the "XXX" in evtag_unmarshal_int). */
#include "vh.h"
#include <unistd.h>
#include <sys/wait.h>
#include <errno.h>
#include <event2/event.h>
#include <event2/buffer.h>
#include <event2/tag.h>

int evtag_decode_int(ev_uint32_t *pnumber, struct evbuffer *evbuf);
int evtag_decode_int64(ev_uint64_t *pnumber, struct evbuffer *evbuf);
int evtag_encode_tag(struct evbuffer *evbuf, ev_uint32_t tag);
int evtag_decode_tag(ev_uint32_t *ptag, struct evbuffer *evbuf);
int __real_read(int, void *, size_t); int __real_write(int, const void *, size_t); int __real_close(int); int __real_pipe(int *);

static int mode_is(const char *m) { return vh_opt.mode && !strcmp(vh_opt.mode, m); }
static int viol_gate(const char *key)
{
	static struct { char k[120]; int n; } t[64];
	static int nt;
	int i;
	for (i = 0; i < nt; i++) if (!strcmp(t[i].k, key)) break;
	if (i == nt) { if (nt == 64) return 1; snprintf(t[nt].k, sizeof(t[nt].k), "%s", key); t[nt].n = 0; nt++; }
	vh_stat("violating_evaluations");
	return t[i].n++ < 3;
}
#define VIOL(key, ...) do { if (viol_gate(key)) vh_viol((key), __VA_ARGS__); } while (0)

/* ------------------------------------------------------------------ */
/* reference codec                                                     */
static int nibbles_of(uint64_t v) { int n = 1; while (v >>= 4) n++; return n; }
static size_t ref_int_size(uint64_t v) { return (size_t)nibbles_of(v) / 2 + 1; }
static size_t ref_tag_size(uint32_t t) { size_t n = 1; while (t >>= 7) n++; return n; }
/* returns encoded length or -1; maxn = 8 or 16 nibbles */
static int ref_dec_int(const uint8_t *p, size_t n, int maxn, uint64_t *out)
{
	int nib, len, k;
	uint64_t v = 0;
	if (n < 1) return -1;
	nib = (p[0] >> 4) + 1;
	len = nib / 2 + 1;
	if (nib > maxn || (size_t)len > n) return -1;
	for (k = nib; k >= 1; k--) {
		/* position k: odd -> low nibble of byte k/2, even -> high nibble of byte k/2 */
		unsigned b = p[k / 2];
		v = (v << 4) | ((k & 1) ? (b & 0x0f) : (b >> 4));
	}
	*out = v;
	return len;
}
static int ref_dec_tag(const uint8_t *p, size_t n, uint32_t *out)
{
	unsigned __int128 v = 0;
	size_t i;
	for (i = 0; i < n && i < 16; i++) {
		v |= (unsigned __int128)(p[i] & 0x7f) << (7 * i);
		if (!(p[i] & 0x80)) {
			if (v > 0xffffffffu) return -1;
			*out = (uint32_t)v;
			return (int)(i + 1);
		}
	}
	return -1;
}
struct ref_item { int ok; uint32_t tag; int taglen, lenlen; uint32_t plen; int complete; size_t total; };
/* header = tag + length; complete = payload present too */
static void ref_item(const uint8_t *p, size_t n, struct ref_item *it)
{
	uint64_t l;
	memset(it, 0, sizeof(*it));
	it->taglen = ref_dec_tag(p, n, &it->tag);
	if (it->taglen < 0) return;
	it->lenlen = ref_dec_int(p + it->taglen, n - (size_t)it->taglen, 8, &l);
	if (it->lenlen < 0) return;
	it->ok = 1;
	it->plen = (uint32_t)l;
	it->total = (size_t)it->taglen + (size_t)it->lenlen + (size_t)it->plen;
	it->complete = it->total <= n;
}

/* ------------------------------------------------------------------ */
/* evbuffers made of exact-size heap blocks                             */
static long live_blocks;
static void blk_free(const void *data, size_t len, void *arg) { (void)len; (void)arg; free((void *)data); live_blocks--; }
/* bit i of mask (i < 63) = block boundary after byte i */
static struct evbuffer *chain_buf(const uint8_t *p, size_t n, uint64_t mask)
{
	struct evbuffer *b = evbuffer_new();
	size_t st = 0, i;
	for (i = 0; i < n; i++) {
		int cut = (i + 1 == n) || (i < 63 && ((mask >> i) & 1));
		if (cut) {
			size_t l = i + 1 - st;
			uint8_t *blk = malloc(l);
			memcpy(blk, p + st, l);
			live_blocks++;
			if (evbuffer_add_reference(b, blk, l, blk_free, NULL) != 0) { free(blk); live_blocks--; }
			st = i + 1;
		}
	}
	return b;
}
static size_t snapshot(struct evbuffer *b, uint8_t *out, size_t cap)
{
	size_t l = evbuffer_get_length(b);
	if (l > cap) l = cap;
	if (l) evbuffer_copyout(b, out, l);
	return l;
}

/* ================================================================== */
/* fuzz mode                                                            */
enum { D_TAG, D_INT, D_INT64, D_PEEK, D_PEEKLEN, D_PAYLEN, D_HEADER, D_CONSUME, D_UNMARSHAL, D_UINT, D_UINT64, D_FIXED, D_STRING, D_TIMEVAL, D__N };
static const char *const DNAME[] = { "decode_tag", "decode_int", "decode_int64", "peek", "peek_length", "payload_length", "unmarshal_header",
	"consume", "unmarshal", "unmarshal_int", "unmarshal_int64", "unmarshal_fixed", "unmarshal_string", "unmarshal_timeval" };
#define FZ_MAX 4200

static void fuzz_fail(const char *rule, int d, const uint8_t *in, size_t n, uint64_t mask, const char *fmt, ...) __attribute__((format(printf, 6, 7)));
static void fuzz_fail(const char *rule, int d, const uint8_t *in, size_t n, uint64_t mask, const char *fmt, ...)
{
	char key[100], hx[200], msg[300];
	va_list ap;
	va_start(ap, fmt); vsnprintf(msg, sizeof(msg), fmt, ap); va_end(ap);
	snprintf(key, sizeof(key), "C42:%s", rule);
	VIOL(key, "evtag_%s on %zu bytes %s%s split-mask 0x%llx: %s", DNAME[d], n, vh_hex(hx, sizeof(hx), in, n > 40 ? 40 : n), n > 40 ? "..." : "", (unsigned long long)mask, msg);
}
/* One evaluation: decoder d on input in[0..n) split by mask; need_tag_delta != 0 makes the wanted tag differ. */
static void fuzz_eval(int d, const uint8_t *in, size_t n, uint64_t mask, int need_delta, int fixed_delta)
{
	struct evbuffer *b = chain_buf(in, n, mask), *dst = NULL;
	struct ref_item it;
	uint8_t after[FZ_MAX];
	size_t al, consumed = 0;
	int rc = -1, success = 0, peeker = (d == D_PEEK || d == D_PEEKLEN || d == D_PAYLEN);
	uint32_t t32 = 0xdeadbeef, v32 = 0xdeadbeef, need;
	uint64_t v64 = 0, rv;
	int rl;
	ref_item(in, n, &it);
	need = (it.taglen > 0 ? it.tag : 7) + (uint32_t)need_delta;
	vh_stat("decoder_evaluations");
	switch (d) {
	case D_TAG:
		rc = evtag_decode_tag(&t32, b); success = rc != -1;
		if (success) {
			if (it.taglen < 0 || rc != it.taglen || t32 != it.tag) fuzz_fail("decoder-accepts-malformed-or-wrong-value", d, in, n, mask, "rc=%d tag=%u; reference taglen=%d tag=%u", rc, t32, it.taglen, it.tag);
			consumed = (size_t)(rc > 0 ? rc : 0);
		}
		break;
	case D_INT: case D_INT64:
		rl = ref_dec_int(in, n, d == D_INT ? 8 : 16, &rv);
		if (d == D_INT) { rc = evtag_decode_int(&v32, b); v64 = v32; } else rc = evtag_decode_int64(&v64, b);
		success = rc != -1;
		if (success) {
			if (rc != 0) fuzz_fail("decoder-bad-return-code", d, in, n, mask, "rc=%d", rc);
			if (rl < 0 || v64 != rv) fuzz_fail("decoder-accepts-malformed-or-wrong-value", d, in, n, mask, "value=%llu; reference len=%d value=%llu", (unsigned long long)v64, rl, (unsigned long long)rv);
			consumed = (size_t)(rl > 0 ? rl : 0);
		}
		break;
	case D_PEEK:
		rc = evtag_peek(b, &t32); success = rc != -1;
		if (success && (it.taglen < 0 || rc != it.taglen || t32 != it.tag)) fuzz_fail("decoder-accepts-malformed-or-wrong-value", d, in, n, mask, "rc=%d tag=%u; reference taglen=%d tag=%u", rc, t32, it.taglen, it.tag);
		break;
	case D_PEEKLEN: case D_PAYLEN:
		rc = d == D_PEEKLEN ? evtag_peek_length(b, &v32) : evtag_payload_length(b, &v32); success = rc != -1;
		if (success) {
			uint32_t want = d == D_PEEKLEN ? (uint32_t)(it.plen + (uint32_t)it.taglen + (uint32_t)it.lenlen) : it.plen;
			if (rc != 0) fuzz_fail("decoder-bad-return-code", d, in, n, mask, "rc=%d", rc);
			if (!it.ok || v32 != want) fuzz_fail("decoder-accepts-malformed-or-wrong-value", d, in, n, mask, "length=%u; reference ok=%d length=%u", v32, it.ok, want);
		}
		break;
	case D_HEADER:
		rc = evtag_unmarshal_header(b, &t32); success = rc != -1;
		if (success) {
			if (!it.ok || !it.complete || (uint32_t)rc != it.plen || t32 != it.tag) fuzz_fail("decoder-accepts-malformed-or-wrong-value", d, in, n, mask, "rc=%d tag=%u; reference ok=%d complete=%d len=%u tag=%u", rc, t32, it.ok, it.complete, it.plen, it.tag);
			consumed = (size_t)it.taglen + (size_t)it.lenlen;
		}
		break;
	case D_CONSUME:
		rc = evtag_consume(b); success = rc != -1;
		if (success) {
			if (rc != 0) fuzz_fail("decoder-bad-return-code", d, in, n, mask, "rc=%d", rc);
			if (!it.ok || !it.complete) fuzz_fail("decoder-accepts-malformed-or-wrong-value", d, in, n, mask, "accepted; reference ok=%d complete=%d", it.ok, it.complete);
			consumed = it.total;
		}
		break;
	case D_UNMARSHAL:
		dst = evbuffer_new();
		evbuffer_add(dst, "pre", 3);
		rc = evtag_unmarshal(b, &t32, dst); success = rc != -1;
		if (success) {
			if (!it.ok || !it.complete || (uint32_t)rc != it.plen || t32 != it.tag) fuzz_fail("decoder-accepts-malformed-or-wrong-value", d, in, n, mask, "rc=%d tag=%u; reference ok=%d complete=%d len=%u tag=%u", rc, t32, it.ok, it.complete, it.plen, it.tag);
			else {
				uint8_t pl[FZ_MAX + 8];
				size_t l = snapshot(dst, pl, sizeof(pl));
				if (l != 3 + (size_t)it.plen || memcmp(pl, "pre", 3) || memcmp(pl + 3, in + it.taglen + it.lenlen, it.plen))
					fuzz_fail("payload-differs", d, in, n, mask, "destination holds %zu bytes, want 3+%u", l, it.plen);
			}
			consumed = it.total;
		}
		break;
	case D_UINT: case D_UINT64: {
		const uint8_t *pl = it.ok ? in + it.taglen + it.lenlen : in;
		if (d == D_UINT) { rc = evtag_unmarshal_int(b, need, &v32); v64 = v32; } else rc = evtag_unmarshal_int64(b, need, &v64);
		success = rc != -1;
		if (success) {
			rl = (it.ok && it.complete) ? ref_dec_int(pl, n - (size_t)(it.taglen + it.lenlen), d == D_UINT ? 8 : 16, &rv) : -1;
			if (!it.ok || !it.complete || need != it.tag || rl < 0 || (uint32_t)rl > it.plen || v64 != rv || rc != rl)
				fuzz_fail("decoder-accepts-malformed-or-wrong-value", d, in, n, mask, "rc=%d value=%llu need=%u; reference ok=%d complete=%d tag=%u intlen=%d value=%llu paylen=%u",
					rc, (unsigned long long)v64, need, it.ok, it.complete, it.tag, rl, (unsigned long long)rv, it.plen);
			else if ((uint32_t)rl < it.plen) vh_stat("int_item_with_trailing_payload_accepted");
			consumed = it.total;
		}
		break; }
	case D_FIXED: {
		size_t want = (size_t)((it.ok ? it.plen : 3) + (uint32_t)fixed_delta) % (FZ_MAX + 1);
		uint8_t *data = malloc(want);
		memset(data, 0xA5, want);
		rc = evtag_unmarshal_fixed(b, need, data, want); success = rc != -1;
		if (success) {
			if (rc != 0) fuzz_fail("decoder-bad-return-code", d, in, n, mask, "rc=%d", rc);
			if (!it.ok || !it.complete || need != it.tag || want != it.plen) fuzz_fail("decoder-accepts-malformed-or-wrong-value", d, in, n, mask, "accepted with len=%zu need=%u; reference ok=%d complete=%d tag=%u paylen=%u", want, need, it.ok, it.complete, it.tag, it.plen);
			else if (memcmp(data, in + it.taglen + it.lenlen, want)) fuzz_fail("payload-differs", d, in, n, mask, "fixed data differs");
			consumed = it.total;
		}
		free(data);
		break; }
	case D_STRING: {
		char *s = NULL;
		rc = evtag_unmarshal_string(b, need, &s); success = rc != -1;
		if (success) {
			if (rc != 0) fuzz_fail("decoder-bad-return-code", d, in, n, mask, "rc=%d", rc);
			if (!it.ok || !it.complete || need != it.tag || !s) fuzz_fail("decoder-accepts-malformed-or-wrong-value", d, in, n, mask, "accepted need=%u; reference ok=%d complete=%d tag=%u", need, it.ok, it.complete, it.tag);
			else if (memcmp(s, in + it.taglen + it.lenlen, it.plen) || s[it.plen] != 0) fuzz_fail("payload-differs", d, in, n, mask, "string differs or is unterminated");
			consumed = it.total;
			free(s);
		}
		break; }
	case D_TIMEVAL: {
		struct timeval tv = { -1, -1 };
		rc = evtag_unmarshal_timeval(b, need, &tv); success = rc != -1;
		if (success) {
			const uint8_t *pl = it.ok ? in + it.taglen + it.lenlen : in;
			uint64_t s = 0, u = 0;
			int l1 = -1, l2 = -1;
			if (it.ok && it.complete) {
				size_t rest = n - (size_t)(it.taglen + it.lenlen);
				l1 = ref_dec_int(pl, rest, 8, &s);
				if (l1 > 0) l2 = ref_dec_int(pl + l1, rest - (size_t)l1, 8, &u);
			}
			if (rc != 0) fuzz_fail("decoder-bad-return-code", d, in, n, mask, "rc=%d", rc);
			if (!it.ok || !it.complete || need != it.tag || l1 < 0 || l2 < 0 || (uint32_t)(l1 + l2) > it.plen || (uint64_t)tv.tv_sec != s || (uint64_t)tv.tv_usec != u)
				fuzz_fail("decoder-accepts-malformed-or-wrong-value", d, in, n, mask, "tv=%ld.%ld need=%u; reference ok=%d complete=%d tag=%u l1=%d l2=%d sec=%llu usec=%llu paylen=%u",
					(long)tv.tv_sec, (long)tv.tv_usec, need, it.ok, it.complete, it.tag, l1, l2, (unsigned long long)s, (unsigned long long)u, it.plen);
			consumed = it.total;
		}
		break; }
	}
	al = snapshot(b, after, sizeof(after));
	if (success) {
		vh_stat("decoder_success");
		if (peeker) consumed = 0;
		if (consumed <= n && (evbuffer_get_length(b) != n - consumed || memcmp(after, in + consumed, al)))
			fuzz_fail("decoder-consumed-wrong-amount", d, in, n, mask, "buffer holds %zu bytes after success, want %zu (one item = %zu bytes)", evbuffer_get_length(b), n - consumed, consumed);
	} else {
		vh_stat("decoder_failure");
		if ((d == D_TAG && it.taglen > 0) || ((d >= D_HEADER && d <= D_UNMARSHAL) && it.ok && it.complete)) vh_stat("decoder_failure_on_wellformed_input");
		/* whatever a failed call drained, what remains must be a suffix of the input; a peek must leave everything */
		if (evbuffer_get_length(b) > n || memcmp(after, in + (n - evbuffer_get_length(b)), al))
			fuzz_fail("failed-decode-corrupts-buffer", d, in, n, mask, "%zu bytes remain and they are not a suffix of the input", evbuffer_get_length(b));
		else if (peeker && evbuffer_get_length(b) != n)
			fuzz_fail("peek-consumes-data", d, in, n, mask, "%zu of %zu bytes remain after a failed peek", evbuffer_get_length(b), n);
	}
	evbuffer_free(b);
	if (dst) evbuffer_free(dst);
}

/* ---- isolation of the witness classes that abort the process on the unchanged tree ---- */
/* Two witness classes end in a sanitizer abort (see known_findings.d/C42.json).  Evaluations of exactly these classes
 * run in a forked child so that the remaining cases still execute; the parent turns a report carrying the class's
 * signature into a violation with a specific key and passes every other report through unchanged to stderr (where the
 * driver keys it).  Once a class is seen not to crash (fixed tree) its evaluations run in-process like all others;
 * while it does crash, at most 2 evaluations of the class are forked per process (each report costs ~1 s of
 * symbolisation) and the rest are counted in `isolated_evaluations_skipped_budget`.
 *  A tag-overread: the tag field starts with five continuation bytes (the fifth with <= 4 value bits), more bytes
 *    follow, and the first block of the chain ends exactly after the fifth byte: decode_tag_internal pulls up 5 bytes
 *    and then reads a sixth.
 *  B empty-unmarshal: evtag_unmarshal() of an item with a zero-length payload calls
 *    evbuffer_add(dst, evbuffer_pullup(src, 0) == NULL, 0) -> memcpy(.., NULL, 0) (UBSan nonnull). */
struct iso_class { const char *rule, *what, *sig[3]; int state /* -1 unknown, 0 clean, 1 crashes */, budget; };
static struct iso_class ISO_TAG = { "tag-decoder-reads-past-5-byte-block",
	"ASan heap-buffer-overflow READ of size 1 in decode_tag_internal: sixth tag byte read after a 5-byte pullup (first block is exactly 5 bytes)",
	{ "AddressSanitizer: heap-buffer-overflow", "READ of size 1", "decode_tag_internal" }, -1, 2 };
static struct iso_class ISO_EMPTY = { "unmarshal-empty-payload-passes-null-to-memcpy",
	"UBSan: evtag_unmarshal of a zero-length payload passes NULL (evbuffer_pullup(src,0)) to evbuffer_add -> memcpy",
	{ "runtime error: null pointer passed as argument 2", "evtag_unmarshal", "evbuffer_add" }, -1, 2 };
/* returns 1: fn ran (in-process or in a clean child); 0: child died with the class signature; -1: other crash; -2: skipped (budget) */
static int run_isolated(struct iso_class *c, void (*fn)(void *), void *arg, int *in_process)
{
	int pfd[2], st = 0;
	pid_t pid;
	static char err[32768];
	size_t el = 0;
	ssize_t k;
	*in_process = 0;
	if (c->state == 0) { *in_process = 1; fn(arg); return 1; }
	if (c->state == 1 && c->budget <= 0) { vh_stat("isolated_evaluations_skipped_budget"); return -2; }
	c->budget--;
	fflush(stdout); fflush(stderr);
	if (__real_pipe(pfd)) return -2;
	pid = fork();
	if (pid < 0) { __real_close(pfd[0]); __real_close(pfd[1]); return -2; }
	if (pid == 0) {
		__real_close(pfd[0]); dup2(pfd[1], 2); __real_close(pfd[1]);
		fn(arg);
		fflush(stdout);
		_exit(0);
	}
	__real_close(pfd[1]);
	while ((k = __real_read(pfd[0], err + el, sizeof(err) - 1 - el)) > 0) el += (size_t)k;
	err[el] = 0;
	__real_close(pfd[0]);
	while (waitpid(pid, &st, 0) < 0 && errno == EINTR) ;
	vh_stat("isolated_evaluations");
	if (WIFEXITED(st) && WEXITSTATUS(st) == 0) {
		vh_stat("isolated_clean");
		if (c->state < 0) c->state = 0;
		if (el) { ssize_t w = __real_write(2, err, el); (void)w; }
		return 1;
	}
	c->state = 1;
	/* the third signature element is a function name: only demanded when the report carries a symbolised stack */
	if (strstr(err, c->sig[0]) && strstr(err, c->sig[1]) && (strstr(err, c->sig[2]) || !strstr(err, " in "))) {
		vh_stat("isolated_known_class_reports");
		return 0;
	}
	{ ssize_t w = __real_write(2, err, el); (void)w; }
	return -1;
}
static int overread_class(int d, const uint8_t *in, size_t n, uint64_t mask)
{
	if (d == D_INT || d == D_INT64 || n < 6) return 0;
	if ((mask & 0x1f) != 0x10) return 0;
	return (in[0] & in[1] & in[2] & in[3] & in[4] & 0x80) && (in[4] & 0x7f) <= 15;
}
static int empty_unmarshal_class(int d, const uint8_t *in, size_t n)
{
	struct ref_item it;
	if (d != D_UNMARSHAL) return 0;
	ref_item(in, n, &it);
	return it.ok && it.complete && it.plen == 0;
}
struct fz_args { int d; const uint8_t *in; size_t n; uint64_t mask; int nd, fd_; };
static void fz_thunk(void *a_) { struct fz_args *a = a_; fuzz_eval(a->d, a->in, a->n, a->mask, a->nd, a->fd_); }
static void fuzz_dispatch(int d, const uint8_t *in, size_t n, uint64_t mask, int nd, int fd_)
{
	struct iso_class *c = overread_class(d, in, n, mask) ? &ISO_TAG : empty_unmarshal_class(d, in, n) ? &ISO_EMPTY : NULL;
	struct fz_args a = { d, in, n, mask, nd, fd_ };
	int inproc, rc;
	if (!c) { fuzz_eval(d, in, n, mask, nd, fd_); return; }
	rc = run_isolated(c, fz_thunk, &a, &inproc);
	if (rc == 0) fuzz_fail(c->rule, d, in, n, mask, "%s", c->what);
	else if (rc == -1) fuzz_fail("isolated-evaluation-crashed", d, in, n, mask, "child died with a report that is not the class signature (passed through to stderr)");
}

/* ---- input generators ---- */
static uint32_t pick_u32(vh_rng *r)
{
	switch (vh_below(r, 6)) {
	case 0: { uint32_t b = (uint32_t)1 << (4 * vh_below(r, 8)); return b + (uint32_t)vh_range(r, -1, 1); }
	case 1: { uint32_t b = (uint32_t)1 << (7 * vh_below(r, 5)); return b + (uint32_t)vh_range(r, -1, 1); }
	case 2: return VH_PICK(r, ((const uint32_t[]){ 0, 1, 15, 16, 127, 128, 255, 256, 16383, 16384, 0x0fffffffu, 0x10000000u, 0x7fffffffu, 0x80000000u, 0xfffffffeu, 0xffffffffu }));
	case 3: return (uint32_t)vh_below(r, 300);
	default: return (uint32_t)(vh_rand(r) >> (32 + vh_below(r, 32)));
	}
}
static uint64_t pick_u64(vh_rng *r)
{
	switch (vh_below(r, 5)) {
	case 0: { uint64_t b = (uint64_t)1 << (4 * vh_below(r, 16)); return b + (uint64_t)vh_range(r, -1, 1); }
	case 1: return VH_PICK(r, ((const uint64_t[]){ 0, 1, 0xffffffffull, 0x100000000ull, 0x0fffffffffffffffull, 0x1000000000000000ull, 0x7fffffffffffffffull, 0x8000000000000000ull, 0xfffffffffffffffeull, 0xffffffffffffffffull }));
	case 2: return pick_u32(r);
	default: return vh_rand(r) >> vh_below(r, 64);
	}
}
static size_t put_tag(uint8_t *o, uint32_t t) { size_t n = 0; do { uint8_t l = t & 0x7f; t >>= 7; if (t) l |= 0x80; o[n++] = l; } while (t); return n; }
static size_t put_int(uint8_t *o, uint64_t v)
{
	int nib = nibbles_of(v), k;
	size_t len = (size_t)nib / 2 + 1;
	memset(o, 0, len);
	o[0] = (uint8_t)((nib - 1) << 4);
	for (k = 1; k <= nib; k++) { unsigned x = (unsigned)(v >> (4 * (k - 1))) & 15; if (k & 1) o[k / 2] |= (uint8_t)x; else o[k / 2] |= (uint8_t)(x << 4); }
	return len;
}
/* a valid item with a payload of the given kind */
static size_t gen_valid_item(vh_rng *r, uint8_t *o)
{
	size_t n = put_tag(o, pick_u32(r)), pl = 0;
	uint8_t pay[64];
	switch (vh_below(r, 5)) {
	case 0: pl = put_int(pay, pick_u32(r)); break;
	case 1: pl = put_int(pay, pick_u64(r)); break;
	case 2: pl = put_int(pay, pick_u32(r)); pl += put_int(pay + pl, (uint64_t)vh_below(r, 1000000)); break;
	case 3: pl = (size_t)vh_below(r, 20); { size_t i; for (i = 0; i < pl; i++) pay[i] = (uint8_t)vh_rand(r); } break;
	default: pl = 0; break;
	}
	if (vh_chance(r, 1, 8) && pl + 3 < sizeof(pay)) { pay[pl++] = (uint8_t)vh_rand(r); pay[pl++] = (uint8_t)vh_rand(r); }  /* trailing payload bytes */
	n += put_int(o + n, pl);
	memcpy(o + n, pay, pl);
	return n + pl;
}
static size_t gen_input(vh_rng *r, uint8_t *o)
{
	size_t n = 0, i;
	switch (vh_below(r, 8)) {
	case 0: case 1: /* valid item (+ possibly a following item or junk), maybe truncated */
		n = gen_valid_item(r, o);
		if (vh_chance(r, 1, 3)) n += gen_valid_item(r, o + n);
		else if (vh_chance(r, 1, 3)) { size_t k = (size_t)vh_below(r, 6); while (k--) o[n++] = (uint8_t)vh_rand(r); }
		if (vh_chance(r, 1, 2)) n = (size_t)vh_below(r, n + 1);
		break;
	case 2: /* valid item with a few corrupted header bytes */
		n = gen_valid_item(r, o);
		for (i = 0; i < 1 + vh_below(r, 2); i++) { size_t p = (size_t)vh_below(r, n < 8 ? n : 8); if (vh_chance(r, 1, 2)) o[p] ^= (uint8_t)(1u << vh_below(r, 8)); else o[p] = (uint8_t)vh_rand(r); }
		break;
	case 3: { /* crafted: k continuation bytes, terminator, nibble-count byte, ... */
		size_t k = (size_t)vh_below(r, 9);
		for (i = 0; i < k; i++) o[n++] = (uint8_t)(0x80 | (vh_chance(r, 1, 2) ? vh_below(r, 16) : vh_below(r, 128)));
		if (vh_chance(r, 4, 5)) o[n++] = (uint8_t)vh_below(r, 128);
		if (vh_chance(r, 4, 5)) { o[n++] = (uint8_t)((vh_below(r, 16) << 4) | vh_below(r, 16)); for (i = vh_below(r, 10); i > 0; i--) o[n++] = (uint8_t)vh_rand(r); }
		break; }
	case 4: /* length field larger than what follows */
		n = put_tag(o, pick_u32(r));
		n += put_int(o + n, vh_chance(r, 1, 2) ? (uint64_t)vh_range(r, 1, 40) : pick_u32(r));
		for (i = vh_below(r, 12); i > 0; i--) o[n++] = (uint8_t)vh_rand(r);
		break;
	case 5: /* runs of one byte */
		n = (size_t)vh_range(r, 1, 20);
		memset(o, VH_PICK(r, ((const int[]){ 0x00, 0x80, 0xff, 0x8f, 0x7f, 0xf0, 0x0f, 0x70 })), n);
		if (vh_chance(r, 1, 2)) o[vh_below(r, n)] = (uint8_t)vh_rand(r);
		break;
	default: /* random bytes, high bits biased */
		n = (size_t)vh_below(r, 25);
		for (i = 0; i < n; i++) { o[i] = (uint8_t)vh_rand(r); if (i < 6 && vh_chance(r, 1, 2)) o[i] |= 0x80; }
		break;
	}
	return n;
}
static void case_fuzz(vh_rng *r)
{
	int k;
	for (k = 0; k < 8; k++) {
		uint8_t in[256];
		size_t n = gen_input(r, in), nb = n ? n - 1 : 0, i;
		uint64_t masks[160];
		int nm = 0, d, every;
		struct ref_item it;
		/* splits: every way over the header region (first 7 boundaries) for 1 input in 4, else contiguous, all-single-byte and 6 random splits */
		every = vh_chance(r, 1, 4);
		if (every) {
			size_t hb = nb < 7 ? nb : 7;
			uint64_t tail = nb > 7 ? (vh_rand(r) & ~(uint64_t)0x7f) : 0, m;
			for (m = 0; m < ((uint64_t)1 << hb); m++) masks[nm++] = m | tail;
			vh_stat("inputs_with_every_header_split");
		} else {
			masks[nm++] = 0; masks[nm++] = ~(uint64_t)0;
			for (i = 0; i < 6; i++) masks[nm++] = vh_rand(r) & vh_rand(r);
			masks[nm++] = 0x10;                    /* first block = 5 bytes */
		}
		for (i = 0; (int)i < nm; i++)
			for (d = 0; d < D__N; d++) {
				int nd = vh_chance(r, 1, 10) ? (int)vh_range(r, 1, 3) : 0, fd_ = vh_chance(r, 1, 6) ? (int)vh_range(r, -1, 1) : 0;
				fuzz_dispatch(d, in, n, masks[i], nd, fd_);
			}
		vh_stat_add("cases", (long)nm * D__N);
		vh_stat("inputs");
		vh_stat_add("splits", nm);
		ref_item(in, n, &it);
		if (it.ok && it.complete) vh_stat("inputs_holding_a_wellformed_item"); else vh_stat("inputs_malformed_or_truncated");
		if (n) vh_distinct(vh_hash_bytes(42, in, n));
		{ char hx[600]; vh_sample(3, "{\"op\":\"decode-arbitrary\",\"bytes\":\"%s\",\"splits\":%d,\"decoders\":%d}", vh_hex(hx, sizeof(hx), in, n), nm, D__N); }
	}
	if (live_blocks) { VIOL("C42:reference-block-not-released", "%ld heap blocks of freed evbuffers were never released", live_blocks); live_blocks = 0; }
}

/* ================================================================== */
/* round-trip mode                                                      */
enum { K_INT, K_INT64, K_STRING, K_TIMEVAL, K_RAW, K_BUFFER, K_NESTED, K_BARE_INT, K_BARE_INT64, K_BARE_TAG, K__N };
static const char *const KNAME[] = { "int", "int64", "string", "timeval", "raw", "buffer", "nested", "bare_int", "bare_int64", "bare_tag" };
struct item {
	int kind; uint32_t tag; uint32_t v32; uint64_t v64; struct timeval tv;
	uint8_t *data; size_t dlen;           /* string / raw / buffer payload; nested: the inner encoding */
	struct item *inner; int ninner;
	size_t size;                          /* expected encoded size (reference accounting) */
};
static void item_free(struct item *it) { int i; free(it->data); for (i = 0; i < it->ninner; i++) item_free(&it->inner[i]); free(it->inner); }
static void rt_fail(const char *rule, const struct item *it, const char *fmt, ...) __attribute__((format(printf, 3, 4)));
static void rt_fail(const char *rule, const struct item *it, const char *fmt, ...)
{
	char key[100], msg[400];
	va_list ap;
	va_start(ap, fmt); vsnprintf(msg, sizeof(msg), fmt, ap); va_end(ap);
	snprintf(key, sizeof(key), "C42:%s", rule);
	VIOL(key, "%s item tag=%u v32=%u v64=%llu tv=%ld.%06ld dlen=%zu: %s", KNAME[it->kind], it->tag, it->v32, (unsigned long long)it->v64, (long)it->tv.tv_sec, (long)it->tv.tv_usec, it->dlen, msg);
}
static void gen_item(vh_rng *r, struct item *it, int depth);
static void stat_kind(const char *pfx, int kind) { char nm[48]; snprintf(nm, sizeof(nm), "%s_%s", pfx, KNAME[kind]); vh_stat(nm); }
/* marshal one item with the library; sets it->size from the reference accounting */
static void marshal_item(struct evbuffer *b, struct item *it)
{
	size_t before = evbuffer_get_length(b), pl = 0;
	char nm[48];
	switch (it->kind) {
	case K_INT: evtag_marshal_int(b, it->tag, it->v32); pl = ref_int_size(it->v32); snprintf(nm, sizeof(nm), "int_nibbles_%d", nibbles_of(it->v32)); vh_stat(nm); break;
	case K_INT64: evtag_marshal_int64(b, it->tag, it->v64); pl = ref_int_size(it->v64); snprintf(nm, sizeof(nm), "int_nibbles_%d", nibbles_of(it->v64)); vh_stat(nm); break;
	case K_STRING: { char *s = malloc(it->dlen + 1); memcpy(s, it->data, it->dlen); s[it->dlen] = 0; evtag_marshal_string(b, it->tag, s); free(s); pl = it->dlen; break; }
	case K_TIMEVAL: evtag_marshal_timeval(b, it->tag, &it->tv); pl = ref_int_size((uint32_t)it->tv.tv_sec) + ref_int_size((uint32_t)it->tv.tv_usec); break;
	case K_RAW: { uint8_t *d = malloc(it->dlen); memcpy(d, it->data, it->dlen); evtag_marshal(b, it->tag, d, (ev_uint32_t)it->dlen); free(d); pl = it->dlen; break; }
	case K_BUFFER: { struct evbuffer *src = evbuffer_new(); evbuffer_add(src, it->data, it->dlen); evtag_marshal_buffer(b, it->tag, src);
		if (evbuffer_get_length(src) != 0) rt_fail("marshal-buffer-leaves-source", it, "source keeps %zu bytes", evbuffer_get_length(src));
		evbuffer_free(src); pl = it->dlen; break; }
	case K_NESTED: {
		struct evbuffer *src = evbuffer_new(); int i; size_t isz = 0;
		for (i = 0; i < it->ninner; i++) { marshal_item(src, &it->inner[i]); isz += it->inner[i].size; }
		if (evbuffer_get_length(src) != isz) rt_fail("encoded-size", it, "inner buffer holds %zu bytes, format says %zu", evbuffer_get_length(src), isz);
		it->dlen = evbuffer_get_length(src); it->data = malloc(it->dlen ? it->dlen : 1); evbuffer_copyout(src, it->data, it->dlen);
		evtag_marshal_buffer(b, it->tag, src); evbuffer_free(src); pl = it->dlen; break; }
	case K_BARE_INT: evtag_encode_int(b, it->v32); it->size = ref_int_size(it->v32); break;
	case K_BARE_INT64: evtag_encode_int64(b, it->v64); it->size = ref_int_size(it->v64); break;
	case K_BARE_TAG: { int n = evtag_encode_tag(b, it->tag); it->size = ref_tag_size(it->tag);
		if ((size_t)n != it->size) rt_fail("encode-tag-return", it, "evtag_encode_tag returned %d, format says %zu bytes", n, it->size);
		if ((size_t)evtag_encode_tag(NULL, it->tag) != it->size) rt_fail("encode-tag-return", it, "evtag_encode_tag(NULL) length differs");
		break; }
	}
	if (it->kind < K_BARE_INT) it->size = ref_tag_size(it->tag) + ref_int_size(pl) + pl;
	snprintf(nm, sizeof(nm), "tag_bytes_%zu", ref_tag_size(it->tag)); if (it->kind != K_BARE_INT && it->kind != K_BARE_INT64) vh_stat(nm);
	if (evbuffer_get_length(b) - before != it->size)
		rt_fail("encoded-size", it, "marshal appended %zu bytes, the wire format says %zu", evbuffer_get_length(b) - before, it->size);
	stat_kind("marshalled", it->kind);
}
static void gen_bytes(vh_rng *r, struct item *it, int string)
{
	size_t n, i;
	switch (vh_below(r, 8)) {
	case 0: n = 0; break;
	case 1: n = (size_t)VH_PICK(r, ((const int[]){ 1, 15, 16, 17, 255, 256, 257, 4095, 4096, 4097 })); break;
	case 2: n = (size_t)vh_range(r, 1000, 70000); break;
	default: n = (size_t)vh_below(r, 120); break;
	}
	it->data = malloc(n ? n : 1); it->dlen = n;
	for (i = 0; i < n; i++) { uint8_t c = (uint8_t)vh_rand(r); if (string && !c) c = 'x'; it->data[i] = c; }
}
static void gen_item(vh_rng *r, struct item *it, int depth)
{
	memset(it, 0, sizeof(*it));
	it->kind = (int)vh_below(r, K__N);
	if (it->kind == K_NESTED && depth >= 2) it->kind = K_INT;
	it->tag = pick_u32(r);
	it->v32 = pick_u32(r);
	it->v64 = pick_u64(r);
	/* CALIBRATED: timevals travel as two 32-bit integers */
	it->tv.tv_sec = (long)(vh_chance(r, 1, 2) ? pick_u32(r) : (uint32_t)vh_rand(r));
	it->tv.tv_usec = (long)(vh_chance(r, 1, 4) ? VH_PICK(r, ((const long[]){ 0, 1, 15, 16, 999999, 65535, 65536 })) : (long)vh_below(r, 1000000));
	if (it->kind == K_STRING) gen_bytes(r, it, 1);
	else if (it->kind == K_RAW || it->kind == K_BUFFER) gen_bytes(r, it, 0);
	else if (it->kind == K_NESTED) {
		int i;
		it->ninner = (int)vh_range(r, 0, 3);
		it->inner = calloc((size_t)it->ninner + 1, sizeof(struct item));
		for (i = 0; i < it->ninner; i++) gen_item(r, &it->inner[i], depth + 1);
	}
}
static void read_items(vh_rng *r, struct evbuffer *b, struct item *items, int n);
struct rt_args { vh_rng *r; struct evbuffer *b; struct item *it; };
static int rt_in_child, rt_forced_how = -1;
static void read_item(vh_rng *r, struct evbuffer *b, struct item *it);
static void rt_thunk(void *a_) { struct rt_args *a = a_; rt_in_child = 1; rt_forced_how = 0; read_item(a->r, a->b, a->it); rt_in_child = 0; rt_forced_how = -1; }
static void read_item(vh_rng *r, struct evbuffer *b, struct item *it)
{
	size_t before = evbuffer_get_length(b);
	int rt_how = rt_forced_how >= 0 ? rt_forced_how : (it->kind == K_NESTED ? 0 : (int)vh_below(r, 4));
	uint32_t t = 0xdeadbeef, l = 0xdeadbeef, v32 = 0;
	uint64_t v64 = 0;
	int rc;
	if (it->kind < K_BARE_INT) {
		size_t hdr = it->size - (it->kind == K_INT ? ref_int_size(it->v32) : it->kind == K_INT64 ? ref_int_size(it->v64) :
			it->kind == K_TIMEVAL ? ref_int_size((uint32_t)it->tv.tv_sec) + ref_int_size((uint32_t)it->tv.tv_usec) : it->dlen);
		size_t pl = it->size - hdr;
		rc = evtag_peek(b, &t);
		if (rc != (int)ref_tag_size(it->tag) || t != it->tag) rt_fail("peek-mismatch", it, "evtag_peek rc=%d tag=%u", rc, t);
		if (evtag_peek_length(b, &l) != 0 || l != it->size) rt_fail("peek-length-mismatch", it, "evtag_peek_length gives %u, item is %zu bytes", l, it->size);
		if (evtag_payload_length(b, &l) != 0 || l != pl) rt_fail("payload-length-mismatch", it, "evtag_payload_length gives %u, payload is %zu bytes", l, pl);
		if (evbuffer_get_length(b) != before) rt_fail("peek-consumes-data", it, "peek functions changed the buffer length");
		/* asking for another tag must fail */
		if (vh_chance(r, 1, 12) && (it->kind == K_INT || it->kind == K_STRING)) {
			struct evbuffer *cp = evbuffer_new(); uint8_t *tmp = malloc(it->size); char *sp = NULL;
			evbuffer_copyout(b, tmp, it->size); evbuffer_add(cp, tmp, it->size); free(tmp);
			rc = it->kind == K_INT ? evtag_unmarshal_int(cp, it->tag ^ 1, &v32) : evtag_unmarshal_string(cp, it->tag + 1, &sp);
			if (rc != -1) { rt_fail("wrong-tag-accepted", it, "unmarshal with another need_tag returned %d", rc); free(sp); }
			vh_stat("wrong_tag_probes");
			evbuffer_free(cp);
		}
	}
	if ((it->kind == K_RAW || it->kind == K_BUFFER || it->kind == K_NESTED) && it->dlen == 0 && rt_how == 0 && !rt_in_child) {
		/* witness class B (see isolation above): evtag_unmarshal of an empty payload */
		struct rt_args a = { r, b, it };
		int inproc, irc = run_isolated(&ISO_EMPTY, rt_thunk, &a, &inproc);
		if (irc == 1 && inproc) return;                 /* fixed tree: the item was read normally */
		if (irc == 0) rt_fail(ISO_EMPTY.rule, it, "%s", ISO_EMPTY.what);
		else if (irc == -1) rt_fail("isolated-evaluation-crashed", it, "child died with a report that is not the class signature");
		/* the child did the checked read on its copy; skip the item here */
		if (evtag_consume(b) != 0) rt_fail("roundtrip-value", it, "consume rc=-1");
		if (before - evbuffer_get_length(b) != it->size) rt_fail("roundtrip-consumed-wrong-amount", it, "consume took %zu bytes, item is %zu", before - evbuffer_get_length(b), it->size);
		stat_kind("read_back", it->kind);
		return;
	}
	switch (it->kind) {
	case K_INT:
		rc = evtag_unmarshal_int(b, it->tag, &v32);
		if (rc == -1 || v32 != it->v32) rt_fail("roundtrip-value", it, "unmarshal_int rc=%d value=%u", rc, v32);
		break;
	case K_INT64:
		rc = evtag_unmarshal_int64(b, it->tag, &v64);
		if (rc == -1 || v64 != it->v64) rt_fail("roundtrip-value", it, "unmarshal_int64 rc=%d value=%llu", rc, (unsigned long long)v64);
		break;
	case K_STRING: {
		char *s = NULL;
		rc = evtag_unmarshal_string(b, it->tag, &s);
		if (rc != 0 || !s || strlen(s) != it->dlen || memcmp(s, it->data, it->dlen)) rt_fail("roundtrip-value", it, "unmarshal_string rc=%d len=%zu", rc, s ? strlen(s) : 0);
		free(s);
		break; }
	case K_TIMEVAL: {
		struct timeval tv = { -1, -1 };
		rc = evtag_unmarshal_timeval(b, it->tag, &tv);
		if (rc != 0 || tv.tv_sec != it->tv.tv_sec || tv.tv_usec != it->tv.tv_usec) rt_fail("roundtrip-value", it, "unmarshal_timeval rc=%d tv=%ld.%06ld", rc, (long)tv.tv_sec, (long)tv.tv_usec);
		break; }
	case K_RAW: case K_BUFFER: case K_NESTED: {
		int how = rt_how;
		if (how == 0) {
			struct evbuffer *dst = evbuffer_new();
			uint8_t *got;
			rc = evtag_unmarshal(b, &t, dst);
			got = malloc(it->dlen ? it->dlen : 1);
			if (rc != (int)it->dlen || t != it->tag || evbuffer_get_length(dst) != it->dlen || (evbuffer_copyout(dst, got, it->dlen), memcmp(got, it->data, it->dlen)))
				rt_fail("roundtrip-value", it, "unmarshal rc=%d tag=%u dstlen=%zu", rc, t, evbuffer_get_length(dst));
			else if (it->kind == K_NESTED) { read_items(r, dst, it->inner, it->ninner); }
			free(got); evbuffer_free(dst);
		} else if (how == 1) {
			uint8_t *got = malloc(it->dlen);
			rc = evtag_unmarshal_fixed(b, it->tag, got, it->dlen);
			if (rc != 0 || memcmp(got, it->data, it->dlen)) rt_fail("roundtrip-value", it, "unmarshal_fixed rc=%d", rc);
			free(got);
		} else if (how == 2) {
			uint8_t *got = malloc(it->dlen ? it->dlen : 1);
			rc = evtag_unmarshal_header(b, &t);
			if (rc != (int)it->dlen || t != it->tag || evbuffer_remove(b, got, it->dlen) != (int)it->dlen || memcmp(got, it->data, it->dlen)) rt_fail("roundtrip-value", it, "unmarshal_header rc=%d tag=%u", rc, t);
			free(got);
		} else {
			rc = evtag_consume(b);
			if (rc != 0) rt_fail("roundtrip-value", it, "consume rc=%d", rc);
		}
		break; }
	case K_BARE_INT:
		rc = evtag_decode_int(&v32, b);
		if (rc != 0 || v32 != it->v32) rt_fail("roundtrip-value", it, "decode_int rc=%d value=%u", rc, v32);
		break;
	case K_BARE_INT64:
		rc = evtag_decode_int64(&v64, b);
		if (rc != 0 || v64 != it->v64) rt_fail("roundtrip-value", it, "decode_int64 rc=%d value=%llu", rc, (unsigned long long)v64);
		break;
	case K_BARE_TAG:
		rc = evtag_decode_tag(&t, b);
		if (rc != (int)it->size || t != it->tag) rt_fail("roundtrip-value", it, "decode_tag rc=%d tag=%u", rc, t);
		break;
	}
	if (before - evbuffer_get_length(b) != it->size)
		rt_fail("roundtrip-consumed-wrong-amount", it, "reading the item consumed %zu bytes, it was written as %zu", before - evbuffer_get_length(b), it->size);
	stat_kind("read_back", it->kind);
}
static void read_items(vh_rng *r, struct evbuffer *b, struct item *items, int n)
{
	int i;
	for (i = 0; i < n; i++) read_item(r, b, &items[i]);
	if (evbuffer_get_length(b) != 0) VIOL("C42:roundtrip-leftover-bytes", "%zu bytes remain after all %d items were read back", evbuffer_get_length(b), n);
}
static void case_rt(vh_rng *r)
{
	int round;
	for (round = 0; round < 20; round++) {
		struct item items[12];
		int n = (int)vh_range(r, 1, 12), i;
		struct evbuffer *b = evbuffer_new(), *rd;
		size_t total = 0, len;
		uint64_t h = 4242;
		for (i = 0; i < n; i++) { gen_item(r, &items[i], 0); marshal_item(b, &items[i]); total += items[i].size; }
		len = evbuffer_get_length(b);
		if (len != total) VIOL("C42:encoded-size", "%d items: buffer holds %zu bytes, the wire format says %zu", n, len, total);
		/* deliver the stream contiguous, or re-cut into exact-size heap blocks at random places */
		if (vh_chance(r, 1, 3)) rd = b;
		else {
			uint8_t *flat = malloc(len ? len : 1);
			size_t st = 0;
			evbuffer_copyout(b, flat, len);
			h = vh_hash_bytes(h, flat, len > 4096 ? 4096 : len);
			rd = evbuffer_new();
			while (st < len) {
				size_t l = vh_chance(r, 1, 2) ? (size_t)vh_range(r, 1, 6) : (size_t)vh_range(r, 1, 5000);
				uint8_t *blk;
				if (l > len - st) l = len - st;
				blk = malloc(l); memcpy(blk, flat + st, l); live_blocks++;
				evbuffer_add_reference(rd, blk, l, blk_free, NULL);
				st += l;
			}
			free(flat); evbuffer_free(b);
			vh_stat("streams_recut_into_heap_blocks");
		}
		read_items(r, rd, items, n);
		evbuffer_free(rd);
		vh_stat_add("cases", n);
		vh_stat_add("items", n);
		vh_stat("streams");
		for (i = 0; i < n; i++) { h = vh_hash_bytes(h, &items[i].kind, sizeof(int)); h = vh_hash_bytes(h, &items[i].tag, 4); h = vh_hash_bytes(h, &items[i].v64, 8); h = vh_hash_bytes(h, &items[i].v32, 4); h = vh_hash_bytes(h, &items[i].dlen, sizeof(size_t)); }
		vh_distinct(h);
		vh_sample(2, "{\"op\":\"roundtrip\",\"items\":%d,\"first_kind\":\"%s\",\"first_tag\":%u,\"stream_bytes\":%zu}", n, KNAME[items[0].kind], items[0].tag, len);
		for (i = 0; i < n; i++) item_free(&items[i]);
	}
	if (live_blocks) { VIOL("C42:reference-block-not-released", "%ld heap blocks of freed evbuffers were never released", live_blocks); live_blocks = 0; }
}

/* --mode probe: one crafted evaluation per isolated witness class (each in a forked child) so that the driver learns,
 * at the price of one symbolised report per class, whether the class still aborts; the driver then tells the bulk
 * steps with --arg t<0|1>e<0|1> to run the class in-process (0) or to skip it (1). */
static void case_probe(void)
{
	static const uint8_t tagin[] = { 0x80, 0x80, 0x80, 0x80, 0x80, 0x00, 0x00 }, emptyin[] = { 0x07, 0x00, 0x55 };
	ISO_TAG.budget = 1; ISO_EMPTY.budget = 1;
	fuzz_dispatch(D_TAG, tagin, sizeof(tagin), 0x10, 0, 0);
	fuzz_dispatch(D_UNMARSHAL, emptyin, sizeof(emptyin), 0, 0, 0);
	vh_stat(ISO_TAG.state == 1 ? "probe_tag_overread_crashes" : ISO_TAG.state == 0 ? "probe_tag_overread_clean" : "probe_tag_overread_unknown");
	vh_stat(ISO_EMPTY.state == 1 ? "probe_empty_unmarshal_crashes" : ISO_EMPTY.state == 0 ? "probe_empty_unmarshal_clean" : "probe_empty_unmarshal_unknown");
	vh_stat_add("cases", 2);
	vh_stat_add("splits", 2);
}

int main(int argc, char **argv)
{
	long idx; vh_rng r;
	vh_init(argc, argv);
	if (vh_opt.arg && vh_opt.arg[0] == 't' && strlen(vh_opt.arg) == 4 && vh_opt.arg[2] == 'e') {
		ISO_TAG.state = vh_opt.arg[1] == '1'; ISO_TAG.budget = 0;
		ISO_EMPTY.state = vh_opt.arg[3] == '1'; ISO_EMPTY.budget = 0;
	}
	while (vh_next_case(&idx, &r)) {
		if (mode_is("rt")) case_rt(&r);
		else if (mode_is("probe")) case_probe();
		else if (mode_is("fuzz")) case_fuzz(&r);
		else { fprintf(stderr, "h_tag: unknown mode\n"); return 2; }
	}
	vh_finish();
	return 0;
}
