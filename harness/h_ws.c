/* C31/C32: WebSocket server side of evhttp driven by a script (one file, many
 * cases).  The harness is a thin interpreter: it performs exactly the scripted
 * client writes / server API calls and prints every observable (handshake
 * bytes, message callbacks, close callback, bytes the client received, close
 * of the connection).  All generation and judging is in Python
 * (lib/gen/wsgen.py, lib/ref/ws6455.py, lib/checks/C31.py, C32.py).
 *
 *   h_ws --arg <scriptfile>
 *
 * Script (one op per line):
 *   CASE <id>            new event_base + evhttp on 127.0.0.1:0, client connects
 *   S0                   clear the stream buffer (the buffer survives CASE so that
 *                        several segmentations can share one stream)
 *   S X <hex>            append literal bytes to the stream buffer
 *   S R <len> <hex>      append <len> bytes: the pattern repeated
 *   REWIND               stream cursor := 0 (implicit at CASE)
 *   SEND <n1> <n2> ...   client sends the next n1 bytes of the stream, loop stepped
 *                        to idle, then n2 ... ; prints "SEG <i> <n>" before each
 *   FLUSH <label>        print "RX <label> <n> X <hex>" (or "H <first32hex> <sha256>"
 *                        when n > 4096) of the bytes the client received since
 *                        the last FLUSH
 *   ECHO <0|1>           message callback echoes each message with evws_send_*
 *   CLOSEAT <k> <code>   message callback calls evws_close(code) on the k-th message
 *   TXT X <hex> | TXT R <len> <hex>     evws_send_text (payload + NUL)
 *   BIN X <hex> | BIN R <len> <hex>     evws_send_binary
 *   CLOSE <code>         evws_close
 *   STEP                 step the loop to idle
 *   EOF                  client shutdown(SHUT_WR), step to idle
 *   END                  tear down (client close, evhttp_free, event_base_free)
 * Trace (stdout): CASE, SESSION 0|1, SEG, MSG <type> <len> X <hex>|H <sha256>,
 *   CLOSECB, RX ..., PEERCLOSED, PEERRESET, WERR <unsent>, NOSESSION <op>,
 *   STALL <why>, EOFMARK, TEARDOWN, ENDCASE, RESTART <ordinal>.
 *
 * The script runs in a forked child; when the child dies inside a case
 * (sanitizer report, assertion, crash, watchdog) the parent starts a new child
 * behind that case, so one report does not hide the rest of the file
 * (H_WS_NOFORK=1 disables this for debugging).  --n1 <sec> = per-case real-time
 * watchdog (default 180 s; firing = STALL = inconclusive, never a violation).
 * "Idle" is decided from observed facts: bytes sent == bytes the server read
 * (sysfault observer on the accepted fd), bytes the server wrote == bytes the
 * client read, and two loop steps without a library syscall or callback.
 */
#include "vh.h"
#include <errno.h>
#include <fcntl.h>
#include <poll.h>
#include <unistd.h>
#include <signal.h>
#include <sys/mman.h>
#include <sys/wait.h>
#include <sys/socket.h>
#include <netinet/in.h>
#include <netinet/tcp.h>
#include <arpa/inet.h>
#include <openssl/sha.h>
#include <event2/event.h>
#include <event2/http.h>
#include <event2/ws.h>
#include <event2/buffer.h>
#include <event2/bufferevent.h>

ssize_t __real_read(int, void *, size_t);
ssize_t __real_write(int, const void *, size_t);
ssize_t __real_send(int, const void *, size_t, int);
int __real_socket(int, int, int);
int __real_connect(int, const struct sockaddr *, socklen_t);
int __real_close(int);
int __real_poll(struct pollfd *, nfds_t, int);

static struct event_base *base;
static struct evhttp *http;
static struct evws_connection *evws;
static int cfd = -1, sfd = -1;
static int in_case;
static long srv_read, srv_written, cli_sent, cli_recv;
static int srv_closed, srv_eof, cli_eof, cli_werr;
static long sys_activity, cb_activity;
static int opt_echo, closeat_k, closeat_code, nmsg;

/* stream buffer */
static unsigned char *stream; static size_t stream_len, stream_cap, stream_pos;
/* client receive buffer (since last FLUSH) */
static unsigned char *rx; static size_t rx_len, rx_cap;
static char *hexbuf; static size_t hexcap;

static void die(const char *m) { fprintf(stderr, "h_ws: %s\n", m); exit(3); }

static void buf_add(unsigned char **b, size_t *len, size_t *cap, const void *p, size_t n)
{
	if (*len + n + 1 > *cap) {
		size_t nc = *cap ? *cap : 4096;
		while (nc < *len + n + 1) nc *= 2;
		*b = realloc(*b, nc);
		if (!*b) die("oom");
		*cap = nc;
	}
	if (n) memcpy(*b + *len, p, n);
	*len += n;
}

static const char *hexof(const unsigned char *p, size_t n)
{
	static const char d[] = "0123456789abcdef";
	size_t i;
	if (2 * n + 1 > hexcap) { hexcap = 2 * n + 1; hexbuf = realloc(hexbuf, hexcap); if (!hexbuf) die("oom"); }
	for (i = 0; i < n; i++) { hexbuf[2 * i] = d[p[i] >> 4]; hexbuf[2 * i + 1] = d[p[i] & 15]; }
	hexbuf[2 * n] = 0;
	return hexbuf;
}
static const char *sha256hex(const unsigned char *p, size_t n)
{
	static char out[65];
	unsigned char md[32];
	int i;
	SHA256(p ? p : (const unsigned char *)"", n, md);
	for (i = 0; i < 32; i++) sprintf(out + 2 * i, "%02x", md[i]);
	return out;
}
static int hv(int c)
{
	if (c >= '0' && c <= '9') return c - '0';
	if (c >= 'a' && c <= 'f') return c - 'a' + 10;
	if (c >= 'A' && c <= 'F') return c - 'A' + 10;
	return -1;
}
/* decode hex token at s (until space/end) into a malloc'd buffer */
static unsigned char *unhex(const char *s, size_t *n)
{
	size_t l = 0, i;
	unsigned char *o;
	while (hv(s[l]) >= 0) l++;
	if (l & 1) die("odd hex");
	o = malloc(l / 2 + 1);
	if (!o) die("oom");
	for (i = 0; i < l / 2; i++) o[i] = (unsigned char)(hv(s[2 * i]) << 4 | hv(s[2 * i + 1]));
	o[l / 2] = 0;
	*n = l / 2;
	return o;
}
/* "X <hex>" or "R <len> <hex>" -> malloc'd bytes (NUL appended) */
static unsigned char *payload_spec(const char *s, size_t *n)
{
	while (*s == ' ') s++;
	if (s[0] == 'X') {
		s++; while (*s == ' ') s++;
		return unhex(s, n);
	} else if (s[0] == 'R') {
		char *e; size_t len = strtoul(s + 1, &e, 10), pl, i;
		unsigned char *pat, *o;
		while (*e == ' ') e++;
		pat = unhex(e, &pl);
		if (!pl && len) die("empty pattern");
		o = malloc(len + 1);
		if (!o) die("oom");
		for (i = 0; i < len; ) { size_t k = pl < len - i ? pl : len - i; memcpy(o + i, pat, k); i += k; }
		o[len] = 0;
		free(pat);
		*n = len;
		return o;
	}
	die("bad payload spec");
	return NULL;
}

/* ---- observation of the library's syscalls ---- */
static int fd_filter(int fd) { return fd != cfd; }
static void obs(int sym, int fd, long req, long res)
{
	(void)req;
	if (!in_case) return;
	sys_activity++;
	switch (sym) {
	case SF_accept: case SF_accept4:
		if (res >= 0 && sfd < 0) {
			int one = 1;
			sfd = (int)res;
			/* environment only: no Nagle delays between the two loopback ends */
			setsockopt(sfd, IPPROTO_TCP, TCP_NODELAY, &one, sizeof(one));
		}
		break;
	case SF_read: case SF_readv: case SF_recv:
		if (fd == sfd && sfd >= 0) { if (res > 0) srv_read += res; else if (res == 0) srv_eof = 1; }
		break;
	case SF_write: case SF_writev: case SF_send:
		if (fd == sfd && sfd >= 0 && res > 0) srv_written += res;
		break;
	case SF_close:
		if (fd == sfd && sfd >= 0) { srv_closed = 1; sfd = -1; }
		break;
	default: break;
	}
}

/* ---- callbacks ---- */
static void on_close(struct evws_connection *c, void *arg)
{
	(void)c; (void)arg;
	cb_activity++;
	vh_stat("closecb");
	printf("CLOSECB\n");
	evws = NULL;
}
static void on_msg(struct evws_connection *c, int type, const unsigned char *data, size_t len, void *arg)
{
	(void)arg;
	cb_activity++;
	nmsg++;
	vh_stat("msgcb");
	if (len <= 1024) printf("MSG %d %zu X %s\n", type, len, hexof(data, len));
	else printf("MSG %d %zu H %s\n", type, len, sha256hex(data, len));
	if (opt_echo) {
		if (type == WS_TEXT_FRAME) {
			char *t = malloc(len + 1);
			if (!t) die("oom");
			if (len) memcpy(t, data, len);
			t[len] = 0;
			evws_send_text(c, t);
			free(t);
		} else {
			/* an empty message may be reported with data == NULL; the application
			 * side must not hand NULL back to the API */
			evws_send_binary(c, data ? (const char *)data : "", len);
		}
		vh_stat("echo");
	}
	if (closeat_k && nmsg == closeat_k) {
		vh_stat("close_in_cb");
		evws_close(c, (uint16_t)closeat_code);
	}
}
static void on_req(struct evhttp_request *req, void *arg)
{
	(void)arg;
	cb_activity++;
	evws = evws_new_session(req, on_msg, NULL, 0);
	if (evws) evws_connection_set_closecb(evws, on_close, NULL);
	vh_stat(evws ? "session" : "nosession");
	printf("SESSION %d\n", evws ? 1 : 0);
}

/* ---- client side ---- */
static void client_drain(void)
{
	unsigned char tmp[65536];
	while (cfd >= 0 && !cli_eof) {
		ssize_t r = __real_read(cfd, tmp, sizeof(tmp));
		if (r > 0) { buf_add(&rx, &rx_len, &rx_cap, tmp, (size_t)r); cli_recv += r; continue; }
		if (r == 0) { cli_eof = 1; printf("PEERCLOSED\n"); break; }
		if (errno == EINTR) continue;
		if (errno == EAGAIN || errno == EWOULDBLOCK) break;
		cli_eof = 1;
		printf("PEERRESET %d\n", errno);
		break;
	}
}
static void step_once(void)
{
	event_base_loop(base, EVLOOP_NONBLOCK);
	vh_stat("steps");
	client_drain();
}
/* idle = nothing in flight in either direction and two consecutive steps in
 * which the library made no syscall, ran no callback and the client got nothing */
static int settle(void)
{
	int quiet = 0, noprog = 0;
	long iter = 0;
	while (quiet < 2) {
		long a0 = sys_activity, c0 = cb_activity, r0 = cli_recv, s0 = srv_read;
		int inflight, moved;
		step_once();
		moved = (sys_activity != a0 || cb_activity != c0 || cli_recv != r0 || srv_read != s0);
		inflight = 0;
		if (!srv_closed && !cli_werr && srv_read < cli_sent) inflight = 1;
		if (!cli_eof && cli_recv < srv_written) inflight = 1;
		if (!moved && !inflight && event_base_get_num_events(base, EVENT_BASE_COUNT_ACTIVE) == 0) quiet++;
		else quiet = 0;
		if (moved) noprog = 0;
		else if (inflight) {
			/* real-time wait for loopback delivery (normally never needed) */
			if (++noprog > 20) { struct pollfd p = { cfd, POLLIN, 0 }; __real_poll(&p, 1, 1); vh_stat("realtime_waits"); }
			if (noprog > 3000) { printf("STALL inflight srv_read=%ld cli_sent=%ld srv_written=%ld cli_recv=%ld\n", srv_read, cli_sent, srv_written, cli_recv); vh_stat("stall"); return -1; }
		}
		if (++iter > 50000000L) { printf("STALL iterations\n"); vh_stat("stall"); return -1; }
	}
	return 0;
}
static void client_send(size_t n)
{
	size_t off = 0;
	int spins = 0;
	if (stream_pos + n > stream_len) die("SEND beyond stream");
	while (off < n && !cli_werr && cfd >= 0) {
		ssize_t w = __real_send(cfd, stream + stream_pos + off, n - off, MSG_NOSIGNAL);
		if (w > 0) { off += (size_t)w; cli_sent += w; spins = 0; continue; }
		if (w < 0 && errno == EINTR) continue;
		if (w < 0 && (errno == EAGAIN || errno == EWOULDBLOCK)) {
			long a0 = sys_activity;
			step_once();
			if (sys_activity == a0 && ++spins > 20) {
				struct pollfd p = { cfd, POLLOUT, 0 };
				__real_poll(&p, 1, 1);
				if (spins > 5000) { printf("STALL send\n"); vh_stat("stall"); cli_werr = 1; }
			}
			continue;
		}
		cli_werr = 1;
		printf("WERR %zu %d\n", n - off, errno);
	}
	stream_pos += n;
}

/* generous real-time watchdog per case: a hang is reported as STALL (inconclusive),
 * the supervising parent resumes behind the case */
static void on_alarm(int sig)
{
	static const char m[] = "STALL watchdog\n";
	ssize_t w;
	(void)sig;
	w = __real_write(1, m, sizeof(m) - 1);
	(void)w;
	_exit(9);
}

static void case_begin(long id)
{
	struct evhttp_bound_socket *bs;
	struct sockaddr_in sin;
	socklen_t sl = sizeof(sin);
	int one = 1;
	vh_cur_case = id;
	srv_read = srv_written = cli_sent = cli_recv = 0;
	srv_closed = srv_eof = cli_eof = cli_werr = 0;
	sys_activity = cb_activity = 0;
	opt_echo = closeat_k = closeat_code = nmsg = 0;
	sfd = -1; evws = NULL; rx_len = 0; stream_pos = 0;
	base = event_base_new();
	if (!base) die("event_base_new");
	http = evhttp_new(base);
	if (!http) die("evhttp_new");
	evhttp_set_gencb(http, on_req, NULL);
	bs = evhttp_bind_socket_with_handle(http, "127.0.0.1", 0);
	if (!bs) die("bind");
	if (getsockname(evhttp_bound_socket_get_fd(bs), (struct sockaddr *)&sin, &sl) < 0) die("getsockname");
	cfd = __real_socket(AF_INET, SOCK_STREAM, 0);
	if (cfd < 0) die("socket");
	if (__real_connect(cfd, (struct sockaddr *)&sin, sizeof(sin)) < 0) die("connect");
	fcntl(cfd, F_SETFL, fcntl(cfd, F_GETFL) | O_NONBLOCK);
	setsockopt(cfd, IPPROTO_TCP, TCP_NODELAY, &one, sizeof(one));
	in_case = 1;
	alarm((unsigned)(vh_opt.n1 > 0 ? vh_opt.n1 : 180));
	vh_stat("cases_started");
	printf("CASE %ld\n", id);
}
static void case_end(void)
{
	int i;
	printf("TEARDOWN\n");
	if (cfd >= 0) { __real_close(cfd); }
	cli_eof = 1;
	for (i = 0; i < 4; i++) event_base_loop(base, EVLOOP_NONBLOCK);
	cfd = -1;
	evhttp_free(http);
	event_base_free(base);
	http = NULL; base = NULL; evws = NULL;
	in_case = 0;
	alarm(0);
	printf("ENDCASE\n");
}

/* shared with the supervising parent: ordinal of the case in progress, finished flag */
static volatile long *shared;

static void lib_log(int sev, const char *msg)
{
	(void)msg;
	if (sev >= EVENT_LOG_WARN) vh_stat("lib_warnings");
}

static int run_script(long skip)
{
	FILE *f;
	char *line = NULL;
	size_t cap = 0;
	ssize_t n;
	long ordinal = -1;
	int skipping = 0;
	f = fopen(vh_opt.arg, "r");
	if (!f) die("cannot open script");
	sf_observer = obs;
	sf_fd_filter = fd_filter;
	event_set_log_callback(lib_log);
	signal(SIGALRM, on_alarm);
	vclk_enable(1000000);
	while ((n = getline(&line, &cap, f)) > 0) {
		char *s = line;
		while (n > 0 && (s[n - 1] == '\n' || s[n - 1] == '\r')) s[--n] = 0;
		if (!*s || *s == '#') continue;
		if (!strncmp(s, "CASE ", 5)) {
			if (in_case) case_end();
			ordinal++;
			skipping = ordinal < skip;
			if (skipping) continue;
			shared[0] = ordinal;
			case_begin(strtol(s + 5, NULL, 10));
			continue;
		}
		if (!strcmp(s, "S0")) { stream_len = 0; stream_pos = 0; continue; }
		if (!strncmp(s, "S ", 2)) {
			size_t pl; unsigned char *p = payload_spec(s + 2, &pl);
			buf_add(&stream, &stream_len, &stream_cap, p, pl);
			free(p);
			continue;
		}
		if (skipping) continue;
		if (!in_case) die("op outside CASE");
		if (!strcmp(s, "REWIND")) { stream_pos = 0; }
		else if (!strncmp(s, "SEND", 4)) {
			char *p = s + 4; int i = 0;
			for (;;) {
				char *e; unsigned long k;
				while (*p == ' ') p++;
				if (!*p) break;
				k = strtoul(p, &e, 10);
				if (e == p) die("bad SEND");
				p = e;
				printf("SEG %d %lu\n", i++, k);
				vh_stat("segments");
				client_send(k);
				settle();
			}
		}
		else if (!strncmp(s, "FLUSH", 5)) {
			const char *lab = s[5] ? s + 6 : "-";
			if (rx_len <= 4096) printf("RX %s %zu X %s\n", lab, rx_len, hexof(rx, rx_len));
			else { char first[65]; snprintf(first, sizeof(first), "%s", hexof(rx, 32)); printf("RX %s %zu H %s %s\n", lab, rx_len, first, sha256hex(rx, rx_len)); }
			vh_stat_add("rx_bytes", (long)rx_len);
			rx_len = 0;
		}
		else if (!strncmp(s, "ECHO ", 5)) opt_echo = atoi(s + 5);
		else if (!strncmp(s, "CLOSEAT ", 8)) { closeat_k = 0; closeat_code = 0; sscanf(s + 8, "%d %d", &closeat_k, &closeat_code); }
		else if (!strncmp(s, "TXT ", 4) || !strncmp(s, "BIN ", 4)) {
			size_t pl; unsigned char *p = payload_spec(s + 4, &pl);
			if (!evws) printf("NOSESSION %.3s\n", s);
			else if (s[0] == 'T') { evws_send_text(evws, (const char *)p); vh_stat("send_text"); }
			else { evws_send_binary(evws, (const char *)p, pl); vh_stat("send_binary"); }
			free(p);
		}
		else if (!strncmp(s, "CLOSE ", 6)) {
			if (!evws) printf("NOSESSION CLOSE\n");
			else { evws_close(evws, (uint16_t)strtoul(s + 6, NULL, 10)); vh_stat("close_api"); }
		}
		else if (!strcmp(s, "STEP")) settle();
		else if (!strcmp(s, "EOF")) {
			printf("EOFMARK\n");
			shutdown(cfd, SHUT_WR);
			settle();
		}
		else if (!strcmp(s, "END")) case_end();
		else { fprintf(stderr, "h_ws: bad op: %.40s\n", s); exit(3); }
	}
	if (in_case) case_end();
	fclose(f);
	free(line); free(stream); free(rx); free(hexbuf);
	stream = rx = NULL; hexbuf = NULL;
	shared[1] = 1;
	vh_finish();
	return 0;
}

/* The script is run in a child process.  If the child dies inside a case
 * (sanitizer report, assertion, crash - all printed to the shared stderr with
 * ATCASE), a new child resumes behind that case, so one report does not hide
 * the remaining cases of the file. */
int main(int argc, char **argv)
{
	long skip = 0;
	int attempt, hangs = 0;
	vh_init(argc, argv);
	if (!vh_opt.arg) die("need --arg scriptfile");
	shared = mmap(NULL, 4096, PROT_READ | PROT_WRITE, MAP_SHARED | MAP_ANONYMOUS, -1, 0);
	if (shared == MAP_FAILED) die("mmap");
	if (getenv("H_WS_NOFORK")) return run_script(0);
	for (attempt = 0; attempt < 100000; attempt++) {
		pid_t pid;
		int st = 0;
		shared[0] = -1; shared[1] = 0;
		fflush(stdout); fflush(stderr);
		pid = fork();
		if (pid < 0) die("fork");
		if (pid == 0) return run_script(skip);
		while (waitpid(pid, &st, 0) < 0 && errno == EINTR) ;
		if (shared[1]) return WIFEXITED(st) ? WEXITSTATUS(st) : 4;
		if (WIFEXITED(st) && WEXITSTATUS(st) == 9 && ++hangs >= 3) { fprintf(stderr, "h_ws: watchdog fired %d times, giving up\n", hangs); return 7; }
		if (shared[0] < skip) { fprintf(stderr, "h_ws: child died outside a case (status %d)\n", st); return 5; }
		printf("RESTART %ld\n", (long)shared[0]);
		skip = shared[0] + 1;
	}
	return 6;
}
