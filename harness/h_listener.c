/* C44: evconnlistener hands every accepted connection to its callback exactly
 * once (or closes it), accepts nothing while disabled / after free, reports
 * non-retriable accept errors, closes its socket on free iff CLOSE_ON_FREE.
 *
 * One case = one event_base, 1-2 listeners (TCP v4 / v6 / AF_UNIX abstract,
 * evconnlistener_new or _new_bind, random LEV_OPT flags), a random history of
 * client connects (also closed / reset before accept), enable/disable,
 * set_cb(NULL/A/B), set_error_cb, free (also from inside either callback),
 * accept faults planned with sysfault, loop steps to idle.
 *
 * Monitors (independent of listener.c):
 *  - sf_observer sees every accept4()/accept() on a listening fd with its
 *    result and errno, and every close() the library makes.  Each fd a
 *    wrapper returned is an entry in acc[]: PENDING -> DELIVERED (callback)
 *    or -> LIBCLOSED (close observed).  The harness itself only uses
 *    __real_close/__real_connect..., so observed closes are the library's.
 *  - the model of the listener state (enabled, cb, arg, errorcb, freed) is
 *    updated only by the harness' own API calls.
 *  - clients are identified by a 4-byte token they write after connecting and
 *    by getsockname() of the client socket.
 *  - open-fd census and memfault census around every case.
 *
 * CALIBRATED (header/property silent, implementation's choice adopted):
 *  - set_cb(NULL) on an enabled listener: connections may be accepted and
 *    closed (listener.c) or left in the backlog; both accepted.  Only an
 *    accepted fd that is neither delivered nor closed is a violation.
 *  - a listener created with cb==NULL does not accept until set_cb (header:
 *    "treated as disabled until the callback is set"); not demanded either way.
 *  - connections queued while disabled are delivered after enable (allowed);
 *    the final drain phase demands that an enabled listener with a callback
 *    and no faults empties its backlog when the loop runs to idle.
 *  - accept4 failing with EINVAL/ENOSYS is not an accept error: the library
 *    falls back to accept() (evutil_accept4_); the verdict is accept()'s.
 */
#include "vh.h"
#include <errno.h>
#include <fcntl.h>
#include <stddef.h>
#include <unistd.h>
#include <sys/socket.h>
#include <sys/un.h>
#include <netinet/in.h>
#include <netinet/tcp.h>
#include <arpa/inet.h>
#include <event2/event.h>
#include <event2/listener.h>
#include <event2/thread.h>
#include <event2/util.h>

int __real_close(int);
int __real_socket(int, int, int);
int __real_connect(int, const struct sockaddr *, socklen_t);
ssize_t __real_recv(int, void *, size_t, int);
ssize_t __real_write(int, const void *, size_t);

#define MAXL 2
#define MAXCLI 48
#define MAXACC 96
#define MAXACT 8
#define MAXOUTSTANDING 10

enum { ST_PENDING = 1, ST_DELIVERED, ST_LIBCLOSED, ST_HCLOSED };
enum { ACT_NONE, ACT_DISABLE, ACT_DISABLE_ENABLE, ACT_SETCB_NULL, ACT_SETCB_OTHER, ACT_FREE_SELF, ACT_FREE_OTHER,
       ACT_CONNECT_MORE, ACT_CLOSE_FD, ACT_SET_ERRCB_NULL, ACT_DISABLE_FREE_SELF, ACT_SETCB_FREE_SELF, ACT__N };
static const char *actname[] = { "none", "disable", "disable+enable", "setcb-null", "setcb-other", "free-self", "free-other",
	"connect-more", "close-fd", "errcb-null", "disable+free-self", "setcb-null+free-self" };

struct cbarg { int lidx; int which; };
struct lst {
	int used;
	struct evconnlistener *lev;
	int lfd;
	unsigned flags;
	int family;
	int deferred;
	struct sockaddr_storage addr; socklen_t addrlen;
	/* model */
	int m_enabled, m_cb /*0 none,1 A,2 B*/, m_errcb, freed, lfd_open /* harness' view: not yet closed by anyone */;
	int lfd_closes;           /* close(lfd) observed */
	int free_checked;
	int pending_err;          /* a non-retriable accept failure awaits its error callback */
	int pending_err_errno;
	int nconnected, naccepted;
	int act[MAXACT], nact, actpos;      /* in-connection-callback actions */
	int eact[MAXACT], neact, eactpos;   /* in-error-callback actions */
	struct cbarg args[3];
};
struct cli { int fd; int lidx; struct sockaddr_storage local; socklen_t locallen; int connected, delivered, early; };
struct acc { int fd; int lidx; int state; int expect_deliver; };

static struct event_base *base;
static struct lst L[MAXL];
static struct cli C[MAXCLI]; static int ncli;
static struct acc A[MAXACC]; static int nacc;
static long nevents;            /* accept calls + callbacks: progress indicator for idle detection */
static int cb_depth;
static vh_rng *crng;
static int have_v6;
static int ts_mode;
static char opsbuf[1400]; static size_t opslen;
static uint64_t ophash;
static int interesting;         /* bitmask of non-trivial features seen in this case */
static int ndelivered_case;

#define V (vh_opt.verbose)
#define TR(...) do { if (V) { fprintf(stderr, "  " __VA_ARGS__); fputc('\n', stderr); } } while (0)

static void op(const char *fmt, ...)
{
	va_list ap; char b[96]; int n;
	va_start(ap, fmt); n = vsnprintf(b, sizeof(b), fmt, ap); va_end(ap);
	if (n < 0) return;
	ophash = vh_hash_bytes(ophash, b, (size_t)n);
	if (opslen + (size_t)n + 2 < sizeof(opsbuf)) { memcpy(opsbuf + opslen, b, (size_t)n); opslen += (size_t)n; opsbuf[opslen++] = ';'; opsbuf[opslen] = 0; }
	TR("op %s", b);
}

/* ---------------------------------------------------------------- observer */
static int is_retriable(int e) { return e == EINTR || e == EAGAIN || e == EWOULDBLOCK || e == ECONNABORTED; }

static int fd_filter(int fd)
{
	int i;
	for (i = 0; i < MAXL; i++) if (L[i].used && L[i].lfd_open && L[i].lfd == fd) return 1;
	return 0;
}
static struct lst *lst_by_fd(int fd)
{
	int i;
	for (i = 0; i < MAXL; i++) if (L[i].used && L[i].lfd_open && L[i].lfd == fd) return &L[i];
	return NULL;
}
static void observer(int sym, int fd, long req, long res)
{
	int e = errno, i;
	(void)req;
	if (sym == SF_accept4 || sym == SF_accept) {
		struct lst *l = lst_by_fd(fd);
		if (!l) { errno = e; return; }
		nevents++;
		vh_stat("accept_calls");
		if (sym == SF_accept) vh_stat("fallback_accept_calls");
		TR("obs %s(lfd=%d) = %ld errno=%d", sym == SF_accept4 ? "accept4" : "accept", fd, res, res < 0 ? e : 0);
		if (l->pending_err)
			vh_viol("C44:nonretriable-error-not-reported", "listener %d: accept failed with errno %d (non-retriable) and an error callback was set, but accept was called again without the error callback running; ops=%s",
			    (int)(l - L), l->pending_err_errno, opsbuf), l->pending_err = 0;
		if (l->freed)
			vh_viol("C44:accept-after-free", "listener %d: accept called on its socket after evconnlistener_free(); ops=%s", (int)(l - L), opsbuf);
		else if (!l->m_enabled)
			vh_viol("C44:accept-while-disabled", "listener %d: accept called while the listener is disabled; ops=%s", (int)(l - L), opsbuf);
		if (res >= 0) {
			vh_stat("accepted_fds");
			l->naccepted++;
			if (nacc < MAXACC) {
				A[nacc].fd = (int)res; A[nacc].lidx = (int)(l - L); A[nacc].state = ST_PENDING;
				A[nacc].expect_deliver = (l->m_cb != 0 && l->m_enabled && !l->freed);
				nacc++;
			}
		} else if (sym == SF_accept4 && (e == EINVAL || e == ENOSYS)) {
			vh_stat("accept4_fallback_signals");
		} else if (is_retriable(e)) {
			vh_stat(e == ECONNABORTED ? "accept_econnaborted" : e == EINTR ? "accept_eintr" : "accept_eagain");
		} else {
			vh_stat("accept_nonretriable");
			if (l->m_errcb && !l->freed) { l->pending_err = 1; l->pending_err_errno = e; }
			else vh_stat("nonretriable_without_errcb");
		}
	} else if (sym == SF_close) {
		for (i = 0; i < nacc; i++) {
			if (A[i].fd != fd) continue;
			if (A[i].state == ST_PENDING) {
				A[i].state = ST_LIBCLOSED;
				vh_stat("fds_closed_by_library");
				TR("obs close(%d) by library (accepted, undelivered)", fd);
				if (A[i].expect_deliver)
					vh_viol("C44:closed-instead-of-delivered", "listener %d was enabled with a callback when fd %d was accepted, but the library closed it instead of delivering it; ops=%s", A[i].lidx, fd, opsbuf);
				errno = e; return;
			}
			if (A[i].state == ST_DELIVERED) {
				A[i].state = ST_LIBCLOSED;
				vh_viol("C44:delivered-fd-closed-by-library", "fd %d was handed to the callback and then closed by the library; ops=%s", fd, opsbuf);
				errno = e; return;
			}
		}
		for (i = 0; i < MAXL; i++) {
			if (L[i].used && L[i].lfd_open && L[i].lfd == fd) {
				L[i].lfd_closes++;
				L[i].lfd_open = 0;
				TR("obs close(lfd=%d) listener %d res=%ld", fd, i, res);
				if (!L[i].freed)
					vh_viol("C44:listening-socket-closed-early", "listener %d: its socket was closed by the library before evconnlistener_free(); ops=%s", i, opsbuf);
				if (res < 0)
					vh_viol("C44:bad-close", "close(%d) of the listening socket failed with errno %d; ops=%s", fd, e, opsbuf);
			}
		}
	}
	errno = e;
}

/* ---------------------------------------------------------------- model + API wrappers */
static void conn_cb(struct evconnlistener *, evutil_socket_t, struct sockaddr *, int, void *);
static void err_cb(struct evconnlistener *, void *);
static void do_connect(int li, int kind);

static void check_free(struct lst *l, int immediate)
{
	int want = (l->flags & LEV_OPT_CLOSE_ON_FREE) ? 1 : 0;
	int fdopen;
	if (l->free_checked) return;
	l->free_checked = 1;
	/* the fd-table cross-check is only exact right after the free call (later the number may have been reused) */
	fdopen = immediate ? fcntl(l->lfd, F_GETFD) != -1 : !want;
	if (l->lfd_closes != want)
		vh_viol(want ? "C44:close-on-free-not-closed" : "C44:closed-without-close-on-free",
		    "listener %d flags=0x%x: after free the library closed its socket %d time(s), expected %d; ops=%s", (int)(l - L), l->flags, l->lfd_closes, want, opsbuf);
	else if (fdopen != !want)
		vh_viol(want ? "C44:close-on-free-not-closed" : "C44:closed-without-close-on-free",
		    "listener %d flags=0x%x: after free the listening fd is %s; ops=%s", (int)(l - L), l->flags, fdopen ? "still open" : "closed", opsbuf);
	vh_stat(want ? "free_closed_socket" : "free_kept_socket");
}
static void do_free(struct lst *l)
{
	if (l->freed) return;
	op("free%d%s", (int)(l - L), cb_depth ? "@cb" : "");
	vh_stat(cb_depth ? "free_in_callback" : "free_outside_callback");
	if (cb_depth) interesting |= 4;
	l->freed = 1;
	l->pending_err = 0; /* freeing clears errorcb: nothing more may be reported */
	evconnlistener_free(l->lev);
	l->lev = NULL;
	if (!cb_depth) check_free(l, 1);
}
static void do_enable(struct lst *l)
{
	int r;
	if (l->freed) return;
	op("en%d%s", (int)(l - L), cb_depth ? "@cb" : "");
	l->m_enabled = 1;
	r = evconnlistener_enable(l->lev);
	if (r != 0) vh_stat("enable_returned_error");
	vh_stat("enables");
}
static void do_disable(struct lst *l)
{
	int r;
	if (l->freed) return;
	op("dis%d%s", (int)(l - L), cb_depth ? "@cb" : "");
	r = evconnlistener_disable(l->lev);
	l->m_enabled = 0;
	(void)r; /* event_del of a non-added event is fine; the return value is not part of the property */
	vh_stat("disables");
	interesting |= 2;
}
static void do_setcb(struct lst *l, int which)
{
	if (l->freed) return;
	op("cb%d=%d%s", (int)(l - L), which, cb_depth ? "@cb" : "");
	l->m_cb = which;
	evconnlistener_set_cb(l->lev, which ? conn_cb : NULL, &l->args[which]);
	vh_stat(which ? "setcb_fn" : "setcb_null");
	if (!which) interesting |= 8;
}
static void do_seterrcb(struct lst *l, int on)
{
	if (l->freed) return;
	op("ecb%d=%d%s", (int)(l - L), on, cb_depth ? "@cb" : "");
	l->m_errcb = on;
	if (!on) l->pending_err = 0;
	evconnlistener_set_error_cb(l->lev, on ? err_cb : NULL);
	vh_stat("set_error_cb");
}

static int addr_eq(const struct sockaddr *a, int alen, const struct cli *c)
{
	const struct sockaddr *b = (const struct sockaddr *)&c->local;
	if (alen < (int)sizeof(sa_family_t)) return 0;
	if (a->sa_family == AF_INET && b->sa_family == AF_INET) {
		const struct sockaddr_in *x = (const void *)a, *y = (const void *)b;
		return alen == (int)sizeof(*x) && x->sin_port == y->sin_port && x->sin_addr.s_addr == y->sin_addr.s_addr;
	}
	if (a->sa_family == AF_INET6 && b->sa_family == AF_INET6) {
		const struct sockaddr_in6 *x = (const void *)a, *y = (const void *)b;
		return alen == (int)sizeof(*x) && x->sin6_port == y->sin6_port && !memcmp(&x->sin6_addr, &y->sin6_addr, 16);
	}
	if (a->sa_family == AF_INET6 && b->sa_family == AF_INET) {
		/* dual-stack listener, v4 client: peer is the v4-mapped address */
		const struct sockaddr_in6 *x = (const void *)a; const struct sockaddr_in *y = (const void *)b;
		static const unsigned char pfx[12] = {0,0,0,0,0,0,0,0,0,0,0xff,0xff};
		return alen == (int)sizeof(*x) && x->sin6_port == y->sin_port && !memcmp(&x->sin6_addr, pfx, 12) &&
		    !memcmp((const char *)&x->sin6_addr + 12, &y->sin_addr, 4);
	}
	if (a->sa_family == AF_UNIX && b->sa_family == AF_UNIX)
		return alen == (int)c->locallen && !memcmp(a, b, (size_t)alen);
	return 0;
}
static void addr_str(char *dst, size_t cap, const struct sockaddr *a, int alen)
{
	char hex[200];
	if (alen < 0) alen = 0;
	if (alen > 64) alen = 64;
	vh_hex(hex, sizeof(hex), a, (size_t)alen);
	snprintf(dst, cap, "len=%d fam=%d bytes=%s", alen, alen >= 2 ? a->sa_family : -1, hex);
}

static void run_action(struct lst *l, int act, int fd, struct acc *a)
{
	struct lst *o = &L[1 - (int)(l - L)];
	if (act != ACT_NONE) { vh_stat("in_callback_actions"); interesting |= 16; TR("action %s", actname[act]); }
	switch (act) {
	case ACT_DISABLE: do_disable(l); vh_stat("disable_in_callback"); break;
	case ACT_DISABLE_ENABLE: do_disable(l); do_enable(l); break;
	case ACT_SETCB_NULL: do_setcb(l, 0); break;
	case ACT_SETCB_OTHER: do_setcb(l, l->m_cb == 1 ? 2 : 1); break;
	case ACT_FREE_SELF: do_free(l); break;
	/* two-step histories inside one callback (seeded defect C44-1: disable then free leaked the listener) */
	case ACT_DISABLE_FREE_SELF: do_disable(l); do_free(l); vh_stat("disable_then_free_in_callback"); break;
	case ACT_SETCB_FREE_SELF: do_setcb(l, 0); do_free(l); break;
	case ACT_FREE_OTHER: if (o->used && !o->freed) do_free(o); break;
	case ACT_CONNECT_MORE: if (!l->freed) { do_connect((int)(l - L), 0); do_connect((int)(l - L), 0); } break;
	case ACT_CLOSE_FD: if (a && fd >= 0) { __real_close(fd); a->state = ST_HCLOSED; } break;
	case ACT_SET_ERRCB_NULL: do_seterrcb(l, 0); break;
	default: break;
	}
}

static void conn_cb(struct evconnlistener *lev, evutil_socket_t fd, struct sockaddr *sa, int socklen, void *arg)
{
	struct cbarg *ca = arg;
	struct lst *l;
	struct acc *a = NULL;
	struct cli *ct = NULL, *cm = NULL;
	uint32_t tok = 0;
	ssize_t n;
	int i, act;
	char s1[200], s2[200];

	nevents++;
	cb_depth++;
	vh_stat("conn_callbacks");
	if (!ca || ca->lidx < 0 || ca->lidx >= MAXL || !L[ca->lidx].used) {
		vh_viol("C44:wrong-callback-arg", "connection callback with a user argument that was never registered; ops=%s", opsbuf);
		cb_depth--; return;
	}
	l = &L[ca->lidx];
	TR("conn_cb l=%d which=%d fd=%d socklen=%d", ca->lidx, ca->which, fd, socklen);
	if (l->freed) vh_viol("C44:callback-after-free", "listener %d: connection callback after evconnlistener_free(); ops=%s", ca->lidx, opsbuf);
	else {
		if (lev != l->lev) vh_viol("C44:wrong-callback-arg", "listener %d: callback got a different listener pointer; ops=%s", ca->lidx, opsbuf);
		if (!l->m_enabled) vh_viol("C44:callback-while-disabled", "listener %d: connection callback while disabled; ops=%s", ca->lidx, opsbuf);
		if (l->m_cb != ca->which) vh_viol("C44:wrong-callback-arg", "listener %d: callback invoked with the argument of callback %d but callback %d is the one set; ops=%s", ca->lidx, ca->which, l->m_cb, opsbuf);
	}
	if (l->pending_err) {
		vh_viol("C44:nonretriable-error-not-reported", "listener %d: accept failed with errno %d but a connection was delivered before the error callback ran; ops=%s", ca->lidx, l->pending_err_errno, opsbuf);
		l->pending_err = 0;
	}
	/* fd accounting */
	for (i = nacc - 1; i >= 0; i--) if (A[i].fd == fd && (A[i].state == ST_PENDING || A[i].state == ST_DELIVERED)) { a = &A[i]; break; }
	if (!a) {
		vh_viol("C44:delivered-unknown-fd", "callback got fd %d which no accept call on a listening socket returned (or which was already closed); ops=%s", fd, opsbuf);
	} else if (a->state == ST_DELIVERED) {
		vh_viol("C44:delivered-twice", "fd %d delivered to the callback twice; ops=%s", fd, opsbuf);
	} else {
		a->state = ST_DELIVERED;
		if (a->lidx != ca->lidx) vh_viol("C44:wrong-callback-arg", "fd %d accepted on listener %d delivered to listener %d's callback; ops=%s", fd, a->lidx, ca->lidx, opsbuf);
		vh_stat("delivered");
		ndelivered_case++;
	}
	/* identify the client: token first, address second */
	n = __real_recv(fd, &tok, 4, MSG_DONTWAIT);
	if (n == 4 && tok < (uint32_t)ncli && C[tok].lidx == ca->lidx) ct = &C[tok];
	for (i = 0; i < ncli; i++)
		if (C[i].lidx == ca->lidx && C[i].connected && !C[i].delivered && addr_eq(sa, socklen, &C[i])) { cm = &C[i]; break; }
	if (ct) {
		vh_stat("peer_identified_by_token");
		if (!addr_eq(sa, socklen, ct)) {
			addr_str(s1, sizeof(s1), sa, socklen); addr_str(s2, sizeof(s2), (struct sockaddr *)&ct->local, (int)ct->locallen);
			vh_viol("C44:wrong-peer-address", "callback address {%s} differs from the connecting client's address {%s}; ops=%s", s1, s2, opsbuf);
		} else vh_stat("peer_address_ok");
		if (ct->delivered++) vh_viol("C44:delivered-twice", "connection of client %u delivered twice; ops=%s", tok, opsbuf);
	} else if (cm) {
		vh_stat("peer_identified_by_address");
		vh_stat("peer_address_ok");
		cm->delivered++;
	} else {
		addr_str(s1, sizeof(s1), sa, socklen);
		vh_viol("C44:wrong-peer-address", "callback address {%s} matches no undelivered client of listener %d; ops=%s", s1, ca->lidx, opsbuf);
	}
	act = (l->actpos < l->nact) ? l->act[l->actpos++] : ACT_NONE;
	run_action(l, act, fd, a);
	cb_depth--;
}

static void err_cb(struct evconnlistener *lev, void *arg)
{
	struct cbarg *ca = arg;
	struct lst *l;
	int act;
	nevents++;
	cb_depth++;
	vh_stat("error_callbacks");
	if (!ca || ca->lidx < 0 || ca->lidx >= MAXL || !L[ca->lidx].used) {
		vh_viol("C44:wrong-callback-arg", "error callback with a user argument that was never registered; ops=%s", opsbuf);
		cb_depth--; return;
	}
	l = &L[ca->lidx];
	TR("err_cb l=%d", ca->lidx);
	if (l->freed) vh_viol("C44:callback-after-free", "listener %d: error callback after evconnlistener_free(); ops=%s", ca->lidx, opsbuf);
	else {
		if (lev != l->lev) vh_viol("C44:wrong-callback-arg", "listener %d: error callback got a different listener pointer; ops=%s", ca->lidx, opsbuf);
		if (!l->m_errcb) vh_viol("C44:spurious-error-callback", "listener %d: error callback invoked although it was cleared; ops=%s", ca->lidx, opsbuf);
		else if (!l->pending_err) vh_viol("C44:spurious-error-callback", "listener %d: error callback without a preceding non-retriable accept failure; ops=%s", ca->lidx, opsbuf);
		/* CALIBRATED: the user pointer is the one given at creation / to the last set_cb (also when cb is NULL) */
		if (ca != &l->args[l->m_cb]) vh_viol("C44:wrong-callback-arg", "listener %d: error callback got the user pointer of callback %d, current is %d; ops=%s", ca->lidx, ca->which, l->m_cb, opsbuf);
	}
	l->pending_err = 0;
	interesting |= 32;
	act = (l->eactpos < l->neact) ? l->eact[l->eactpos++] : ACT_NONE;
	run_action(l, act, -1, NULL);
	cb_depth--;
}

/* ---------------------------------------------------------------- clients */
static void do_connect(int li, int kind /*0 normal,1 close early,2 reset early*/)
{
	struct lst *l = &L[li];
	struct cli *c;
	int fd, r, fam;
	uint32_t tok;
	if (ncli >= MAXCLI || !l->lfd_open) return;
	if (l->nconnected - l->naccepted >= MAXOUTSTANDING) return;
	fam = l->family;
	fd = __real_socket(fam, SOCK_STREAM, 0);
	if (fd < 0) return;
	c = &C[ncli];
	memset(c, 0, sizeof(*c));
	c->fd = fd; c->lidx = li; c->early = kind;
	if (fam == AF_UNIX && vh_chance(crng, 2, 3)) {
		/* bind to an abstract name so the peer address is checkable */
		struct sockaddr_un un; socklen_t ul;
		memset(&un, 0, sizeof(un)); un.sun_family = AF_UNIX;
		ul = (socklen_t)(offsetof(struct sockaddr_un, sun_path) + 1 +
		    (size_t)snprintf(un.sun_path + 1, sizeof(un.sun_path) - 1, "vc44-%d-%ld-c%d", (int)getpid(), vh_cur_case, ncli));
		bind(fd, (struct sockaddr *)&un, ul);
	}
	r = __real_connect(fd, (struct sockaddr *)&l->addr, l->addrlen);
	if (r < 0) { TR("connect to listener %d failed errno=%d", li, errno); __real_close(fd); vh_stat("connect_failed"); return; }
	c->locallen = sizeof(c->local);
	getsockname(fd, (struct sockaddr *)&c->local, &c->locallen);
	c->connected = 1;
	tok = (uint32_t)ncli;
	if (__real_write(fd, &tok, 4) != 4) TR("token write failed");
	ncli++;
	l->nconnected++;
	vh_stat("connects");
	op("c%d%s", li, kind == 1 ? "x" : kind == 2 ? "r" : "");
	if (kind == 1) { __real_close(fd); c->fd = -1; vh_stat("client_closed_before_accept"); }
	else if (kind == 2) {
		struct linger lg = {1, 0};
		setsockopt(fd, SOL_SOCKET, SO_LINGER, &lg, sizeof(lg));
		__real_close(fd); c->fd = -1; vh_stat("client_reset_before_accept");
	}
}

/* ---------------------------------------------------------------- stepping */
#include <poll.h>
int __real_poll(struct pollfd *, nfds_t, int);
int __real_clock_gettime(clockid_t, struct timespec *);
static int watchdog_fired;
static long wall_ms(void) { struct timespec ts; __real_clock_gettime(CLOCK_MONOTONIC, &ts); return ts.tv_sec * 1000L + ts.tv_nsec / 1000000L; }
static int lfd_readable(int fd) { struct pollfd p; p.fd = fd; p.events = POLLIN; p.revents = 0; return __real_poll(&p, 1, 0) > 0 && (p.revents & POLLIN); }
static void end_of_step(void)
{
	int i;
	for (i = 0; i < nacc; i++)
		if (A[i].state == ST_PENDING) {
			vh_viol(A[i].expect_deliver ? "C44:accepted-not-delivered" : "C44:accepted-fd-leaked",
			    "fd %d accepted on listener %d was neither passed to the callback nor closed by the library (cb %s at accept time); ops=%s",
			    A[i].fd, A[i].lidx, A[i].expect_deliver ? "set" : "NULL", opsbuf);
			__real_close(A[i].fd);
			A[i].state = ST_HCLOSED;
		}
	for (i = 0; i < MAXL; i++) {
		if (!L[i].used) continue;
		if (L[i].pending_err) {
			vh_viol("C44:nonretriable-error-not-reported", "listener %d: accept failed with errno %d (non-retriable), an error callback was set, but it was not invoked; ops=%s", i, L[i].pending_err_errno, opsbuf);
			L[i].pending_err = 0;
		}
		if (L[i].freed) check_free(&L[i], 0);
	}
}
static void run_idle(void)
{
	int it;
	for (it = 0; it < 200; it++) {
		long before = nevents;
		event_base_loop(base, EVLOOP_NONBLOCK);
		end_of_step();
		if (nevents == before) break;
	}
	if (it >= 200) vh_stat("idle_cap_hit");
	vh_stat("idle_runs");
}

static void plan_faults(void)
{
	static const int retri[] = { EAGAIN, EINTR, ECONNABORTED };
	static const int fatal[] = { EMFILE, ENFILE, ENOMEM, ENOBUFS, EPERM };
	int k = (int)vh_range(crng, 1, 3), j;
	long b4 = sf_calls(SF_accept4), b = sf_calls(SF_accept);
	long at = 0;
	for (j = 0; j < k; j++) {
		int e, r = (int)vh_below(crng, 10);
		at += (long)vh_range(crng, 1, 3);
		if (r < 4) { e = VH_PICK(crng, retri); interesting |= 64; }
		else if (r < 8) { e = VH_PICK(crng, fatal); }
		else {
			e = vh_chance(crng, 1, 2) ? ENOSYS : EINVAL;
			/* the fallback accept() may fail too */
			if (vh_chance(crng, 1, 3)) {
				int e2 = vh_chance(crng, 1, 2) ? VH_PICK(crng, retri) : VH_PICK(crng, fatal);
				b++;
				sf_plan(SF_accept, b, SFA_ERRNO, e2);
				op("fa%d", e2);
			} else b++;
		}
		sf_plan(SF_accept4, b4 + at, SFA_ERRNO, e);
		op("f%ld:%d", at, e);
	}
	vh_stat("fault_plans");
}

/* ---------------------------------------------------------------- listener creation */
static int mk_listener(int li)
{
	struct lst *l = &L[li];
	unsigned flags = 0;
	int fam, use_new_fd, backlog, cb0, r;
	struct sockaddr_storage ss; socklen_t sl;
	memset(l, 0, sizeof(*l));
	l->args[0].lidx = l->args[1].lidx = l->args[2].lidx = li;
	l->args[0].which = 0; l->args[1].which = 1; l->args[2].which = 2;
	r = (int)vh_below(crng, 20);
	fam = r < 12 ? AF_INET : (r < 17 ? AF_UNIX : (have_v6 ? AF_INET6 : AF_INET));
	use_new_fd = vh_chance(crng, 1, 3);
	if (vh_chance(crng, 1, 2)) flags |= LEV_OPT_CLOSE_ON_FREE;
	if (vh_chance(crng, 1, 4)) flags |= LEV_OPT_DISABLED;
	if (vh_chance(crng, 1, 3)) flags |= LEV_OPT_THREADSAFE;
	if (vh_chance(crng, 1, 4)) flags |= LEV_OPT_LEAVE_SOCKETS_BLOCKING;
	if (vh_chance(crng, 1, 4)) flags |= LEV_OPT_CLOSE_ON_EXEC;
	if (fam != AF_UNIX && vh_chance(crng, 1, 3)) flags |= LEV_OPT_REUSEABLE;
	if (fam != AF_UNIX && vh_chance(crng, 1, 8)) flags |= LEV_OPT_REUSEABLE_PORT;
	if (fam != AF_UNIX && !use_new_fd && vh_chance(crng, 1, 6)) { flags |= LEV_OPT_DEFERRED_ACCEPT; l->deferred = 1; }
	if (fam == AF_INET6 && !use_new_fd && vh_chance(crng, 1, 2)) flags |= LEV_OPT_BIND_IPV6ONLY;
	backlog = vh_chance(crng, 1, 2) ? -1 : (int)vh_range(crng, 16, 64);
	cb0 = vh_chance(crng, 1, 6) ? 0 : 1;
	memset(&ss, 0, sizeof(ss));
	if (fam == AF_INET) {
		struct sockaddr_in *sin = (void *)&ss;
		sin->sin_family = AF_INET; sin->sin_addr.s_addr = htonl(INADDR_LOOPBACK); sl = sizeof(*sin);
	} else if (fam == AF_INET6) {
		struct sockaddr_in6 *s6 = (void *)&ss;
		s6->sin6_family = AF_INET6; s6->sin6_addr = in6addr_loopback; sl = sizeof(*s6);
	} else {
		struct sockaddr_un *un = (void *)&ss;
		un->sun_family = AF_UNIX;
		sl = (socklen_t)(offsetof(struct sockaddr_un, sun_path) + 1 +
		    (size_t)snprintf(un->sun_path + 1, sizeof(un->sun_path) - 1, "vc44-%d-%ld-l%d", (int)getpid(), vh_cur_case, li));
	}
	l->flags = flags; l->family = fam;
	l->m_enabled = !(flags & LEV_OPT_DISABLED);
	l->m_cb = cb0; l->m_errcb = 0;
	/* the model must be in place before the listener exists: the observer filters on lfd */
	if (use_new_fd) {
		int fd = __real_socket(fam, SOCK_STREAM | SOCK_NONBLOCK, 0), one = 1;
		if (fd < 0) return -1;
		if (fam != AF_UNIX) setsockopt(fd, SOL_SOCKET, SO_REUSEADDR, &one, sizeof(one));
		if (bind(fd, (struct sockaddr *)&ss, sl) < 0) { __real_close(fd); return -1; }
		if (vh_chance(crng, 1, 2)) { if (listen(fd, backlog < 0 ? 64 : backlog) < 0) { __real_close(fd); return -1; } backlog = 0; }
		l->lfd = fd; l->lfd_open = 1; l->used = 1;
		l->lev = evconnlistener_new(base, cb0 ? conn_cb : NULL, &l->args[cb0], flags, backlog, fd);
		if (!l->lev) { l->used = 0; __real_close(fd); return -1; }
	} else {
		l->lev = evconnlistener_new_bind(base, cb0 ? conn_cb : NULL, &l->args[cb0], flags, backlog, (struct sockaddr *)&ss, (int)sl);
		if (!l->lev) return -1;
		l->lfd = evconnlistener_get_fd(l->lev); l->lfd_open = 1; l->used = 1;
	}
	l->addrlen = sizeof(l->addr);
	getsockname(l->lfd, (struct sockaddr *)&l->addr, &l->addrlen);
	if (evconnlistener_get_base(l->lev) != base) vh_viol("C44:wrong-base", "evconnlistener_get_base differs from the base given; ops=%s", opsbuf);
	op("L%d:f%d:%s:fl%x:cb%d:bl%d", li, fam, use_new_fd ? "fd" : "bind", flags, cb0, backlog);
	vh_stat("listeners");
	vh_stat(fam == AF_INET ? "listeners_tcp4" : fam == AF_INET6 ? "listeners_tcp6" : "listeners_unix");
	if (flags & LEV_OPT_DISABLED) vh_stat("listeners_created_disabled");
	if (l->deferred) vh_stat("listeners_deferred_accept");
	if (!cb0) vh_stat("listeners_created_without_cb");
	if (vh_chance(crng, 3, 4)) do_seterrcb(l, 1);
	return 0;
}

static void arm_actions(struct lst *l)
{
	static const int acts[] = { ACT_DISABLE, ACT_DISABLE_ENABLE, ACT_SETCB_NULL, ACT_SETCB_OTHER, ACT_SETCB_OTHER, ACT_FREE_SELF, ACT_FREE_OTHER,
		ACT_CONNECT_MORE, ACT_CLOSE_FD, ACT_CLOSE_FD, ACT_NONE, ACT_NONE, ACT_DISABLE_FREE_SELF, ACT_SETCB_FREE_SELF };
	int n = (int)vh_range(crng, 1, 3), i;
	l->nact = l->actpos = 0;
	for (i = 0; i < n && l->nact < MAXACT; i++) {
		int a = VH_PICK(crng, acts);
		l->act[l->nact++] = a;
		op("a%d:%s", (int)(l - L), actname[a]);
	}
}
static void arm_err_actions(struct lst *l)
{
	static const int acts[] = { ACT_DISABLE, ACT_FREE_SELF, ACT_SET_ERRCB_NULL, ACT_DISABLE_ENABLE, ACT_SETCB_NULL, ACT_NONE, ACT_NONE, ACT_FREE_OTHER, ACT_DISABLE_FREE_SELF };
	int n = (int)vh_range(crng, 1, 2), i;
	l->neact = l->eactpos = 0;
	for (i = 0; i < n && l->neact < MAXACT; i++) {
		int a = VH_PICK(crng, acts);
		l->eact[l->neact++] = a;
		op("e%d:%s", (int)(l - L), actname[a]);
	}
}

static int count_open_fds(void)
{
	int fd, n = 0;
	for (fd = 0; fd < 400; fd++) if (fcntl(fd, F_GETFD) != -1) n++;
	return n;
}

static void run_case(vh_rng *rng)
{
	struct event_config *cfg;
	int nl, i, nsteps, s, fds0, fds1;
	long blocks0;
	static const char *methods[] = { "epoll", "poll", "select" };
	int keep = (int)vh_below(rng, 5); /* 0,1,2: epoll ; 3 poll ; 4 select */

	crng = rng;
	memset(L, 0, sizeof(L)); ncli = 0; nacc = 0; nevents = 0; cb_depth = 0;
	opslen = 0; opsbuf[0] = 0; ophash = 0; interesting = 0; ndelivered_case = 0;
	fds0 = count_open_fds();
	blocks0 = mf_live_blocks;
	sf_reset();
	sf_observer = observer;
	sf_fd_filter = fd_filter;

	cfg = event_config_new();
	if (keep >= 3) for (i = 0; i < 3; i++) if (i != keep - 2) event_config_avoid_method(cfg, methods[i]);
	if (keep == 1) event_config_set_flag(cfg, EVENT_BASE_FLAG_EPOLL_USE_CHANGELIST);
	base = event_base_new_with_config(cfg);
	event_config_free(cfg);
	if (!base) { vh_stat("base_new_failed"); return; }
	op("B%s", event_base_get_method(base));

	nl = vh_chance(rng, 1, 4) ? 2 : 1;
	for (i = 0; i < nl; i++) if (mk_listener(i) < 0) vh_stat("listener_new_failed");
	nsteps = (int)vh_range(rng, 4, vh_opt.thorough ? 30 : 14);
	for (s = 0; s < nsteps; s++) {
		int li = (int)vh_below(rng, (uint64_t)nl);
		struct lst *l = &L[li];
		int r = (int)vh_below(rng, 100);
		if (!l->used) continue;
		if (r < 30) {
			int k = (int)vh_range(rng, 1, 4), j;
			if (vh_chance(rng, 1, 3)) arm_actions(l);
			for (j = 0; j < k; j++) do_connect(li, vh_chance(rng, 1, 8) ? (int)vh_range(rng, 1, 2) : 0);
		} else if (r < 55) {
			op("run"); run_idle();
		} else if (r < 67) {
			if (vh_chance(rng, 1, 2)) arm_err_actions(l);
			plan_faults();
			op("run"); run_idle();
		} else if (r < 74) do_disable(l);
		else if (r < 82) do_enable(l);
		else if (r < 90) do_setcb(l, (int)vh_below(rng, 3));
		else if (r < 94) do_seterrcb(l, vh_chance(rng, 2, 3));
		else if (r < 97) do_free(l);
		else arm_actions(l);
	}
	/* settle: no more faults */
	sf_reset();
	op("run"); run_idle();
	if (vh_chance(rng, 3, 4)) {
		/* drain: an enabled listener with a callback must empty its backlog */
		for (i = 0; i < MAXL; i++) {
			struct lst *l = &L[i];
			if (!l->used || l->freed) continue;
			l->nact = l->actpos = 0;
			do_setcb(l, 1);
			do_enable(l);
		}
		op("run"); run_idle();
		for (i = 0; i < MAXL; i++) {
			struct lst *l = &L[i];
			long t0 = wall_ms();
			if (!l->used || l->freed) continue;
			vh_stat("drain_checks");
			/* Loopback connects normally sit in the accept queue at once; on a loaded machine the last handshake
			 * segment can be processed late.  The verdict therefore rests on the kernel's own view: the listening
			 * socket polls readable (a connection is queued), the loop ran, and still nothing was accepted. */
			while (l->naccepted != l->nconnected) {
				if (lfd_readable(l->lfd)) {
					int a = l->naccepted;
					run_idle();
					if (l->naccepted == a && lfd_readable(l->lfd)) {
						vh_viol("C44:connection-never-accepted", "listener %d enabled with a callback, no faults: its socket polls readable (%d clients connected, %d accepted) but running the loop to idle accepts nothing; ops=%s",
						    i, l->nconnected, l->naccepted, opsbuf);
						break;
					}
					continue;
				}
				if (wall_ms() - t0 > 4000) { watchdog_fired = 1; vh_stat("watchdog_fired"); break; }
				usleep(300); vh_stat("patience_sleeps");
			}
		}
		for (i = 0; i < ncli; i++)
			if (C[i].connected && L[C[i].lidx].used && !L[C[i].lidx].freed && C[i].delivered == 0) {
				/* accepted while cb was NULL -> closed by the library: fine.  Count. */
				vh_stat("clients_not_delivered_closed_by_library");
			}
	}
	for (i = 0; i < MAXL; i++) if (L[i].used && !L[i].freed) do_free(&L[i]);
	op("run"); run_idle();
	/* the harness now closes what it owns */
	for (i = 0; i < MAXL; i++) if (L[i].used && L[i].lfd_open) { __real_close(L[i].lfd); L[i].lfd_open = 0; }
	for (i = 0; i < nacc; i++) if (A[i].state == ST_DELIVERED) { __real_close(A[i].fd); A[i].state = ST_HCLOSED; }
	for (i = 0; i < ncli; i++) if (C[i].fd >= 0) { __real_close(C[i].fd); C[i].fd = -1; }
	event_base_free(base); base = NULL;
	sf_observer = NULL; sf_fd_filter = NULL;
	fds1 = count_open_fds();
	if (fds1 != fds0)
		vh_viol("C44:fd-leak", "open descriptors before the case %d, after freeing everything %d; ops=%s", fds0, fds1, opsbuf);
	if (mf_live_blocks != blocks0)
		vh_viol("C44:memory-leak", "library allocations live before the case %ld, after %ld; ops=%s", blocks0, mf_live_blocks, opsbuf);
	for (i = 0; i < ncli; i++) if (C[i].delivered) vh_stat("clients_delivered_once");
	if (ndelivered_case > 0 && interesting) {
		vh_distinct(ophash);
		{ char esc[1500]; vh_sample(2, "{\"ops\":\"%s\",\"delivered\":%d}", vh_jesc(esc, sizeof(esc), opsbuf, opslen), ndelivered_case); }
	}
}

static void logcb(int sev, const char *msg)
{
	if (sev >= EVENT_LOG_ERR) fprintf(stderr, "[err] %s\n", msg);   /* assertion texts: vlib keys them */
	else if (sev >= EVENT_LOG_WARN) vh_stat("library_warnings");
}

int main(int argc, char **argv)
{
	long idx; vh_rng rng;
	int fd;
	vh_init(argc, argv);
	mf_install();
	event_set_log_callback(logcb);
	ts_mode = vh_opt.mode && !strcmp(vh_opt.mode, "ts");
	if (ts_mode) evthread_use_pthreads();
	vclk_enable(1000000);
	fd = __real_socket(AF_INET6, SOCK_STREAM, 0);
	if (fd >= 0) {
		struct sockaddr_in6 s6; memset(&s6, 0, sizeof(s6)); s6.sin6_family = AF_INET6; s6.sin6_addr = in6addr_loopback;
		have_v6 = bind(fd, (struct sockaddr *)&s6, sizeof(s6)) == 0;
		__real_close(fd);
	}
	{ /* warm-up: lazily created process-wide state must not count as a per-case leak */
		struct event_base *b = event_base_new(); if (b) event_base_free(b);
	}
	while (vh_next_case(&idx, &rng)) {
		vh_stat("cases");
		if (V) fprintf(stderr, "case %ld\n", idx);
		run_case(&rng);
	}
	vh_finish();
	return watchdog_fired ? 3 : 0;   /* generous wall-clock watchdog fired: the runner records the shard as inconclusive */
}
