/* C09: cross-thread calls are race-free, never lost, and event_del waits.
 *
 * Real clock, real threads: one loop thread runs event_base_loop() and sleeps
 * on a one-hour timer; 1..6 worker threads call event_add / event_del /
 * event_active / loopbreak / bufferevent / evbuffer functions on shared
 * objects.  Two kinds of cases:
 *   storm – several workers, random mix of operations, slow callbacks;
 *   solo  – one worker, one kind of operation, every ticket awaited before the
 *           next is issued, so nothing else can wake the loop by accident.
 * Oracles (all logical; wall clock only as watchdog):
 *   ticket     every cross-thread event_active / event_add(10 ms) / event_add(io
 *              that is ready) / loopbreak / bufferevent_write on an object owned
 *              by the issuing worker must be acted on by the loop (callback
 *              entry after the ticket was issued, loop return, bytes received)
 *              – never only after the one-hour timer.  Watchdog 15 s => the
 *              case is suspect and re-run once; suspect again => lost-wakeup.
 *   del-waits  callbacks bracket themselves with in_cb; right after event_del /
 *              event_del_block returns in the owning worker in_cb must be 0 and
 *              no callback may start until the worker re-arms the event.
 *   conservation  tickets issued = serviced + cancelled-by-del; bytes written =
 *              bytes received; evbuffer adds - removes = final length.
 *   TSan / ASan / assertions are turned into violations by the driver.
 */
#include "vh.h"
#include <pthread.h>
#include <stdatomic.h>
#include <unistd.h>
#include <errno.h>
#include <signal.h>
#include <fcntl.h>
#include <sys/socket.h>
#include <event2/event.h>
#include <event2/thread.h>
#include <event2/buffer.h>
#include <event2/bufferevent.h>
#include <event2/util.h>
#include <event2/watch.h>

int __real_clock_gettime(clockid_t, struct timespec *);
ssize_t __real_write(int, const void *, size_t);
ssize_t __real_read(int, void *, size_t);
ssize_t __real_recv(int, void *, size_t, int);
int __real_close(int);

#define WATCHDOG_MS 15000
#define MAXSLOT 10
#define MAXWORK 6

enum { K_USER, K_TIMER, K_IO, K_SIG, K_IOP, K_IOW, K__N };
static const char *const kind_name[] = { "event_active", "event_add-timer", "event_add-io", "event_active-signal", "event_active-persistent-io", "event_add-write-on-fd-with-reader" };
enum { OP_TICKET, OP_DEL, OP_DEL_BLOCK, OP_DEL_NOBLOCK, OP_BREAK, OP_BEVWRITE, OP_BEVTOGGLE, OP_EVBUF, OP_CHAOS, OP_QUERY, OP__N };

struct slot {
	struct event *ev, *ev2;
	int kind, idx, chaos;
	int sp[2];
	pthread_mutex_t own;
	atomic_int in_cb, deleted;
	atomic_long issued, serviced, cancelled_upto, cb_count, n_cancelled_tickets;
};

struct kase {
	long idx; int solo, solo_op, solo_kind, nworkers, nslots, ops_per_worker, method, pipe_notify, slow_permille, bev_defer;
	struct event_base *base;
	struct slot slot[MAXSLOT];
	struct event *hour_ev, *started_ev, *poke_ev;
	int poke[2]; atomic_long n_highfd;
	atomic_int hour_fired, running, stop;
	atomic_long gen, iters;
	atomic_int nonblock_guard;
	struct evwatch *iter_watch;
	pthread_mutex_t brk_mu;
	struct bufferevent *bevA, *bevB, *pairA, *pairB;
	int bsp[2];
	atomic_long sent, received, psent, preceived;
	struct evbuffer *shared;
	atomic_long eb_added, eb_removed;
	/* results */
	atomic_int suspect;
	char suspect_what[160];
	pthread_mutex_t res_mu;
	atomic_long n_quiet_checks, n_quiet_iters_max;
	atomic_long n_tickets, n_serviced_waited, n_dels, n_dels_during_cb, n_breaks, n_bevwrites, n_chaos, n_cb_slow, n_del_cancel;
	vh_rng cb_rng;
};
static struct kase K;
static int use_lockmon;
/* hang watchdog: if no worker operation and no callback completes for HANG_S seconds the process gives up with
 * exit code 2 (inconclusive for the driver; sanitizer reports already printed still count) instead of sitting
 * in the driver's much longer shard timeout */
#define HANG_S 120
static atomic_long heartbeat;
static void *hang_watch(void *a)
{
	long last = -1; int idle = 0;
	(void)a;
	for (;;) {
		sleep(1);
		if (atomic_load(&heartbeat) != last) { last = atomic_load(&heartbeat); idle = 0; continue; }
		if (++idle >= HANG_S) {
			fprintf(stderr, "h_thread: no operation or callback completed for %d s in case %ld (a thread is stuck inside a library call?) - giving up\n", HANG_S, K.idx);
			fflush(stdout);
			_exit(2);
		}
	}
	return NULL;
}

static int64_t now_ms(void) { struct timespec ts; __real_clock_gettime(CLOCK_MONOTONIC, &ts); return (int64_t)ts.tv_sec * 1000 + ts.tv_nsec / 1000000; }
static void set_suspect(const char *fmt, ...)
{
	va_list ap;
	pthread_mutex_lock(&K.res_mu);
	if (!atomic_load(&K.suspect)) {
		va_start(ap, fmt); vsnprintf(K.suspect_what, sizeof(K.suspect_what), fmt, ap); va_end(ap);
		atomic_store(&K.suspect, 1);
	}
	pthread_mutex_unlock(&K.res_mu);
}
static void viol(const char *key, const char *fmt, ...)
{
	char buf[512]; va_list ap;
	va_start(ap, fmt); vsnprintf(buf, sizeof(buf), fmt, ap); va_end(ap);
	pthread_mutex_lock(&K.res_mu);
	vh_viol(key, "%s", buf);
	pthread_mutex_unlock(&K.res_mu);
}
/* wake the loop through the kernel (readable socket), independent of the library's notification */
static void poke_loop(void) { char c = 'p'; (void)__real_write(K.poke[1], &c, 1); }

/* wait until *v >= want; 1 ok, 0 watchdog */
static int wait_ge(atomic_long *v, long want, const char *what)
{
	int64_t t0 = now_ms();
	int spins = 0;
	while (atomic_load(v) < want) {
		if (spins++ < 50) sched_yield(); else usleep(200);
		if ((spins & 1023) == 0) atomic_fetch_add(&heartbeat, 1);
		if ((spins & 63) == 0 && now_ms() - t0 > WATCHDOG_MS) {
			set_suspect("%s not acted on within %d ms while the loop sleeps on its one-hour timer", what, WATCHDOG_MS);
			poke_loop();
			/* give the poked loop a chance so the case can be torn down */
			t0 = now_ms();
			while (atomic_load(v) < want && now_ms() - t0 < 5000) usleep(1000);
			return 0;
		}
	}
	return 1;
}

/* Loop-iteration monitor: a prepare watcher counts the iterations of the loop.  After a cross-thread wake-up has
 * been serviced and nothing else is posted, the loop must go back to blocking: over a quiet period the count may
 * grow by a handful of iterations, never by hundreds (a notify fd that stays readable makes the loop spin).  The
 * verdict is on the iteration count; the sleep only has to be long enough for a spinning loop to show. */
#define QUIET_MS 30
#define QUIET_MAX_ITERS 50
static void iter_cb(struct evwatch *w, const struct evwatch_prepare_cb_info *info, void *arg)
{
	(void)w; (void)info; (void)arg;
	if (atomic_fetch_add(&K.iters, 1) > 200000 && atomic_load(&K.nonblock_guard)) {
		/* event_base_loop(EVLOOP_NONBLOCK) of the final check does not come back */
		atomic_store(&K.nonblock_guard, 2);
		event_base_loopbreak(K.base);
	}
}
static void viol(const char *key, const char *fmt, ...);
static void quiet_check(const char *after)
{
	long c0, c1;
	struct timespec ts = { 0, QUIET_MS * 1000000L };
	c0 = atomic_load(&K.iters);
	nanosleep(&ts, NULL);
	c1 = atomic_load(&K.iters);
	atomic_fetch_add(&K.n_quiet_checks, 1);
	if (c1 - c0 > atomic_load(&K.n_quiet_iters_max)) atomic_store(&K.n_quiet_iters_max, c1 - c0);
	if (c1 - c0 > QUIET_MAX_ITERS)
		viol("C09:loop-spins-after-wakeup", "%s: nothing was posted for %d ms but the loop made %ld iterations instead of blocking (backend %s, %s notification)",
		    after, QUIET_MS, c1 - c0, K.method == 0 ? "epoll" : K.method == 1 ? "poll" : "select", K.pipe_notify ? "pipe" : "eventfd");
}

/* ------------------------------------------------------------------ callbacks (loop thread) */
static void maybe_slow(void)
{
	if ((int)vh_below(&K.cb_rng, 1000) < K.slow_permille) { atomic_fetch_add(&K.n_cb_slow, 1); usleep((useconds_t)vh_below(&K.cb_rng, 1500)); }
}
static void slot_cb(evutil_socket_t fd, short what, void *arg)
{
	struct slot *s = arg;
	long t;
	(void)fd; (void)what;
	atomic_store(&s->in_cb, 1);
	if (!s->chaos && atomic_load(&s->deleted))
		viol("C09:callback-after-del", "slot %d (%s): callback started after event_del() had returned in the owning thread and before it re-armed the event", s->idx, kind_name[s->kind]);
	t = atomic_load(&s->issued);
	atomic_fetch_add(&s->cb_count, 1);
	atomic_fetch_add(&heartbeat, 1);
	maybe_slow();
	if (atomic_load(&s->serviced) < t) atomic_store(&s->serviced, t);
	atomic_store(&s->in_cb, 0);
}
static void hour_cb(evutil_socket_t fd, short what, void *arg) { (void)fd; (void)what; (void)arg; atomic_store(&K.hour_fired, 1); }
static void started_cb(evutil_socket_t fd, short what, void *arg) { (void)fd; (void)what; (void)arg; atomic_store(&K.running, 1); }
static void poke_cb(evutil_socket_t fd, short what, void *arg) { char b[64]; (void)what; (void)arg; (void)__real_recv(fd, b, sizeof(b), MSG_DONTWAIT); }
/* registered for EV_READ on a socket nobody ever writes to, and never activated by hand: any callback is one the backend
 * made up (e.g. a result set that does not belong to the wait that just returned) */
static void never_cb(evutil_socket_t fd, short what, void *arg)
{
	char b[8];
	(void)arg;
	if (__real_recv(fd, b, sizeof(b), MSG_PEEK | MSG_DONTWAIT) < 0 && (errno == EAGAIN || errno == EWOULDBLOCK))
		viol("C09:spurious-callback", "read callback (what=0x%x) on fd %d, which is not readable and whose event nobody activated", what, (int)fd);
}
static void bevB_read(struct bufferevent *b, void *arg)
{
	struct evbuffer *in = bufferevent_get_input(b);
	size_t n = evbuffer_get_length(in);
	evbuffer_drain(in, n);
	atomic_fetch_add((atomic_long *)arg, (long)n);
	maybe_slow();
}
static void bev_event(struct bufferevent *b, short what, void *arg) { (void)b; (void)what; (void)arg; }
static void bev_write(struct bufferevent *b, void *arg) { (void)b; (void)arg; }

static void *loop_main(void *a)
{
	(void)a;
	if (use_lockmon) lm_thread_seed(vh_mix64(vh_opt.seed ^ (uint64_t)K.idx) ^ 0x100);
	while (!atomic_load(&K.stop)) {
		event_active(K.started_ev, EV_TIMEOUT, 1);
		event_base_loop(K.base, EVLOOP_NO_EXIT_ON_EMPTY);
		atomic_store(&K.running, 0);
		atomic_fetch_add(&K.gen, 1);
	}
	return NULL;
}

/* ------------------------------------------------------------------ worker operations */
static const struct timeval tv10ms = { 0, 10000 };

static void issue_ticket(struct slot *s, vh_rng *r, int wait)
{
	long t;
	char what[96];
	atomic_store(&s->deleted, 0);
	t = atomic_fetch_add(&s->issued, 1) + 1;
	atomic_fetch_add(&K.n_tickets, 1);
	switch (s->kind) {
	case K_USER: event_active(s->ev, EV_READ, 1); break;
	case K_IOP: event_active(s->ev, EV_READ, 1); break;
	case K_SIG: event_active(s->ev, EV_SIGNAL, (short)vh_range(r, 1, 3)); break;
	case K_TIMER: if (event_add(s->ev, &tv10ms) != 0) viol("C09:api-failed", "event_add(timer) failed"); break;
	case K_IO: if (event_add(s->ev, NULL) != 0) viol("C09:api-failed", "event_add(io) failed"); break;
	case K_IOW: if (event_add(s->ev, NULL) != 0) viol("C09:api-failed", "event_add(io write) failed"); break;
	}
	if (wait) {
		snprintf(what, sizeof(what), "cross-thread %s (slot %d, ticket %ld)", kind_name[s->kind], s->idx, t);
		if (wait_ge(&s->serviced, t, what)) { atomic_fetch_add(&K.n_serviced_waited, 1); if (K.solo && vh_chance(r, 1, 6)) quiet_check(what); }
	}
}
static void do_del(struct slot *s, int how)
{
	int was_in_cb = atomic_load(&s->in_cb);
	if (how == OP_DEL) event_del(s->ev); else if (how == OP_DEL_BLOCK) event_del_block(s->ev); else { event_del_noblock(s->ev); return; }
	if (atomic_load(&s->in_cb))
		viol("C09:del-returned-during-callback", "slot %d (%s): %s returned in a non-loop thread while the event's callback was still running",
		    s->idx, kind_name[s->kind], how == OP_DEL ? "event_del" : "event_del_block");
	atomic_store(&s->deleted, 1);
	atomic_fetch_add(&K.n_dels, 1);
	if (was_in_cb) atomic_fetch_add(&K.n_dels_during_cb, 1);
	{
		long is = atomic_load(&s->issued), sv = atomic_load(&s->serviced);
		if (sv < is) { atomic_fetch_add(&s->n_cancelled_tickets, is - (sv > atomic_load(&s->cancelled_upto) ? sv : atomic_load(&s->cancelled_upto))); atomic_store(&s->cancelled_upto, is); atomic_fetch_add(&K.n_del_cancel, 1); }
	}
}
static void do_break(vh_rng *r)
{
	long g0;
	int64_t t0 = now_ms();
	int which = (int)vh_below(r, 3);
	pthread_mutex_lock(&K.brk_mu);
	while (!atomic_load(&K.running)) { usleep(100); if (now_ms() - t0 > WATCHDOG_MS) { set_suspect("loop thread did not start running"); poke_loop(); pthread_mutex_unlock(&K.brk_mu); return; } }
	g0 = atomic_load(&K.gen);
	if (which == 0) event_base_loopbreak(K.base);
	else if (which == 1) { event_base_loopcontinue(K.base); event_base_loopbreak(K.base); }
	else event_base_loopexit(K.base, NULL);
	atomic_fetch_add(&K.n_breaks, 1);
	(void)wait_ge(&K.gen, g0 + 1, which == 2 ? "cross-thread event_base_loopexit" : "cross-thread event_base_loopbreak");
	pthread_mutex_unlock(&K.brk_mu);
}
static char wbuf[4096];
static void do_bevwrite(vh_rng *r, int wait)
{
	size_t n = (size_t)vh_range(r, 1, sizeof(wbuf));
	int pair = K.pairA && vh_chance(r, 1, 3);
	long target;
	if (pair) { target = atomic_fetch_add(&K.psent, (long)n) + (long)n; if (bufferevent_write(K.pairA, wbuf, n) != 0) viol("C09:api-failed", "bufferevent_write failed"); }
	else { target = atomic_fetch_add(&K.sent, (long)n) + (long)n; if (bufferevent_write(K.bevA, wbuf, n) != 0) viol("C09:api-failed", "bufferevent_write failed"); }
	atomic_fetch_add(&K.n_bevwrites, 1);
	if (wait && wait_ge(pair ? &K.preceived : &K.received, target, pair ? "cross-thread bufferevent_write (pair)" : "cross-thread bufferevent_write (socket)") && K.solo && vh_chance(r, 1, 6))
		quiet_check("cross-thread bufferevent_write serviced");
}
static void do_bevtoggle(vh_rng *r)
{
	struct bufferevent *b = vh_chance(r, 1, 2) ? K.bevA : K.bevB;
	size_t lo, hi;
	switch (vh_below(r, 6)) {
	case 0: bufferevent_disable(b, EV_WRITE); bufferevent_enable(b, EV_WRITE); break;
	case 1: bufferevent_disable(b, EV_READ); bufferevent_enable(b, EV_READ); break;
	case 2: (void)bufferevent_get_enabled(b); bufferevent_getwatermark(b, EV_READ, &lo, &hi); break;
	case 3: bufferevent_lock(b); (void)evbuffer_get_length(bufferevent_get_output(b)); bufferevent_unlock(b); break;
	case 4: bufferevent_setwatermark(b, EV_WRITE, 0, 0); break;
	default: bufferevent_flush(b, EV_WRITE, BEV_NORMAL); break;
	}
}
static void do_evbuf(vh_rng *r)
{
	char tmp[256];
	if (vh_chance(r, 1, 2)) { size_t n = (size_t)vh_range(r, 1, 200); if (evbuffer_add(K.shared, wbuf, n) == 0) atomic_fetch_add(&K.eb_added, (long)n); }
	else { int n = evbuffer_remove(K.shared, tmp, (size_t)vh_range(r, 1, sizeof(tmp))); if (n > 0) atomic_fetch_add(&K.eb_removed, n); }
	if (vh_chance(r, 1, 4)) { evbuffer_lock(K.shared); (void)evbuffer_get_length(K.shared); (void)evbuffer_pullup(K.shared, 16); evbuffer_unlock(K.shared); }
}
static void do_chaos(struct slot *s, vh_rng *r)
{
	struct timeval tv; tv.tv_sec = 0; tv.tv_usec = (long)vh_below(r, 3000);
	atomic_fetch_add(&K.n_chaos, 1);
	switch (vh_below(r, 9)) {
	case 0: event_add(s->ev, &tv); break;
	case 1: event_add(s->ev, NULL); break;
	case 2: event_del(s->ev); break;
	case 3: event_del_noblock(s->ev); break;
	case 4: event_active(s->ev, EV_WRITE, 1); break;
	case 5: (void)event_pending(s->ev, EV_READ | EV_WRITE | EV_TIMEOUT, &tv); break;
	case 6: /* CALIBRATED: event_priority_set() takes no lock and is not among the calls the property lists; not exercised cross-thread */
		(void)event_get_events(s->ev); break;
	case 7: event_remove_timer(s->ev); break;
	default: event_base_active_by_fd(K.base, s->sp[0], EV_READ); break;
	}
}
static void do_query(vh_rng *r)
{
	struct timeval tv;
	switch (vh_below(r, 5)) {
	case 0: (void)event_base_get_num_events(K.base, EVENT_BASE_COUNT_ACTIVE | EVENT_BASE_COUNT_ADDED); break;
	case 1: (void)event_base_gettimeofday_cached(K.base, &tv); break;
	case 2: /* CALIBRATED: event_base_got_exit() is not among the calls the property names (event_loopexit_cb sets the flag without the lock) */
		(void)event_base_got_break(K.base); break;
	case 3: (void)event_base_get_running_event(K.base); break;
	default: (void)event_base_get_max_events(K.base, EVENT_BASE_COUNT_ACTIVE, 0); break;
	}
}

struct wctx { int id; vh_rng rng; };
static void *worker_main(void *a)
{
	struct wctx *w = a;
	vh_rng *r = &w->rng;
	int i;
	if (use_lockmon) lm_thread_seed(vh_rand(r));
	for (i = 0; i < K.ops_per_worker && !atomic_load(&K.suspect); i++) {
		int op;
		if (K.solo) op = K.solo_op;
		else {
			static const int mix[] = { OP_TICKET, OP_TICKET, OP_TICKET, OP_TICKET, OP_DEL, OP_DEL, OP_DEL_BLOCK, OP_DEL_NOBLOCK, OP_BREAK,
				OP_BEVWRITE, OP_BEVWRITE, OP_BEVTOGGLE, OP_EVBUF, OP_EVBUF, OP_CHAOS, OP_CHAOS, OP_CHAOS, OP_QUERY };
			op = VH_PICK(r, mix);
			if (op == OP_BREAK && !vh_chance(r, 1, 4)) op = OP_TICKET;
		}
		switch (op) {
		case OP_TICKET: case OP_DEL: case OP_DEL_BLOCK: case OP_DEL_NOBLOCK: {
			/* find an owned (non-chaos) slot nobody else is using */
			int tries, got = 0;
			for (tries = 0; tries < 8 && !got; tries++) {
				struct slot *s = &K.slot[vh_below(r, (uint64_t)K.nslots)];
				if (s->chaos || (K.solo && s->kind != K.solo_kind)) continue;
				if (pthread_mutex_trylock(&s->own) != 0) continue;
				got = 1;
				if (op == OP_TICKET) {
					issue_ticket(s, r, K.solo || vh_chance(r, 1, 2));
					/* often delete right away so the del lands while the callback runs */
					if (!K.solo && vh_chance(r, 1, 3)) { if (vh_chance(r, 1, 2)) usleep((useconds_t)vh_below(r, 300)); do_del(s, vh_chance(r, 1, 3) ? OP_DEL_BLOCK : OP_DEL); }
				} else if (op == OP_DEL_NOBLOCK) {
					/* no guarantee attached: only on an event with nothing outstanding */
					if (atomic_load(&s->serviced) >= atomic_load(&s->issued) || atomic_load(&s->cancelled_upto) >= atomic_load(&s->issued)) do_del(s, op);
				} else do_del(s, op);
				pthread_mutex_unlock(&s->own);
			}
			break; }
		case OP_BREAK: do_break(r); break;
		case OP_BEVWRITE: do_bevwrite(r, K.solo || vh_chance(r, 1, 4)); break;
		case OP_BEVTOGGLE: do_bevtoggle(r); break;
		case OP_EVBUF: do_evbuf(r); break;
		case OP_CHAOS: {
			int k, n = 0; struct slot *c[MAXSLOT];
			for (k = 0; k < K.nslots; k++) if (K.slot[k].chaos) c[n++] = &K.slot[k];
			if (n) do_chaos(c[vh_below(r, (uint64_t)n)], r);
			break; }
		default: do_query(r); break;
		}
		atomic_fetch_add(&heartbeat, 1);
		if (!K.solo && vh_chance(r, 1, 16)) usleep((useconds_t)vh_below(r, 400));
	}
	return NULL;
}

/* ------------------------------------------------------------------ one case */
static const char *const methods[] = { "epoll", "poll", "select" };
static void plan_case(long idx, vh_rng *r)
{
	memset(&K, 0, sizeof(K));
	K.idx = idx;
	K.solo = vh_chance(r, 2, 5);
	K.method = vh_chance(r, 1, 2) ? (int)vh_range(r, 1, 2) : 0;
	K.pipe_notify = vh_chance(r, 1, 5);
	K.bev_defer = vh_chance(r, 1, 2);
	if (K.solo) {
		static const int sops[] = { OP_TICKET, OP_TICKET, OP_TICKET, OP_TICKET, OP_BREAK, OP_BEVWRITE };
		K.nworkers = 1;
		K.solo_op = VH_PICK(r, sops);
		K.solo_kind = (int)vh_below(r, K__N);
		K.ops_per_worker = (int)vh_range(r, 20, vh_opt.thorough ? 80 : 50);
		K.slow_permille = 0;
	} else {
		K.nworkers = (int)vh_range(r, 2, MAXWORK);
		K.ops_per_worker = (int)vh_range(r, 80, vh_opt.thorough ? 400 : 200);
		K.slow_permille = (int)vh_range(r, 50, 400);
	}
	K.nslots = K.solo ? K__N : (int)vh_range(r, 6, MAXSLOT);
}

static int run_case(long idx, vh_rng rng)
{
	vh_rng r = rng;
	struct event_config *cfg;
	pthread_t lt, wt[MAXWORK];
	struct wctx wc[MAXWORK];
	int i, bopts;
	struct timeval hour = { 3600, 0 };
	long issued = 0, serviced_or_cancelled = 0;
	uint64_t h;

	plan_case(idx, &r);
	vh_rng_seed(&K.cb_rng, vh_rand(&r));
	pthread_mutex_init(&K.brk_mu, NULL); pthread_mutex_init(&K.res_mu, NULL);
	cfg = event_config_new();
	for (i = 0; i < K.method; i++) event_config_avoid_method(cfg, methods[i]);
	sf_reset();
	if (K.pipe_notify) sf_plan(SF_eventfd, 0, SFA_ERRNO, ENOSYS);
	K.base = event_base_new_with_config(cfg);
	event_config_free(cfg);
	sf_reset();
	if (!K.base) { fprintf(stderr, "h_thread: no base\n"); exit(2); }
	event_base_priority_init(K.base, 2);
	K.iter_watch = evwatch_prepare_new(K.base, iter_cb, NULL);
	evutil_socketpair(AF_UNIX, SOCK_STREAM, 0, K.poke); evutil_make_socket_nonblocking(K.poke[0]); evutil_make_socket_nonblocking(K.poke[1]);
	K.poke_ev = event_new(K.base, K.poke[0], EV_READ | EV_PERSIST, poke_cb, NULL); event_add(K.poke_ev, NULL);
	K.hour_ev = event_new(K.base, -1, 0, hour_cb, NULL); event_add(K.hour_ev, &hour);
	K.started_ev = event_new(K.base, -1, 0, started_cb, NULL);
	for (i = 0; i < K.nslots; i++) {
		struct slot *s = &K.slot[i];
		s->idx = i; s->sp[0] = s->sp[1] = -1;
		s->kind = i < K__N ? i : (int)vh_below(&r, K__N);
		s->chaos = !K.solo && i >= K__N && vh_chance(&r, 2, 3);
		pthread_mutex_init(&s->own, NULL);
		if (s->kind == K_IO || s->kind == K_IOP || s->kind == K_IOW || s->chaos) {
			evutil_socketpair(AF_UNIX, SOCK_STREAM, 0, s->sp); evutil_make_socket_nonblocking(s->sp[0]); evutil_make_socket_nonblocking(s->sp[1]);
			if (s->kind == K_IO && !s->chaos) (void)__real_write(s->sp[1], "x", 1);   /* always readable, never drained */
			if (s->kind == K_IO && !s->chaos && K.method == 2) {
				/* select: a cross-thread event_add of a descriptor beyond the current fd_set size, made while the loop
				 * thread sleeps in select(), must not touch the sets that call is using (seed C09-4) */
				int hi = fcntl(s->sp[0], F_DUPFD, 130 + 90 * (i % 9));
				if (hi >= 0 && hi < 1000) { __real_close(s->sp[0]); s->sp[0] = hi; atomic_fetch_add(&K.n_highfd, 1); }
				else if (hi >= 0) __real_close(hi);
			}
		}
		switch (s->chaos ? K_IOP : s->kind) {
		case K_USER: s->ev = event_new(K.base, -1, 0, slot_cb, s); break;
		case K_TIMER: s->ev = event_new(K.base, -1, 0, slot_cb, s); break;
		case K_IO: s->ev = event_new(K.base, s->sp[0], EV_READ, slot_cb, s); break;
		case K_SIG: s->ev = event_new(K.base, SIGUSR2, EV_SIGNAL | EV_PERSIST, slot_cb, s); break;
		case K_IOW:
			/* the fd already carries a registered reader (never readable); the ticket adds the first writer (always
			 * writable): a backend that keeps its interest set in user space has to be woken to see it */
			s->ev2 = event_new(K.base, s->sp[0], EV_READ | EV_PERSIST, never_cb, NULL); event_add(s->ev2, NULL);
			s->ev = event_new(K.base, s->sp[0], EV_WRITE, slot_cb, s);
			break;
		default: s->ev = event_new(K.base, s->sp[0], EV_READ | EV_PERSIST, slot_cb, s); break;
		}
		if (vh_chance(&r, 1, 3)) event_priority_set(s->ev, 0);
		if (s->kind == K_SIG && !s->chaos) event_add(s->ev, NULL);
		if (s->kind == K_IOP && !s->chaos) event_add(s->ev, NULL);   /* registered, never readable: only event_active fires it */
	}
	bopts = BEV_OPT_THREADSAFE | (K.bev_defer ? BEV_OPT_DEFER_CALLBACKS : 0);
	evutil_socketpair(AF_UNIX, SOCK_STREAM, 0, K.bsp); evutil_make_socket_nonblocking(K.bsp[0]); evutil_make_socket_nonblocking(K.bsp[1]);
	K.bevA = bufferevent_socket_new(K.base, K.bsp[0], bopts | BEV_OPT_CLOSE_ON_FREE);
	K.bevB = bufferevent_socket_new(K.base, K.bsp[1], bopts | BEV_OPT_CLOSE_ON_FREE);
	bufferevent_setcb(K.bevA, NULL, bev_write, bev_event, NULL);
	bufferevent_setcb(K.bevB, bevB_read, NULL, bev_event, &K.received);
	bufferevent_enable(K.bevA, EV_WRITE); bufferevent_enable(K.bevB, EV_READ);
	{
		struct bufferevent *p[2];
		if (bufferevent_pair_new(K.base, bopts, p) == 0) {
			K.pairA = p[0]; K.pairB = p[1];
			bufferevent_setcb(K.pairB, bevB_read, NULL, bev_event, &K.preceived);
			bufferevent_enable(K.pairA, EV_WRITE); bufferevent_enable(K.pairB, EV_READ);
		}
	}
	K.shared = evbuffer_new(); evbuffer_enable_locking(K.shared, NULL);

	pthread_create(&lt, NULL, loop_main, NULL);
	for (i = 0; i < K.nworkers; i++) { wc[i].id = i; vh_rng_seed(&wc[i].rng, vh_rand(&r)); pthread_create(&wt[i], NULL, worker_main, &wc[i]); }
	for (i = 0; i < K.nworkers; i++) pthread_join(wt[i], NULL);

	/* resolve what is still outstanding: every ticket must be serviced or have been cancelled by a del */
	for (i = 0; i < K.nslots && !atomic_load(&K.suspect); i++) {
		struct slot *s = &K.slot[i];
		long is = atomic_load(&s->issued);
		char what[96];
		if (s->chaos || is == 0) continue;
		if (atomic_load(&s->cancelled_upto) >= is) continue;
		snprintf(what, sizeof(what), "cross-thread %s (slot %d, ticket %ld, checked at end of case)", kind_name[s->kind], i, is);
		(void)wait_ge(&s->serviced, is, what);
	}
	if (!atomic_load(&K.suspect)) {
		bufferevent_enable(K.bevA, EV_WRITE); bufferevent_enable(K.bevB, EV_READ);
		(void)wait_ge(&K.received, atomic_load(&K.sent), "bytes written with bufferevent_write (socket) from other threads");
		if (K.pairA) (void)wait_ge(&K.preceived, atomic_load(&K.psent), "bytes written with bufferevent_write (pair) from other threads");
	}
	/* everything posted has been acted on: silence the free-running chaos events, then the loop must block again */
	if (!atomic_load(&K.suspect)) {
		for (i = 0; i < K.nslots; i++) if (K.slot[i].chaos) event_del(K.slot[i].ev);
		{ struct timespec ts = { 0, 5000000L }; nanosleep(&ts, NULL); }
		quiet_check("end of case (all tickets resolved, chaos events deleted)");
	}
	/* free two bufferevents from this (non-loop) thread while the loop is still running */
	bufferevent_free(K.bevA);
	if (K.pairA) bufferevent_free(K.pairA);
	/* stop the loop (repeating the break is harmless: the thread may be between two incarnations) */
	{
		int64_t t0 = now_ms();
		atomic_store(&K.stop, 1);
		for (;;) {
			event_base_loopbreak(K.base);
			if (pthread_tryjoin_np(lt, NULL) == 0) break;
			usleep(500);
			if (now_ms() - t0 > WATCHDOG_MS) { if (!atomic_load(&K.suspect)) set_suspect("final cross-thread event_base_loopbreak not acted on"); poke_loop(); t0 = now_ms(); }
		}
	}
	/* the loop thread is gone; after all those cross-thread wake-ups a non-blocking loop must still come back */
	if (!atomic_load(&K.suspect)) {
		atomic_store(&K.iters, 0);
		atomic_store(&K.nonblock_guard, 1);
		event_base_loop(K.base, EVLOOP_NONBLOCK);
		if (atomic_load(&K.nonblock_guard) == 2)
			viol("C09:nonblock-loop-never-returns", "event_base_loop(EVLOOP_NONBLOCK) after cross-thread wake-ups was still iterating after 200000 iterations with nothing posted (backend %s, %s notification)",
			    K.method == 0 ? "epoll" : K.method == 1 ? "poll" : "select", K.pipe_notify ? "pipe" : "eventfd");
		atomic_store(&K.nonblock_guard, 0);
		vh_stat("nonblock_loop_returned_checks");
	}
	/* conservation */
	for (i = 0; i < K.nslots; i++) {
		struct slot *s = &K.slot[i];
		long is = atomic_load(&s->issued), sv = atomic_load(&s->serviced), cu = atomic_load(&s->cancelled_upto);
		if (s->chaos) continue;
		issued += is;
		serviced_or_cancelled += (sv > cu ? sv : cu);
		if (!atomic_load(&K.suspect) && (sv > cu ? sv : cu) < is)
			viol("C09:ticket-conservation", "slot %d (%s): %ld tickets issued, serviced up to %ld, cancelled up to %ld", i, kind_name[s->kind], is, sv, cu);
		if (is > 0 && atomic_load(&s->cb_count) == 0 && cu < is && !atomic_load(&K.suspect))
			viol("C09:ticket-conservation", "slot %d (%s): tickets issued but the callback never ran", i, kind_name[s->kind]);
	}
	if (!atomic_load(&K.suspect)) {
		long len = (long)evbuffer_get_length(K.shared);
		if (atomic_load(&K.eb_added) - atomic_load(&K.eb_removed) != len)
			viol("C09:evbuffer-conservation", "shared evbuffer: added %ld removed %ld but length %ld", atomic_load(&K.eb_added), atomic_load(&K.eb_removed), len);
		if (atomic_load(&K.received) != atomic_load(&K.sent))
			viol("C09:bufferevent-bytes", "socket bufferevent: %ld bytes written from other threads, %ld received", atomic_load(&K.sent), atomic_load(&K.received));
		if (K.pairB && atomic_load(&K.preceived) != atomic_load(&K.psent))
			viol("C09:bufferevent-bytes", "paired bufferevent: %ld bytes written from other threads, %ld received", atomic_load(&K.psent), atomic_load(&K.preceived));
	}
	if (atomic_load(&K.hour_fired)) set_suspect("the one-hour timer fired");
	/* teardown */
	bufferevent_free(K.bevB);
	if (K.pairB) bufferevent_free(K.pairB);
	evbuffer_free(K.shared);
	for (i = 0; i < K.nslots; i++) {
		struct slot *s = &K.slot[i];
		event_free(s->ev);
		if (s->ev2) event_free(s->ev2);
		if (s->sp[0] >= 0) { __real_close(s->sp[0]); __real_close(s->sp[1]); }
		pthread_mutex_destroy(&s->own);
	}
	event_free(K.hour_ev); event_free(K.started_ev); event_free(K.poke_ev);
	event_base_free(K.base);
	__real_close(K.poke[0]); __real_close(K.poke[1]);
	if (use_lockmon) { const char *lv = lm_take_violation(); if (lv) viol("C09:lock-ledger", "%s", lv); }

	/* stats */
	vh_stat_add("select_slots_on_high_fds", atomic_load(&K.n_highfd));
	vh_stat_add("tickets_issued", atomic_load(&K.n_tickets));
	vh_stat_add("tickets_awaited_and_serviced", atomic_load(&K.n_serviced_waited));
	vh_stat_add("tickets_cancelled_by_del", atomic_load(&K.n_del_cancel));
	vh_stat_add("event_del_calls_checked", atomic_load(&K.n_dels));
	vh_stat_add("event_del_while_callback_running", atomic_load(&K.n_dels_during_cb));
	vh_stat_add("loopbreak_tickets", atomic_load(&K.n_breaks));
	vh_stat_add("bufferevent_writes", atomic_load(&K.n_bevwrites));
	vh_stat_add("bufferevent_bytes", atomic_load(&K.sent) + atomic_load(&K.psent));
	vh_stat_add("evbuffer_bytes_added", atomic_load(&K.eb_added));
	vh_stat_add("chaos_ops", atomic_load(&K.n_chaos));
	vh_stat_add("slow_callbacks", atomic_load(&K.n_cb_slow));
	vh_stat_add("loop_incarnations", atomic_load(&K.gen));
	vh_stat_add("quiet_period_checks", atomic_load(&K.n_quiet_checks));
	if (atomic_load(&K.n_quiet_iters_max) > 10) vh_stat("cases_with_quiet_period_over_10_iterations");
	vh_stat(K.solo ? "cases_solo" : "cases_storm");
	vh_stat(K.method == 0 ? "cases_epoll" : K.method == 1 ? "cases_poll" : "cases_select");
	if (K.pipe_notify) vh_stat("cases_pipe_notify");
	h = vh_hash_bytes((uint64_t)idx, &rng, sizeof(rng));
	if (issued + atomic_load(&K.n_breaks) + atomic_load(&K.n_bevwrites) > 0 && !atomic_load(&K.suspect)) vh_distinct(h);
	vh_sample(3, "{\"case\":%ld,\"type\":\"%s\",\"solo_op\":%d,\"workers\":%d,\"ops_per_worker\":%d,\"backend\":\"%s\",\"notify\":\"%s\",\"tickets\":%ld,\"dels\":%ld,\"dels_during_cb\":%ld,\"breaks\":%ld,\"bev_bytes\":%ld,\"suspect\":%d}",
	    idx, K.solo ? "solo" : "storm", K.solo ? K.solo_op : -1, K.nworkers, K.ops_per_worker, methods[K.method], K.pipe_notify ? "pipe" : "eventfd",
	    atomic_load(&K.n_tickets), atomic_load(&K.n_dels), atomic_load(&K.n_dels_during_cb), atomic_load(&K.n_breaks), atomic_load(&K.sent) + atomic_load(&K.psent), atomic_load(&K.suspect));
	(void)serviced_or_cancelled;
	return atomic_load(&K.suspect);
}

static void log_cb(int sev, const char *msg) { (void)sev; (void)msg; }

int main(int argc, char **argv)
{
	long idx; vh_rng rng;
	vh_init(argc, argv);
	use_lockmon = vh_opt.mode && !strcmp(vh_opt.mode, "lockmon");
	if (use_lockmon) { lm_install(); lm_delay_permille = vh_opt.n1 > 0 ? (int)vh_opt.n1 : 60; }
	else evthread_use_pthreads();
	event_set_log_callback(log_cb);
	memset(wbuf, 'w', sizeof(wbuf));
	{ pthread_t wd; pthread_create(&wd, NULL, hang_watch, NULL); }
	while (vh_next_case(&idx, &rng)) {
		int s = run_case(idx, rng);
		atomic_fetch_add(&heartbeat, 1);
		vh_stat("cases");
		if (s) {
			char first[160];
			snprintf(first, sizeof(first), "%s", K.suspect_what);
			vh_stat("watchdog_fired");
			fprintf(stderr, "h_thread: case %ld suspect (%s); re-running once\n", idx, first);
			s = run_case(idx, rng);
			if (s) {
				const char *key = strstr(K.suspect_what, "bufferevent_write") ? "C09:lost-wakeup:bufferevent_write" :
				    strstr(K.suspect_what, "loopbreak") || strstr(K.suspect_what, "loopexit") ? "C09:lost-wakeup:loopbreak" :
				    strstr(K.suspect_what, "event_add-timer") ? "C09:lost-wakeup:event_add-timer" :
				    strstr(K.suspect_what, "event_add-io") ? "C09:lost-wakeup:event_add-io" :
				    strstr(K.suspect_what, "event_active") ? "C09:lost-wakeup:event_active" : "C09:lost-wakeup:other";
				vh_viol(key, "twice in a row: %s (first run: %s)", K.suspect_what, first);
				/* the verdict of this process is decided; every further case would cost two more watchdog periods */
				vh_stat("stopped_after_lost_wakeup");
				break;
			} else vh_stat("watchdog_retry_ok");
		}
	}
	libevent_global_shutdown();
	vh_finish();
	return 0;
}
